import JP.Props.C19bytes
import JP.Lemmas.LegacyFloat
import JP.Lemmas.LegacyFloatZero
import JP.Legacy.CheckFloat

/-!
# C19, `CreateMergePatch` of the legacy package on `float64` numbers

`Legacy.createMergePatchF` (`JP/Legacy/MergeFloat.lean`) is the model of the legacy `CreateMergePatch` for ALL
inputs: numbers are decoded by `strconv.ParseFloat` (an overflow is `ErrBadJSONDoc`), compared by Go's `==` on
`float64` and printed by `encoding/json`'s float encoder.  The driver compares it with the Go code on every
generated case (stream `legacy-create`).

C19 quantifies over "numbers spelled the way Go prints a float64": `createCanonical a b` (every number literal
`l` of both texts has `normNum l = some l`).  The counterparts of the `create_*` theorems of `C19bytes.lean` are
proved here under that hypothesis, for all documents:

* the two facts about numbers follow from `floatCanonical` by definition (`Legacy.encNum_of_canonical`,
  `Legacy.floatEqLit_good`) — except for the pair `0` / `-0`: both are canonical, and `0 == -0`.  The `create_*_float`
  theorems (statements on LITERALS, the exact counterparts of `C19bytes.lean`) carry `createNoNegZero a b` (no
  literal `-0`); `negZero_*` below show by evaluation that without it the patch of `{"a":0}` → `{"a":-0}` is `{}`,
  which does not reproduce the literal `-0`;
* `create_upToZero_float`: the same statements for EVERY canonical spelling, `-0` included, with numbers compared
  as `float64` — on canonical spellings float equality is equality of the literals after `-0 ↦ 0`
  (`Legacy.floatEqLit_canonical`, `Legacy.zeroNorm`): the patch, zero-normalised, is the diff of the
  zero-normalised documents, it is minimal, `{}` iff the documents are equal, and merging it into `A` gives `B`
  (by the RFC 7396 specification and by the legacy `MergePatch` on the texts).  This is exactly the run-time
  predicate `Legacy.c19create`;
* `createF_agrees`: inside the domain (no `-0`) the float model is the literal model `Legacy.createMergePatch`;
* `create_rejects_float`, `create_overflow_float`: outcome classes, for ALL inputs (no hypothesis on numbers);
* `createF_agrees_modelled`: the integer domain of the former model (`createModelled`) is inside, GIVEN
  `ModelledGoodGoal` (a plain integer of at most 15 digits is printed back unchanged — a statement about the
  shortest-digits search).  `JP/Props/C19floatNat.lean` proves `ModelledGoodGoal` from the float theorems of
  `JP/Props/C17float.lean`; this file does not depend on them.
-/

namespace JP
namespace C19
open Value Legacy
open Impl (GC GC_of_parse getDiff anyOfM)

/-! ## from the hypotheses on texts to the predicate on values -/

theorem all_goodLit : ∀ (ls : List Bytes), ls.all floatCanonical = true → ls.contains (ascii "-0") = false →
    ls.all goodLit = true
  | [], _, _ => rfl
  | l :: ls, h, hz => by
    simp only [List.all_cons, Bool.and_eq_true] at h
    simp only [List.contains_cons, Bool.or_eq_false_iff] at hz
    simp only [List.all_cons, Bool.and_eq_true]
    refine ⟨?_, all_goodLit ls h.2 hz.2⟩
    simp only [goodLit, h.1, Bool.true_and, bne_iff_ne, ne_eq]
    intro e
    have := hz.1
    rw [e] at this
    simp at this

theorem good_of_hyps (a b : Bytes) (ca cb : Cst) (pa : parseCst a = some ca) (pb : parseCst b = some cb)
    (hc : createCanonical a b = true) (hz : createNoNegZero a b = true) :
    NV goodLit ca.valueOf = true ∧ NV goodLit cb.valueOf = true := by
  simp only [createCanonical, pa, pb, Bool.and_eq_true] at hc
  simp only [createNoNegZero, pa, pb, Bool.and_eq_true, Bool.not_eq_true'] at hz
  rw [NV_eq_all, NV_eq_all]
  exact ⟨all_goodLit _ hc.1 hz.1, all_goodLit _ hc.2 hz.2⟩

/-! ## the float model is the literal model inside the domain -/

theorem createObjectF_agrees (a b : Bytes)
    (h : ∀ ca cb, parseCst a = some ca → parseCst b = some cb →
      NV goodLit ca.valueOf = true ∧ NV goodLit cb.valueOf = true) :
    createObjectF a b = createObject a b := by
  unfold createObjectF createObject
  cases pa : parseCst a with
  | none => rfl
  | some ca =>
    cases pb : parseCst b with
    | none =>
      simp only []
      cases asAnyMapF ca <;> cases asAnyMap ca <;> rfl
    | some cb =>
      obtain ⟨ha, hb⟩ := h ca cb pa pb
      simp only [asAnyMapF_eq ca ha, asAnyMapF_eq cb hb]
      cases hra : asAnyMap ca with
      | none => rfl
      | some am =>
        cases hrb : asAnyMap cb with
        | none => rfl
        | some bm => simp only [encV_getDiffF ca cb am bm ha hb hra hrb]

theorem createF_agrees_of_good (a b : Bytes)
    (h : ∀ ca cb, parseCst a = some ca → parseCst b = some cb →
      NV goodLit ca.valueOf = true ∧ NV goodLit cb.valueOf = true) :
    createMergePatchF a b = createMergePatch a b := by
  unfold createMergePatchF createMergePatch
  rw [createObjectF_agrees a b h]
  cases pa : parseCst a with
  | none => rfl
  | some ca =>
    cases ca with
    | arr xs =>
      cases pb : parseCst b with
      | none => rfl
      | some cb =>
        cases cb with
        | arr ys =>
          obtain ⟨ha, hb⟩ := h _ _ pa pb
          simp only [Cst.valueOf, NV] at ha hb
          simp only [createArrayF_eq xs ys ha hb]
          cases createArray xs ys <;> rfl
        | _ => rfl
    | _ => rfl

/-- **inside C19's domain (canonical spellings, no `-0`) the float model is the literal model** -/
theorem createF_agrees (a b : Bytes) (hc : createCanonical a b = true) (hz : createNoNegZero a b = true) :
    createMergePatchF a b = createMergePatch a b :=
  createF_agrees_of_good a b fun ca cb pa pb => good_of_hyps a b ca cb pa pb hc hz

/-- the open statement about the float search: a plain integer of at most 15 digits (not `-0`) is printed back
unchanged by `Unmarshal` / `Marshal` -/
def ModelledGoodGoal : Prop := ∀ l : Bytes, numLitModelled l = true → goodLit l = true

/-- given `ModelledGoodGoal`, the float model extends the former integer-only model -/
theorem createF_agrees_modelled (hg : ModelledGoodGoal) (a b : Bytes) (hm : createModelled a b = true) :
    createMergePatchF a b = createMergePatch a b := by
  apply createF_agrees_of_good
  intro ca cb pa pb
  simp only [createModelled, pa, pb, Bool.and_eq_true, numbersModelled] at hm
  rw [NV_eq_all, NV_eq_all]
  have h1 := List.all_eq_true.1 hm.1
  have h2 := List.all_eq_true.1 hm.2
  exact ⟨List.all_eq_true.2 fun l hl => hg l (h1 l hl), List.all_eq_true.2 fun l hl => hg l (h2 l hl)⟩

example : ([ascii "0", ascii "7", ascii "-5", ascii "10", ascii "123456789012345", ascii "-999999999999999"].all
    fun l => numLitModelled l && goodLit l) = true := by decide +kernel

/-! ## the literal model without its domain marker -/

/-- `create_value_legacy` without the (unused) marker -/
theorem create_value_lit (a b : Bytes) (va vb : Value) (A B : Members)
    (ha : parseValueOf a = some va) (hb : parseValueOf b = some vb)
    (hA : membersOrNull va = some A) (hB : membersOrNull vb = some B) :
    ∃ out, createMergePatch a b = .ok out ∧
      parseValueOf out = some (.obj (getDiff (anyOfM A []) (anyOfM B []))) := by
  obtain ⟨ca, pa, rfl⟩ := C07.parse_of_value ha
  obtain ⟨cb, pb, rfl⟩ := C07.parse_of_value hb
  have hra := rootL_of_membersOrNull hA
  have hrb := rootL_of_membersOrNull hB
  rw [createMergePatch_nonarr a b (resemblesJSONArray_false a ca pa (isArr_false_of_membersOrNull hA))
    (resemblesJSONArray_false b cb pb (isArr_false_of_membersOrNull hB)),
    createObject_eq a b ca cb pa pb, hra, hrb]
  exact ⟨_, rfl, parseValueOf_createOut _
    (GV_getDiff_rootL maxDepth ca cb _ _ (by decide) (GC_of_parse a ca pa) (GC_of_parse b cb pb) hra hrb)⟩

/-! ## `CreateMergePatch` on canonical `float64` spellings -/

/-- on two texts whose roots are objects (or `null`) and whose numbers are spelled the way Go prints a
`float64` (no `-0`), `CreateMergePatch` succeeds and its output parses to the diff of the two normalised
objects -/
theorem create_value_float (a b : Bytes) (va vb : Value) (A B : Members)
    (ha : parseValueOf a = some va) (hb : parseValueOf b = some vb)
    (hA : membersOrNull va = some A) (hB : membersOrNull vb = some B)
    (hc : createCanonical a b = true) (hz : createNoNegZero a b = true) :
    ∃ out, createMergePatchF a b = .ok out ∧
      parseValueOf out = some (.obj (getDiff (anyOfM A []) (anyOfM B []))) := by
  rw [createF_agrees a b hc hz]
  exact create_value_lit a b va vb A B ha hb hA hB

/-- object roots, duplicate-free names, canonical numbers: the output is a JSON text denoting `Spec.diff` up to
member order -/
theorem create_refines_float (a b : Bytes) (A B : Members)
    (ha : parseValueOf a = some (.obj A)) (hb : parseValueOf b = some (.obj B))
    (hA : (Value.obj A).noDup = true) (hB : (Value.obj B).noDup = true)
    (hc : createCanonical a b = true) (hz : createNoNegZero a b = true) :
    ∃ out v, createMergePatchF a b = .ok out ∧ parseValueOf out = some v ∧
      Value.eqv v (.obj (Spec.diff A B)) = true ∧ v.noDup = true := by
  obtain ⟨out, h1, h2⟩ := create_value_float a b _ _ A B ha hb rfl rfl hc hz
  exact ⟨out, _, h1, h2, C03.getDiff_refines A B hA hB, (C03.getDiff_normal A B).2⟩

/-- **round trip, against the specification**: merging the produced patch into `A` (RFC 7396) gives `B` up to
member order when `B` has no null member -/
theorem create_roundtrip_float (a b : Bytes) (A B : Members)
    (ha : parseValueOf a = some (.obj A)) (hb : parseValueOf b = some (.obj B))
    (hA : (Value.obj A).noDup = true) (hB : (Value.obj B).noDup = true)
    (hnull : (Value.obj B).hasNullMember = false)
    (hc : createCanonical a b = true) (hz : createNoNegZero a b = true) :
    ∃ patch P, createMergePatchF a b = .ok patch ∧ parseValueOf patch = some P ∧
      Value.eqv (Spec.merge (.obj A) P) (.obj B) = true := by
  obtain ⟨patch, h1, h2⟩ := create_value_float a b _ _ A B ha hb rfl rfl hc hz
  refine ⟨patch, _, h1, h2, ?_⟩
  exact Value.eqv_trans _ _ _
    (Impl.merge_congr_patch _ _ _ hA (C03.diff_noDup hA hB) (C03.getDiff_normal A B).2
      (C03.getDiff_refines A B hA hB))
    (C03.roundtrip hA hB hnull)

/-- **round trip through the legacy package's own `MergePatch`** -/
theorem create_roundtrip_merge_float (a b : Bytes) (A B : Members)
    (ha : parseValueOf a = some (.obj A)) (hb : parseValueOf b = some (.obj B))
    (hA : (Value.obj A).noDup = true) (hB : (Value.obj B).noDup = true)
    (hnull : (Value.obj B).hasNullMember = false)
    (hc : createCanonical a b = true) (hz : createNoNegZero a b = true) :
    ∃ patch out v, createMergePatchF a b = .ok patch ∧ mergePatch a patch = .ok out ∧
      parseValueOf out = some v ∧ Value.eqv v (.obj B) = true := by
  obtain ⟨patch, h1, h2⟩ := create_value_float a b _ _ A B ha hb rfl rfl hc hz
  have hG := C03.getDiff_normal A B
  obtain ⟨out, m1, v, m2, m3, _⟩ := mergePatch_bytes_legacy_eqv a patch _ _ ha h2 (by simp) rfl hA hG.2
  refine ⟨patch, out, v, h1, m1, m2, ?_⟩
  refine Value.eqv_trans _ _ _ m3 (Value.eqv_trans _ _ _ ?_ (C03.roundtrip hA hB hnull))
  exact Impl.merge_congr_patch _ _ _ hA (C03.diff_noDup hA hB) hG.2 (C03.getDiff_refines A B hA hB)

/-- **minimality**: the produced patch mentions, at every depth, only members that differ between `A` and `B`;
it is `{}` exactly when `A` and `B` are equal up to member order -/
theorem create_minimal_float (a b : Bytes) (A B : Members)
    (ha : parseValueOf a = some (.obj A)) (hb : parseValueOf b = some (.obj B))
    (hA : (Value.obj A).noDup = true) (hB : (Value.obj B).noDup = true)
    (hc : createCanonical a b = true) (hz : createNoNegZero a b = true) :
    ∃ patch P, createMergePatchF a b = .ok patch ∧ parseValueOf patch = some (.obj P) ∧
      minimalMs A B P = true ∧ (P = [] ↔ Value.eqv (.obj A) (.obj B) = true) := by
  obtain ⟨patch, h1, h2⟩ := create_value_float a b _ _ A B ha hb rfl rfl hc hz
  have hG := C03.getDiff_normal A B
  have he := C03.getDiff_refines A B hA hB
  have hD := C03.diff_noDup hA hB
  have he' : Value.eqv (.obj (Spec.diff A B)) (.obj (getDiff (anyOfM A []) (anyOfM B []))) = true := by
    rw [Value.eqv_symm _ _ hD hG.2]; exact he
  refine ⟨patch, _, h1, h2, Spec.minimalMs_congr hD hG.2 he' A B (C03.minimal_rec hA hB), ?_⟩
  rw [← C03.empty_iff hA hB]
  constructor
  · intro e; rw [e] at he'; exact Spec.eqv_obj_nil_right he'
  · intro e; rw [e] at he; exact Spec.eqv_obj_nil_right he

/-- **no-op on equal inputs**: the patch of a document against itself is `{}` -/
theorem create_same_float (a : Bytes) (A : Members)
    (ha : parseValueOf a = some (.obj A)) (hA : (Value.obj A).noDup = true)
    (hc : createCanonical a a = true) (hz : createNoNegZero a a = true) :
    ∃ patch, createMergePatchF a a = .ok patch ∧ parseValueOf patch = some (.obj []) := by
  obtain ⟨patch, P, h1, h2, _, h4⟩ := create_minimal_float a a A A ha ha hA hA hc hz
  have : P = [] := h4.2 (Value.eqv_refl _ hA)
  subst this
  exact ⟨patch, h1, h2⟩

theorem createCanonical_symm (a b : Bytes) (h : createCanonical a b = true) : createCanonical b a = true := by
  unfold createCanonical at h ⊢
  cases ha' : parseCst a <;> cases hb' : parseCst b <;> rw [ha', hb'] at h <;>
    simp only [Bool.and_eq_true] at h ⊢ <;> first | trivial | exact ⟨h.2, h.1⟩

theorem createNoNegZero_symm (a b : Bytes) (h : createNoNegZero a b = true) : createNoNegZero b a = true := by
  unfold createNoNegZero at h ⊢
  cases ha' : parseCst a <;> cases hb' : parseCst b <;> rw [ha', hb'] at h <;>
    simp only [Bool.and_eq_true] at h ⊢ <;> first | trivial | exact ⟨h.2, h.1⟩

/-- **`null` roots are accepted** and read as `{}` -/
theorem create_null_float (a b : Bytes) (B : Members)
    (ha : parseValueOf a = some .null) (hb : parseValueOf b = some (.obj B))
    (hB : (Value.obj B).noDup = true)
    (hc : createCanonical a b = true) (hz : createNoNegZero a b = true) :
    (∃ out v, createMergePatchF a b = .ok out ∧ parseValueOf out = some v ∧
      Value.eqv v (.obj (Spec.diff [] B)) = true) ∧
    (∃ out v, createMergePatchF b a = .ok out ∧ parseValueOf out = some v ∧
      Value.eqv v (.obj (Spec.diff B [])) = true) := by
  obtain ⟨o1, x1, x2⟩ := create_value_float a b _ _ [] B ha hb rfl rfl hc hz
  obtain ⟨o2, y1, y2⟩ := create_value_float b a _ _ B [] hb ha rfl rfl
    (createCanonical_symm a b hc) (createNoNegZero_symm a b hz)
  exact ⟨⟨o1, _, x1, x2, C03.getDiff_refines [] B rfl hB⟩, ⟨o2, _, y1, y2, C03.getDiff_refines B [] hB rfl⟩⟩

/-- two arrays of equal length whose elements are objects (or `null`): the output is the array of the
element-wise diffs, up to member order -/
theorem create_array_refines_float (a b : Bytes) (vxs vys : List Value) (As Bs : List Members)
    (ha : parseValueOf a = some (.arr vxs)) (hb : parseValueOf b = some (.arr vys))
    (hAs : vxs.map membersOrNull = As.map some) (hBs : vys.map membersOrNull = Bs.map some)
    (hlen : As.length = Bs.length)
    (hA : ∀ A ∈ As, (Value.obj A).noDup = true) (hB : ∀ B ∈ Bs, (Value.obj B).noDup = true)
    (hc : createCanonical a b = true) (hz : createNoNegZero a b = true) :
    ∃ out vs, createMergePatchF a b = .ok out ∧ parseValueOf out = some (.arr vs) ∧
      Value.eqvL vs (List.zipWith (fun A B => Value.obj (Spec.diff A B)) As Bs) = true := by
  rw [createF_agrees a b hc hz]
  obtain ⟨xs, pa, hx⟩ := C03.parse_arr ha
  obtain ⟨ys, pb, hy⟩ := C03.parse_arr hb
  have hl : xs.length = ys.length := by
    have e1 : xs.length = As.length := by
      have := congrArg List.length hAs
      rw [← hx] at this
      simpa [Impl.length_valueOfL] using this
    have e2 : ys.length = Bs.length := by
      have := congrArg List.length hBs
      rw [← hy] at this
      simpa [Impl.length_valueOfL] using this
    omega
  have hcr := createArray_mems xs ys As Bs (by rw [hx]; exact hAs) (by rw [hy]; exact hBs) hlen
  rw [createMergePatch_arr a b (resemblesJSONArray_true a _ pa rfl) (resemblesJSONArray_true b _ pb rfl)
    xs ys pa pb, if_neg (by simpa using hl), hcr]
  refine ⟨_, _, rfl, ?_, C03.eqvL_zipWith As Bs hlen hA hB⟩
  apply parseValueOf_createOut
  rw [Impl.GV_arr]
  refine ⟨by decide, Legacy.createArray_ok_GV _ xs ys _ (by decide) ?_ ?_ hcr⟩
  · exact ((Impl.GC_arr _ xs).1 (GC_of_parse a _ pa)).2
  · exact ((Impl.GC_arr _ ys).1 (GC_of_parse b _ pb)).2

/-- every successful output inside the domain is well-formed JSON -/
theorem create_output_valid_float (a b out : Bytes)
    (hc : createCanonical a b = true) (hz : createNoNegZero a b = true)
    (h : createMergePatchF a b = .ok out) : (parseCst out).isSome = true := by
  rw [createF_agrees a b hc hz] at h
  exact create_output_valid_legacy a b out h

/-! ## outcome classes, for ALL inputs -/

theorem createMergePatchF_mixed (a b : Bytes) (h : resemblesJSONArray a ≠ resemblesJSONArray b) :
    createMergePatchF a b = .err .badMergeTypes := by
  unfold createMergePatchF
  cases ha : resemblesJSONArray a <;> cases hb : resemblesJSONArray b <;> simp_all

theorem createMergePatchF_nonarr (a b : Bytes) (ha : resemblesJSONArray a = false)
    (hb : resemblesJSONArray b = false) :
    createMergePatchF a b =
      match createObjectF a b with
      | .ok v => .ok (createOut v)
      | .err e => .err e
      | .panic => .panic := by
  unfold createMergePatchF
  simp only [ha, hb, Bool.false_eq_true, if_false, Bool.not_false, Bool.and_self, if_true]
  cases createObjectF a b <;> rfl

theorem asAnyMapF_none_of_rootL (c : Cst) (h : rootL c.valueOf = none) : asAnyMapF c = none := by
  unfold asAnyMapF
  split
  · rw [asAnyMap_eq]; exact h
  · rfl

theorem asAnyMapF_none_of_overflow (c : Cst) (h : numbersDecode c.valueOf = false) : asAnyMapF c = none := by
  simp [asAnyMapF, h]

theorem createObjectF_badDoc (a b : Bytes) (ca cb : Cst) (pa : parseCst a = some ca) (pb : parseCst b = some cb)
    (h : asAnyMapF ca = none ∨ asAnyMapF cb = none) : createObjectF a b = .err .badDoc := by
  unfold createObjectF
  simp only [pa, pb]
  rcases h with h | h
  · rw [h]
  · rw [h]; cases asAnyMapF ca <;> rfl

theorem createObjectF_malformed (a b : Bytes) (h : parseCst a = none ∨ parseCst b = none) :
    createObjectF a b = .err .badDoc := by
  unfold createObjectF
  rcases h with h | h
  · simp [h]
  · cases parseCst a with
    | none => rfl
    | some ca =>
      simp only [h]
      cases asAnyMapF ca <;> rfl

/-- what the legacy `CreateMergePatch` rejects, whatever the numbers are: mixed "resembles an array" flags
(`errBadMergeTypes`); an ill-formed operand; a root that is neither an object nor `null` nor an array; two arrays
of different lengths -/
theorem create_rejects_float (a b : Bytes) :
    (resemblesJSONArray a ≠ resemblesJSONArray b → createMergePatchF a b = .err .badMergeTypes) ∧
    (resemblesJSONArray a = false → resemblesJSONArray b = false →
      (parseCst a = none ∨ parseCst b = none) → createMergePatchF a b = .err .badDoc) ∧
    (∀ ca cb, parseCst a = some ca → parseCst b = some cb →
      (ca.isArr ≠ cb.isArr → createMergePatchF a b = .err .badMergeTypes) ∧
      (ca.isArr = false → cb.isArr = false →
        (membersOrNull ca.valueOf = none ∨ membersOrNull cb.valueOf = none) →
        createMergePatchF a b = .err .badDoc) ∧
      (∀ xs ys, ca = .arr xs → cb = .arr ys → xs.length ≠ ys.length →
        createMergePatchF a b = .err .badDoc)) := by
  refine ⟨createMergePatchF_mixed a b, ?_, ?_⟩
  · intro ra rb h
    rw [createMergePatchF_nonarr a b ra rb, createObjectF_malformed a b h]
  · intro ca cb pa pb
    refine ⟨?_, ?_, ?_⟩
    · intro hne
      apply createMergePatchF_mixed
      rw [resemblesJSONArray_eq a ca pa, resemblesJSONArray_eq b cb pb]
      exact hne
    · intro na nb h
      rw [createMergePatchF_nonarr a b (resemblesJSONArray_false a ca pa na) (resemblesJSONArray_false b cb pb nb)]
      have key : ∀ v : Value, membersOrNull v = none → rootL v = none := by
        intro v hv; cases v <;> simp [membersOrNull] at hv <;> rfl
      rw [createObjectF_badDoc a b ca cb pa pb]
      rcases h with h | h
      · exact Or.inl (asAnyMapF_none_of_rootL ca (key _ h))
      · exact Or.inr (asAnyMapF_none_of_rootL cb (key _ h))
    · intro xs ys ea eb hl
      subst ea; subst eb
      unfold createMergePatchF
      simp only [resemblesJSONArray_true a _ pa rfl, resemblesJSONArray_true b _ pb rfl, Bool.and_self, if_true,
        pa, pb, if_pos hl]

/-- **a number literal that overflows `float64`, anywhere in either document, is `ErrBadJSONDoc`** (object or
`null` or scalar roots; `json.Unmarshal` fails with an `*UnmarshalTypeError`) -/
theorem create_overflow_float (a b : Bytes) (ca cb : Cst) (pa : parseCst a = some ca) (pb : parseCst b = some cb)
    (na : ca.isArr = false) (nb : cb.isArr = false)
    (h : numbersDecode ca.valueOf = false ∨ numbersDecode cb.valueOf = false) :
    createMergePatchF a b = .err .badDoc := by
  rw [createMergePatchF_nonarr a b (resemblesJSONArray_false a ca pa na) (resemblesJSONArray_false b cb pb nb),
    createObjectF_badDoc a b ca cb pa pb]
  rcases h with h | h
  · exact Or.inl (asAnyMapF_none_of_overflow ca h)
  · exact Or.inr (asAnyMapF_none_of_overflow cb h)

/-! ## the statement up to float equality: `-0` included -/

theorem canonical_of_hyp (a b : Bytes) (ca cb : Cst) (pa : parseCst a = some ca) (pb : parseCst b = some cb)
    (hc : createCanonical a b = true) :
    NV floatCanonical ca.valueOf = true ∧ NV floatCanonical cb.valueOf = true := by
  simp only [createCanonical, pa, pb, Bool.and_eq_true] at hc
  rw [NV_eq_all, NV_eq_all]
  exact hc

theorem asAnyMapF_canonical (c : Cst) (h : NV floatCanonical c.valueOf = true) : asAnyMapF c = rootL c.valueOf := by
  have : numbersDecode c.valueOf = true := by
    unfold numbersDecode
    rw [← NV_eq_all]
    refine NV_mono (fun l hl => ?_) _ h
    obtain ⟨x, sx, _⟩ := floatCanonical_spec hl
    rw [sx]; rfl
  simp only [asAnyMapF, this, if_true, asAnyMap_eq]

/-- `createObjectF` on two canonical object (or `null`) roots: the float diff itself (printing changes nothing) -/
theorem createObjectF_canonical (a b : Bytes) (ca cb : Cst) (am bm : Members)
    (pa : parseCst a = some ca) (pb : parseCst b = some cb)
    (ha : NV floatCanonical ca.valueOf = true) (hb : NV floatCanonical cb.valueOf = true)
    (hra : rootL ca.valueOf = some am) (hrb : rootL cb.valueOf = some bm) :
    createObjectF a b = .ok (.obj (getDiffF am bm)) := by
  have h1 := NVM_rootL floatCanonical _ am ha hra
  have h2 := NVM_rootL floatCanonical _ bm hb hrb
  simp only [createObjectF, pa, pb, asAnyMapF_canonical ca ha, asAnyMapF_canonical cb hb, hra, hrb]
  rw [encV_of_NV]
  simp only [NV]
  exact NVM_getDiffF am bm h1 h2

/-- **C19 on every canonical spelling, `-0` included, numbers compared as `float64`** (on canonical spellings
float equality is equality of the literals after `-0 ↦ 0`: `Legacy.floatEqLit_canonical`).  For two object texts
with duplicate-free names whose numbers are spelled the way Go prints a `float64`, `CreateMergePatch` succeeds; its
output parses to an object `P` such that, after `-0 ↦ 0` everywhere (`zeroNorm`),

* `P` is the literal model's diff of the two documents,
* `P` mentions only members that differ (`minimalMs`) and is `{}` exactly when the documents are equal,
* merging `P` into `A` (RFC 7396) gives `B` when `B` has no null member — and so does the legacy package's own
  `MergePatch` on the texts.

This is the predicate `Legacy.c19create` of the run-time check (its clauses `c03pair` on `zeroNorm`ed values). -/
theorem create_upToZero_float (a b : Bytes) (A B : Members)
    (ha : parseValueOf a = some (.obj A)) (hb : parseValueOf b = some (.obj B))
    (hA : (Value.obj A).noDup = true) (hB : (Value.obj B).noDup = true)
    (hc : createCanonical a b = true) :
    ∃ patch P, createMergePatchF a b = .ok patch ∧ parseValueOf patch = some (.obj P) ∧
      zeroNormM P = getDiff (anyOfM (zeroNormM A) []) (anyOfM (zeroNormM B) []) ∧
      minimalMs (zeroNormM A) (zeroNormM B) (zeroNormM P) = true ∧
      (P = [] ↔ Value.eqv (zeroNorm (.obj A)) (zeroNorm (.obj B)) = true) ∧
      ((Value.obj B).hasNullMember = false →
        Value.eqv (zeroNorm (Spec.merge (.obj A) (.obj P))) (zeroNorm (.obj B)) = true ∧
        ∃ out v, mergePatch a patch = .ok out ∧ parseValueOf out = some v ∧
          Value.eqv (zeroNorm v) (zeroNorm (.obj B)) = true) := by
  obtain ⟨ca, pa, ea⟩ := C07.parse_of_value ha
  obtain ⟨cb, pb, eb⟩ := C07.parse_of_value hb
  obtain ⟨na, nb⟩ := canonical_of_hyp a b ca cb pa pb hc
  have hra : rootL ca.valueOf = some (anyOfM A []) := by rw [ea]; rfl
  have hrb : rootL cb.valueOf = some (anyOfM B []) := by rw [eb]; rfl
  have ia : ca.isArr = false := by rw [← isArr_valueOf, ea]; rfl
  have ib : cb.isArr = false := by rw [← isArr_valueOf, eb]; rfl
  have h1 := NVM_rootL floatCanonical _ _ na hra
  have h2 := NVM_rootL floatCanonical _ _ nb hrb
  -- the produced value and its text
  have hG : Impl.GV maxDepth (.obj (getDiffF (anyOfM A []) (anyOfM B []))) = true := by
    rw [Impl.GV_obj]
    exact ⟨by decide, GVM_getDiffF _ _ _ h1 h2
      (GVM_rootL maxDepth _ _ (Impl.GV_valueOf ca _ (GC_of_parse a ca pa)) hra)
      (GVM_rootL maxDepth _ _ (Impl.GV_valueOf cb _ (GC_of_parse b cb pb)) hrb)⟩
  have hout : createMergePatchF a b = .ok (createOut (.obj (getDiffF (anyOfM A []) (anyOfM B [])))) := by
    rw [createMergePatchF_nonarr a b (resemblesJSONArray_false a ca pa ia) (resemblesJSONArray_false b cb pb ib),
      createObjectF_canonical a b ca cb _ _ pa pb na nb hra hrb]
  have hparse := parseValueOf_createOut _ hG
  -- zero-normalised: the literal diff of the zero-normalised documents
  have hz : zeroNormM (getDiffF (anyOfM A []) (anyOfM B [])) =
      getDiff (anyOfM (zeroNormM A) []) (anyOfM (zeroNormM B) []) := by
    rw [zeroNormM_getDiffF _ _ h1 h2]
    have e1 := anyOfM_zeroNorm A []
    have e2 := anyOfM_zeroNorm B []
    simp only [zeroNormM] at e1 e2
    rw [e1, e2]
  have hA' : (Value.obj (zeroNormM A)).noDup = true := by
    have := noDup_zeroNorm (.obj A); simp only [zeroNorm] at this; rw [this]; exact hA
  have hB' : (Value.obj (zeroNormM B)).noDup = true := by
    have := noDup_zeroNorm (.obj B); simp only [zeroNorm] at this; rw [this]; exact hB
  have hGn := C03.getDiff_normal (zeroNormM A) (zeroNormM B)
  have he := C03.getDiff_refines (zeroNormM A) (zeroNormM B) hA' hB'
  have hD := C03.diff_noDup hA' hB'
  have he' : Value.eqv (.obj (Spec.diff (zeroNormM A) (zeroNormM B)))
      (.obj (getDiff (anyOfM (zeroNormM A) []) (anyOfM (zeroNormM B) []))) = true := by
    rw [Value.eqv_symm _ _ hD hGn.2]; exact he
  refine ⟨_, _, hout, hparse, hz, ?_, ?_, ?_⟩
  · rw [hz]
    exact Spec.minimalMs_congr hD hGn.2 he' _ _ (C03.minimal_rec hA' hB')
  · rw [← zeroNormM_eq_nil, hz]
    simp only [zeroNorm]
    rw [← C03.empty_iff hA' hB']
    constructor
    · intro e; rw [e] at he'; exact Spec.eqv_obj_nil_right he'
    · intro e; rw [e] at he; exact Spec.eqv_obj_nil_right he
  · intro hnull
    have hnull' : (Value.obj (zeroNormM B)).hasNullMember = false := by
      have := hasNullMember_zeroNorm (.obj B); simp only [zeroNorm] at this; rw [this]; exact hnull
    have hrt : Value.eqv (zeroNorm (Spec.merge (.obj A) (.obj (getDiffF (anyOfM A []) (anyOfM B [])))))
        (zeroNorm (.obj B)) = true := by
      rw [zeroNorm_merge]
      simp only [zeroNorm]
      rw [hz]
      exact Value.eqv_trans _ _ _
        (Impl.merge_congr_patch _ _ _ hA' hD hGn.2 he)
        (C03.roundtrip hA' hB' hnull')
    refine ⟨hrt, ?_⟩
    have hPn : (Value.obj (getDiffF (anyOfM A []) (anyOfM B []))).noDup = true := by
      have := noDup_zeroNorm (.obj (getDiffF (anyOfM A []) (anyOfM B [])))
      simp only [zeroNorm] at this
      rw [← this, hz]; exact hGn.2
    obtain ⟨out, m1, v, m2, m3, _⟩ := mergePatch_bytes_legacy_eqv a _ _ _ ha hparse (by simp) rfl hA hPn
    exact ⟨out, v, m1, m2, Value.eqv_trans _ _ _ (eqv_zeroNorm _ _ m3) hrt⟩

/-! ## examples (kernel evaluation) -/

def fA : Bytes := ascii "{\"b\":{\"x\":0.1,\"y\":2.5},\"a\":1e+21,\"c\":[0.1,2.5]}"
def fB : Bytes := ascii "{\"c\":[0.1,2.5],\"b\":{\"y\":1e+21,\"z\":0.1},\"d\":2.5}"

example : ((parseValueOf fA).map fun v => v.isObj && v.noDup) = some true ∧
    ((parseValueOf fB).map fun v => v.isObj && v.noDup && !v.hasNullMember) = some true ∧
    createCanonical fA fB = true ∧ createNoNegZero fA fB = true ∧ createModelled fA fB = false := by
  decide +kernel
/-- `create_value_float`, `create_refines_float`, `create_minimal_float` on `fA`, `fB` -/
example : (match createMergePatchF fA fB with | .ok o => some o | _ => none) =
    some (ascii "{\"a\":null,\"b\":{\"x\":null,\"y\":1e+21,\"z\":0.1},\"d\":2.5}") := by decide +kernel
/-- `createF_agrees` -/
example : (match createMergePatchF fA fB, createMergePatch fA fB with | .ok o, .ok o' => some (o == o') | _, _ => none) =
    some true := by decide +kernel
/-- `create_roundtrip_merge_float` -/
example : (match createMergePatchF fA fB with
    | .ok p => (match mergePatch fA p with | .ok o => some o | _ => none)
    | _ => none) = some (ascii "{\"b\":{\"y\":1e+21,\"z\":0.1},\"c\":[0.1,2.5],\"d\":2.5}") := by decide +kernel
/-- `create_same_float` -/
example : (match createMergePatchF fA fA with | .ok o => some o | _ => none) = some (ascii "{}") := by
  decide +kernel
/-- `create_array_refines_float`, `create_null_float` -/
example : (match createMergePatchF (ascii "[{\"a\":0.1},null]") (ascii "[{\"a\":2.5},{\"b\":1e+21}]") with
      | .ok o => some o | _ => none) = some (ascii "[{\"a\":2.5},{\"b\":1e+21}]") ∧
    (match createMergePatchF (ascii "null") (ascii "{\"b\":0.1}") with | .ok o => some o | _ => none) =
      some (ascii "{\"b\":0.1}") := by decide +kernel

/-- OUTSIDE the canonical spellings the model still speaks (the correspondence compares it on every input): float-equal
spellings match, the modified document's number is printed the way Go prints it -/
example : (match createMergePatchF (ascii "{\"a\":1.0,\"b\":1e2,\"c\":0.1,\"d\":1}")
      (ascii "{\"a\":1,\"b\":100,\"c\":1e-1,\"d\":25e-1}") with | .ok o => some o | _ => none) =
      some (ascii "{\"d\":2.5}") ∧
    (match createMergePatchF (ascii "{}") (ascii "{\"a\":1E+2,\"b\":1e21,\"c\":-0.0,\"d\":9007199254740993}") with
      | .ok o => some o | _ => none) = some (ascii "{\"a\":100,\"b\":1e+21,\"c\":-0,\"d\":9007199254740992}") ∧
    (match createMergePatchF (ascii "{\"a\":0.1}") (ascii "{\"a\":0.10000000000000002}") with
      | .ok o => some o | _ => none) = some (ascii "{\"a\":0.10000000000000002}") := by decide +kernel
/-- `create_overflow_float`, `create_rejects_float` -/
example : (match createMergePatchF (ascii "{\"a\":[{\"b\":1e400}]}") (ascii "{}") with | .err e => some e | _ => none) =
      some .badDoc ∧
    (match createMergePatchF (ascii "{\"a\":-1e999,\"a\":1}") (ascii "{\"a\":1}") with | .err e => some e | _ => none) =
      some .badDoc ∧
    (match createMergePatchF (ascii "[{\"a\":1}]") (ascii "[{\"a\":1e309}]") with | .err e => some e | _ => none) =
      some .badDoc ∧
    (match createMergePatchF (ascii "[0.1]") (ascii "{}") with | .err e => some e | _ => none) = some .badMergeTypes ∧
    (match createMergePatchF (ascii "0.1") (ascii "{}") with | .err e => some e | _ => none) = some .badDoc := by
  decide +kernel

/-! ### why `createNoNegZero` is there -/

def zA : Bytes := ascii "{\"a\":0}"
def zB : Bytes := ascii "{\"a\":-0}"

/-- `0` and `-0` are both spelled the way Go prints them, they are `==`, so the patch is `{}`; the literal model
answers `{"a":-0}`: `createF_agrees` fails without `createNoNegZero` -/
theorem negZero_agrees_counterexample :
    createCanonical zA zB = true ∧ createNoNegZero zA zB = false ∧
    (match createMergePatchF zA zB with | .ok o => some o | _ => none) = some (ascii "{}") ∧
    (match createMergePatch zA zB with | .ok o => some o | _ => none) = some (ascii "{\"a\":-0}") := by
  decide +kernel

/-- … and so do `create_roundtrip_float` (the merge of `{}` into `{"a":0}` has the literal `0`, not `-0`) and the
"`{}` iff equal" clause of `create_minimal_float`, read on literals; read on `float64` values (`zeroNorm`) both
hold on this pair -/
theorem negZero_roundtrip_counterexample :
    (match createMergePatchF zA zB, parseValueOf zA, parseValueOf zB with
      | .ok p, some A, some B => (parseValueOf p).map fun P =>
          (Value.eqv (Spec.merge A P) B, Value.eqv A B,
           Value.eqv (zeroNorm (Spec.merge A P)) (zeroNorm B), Value.eqv (zeroNorm A) (zeroNorm B))
      | _, _, _ => none) = some (false, false, true, true) := by
  decide +kernel

/-- `create_upToZero_float` on documents with zeros of both signs: `{"a":0,"b":-0,"c":0.1}` → `{"a":-0,"b":1e+21,"d":-0}` -/
example : (match createMergePatchF (ascii "{\"a\":0,\"b\":-0,\"c\":0.1}") (ascii "{\"a\":-0,\"b\":1e+21,\"d\":-0}") with
      | .ok o => some o | _ => none) = some (ascii "{\"b\":1e+21,\"c\":null,\"d\":-0}") ∧
    createCanonical (ascii "{\"a\":0,\"b\":-0,\"c\":0.1}") (ascii "{\"a\":-0,\"b\":1e+21,\"d\":-0}") = true := by
  decide +kernel

end C19
end JP
