import JP.Driver
import JP.Impl.Den

/-! # Property C01 — theorems (see DESIGN.md §6) -/

namespace JP
namespace C01

end C01
end JP
