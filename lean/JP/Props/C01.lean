import JP.Lemmas.EngineSpecFacts

/-!
# C01 — RFC 6902 application computes the RFC result (and corollaries C05 / C13)

The engine model `Impl.applyOps` refines the specification `Spec.applyFrom`, operation list by
operation list: whenever the specification is defined (`ok` / `fail`, not `unspec`), the engine
succeeds exactly when the specification does, and the value of the resulting root is the
specification's result *as an ordered value* (`den r'.con = v`, which is C05's "member order and
literals"), with AllowMissingPathOnRemove handled through `Spec.skipsRemove` (C13).

Hypotheses carried by the theorems (see the report at the end of the file):
* `EqSpec`  – `eqNC` decides `Value.eqv` on `den` (used only by `test`);
* the text invariant `TX o.esc` on the root and `CstOK o.esc` on operation values, `QK o.esc` on
  the reference tokens of `path` – needed because `copy` re-prints a subtree and reads it back;
* a `copy` operation has a `from` member (guaranteed by `Impl.decodeOp`).
-/

namespace JP
namespace C01

open Impl

abbrev EqSpec : Prop := Impl.EqSpec

/-- side conditions on one decoded operation -/
structure OpOK (e : Bool) (op : Impl.Op) : Prop where
  /-- the value has no duplicate member names and its strings survive re-printing -/
  val : ∀ c, op.value = some c → c.valueOf.noDup = true ∧ Impl.CstOK e c = true
  /-- the reference tokens of `path` survive printing as member names -/
  toks : ∀ toks, Spec.parsePointer op.path = some toks → ∀ t ∈ toks, Impl.QK e t = true
  /-- `copy` has a `from` member (`decodeOp` rejects the operation otherwise) -/
  frm : op.kind = ascii "copy" → op.frm ≠ none

/-- an `add` / `replace` without a `value` member is outside the domain — unless its pointer is
outside RFC 6901 (no leading `/`), which the specification rejects first -/
theorem spec_novalue {so : Spec.Opts} {sz acc : Nat} {doc : Value} {sop : Spec.Op}
    (hk : sop.kind = .add ∨ sop.kind = .replace) (hv : sop.value = none) :
    Spec.applyOp so sz acc doc sop =
      if Spec.parsePointer sop.path = none then .fail .parentUnreachable else .unspec := by
  cases hp : Spec.parsePointer sop.path with
  | none => rcases hk with hk | hk <;> simp [Spec.applyOp, hp, hk]
  | some toks => rcases hk with hk | hk <;> simp [Spec.applyOp, hp, hk, hv]

/-- `spec_novalue` as the engine theorems use it: where the specification decides (a pointer
without a leading `/`), the operation is an error of the engine too -/
theorem novalue_refines {e : Bool} {so : Spec.Opts} {sz acc : Nat} {doc : Value} {sop : Spec.Op}
    {out : Outcome Root}
    (hk : sop.kind = .add ∨ sop.kind = .replace) (hv : sop.value = none)
    (hout : Spec.parsePointer sop.path = none → ∃ er, out = .err er) :
    OpRef e (Spec.applyOp so sz acc doc sop) out := by
  rw [spec_novalue hk hv]
  split
  · next hp => exact hout hp
  · trivial

theorem fstOut_lift (acc : Int) (x : Outcome Root) :
    fstOut (match x with
      | .ok r' => .ok (r', acc)
      | .err e => .err e
      | .panic => .panic) = x := by
  cases x <;> rfl

/-- one operation -/
theorem applyOp_refines (hEq : EqSpec) (o : Impl.Opts) (ho : o.ensure = false) (hl : o.limit = 0)
    (r : Impl.Root) (hr : InvRoot o.esc r) (op : Impl.Op) (sop : Spec.Op)
    (hs : specOp op = some sop) (hop : OpOK o.esc op) (sz acc : Nat) (acci : Int) :
    OpRef o.esc (Spec.applyOp (specOpts o) sz acc (den r.con) sop)
      (fstOut (Impl.applyOp o r acci op)) := by
  simp only [specOp] at hs
  cases hkind : specKind op.kind with
  | none => rw [hkind] at hs; cases hs
  | some k =>
    rw [hkind] at hs
    simp only [Option.some.injEq] at hs
    subst hs
    simp only [specKind] at hkind
    have hvalInv : ∀ c, op.value = some c → Inv o.esc (.raw c) :=
      fun c hc => (Inv_raw _ _).2 (hop.val c hc)
    by_cases h1 : op.kind = ascii "add"
    · simp only [h1, if_true, Option.some.injEq] at hkind
      subst hkind
      have happ : fstOut (Impl.applyOp o r acci op) = opAdd o r op := by
        simp only [Impl.applyOp]; rw [if_pos h1]; exact fstOut_lift _ _
      rw [happ]
      cases hv : op.value with
      | none =>
        exact novalue_refines (Or.inl rfl) (by simp) (fun hp => ⟨_, opAdd_path_none o r op ho hp⟩)
      | some c =>
        exact opAdd_refines sz acc ho hr rfl rfl hv (by simp) (hvalInv c hv) hop.toks
    · simp only [h1, if_false] at hkind
      by_cases h2 : op.kind = ascii "remove"
      · simp only [h2, if_true, Option.some.injEq] at hkind
        subst hkind
        have happ : fstOut (Impl.applyOp o r acci op) = opRemove o r op := by
          simp only [Impl.applyOp]; rw [if_neg h1, if_pos h2]; exact fstOut_lift _ _
        rw [happ]
        exact opRemove_refines sz acc hr rfl rfl
      · simp only [h2, if_false] at hkind
        by_cases h3 : op.kind = ascii "replace"
        · simp only [h3, if_true, Option.some.injEq] at hkind
          subst hkind
          have happ : fstOut (Impl.applyOp o r acci op) = opReplace o r op := by
            simp only [Impl.applyOp]; rw [if_neg h1, if_neg h2, if_pos h3]; exact fstOut_lift _ _
          rw [happ]
          cases hv : op.value with
          | none =>
            exact novalue_refines (Or.inr rfl) (by simp) (fun hp => ⟨_, opReplace_path_none o r op hp⟩)
          | some c =>
            exact opReplace_refines sz acc hr rfl rfl hv (by simp) (hvalInv c hv) hop.toks
        · simp only [h3, if_false] at hkind
          by_cases h4 : op.kind = ascii "move"
          · simp only [h4, if_true, Option.some.injEq] at hkind
            subst hkind
            have happ : fstOut (Impl.applyOp o r acci op) = opMove o r op := by
              simp only [Impl.applyOp]; rw [if_neg h1, if_neg h2, if_neg h3, if_pos h4]; exact fstOut_lift _ _
            rw [happ]
            exact opMove_refines sz acc hr rfl rfl rfl hop.toks
          · simp only [h4, if_false] at hkind
            by_cases h5 : op.kind = ascii "copy"
            · simp only [h5, if_true, Option.some.injEq] at hkind
              subst hkind
              have happ : Impl.applyOp o r acci op = opCopy o r acci op := by
                have h6 : op.kind ≠ ascii "test" := by rw [h5]; decide
                simp only [Impl.applyOp]
                rw [if_neg h1, if_neg h2, if_neg h3, if_neg h4, if_neg h6, if_pos h5]
              rw [happ]
              cases hf : op.frm with
              | none => exact absurd hf (hop.frm h5)
              | some f =>
                exact opCopy_refines sz acc acci hl hr rfl rfl hf (by simp) hop.toks
            · simp only [h5, if_false] at hkind
              by_cases h6 : op.kind = ascii "test"
              · simp only [h6, if_true, Option.some.injEq] at hkind
                subst hkind
                have happ : fstOut (Impl.applyOp o r acci op) = opTest o r op := by
                  simp only [Impl.applyOp]; rw [if_neg h1, if_neg h2, if_neg h3, if_neg h4, if_pos h6]; exact fstOut_lift _ _
                rw [happ]
                exact opTest_refines hEq sz acc hr rfl rfl rfl (fun c hc => (hop.val c hc).1)
              · simp only [h6, if_false] at hkind
                cases hkind

theorem fstOut_ok {x : Outcome (Root × Int)} {r' : Root} (h : fstOut x = .ok r') :
    ∃ a, x = .ok (r', a) := by
  cases x with
  | ok ra => obtain ⟨r1, a⟩ := ra; simp only [fstOut, Outcome.ok.injEq] at h; subst h; exact ⟨a, rfl⟩
  | err e => cases h
  | panic => cases h

theorem fstOut_err {x : Outcome (Root × Int)} {er : Err} (h : fstOut x = .err er) : x = .err er := by
  cases x with
  | ok ra => cases h
  | err e => simp only [fstOut, Outcome.err.injEq] at h; subst h; rfl
  | panic => cases h

/-- the operation list, with the root invariant `InvRoot` (= `WFRoot` + the text invariant) -/
theorem applyOps_refines_inv (hEq : EqSpec) (o : Impl.Opts) (ho : o.ensure = false) (hl : o.limit = 0)
    (sizeAt : Nat → Nat) :
    ∀ (ops : List Impl.Op) (sops : List Spec.Op) (r : Impl.Root) (i acc : Nat) (acci : Int),
      InvRoot o.esc r → specOps ops = some sops → (∀ op ∈ ops, OpOK o.esc op) →
      match Spec.applyFrom (specOpts o) sizeAt i acc (Impl.den r.con) sops with
      | .ok v => ∃ r', Impl.applyOps o r acci ops = .ok r' ∧ Impl.den r'.con = v ∧ InvRoot o.esc r'
      | .fail _ _ => ∃ e, Impl.applyOps o r acci ops = .err e
      | .unspec => True := by
  intro ops
  induction ops with
  | nil =>
    intro sops r i acc acci hr hs _
    simp only [specOps, Option.some.injEq] at hs
    subst hs
    simp only [Spec.applyFrom, Impl.applyOps]
    exact ⟨r, rfl, rfl, hr⟩
  | cons op ops ih =>
    intro sops r i acc acci hr hs hops
    simp only [specOps] at hs
    cases hso : specOp op with
    | none => rw [hso] at hs; cases hs
    | some s =>
      cases hss : specOps ops with
      | none => rw [hso, hss] at hs; cases hs
      | some ss =>
        rw [hso, hss] at hs
        simp only [Option.some.injEq] at hs
        subst hs
        have h1 := applyOp_refines hEq o ho hl r hr op s hso (hops op List.mem_cons_self)
          (sizeAt i) acc acci
        simp only [Spec.applyFrom, Impl.applyOps]
        cases hres : Spec.applyOp (specOpts o) (sizeAt i) acc (den r.con) s with
        | unspec => trivial
        | fail c =>
          rw [hres] at h1
          obtain ⟨er, her⟩ := h1
          rw [fstOut_err her]
          exact ⟨er, rfl⟩
        | ok va =>
          obtain ⟨d, acc'⟩ := va
          rw [hres] at h1
          obtain ⟨r', hr', hinv, hden⟩ := h1
          obtain ⟨a, ha⟩ := fstOut_ok hr'
          rw [ha]
          simp only at hden ⊢
          have := ih ss r' (i + 1) acc' a hinv hss (fun op' h => hops op' (List.mem_cons_of_mem _ h))
          rw [hden] at this
          exact this

/-- **C01** — the engine refines the specification, operation list by operation list: ordered
equality of the value, success exactly when the specification succeeds.  The two accumulators
(`acc` of the specification, `acci` of the engine) are unrelated: with `o.limit = 0` neither
influences the result. -/
theorem applyOps_refines (hEq : EqSpec) (o : Impl.Opts) (ho : o.ensure = false) (hl : o.limit = 0)
    (r : Impl.Root) (hr : Impl.WFRoot r = true) (htx : Impl.TX o.esc r.con = true)
    (ops : List Impl.Op) (sops : List Spec.Op) (hops : specOps ops = some sops)
    (hv : ∀ op ∈ ops, ∀ c, op.value = some c → c.valueOf.noDup = true)
    (hcst : ∀ op ∈ ops, ∀ c, op.value = some c → Impl.CstOK o.esc c = true)
    (hq : ∀ op ∈ ops, ∀ toks, Spec.parsePointer op.path = some toks → ∀ t ∈ toks, Impl.QK o.esc t = true)
    (hfrm : ∀ op ∈ ops, op.kind = ascii "copy" → op.frm ≠ none)
    (sizeAt : Nat → Nat) (i acc : Nat) (acci : Int) :
    match Spec.applyFrom (specOpts o) sizeAt i acc (Impl.den r.con) sops with
    | .ok v => ∃ r', Impl.applyOps o r acci ops = .ok r' ∧ Impl.den r'.con = v ∧
        Impl.WFRoot r' = true ∧ Impl.TX o.esc r'.con = true
    | .fail _ _ => ∃ e, Impl.applyOps o r acci ops = .err e
    | .unspec => True := by
  have h := applyOps_refines_inv hEq o ho hl sizeAt ops sops r i acc acci
    ((InvRoot_iff _ _).2 ⟨hr, htx⟩) hops
    (fun op hop => ⟨fun c hc => ⟨hv op hop c hc, hcst op hop c hc⟩, hq op hop, hfrm op hop⟩)
  cases hres : Spec.applyFrom (specOpts o) sizeAt i acc (Impl.den r.con) sops with
  | unspec => trivial
  | fail j c => rw [hres] at h; exact h
  | ok v =>
    rw [hres] at h
    obtain ⟨r', h1, h2, h3⟩ := h
    exact ⟨r', h1, h2, ((InvRoot_iff _ _).1 h3).1, ((InvRoot_iff _ _).1 h3).2⟩

/-- the statement with one accumulator for both sides (as `ApplyWithOptions` starts both at 0) -/
theorem applyOps_refines_acc (hEq : EqSpec) (o : Impl.Opts) (ho : o.ensure = false) (hl : o.limit = 0)
    (r : Impl.Root) (hr : Impl.WFRoot r = true) (htx : Impl.TX o.esc r.con = true)
    (ops : List Impl.Op) (sops : List Spec.Op) (hops : specOps ops = some sops)
    (hv : ∀ op ∈ ops, ∀ c, op.value = some c → c.valueOf.noDup = true)
    (hcst : ∀ op ∈ ops, ∀ c, op.value = some c → Impl.CstOK o.esc c = true)
    (hq : ∀ op ∈ ops, ∀ toks, Spec.parsePointer op.path = some toks → ∀ t ∈ toks, Impl.QK o.esc t = true)
    (hfrm : ∀ op ∈ ops, op.kind = ascii "copy" → op.frm ≠ none)
    (sizeAt : Nat → Nat) (i acc : Nat) :
    match Spec.applyFrom (specOpts o) sizeAt i acc (Impl.den r.con) sops with
    | .ok v => ∃ r', Impl.applyOps o r (acc : Int) ops = .ok r' ∧ Impl.den r'.con = v ∧
        Impl.WFRoot r' = true ∧ Impl.TX o.esc r'.con = true
    | .fail _ _ => ∃ e, Impl.applyOps o r (acc : Int) ops = .err e
    | .unspec => True :=
  applyOps_refines hEq o ho hl r hr htx ops sops hops hv hcst hq hfrm sizeAt i acc acc

/-- decoding the document text's syntax tree into the initial root establishes the invariant -/
theorem decodeRoot_spec {e : Bool} {c : Cst} (h1 : c.valueOf.noDup = true) (h2 : Impl.CstOK e c = true)
    (hc : c.valueOf.isContainer = true) (cr : Bool) :
    ∃ con, Impl.decodeRoot c = .ok con ∧ InvRoot e { con := con, self := .raw c, selfCR := cr } ∧
      Impl.den con = c.valueOf := by
  have h : Inv e (.raw c) := (Inv_raw e c).2 ⟨h1, h2⟩
  cases c with
  | lit s => rw [isContainer_valueOf] at hc; simp [Cst.isArr, Cst.isObj] at hc
  | str b => rw [isContainer_valueOf] at hc; simp [Cst.isArr, Cst.isObj] at hc
  | arr xs => exact ⟨_, rfl, ⟨Inv_decodeAry h, by simp [decodeAry, isCon]⟩, den_decodeAry xs⟩
  | obj ms => exact ⟨_, rfl, ⟨Inv_decodeDoc h, by simp [decodeDoc, isCon]⟩, den_decodeDoc h⟩

/-- **C01 from the document's syntax tree**: `Spec.apply` on the document's value against the
engine started as `ApplyIndentWithOptions` starts it (`decodeRoot`, accumulator 0) -/
theorem apply_refines (hEq : EqSpec) (o : Impl.Opts) (ho : o.ensure = false) (hl : o.limit = 0)
    (c : Cst) (hc1 : c.valueOf.noDup = true) (hc2 : Impl.CstOK o.esc c = true) (cr : Bool)
    (ops : List Impl.Op) (sops : List Spec.Op) (hops : specOps ops = some sops)
    (hv : ∀ op ∈ ops, ∀ c, op.value = some c → c.valueOf.noDup = true)
    (hcst : ∀ op ∈ ops, ∀ c, op.value = some c → Impl.CstOK o.esc c = true)
    (hq : ∀ op ∈ ops, ∀ toks, Spec.parsePointer op.path = some toks → ∀ t ∈ toks, Impl.QK o.esc t = true)
    (hfrm : ∀ op ∈ ops, op.kind = ascii "copy" → op.frm ≠ none)
    (sizeAt : Nat → Nat) :
    match Spec.apply (specOpts o) sizeAt c.valueOf sops with
    | .ok v => ∃ con r', Impl.decodeRoot c = .ok con ∧
        Impl.applyOps o { con := con, self := .raw c, selfCR := cr } 0 ops = .ok r' ∧
        Impl.den r'.con = v ∧ Impl.WFRoot r' = true
    | .fail _ _ => ∃ con e, Impl.decodeRoot c = .ok con ∧
        Impl.applyOps o { con := con, self := .raw c, selfCR := cr } 0 ops = .err e
    | .unspec => True := by
  simp only [Spec.apply]
  cases hcont : c.valueOf.isContainer with
  | false => simp
  | true =>
    simp only [if_true]
    obtain ⟨con, hd, hinv, hden⟩ := decodeRoot_spec (e := o.esc) hc1 hc2 hcont cr
    have h := applyOps_refines_inv hEq o ho hl sizeAt ops sops _ 0 0 0 hinv hops
      (fun op hop => ⟨fun c hc => ⟨hv op hop c hc, hcst op hop c hc⟩, hq op hop, hfrm op hop⟩)
    simp only [hden] at h
    cases hres : Spec.applyFrom (specOpts o) sizeAt 0 0 c.valueOf sops with
    | unspec => trivial
    | fail j cc =>
      rw [hres] at h
      obtain ⟨er, her⟩ := h
      exact ⟨con, er, hd, her⟩
    | ok v =>
      rw [hres] at h
      obtain ⟨r', h1, h2, h3⟩ := h
      exact ⟨con, r', hd, h1, h2, ((InvRoot_iff _ _).1 h3).1⟩

/-! ## Corollaries at the level of the specification (value semantics)

Through `applyOps_refines` every statement about `Spec.applyOp` / `Spec.applyFrom` below is a
statement about the value `den r'.con` the engine computes. -/

open Spec (Res)

/-- `move` is `remove` of the source followed by `add` of the removed value (RFC 6902 §4.4) -/
theorem move_eq_remove_add (o : Spec.Opts) (ho : o.ensure = false) (ha : o.allowMissing = false)
    (sz acc : Nat) (doc : Value) (path frm : Bytes) (ft pt : Bytes) (fts pts : List Bytes)
    (hf : Spec.parsePointer frm = some (ft :: fts)) (hp : Spec.parsePointer path = some (pt :: pts)) :
    Spec.applyOp o sz acc doc { kind := .move, path := path, frm := frm } =
      (Spec.atParent o (Spec.getIn o false) doc (ft :: fts)).bind fun pv =>
        (Spec.applyOp o sz acc doc { kind := .remove, path := frm }).bind fun da =>
          Spec.applyOp o sz da.2 da.1 { kind := .add, path := path, value := some pv.2 } := by
  rw [spec_move (sop := { kind := .move, path := path, frm := frm }) rfl hp hf,
    spec_remove (sop := { kind := .remove, path := frm }) rfl hf ha]
  obtain ⟨ns, key, hk⟩ := exists_concat (ft :: fts) (by simp)
  rw [hk, atParent_nav, atParent_nav]
  cases nav o doc ns with
  | unspec => rfl
  | fail c => rfl
  | ok pk =>
    simp only [Res.bind]
    have hrel := removeIn_getIn_strong o pk.1 key
    cases hrem : Spec.removeIn o pk.1 key with
    | unspec => rw [hrem] at hrel; rw [hrel]
    | fail c => rw [hrem] at hrel; rw [hrel]
    | ok pv =>
      rw [hrem] at hrel
      rw [hrel]
      simp only
      rw [spec_add (sop := { kind := .add, path := path, value := some pv.2 }) rfl hp rfl ho]
      rfl

/-- an absent object member reads as null for `test`: where reading the location fails only
because the member is absent, `test` against null (or without `value`) succeeds -/
theorem test_absent_is_null (o : Spec.Opts) (sz acc : Nat) (doc : Value) (path : Bytes)
    (t : Bytes) (ts : List Bytes) (hp : Spec.parsePointer path = some (t :: ts))
    (habs : Spec.atParent o (Spec.getIn o false) doc (t :: ts) = .fail .absentMember)
    (v : Option Value) (hv : v = none ∨ v = some .null) :
    Spec.applyOp o sz acc doc { kind := .test, path := path, value := v } = .ok (doc, acc) := by
  rw [spec_test (sop := { kind := .test, path := path, value := v }) rfl hp]
  have hwant : (v.getD .null) = .null := by rcases hv with rfl | rfl <;> rfl
  simp only [hwant]
  obtain ⟨ns, key, hk⟩ := exists_concat (t :: ts) (by simp)
  rw [hk, atParent_nav] at habs ⊢
  cases hn : nav o doc ns with
  | unspec => rw [hn] at habs; cases habs
  | fail c =>
    rw [hn] at habs
    simp only [Res.bind, Res.fail.injEq] at habs
    have := nav_fail_cause o ns doc c hn
    rw [this] at habs; cases habs
  | ok pk =>
    obtain ⟨p, k⟩ := pk
    rw [hn] at habs
    simp only [Res.bind] at habs ⊢
    obtain ⟨_, hkp⟩ := nav_ok o ns doc p k hn
    cases p with
    | obj ms =>
      simp only [Spec.getIn] at habs ⊢
      cases hl : Value.lookup key ms with
      | some x => rw [hl] at habs; cases habs
      | none => simp [Spec.testEq, Value.eqv]
    | arr xs =>
      simp only [Spec.getIn] at habs
      cases hr : Spec.readIdx o.neg xs.length key with
      | unspec => rw [hr] at habs; cases habs
      | bad => rw [hr] at habs; cases habs
      | «at» i =>
        rw [hr] at habs
        simp only at habs
        cases hx : xs[i]? with
        | none => rw [hx] at habs; cases habs
        | some x => rw [hx] at habs; cases habs
    | null => simp [Spec.getIn] at habs
    | bool b => simp [Spec.getIn] at habs
    | num l => simp [Spec.getIn] at habs
    | str s => simp [Spec.getIn] at habs

/-- what `add` / `replace` wrote is what the same pointer reads afterwards (the pointer must not
end in `-`, which denotes the position *after* the last element) -/
theorem write_then_read (o : Spec.Opts) (ho : o.ensure = false) (sz acc acc' : Nat) (doc d v : Value)
    (path : Bytes) (k : Spec.OpKind) (hk : k = .add ∨ k = .replace)
    (pt : Bytes) (pts : List Bytes) (hp : Spec.parsePointer path = some (pt :: pts))
    (hdash : (pt :: pts).getLast? ≠ some [45]) (b : Bool)
    (h : Spec.applyOp o sz acc doc { kind := k, path := path, value := some v } = .ok (d, acc')) :
    Spec.atParent o (Spec.getIn o b) d (pt :: pts) = .ok (d, v) := by
  obtain ⟨ns, key, hkey⟩ := exists_concat (pt :: pts) (by simp)
  have hd : key ≠ [45] := by
    intro hx; apply hdash; rw [hkey, hx]; simp
  rcases hk with rfl | rfl
  · rw [spec_add (sop := { kind := .add, path := path, value := some v }) rfl hp rfl ho] at h
    rw [hkey] at h ⊢
    cases hres : Spec.atParent o (Spec.addIn o v) doc (ns ++ [key]) with
    | unspec => rw [hres] at h; cases h
    | fail c => rw [hres] at h; cases h
    | ok pa =>
      obtain ⟨d', u⟩ := pa
      rw [hres] at h
      simp only [Res.bind, Res.ok.injEq, Prod.mk.injEq] at h
      obtain ⟨rfl, _⟩ := h
      exact atParent_then_getIn o (Spec.addIn o v) v doc d' u ns key b
        (fun p pa hpa => addIn_container hpa)
        (fun p p' u hpa => addIn_then_getIn o v p p' key u b hpa hd) hres
  · rw [spec_replace (sop := { kind := .replace, path := path, value := some v }) rfl hp rfl] at h
    rw [hkey] at h ⊢
    cases hres : Spec.atParent o (Spec.replaceIn o v) doc (ns ++ [key]) with
    | unspec => rw [hres] at h; cases h
    | fail c => rw [hres] at h; cases h
    | ok pa =>
      obtain ⟨d', u⟩ := pa
      rw [hres] at h
      simp only [Res.bind, Res.ok.injEq, Prod.mk.injEq] at h
      obtain ⟨rfl, _⟩ := h
      exact atParent_then_getIn o (Spec.replaceIn o v) v doc d' u ns key b
        (fun p pa hpa => replaceIn_container hpa)
        (fun p p' u hpa => replaceIn_then_getIn o v p p' key u b hpa) hres

/-- a null written by `add` / `replace` is found by `test` against null (or without `value`) -/
theorem null_roundtrip (o : Spec.Opts) (ho : o.ensure = false) (sz sz' acc acc' : Nat) (doc d : Value)
    (path : Bytes) (k : Spec.OpKind) (hk : k = .add ∨ k = .replace)
    (pt : Bytes) (pts : List Bytes) (hp : Spec.parsePointer path = some (pt :: pts))
    (hdash : (pt :: pts).getLast? ≠ some [45])
    (h : Spec.applyOp o sz acc doc { kind := k, path := path, value := some .null } = .ok (d, acc'))
    (w : Option Value) (hw : w = none ∨ w = some .null) :
    Spec.applyOp o sz' acc' d { kind := .test, path := path, value := w } = .ok (d, acc') := by
  have hread := write_then_read o ho sz acc acc' doc d .null path k hk pt pts hp hdash true h
  rw [spec_test (sop := { kind := .test, path := path, value := w }) rfl hp, hread]
  have hwant : (w.getD .null) = .null := by rcases hw with rfl | rfl <;> rfl
  simp [Res.bind, hwant, Spec.testEq, Value.eqv]

theorem spec_copy_gen {so : Spec.Opts} {sz acc : Nat} {doc : Value} {sop : Spec.Op}
    {pt : Bytes} {pts ftoks : List Bytes}
    (hk : sop.kind = .copy) (hp : Spec.parsePointer sop.path = some (pt :: pts))
    (hf : Spec.parsePointer sop.frm = some ftoks) :
    Spec.applyOp so sz acc doc sop =
      (eng_copySrc so doc ftoks).bind fun v =>
        (Spec.atParent so (fun p _ => .ok (p, ())) doc (pt :: pts)).bind fun _ =>
          if so.limit > 0 ∧ acc + sz > so.limit then .fail .copyLimit
          else (Spec.atParent so (Spec.addIn so v) doc (pt :: pts)).bind fun vb => .ok (vb.1, acc + sz) := by
  simp only [Spec.applyOp, hp, hk, hf, eng_copySrc]
  cases ftoks with
  | nil =>
    simp only [Res.bind]
  | cons ft fts =>
    simp only

/-- any single-pointer operation (everything but `move`) whose pointer starts with the member
name `b` of an object leaves every other member of that object as it is -/
theorem applyOp_keeps (o : Spec.Opts) (ho : o.ensure = false) (sz acc acc' : Nat) (ms : Value.Members)
    (d : Value) (sop : Spec.Op) (b : Bytes) (qs : List Bytes)
    (hp : Spec.parsePointer sop.path = some (b :: qs)) (hk : sop.kind ≠ .move)
    (h : Spec.applyOp o sz acc (.obj ms) sop = .ok (d, acc')) :
    ∃ ms', d = .obj ms' ∧ ∀ a, a ≠ b → Value.lookup a ms' = Value.lookup a ms := by
  have key : ∀ {α} (f : Value → Bytes → Res (Value × α)) (g : Value × α → Nat), KeepsOthers f →
      (Spec.atParent o f (.obj ms) (b :: qs)).bind (fun vb => .ok (vb.1, g vb)) = .ok (d, acc') →
      ∃ ms', d = .obj ms' ∧ ∀ a, a ≠ b → Value.lookup a ms' = Value.lookup a ms := by
    intro α f g hf hh
    cases hres : Spec.atParent o f (.obj ms) (b :: qs) with
    | unspec => rw [hres] at hh; cases hh
    | fail c => rw [hres] at hh; cases hh
    | ok pa =>
      rw [hres] at hh
      simp only [Res.bind, Res.ok.injEq, Prod.mk.injEq] at hh
      obtain ⟨ms', h1, h2⟩ := atParent_obj_keeps o f hf ms b qs pa hres
      exact ⟨ms', by rw [← hh.1, h1], h2⟩
  cases hkind : sop.kind with
  | move => exact absurd hkind hk
  | add =>
    cases hv : sop.value with
    | none => rw [spec_novalue (Or.inl hkind) hv, hp] at h; simp at h
    | some v =>
      rw [spec_add hkind hp hv ho] at h
      exact key _ (fun _ => acc) (keeps_addIn o v) h
  | replace =>
    cases hv : sop.value with
    | none => rw [spec_novalue (Or.inr hkind) hv, hp] at h; simp at h
    | some v =>
      rw [spec_replace hkind hp hv] at h
      exact key _ (fun _ => acc) (keeps_replaceIn o v) h
  | remove =>
    cases ha : o.allowMissing with
    | false =>
      rw [spec_remove hkind hp ha] at h
      exact key _ (fun _ => acc) (keeps_removeIn o) h
    | true =>
      rw [spec_remove_allow hkind hp ha] at h
      cases hs : Spec.skipsRemove o (.obj ms) (b :: qs) with
      | unspec => rw [hs] at h; cases h
      | fail c => rw [hs] at h; cases h
      | ok sk =>
        rw [hs] at h
        cases sk with
        | true =>
          simp only [Res.ok.injEq, Prod.mk.injEq] at h
          exact ⟨ms, h.1.symm, fun _ _ => rfl⟩
        | false => exact key _ (fun _ => acc) (keeps_removeIn o) h
  | test =>
    rw [spec_test hkind hp] at h
    cases hres : Spec.atParent o (Spec.getIn o true) (.obj ms) (b :: qs) with
    | unspec => rw [hres] at h; cases h
    | fail c => rw [hres] at h; cases h
    | ok pv =>
      rw [hres] at h
      simp only [Res.bind] at h
      cases ht : Spec.testEq pv.2 (sop.value.getD .null) with
      | unspec => rw [ht] at h; cases h
      | fail c => rw [ht] at h; cases h
      | ok u =>
        rw [ht] at h
        simp only [Res.ok.injEq, Prod.mk.injEq] at h
        exact ⟨ms, h.1.symm, fun _ _ => rfl⟩
  | copy =>
    cases hf : Spec.parsePointer sop.frm with
    | none => rw [spec_copy_none hkind hp hf] at h; cases h
    | some ftoks =>
      rw [spec_copy_gen hkind hp hf] at h
      cases hsrc : eng_copySrc o (.obj ms) ftoks with
      | unspec => rw [hsrc] at h; cases h
      | fail c => rw [hsrc] at h; cases h
      | ok v =>
        rw [hsrc] at h
        simp only [Res.bind] at h
        cases hprobe : Spec.atParent o (fun p x => (Res.ok (p, ()) : Res (Value × Unit))) (.obj ms) (b :: qs) with
        | unspec => rw [hprobe] at h; cases h
        | fail c => rw [hprobe] at h; cases h
        | ok u =>
          rw [hprobe] at h
          simp only at h
          by_cases hlim : o.limit > 0 ∧ acc + sz > o.limit
          · rw [if_pos hlim] at h; cases h
          · rw [if_neg hlim] at h
            cases hres : Spec.atParent o (Spec.addIn o v) (.obj ms) (b :: qs) with
            | unspec => rw [hres] at h; cases h
            | fail c => rw [hres] at h; cases h
            | ok pa =>
              rw [hres] at h
              simp only [Res.ok.injEq, Prod.mk.injEq] at h
              obtain ⟨ms', h1, h2⟩ := atParent_obj_keeps o _ (keeps_addIn o v) ms b qs pa hres
              exact ⟨ms', by rw [← h.1, h1], h2⟩

/-- **copy is a copy** (value semantics): after `copy` from below member `a` to below member `b ≠ a`
of an object, any further single-pointer operation below `b` (the destination side) leaves the
member `a` (the source side) exactly as it was in the original document. -/
theorem copy_isolated (o : Spec.Opts) (ho : o.ensure = false) (sz1 sz2 acc acc1 acc2 : Nat)
    (ms : Value.Members) (frm path : Bytes) (a b : Bytes) (hab : a ≠ b) (fs ps qs : List Bytes)
    (_hf : Spec.parsePointer frm = some (a :: fs)) (hp : Spec.parsePointer path = some (b :: ps))
    (sop2 : Spec.Op) (hp2 : Spec.parsePointer sop2.path = some (b :: qs)) (hk2 : sop2.kind ≠ .move)
    (d1 d2 : Value)
    (h1 : Spec.applyOp o sz1 acc (.obj ms) { kind := .copy, path := path, frm := frm } = .ok (d1, acc1))
    (h2 : Spec.applyOp o sz2 acc1 d1 sop2 = .ok (d2, acc2)) :
    ∃ ms2, d2 = .obj ms2 ∧ Value.lookup a ms2 = Value.lookup a ms := by
  obtain ⟨ms1, rfl, hk1⟩ := applyOp_keeps o ho sz1 acc acc1 ms d1
    { kind := .copy, path := path, frm := frm } b ps hp (by simp) h1
  obtain ⟨ms2, rfl, hk2'⟩ := applyOp_keeps o ho sz2 acc1 acc2 ms1 d2 sop2 b qs hp2 hk2 h2
  exact ⟨ms2, rfl, by rw [hk2' a hab, hk1 a hab]⟩

/-! ## The same corollaries for the engine, through `applyOps_refines` -/

/-- an `add` of JSON null -/
def addNull (path : Bytes) : Impl.Op := { kind := ascii "add", path := path, value := some Impl.litNull }
/-- a `replace` by JSON null -/
def replaceNull (path : Bytes) : Impl.Op := { kind := ascii "replace", path := path, value := some Impl.litNull }
/-- a `test` against JSON null -/
def testNull (path : Bytes) : Impl.Op := { kind := ascii "test", path := path, value := some Impl.litNull }
/-- a `test` without `value` -/
def testNone (path : Bytes) : Impl.Op := { kind := ascii "test", path := path }

theorem OpOK_litNull (e : Bool) (kind path : Bytes) (hk : kind ≠ ascii "copy")
    (hq : ∀ toks, Spec.parsePointer path = some toks → ∀ t ∈ toks, Impl.QK e t = true) :
    OpOK e { kind := kind, path := path, value := some Impl.litNull } :=
  ⟨fun c hc => by
      simp only [Option.some.injEq] at hc; subst hc
      exact ⟨by simp [litNull_valueOf, Value.noDup], CstOK_litNull e⟩,
    hq, fun h => absurd h hk⟩

/-- engine: a null written by `add` is found by a following `test` against null: the two
operations together succeed exactly when the `add` alone is applicable, with the `add`'s result -/
theorem engine_null_roundtrip (hEq : EqSpec) (o : Impl.Opts) (ho : o.ensure = false) (hl : o.limit = 0)
    (r : Impl.Root) (hr : InvRoot o.esc r) (path : Bytes) (pt : Bytes) (pts : List Bytes)
    (hp : Spec.parsePointer path = some (pt :: pts))
    (hq : ∀ t ∈ pt :: pts, Impl.QK o.esc t = true)
    (hdash : (pt :: pts).getLast? ≠ some [45]) (acci : Int) :
    match Spec.applyOp (specOpts o) 0 0 (Impl.den r.con) { kind := .add, path := path, value := some .null } with
    | .ok da => ∃ r', Impl.applyOps o r acci [addNull path, testNull path] = .ok r' ∧ Impl.den r'.con = da.1
    | .fail _ => ∃ e, Impl.applyOps o r acci [addNull path, testNull path] = .err e
    | .unspec => True := by
  have hq' : ∀ toks, Spec.parsePointer path = some toks → ∀ t ∈ toks, Impl.QK o.esc t = true := by
    intro toks htoks; rw [hp] at htoks; cases htoks; exact hq
  have hs : specOps [addNull path, testNull path] =
      some [{ kind := .add, path := path, value := some .null }, { kind := .test, path := path, value := some .null }] := by
    simp only [specOps, specOp, addNull, testNull, Option.map_some, litNull_valueOf, Option.getD_none]
    rfl
  have h := applyOps_refines_inv hEq o ho hl (fun _ => 0)
    [addNull path, testNull path] _ r 0 0 acci hr hs
    (by
      intro op hop
      simp only [List.mem_cons, List.not_mem_nil, or_false] at hop
      rcases hop with rfl | rfl
      · exact OpOK_litNull _ _ _ (by decide) hq'
      · exact OpOK_litNull _ _ _ (by decide) hq')
  simp only [Spec.applyFrom] at h
  cases hres : Spec.applyOp (specOpts o) 0 0 (Impl.den r.con)
      { kind := .add, path := path, value := some .null } with
  | unspec => trivial
  | fail c => rw [hres] at h; exact h
  | ok da =>
    obtain ⟨d, acc'⟩ := da
    rw [hres] at h
    simp only at h
    rw [null_roundtrip (specOpts o) (by simp [specOpts, ho]) 0 0 0 acc' _ d path .add (Or.inl rfl) pt pts hp
      hdash hres (some .null) (Or.inr rfl)] at h
    obtain ⟨r', h1, h2, _⟩ := h
    exact ⟨r', h1, h2⟩

/-- engine: `test` against null (or without `value`) of an absent member of an existing object
succeeds and leaves the value of the document unchanged -/
theorem engine_test_absent_is_null (hEq : EqSpec) (o : Impl.Opts) (r : Impl.Root) (hr : InvRoot o.esc r) (path : Bytes) (t : Bytes) (ts : List Bytes)
    (hp : Spec.parsePointer path = some (t :: ts))
    (habs : Spec.atParent (specOpts o) (Spec.getIn (specOpts o) false) (Impl.den r.con) (t :: ts) =
      .fail .absentMember) (acci : Int) :
    (∃ r', Impl.applyOps o r acci [testNull path] = .ok r' ∧ Impl.den r'.con = Impl.den r.con) ∧
    (∃ r', Impl.applyOps o r acci [testNone path] = .ok r' ∧ Impl.den r'.con = Impl.den r.con) := by
  have h1 := opTest_refines hEq (o := o) (e := o.esc) (r := r) (op := testNull path)
    (sop := { kind := .test, path := path, value := some .null }) 0 0 hr rfl rfl
    (by simp [testNull, litNull_valueOf])
    (by intro c hc; simp only [testNull, Option.some.injEq] at hc; subst hc; simp [litNull_valueOf, Value.noDup])
  have h2 := opTest_refines hEq (o := o) (e := o.esc) (r := r) (op := testNone path)
    (sop := { kind := .test, path := path, value := none }) 0 0 hr rfl rfl
    (by simp [testNone])
    (by intro c hc; simp [testNone] at hc)
  rw [test_absent_is_null (specOpts o) 0 0 _ path t ts hp habs (some .null) (Or.inr rfl)] at h1
  rw [test_absent_is_null (specOpts o) 0 0 _ path t ts hp habs none (Or.inl rfl)] at h2
  obtain ⟨r1, ha1, _, hd1⟩ := h1
  obtain ⟨r2, ha2, _, hd2⟩ := h2
  have hk1 : (testNull path).kind = ascii "test" := rfl
  have hk2 : (testNone path).kind = ascii "test" := rfl
  have e1 : Impl.applyOp o r acci (testNull path) = .ok (r1, acci) := by
    simp only [Impl.applyOp]
    rw [if_neg (by rw [hk1]; decide), if_neg (by rw [hk1]; decide), if_neg (by rw [hk1]; decide),
      if_neg (by rw [hk1]; decide), if_pos hk1, ha1]
  have e2 : Impl.applyOp o r acci (testNone path) = .ok (r2, acci) := by
    simp only [Impl.applyOp]
    rw [if_neg (by rw [hk2]; decide), if_neg (by rw [hk2]; decide), if_neg (by rw [hk2]; decide),
      if_neg (by rw [hk2]; decide), if_pos hk2, ha2]
  exact ⟨⟨r1, by simp only [Impl.applyOps, e1], hd1⟩, ⟨r2, by simp only [Impl.applyOps, e2], hd2⟩⟩

/-- engine: after a `copy` from below member `a` to below member `b ≠ a` of the root object, a
further operation below `b` leaves member `a` of the engine's document as it was: the copy shares
nothing with its source -/
theorem engine_copy_isolated (hEq : EqSpec) (o : Impl.Opts) (ho : o.ensure = false) (hl : o.limit = 0)
    (r : Impl.Root) (hr : InvRoot o.esc r) (ms : Value.Members) (hms : Impl.den r.con = .obj ms)
    (frm path : Bytes) (a b : Bytes) (hab : a ≠ b) (fs ps qs : List Bytes)
    (hf : Spec.parsePointer frm = some (a :: fs)) (hp : Spec.parsePointer path = some (b :: ps))
    (hqp : ∀ t ∈ b :: ps, Impl.QK o.esc t = true)
    (op2 : Impl.Op) (sop2 : Spec.Op) (hs2 : specOp op2 = some sop2) (hop2 : OpOK o.esc op2)
    (hp2 : Spec.parsePointer op2.path = some (b :: qs)) (hk2 : sop2.kind ≠ .move)
    (sizeAt : Nat → Nat) (acci : Int) :
    match Spec.applyFrom (specOpts o) sizeAt 0 0 (.obj ms)
        [{ kind := .copy, path := path, frm := frm }, sop2] with
    | .ok _ => ∃ r' ms2, Impl.applyOps o r acci
          [{ kind := ascii "copy", path := path, frm := some frm }, op2] = .ok r' ∧
        Impl.den r'.con = .obj ms2 ∧ Value.lookup a ms2 = Value.lookup a ms
    | _ => True := by
  have hpath2 : sop2.path = op2.path := by
    simp only [specOp] at hs2
    cases hk : specKind op2.kind with
    | none => rw [hk] at hs2; cases hs2
    | some k => rw [hk] at hs2; simp only [Option.some.injEq] at hs2; subst hs2; rfl
  have hs : specOps [{ kind := ascii "copy", path := path, frm := some frm }, op2] =
      some [{ kind := .copy, path := path, frm := frm }, sop2] := by
    simp only [specOps, hs2]
    rfl
  have h := applyOps_refines_inv hEq o ho hl sizeAt _ _ r 0 0 acci hr hs
    (by
      intro op hop
      simp only [List.mem_cons, List.not_mem_nil, or_false] at hop
      rcases hop with rfl | rfl
      · exact ⟨fun c hc => (by cases hc),
          fun toks htoks => (by rw [hp] at htoks; cases htoks; exact hqp),
          fun _ => (by simp)⟩
      · exact hop2)
  rw [hms] at h
  cases hres : Spec.applyFrom (specOpts o) sizeAt 0 0 (.obj ms)
      [{ kind := .copy, path := path, frm := frm }, sop2] with
  | unspec => trivial
  | fail i c => trivial
  | ok v =>
    rw [hres] at h
    obtain ⟨r', h1, h2, _⟩ := h
    simp only [Spec.applyFrom] at hres
    cases hc1 : Spec.applyOp (specOpts o) (sizeAt 0) 0 (.obj ms) { kind := .copy, path := path, frm := frm } with
    | unspec => rw [hc1] at hres; cases hres
    | fail c => rw [hc1] at hres; cases hres
    | ok da =>
      obtain ⟨d1, acc1⟩ := da
      rw [hc1] at hres
      simp only at hres
      cases hc2 : Spec.applyOp (specOpts o) (sizeAt (0 + 1)) acc1 d1 sop2 with
      | unspec => rw [hc2] at hres; cases hres
      | fail c => rw [hc2] at hres; cases hres
      | ok da2 =>
        obtain ⟨d2, acc2⟩ := da2
        rw [hc2] at hres
        simp only [Spec.Outcome.ok.injEq] at hres
        subst hres
        obtain ⟨ms2, hd2, hl2⟩ := copy_isolated (specOpts o) (by simp [specOpts, ho]) _ _ 0 acc1 acc2 ms
          frm path a b hab fs ps qs hf hp sop2 (by rw [hpath2]; exact hp2) hk2 d1 d2 hc1 hc2
        exact ⟨r', ms2, h1, by rw [h2, hd2], hl2⟩

/-! ## The hypotheses are satisfiable: concrete instances -/

section Examples

def exO : Impl.Opts := {}

/-- `{"a":{"x":"<"},"k":null}`, the member `a` still unparsed -/
def exR : Impl.Root :=
  { con := .doc [ascii "a", ascii "k"]
      [(ascii "a", .raw (.obj [(ascii "x", .str (ascii "<"))])), (ascii "k", .nil)],
    self := .nil }

def exOps : List Impl.Op :=
  [ { kind := ascii "add", path := ascii "/b", value := some (.arr [.lit (ascii "true")]) },
    { kind := ascii "copy", path := ascii "/c", frm := some (ascii "/a") },
    { kind := ascii "remove", path := ascii "/a/x" },
    { kind := ascii "test", path := ascii "/k", value := some (.lit (ascii "null")) },
    { kind := ascii "move", path := ascii "/m", frm := some (ascii "/b") } ]

def exSops : List Spec.Op :=
  [ { kind := .add, path := ascii "/b", value := some (.arr [.bool true]) },
    { kind := .copy, path := ascii "/c", frm := ascii "/a" },
    { kind := .remove, path := ascii "/a/x" },
    { kind := .test, path := ascii "/k", value := some .null },
    { kind := .move, path := ascii "/m", frm := ascii "/b" } ]

/-- `{"a":{},"k":null,"c":{"x":"<"},"m":[true]}` -/
def exResult : Value :=
  .obj [(ascii "a", .obj []), (ascii "k", .null),
        (ascii "c", .obj [(ascii "x", .str (ascii "<"))]), (ascii "m", .arr [.bool true])]

/-- `applyOps_refines`: all hypotheses hold for a five-operation patch (with EscapeHTML on and a
string that `compact` escapes), and the theorem then yields the engine's result -/
example (hEq : EqSpec) :
    ∃ r', Impl.applyOps exO exR 0 exOps = .ok r' ∧ Impl.den r'.con = exResult := by
  have hmem : ∀ (P : Impl.Op → Prop), (∀ op ∈ exOps, P op) ↔
      (P exOps[0] ∧ P exOps[1] ∧ P exOps[2] ∧ P exOps[3] ∧ P exOps[4]) := by
    intro P; simp [exOps]
  have hv : ∀ op ∈ exOps, ∀ c, op.value = some c → c.valueOf.noDup = true :=
    (hmem _).2 (by refine ⟨?_, ?_, ?_, ?_, ?_⟩ <;> intro c hc <;> cases hc <;> decide)
  have hcst : ∀ op ∈ exOps, ∀ c, op.value = some c → Impl.CstOK exO.esc c = true :=
    (hmem _).2 (by refine ⟨?_, ?_, ?_, ?_, ?_⟩ <;> intro c hc <;> cases hc <;> decide)
  have hq : ∀ op ∈ exOps, ∀ toks, Spec.parsePointer op.path = some toks →
      ∀ t ∈ toks, Impl.QK exO.esc t = true :=
    (hmem _).2 (by refine ⟨?_, ?_, ?_, ?_, ?_⟩ <;> intro toks ht <;> cases ht <;> decide)
  have hfrm : ∀ op ∈ exOps, op.kind = ascii "copy" → op.frm ≠ none :=
    (hmem _).2 (by refine ⟨?_, ?_, ?_, ?_, ?_⟩ <;> intro hk <;> first | exact absurd hk (by decide) | simp [exOps])
  have h := applyOps_refines hEq exO rfl rfl exR (by decide) (by decide) exOps exSops (by rfl)
    hv hcst hq hfrm (fun _ => 0) 0 0 0
  have hs : Spec.applyFrom (specOpts exO) (fun _ => 0) 0 0 (Impl.den exR.con) exSops = .ok exResult := by rfl
  rw [hs] at h
  obtain ⟨r', h1, h2, _⟩ := h
  exact ⟨r', h1, h2⟩

/-- `{"":{"":1},"k":{"":null}}` (parsed): members named `""` -/
def exRE : Impl.Root :=
  { con := .doc [[], ascii "k"]
      [([], .doc [[]] [([], .raw (.lit (ascii "1")))]),
       (ascii "k", .doc [[]] [([], .nil)])],
    self := .nil }

/-- pointers with EMPTY reference tokens (`//` = member `""` of member `""`; `/k/` = member `""`
of member `k`; `/` = member `""` of the root): inside the domain since `get("")` was repaired -/
def exOpsE : List Impl.Op :=
  [ { kind := ascii "replace", path := ascii "//", value := some (.lit (ascii "2")) },
    { kind := ascii "test", path := ascii "/k/", value := some (.lit (ascii "null")) },
    { kind := ascii "copy", path := ascii "/k/c", frm := some (ascii "/") },
    { kind := ascii "remove", path := ascii "//" },
    { kind := ascii "move", path := ascii "//", frm := some (ascii "/k/") } ]

def exSopsE : List Spec.Op :=
  [ { kind := .replace, path := ascii "//", value := some (.num (ascii "2")) },
    { kind := .test, path := ascii "/k/", value := some .null },
    { kind := .copy, path := ascii "/k/c", frm := ascii "/" },
    { kind := .remove, path := ascii "//" },
    { kind := .move, path := ascii "//", frm := ascii "/k/" } ]

/-- `{"":{"":null},"k":{"c":{"":2}}}` -/
def exResultE : Value :=
  .obj [([], .obj [([], .null)]),
        (ascii "k", .obj [(ascii "c", .obj [([], .num (ascii "2"))])])]

example : Spec.parsePointer (ascii "/k/") = some [ascii "k", []] ∧
    Spec.parsePointer (ascii "//") = some [[], []] ∧ Spec.parsePointer (ascii "/") = some [[]] := by
  refine ⟨?_, ?_, ?_⟩ <;> rfl

/-- `applyOps_refines` on pointers with empty reference tokens: the engine addresses the members
named `""` exactly as the specification (RFC 6901) says -/
example (hEq : EqSpec) :
    ∃ r', Impl.applyOps exO exRE 0 exOpsE = .ok r' ∧ Impl.den r'.con = exResultE := by
  have hmem : ∀ (P : Impl.Op → Prop), (∀ op ∈ exOpsE, P op) ↔
      (P exOpsE[0] ∧ P exOpsE[1] ∧ P exOpsE[2] ∧ P exOpsE[3] ∧ P exOpsE[4]) := by
    intro P; simp [exOpsE]
  have hv : ∀ op ∈ exOpsE, ∀ c, op.value = some c → c.valueOf.noDup = true :=
    (hmem _).2 (by refine ⟨?_, ?_, ?_, ?_, ?_⟩ <;> intro c hc <;> cases hc <;> decide)
  have hcst : ∀ op ∈ exOpsE, ∀ c, op.value = some c → Impl.CstOK exO.esc c = true :=
    (hmem _).2 (by refine ⟨?_, ?_, ?_, ?_, ?_⟩ <;> intro c hc <;> cases hc <;> decide)
  have hq : ∀ op ∈ exOpsE, ∀ toks, Spec.parsePointer op.path = some toks →
      ∀ t ∈ toks, Impl.QK exO.esc t = true :=
    (hmem _).2 (by refine ⟨?_, ?_, ?_, ?_, ?_⟩ <;> intro toks ht <;> cases ht <;> decide)
  have hfrm : ∀ op ∈ exOpsE, op.kind = ascii "copy" → op.frm ≠ none :=
    (hmem _).2 (by refine ⟨?_, ?_, ?_, ?_, ?_⟩ <;> intro hk <;> first | exact absurd hk (by decide) | simp [exOpsE])
  have h := applyOps_refines hEq exO rfl rfl exRE (by decide) (by decide) exOpsE exSopsE (by rfl)
    hv hcst hq hfrm (fun _ => 0) 0 0 0
  have hs : Spec.applyFrom (specOpts exO) (fun _ => 0) 0 0 (Impl.den exRE.con) exSopsE = .ok exResultE := by rfl
  rw [hs] at h
  obtain ⟨r', h1, h2, _⟩ := h
  exact ⟨r', h1, h2⟩

/-! ### pointers without a leading `/` (outside RFC 6901): decided by the specification -/

/-- the hypotheses of `applyOps_refines` for a one-operation patch without a value on `exR` -/
theorem ex_single (hEq : EqSpec) (op : Impl.Op) (sop : Spec.Op) (hs : specOps [op] = some [sop])
    (hval : op.value = none)
    (hq : ∀ toks, Spec.parsePointer op.path = some toks → ∀ t ∈ toks, Impl.QK exO.esc t = true)
    (hf : op.kind = ascii "copy" → op.frm ≠ none) :
    match Spec.applyFrom (specOpts exO) (fun _ => 0) 0 0 (Impl.den exR.con) [sop] with
    | .ok v => ∃ r', Impl.applyOps exO exR 0 [op] = .ok r' ∧ Impl.den r'.con = v ∧
        Impl.WFRoot r' = true ∧ Impl.TX exO.esc r'.con = true
    | .fail _ _ => ∃ e, Impl.applyOps exO exR 0 [op] = .err e
    | .unspec => True :=
  applyOps_refines hEq exO rfl rfl exR (by decide) (by decide) [op] [sop] hs
    (by intro o ho c hc; simp only [List.mem_singleton] at ho; subst ho; rw [hval] at hc; cases hc)
    (by intro o ho c hc; simp only [List.mem_singleton] at ho; subst ho; rw [hval] at hc; cases hc)
    (by intro o ho; simp only [List.mem_singleton] at ho; subst ho; exact hq)
    (by intro o ho; simp only [List.mem_singleton] at ho; subst ho; exact hf)
    (fun _ => 0) 0 0 0

/-- `remove "a/x"` (no leading `/`): the specification fails with `parentUnreachable`, the engine
errs; `copy` to `"x"` from the absent `/zz`: the source half is evaluated first and its failure
(`absentMember`) is the one reported; `move` to `"x"` from `"k"`: both pointers are malformed -/
example (hEq : EqSpec) :
    (∃ e, Impl.applyOps exO exR 0 [{ kind := ascii "remove", path := ascii "a/x" }] = .err e) ∧
    (∃ e, Impl.applyOps exO exR 0
      [{ kind := ascii "copy", path := ascii "x", frm := some (ascii "/zz") }] = .err e) ∧
    (∃ e, Impl.applyOps exO exR 0
      [{ kind := ascii "move", path := ascii "x", frm := some (ascii "k") }] = .err e) := by
  refine ⟨?_, ?_, ?_⟩
  · have h := ex_single hEq { kind := ascii "remove", path := ascii "a/x" }
      { kind := .remove, path := ascii "a/x" } (by rfl) rfl
      (by intro toks ht; cases ht) (by intro hk; exact absurd hk (by decide))
    have hs : Spec.applyFrom (specOpts exO) (fun _ => 0) 0 0 (Impl.den exR.con)
        [{ kind := .remove, path := ascii "a/x" }] = .fail 0 .parentUnreachable := by rfl
    rw [hs] at h; exact h
  · have h := ex_single hEq { kind := ascii "copy", path := ascii "x", frm := some (ascii "/zz") }
      { kind := .copy, path := ascii "x", frm := ascii "/zz" } (by rfl) rfl
      (by intro toks ht; cases ht) (by intro _; simp)
    have hs : Spec.applyFrom (specOpts exO) (fun _ => 0) 0 0 (Impl.den exR.con)
        [{ kind := .copy, path := ascii "x", frm := ascii "/zz" }] = .fail 0 .absentMember := by rfl
    rw [hs] at h; exact h
  · have h := ex_single hEq { kind := ascii "move", path := ascii "x", frm := some (ascii "k") }
      { kind := .move, path := ascii "x", frm := ascii "k" } (by rfl) rfl
      (by intro toks ht; cases ht) (by intro hk; exact absurd hk (by decide))
    have hs : Spec.applyFrom (specOpts exO) (fun _ => 0) 0 0 (Impl.den exR.con)
        [{ kind := .move, path := ascii "x", frm := ascii "k" }] = .fail 0 .parentUnreachable := by rfl
    rw [hs] at h; exact h

/-- `move_eq_remove_add` on `{"a":1}`, `move /a → /b` -/
example :
    Spec.applyOp {} 0 0 (.obj [(ascii "a", .num (ascii "1"))])
        { kind := .move, path := ascii "/b", frm := ascii "/a" } =
      .ok (.obj [(ascii "b", .num (ascii "1"))], 0) := by
  rw [move_eq_remove_add {} rfl rfl 0 0 _ (ascii "/b") (ascii "/a") (ascii "a") (ascii "b") [] [] rfl rfl]
  rfl

/-- `test_absent_is_null` on `{"a":1}`, `test /b null` -/
example :
    Spec.applyOp {} 0 0 (.obj [(ascii "a", .num (ascii "1"))])
        { kind := .test, path := ascii "/b", value := some .null } =
      .ok (.obj [(ascii "a", .num (ascii "1"))], 0) :=
  test_absent_is_null {} 0 0 _ (ascii "/b") (ascii "b") [] rfl rfl _ (Or.inr rfl)

/-- `write_then_read` / `null_roundtrip` on `{"a":{}}`, `add /a/n null` then `test /a/n` -/
example :
    Spec.applyOp {} 0 0 (.obj [(ascii "a", .obj [(ascii "n", .null)])])
        { kind := .test, path := ascii "/a/n", value := none } =
      .ok (.obj [(ascii "a", .obj [(ascii "n", .null)])], 0) :=
  null_roundtrip {} rfl 0 0 0 0 (.obj [(ascii "a", .obj [])]) _ (ascii "/a/n") .add (Or.inl rfl)
    (ascii "a") [ascii "n"] rfl (by decide) rfl none (Or.inl rfl)

/-- `copy_isolated` / `applyOp_keeps` on `{"a":{"x":1}}`: `copy /a → /b`, then `replace /b/x 2` -/
example :
    ∃ ms2, (Value.obj [(ascii "a", .obj [(ascii "x", .num (ascii "1"))]),
              (ascii "b", .obj [(ascii "x", .num (ascii "2"))])]) = .obj ms2 ∧
      Value.lookup (ascii "a") ms2 =
        Value.lookup (ascii "a") [(ascii "a", .obj [(ascii "x", .num (ascii "1"))])] :=
  copy_isolated {} rfl 0 0 0 0 0 [(ascii "a", .obj [(ascii "x", .num (ascii "1"))])]
    (ascii "/a") (ascii "/b") (ascii "a") (ascii "b") (by decide) [] [] [ascii "x"] rfl rfl
    { kind := .replace, path := ascii "/b/x", value := some (.num (ascii "2")) } rfl (by simp)
    (.obj [(ascii "a", .obj [(ascii "x", .num (ascii "1"))]), (ascii "b", .obj [(ascii "x", .num (ascii "1"))])])
    _ rfl rfl

/-- the engine-level corollaries: their hypotheses on `exR` -/
example (hEq : EqSpec) :
    ∃ r', Impl.applyOps exO exR 0 [addNull (ascii "/n"), testNull (ascii "/n")] = .ok r' ∧
      Impl.den r'.con = .obj [(ascii "a", .obj [(ascii "x", .str (ascii "<"))]), (ascii "k", .null),
        (ascii "n", .null)] := by
  have h := engine_null_roundtrip hEq exO rfl rfl exR ((InvRoot_iff _ _).2 ⟨by decide, by decide⟩)
    (ascii "/n") (ascii "n") [] rfl (by decide) (by decide) 0
  have hs : Spec.applyOp (specOpts exO) 0 0 (Impl.den exR.con)
      { kind := .add, path := ascii "/n", value := some .null } =
      .ok (.obj [(ascii "a", .obj [(ascii "x", .str (ascii "<"))]), (ascii "k", .null),
        (ascii "n", .null)], 0) := by rfl
  rw [hs] at h
  exact h

example (hEq : EqSpec) :
    ∃ r', Impl.applyOps exO exR 0 [testNone (ascii "/zz")] = .ok r' ∧ Impl.den r'.con = Impl.den exR.con :=
  (engine_test_absent_is_null hEq exO exR ((InvRoot_iff _ _).2 ⟨by decide, by decide⟩)
    (ascii "/zz") (ascii "zz") [] rfl (by rfl) 0).2

end Examples

/-
#print axioms JP.C01.applyOps_refines            -- [propext, Classical.choice, Quot.sound]
#print axioms JP.C01.applyOp_refines
#print axioms JP.C01.applyOps_refines_acc
#print axioms JP.C01.apply_refines
#print axioms JP.C01.move_eq_remove_add
#print axioms JP.C01.test_absent_is_null
#print axioms JP.C01.null_roundtrip
#print axioms JP.C01.write_then_read
#print axioms JP.C01.copy_isolated
#print axioms JP.C01.engine_null_roundtrip
#print axioms JP.C01.engine_test_absent_is_null
#print axioms JP.C01.engine_copy_isolated
-/

end C01
end JP
