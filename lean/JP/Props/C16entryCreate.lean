import JP.Lemmas.ParseWs
import JP.Props.C03impl

/-!
# C16, entry points (continued): `CreateMergePatch`

(separate from `JP/Props/C16entry.lean` because the merge-family lemma files and the engine lemma
files declare common names and cannot be imported into one module)
-/

namespace JP.C16
open JP Impl

/-! ### `CreateMergePatch` -/

theorem create_rejects_malformed (a b : Bytes) (h : parseCst a = none ∨ parseCst b = none) :
    Impl.createMergePatch a b = .err .badDoc :=
  (C03.create_rejects a b).1 h

theorem create_ws (ws₁ a ws₂ ws₃ b ws₄ : Bytes)
    (h₁ : JP.WsOnly ws₁) (h₂ : JP.WsOnly ws₂) (h₃ : JP.WsOnly ws₃) (h₄ : JP.WsOnly ws₄) :
    Impl.createMergePatch (ws₁ ++ a ++ ws₂) (ws₃ ++ b ++ ws₄) = Impl.createMergePatch a b := by
  unfold createMergePatch
  rw [C16.valid_ws ws₁ a ws₂ h₁ h₂, C16.valid_ws ws₃ b ws₄ h₃ h₄, parseCst_ws ws₁ a ws₂ h₁ h₂,
    parseCst_ws ws₃ b ws₄ h₃ h₄]

/-- two well-formed objects (or two equal-length arrays of objects) are accepted, white space
included -/
theorem create_accepts_ws (ws₁ a ws₂ ws₃ b ws₄ : Bytes) (ca cb : Cst)
    (h₁ : JP.WsOnly ws₁) (h₂ : JP.WsOnly ws₂) (h₃ : JP.WsOnly ws₃) (h₄ : JP.WsOnly ws₄)
    (pa : parseCst a = some ca) (pb : parseCst b = some cb) :
    (ca.isObj = true → cb.isObj = true →
      ∃ out, Impl.createMergePatch (ws₁ ++ a ++ ws₂) (ws₃ ++ b ++ ws₄) = .ok out) ∧
    (∀ xs ys, ca = .arr xs → cb = .arr ys → xs.length = ys.length →
      (∀ x ∈ xs, x.isObj = true) → (∀ y ∈ ys, y.isObj = true) →
      ∃ out, Impl.createMergePatch (ws₁ ++ a ++ ws₂) (ws₃ ++ b ++ ws₄) = .ok out) := by
  rw [create_ws ws₁ a ws₂ ws₃ b ws₄ h₁ h₂ h₃ h₄]
  exact C03.create_accepts a b ca cb pa pb

/-! ### the hypotheses are satisfiable -/

example : Impl.createMergePatch (ascii "{") (ascii "{}") = .err .badDoc :=
  create_rejects_malformed _ _ (Or.inl (by decide +kernel))
example : JP.WsOnly (ascii " \t\r\n") := by decide
example : (match parseCst (ascii "{\"a\":1}"), parseCst (ascii "{\"a\":2}") with
    | some ca, some cb => ca.isObj && cb.isObj | _, _ => false) = true := by decide +kernel
example : (match Impl.createMergePatch (ascii " {\"a\":1}\n") (ascii "\t{\"a\":2} ") with
    | .ok out => out == ascii "{\"a\":2}" | _ => false) = true := by decide +kernel

/-
all of the following: [propext, Classical.choice, Quot.sound]
#print axioms JP.C16.create_rejects_malformed
#print axioms JP.C16.create_ws
#print axioms JP.C16.create_accepts_ws
-/

end JP.C16
