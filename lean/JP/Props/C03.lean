import JP.Driver
import JP.Impl.Den

/-! # Property C03 — theorems (see DESIGN.md §6) -/

namespace JP
namespace C03

end C03
end JP
