import JP.Lemmas.HeapLegacyApply
import JP.Lemmas.LegacyNoPanic

/-!
# C04 / C18 (heap, legacy): the Go heap of the LEGACY root package is refined by its value model

`JP/Heap/LegacyModel.lean` transcribes the engine of `/patch.go` (root package) over the STORE of
`JP/Heap/Model.lean`: nodes are addresses, `intoDoc`/`intoAry` overwrite the cell they parse,
`findObject` returns the ADDRESS of the container it reached, `set/add/remove` rewrite that one
cell, `move` links THE SAME pointer it unlinked, `copy` keeps the source pointer across the second
`findObject`.  `partialDoc` is a bare map (no key list): a legacy object cell is `.doc [] obj`; the
node with a nil raw message (`"value": null`) is the cell `.nilAry`.  This file states, for all
heaps / documents / patches and both package settings, that sharing and cycles never arise and that
the store-based engine computes what the legacy value model (`JP.Legacy`) computes — so every
theorem about `Legacy.applyBytes` (C04legacy, C18, C12, C19bytes) is a theorem about the heap model.

Layers (bottom-up; each is kept as a theorem of its own):

* `LRepr h n p fp` — the part of `h` reachable from `p` is a TREE abstracting to the legacy node `n`;
  `repr_is_v5`: it IS the v5 predicate `Repr` on the embedding `emb` (that is how the frame,
  allocation, write and list lemmas of the v5 development are reused);
* `intoDoc` (a raw `null` becomes a nil map IN PLACE), `intoAry`, `intoContainer`;
  `get` (`Got`: nil for an absent name WITHOUT error, or a child in focus), `set`, `add`, `remove`;
* `find_refines` / `findObject_refines`: in-place descent = `Legacy.walk … putChild` (context + wand);
  `findObject_twice`: a second descent along a parsed path returns the same address, same heap;
* the six operations, `apply_refines_legacy`;
* `tree_preserved_legacy`, `marshal_terminates_legacy`, `applyHeapL_eq`, `patch_values_fresh_legacy`.

Nothing is left open and no hypothesis is visible (the legacy engine has no `ensurePathExists`, so
the `RootOK` side condition of `JP.C04heap` has no counterpart).  The driver compares `applyHeapL`
with `Legacy.applyBytes` on every LAPPLY case (`JP/Heap/DriverHeapLegacy.lean`).

Each theorem is followed by an `example` on the concrete heap `exH`: the document
`{"a":{"b":{"x":2}},"c":[1,null]}` with `/a` parsed, `/a/b` and `/c/0` raw.
-/

namespace JP.C04heapLegacy
open JP.Impl (Outcome)
open JP.Legacy (Node Op StrField ValField)
open JP.Heap
open JP.Heap.Lg

/-! ### the example heap -/

def cB : Cst := .obj [(ascii "x", .lit (ascii "2"))]

/-- `0 ↦ {"a":→1,"c":→2}`, `1 ↦ {"b":→3}`, `2 ↦ [→4, nil]`, `3 ↦ raw {"x":2}`, `4 ↦ raw 1` -/
def exH : Heap :=
  [ .doc [] [(ascii "a", some 1), (ascii "c", some 2)],
    .doc [] [(ascii "b", some 3)],
    .ary [some 4, none],
    .raw cB,
    .raw (.lit (ascii "1")) ]

def exN : Node :=
  .doc
    [(ascii "a", .doc [(ascii "b", .raw cB)]),
     (ascii "c", .ary [.raw (.lit (ascii "1")), .nil])]

theorem ex_repr : LRepr exH exN (some 0) [0, 1, 3, 2, 4] := by
  have r3 : LRepr exH (.raw cB) (some 3) [3] := LRepr.mk_raw rfl
  have r4 : LRepr exH (.raw (.lit (ascii "1"))) (some 4) [4] := LRepr.mk_raw rfl
  have r1 : LRepr exH (.doc [(ascii "b", .raw cB)]) (some 1) [1, 3] :=
    LRepr.mk_doc (f := [3]) rfl
      (LReprM.mk_cons (f1 := [3]) (f2 := []) r3 (LReprM.mk_nil _) (Disj.nil_right _)) (by decide)
  have r2 : LRepr exH (.ary [.raw (.lit (ascii "1")), .nil]) (some 2) [2, 4] :=
    LRepr.mk_ary (f := [4]) rfl
      (LReprL.mk_cons (f1 := [4]) (f2 := []) r4
        (LReprL.mk_cons (f1 := []) (f2 := []) (LRepr.mk_nil _) (LReprL.mk_nil _) (Disj.nil_left _))
        (Disj.nil_right _)) (by decide)
  exact LRepr.mk_doc (f := [1, 3, 2, 4]) rfl
    (LReprM.mk_cons (f1 := [1, 3]) (f2 := [2, 4]) r1
      (LReprM.mk_cons (f1 := [2, 4]) (f2 := []) r2 (LReprM.mk_nil _) (Disj.nil_right _))
      (by intro x hx hy; simp at hx hy; omega)) (by decide)

/-- the legacy representation predicate is the v5 one on the embedded node -/
theorem repr_is_v5 {h : Heap} (n : Node) (p : Ptr) (fp : List Nat) :
    LRepr h n p fp ↔ Repr h (emb n) p fp := LRepr_iff n p fp

/-- a heap that is NOT a tree (cell 1 reachable twice) has no representation -/
def exShared : Heap := [ .ary [some 1, some 1], .raw (.lit (ascii "7")) ]

theorem shared_not_repr (n : Node) (fp : List Nat) : ¬ LRepr exShared n (some 0) fp := by
  intro r
  have r' := (repr_is_v5 n (some 0) fp).mp r
  generalize emb n = m at r'
  cases m with
  | nil => simp only [Heap.Repr] at r'; cases r'.1
  | raw c => simp only [Heap.Repr] at r'; obtain ⟨a, e, ha, _⟩ := r'; cases e; cases ha
  | docNil => simp only [Heap.Repr] at r'; obtain ⟨a, e, ha, _⟩ := r'; cases e; cases ha
  | nilAry => simp only [Heap.Repr] at r'; obtain ⟨a, e, ha, _⟩ := r'; cases e; cases ha
  | doc k m => simp only [Heap.Repr] at r'; obtain ⟨a, ps, f, e, ha, _⟩ := r'; cases e; cases ha
  | ary ns =>
    simp only [Heap.Repr] at r'; obtain ⟨a, ps, f, e, ha, hl, _, _⟩ := r'; cases e
    have : ps = [some 1, some 1] := by
      have : exShared[0]? = some (.ary [some 1, some 1]) := rfl
      rw [this] at ha; cases ha; rfl
    subst this
    cases ns with
    | nil => simp only [ReprL] at hl; cases hl.1
    | cons n1 ns =>
      simp only [ReprL] at hl
      obtain ⟨p, ps', f1, f2, e, h1, h2, d, _⟩ := hl
      cases e
      cases ns with
      | nil => simp only [ReprL] at h2; cases h2.1
      | cons n2 ns =>
        simp only [ReprL] at h2
        obtain ⟨p2, ps2, g1, g2, e2, h3, _, _, rfl⟩ := h2
        cases e2
        exact d 1 (Repr.head_mem h1) (by simp [Repr.head_mem h3])

/-! ### frame lemmas -/

theorem repr_frame {h h' : Heap} {n : Node} {p : Ptr} {fp : List Nat} (r : LRepr h n p fp)
    (hf : ∀ x ∈ fp, h'[x]? = h[x]?) : LRepr h' n p fp := LRepr.frame r hf

theorem repr_write {h : Heap} {n : Node} {p : Ptr} {fp : List Nat} (r : LRepr h n p fp) {a : Nat}
    (c : Cell) (ha : a ∉ fp) : LRepr (h.set a c) n p fp := LRepr.write r c ha

theorem repr_alloc {h : Heap} {n : Node} {p : Ptr} {fp : List Nat} (r : LRepr h n p fp)
    (ext : List Cell) : LRepr (h ++ ext) n p fp := LRepr.alloc r ext

theorem repr_tree {h : Heap} {n : Node} {p : Ptr} {fp : List Nat} (r : LRepr h n p fp) :
    fp.Nodup ∧ ∀ x ∈ fp, x < h.length := ⟨LRepr.nodup r, LRepr.valid r⟩

example : LRepr (exH ++ [.docNil]) exN (some 0) [0, 1, 3, 2, 4] := repr_alloc ex_repr _
example : [0, 1, 3, 2, 4].Nodup := (repr_tree ex_repr).1

/-! ### primitives -/

theorem intoDoc_refines {h : Heap} {n : Node} {a : Nat} {f : List Nat} (r : LRepr h n (some a) f) :
    OutRel (fun h' n' => ∃ f', LRepr h' n' (some a) f' ∧ Ext h h' f f') (Lg.intoDoc h (some a)) (Legacy.intoDoc n) :=
  Lg.intoDoc_refines r

theorem intoAry_refines {h : Heap} {n : Node} {a : Nat} {f : List Nat} (r : LRepr h n (some a) f) :
    OutRel (fun h' n' => ∃ f', LRepr h' n' (some a) f' ∧ Ext h h' f f') (Lg.intoAry h (some a)) (Legacy.intoAry n) :=
  Lg.intoAry_refines r

theorem intoContainer_refines {h : Heap} {n : Node} {a : Nat} {f : List Nat} (r : LRepr h n (some a) f) :
    OutRel (fun h' n' => ∃ f', LRepr h' n' (some a) f' ∧ Ext h h' f f')
      (Lg.intoContainer h (some a)) (Legacy.intoContainer n) :=
  Lg.intoContainer_refines r

example : (match Lg.intoDoc exH (some 3) with | .ok h' => h'.length | _ => 0) = 6 := by decide
example : (match Lg.intoAry exH (some 3) with | .err .other => true | _ => false) = true := by decide
/-- a raw `null` entered by `findObject` becomes a nil map in place; a nil raw message is refused -/
example : (match Lg.intoDoc [.raw (.lit (ascii "null"))] (some 0) with
    | .ok [.docNil] => true | _ => false) = true := by decide
example : (match Lg.intoDoc [.nilAry] (some 0) with | .err .invalid => true | _ => false) = true := by decide

theorem get_refines (neg : Bool) {h : Heap} {con : Node} {c : Nat} {fc : List Nat}
    (key : Bytes) (r : LRepr h con (some c) fc) :
    OutRel (Got h con c fc key) (Lg.hGet neg h c key) (Legacy.conGet neg con key) :=
  Lg.hGet_refines neg key r

theorem add_refines (neg : Bool) {h : Heap} {con : Node} {c : Nat} {fc : List Nat} {val : Node}
    {p : Ptr} {fv : List Nat} (key : Bytes) (r : LRepr h con (some c) fc) (rv : LRepr h val p fv)
    (d : Disj fv fc) :
    OutRel (LWrote h c fc fv) (Lg.hAdd neg h c key p) (Legacy.conAdd neg con key val) :=
  Lg.hAdd_refines neg key r rv d

theorem set_refines (neg : Bool) {h : Heap} {con : Node} {c : Nat} {fc : List Nat} {val : Node}
    {p : Ptr} {fv : List Nat} (key : Bytes) (r : LRepr h con (some c) fc) (rv : LRepr h val p fv)
    (d : Disj fv fc) :
    OutRel (LWrote h c fc fv) (Lg.hSet neg h c key p) (Legacy.conSet neg con key val) :=
  Lg.hSet_refines neg key r rv d

theorem remove_refines (neg : Bool) {h : Heap} {con : Node} {c : Nat} {fc : List Nat}
    (key : Bytes) (r : LRepr h con (some c) fc) :
    OutRel (LRemoved neg h con c fc key) (Lg.hRemove neg h c key) (Legacy.conRemove neg con key) :=
  Lg.hRemove_refines neg key r

example : OutRel (Got exH exN 0 [0, 1, 3, 2, 4] (ascii "c")) (Lg.hGet true exH 0 (ascii "c"))
    (Legacy.conGet true exN (ascii "c")) := get_refines true _ ex_repr
/-- `partialDoc.get` of an absent name: nil, no error -/
example : (match Lg.hGet true exH 0 (ascii "zz") with | .ok none => true | _ => false) = true := by decide
example : (match Lg.hGet true exH 2 (ascii "-1") with | .ok none => true | _ => false) = true := by decide
example : (match Lg.hGet false exH 2 (ascii "-1") with | .err .invalidIndex => true | _ => false) = true := by
  decide
example : (match Lg.hRemove true exH 2 (ascii "0") with | .ok h' => h'.length | _ => 0) = 5 := by decide

/-! ### `findObject` -/

theorem find_refines (neg : Bool) (parts : List Bytes) {h : Heap} {a : Nat} {n : Node} {fp : List Nat}
    (r : LRepr h n (some a) fp) : Found neg h a n fp parts (Lg.find neg h a parts) :=
  Lg.find_refines neg parts h a n fp r

theorem findObject_refines (neg : Bool) (r : Node) {h : Heap} {root : Nat} {fp : List Nat}
    (path : Bytes) (hr : LRepr h r (some root) fp) :
    FoundP neg r h root fp path (Lg.findObject neg h root path) :=
  Lg.findObject_refines neg r path hr

/-- `findObject` twice along the same path: same container, heap unchanged (no tree hypothesis) -/
theorem findObject_twice {neg : Bool} {h h' : Heap} {root : Nat} {path : Bytes} {oc : Option (Nat × Bytes)}
    (hf : Lg.findObject neg h root path = .ok (h', oc)) :
    Mono h h' ∧ ∀ c key, oc = some (c, key) →
      ∀ h2, Mono h' h2 → Lg.findObject neg h2 root path = .ok (h2, some (c, key)) :=
  Lg.findObject_stable hf

example : FoundP true exN exH 0 [0, 1, 3, 2, 4] (ascii "/a/b/x") (Lg.findObject true exH 0 (ascii "/a/b/x")) :=
  findObject_refines true exN _ ex_repr
/-- the descent parsed `/a/b` in place: cell 3 is now an object cell, one child cell was allocated -/
example : (match Lg.findObject true exH 0 (ascii "/a/b/x") with
    | .ok (h', some (3, _)) => h'.length == 6 | _ => false) = true := by decide

/-! ### the operations -/

theorem remove_op_refines (neg : Bool) {s : St} {r : Node} {fp : List Nat} (op : Op)
    (hr : LRepr s.h r (some s.root) fp) :
    OutRel (LRelSt s.h fp) (Lg.opRemove neg s op) (Legacy.opRemove neg r op) := Lg.opRemove_refines neg op hr

theorem add_op_refines (neg : Bool) {s : St} {r : Node} {fp : List Nat} (op : Op)
    (hr : LRepr s.h r (some s.root) fp) :
    OutRel (LRelSt s.h fp) (Lg.opAdd neg s op) (Legacy.opAdd neg r op) := Lg.opAdd_refines neg op hr

theorem replace_op_refines (neg : Bool) {s : St} {r : Node} {fp : List Nat} (op : Op)
    (hr : LRepr s.h r (some s.root) fp) :
    OutRel (LRelSt s.h fp) (Lg.opReplace neg s op) (Legacy.opReplace neg r op) := Lg.opReplace_refines neg op hr

/-- `move`: the pointer leaves the source container before THE SAME pointer enters the destination;
no cell is reachable twice in between or afterwards -/
theorem move_op_refines (neg : Bool) {s : St} {r : Node} {fp : List Nat} (op : Op)
    (hr : LRepr s.h r (some s.root) fp) :
    OutRel (LRelSt s.h fp) (Lg.opMove neg s op) (Legacy.opMove neg r op) := Lg.opMove_refines neg op hr

/-- `copy`: the Go code keeps `val` across the second `findObject`, the value model walks again -/
theorem copy_op_refines (neg : Bool) (limit : Int) {s : St} {r : Node} {fp : List Nat} (acc : Int) (op : Op)
    (hr : LRepr s.h r (some s.root) fp) :
    OutRel (LRelAcc s.h fp) (Lg.opCopy neg limit s acc op) (Legacy.opCopy neg limit r acc op) :=
  Lg.opCopy_refines neg limit acc op hr

theorem test_op_refines (neg : Bool) {s : St} {r : Node} {fp : List Nat} (op : Op)
    (hr : LRepr s.h r (some s.root) fp) :
    OutRel (LRelSt s.h fp) (Lg.opTest neg s op) (Legacy.opTest neg r op) := Lg.opTest_refines neg op hr

def exMove : Op := { kind := ascii "move", path := .ok (ascii "/c/0"), frm := .ok (ascii "/a/b"), value := .absent }
def exCopy : Op := { kind := ascii "copy", path := .ok (ascii "/c/-"), frm := .ok (ascii "/a"), value := .absent }
def exTest : Op := { kind := ascii "test", path := .ok (ascii "/a/b"), frm := .missing, value := .val cB }
def exAdd : Op := { kind := ascii "add", path := .ok (ascii "/a/n"), frm := .missing, value := .null }

example : OutRel (LRelSt exH [0, 1, 3, 2, 4]) (Lg.opMove true ⟨exH, 0⟩ exMove) (Legacy.opMove true exN exMove) :=
  move_op_refines true (s := ⟨exH, 0⟩) exMove ex_repr
/-- after the move cell 1 (`/a`) has no member left and cell 2 (`/c`) starts with the pointer 3 -/
example : (match Lg.opMove true ⟨exH, 0⟩ exMove with
    | .ok s' => (match s'.h[1]?, s'.h[2]? with
                 | some (Cell.doc _ []), some (Cell.ary [some 3, some 4, none]) => true
                 | _, _ => false)
    | _ => false) = true := by decide
example : OutRel (LRelAcc exH [0, 1, 3, 2, 4]) (Lg.opCopy true 0 ⟨exH, 0⟩ 0 exCopy)
    (Legacy.opCopy true 0 exN 0 exCopy) := copy_op_refines true 0 (s := ⟨exH, 0⟩) 0 exCopy ex_repr
/-- the copy is ONE fresh raw cell holding the marshalled source (13 bytes) -/
example : (match Lg.opCopy true 0 ⟨exH, 0⟩ 0 exCopy with
    | .ok (s', acc) => s'.h.length == 6 && acc == 13 | _ => false) = true := by decide
example : OutRel (LRelSt exH [0, 1, 3, 2, 4]) (Lg.opTest true ⟨exH, 0⟩ exTest) (Legacy.opTest true exN exTest) :=
  test_op_refines true (s := ⟨exH, 0⟩) exTest ex_repr
/-- a successful `test` leaves `/a/b` parsed in place -/
example : (match Lg.opTest true ⟨exH, 0⟩ exTest with
    | .ok s' => (match s'.h[3]? with | some (Cell.doc _ _) => true | _ => false)
    | _ => false) = true := by decide
/-- `"value": null` is a node with a nil raw message: the cell `.nilAry` -/
example : (match Lg.opAdd true ⟨exH, 0⟩ exAdd with
    | .ok s' => (match s'.h[5]? with | some Cell.nilAry => true | _ => false)
    | _ => false) = true := by decide

/-! ### the loop -/

/-- same outcome (ok / error class / panic); on ok the new heap represents the new value as a tree
and differs from the old one inside the old footprint and by allocation only -/
theorem apply_refines_legacy (neg : Bool) (limit : Int) (ops : List Op) (s : St) (r : Node) (fp : List Nat)
    (acc : Int) (hr : LRepr s.h r (some s.root) fp) :
    OutRel (LRelSt s.h fp) (Lg.applyOps neg limit s acc ops) (Legacy.applyOps neg limit r acc ops) :=
  Lg.applyOps_refines neg limit ops s r fp acc hr

/-- every heap an application reaches is a tree: no cell is reachable twice, no cycle -/
theorem tree_preserved_legacy (neg : Bool) (limit : Int) (ops : List Op) (s s' : St) (r : Node)
    (fp : List Nat) (acc : Int) (hr : LRepr s.h r (some s.root) fp)
    (hok : Lg.applyOps neg limit s acc ops = .ok s') :
    ∃ n' fp', LRepr s'.h n' (some s'.root) fp' ∧ fp'.Nodup ∧ (∀ x ∈ fp', x < s'.h.length) := by
  have h1 := Lg.applyOps_refines neg limit ops s r fp acc hr
  rw [hok] at h1
  cases h2 : Legacy.applyOps neg limit r acc ops with
  | panic => rw [h2] at h1; simp at h1
  | err e => rw [h2] at h1; simp at h1
  | ok r' =>
    rw [h2] at h1; simp only [OutRel_ok_ok] at h1
    obtain ⟨fp', hr', _⟩ := h1
    exact ⟨r', fp', hr', LRepr.nodup hr', LRepr.valid hr'⟩

/-- on a tree the recursion of `json.Marshal` returns within fuel = number of cells + 1 and yields
the value model's text -/
theorem marshal_terminates_legacy {h : Heap} {n : Node} {p : Ptr} {fp : List Nat}
    (r : LRepr h n p fp) : Lg.marshal h (h.length + 1) p = some (Legacy.cstOf n) :=
  Lg.marshal_fuelOf r

theorem abs_terminates_legacy {h : Heap} {n : Node} {p : Ptr} {fp : List Nat}
    (r : LRepr h n p fp) : Lg.abs h (h.length + 1) p = some n := Lg.abs_fuelOf r

example : Lg.marshal exH 6 (some 0) = some (Legacy.cstOf exN) := marshal_terminates_legacy ex_repr
/-- on a cyclic heap the read-back runs out of fuel -/
example : (Lg.marshal [.ary [some 0]] 2 (some 0)).isNone = true := by decide

theorem marshalRoot_eq_legacy {s : St} {r : Node} {fp : List Nat}
    (hr : LRepr s.h r (some s.root) fp) : Lg.marshalRoot s = .ok (Legacy.marshal r) :=
  Lg.marshalRoot_refines hr

/-- the legacy heap engine = the legacy value engine at the byte level: no hypothesis -/
theorem applyHeapL_eq (neg : Bool) (limit : Int) (indent doc : Bytes) (ops : List Op) :
    applyHeapL neg limit indent doc ops = Legacy.applyBytes neg limit indent doc ops :=
  Lg.applyHeapL_eq neg limit indent doc ops

/-- so no theorem about `Legacy.applyBytes` is lost: e.g. C04's no-panic theorem, about the heap
model — in particular the final `json.Marshal` never recurses forever -/
theorem applyHeapL_no_panic (neg : Bool) (limit : Int) (indent doc : Bytes) (ops : List Op) :
    applyHeapL neg limit indent doc ops ≠ .panic := by
  rw [applyHeapL_eq]; exact Legacy.applyBytes_ne_panic neg limit indent doc ops

/-- cells created from a patch's values are allocated per application: run ONE patch on two
documents living side by side in one heap (disjoint trees) — afterwards they are still two disjoint
trees: nothing of the first result is reachable from the second -/
theorem patch_values_fresh_legacy (neg : Bool) (limit : Int) (ops : List Op) (h : Heap) (root1 root2 : Nat)
    (r1 r2 : Node) (fp1 fp2 : List Nat) (acc : Int)
    (h1 : LRepr h r1 (some root1) fp1) (h2 : LRepr h r2 (some root2) fp2) (d : Disj fp2 fp1)
    (s1 s2 : St) (ok1 : Lg.applyOps neg limit ⟨h, root1⟩ acc ops = .ok s1)
    (ok2 : Lg.applyOps neg limit ⟨s1.h, root2⟩ acc ops = .ok s2) :
    ∃ n1 n2 g1 g2, LRepr s2.h n1 (some s1.root) g1 ∧ LRepr s2.h n2 (some s2.root) g2 ∧ Disj g1 g2 := by
  have a1 := Lg.applyOps_refines neg limit ops ⟨h, root1⟩ r1 fp1 acc h1
  rw [ok1] at a1
  cases e1 : Legacy.applyOps neg limit r1 acc ops with
  | panic => rw [e1] at a1; simp at a1
  | err e => rw [e1] at a1; simp at a1
  | ok r1' =>
    rw [e1] at a1; simp only [OutRel_ok_ok] at a1
    obtain ⟨g1, hg1, x1⟩ := a1
    have h2' : LRepr s1.h r2 (some root2) fp2 := LRepr.ext h2 x1 d
    have d' : Disj fp2 g1 := Ext.disj x1 d (LRepr.valid h2)
    have a2 := Lg.applyOps_refines neg limit ops ⟨s1.h, root2⟩ r2 fp2 acc h2'
    rw [ok2] at a2
    cases e2 : Legacy.applyOps neg limit r2 acc ops with
    | panic => rw [e2] at a2; simp at a2
    | err e => rw [e2] at a2; simp at a2
    | ok r2' =>
      rw [e2] at a2; simp only [OutRel_ok_ok] at a2
      obtain ⟨g2, hg2, x2⟩ := a2
      exact ⟨r1', r2', g1, g2, LRepr.ext hg1 x2 (Disj.symm d'), hg2,
        Ext.disj x2 (Disj.symm d') (LRepr.valid hg1)⟩

/-! examples for the loop: move, copy, test, add in one patch -/

def exOps : List Op := [exMove, exCopy, exTest, exAdd]

example : OutRel (LRelSt exH [0, 1, 3, 2, 4]) (Lg.applyOps true 0 ⟨exH, 0⟩ 0 exOps)
    (Legacy.applyOps true 0 exN 0 exOps) := apply_refines_legacy true 0 exOps ⟨exH, 0⟩ exN _ 0 ex_repr
/-- after `move /a/b → /c/0` the legacy `get` of `/a/b` is nil without error, and a nil node against
a value is `test failed`: same error class in both models -/
example : (match Lg.applyOps true 0 ⟨exH, 0⟩ 0 exOps with
    | .err .testFailed => true | _ => false) = true := by decide
example : (match Legacy.applyOps true 0 exN 0 exOps with
    | .err .testFailed => true | _ => false) = true := by decide
example : (match Lg.applyOps true 0 ⟨exH, 0⟩ 0 [exMove, exCopy, exAdd] with
    | .ok s' => (Lg.marshal s'.h (s'.h.length + 1) (some s'.root)).isSome | _ => false) = true := by decide
example (s' : St) (hok : Lg.applyOps true 0 ⟨exH, 0⟩ 0 [exMove, exCopy, exAdd] = .ok s') :
    ∃ n' fp', LRepr s'.h n' (some s'.root) fp' ∧ fp'.Nodup ∧ (∀ x ∈ fp', x < s'.h.length) :=
  tree_preserved_legacy _ _ _ ⟨exH, 0⟩ s' exN _ 0 ex_repr hok
example : applyHeapL true 0 [] (ascii "{\"a\":[1]}") [exMove] =
    Legacy.applyBytes true 0 [] (ascii "{\"a\":[1]}") [exMove] := applyHeapL_eq _ _ _ _ _

end JP.C04heapLegacy
