import JP.Lemmas.StreamMore
import JP.Lemmas.StreamSticky
import JP.Lemmas.StreamEnc
import JP.Lemmas.StreamTotal

/-!
# C17 (streams): `Decoder` (Token / More / Decode) and `Encoder.Encode` of stream.go

`JP/Codec/Stream.lean` transcribes `v5/internal/json/stream.go`.  The theorems below hold for ALL inputs
of the stated shape; the reference notions are `parseCst` (RFC 8259, with the codec's nesting limit)
and the decoder model of `JP/Codec/Decode.lean` (`unmarshalValidWithKeys`, proved in C17decode to
compute `sem`).  White space is unrestricted everywhere (`parseCst t = some c` for an arbitrary text).

* `token_stream_wellformed` — repeated `Token` on a well-formed text returns `flatten c`, then `io.EOF`.
* `decode_stream_values`    — `Decode` on `t₁ ␠ … ␠ tₙ` returns what `UnmarshalValid` returns on each
                               `tᵢ` alone, then `io.EOF`.  `decode_stream_spec`: one call, any target type.
* `decode_error_not_sticky`, `syntax_error_sticky` (+ `unexpected_eof_sticky`).
  `syntaxStickyEveryCallGoal` ("EVERY later call returns it") is FALSE in the real code and in the
  standard library: `Token` and `More` never look at `dec.err`; `syntax_sticky_every_call_false`.
* `read_value_wellformed`, `decode_stream_cases`, `stream_never_panics` — for ARBITRARY inputs: what
  `readValue` accepts is a well-formed JSON text (so `Decode` may skip `checkValid`), `Decode` returns a
  stream-level error or `unmarshal`'s result on such a text, and no program makes the model panic.
* `more_iff` — at the four kinds of positions inside a container.
* `encode_stream` — `marshal ++ "\n"`, `Indent` of that when a prefix or indent is set; parse-back.
-/

namespace JP
namespace C17

open Codec Codec.Stream

/-! ## Token -/

/-- **the token stream of a well-formed text**: for every text `t` (any white space) that the reference
parser maps to the tree `c` — in particular within the nesting limit — calling `Token`
`(flatten c).length + 1` times returns exactly the tokens of `c` (delimiters; member names and strings
decoded; numbers as `Number`, `true`/`false`/`null`) with no error, and then `io.EOF` -/
theorem token_stream_wellformed (t : Bytes) (c : Cst) (h : parseCst t = some c) :
    (tokenRun ((flatten c).length + 1) (Dec.new t)).2 = (flatten c).map TokRes.ok ++ [TokRes.err .eof] :=
  token_stream t c h

/-- the same for a value anywhere in a stream: from any state in which a value is allowed, in front of a
delimiter (white space, `,`, `]`, `}` or the end), the tokens of the value are returned and the state is
the one after the value -/
theorem token_stream_value (f d : Nat) (bs : Bytes) (c : Cst) (rest : Bytes)
    (hp : parseValue f d bs = some (c, rest)) (hnw : Scanner.NoWs bs) (hdl : DelimW rest) (D : Dec)
    (herr : D.err = none) (hst : valueAllowed D.tokenState = true) (hsk : skipWs D.rest = bs) :
    tokenRun (flatten c).length D =
      (D.at rest (valueEnd D.tokenState) D.tokenStack, (flatten c).map TokRes.ok) :=
  toks_value f d bs c rest hp hnw hdl D herr hst hsk

-- ` { "a" : [1, "x\n"] ,"b":null}\n`
example : parseCst [32, 123, 32, 34, 97, 34, 32, 58, 32, 91, 49, 44, 32, 34, 120, 92, 110, 34, 93, 32, 44, 34, 98, 34, 58,
      110, 117, 108, 108, 125, 10] =
    some (.obj [([97], .arr [.lit [49], .str [120, 92, 110]]), ([98], .lit [110, 117, 108, 108])]) := by rfl
example : flatten (.obj [([97], .arr [.lit [49], .str [120, 92, 110]]), ([98], .lit [110, 117, 108, 108])]) =
    [.delim 123, .val (.str [97]), .delim 91, .val (.num [49]), .val (.str [120, 10]), .delim 93,
     .val (.str [98]), .val .null, .delim 125] := by rfl

/-! ## Decode -/

/-- **one `Decode` in front of a well-formed value**, any target type of the decoder model's universe: the
call reads exactly the white space and the value, returns what `unmarshal` returns on those bytes — the value
`sem c t` (raw texts through their parse trees), an `UnmarshalTypeError` iff `bad c t` — leaves the
continuation, and moves the token state by `tokenValueEnd` -/
theorem decode_stream_spec (t : Target) (D : Dec) (ws vt r : Bytes) (c : Cst) (nv : NextValue D.rest ws vt r c)
    (herr : D.err = none) (hst : valueAllowed D.tokenState = true) :
    ∃ DS v, unmarshal t (ws ++ vt) D.lastKeys = .ok (DS, v) ∧ view v = sem c t ∧
      (bad c t = false → DS.savedError = none) ∧ (bad c t = true → DS.savedError.isSome = true) ∧
      decode t D = ({ D with rest := r, tokenState := valueEnd D.tokenState, lastKeys := keysAfter c t D.lastKeys },
        resOf DS.savedError v) := by
  obtain ⟨DS, v, hu, hview, hse, hlk, hdec⟩ := decode_next t D ws vt r c nv herr hst
  refine ⟨DS, v, hu, hview, hse.1, fun h => (hse.2 h).1, ?_⟩
  rw [hdec, hlk]

/-- **`Decode` on a stream of values**: for texts `t₁ … tₙ` that each parse (white space allowed around
each), `n` calls of `Decode(&x)` (`x any`, `UseNumber`) on `t₁ ++ " " ++ … ++ " " ++ tₙ` return exactly
the values `UnmarshalValid(tᵢ, &x)` returns for each text alone, and the next call returns `io.EOF` -/
theorem decode_stream_values (ts : List Bytes) (hall : ∀ t ∈ ts, (parseCst t).isSome = true) :
    (decodeRun .any (ts.length + 1) (Dec.new (joinSp ts))).2 = ts.map anyResult ++ [.err .eof] :=
  decode_values ts hall

/-- `anyResult t` IS a value on a well-formed text: the one whose normal form is `Impl.anyOf` of the value
the text denotes (`C17.decode_any`) -/
theorem anyResult_ok (t : Bytes) (c : Cst) (h : parseCst t = some c) :
    ∃ v, anyResult t = .ok v ∧ view v = sem c .any := by
  obtain ⟨v, hu, hv⟩ := decode_ok .any t c [] h (bad_any c)
  exact ⟨v, by simp only [anyResult, hu], hv⟩

-- `[1, {"a":"b"}]`, ` "x"\n`, `12`
example : ∀ t ∈ ([[91, 49, 44, 32, 123, 34, 97, 34, 58, 34, 98, 34, 125, 93], [32, 34, 120, 34, 10], [49, 50]] : List Bytes),
    (parseCst t).isSome = true := by decide
example : joinSp [[91, 49, 93], [32, 34, 120, 34, 10], [49, 50]] = [91, 49, 93, 32, 32, 34, 120, 34, 10, 32, 49, 50] := by rfl
example : (decodeRun .any 4 (Dec.new [91, 49, 93, 32, 32, 34, 120, 34, 10, 32, 49, 50])).2 =
    [.ok (.list [.num [49]]), .ok (.str [120]), .ok (.num [49, 50]), .err .eof] := by rfl

/-! ## Errors -/

/-- **an `UnmarshalTypeError` is not sticky**: `Decode` into a variable of the wrong type, in front of a
well-formed value, returns the error, has consumed the value (`rest = r`), leaves `dec.err` nil and the token
state advanced — so by `decode_stream_spec` / `decode_stream_values` the next call decodes the next value -/
theorem decode_error_not_sticky (t : Target) (D : Dec) (ws vt r : Bytes) (c : Cst) (nv : NextValue D.rest ws vt r c)
    (herr : D.err = none) (hst : valueAllowed D.tokenState = true) (hbad : bad c t = true) :
    ∃ e v D', decode t D = (D', .unmarshalErr e v) ∧ view v = sem c t ∧ D'.err = none ∧ D'.rest = r ∧
      D'.tokenState = valueEnd D.tokenState ∧ D'.tokenStack = D.tokenStack :=
  type_error_not_sticky t D ws vt r c nv herr hst hbad

-- `12 "x"`: Decode into a string fails on the number, the next Decode returns the string
example : (decodeRun .str 2 (Dec.new [49, 50, 32, 34, 120, 34])).2 =
    [.unmarshalErr (.typeError .number 2) (.str []), .ok (.str [120])] := by rfl

/-- **a syntax error is sticky**: once `Decode` has returned the scanner's error, every later call of
`Decode` (any target) returns it, whatever calls of `Token`, `More` and `Decode` happen in between -/
theorem syntax_error_sticky (t : Target) (D D' : Dec) (h : decode t D = (D', .err .syntax)) (prog : List Step)
    (t' : Target) : decode t' (runAll D' prog) = (runAll D' prog, .err .syntax) :=
  syntax_sticky t D D' h prog t'

/-- the same for `io.ErrUnexpectedEOF` (the input ended inside a value) -/
theorem unexpected_eof_sticky (t : Target) (D D' : Dec) (h : decode t D = (D', .err .unexpectedEOF))
    (prog : List Step) (t' : Target) :
    decode t' (runAll D' prog) = (runAll D' prog, .err .unexpectedEOF) :=
  decode_sticky t' _ .unexpectedEOF
    (runAll_err .unexpectedEOF prog D' (decode_err_saved t D D' .unexpectedEOF (.inr rfl) h))

/-- no call ever clears `dec.err` -/
theorem sticky_never_cleared (D : Dec) (e : SErr) (h : D.err = some e) (prog : List Step) :
    (runAll D prog).err = some e :=
  runAll_err e prog D h

-- `[1,x]`: the scanner rejects `x`
example : decode .any (Dec.new [91, 49, 44, 120, 93]) =
    ({ rest := [91, 49, 44, 120, 93], err := some .syntax }, .err .syntax) := by rfl

/-- The naive reading "the syntax error is returned by EVERY later call" -/
def syntaxStickyEveryCallGoal : Prop :=
  ∀ (t : Target) (D D' : Dec), decode t D = (D', .err .syntax) → (token D').2 = .err .syntax

/-- … is false, in the model as in the real code AND in the standard library (`Token` and `More` never
look at `dec.err`; only the calls of `Decode` inside `Token` do): after `Decode` failed on `[1,x]`, `Token`
returns the delimiter `[` (real fork and encoding/json: `D!syntax;T:[;D!syntax;T!syntax`, stream
`streamprog`) -/
theorem syntax_sticky_every_call_false : ¬ syntaxStickyEveryCallGoal := by
  intro h
  have h0 : decode .any (Dec.new [91, 49, 44, 120, 93]) =
      ({ rest := [91, 49, 44, 120, 93], err := some .syntax }, .err .syntax) := by rfl
  have h1 := h .any (Dec.new [91, 49, 44, 120, 93]) _ h0
  have h2 : (token ({ rest := [91, 49, 44, 120, 93], err := some .syntax } : Dec)).2 = .ok (.delim 91) := by rfl
  rw [h2] at h1
  cases h1


/-! ## Arbitrary inputs -/

/-- **`readValue` validates what it returns**: for ANY input, when `readValue` returns `n` the decoder state is
unchanged and the `n` bytes `dec.buf[dec.scanp : dec.scanp+n]` that `Decode` hands to `unmarshal` — without
`checkValid` — are a well-formed JSON text -/
theorem read_value_wellformed (D D' : Dec) (n : Nat) (h : readValue D = (D', .ok n)) :
    D' = D ∧ n ≤ D.rest.length ∧ ∃ c, parseCst (D.rest.take n) = some c :=
  readValue_ok_parses D D' n h

/-- **`Decode` on any input**: either an error of the stream layer; or `dec.err` was nil, a well-formed text
with tree `c` was read, and the call returns exactly what `unmarshal` returns on it — the value `sem c t`,
an `UnmarshalTypeError` iff `bad c t` (C17decode) — with the text consumed and `tokenValueEnd` applied -/
theorem decode_stream_cases (t : Target) (D : Dec) :
    (∃ e, (decode t D).2 = .err e) ∨
    (∃ (n : Nat) (c : Cst) (DS : DState) (v : DVal),
      D.err = none ∧
      parseCst ((tokenPrepareForDecode D).1.rest.take n) = some c ∧
      unmarshal t ((tokenPrepareForDecode D).1.rest.take n) (tokenPrepareForDecode D).1.lastKeys = .ok (DS, v) ∧
      view v = sem c t ∧ SeOK none (bad c t) DS.savedError ∧
      decode t D = (tokenValueEnd { (tokenPrepareForDecode D).1 with
          rest := (tokenPrepareForDecode D).1.rest.drop n, lastKeys := DS.lastKeys }, resOf DS.savedError v)) :=
  decode_cases t D

/-- **no program makes the stream model panic** (index out of range on the token stack, a panic inside
`unmarshal`) or exhaust a recursion bound of the model: after any calls of `Token` / `More` / `Decode` on a fresh
`Decoder` over any input, `Token` and `Decode` return a result or an error -/
theorem stream_never_panics (input : Bytes) (prog : List Step) (t : Target) :
    TokGood (token (runAll (Dec.new input) prog)).2 ∧
    (decode t (runAll (Dec.new input) prog)).2 ≠ .panic ∧ (decode t (runAll (Dec.new input) prog)).2 ≠ .fuel :=
  program_total input prog t

-- `[1,2]x`: the array is read (5 bytes), `x` stays
example : readValue (Dec.new [91, 49, 44, 50, 93, 120]) = (Dec.new [91, 49, 44, 50, 93, 120], .ok 5) := by rfl
example : parseCst ([91, 49, 44, 50, 93, 120].take 5) = some (.arr [.lit [49], .lit [50]]) := by rfl

/-! ## More -/

/-- **`More` inside an array or object of a well-formed text is true iff another element / member follows.**
Positions are given by the reference parser: right after `[` (`arrayTail`), after an element (`elemsAfter`),
right after `{` (`objectTail`), after a member (`membersAfter`); `xs` / `ms` are the elements / members
still to come -/
theorem more_iff (f d : Nat) (D : Dec) :
    (∀ xs rest, arrayTail f d D.rest = some (xs, rest) → ((more D).2 = true ↔ xs ≠ [])) ∧
    (∀ xs rest, elemsAfter f d D.rest = some (xs, rest) → ((more D).2 = true ↔ xs ≠ [])) ∧
    (∀ ms rest, objectTail f d D.rest = some (ms, rest) → ((more D).2 = true ↔ ms ≠ [])) ∧
    (∀ ms rest, membersAfter f d D.rest = some (ms, rest) → ((more D).2 = true ↔ ms ≠ [])) :=
  ⟨fun xs rest h => more_array_start f d D xs rest h, fun xs rest h => more_array_next f d D xs rest h,
   fun ms rest h => more_object_start f d D ms rest h, fun ms rest h => more_object_next f d D ms rest h⟩

-- after the `1` of `[1 , 2]`: one more element; after the `2`: none
example : elemsAfter 10 1 [32, 44, 32, 50, 93] = some ([.lit [50]], []) := by rfl
example : elemsAfter 10 1 [93] = some ([], []) := by rfl
example : (more { rest := [32, 44, 32, 50, 93], tokenState := .arrayComma, tokenStack := [.topValue] }).2 = true := by rfl

/-! ## Encode -/

/-- **`Encoder.Encode`**: when `Marshal` (with the encoder's `escapeHTML`) gives `out`,
* without prefix and indent the call writes `out ++ "\n"`, which parses to whatever tree `out` parses to;
* with a prefix or an indent it writes `Indent(out ++ "\n", prefix, indent)` (`indentP`; an error of `Indent`
  would be returned);
* for the empty prefix `indentP` is the model `Scanner.indent` about which `C17.indent_layout` /
  `C17.indent_preserves` speak -/
theorem encode_stream (enc : Enc) (v : Enc.GoVal) (out : Bytes) (h : Enc.marshalEscaped enc.escapeHTML v = .ok out) :
    (enc.indentPrefix = [] → enc.indentValue = [] →
      encode enc v = .ok (out ++ [10]) ∧ ∀ c, parseCst out = some c → parseCst (out ++ [10]) = some c) ∧
    (enc.indentPrefix ≠ [] ∨ enc.indentValue ≠ [] →
      encode enc v = indentRes (indentP enc.indentPrefix enc.indentValue (out ++ [10]))) ∧
    (∀ ind src, indentP [] ind src = Scanner.indent ind src) :=
  ⟨fun hp hi => ⟨encode_plain enc v out hp hi h, fun c hc => parseCst_snoc_ws out c 10 (by decide) hc⟩,
   fun hpi => encode_indent enc v out hpi h, indentP_nil⟩

/-- with an indent of white space and no prefix the output is the indented print of the tree, then white
space, and parses to the same tree -/
theorem encode_stream_indent_parses (enc : Enc) (v : Enc.GoVal) (out : Bytes) (c : Cst) (hp : enc.indentPrefix = [])
    (hi : enc.indentValue ≠ []) (hws : ∀ b ∈ enc.indentValue, isWs b = true)
    (h : Enc.marshalEscaped enc.escapeHTML v = .ok out) (hc : parseCst out = some c) :
    ∃ ws : Bytes, (∀ b ∈ ws, isWs b = true) ∧
      encode enc v = .ok (Cst.printIndented enc.indentValue 0 c ++ ws) ∧
      parseCst (Cst.printIndented enc.indentValue 0 c ++ ws) = some c :=
  encode_indent_parses enc v out c hp hi hws h hc

/-- dynamic values (what `Decode(&x)` with `x any` yields): the exact bytes, both ways -/
theorem encode_stream_any (enc : Enc) (v : Value) (hp : enc.indentPrefix = []) (hn : NumsValid v = true)
    (hd : (Impl.marshalAnyE enc.escapeHTML (Enc.sortV v)).depth ≤ maxDepth) :
    (enc.indentValue = [] →
      encode enc (Enc.anyToGo v) = .ok (Cst.print (Impl.marshalAnyE enc.escapeHTML (Enc.sortV v)) ++ [10]) ∧
      parseCst (Cst.print (Impl.marshalAnyE enc.escapeHTML (Enc.sortV v)) ++ [10]) =
        some (Impl.marshalAnyE enc.escapeHTML (Enc.sortV v))) ∧
    (enc.indentValue ≠ [] →
      encode enc (Enc.anyToGo v) =
        .ok (Cst.printIndented enc.indentValue 0 (Impl.marshalAnyE enc.escapeHTML (Enc.sortV v)) ++ [10])) :=
  ⟨fun hi => encode_any enc v hp hi hn hd, fun hi => encode_any_indent enc v hp hi hn hd⟩

/-- a marshalling error is returned and nothing is written -/
theorem encode_stream_error (enc : Enc) (v : Enc.GoVal) (e : Impl.Err) (h : Enc.marshalEscaped enc.escapeHTML v = .err e) :
    encode enc v = .err e :=
  encode_error enc v e h

-- `{"b":[1,"<"],"a":null}` as a `map[string]any`: name order, HTML escaping, newline; with indent one space
example : encode {} (Enc.anyToGo (.obj [([98], .arr [.num [49], .str [60]]), ([97], .null)])) =
    .ok (ascii "{\"a\":null,\"b\":[1,\"\\u003c\"]}\n") := by rfl
example : encode { indentValue := [32] } (Enc.anyToGo (.obj [([98], .arr [.num [49]]), ([97], .null)])) =
    .ok (ascii "{\n \"a\": null,\n \"b\": [\n  1\n ]\n}\n") := by rfl
example : encode { indentPrefix := [62], indentValue := [9] } (Enc.anyToGo (.arr [.bool true])) =
    .ok (ascii "[\n>\ttrue\n>]\n") := by rfl

end C17
end JP

/-
#print axioms JP.C17.token_stream_wellformed
#print axioms JP.C17.decode_stream_values
#print axioms JP.C17.syntax_error_sticky
-- each: [propext, Classical.choice, Quot.sound]
-/
