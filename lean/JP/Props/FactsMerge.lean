import JP.Generated.Facts
import JP.Impl.Merge

/-!
# Regenerated facts = what the hand-written model assumes (v5/merge.go)

`JP/Generated/Facts.lean` is rewritten from the Go sources on every run.  Each theorem
below equates one extracted fact with the corresponding assumption of the model; all are
closed computations checked by the kernel (`rfl` / `decide`).  The facts are split by
source file so that an edit to one file only touches the obligations of the properties
anchored there.
-/

namespace JP
namespace Facts

/-- the same for v5/merge.go -/
theorem mergeConditions_eq : Generated.mergeConditions =
    [
     ("merge.CreateMergePatch", ["if !json.Valid(originalJSON) || !json.Valid(modifiedJSON)", "if originalResemblesArray && modifiedResemblesArray", "if !originalResemblesArray && !modifiedResemblesArray"]),
     ("merge.createArrayMergePatch", ["if err != nil", "if err != nil", "if len(modifiedDocs) != total", "for i := 0; i < len(originalDocs); i++", "if err != nil"]),
     ("merge.createObjectMergePatch", ["if err != nil", "if err != nil", "if originalDoc == nil || modifiedDoc == nil", "if err != nil"]),
     ("merge.doMergePatch", ["if !json.Valid(docData)", "if !json.Valid(patchData)", "if isSyntaxError(docErr)", "if isSyntaxError(patchErr)", "if docErr == nil && doc.obj == nil", "if patchErr == nil && patch.obj == nil", "if docErr != nil || patchErr != nil", "if patchErr == nil", "if mergeMerge", "else", "else", "if patchErr != nil", "if json.Valid(patchData)", "if patchErr != nil", "else"]),
     ("merge.getDiff", ["for key, bv := range b", "if !ok", "if reflect.TypeOf(av) != reflect.TypeOf(bv)", "switch at := av.(type)", "case map[string]interface{}", "if err != nil", "if len(dst) > 0", "case string, float64, bool, json.Number", "if !matchesValue(av, bv)", "case []interface{}", "if !matchesArray(at, bt)", "case nil", "switch bv.(type)", "case nil", "default", "default", "for key := range a", "if !found"]),
     ("merge.matchesArray", ["if len(a) != len(b)", "if (a == nil && b != nil) || (a != nil && b == nil)", "for i := range a", "if !matchesValue(a[i], b[i])"]),
     ("merge.matchesValue", ["if reflect.TypeOf(av) != reflect.TypeOf(bv)", "switch at := av.(type)", "case string", "if bt == at", "case json.Number", "if bt == at", "case float64", "if bt == at", "case bool", "if bt == at", "case nil", "case map[string]interface{}", "if len(bt) != len(at)", "for key := range bt", "if aOK != bOK", "if !matchesValue(av, bv)", "case []interface{}"]),
     ("merge.merge", ["if err != nil", "if err != nil"]),
     ("merge.mergeDocs", ["for k, v := range patch.obj", "if v == nil", "if mergeMerge", "for i, key := range doc.keys", "if key == k", "if idx == -1", "else", "else", "if !ok || cur == nil", "if !mergeMerge", "else"]),
     ("merge.pruneDocNulls", ["for k, v := range doc.obj", "if v == nil", "else"]),
     ("merge.pruneNulls", ["if err == nil"]),
     ("merge.resemblesJSONArray", [])] := rfl

end Facts
end JP
