import JP.Lemmas.MergeImplCompose

/-!
# C07 (implementation side) — `MergeMergePatches` computes `Spec.compose`

`mergeNC true` / `doMergePatch true` against `Spec.compose`, for duplicate-free member names and
`Spec.compatible` patches, with exact (ordered) equality.

Compatibility is necessary: for `p1 = {"a":1}`, `p2 = {"a":{"b":null}}` the Go code (and the
model) yields `{"a":{}}` — `merge` prunes the nulls of an object that replaces a non-object even
when `mergeMerge` is set — whereas `Spec.compose p1 p2 = {"a":{"b":null}}` (example below).
-/

namespace JP
namespace C07
open Value Impl

theorem mergeNC_compose (cur : Node) (p : Cst) (hc : WF cur = true) (hp : p.valueOf.noDup = true)
    (hcomp : Spec.compatible (den cur) p.valueOf = true) :
    WF (mergeNC true cur p) = true ∧
    den (mergeNC true cur p) = Spec.compose (den cur) p.valueOf :=
  Impl.mergeNC_compose p cur hc hp hcomp

theorem mergeNC_compose_eqv (cur : Node) (p : Cst) (hc : WF cur = true) (hp : p.valueOf.noDup = true)
    (hcomp : Spec.compatible (den cur) p.valueOf = true) :
    Value.eqv (den (mergeNC true cur p)) (Spec.compose (den cur) p.valueOf) = true := by
  have ⟨h1, h2⟩ := Impl.mergeNC_compose p cur hc hp hcomp
  rw [← h2]
  exact eqv_refl_E _ (noDup_den _ h1)

theorem mergeDocsC_compose (keys : List Bytes) (ob : NMembers) (pms : List (Bytes × Cst))
    (hw : WF (.doc keys ob) = true) (hp : (Cst.obj pms).valueOf.noDup = true)
    (hcomp : Spec.compatibleMs (denM ob) (Cst.valueOfM pms) = true) :
    WF (.doc (mergeDocsC true keys ob pms).1 (mergeDocsC true keys ob pms).2) = true ∧
    den (.doc (mergeDocsC true keys ob pms).1 (mergeDocsC true keys ob pms).2) =
      .obj (Spec.composeMs (denM ob) (Cst.valueOfM pms)) := by
  simp only [Cst.valueOf, noDup, Bool.and_eq_true] at hp
  have ⟨r1, r2⟩ := Impl.mergeDocsC_compose pms keys ob hw hp.1 hp.2 hcomp
  have ⟨a1, a2, _⟩ := (WF_doc_iff _ _).mp r1
  exact ⟨r1, by rw [den_doc_wf _ _ a1 a2, r2]⟩

/-- whole function on syntax trees (`MergeMergePatches`): compatibility is only needed when both
patches are objects -/
theorem doMergePatch_true_refines (docData patchData : Bytes) (dc pc : Cst)
    (hvd : Scanner.valid docData = true) (hvp : Scanner.valid patchData = true)
    (hd : parseCst docData = some dc) (hp : parseCst patchData = some pc)
    (hnn : dc.isNullLit = false)
    (hdd : dc.valueOf.noDup = true) (hdp : pc.valueOf.noDup = true)
    (hcomp : dc.isObj = true → Spec.compatible dc.valueOf pc.valueOf = true) :
    ∃ out, doMergePatch true docData patchData = .ok out ∧
      ((out = patchData ∧ pc.valueOf = Spec.compose dc.valueOf pc.valueOf) ∨
       (∃ r, out = Cst.print (cstOf true r) ∧ WF r = true ∧
          den r = Spec.compose dc.valueOf pc.valueOf)) := by
  rw [doMergePatch_true_eq docData patchData dc pc hvd hvp hd hp hnn]
  refine ⟨_, rfl, ?_⟩
  cases hpn : pc.isNullLit with
  | true =>
    left
    rw [(isNullLit_iff pc).mp hpn]
    exact ⟨by simp, by simp [Cst.valueOf, Cst.litValue, Spec.compose]⟩
  | false =>
    have := composeTree_den dc pc hdd hdp hcomp
    cases hm : composeTree dc pc with
    | none => rw [hm] at this; left; exact ⟨by simp, this⟩
    | some r => rw [hm] at this; right; exact ⟨r, by simp, this.1, this.2⟩

/-! ### satisfiable, and the incompatible counterexample -/

/-- `{"a":{"b":1,"c":null},"e":2}` then `{"a":{"b":null,"x":{"y":null}},"e":null,"f":{"g":null}}` -/
def exP1 : Cst := .obj [(ascii "a", .obj [(ascii "b", .lit (ascii "1")), (ascii "c", .lit (ascii "null"))]),
  (ascii "e", .lit (ascii "2"))]
def exP2 : Cst := .obj [(ascii "a", .obj [(ascii "b", .lit (ascii "null")),
    (ascii "x", .obj [(ascii "y", .lit (ascii "null"))])]),
  (ascii "e", .lit (ascii "null")), (ascii "f", .obj [(ascii "g", .lit (ascii "null"))])]

example : WF (.raw exP1) = true ∧ exP2.valueOf.noDup = true ∧
    Spec.compatible (den (.raw exP1)) exP2.valueOf = true := by decide
example : den (mergeNC true (.raw exP1) exP2) =
    .obj [(ascii "a", .obj [(ascii "b", .null), (ascii "c", .null), (ascii "x", .obj [(ascii "y", .null)])]),
          (ascii "e", .null), (ascii "f", .obj [(ascii "g", .null)])] := rfl
example : WF (decodeDoc [(ascii "a", .lit (ascii "1"))]) = true ∧
    (Cst.obj [(ascii "a", .lit (ascii "null"))]).valueOf.noDup = true ∧
    Spec.compatibleMs (denM (decodeMembers [(ascii "a", .lit (ascii "1"))] []))
      (Cst.valueOfM [(ascii "a", .lit (ascii "null"))]) = true := by decide
example : Scanner.valid (Cst.print exP1) = true ∧ Scanner.valid (Cst.print exP2) = true ∧
    parseCst (Cst.print exP1) = some exP1 ∧ parseCst (Cst.print exP2) = some exP2 ∧
    exP1.isNullLit = false ∧ exP1.valueOf.noDup = true ∧
    (exP1.isObj = true → Spec.compatible exP1.valueOf exP2.valueOf = true) :=
  ⟨by decide, by decide, rfl, rfl, by decide, by decide, by decide⟩

/-- incompatible patches: `{"a":1}` then `{"a":{"b":null}}` -/
def exQ1 : Cst := .obj [(ascii "a", .lit (ascii "1"))]
def exQ2 : Cst := .obj [(ascii "a", .obj [(ascii "b", .lit (ascii "null"))])]
example : Spec.compatible exQ1.valueOf exQ2.valueOf = false ∧
    den (mergeNC true (.raw exQ1) exQ2) = .obj [(ascii "a", .obj [])] ∧
    Spec.compose exQ1.valueOf exQ2.valueOf = .obj [(ascii "a", .obj [(ascii "b", .null)])] :=
  ⟨by decide, rfl, rfl⟩

-- #print axioms mergeNC_compose
-- #print axioms mergeNC_compose_eqv
-- #print axioms mergeDocsC_compose
-- #print axioms doMergePatch_true_refines

end C07
end JP
