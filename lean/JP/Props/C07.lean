import JP.Driver
import JP.Impl.Den

/-! # Property C07 — theorems (see DESIGN.md §6) -/

namespace JP
namespace C07

end C07
end JP
