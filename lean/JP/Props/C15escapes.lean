import JP.Lemmas.EscParse
import JP.Lemmas.EscUnq

/-!
# C15: "EscapeHTML off means applying the patch introduces no such escapes"

`no_new_escapes`: with `EscapeHTML` off, every `\uXXXX` escape of `<`, `>`, `&`, U+2028, U+2029 in
the output of `Patch.ApplyIndentWithOptions` (no indent) already occurs as such an escape in the
document or patch text, or — for U+2028 / U+2029 only — as a raw character there (the encoder, like
the standard library's, always escapes those two when it re-quotes a string).  This is the run-time
predicate `noNewEscapes (doc ++ patch) out` of `JP/Check.lean`, for every option set with
`esc = false`, every document and every decoded patch; no further hypothesis.

Route (all in `JP/Lemmas/Esc*.lean`, `JP/Lemmas/GenInv.lean`):

* engine: a generic hereditary invariant `GN P` (`GenInv.lean`) instantiated with "raw messages are
  well formed and every body in them has allowed escapes and allowed raw line separators; the names
  in the order lists of parsed objects have allowed raw line separators" is preserved by all six
  operations and `ensurePathExists` (`applyOps_G`), and the tree `marshalRoot` prints satisfies it
  (`applyBytes_CA`; with escaping off `compact` leaves raw messages alone, `escape_false`);
* T1 `hE_print`: the escapes of a printed tree are those of its bodies, in order;
* T2 `parseCst_CA`: the escapes / raw line separators of the bodies of a parsed tree occur in the
  text (the parser splits its input into complete segments);
* T3 `quoteBody_false_escapes`: with escaping off the encoder's only HTML-class escapes are
  ` ` / ` ` for raw occurrences, and no raw one is left;
* T4 `unquote_lineSeps`: a raw U+2028/9 in a decoded string was raw or such an escape in the body;
* T5 `rawLineSeps_token`: reference tokens are pieces of the pointer.
-/

namespace JP.C15
open JP Impl

/-- the predicate, unfolded -/
theorem noNewEscapes_iff (inputs out : Bytes) :
    noNewEscapes inputs out = true ↔ ∀ v ∈ hE out, AT inputs v := by
  simp only [noNewEscapes, List.all_eq_true, List.contains_iff_mem, List.mem_append, hE, AT]

/-- the tree behind the output: every body has its HTML-class escapes and raw line separators
among those of the two input texts -/
theorem no_new_escapes_tree (o : Impl.Opts) (ho : o.esc = false) (doc patch : Bytes) (ops : List Impl.Op)
    (out : Bytes) (hne : doc ≠ []) (hd : Impl.decodePatch patch = .ok ops)
    (h : Impl.applyBytes o [] doc ops = .ok out) :
    ∃ t : Cst, out = Cst.print t ∧ WFC t = true ∧ CA (AT (doc ++ patch)) t := by
  have T := textFacts (AT (doc ++ patch))
  have hcd : ∀ c, parseCst doc = some c → Cpl doc ∧ CA (AT doc) c := fun c hc => parseCst_CA doc c hc
  have hcpl : Cpl doc := by
    -- `applyBytes` succeeded on a non-empty document, which therefore parses
    unfold applyBytes at h
    simp only [hne, if_false] at h
    split at h
    · cases h
    · cases hp : parseCst doc with
      | none => simp [hp] at h
      | some c => exact (hcd c hp).1
  refine applyBytes_CA (A := AT (doc ++ patch)) (T := T) o ho doc ops out hne ?_ ?_ h
  · intro c hc
    exact CA_mono (fun v hv => AT_left hcpl hv) c (hcd c hc).2
  · refine decodePatch_OpG hd ?_
    intro c hc
    exact CA_mono (fun v hv => AT_right hcpl hv) c (parseCst_CA patch c hc).2

/-- **C15, EscapeHTML off: applying the patch introduces no HTML-class escape.** -/
theorem no_new_escapes (o : Impl.Opts) (ho : o.esc = false) (doc patch : Bytes) (ops : List Impl.Op)
    (out : Bytes) (hd : Impl.decodePatch patch = .ok ops)
    (h : Impl.applyBytes o [] doc ops = .ok out) :
    noNewEscapes (doc ++ patch) out = true := by
  rw [noNewEscapes_iff]
  by_cases hne : doc = []
  · subst hne
    simp only [applyBytes, if_true, Outcome.ok.injEq] at h
    subst h
    intro v hv
    simp [hE_nil] at hv
  · obtain ⟨t, rfl, hw, hca⟩ := no_new_escapes_tree o ho doc patch ops out hne hd h
    exact hE_print_CA t hw hca

/-! ### the hypotheses are satisfiable -/

section Examples

/-- a name with a raw U+2028, one with a ` ` escape, a `<` escape in a value, a raw `<` in a name;
the patch parses the object (test), copies it, moves a member, adds below a created parent with a
U+2029 (escaped in the pointer) in the new name -/
def exDocE : Bytes := "{\"x\":{\"a\u2028\":1,\"b\\u2028\":\"\\u003c\",\"c<\":[\"&\"]},\"k\":1}".toUTF8.toList
def exPatchE : Bytes :=
  "[{\"op\":\"test\",\"path\":\"/x/c<\",\"value\":[\"&\"]},{\"op\":\"copy\",\"from\":\"/x\",\"path\":\"/y\"},{\"op\":\"move\",\"from\":\"/x/c<\",\"path\":\"/m\"},{\"op\":\"add\",\"path\":\"/n\\u2029/q\",\"value\":\"\\u003e\"}]".toUTF8.toList

example : (match Impl.decodePatch exPatchE with
    | .ok ops =>
      (match Impl.applyBytes { esc := false, ensure := true } [] exDocE ops with
       | .ok out => noNewEscapes (exDocE ++ exPatchE) out &&
           (htmlEscapes (out.length + 1) out == [0x2028, 0x2028, 0x3c, 0x2028, 0x2028, 0x3c, 0x2029, 0x3e])
       | _ => false)
    | _ => false) = true := by decide +kernel

end Examples

/-
all of the following: [propext, Classical.choice, Quot.sound]
#print axioms JP.C15.no_new_escapes_tree
#print axioms JP.C15.no_new_escapes
-/

end JP.C15
