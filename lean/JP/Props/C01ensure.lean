import JP.Lemmas.CloseEnsure
import JP.Props.C01limit
import JP.Props.C14

/-!
# C01 / C05 / C08 / C12 / C14 at the level of bytes, for EVERY option set

`C01.apply_bytes_refines_lim` and the `…_never_violated_lim` corollaries carry the restriction
`o.ensure = false`.  It is lifted here (any `AccumulatedCopySizeLimit`, any
`EnsurePathExistsOnAdd`): the engine refinement of an `add` with the option
(`Ens.opAdd_ensure_refines`, C14) is combined with

* `Impl.applyOps_W_all`: `ensure` / `ensurePath` keep every raw message well formed (the nodes they
  create are `padNulls` raw nulls and empty containers), so what `marshalRoot` prints parses back;
* `Impl.opAdd_ensure_class`: where the specification of an `add` with the option fails, the cause is
  `badIndex` and the engine's error is none of the two special ones (C08 / C12 classes).

The statements are those of `JP/Props/C01limit.lean` without the hypothesis on the option.
`c14_never_violated`: the checker's C14 verdict (`c01 ∧ c05` on a case with the option set).
-/

namespace JP
namespace C01

open Impl

/-- one operation, any limit: refinement and error class in one statement.  `sz` is the size given
to the specification; for a `copy` whose source and destination resolve it is the size the model
reports; `acc` is the common running total. -/
theorem applyOp_refines_all (o : Impl.Opts) (r : Impl.Root) (hr : InvRoot o.esc r) (op : Impl.Op) (sop : Spec.Op)
    (hs : specOp op = some sop) (hop : OpOK o.esc op) (sz acc : Nat)
    (hsz : op.kind = ascii "copy" → CopyResolves o r op → sz = copySizeOf o r op) :
    match Spec.applyOp (specOpts o) sz acc (den r.con) sop with
    | .ok va => ∃ r', Impl.applyOp o r (acc : Int) op = .ok (r', (va.2 : Int)) ∧ InvRoot o.esc r' ∧
        den r'.con = va.1
    | .fail c => ∃ er, Impl.applyOp o r (acc : Int) op = .err er ∧ ErrC c er
    | .unspec => True := by
  by_cases h5 : op.kind = ascii "copy"
  · -- copy: `opCopy_lim`
    have hsk : sop.kind = .copy ∧ sop.path = op.path ∧ sop.frm = op.frm.getD [] := by
      simp only [specOp, specKind, h5] at hs
      have e1 : ¬ (ascii "copy" = ascii "add") := by decide
      have e2 : ¬ (ascii "copy" = ascii "remove") := by decide
      have e3 : ¬ (ascii "copy" = ascii "replace") := by decide
      have e4 : ¬ (ascii "copy" = ascii "move") := by decide
      simp only [e1, e2, e3, e4, if_false, if_true, Option.some.injEq] at hs
      subst hs
      exact ⟨rfl, rfl, rfl⟩
    cases hf : op.frm with
    | none => exact absurd hf (hop.frm h5)
    | some f =>
      have := opCopy_lim (o := o) (sop := sop) sz acc hr hsk.1 hsk.2.1 hf (by rw [hsk.2.2, hf]; rfl) hop.toks
        (hsz h5)
      rw [applyOp_copy h5]
      exact this
  · -- the other kinds do not look at the limit
    have hk : sop.kind ≠ .copy := by
      intro hc
      simp only [specOp] at hs
      cases hkind : specKind op.kind with
      | none => rw [hkind] at hs; cases hs
      | some k =>
        rw [hkind] at hs
        simp only [Option.some.injEq] at hs
        subst hs
        simp only at hc
        subst hc
        simp only [specKind] at hkind
        repeat' split at hkind
        all_goals first | cases hkind | contradiction
    have hacc := AllowLemmas.applyOp_noncopy (specOpts o) sz acc (den r.con) sop hk
    -- refinement as in `C01.applyOp_refines`, with the limit-free lemmas
    have href : OpRef o.esc (Spec.applyOp (specOpts o) sz acc (den r.con) sop)
        (fstOut (Impl.applyOp o r (acc : Int) op)) := by
      simp only [specOp] at hs
      cases hkind : specKind op.kind with
      | none => rw [hkind] at hs; cases hs
      | some k =>
        rw [hkind] at hs
        simp only [Option.some.injEq] at hs
        subst hs
        simp only [specKind] at hkind
        have hvalInv : ∀ c, op.value = some c → Inv o.esc (.raw c) :=
          fun c hc => (Inv_raw _ _).2 (hop.val c hc)
        by_cases h1 : op.kind = ascii "add"
        · simp only [h1, if_true, Option.some.injEq] at hkind
          subst hkind
          have happ : fstOut (Impl.applyOp o r (acc : Int) op) = opAdd o r op := by
            simp only [Impl.applyOp]; rw [if_pos h1]; exact fstOut_lift _ _
          rw [happ]
          cases hv : op.value with
          | none =>
            exact novalue_refines (Or.inl rfl) (by simp) (fun hp => ⟨_, opAdd_path_none_any o r op hp⟩)
          | some c =>
            cases ho : o.ensure with
            | false => exact opAdd_refines sz acc ho hr rfl rfl hv (by simp) (hvalInv c hv) hop.toks
            | true => exact Ens.opAdd_ensure_refines sz acc ho hr rfl rfl hv (by simp) (hvalInv c hv) hop.toks
        · simp only [h1, if_false] at hkind
          by_cases h2 : op.kind = ascii "remove"
          · simp only [h2, if_true, Option.some.injEq] at hkind
            subst hkind
            have happ : fstOut (Impl.applyOp o r (acc : Int) op) = opRemove o r op := by
              simp only [Impl.applyOp]; rw [if_neg h1, if_pos h2]; exact fstOut_lift _ _
            rw [happ]
            exact opRemove_refines sz acc hr rfl rfl
          · simp only [h2, if_false] at hkind
            by_cases h3 : op.kind = ascii "replace"
            · simp only [h3, if_true, Option.some.injEq] at hkind
              subst hkind
              have happ : fstOut (Impl.applyOp o r (acc : Int) op) = opReplace o r op := by
                simp only [Impl.applyOp]; rw [if_neg h1, if_neg h2, if_pos h3]; exact fstOut_lift _ _
              rw [happ]
              cases hv : op.value with
              | none =>
                exact novalue_refines (Or.inr rfl) (by simp) (fun hp => ⟨_, opReplace_path_none o r op hp⟩)
              | some c => exact opReplace_refines sz acc hr rfl rfl hv (by simp) (hvalInv c hv) hop.toks
            · simp only [h3, if_false] at hkind
              by_cases h4 : op.kind = ascii "move"
              · simp only [h4, if_true, Option.some.injEq] at hkind
                subst hkind
                have happ : fstOut (Impl.applyOp o r (acc : Int) op) = opMove o r op := by
                  simp only [Impl.applyOp]; rw [if_neg h1, if_neg h2, if_neg h3, if_pos h4]; exact fstOut_lift _ _
                rw [happ]
                exact opMove_refines sz acc hr rfl rfl rfl hop.toks
              · simp only [h4, h5, if_false] at hkind
                by_cases h6 : op.kind = ascii "test"
                · simp only [h6, if_true, Option.some.injEq] at hkind
                  subst hkind
                  have happ : fstOut (Impl.applyOp o r (acc : Int) op) = opTest o r op := by
                    simp only [Impl.applyOp]
                    rw [if_neg h1, if_neg h2, if_neg h3, if_neg h4, if_pos h6]; exact fstOut_lift _ _
                  rw [happ]
                  exact opTest_refines eqSpec sz acc hr rfl rfl rfl (fun c hc => (hop.val c hc).1)
                · simp only [h6, if_false] at hkind
                  cases hkind
    cases hres : Spec.applyOp (specOpts o) sz acc (den r.con) sop with
    | unspec => trivial
    | fail c =>
      -- the class: as in `C08.applyOp_class`, whose proof does not use the limit for these kinds
      have hcl : ∃ er, Impl.applyOp o r (acc : Int) op = .err er ∧ ErrC c er := by
        rw [hres] at href
        obtain ⟨er, her⟩ := href
        have herr := fstOut_err her
        refine ⟨er, herr, ?_⟩
        -- recompute the class from the per-operation lemmas
        simp only [specOp] at hs
        cases hkind : specKind op.kind with
        | none => rw [hkind] at hs; cases hs
        | some k =>
          rw [hkind] at hs
          simp only [Option.some.injEq] at hs
          subst hs
          simp only [specKind] at hkind
          have hvalInv : ∀ cv, op.value = some cv → Inv o.esc (.raw cv) :=
            fun cv hc => (Inv_raw _ _).2 (hop.val cv hc)
          rw [applyOp_eq] at herr
          by_cases h1 : op.kind = ascii "add"
          · simp only [h1, if_true, Option.some.injEq] at hkind
            subst hkind
            rw [if_pos h1] at herr
            cases hv : op.value with
            | none =>
              rw [spec_novalue (Or.inl rfl) (by simp [hv])] at hres
              split at hres
              · next hp =>
                cases hres
                rw [Impl.opAdd_path_none_any o r op hp] at herr
                cases herr
                exact Impl.ErrC_missing (Or.inr rfl)
              · cases hres
            | some cv =>
              obtain ⟨er', her', hcl⟩ : OpC c (opAdd o r op) := by
                cases ho : o.ensure with
                | false => exact Impl.opAdd_class sz acc ho hr rfl rfl hv (by simp [hv]) (hvalInv cv hv) hop.toks hres
                | true => exact Impl.opAdd_ensure_class sz acc ho hr rfl rfl hv (by simp [hv]) (hvalInv cv hv) hop.toks hres
              rw [her'] at herr
              cases herr
              exact hcl
          · simp only [h1, if_false] at hkind
            rw [if_neg h1] at herr
            by_cases h2 : op.kind = ascii "remove"
            · simp only [h2, if_true, Option.some.injEq] at hkind
              subst hkind
              rw [if_pos h2] at herr
              obtain ⟨er', her', hcl⟩ := Impl.opRemove_class sz acc hr rfl rfl hres
              rw [her'] at herr
              cases herr
              exact hcl
            · simp only [h2, if_false] at hkind
              rw [if_neg h2] at herr
              by_cases h3 : op.kind = ascii "replace"
              · simp only [h3, if_true, Option.some.injEq] at hkind
                subst hkind
                rw [if_pos h3] at herr
                cases hv : op.value with
                | none =>
                  rw [spec_novalue (Or.inr rfl) (by simp [hv])] at hres
                  split at hres
                  · next hp =>
                    cases hres
                    rw [Impl.opReplace_path_none o r op hp] at herr
                    cases herr
                    exact Impl.ErrC_missing (Or.inr rfl)
                  · cases hres
                | some cv =>
                  obtain ⟨er', her', hcl⟩ := Impl.opReplace_class sz acc hr rfl rfl hv (by simp [hv])
                    (hvalInv cv hv) hop.toks hres
                  rw [her'] at herr
                  cases herr
                  exact hcl
              · simp only [h3, if_false] at hkind
                rw [if_neg h3] at herr
                by_cases h4 : op.kind = ascii "move"
                · simp only [h4, if_true, Option.some.injEq] at hkind
                  subst hkind
                  rw [if_pos h4] at herr
                  obtain ⟨er', her', hcl⟩ := Impl.opMove_class sz acc hr rfl rfl rfl hop.toks hres
                  rw [her'] at herr
                  cases herr
                  exact hcl
                · simp only [h4, h5, if_false] at hkind
                  rw [if_neg h4] at herr
                  by_cases h6 : op.kind = ascii "test"
                  · simp only [h6, if_true, Option.some.injEq] at hkind
                    subst hkind
                    rw [if_pos h6] at herr
                    obtain ⟨er', her', hcl⟩ := Impl.opTest_class eqSpec sz acc hr rfl rfl rfl
                      (fun cv hc => (hop.val cv hc).1) hres
                    rw [her'] at herr
                    cases herr
                    exact hcl
                  · simp only [h6, if_false] at hkind
                    cases hkind
      exact hcl
    | ok va =>
      rw [hres] at href hacc
      obtain ⟨r', hr', hinv, hden⟩ := href
      obtain ⟨a, ha⟩ := fstOut_ok hr'
      -- the running total is unchanged on both sides
      have h2 : va.2 = acc := by
        cases h0 : Spec.applyOp (specOpts o) 0 0 (den r.con) sop with
        | ok p => rw [h0] at hacc; simp only [Spec.Res.bind, Spec.Res.ok.injEq] at hacc; rw [hacc]
        | fail c => rw [h0] at hacc; cases hacc
        | unspec => rw [h0] at hacc; cases hacc
      have ha' : a = (acc : Int) := applyOp_not_copy_acc h5 ha
      refine ⟨r', ?_, hinv, hden⟩
      rw [ha, ha', h2]

/-- **C01 + C08 for any limit**, operation list by operation list -/
theorem applyOps_refines_all (o : Impl.Opts) (sizeAt : Nat → Nat) :
    ∀ (ops : List Impl.Op) (sops : List Spec.Op) (r : Impl.Root) (i acc : Nat) (szs : List Nat),
      InvRoot o.esc r → specOps ops = some sops → (∀ op ∈ ops, OpOK o.esc op) →
      SizesL o szs r (acc : Int) ops → (∀ k, sizeAt (i + k) = szs.getD k 0) →
      match Spec.applyFrom (specOpts o) sizeAt i acc (Impl.den r.con) sops with
      | .ok v => ∃ r', Impl.applyOps o r (acc : Int) ops = .ok r' ∧ Impl.den r'.con = v ∧ InvRoot o.esc r'
      | .fail _ c => ∃ e, Impl.applyOps o r (acc : Int) ops = .err e ∧ ErrC c e
      | .unspec => True := by
  intro ops
  induction ops with
  | nil =>
    intro sops r i acc szs hr hs _ _ _
    simp only [specOps, Option.some.injEq] at hs
    subst hs
    simp only [Spec.applyFrom, Impl.applyOps]
    exact ⟨r, rfl, rfl, hr⟩
  | cons op ops ih =>
    intro sops r i acc szs hr hs hops hsl hsz
    simp only [specOps] at hs
    cases hso : specOp op with
    | none => rw [hso] at hs; cases hs
    | some s =>
      cases hss : specOps ops with
      | none => rw [hso, hss] at hs; cases hs
      | some ss =>
        rw [hso, hss] at hs
        simp only [Option.some.injEq] at hs
        subst hs
        obtain ⟨hhead, htail⟩ := hsl
        have h1 := applyOp_refines_all o r hr op s hso (hops op List.mem_cons_self) (sizeAt i) acc
          (by
            intro hk hres
            have := hsz 0
            simp only [Nat.add_zero] at this
            rw [this]
            have hh := hhead hk hres
            cases szs with
            | nil => simp at hh
            | cons a t => simp only [List.head?_cons, Option.some.injEq] at hh; simp [hh])
        simp only [Spec.applyFrom, Impl.applyOps]
        cases hres : Spec.applyOp (specOpts o) (sizeAt i) acc (den r.con) s with
        | unspec => trivial
        | fail c =>
          rw [hres] at h1
          obtain ⟨er, her, hcl⟩ := h1
          rw [her]
          exact ⟨er, rfl, hcl⟩
        | ok va =>
          obtain ⟨d, acc'⟩ := va
          rw [hres] at h1
          obtain ⟨r', hr', hinv, hden⟩ := h1
          rw [hr']
          simp only at hden ⊢
          have := ih ss r' (i + 1) acc' szs.tail hinv hss (fun op' h => hops op' (List.mem_cons_of_mem _ h))
            (htail r' _ hr') (by
              intro k
              rw [getD_tail, ← hsz (k + 1)]
              congr 1
              omega)
          rw [hden] at this
          exact this

/-! ### at the level of bytes, with the sizes `specApply` uses -/

/-- **C01 + C08 for `Patch.ApplyIndentWithOptions` on bytes, any limit.**  The sizes are the ones
`specApply` takes (`sizesFor`: the model's spelling, run with the limit off). -/
theorem apply_bytes_refines_all (o : Impl.Opts) (doc : Bytes) (c : Cst) (ops : List Impl.Op) (sops : List Spec.Op)
    (hdoc : parseCst doc = some c) (hnd : c.valueOf.noDup = true)
    (hfacts : ∀ op ∈ ops, OpFacts op) (hops : specOps ops = some sops)
    (hvnd : ∀ op ∈ ops, ∀ v, op.value = some v → v.valueOf.noDup = true) :
    match Spec.apply (specOpts o) (fun i => (sizesFor o doc ops).getD i 0) c.valueOf sops with
    | .ok v => ∃ t : Cst, Impl.applyBytes o [] doc ops = .ok (Cst.print t) ∧ t.valueOf = v ∧
        WFC t = true ∧ Cst.escape o.esc t = t ∧ t.depth = v.depth ∧ v.noDup = true
    | .fail _ cause => ∃ e, Impl.applyBytes o [] doc ops = .err e ∧ ErrC cause e
    | .unspec => True := by
  simp only [Spec.apply]
  cases hcont : c.valueOf.isContainer with
  | false => simp
  | true =>
    simp only [if_true]
    obtain ⟨con, hd, hinv, hden, hrw, hok, hopw, heq⟩ :=
      apply_bytes_setup_ops o doc c ops hdoc hnd hcont hfacts hvnd
    have hW := applyOps_W_all o ops _ 0 hrw hopw
    have hsizes : sizesFor o doc ops = copySizes (lim0 o) (rootOf doc c con) 0 ops := by
      simp only [sizesFor, hdoc, hd]
      rfl
    have h := applyOps_refines_all o (fun i => (sizesFor o doc ops).getD i 0) ops sops (rootOf doc c con) 0 0
      (sizesFor o doc ops) hinv hops hok (by rw [hsizes]; exact sizesL_copySizes0 o ops _ _)
      (by intro k; simp)
    simp only [rootOf, hden] at h
    cases hres : Spec.applyFrom (specOpts o) (fun i => (sizesFor o doc ops).getD i 0) 0 0 c.valueOf sops with
    | unspec => trivial
    | fail j cc =>
      rw [hres] at h
      obtain ⟨er, her, hcl⟩ := h
      refine ⟨er, ?_, hcl⟩
      rw [heq []]
      simp only [rootOf]
      have her' : Impl.applyOps o { con := con, self := .raw c, selfCR := c.isArr && !goIsArray doc } 0 ops = .err er := her
      simp only [her']
    | ok v =>
      rw [hres] at h
      obtain ⟨r', h1, h2, h3⟩ := h
      have h1' : Impl.applyOps o { con := con, self := .raw c, selfCR := c.isArr && !goIsArray doc } 0 ops = .ok r' := h1
      simp only [rootOf] at hW
      rw [h1'] at hW
      refine ⟨cstOf o.esc r'.con, ?_, ?_, WFC_cstOf _ _ hW.1, escape_cstOf _ _, ?_, ?_⟩
      · rw [heq []]
        simp only [rootOf, h1', marshalRoot_eq o.esc r' h3.2, if_true]
      · rw [valueOf_cstOf _ _ h3.1.1 h3.1.2, h2]
      · rw [depth_cstOf _ _ h3.1.1 h3.1.2, h2]
      · rw [← h2]; exact den_noDup _ h3.1.1

/-- what the checker's four APPLY predicates need, for every option set with
`EnsurePathExistsOnAdd` off (any copy-size limit) -/
theorem checker_cases_all (o : Impl.Opts) (doc patch : Bytes) (ops : List Impl.Op) (hpatch : Impl.decodePatch patch = .ok ops)
    (hdepth : ∀ v, specApply o doc patch = .ok v → v.depth ≤ maxDepth) :
    match specApply o doc patch with
    | .ok v => ∃ out, Impl.applyBytes o [] doc ops = .ok out ∧ parseValueOf out = some v ∧ v.noDup = true
    | .fail _ cause => ∃ e, Impl.applyBytes o [] doc ops = .err e ∧ ErrC cause e
    | .unspec => True := by
  cases hdoc : parseCst doc with
  | none => simp [specApply, parseValueOf, hdoc]
  | some c =>
    cases hs : specPatch patch with
    | none => simp [specApply, parseValueOf, hdoc, hs]
    | some sops =>
      cases hnd : (c.valueOf.noDup && sops.all fun op => (op.value.map Value.noDup).getD true) with
      | false => simp [specApply, parseValueOf, hdoc, hs, hnd]
      | true =>
        have heq := specApply_eq o doc patch c sops ops hdoc hs hpatch hnd
        rw [heq] at hdepth ⊢
        simp only [Bool.and_eq_true, List.all_eq_true] at hnd
        have hops : specOps ops = some sops := by rw [← specPatch_eq_specOps hpatch]; exact hs
        have hvnd : ∀ op ∈ ops, ∀ v, op.value = some v → v.valueOf.noDup = true := by
          intro op hop v hv
          obtain ⟨sop, hm, hval⟩ := specOps_values ops sops hops op hop
          have := hnd.2 sop hm
          rw [hval, hv] at this
          simpa using this
        have h := apply_bytes_refines_all o doc c ops sops hdoc hnd.1 (decodePatch_facts hpatch) hops hvnd
        cases hres : Spec.apply (specOpts o) (fun i => (sizesFor o doc ops).getD i 0) c.valueOf sops with
        | unspec => trivial
        | fail j cc => rw [hres] at h; exact h
        | ok v =>
          rw [hres] at h hdepth
          obtain ⟨t, h1, h2, h3, _, h5, h6⟩ := h
          refine ⟨_, h1, ?_, h6⟩
          simp only [parseValueOf, parse_print t h3 (by rw [h5]; exact hdepth v rfl), Option.map_some, h2]

/-- **the model never violates C01 as the checker evaluates it** — any copy-size limit -/
theorem c01_never_violated_all (o : Impl.Opts) (doc patch : Bytes) (ops : List Impl.Op) (hpatch : Impl.decodePatch patch = .ok ops)
    (hdepth : ∀ v, specApply o doc patch = .ok v → v.depth ≤ maxDepth) (clause : String) :
    c01 (specApply o doc patch) (obsOf (Impl.applyBytes o [] doc ops)) ≠ .viol clause := by
  have h := checker_cases_all o doc patch ops hpatch hdepth
  cases hres : specApply o doc patch with
  | unspec => simp [c01]
  | fail j cc =>
    rw [hres] at h
    obtain ⟨e, he, _⟩ := h
    simp [c01, he, obsOf]
  | ok v =>
    rw [hres] at h
    obtain ⟨out, h1, h2, h3⟩ := h
    simp [c01, h1, obsOf, h2, Value.eqv_refl_E v h3]

/-- **… never violates C05** -/
theorem c05_never_violated_all (o : Impl.Opts) (doc patch : Bytes) (ops : List Impl.Op) (hpatch : Impl.decodePatch patch = .ok ops)
    (hdepth : ∀ v, specApply o doc patch = .ok v → v.depth ≤ maxDepth) (clause : String) :
    c05 (specApply o doc patch) (obsOf (Impl.applyBytes o [] doc ops)) ≠ .viol clause := by
  have h := checker_cases_all o doc patch ops hpatch hdepth
  cases hres : specApply o doc patch with
  | unspec => simp [c05]
  | fail j cc => simp [c05]
  | ok v =>
    rw [hres] at h
    obtain ⟨out, h1, h2, h3⟩ := h
    simp [c05, h1, obsOf, h2, beq_refl v]

/-- **… never violates C08** (error classes; `nilDoc = true`, no truncated run: those two clauses
are harness-side) -/
theorem c08_never_violated_all (o : Impl.Opts) (doc patch : Bytes) (ops : List Impl.Op) (hpatch : Impl.decodePatch patch = .ok ops)
    (hdepth : ∀ v, specApply o doc patch = .ok v → v.depth ≤ maxDepth) (clause : String) :
    c08 (specApply o doc patch) (obsOf (Impl.applyBytes o [] doc ops)) none true ≠ .viol clause := by
  have h := checker_cases_all o doc patch ops hpatch hdepth
  cases hres : specApply o doc patch with
  | unspec => simp [c08]
  | ok v =>
    rw [hres] at h
    obtain ⟨out, h1, _, _⟩ := h
    simp [c08, h1, obsOf]
  | fail j cause =>
    rw [hres] at h
    obtain ⟨e, he, h1, h2, h3⟩ := h
    have p1 : (errFlag e = 'T') = (cause = .testUnequal) := propext ((C08.errFlag_T e).trans h1)
    have p2 : (errFlag e = 'C') = (cause = .copyLimit) := propext ((C08.errFlag_C e).trans h2)
    simp only [c08, he, obsOf, if_true, p1, p2, Verdict.and]
    by_cases hc : cause = .absentMember ∨ cause = .parentUnreachable
    · have := (C08.errFlag_M e).2 (h3 hc)
      simp [hc, this]
    · simp [hc]

/-- **… never violates C12**: the copy-size error occurs exactly where the specification's running
total (over the model's sizes) exceeds the limit -/
theorem c12_never_violated_all (o : Impl.Opts) (doc patch : Bytes) (ops : List Impl.Op) (hpatch : Impl.decodePatch patch = .ok ops)
    (hdepth : ∀ v, specApply o doc patch = .ok v → v.depth ≤ maxDepth) (clause : String) :
    c12 (specApply o doc patch) (obsOf (Impl.applyBytes o [] doc ops)) ≠ .viol clause := by
  have h := checker_cases_all o doc patch ops hpatch hdepth
  cases hres : specApply o doc patch with
  | unspec => simp [c12]
  | ok v =>
    rw [hres] at h
    obtain ⟨out, h1, _, _⟩ := h
    simp [c12, h1, obsOf]
  | fail j cause =>
    rw [hres] at h
    obtain ⟨e, he, _, h2, _⟩ := h
    by_cases hc : cause = .copyLimit
    · subst hc
      have := h2.2 rfl
      subst this
      simp [c12, he, obsOf, errFlag]
    · have hne : e ≠ .copySize := fun h' => hc (h2.1 h')
      have hflag : errFlag e ≠ 'C' := fun h' => hne ((C08.errFlag_C e).1 h')
      cases cause <;> simp_all [c12, obsOf]

/-- **the model never violates C14 as the checker evaluates it**: on a case with
`EnsurePathExistsOnAdd` set the verdict is `c01 ∧ c05` (the specification `Spec.applyOp` uses
`Spec.ensureAdd` for `add`) -/
theorem c14_never_violated (o : Impl.Opts) (_he : o.ensure = true)
    (doc patch : Bytes) (ops : List Impl.Op) (hpatch : Impl.decodePatch patch = .ok ops)
    (hdepth : ∀ v, specApply o doc patch = .ok v → v.depth ≤ maxDepth) (clause : String) :
    (c01 (specApply o doc patch) (obsOf (Impl.applyBytes o [] doc ops))).and
      (c05 (specApply o doc patch) (obsOf (Impl.applyBytes o [] doc ops))) ≠ .viol clause := by
  have h1 := c01_never_violated_all o doc patch ops hpatch hdepth
  have h5 := c05_never_violated_all o doc patch ops hpatch hdepth
  generalize c01 (specApply o doc patch) (obsOf (Impl.applyBytes o [] doc ops)) = a at h1
  generalize c05 (specApply o doc patch) (obsOf (Impl.applyBytes o [] doc ops)) = b at h5
  cases a with
  | viol c => exact absurd rfl (h1 c)
  | ok => cases b with
    | viol c => exact absurd rfl (h5 c)
    | ok => simp [Verdict.and]
    | unspec => simp [Verdict.and]
  | unspec => cases b with
    | viol c => exact absurd rfl (h5 c)
    | ok => simp [Verdict.and]
    | unspec => simp [Verdict.and]


/-! ### the hypotheses are satisfiable -/

section Examples

/-- `{"k":[1]}` -/
def exDocE : Bytes := ascii "{\"k\":[1]}"
/-- an `add` below two missing parents (array with padding, then object), a copy of the created
array (size 23), and an `add` that fails in the created array -/
def exPatchE : Bytes := ascii
  "[{\"op\":\"add\",\"path\":\"/a/2/b\",\"value\":true},{\"op\":\"copy\",\"path\":\"/c\",\"from\":\"/a\"}]"
def exPatchE2 : Bytes := ascii
  "[{\"op\":\"add\",\"path\":\"/a/2/b\",\"value\":true},{\"op\":\"add\",\"path\":\"/a/x\",\"value\":1}]"

/-- with the option set (and a copy-size limit): the specification succeeds and the model returns
the specification's document; a limit below the size of the created array gives `copyLimit` /
`copySize`; an `add` with a member name in the created array gives `badIndex` / an error -/
example : (match Impl.decodePatch exPatchE, Impl.decodePatch exPatchE2 with
    | .ok ops, .ok ops2 =>
      (match specApply { ensure := true, limit := 100 } exDocE exPatchE,
          Impl.applyBytes { ensure := true, limit := 100 } [] exDocE ops with
       | .ok v, .ok out => (match parseValueOf out with | some v' => Value.beq v v' | none => false) &&
           decide (v.depth ≤ maxDepth) &&
           out == ascii "{\"k\":[1],\"a\":[null,null,{\"b\":true}],\"c\":[null,null,{\"b\":true}]}"
       | _, _ => false) &&
      (match specApply { ensure := true, limit := 10 } exDocE exPatchE,
          Impl.applyBytes { ensure := true, limit := 10 } [] exDocE ops with
       | .fail 1 .copyLimit, .err .copySize => true
       | _, _ => false) &&
      (match specApply { ensure := true } exDocE exPatchE2,
          Impl.applyBytes { ensure := true } [] exDocE ops2 with
       | .fail 1 .badIndex, .err _ => true
       | _, _ => false)
    | _, _ => false) = true := by decide +kernel

end Examples

/-
all of the following: [propext, Classical.choice, Quot.sound]
#print axioms JP.C01.applyOp_refines_all
#print axioms JP.C01.applyOps_refines_all
#print axioms JP.C01.apply_bytes_refines_all
#print axioms JP.C01.c01_never_violated_all
#print axioms JP.C01.c05_never_violated_all
#print axioms JP.C01.c08_never_violated_all
#print axioms JP.C01.c12_never_violated_all
#print axioms JP.C01.c14_never_violated
-/

end C01
end JP
