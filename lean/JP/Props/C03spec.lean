import JP.Lemmas.MergeLawsRoundtrip

/-!
# C03 (specification level): the difference function `Spec.diff` against RFC 7396 `Spec.merge`
-/

namespace JP.C03
open JP Value

variable {A B : Value.Members}

/-- applying the difference to A reproduces B, provided B has no null member reachable
through objects (nulls inside arrays are harmless: arrays are replaced wholesale) -/
theorem roundtrip_strong (hA : (Value.obj A).noDup = true) (hB : (Value.obj B).noDup = true) :
    Spec.hasNullO (.obj B) = false →
    Value.eqv (Spec.merge (.obj A) (.obj (Spec.diff A B))) (.obj B) = true :=
  Spec.roundtrip_obj A B hA hB

/-- applying the difference to A reproduces B (RFC 7396 cannot express null members) -/
theorem roundtrip (hA : (Value.obj A).noDup = true) (hB : (Value.obj B).noDup = true) :
    (Value.obj B).hasNullMember = false →
    Value.eqv (Spec.merge (.obj A) (.obj (Spec.diff A B))) (.obj B) = true :=
  fun h => roundtrip_strong hA hB (Spec.hasNullO_le _ h)

/-- the patch is empty exactly when the documents are equal -/
theorem empty_iff (hA : (Value.obj A).noDup = true) (hB : (Value.obj B).noDup = true) :
    (Spec.diff A B = []) ↔ Value.eqv (.obj A) (.obj B) = true :=
  Spec.diff_nil_iff A B hA hB

/-- removed members appear as null -/
theorem deletions_null (hB : (Value.obj B).noDup = true) :
    ∀ k, (Value.lookup k A).isSome → (Value.lookup k B).isNone →
      Value.lookup k (Spec.diff A B) = some .null := by
  intro k h1 h2
  rw [Spec.lookup_diff k A B ((noDup_obj B).1 hB).1]
  cases ha : lookup k A with
  | none => rw [ha] at h1; cases h1
  | some av =>
    cases hb : lookup k B with
    | none => rfl
    | some bv => rw [hb] at h2; cases h2

/-- added members appear with their new value -/
theorem additions_whole (hB : (Value.obj B).noDup = true) :
    ∀ k v, Value.lookup k A = none → Value.lookup k B = some v →
      Value.lookup k (Spec.diff A B) = some v := by
  intro k v h1 h2
  rw [Spec.lookup_diff k A B ((noDup_obj B).1 hB).1, h1, h2]; rfl

/-- every member the patch mentions differs between A and B (top level) -/
theorem minimal (hA : (Value.obj A).noDup = true) (hB : (Value.obj B).noDup = true) :
    ∀ k v, Value.lookup k (Spec.diff A B) = some v →
      ¬ (∃ a b, Value.lookup k A = some a ∧ Value.lookup k B = some b ∧ Value.eqv a b = true) := by
  rintro k v hl ⟨a, b, ha, hb, he⟩
  have hA' := (noDup_obj A).1 hA
  have hB' := (noDup_obj B).1 hB
  rw [Spec.lookup_diff k A B hB'.1, ha, hb, Spec.diffOptFull_some_some] at hl
  have := (Spec.minimal_member b k a v (noDup_of_lookup hA'.2 ha) (noDup_of_lookup hB'.2 hb) hl).1
  rw [he] at this; cases this

/-- every member the patch mentions, at any depth, differs between A and B at that path;
nested patch objects are non-empty; members absent from B are mentioned as null only;
the patch mentions no name absent from both -/
theorem minimal_rec (hA : (Value.obj A).noDup = true) (hB : (Value.obj B).noDup = true) :
    minimalMs A B (Spec.diff A B) = true :=
  Spec.minimalMs_diff A B hA hB

/-- number literals are carried over from B unchanged (no hypothesis needed) -/
theorem literals_from_target :
    ∀ l, l ∈ (Value.obj (Spec.diff A B)).numLits → l ∈ (Value.obj B).numLits :=
  Spec.numLits_diff A B

/-- the names of the patch are duplicate-free -/
theorem diff_nodupKeys (hA : (Value.obj A).noDup = true) (hB : (Value.obj B).noDup = true) :
    nodupKeys ((Spec.diff A B).map Prod.fst) = true :=
  Spec.nodupKeys_diff A B ((noDup_obj A).1 hA).1 ((noDup_obj B).1 hB).1

/-- the patch is hereditarily duplicate-free -/
theorem diff_noDup (hA : (Value.obj A).noDup = true) (hB : (Value.obj B).noDup = true) :
    (Value.obj (Spec.diff A B)).noDup = true :=
  Spec.noDup_diff A B hA hB

/-! ### the hypotheses are satisfiable by non-trivial cases -/

private def ka : Bytes := ascii "a"
private def kb : Bytes := ascii "b"
private def kc : Bytes := ascii "c"
private def n1 : Value := .num (ascii "1")
private def n2 : Value := .num (ascii "2.0")
/-- `{"a":1,"b":{"a":1,"c":[{"a":null}]},"c":1}` -/
private def exA : Value.Members := [(ka, n1), (kb, .obj [(ka, n1), (kc, .arr [.obj [(ka, .null)]])]), (kc, n1)]
/-- `{"b":{"c":[{"a":null}],"b":2.0},"a":{"a":1}}` (a null inside an array only) -/
private def exB : Value.Members := [(kb, .obj [(kc, .arr [.obj [(ka, .null)]]), (kb, n2)]), (ka, .obj [(ka, n1)])]

private def exD : Value.Members := [(kb, .obj [(kb, n2), (ka, .null)]), (ka, .obj [(ka, n1)]), (kc, .null)]

example : Spec.diff exA exB = exD := rfl
example : (Value.obj exA).noDup = true ∧ (Value.obj exB).noDup = true ∧
    Spec.hasNullO (.obj exB) = false ∧ (Value.obj exB).hasNullMember = true ∧
    Value.eqv (Spec.merge (.obj exA) (.obj (Spec.diff exA exB))) (.obj exB) = true := by decide
example : (Value.obj exA).noDup = true ∧ (Value.obj exA).hasNullMember = true ∧
    (Value.obj [(ka, n1)]).hasNullMember = false ∧
    Value.eqv (Spec.merge (.obj exA) (.obj (Spec.diff exA [(ka, n1)]))) (.obj [(ka, n1)]) = true := by decide
example : (Spec.diff exA exA).isEmpty = true ∧ Value.eqv (.obj exA) (.obj exA) = true ∧
    (Spec.diff exA exB).isEmpty = false ∧ Value.eqv (.obj exA) (.obj exB) = false := by decide
example : (Value.lookup kc exA).isSome ∧ (Value.lookup kc exB).isNone := by decide
example : Value.lookup kc (Spec.diff exA exB) = some .null := rfl
example : Value.lookup kb (Spec.diff exA exB) = some (.obj [(kb, n2), (ka, .null)]) := rfl
example : Value.lookup kb exA = some (.obj [(ka, n1), (kc, .arr [.obj [(ka, .null)]])]) ∧
    Value.lookup kb exB = some (.obj [(kc, .arr [.obj [(ka, .null)]]), (kb, n2)]) := ⟨rfl, rfl⟩
example : minimalMs exA exB (Spec.diff exA exB) = true := by decide
example : ascii "2.0" ∈ (Value.obj (Spec.diff exA exB)).numLits ∧ ascii "2.0" ∈ (Value.obj exB).numLits := by decide

/-- the round trip fails when B has a null member: RFC 7396 reads it as a deletion -/
example : Value.eqv (Spec.merge (.obj []) (.obj (Spec.diff [] [(ka, .null)]))) (.obj [(ka, .null)]) = false := by decide

/-- the round trip fails when A has a repeated name -/
example : Value.eqv (Spec.merge (.obj [(ka, n1), (ka, n2)]) (.obj (Spec.diff [(ka, n1), (ka, n2)] [(ka, n1)])))
    (.obj [(ka, n1)]) = false := by decide

-- #print axioms roundtrip
-- #print axioms roundtrip_strong
-- #print axioms empty_iff
-- #print axioms deletions_null
-- #print axioms minimal
-- #print axioms minimal_rec
-- #print axioms literals_from_target

end JP.C03
