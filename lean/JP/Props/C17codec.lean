import JP.Lemmas.TransduceTop
import JP.Lemmas.TextTree

/-!
# C17 / C15 — `Compact`, `Indent` and `HTMLEscape` change only insignificant white space or the spelling of escapes

Boundary theorems B2 (`compact` is the printer of the parse tree, with the escaper applied to the
string bodies) and B6 (`Indent` changes white space only), stated on the literal models of the
Go loops (`Scanner.compact`, `Scanner.indent`, `Scanner.htmlEscape`) against the RFC 8259 reference
parser `parseCst`.  Proofs are in `JP/Lemmas/Transduce*.lean`:

* `TransduceInd`   – induction principle along successful runs of the reference parser;
* `TransduceTrace` – the token trace `ftr` of a scan; the loops of `compact(false)` and `Indent` as folds over it;
* `TransduceLit`, `TransduceSim` – the trace of a well-formed text is the token list `toksV` of its parse tree;
* `TransduceWF`    – parse results are well-formed (`WFC`) and within the nesting limit;
* `TransduceEsc`   – `htmlEscape 0 = escBody`; the parser maps the escaped text to the escaped tree;
* `TransduceEscLoop` – `compact(true) = compact(false) ∘ HTMLEscape` on valid texts;
* `TransduceIndent` – `Cst.printIndented`, `Indent` on `toksV`, the parser on indented text.
-/

namespace JP.C17
open JP

/-- B2: `compact` is the printer of the parse tree with escaping applied to the string bodies -/
theorem compact_spec (e : Bool) (bs : Bytes) (c : Cst) :
    parseCst bs = some c → Scanner.compact e bs = some (Cst.print (Cst.escape e c)) := by
  intro h
  cases e with
  | false => rw [escape_false]; exact compact_noescape bs c h
  | true => exact compact_escape bs c h

-- ` {"a<": [1, "x"]} ⏎`
example : parseCst [32, 123, 34, 97, 60, 34, 58, 32, 91, 49, 44, 32, 34, 120, 34, 93, 125, 10] =
    some (.obj [([97, 60], .arr [.lit [49], .str [120]])]) := by rfl

/-- without escaping (`Compact`) -/
theorem compact_spec_noescape (bs : Bytes) (c : Cst) :
    parseCst bs = some c → Scanner.compact false bs = some (Cst.print c) :=
  compact_noescape bs c

/-- corollary: `Compact` changes only insignificant white space -/
theorem compact_preserves (bs : Bytes) (c : Cst) :
    parseCst bs = some c → ∃ out, Scanner.compact false bs = some out ∧ parseCst out = some c := by
  intro h
  obtain ⟨hw, hd⟩ := parseCst_wfc bs c h
  exact ⟨_, compact_noescape bs c h, parse_print c hw hd⟩

example : ∃ c, parseCst [32, 91, 49, 32, 44, 9, 34, 60, 34, 32, 93, 10] = some c := ⟨_, by rfl⟩

/-- corollary with escaping: the value is unchanged -/
theorem compact_escape_value (bs : Bytes) (c : Cst) :
    parseCst bs = some c →
      ∃ out, Scanner.compact true bs = some out ∧ (parseCst out).map Cst.valueOf = some c.valueOf := by
  intro h
  obtain ⟨hw, hd⟩ := parseCst_wfc bs c h
  refine ⟨_, compact_escape bs c h, ?_⟩
  rw [parse_print _ (WFC_escape true c hw) (by rw [depth_escape]; exact hd)]
  simp only [Option.map_some, valueOf_escape true c hw]

/-- sharper: the output parses to the escaped tree -/
theorem compact_escape_parse (bs : Bytes) (c : Cst) :
    parseCst bs = some c →
      ∃ out, Scanner.compact true bs = some out ∧ parseCst out = some (Cst.escape true c) := by
  intro h
  obtain ⟨hw, hd⟩ := parseCst_wfc bs c h
  exact ⟨_, compact_escape bs c h, parse_print _ (WFC_escape true c hw) (by rw [depth_escape]; exact hd)⟩

/-- the layout `Indent` produces: the indented print of the parse tree, then the trailing white space
of the source (which `Indent` copies) -/
theorem indent_layout (ind bs : Bytes) (c : Cst) :
    parseCst bs = some c →
      ∃ ws : Bytes, (∀ b ∈ ws, isWs b = true) ∧ Scanner.indent ind bs = some (Cst.printIndented ind 0 c ++ ws) := by
  intro h
  obtain ⟨rest, hp, hws⟩ := parseCst_inv bs c h
  exact ⟨rest, (Scanner.skipWs_nil_iff rest).1 hws,
    indent_spec ind bs c rest _ hp hws (valid_of_parse bs c h) (parseCst_wfc bs c h).1⟩

/-- B6: `Indent` changes only insignificant white space -/
theorem indent_preserves (ind bs : Bytes) (c : Cst) (hind : ∀ b ∈ ind, isWs b = true) :
    parseCst bs = some c → ∃ out, Scanner.indent ind bs = some out ∧ parseCst out = some c := by
  intro h
  obtain ⟨hw, hd⟩ := parseCst_wfc bs c h
  obtain ⟨ws, hws, hi⟩ := indent_layout ind bs c h
  exact ⟨_, hi, parse_printIndented ind hind c ws hw hd ((Scanner.skipWs_nil_iff ws).2 hws)⟩

example : ∀ b ∈ ([32, 32] : Bytes), isWs b = true := by decide

/-- `Indent` of a compact text is the indented printer.

The requested statement had no bound on the nesting depth; it is false without one: the tree
`[[…[]…]]` with 10001 brackets is `WFC`, but its print is rejected by the scanner (nesting limit
10000), so `Scanner.indent` returns `none` (checked by evaluation: with
`deep n := (List.range n).foldl (fun c _ => .arr [c]) (.arr [])`,
`(Scanner.indent [] (Cst.print (deep 10000))).isSome = false` and `WFC (deep 10000) = true`). -/
theorem indent_print_partial (ind : Bytes) (c : Cst) (hc : WFC c) (hd : c.depth ≤ maxDepth) :
    Scanner.indent ind (Cst.print c) = some (Cst.printIndented ind 0 c) := by
  have hp := parseValue_print c ((Cst.print c).length + 1) 0 [] hc (by omega) (by omega) trivial
  have hs := skipWs_print c [] hc
  rw [List.append_nil] at hp hs
  have := indent_spec ind (Cst.print c) c [] ((Cst.print c).length + 1) (by rw [hs]; exact hp) rfl
    (valid_of_parse _ c (parse_print c hc hd)) hc
  rw [this, List.append_nil]

example : WFC (.obj [([97, 92, 110], .arr [.lit [45, 49, 46, 53], .str [92, 117, 48, 48, 101, 57], .arr [], .obj []])]) = true
    ∧ (Cst.obj [([97, 92, 110], .arr [.lit [45, 49, 46, 53], .str [92, 117, 48, 48, 101, 57], .arr [], .obj []])]).depth ≤ maxDepth := by
  decide

-- the layout on that tree, indent = two spaces: {⏎··"a\n": [⏎····-1.5,⏎····"é",⏎····[],⏎····{}⏎··]⏎}
example : Cst.printIndented [32, 32] 0
    (.obj [([97, 92, 110], .arr [.lit [45, 49, 46, 53], .str [92, 117, 48, 48, 101, 57], .arr [], .obj []])]) =
    [123, 10, 32, 32, 34, 97, 92, 110, 34, 58, 32, 91, 10, 32, 32, 32, 32, 45, 49, 46, 53, 44, 10, 32, 32, 32, 32,
     34, 92, 117, 48, 48, 101, 57, 34, 44, 10, 32, 32, 32, 32, 91, 93, 44, 10, 32, 32, 32, 32, 123, 125, 10,
     32, 32, 93, 10, 125] := by decide

/-- `HTMLEscape` is the escaper of `compact` without the scanner: the same function as `escBody` -/
theorem htmlEscape_eq (bs : Bytes) : Scanner.htmlEscape 0 bs = escBody bs := htmlEscape_eq_escBody bs

/-- on a well-formed text `HTMLEscape` escapes the string bodies and keeps everything else: the
result parses to the escaped tree -/
theorem htmlEscape_parse (bs : Bytes) (c : Cst) :
    parseCst bs = some c → parseCst (Scanner.htmlEscape 0 bs) = some (Cst.escape true c) := by
  intro h
  rw [htmlEscape_eq_escBody]; exact parseCst_escBody bs c h

/-- `HTMLEscape` keeps the value -/
theorem htmlEscape_value (bs : Bytes) (c : Cst) :
    parseCst bs = some c → (parseCst (Scanner.htmlEscape 0 bs)).map Cst.valueOf = some c.valueOf := by
  intro h
  rw [htmlEscape_parse bs c h]
  simp only [Option.map_some, valueOf_escape true c (parseCst_wfc bs c h).1]

/-- no raw `<`, `>`, `&`, U+2028, U+2029 is left, for any input -/
theorem htmlEscape_clean (bs : Bytes) : hasRawHtml (Scanner.htmlEscape 0 bs) = false := by
  rw [htmlEscape_eq_escBody]; exact escBody_clean bs

/-- `compact(escape = true)` is `compact(escape = false)` after `HTMLEscape`, on every valid text -/
theorem compact_htmlEscape (bs : Bytes) (hv : Scanner.valid bs = true) :
    Scanner.compact true bs = Scanner.compact false (Scanner.htmlEscape 0 bs) := by
  rw [htmlEscape_eq_escBody]; exact Scanner.compact_true_eq bs hv

example : Scanner.valid [32, 123, 34, 97, 60, 34, 58, 32, 91, 49, 44, 32, 34, 120, 34, 93, 125, 10] = true := by
  decide

/-- what the reference parser returns is well-formed and within the nesting limit -/
theorem parse_wfc (bs : Bytes) (c : Cst) : parseCst bs = some c → WFC c ∧ c.depth ≤ maxDepth :=
  parseCst_wfc bs c

/-- the scanner's opcode trace on a well-formed text is the token list of its parse tree followed by
`scanEnd` on the trailing white space -/
theorem scan_trace (bs : Bytes) (c : Cst) :
    parseCst bs = some c →
      ∃ ws : Bytes, (∀ b ∈ ws, isWs b = true) ∧
        Scanner.ftr Scanner.Scan.init bs = Scanner.toksV c ++ ws.map (·, Scanner.scanEnd) := by
  intro h
  obtain ⟨rest, hp, hws⟩ := parseCst_inv bs c h
  exact ⟨rest, (Scanner.skipWs_nil_iff rest).1 hws, Scanner.ftr_parse _ bs c rest hp hws⟩

end JP.C17

/-
#print axioms JP.C17.compact_spec
#print axioms JP.C17.compact_spec_noescape
#print axioms JP.C17.compact_preserves
#print axioms JP.C17.compact_escape_value
#print axioms JP.C17.compact_escape_parse
#print axioms JP.C17.indent_layout
#print axioms JP.C17.indent_preserves
#print axioms JP.C17.indent_print_partial
#print axioms JP.C17.htmlEscape_eq
#print axioms JP.C17.htmlEscape_parse
#print axioms JP.C17.htmlEscape_value
#print axioms JP.C17.htmlEscape_clean
#print axioms JP.C17.compact_htmlEscape
#print axioms JP.C17.parse_wfc
#print axioms JP.C17.scan_trace
-- each: [propext, Classical.choice, Quot.sound]
-/
