import JP.Driver
import JP.Impl.Den

/-! # Property C08 — theorems (see DESIGN.md §6) -/

namespace JP
namespace C08

end C08
end JP
