import JP.Lemmas.CopySize

/-!
# C08: a failing `Apply` returns nothing; later operations have no effect; error classes

`Impl.applyOps` returns either the final root or an error, never both, so "a failing Apply
returns no document" holds by the type of the model's outcome (`applyBytes` propagates
`.err e` unchanged).  The theorems below give the remaining clauses.
-/

namespace JP.C08
open JP.Impl

/-- operations after the first failing one have no effect on the outcome -/
theorem suffix_irrelevant (o : Impl.Opts) (r : Impl.Root) (acc : Int) (ops₁ : List Impl.Op)
    (bad : Impl.Op) (ops₂ : List Impl.Op) (e : Impl.Err) :
    Impl.applyOps o r acc (ops₁ ++ [bad]) = .err e →
      Impl.applyOps o r acc (ops₁ ++ bad :: ops₂) = .err e := by
  intro h
  rw [applyOps_append] at h ⊢
  cases h1 : applyOpsAcc o r acc ops₁ with
  | ok p =>
    rw [h1] at h
    simp only [Outcome.bind] at h ⊢
    rw [applyOps_cons] at h ⊢
    cases h2 : applyOp o p.1 p.2 bad with
    | ok q => rw [h2] at h; simp [Outcome.bind, applyOps] at h
    | err e' => rw [h2] at h; exact h
    | panic => rw [h2] at h; exact h
  | err e' => rw [h1] at h; exact h
  | panic => rw [h1] at h; exact h

/-- the same for `applyBytes`: once a prefix of the patch fails on a document, every
extension of the patch fails in the same way (and no document is returned) -/
theorem suffix_irrelevant_bytes (o : Impl.Opts) (indent doc : Bytes) (ops₁ : List Impl.Op)
    (bad : Impl.Op) (ops₂ : List Impl.Op) (e : Impl.Err) (c : Cst) (con : Node)
    (hdoc : doc ≠ []) (hv : Scanner.valid doc = true) (hp : parseCst doc = some c)
    (hr : decodeRoot c = .ok con) :
    Impl.applyOps o { con := con, self := .raw c, selfCR := c.isArr && !goIsArray doc } 0 (ops₁ ++ [bad]) = .err e →
      Impl.applyBytes o indent doc (ops₁ ++ bad :: ops₂) = .err e := by
  intro h
  have h' := suffix_irrelevant o _ 0 ops₁ bad ops₂ e h
  unfold applyBytes
  simp only [hdoc, if_false, hv, Bool.not_true, Bool.false_eq_true, hp, hr, h']

/-- a successful run of a whole patch is a successful run of every prefix, continued by a
successful run of the rest from the state (root and running copy total) the prefix left -/
theorem prefix_ok_of_ok (o : Impl.Opts) (r : Impl.Root) (acc : Int) (ops₁ ops₂ : List Impl.Op)
    (r' : Impl.Root) :
    Impl.applyOps o r acc (ops₁ ++ ops₂) = .ok r' →
      ∃ r₁ acc₁, Impl.applyOpsAcc o r acc ops₁ = .ok (r₁, acc₁) ∧ Impl.applyOps o r acc ops₁ = .ok r₁
        ∧ Impl.applyOps o r₁ acc₁ ops₂ = .ok r' := by
  intro h
  rw [applyOps_append] at h
  cases h1 : applyOpsAcc o r acc ops₁ with
  | ok p =>
    rw [h1] at h
    refine ⟨p.1, p.2, rfl, ?_, h⟩
    rw [applyOps_eq_acc, h1]; rfl
  | err e' => rw [h1] at h; simp [Outcome.bind] at h
  | panic => rw [h1] at h; simp [Outcome.bind] at h

/-- conversely, a failing prefix makes the whole patch fail with the same error -/
theorem err_of_prefix_err (o : Impl.Opts) (r : Impl.Root) (acc : Int) (ops₁ ops₂ : List Impl.Op)
    (e : Impl.Err) :
    Impl.applyOps o r acc ops₁ = .err e → Impl.applyOps o r acc (ops₁ ++ ops₂) = .err e := by
  intro h
  rw [applyOps_append]
  rw [applyOps_eq_acc] at h
  cases h1 : applyOpsAcc o r acc ops₁ with
  | ok p => rw [h1] at h; simp [Outcome.bind] at h
  | err e' => rw [h1] at h; exact h
  | panic => rw [h1] at h; simp [Outcome.bind] at h

/-- the test-failed class arises only from a `test` operation -/
theorem testFailed_only_from_test (o : Impl.Opts) (r : Impl.Root) (acc : Int) (op : Impl.Op) :
    Impl.applyOp o r acc op = .err .testFailed → op.kind = ascii "test" :=
  applyOp_testFailed

/-- the copy-size class arises only from a `copy` operation, and only with a positive limit -/
theorem copySize_only_from_copy (o : Impl.Opts) (r : Impl.Root) (acc : Int) (op : Impl.Op) :
    Impl.applyOp o r acc op = .err .copySize → op.kind = ascii "copy" ∧ o.limit > 0 :=
  applyOp_copySize

/-- over a whole patch: a test-failed outcome comes from a `test` operation of the patch -/
theorem testFailed_in_patch (o : Impl.Opts) (ops : List Impl.Op) : ∀ (r : Impl.Root) (acc : Int),
    Impl.applyOps o r acc ops = .err .testFailed → ∃ op ∈ ops, op.kind = ascii "test" := by
  induction ops with
  | nil => intro r acc h; simp [applyOps] at h
  | cons op ops ih =>
    intro r acc h
    rw [applyOps_cons] at h
    cases h1 : applyOp o r acc op with
    | ok p =>
      rw [h1] at h
      obtain ⟨op', hm, hk⟩ := ih _ _ h
      exact ⟨op', List.mem_cons_of_mem _ hm, hk⟩
    | err e =>
      rw [h1] at h
      simp only [Outcome.bind, Outcome.err.injEq] at h
      subst h
      exact ⟨op, List.mem_cons_self, applyOp_testFailed h1⟩
    | panic => rw [h1] at h; simp [Outcome.bind] at h

/-- over a whole patch: a copy-size outcome comes from a `copy` operation, limit positive -/
theorem copySize_in_patch (o : Impl.Opts) (ops : List Impl.Op) : ∀ (r : Impl.Root) (acc : Int),
    Impl.applyOps o r acc ops = .err .copySize → (∃ op ∈ ops, op.kind = ascii "copy") ∧ o.limit > 0 := by
  induction ops with
  | nil => intro r acc h; simp [applyOps] at h
  | cons op ops ih =>
    intro r acc h
    rw [applyOps_cons] at h
    cases h1 : applyOp o r acc op with
    | ok p =>
      rw [h1] at h
      obtain ⟨⟨op', hm, hk⟩, hl⟩ := ih _ _ h
      exact ⟨⟨op', List.mem_cons_of_mem _ hm, hk⟩, hl⟩
    | err e =>
      rw [h1] at h
      simp only [Outcome.bind, Outcome.err.injEq] at h
      subst h
      exact ⟨⟨op, List.mem_cons_self, (applyOp_copySize h1).1⟩, (applyOp_copySize h1).2⟩
    | panic => rw [h1] at h; simp [Outcome.bind] at h

/-! ### the hypotheses are satisfiable -/

section Examples

def exRoot : Root :=
  { con := .doc [ascii "a"] [(ascii "a", .raw (.lit (ascii "1")))], self := .nil }
def exAdd : Op := { kind := ascii "add", path := ascii "/b", value := some (.lit (ascii "2")) }
def exTestBad : Op := { kind := ascii "test", path := ascii "/a", value := some (.lit (ascii "2")) }
def exTestGood : Op := { kind := ascii "test", path := ascii "/a", value := some (.lit (ascii "1")) }
def exRemove : Op := { kind := ascii "remove", path := ascii "/a" }
def exCopy : Op := { kind := ascii "copy", path := ascii "/c", frm := some (ascii "/a") }

/-- `suffix_irrelevant`: add, then a failing test; the later remove is never looked at -/
example : applyOps {} exRoot 0 ([exAdd] ++ [exTestBad]) = .err .testFailed := rfl
example : applyOps {} exRoot 0 ([exAdd] ++ exTestBad :: [exRemove]) = .err .testFailed :=
  suffix_irrelevant {} exRoot 0 [exAdd] exTestBad [exRemove] _ rfl

/-- `prefix_ok_of_ok`: a patch of two operations that succeeds -/
example : ∃ r', applyOps {} exRoot 0 ([exAdd] ++ [exTestGood, exRemove]) = .ok r' := ⟨_, rfl⟩

/-- `testFailed_only_from_test` -/
example : applyOp {} exRoot 0 exTestBad = .err .testFailed := rfl

/-- `copySize_only_from_copy`: the value `1` has size 1, the limit is 1 and 1 is used up -/
example : applyOp { limit := 1 } exRoot 1 exCopy = .err .copySize := rfl

end Examples

end JP.C08

-- #print axioms JP.C08.suffix_irrelevant
-- #print axioms JP.C08.suffix_irrelevant_bytes
-- #print axioms JP.C08.prefix_ok_of_ok
-- #print axioms JP.C08.err_of_prefix_err
-- #print axioms JP.C08.testFailed_only_from_test
-- #print axioms JP.C08.copySize_only_from_copy
-- #print axioms JP.C08.testFailed_in_patch
-- #print axioms JP.C08.copySize_in_patch
