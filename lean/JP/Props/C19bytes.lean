import JP.Props.C19
import JP.Props.C19law
import JP.Props.C03impl
import JP.Props.C07bytes
import JP.Lemmas.LegacyCloseCreate
import JP.Lemmas.LegacyCloseMinimal
import JP.Lemmas.LegacyCloseText
import JP.Lemmas.LegacyCloseApply

/-!
# C19 at byte level — the legacy (v4) `MergePatch`, `CreateMergePatch`, `MergeMergePatches`, `Equal`
on texts

`JP/Props/C19.lean` proves the legacy merge functions against RFC 7396 on syntax trees and leaves
the print / parse layer as a hypothesis (`mergePatch_value`).  Here that layer is discharged
(`JP/Lemmas/LegacyCloseGood.lean`), and `CreateMergePatch` is treated (`LegacyCloseCreate.lean`,
`LegacyCloseRespell.lean`).

What `json.Marshal` prints for a parsed object lists the members **sorted by name**, so — unlike
in the v5 fork — the value an output text denotes is the RFC 7396 result only **up to member order**
(`Value.eqv`); every output value is also shown to be duplicate-free, so that outputs can be fed
back (`library_law_legacy`, `create_roundtrip_legacy`).

* `mergePatch_bytes_legacy` (`_eqv`), `mergeMerge_bytes_legacy`, `merge_scalar_rejected_legacy`,
  `mergePatch_errors_legacy`;
* `create_value_legacy`, `create_refines_legacy`, `create_roundtrip_legacy`,
  `create_roundtrip_merge_legacy`, `create_minimal_legacy`, `create_null_legacy` (a `null` root is
  read as `{}`), `create_rejects_legacy`, `resemblesJSONArray_eq`, `create_array_refines_legacy`
  (element-wise; a `null` element is `{}` as well), `create_array_objs_legacy`;
* `library_law_legacy`;
* `equal_bytes_legacy`, `equal_text_legacy` (hypotheses on the bytes of the texts),
  `equal_malformed_legacy`;
* `merge_output_valid_legacy`, `create_output_valid_legacy`, `apply_output_valid_legacy`
  (`apply_empty_doc_legacy`: an empty document is returned unchanged — not a JSON text).

The number domain of the `CreateMergePatch` model (`Legacy.createModelled`: plain integers of at
most 15 digits, for which a `float64` round trip is the identity) is carried as a hypothesis of the
`create_*` theorems: it delimits where the model speaks for the Go code; the proofs do not use it.
-/

namespace JP
namespace C19
open Value Legacy
open Impl (GC GC_of_parse getDiff anyOfM)

/-! ## small facts about roots -/

theorem isObj_valueOf (c : Cst) : c.valueOf.isObj = c.isObj := by
  cases c with
  | lit s =>
    simp only [Cst.valueOf, Cst.isObj]
    cases h : Cst.litValue s with
    | obj ms => exact absurd h ((Impl.litValue_not_container s).2.2 ms)
    | _ => rfl
  | str b => rfl
  | arr xs => rfl
  | obj ms => rfl

theorem isArr_valueOf (c : Cst) : c.valueOf.isArr = c.isArr := by
  cases c with
  | lit s =>
    simp only [Cst.valueOf, Cst.isArr]
    cases h : Cst.litValue s with
    | arr xs => exact absurd h ((Impl.litValue_not_container s).2.1 xs)
    | _ => rfl
  | str b => rfl
  | arr xs => rfl
  | obj ms => rfl

theorem parseValueOf_marshal (r : Node) (h : parseCst (Cst.print (cstOf r)) = some (cstOf r)) :
    parseValueOf (marshal r) = some (cstOf r).valueOf := by
  simp only [parseValueOf, marshal, h, Option.map_some]

/-! ## MergePatch -/

/-- the text-layer facts `C19.mergePatch_value` assumed, for the node `doMergePatch` actually builds
(either mode); in addition the printed value is duplicate-free -/
theorem text_layer_legacy (mm : Bool) (dc pc : Cst) (r : Node) (hd : GC maxDepth dc) (hp : GC maxDepth pc)
    (h : mergeTree mm dc pc = some r) (hw : WF r = true) :
    PrintSpec (cstOf r) ∧ CstOfSpec r ∧ (cstOf r).valueOf.noDup = true :=
  have hg := GoodN_mergeTree mm dc pc r hd hp h
  have hs := cstOf_simC r maxDepth hw hg
  ⟨parse_print_cstOf r hg, hs.2, hs.1⟩

/-- **the legacy `MergePatch` on texts.**  For a well-formed non-null document and a well-formed
object or array patch, both with duplicate-free member names, `MergePatch` succeeds and its output
is a JSON text denoting the RFC 7396 result up to member order (and duplicate-free again) -/
theorem mergePatch_bytes_legacy (doc patch : Bytes) (dc pc : Cst)
    (hd : parseCst doc = some dc) (hp : parseCst patch = some pc)
    (hnn : dc.isNullLit = false) (hpc : (pc.isObj || pc.isArr) = true)
    (hdd : dc.valueOf.noDup = true) (hdp : pc.valueOf.noDup = true) :
    ∃ out v, mergePatch doc patch = .ok out ∧ parseValueOf out = some v ∧ v.noDup = true ∧
      Value.eqv v (Spec.merge dc.valueOf pc.valueOf) = true := by
  obtain ⟨r, h0, hw, hden⟩ := mergeTree_den dc pc hdd hdp hpc
  have ⟨p1, p2, p3⟩ := text_layer_legacy false dc pc r (GC_of_parse doc dc hd) (GC_of_parse patch pc hp) h0 hw
  refine ⟨marshal r, (cstOf r).valueOf, doMergePatch_eq false doc patch dc pc hd hp hnn hpc r h0,
    parseValueOf_marshal r p1, p3, ?_⟩
  rw [← hden]; exact p2

/-- the same in terms of the values the two texts denote -/
theorem mergePatch_bytes_legacy_eqv (doc patch : Bytes) (d p : Value)
    (hd : parseValueOf doc = some d) (hp : parseValueOf patch = some p)
    (hnn : d ≠ .null) (hpc : (p.isObj || p.isArr) = true)
    (hdd : d.noDup = true) (hdp : p.noDup = true) :
    ∃ out, mergePatch doc patch = .ok out ∧
      ∃ v, parseValueOf out = some v ∧ Value.eqv v (Spec.merge d p) = true ∧ v.noDup = true := by
  obtain ⟨dc, pd, rfl⟩ := C07.parse_of_value hd
  obtain ⟨pc, pp, rfl⟩ := C07.parse_of_value hp
  rw [isObj_valueOf, isArr_valueOf] at hpc
  obtain ⟨out, v, h1, h2, h3, h4⟩ := mergePatch_bytes_legacy doc patch dc pc pd pp
    (C07.isNullLit_false_of_value hnn) hpc hdd hdp
  exact ⟨out, h1, v, h2, h4, h3⟩

/-- the legacy package **rejects** a patch that is neither an object nor an array (`null`
included) with `ErrBadJSONPatch`, in both modes — the v5 fork returns such a patch verbatim -/
theorem merge_scalar_rejected_legacy (mm : Bool) (doc patch : Bytes) (dc pc : Cst)
    (hd : parseCst doc = some dc) (hp : parseCst patch = some pc)
    (hnn : dc.isNullLit = false) (hno : pc.isObj = false) (hna : pc.isArr = false) :
    doMergePatch mm doc patch = .err .badPatch := by
  unfold doMergePatch
  simp only [hd, hp, hnn, Bool.false_eq_true, if_false]
  cases pc with
  | obj ms => simp [Cst.isObj] at hno
  | arr xs => simp [Cst.isArr] at hna
  | lit s => split <;> (cases dc <;> rfl)
  | str s => split <;> (cases dc <;> rfl)

/-- the other error outcomes, in terms of the reference parser -/
theorem mergePatch_errors_legacy (mm : Bool) (doc patch : Bytes) :
    (parseCst doc = none → doMergePatch mm doc patch = .err .badDoc) ∧
    ((parseCst doc).isSome = true → parseCst patch = none → doMergePatch mm doc patch = .err .badPatch) ∧
    (∀ dc, parseCst doc = some dc → (parseCst patch).isSome = true → dc.isNullLit = true →
      doMergePatch mm doc patch = .err .badDoc) := by
  refine ⟨fun h => by simp [doMergePatch, h], ?_, ?_⟩
  · intro h1 h2
    cases hd : parseCst doc with
    | none => rw [hd] at h1; cases h1
    | some dc => simp [doMergePatch, hd, h2]
  · intro dc h1 h2 h3
    cases hp : parseCst patch with
    | none => rw [hp] at h2; cases h2
    | some pc => simp [doMergePatch, h1, hp, h3]

/-! ## MergeMergePatches -/

/-- **the legacy `MergeMergePatches` on texts**: the output denotes the composition of the two
patches up to member order -/
theorem mergeMerge_bytes_legacy (p1 p2 : Bytes) (c1 c2 : Cst)
    (h1 : parseCst p1 = some c1) (h2 : parseCst p2 = some c2)
    (hnn : c1.isNullLit = false) (hpc : (c2.isObj || c2.isArr) = true)
    (hd1 : c1.valueOf.noDup = true) (hd2 : c2.valueOf.noDup = true)
    (hcomp : c1.isObj = true → Spec.compatible c1.valueOf c2.valueOf = true) :
    ∃ out v, mergeMergePatches p1 p2 = .ok out ∧ parseValueOf out = some v ∧ v.noDup = true ∧
      Value.eqv v (Spec.compose c1.valueOf c2.valueOf) = true := by
  obtain ⟨r, h0, hw, hden⟩ := composeTree_den c1 c2 hd1 hd2 hpc hcomp
  have ⟨q1, q2, q3⟩ := text_layer_legacy true c1 c2 r (GC_of_parse p1 c1 h1) (GC_of_parse p2 c2 h2) h0 hw
  refine ⟨marshal r, (cstOf r).valueOf, doMergePatch_eq true p1 p2 c1 c2 h1 h2 hnn hpc r h0,
    parseValueOf_marshal r q1, q3, ?_⟩
  rw [← hden]; exact q2

theorem eqv_shape {a b : Value} (h : Value.eqv a b = true) : a.isObj = b.isObj ∧ a.isArr = b.isArr := by
  cases a <;> cases b <;> simp [Value.eqv, Value.isObj, Value.isArr] at h ⊢

/-- **the library law for the legacy functions, on texts.**  `D` a non-null document, `P1` an
object patch, `P2` an object or array patch (the legacy package rejects everything else), all
duplicate-free, `P1`, `P2` compatible: every call succeeds, all intermediate outputs are re-parsed,
and `MergePatch(D, MergeMergePatches(P1, P2))` denotes the same value, up to member order, as
`MergePatch(MergePatch(D, P1), P2)` — both being the RFC 7396 results up to member order -/
theorem library_law_legacy (D P1 P2 : Bytes) (d v1 v2 : Value)
    (hD : parseValueOf D = some d) (h1 : parseValueOf P1 = some v1) (h2 : parseValueOf P2 = some v2)
    (hdn : d ≠ .null) (ho1 : v1.isObj = true) (ho2 : (v2.isObj || v2.isArr) = true)
    (ndd : d.noDup = true) (nd1 : v1.noDup = true) (nd2 : v2.noDup = true)
    (hcomp : Spec.compatible v1 v2 = true) :
    ∃ m o12 o1 o2, mergeMergePatches P1 P2 = .ok m ∧ mergePatch D m = .ok o12 ∧
      mergePatch D P1 = .ok o1 ∧ mergePatch o1 P2 = .ok o2 ∧
      ∃ w12 w2, parseValueOf o12 = some w12 ∧ parseValueOf o2 = some w2 ∧
        Value.eqv w12 (Spec.merge d (Spec.compose v1 v2)) = true ∧
        Value.eqv w2 (Spec.merge (Spec.merge d v1) v2) = true ∧
        Value.eqv w2 w12 = true := by
  obtain ⟨cD, pD, rfl⟩ := C07.parse_of_value hD
  obtain ⟨c1, p1, rfl⟩ := C07.parse_of_value h1
  obtain ⟨c2, p2, rfl⟩ := C07.parse_of_value h2
  have hnD := C07.isNullLit_false_of_value hdn
  have hn1 : c1.isNullLit = false :=
    C07.isNullLit_false_of_value (by intro e; rw [e] at ho1; cases ho1)
  have hc2 : (c2.isObj || c2.isArr) = true := by rw [← isObj_valueOf, ← isArr_valueOf]; exact ho2
  have hc1 : (c1.isObj || c1.isArr) = true := by rw [← isObj_valueOf, ho1]; rfl
  have ndC : (Spec.compose c1.valueOf c2.valueOf).noDup = true := C07.compose_noDup nd1 nd2
  -- the combined patch
  obtain ⟨m, vm, m1, m2, m3, m4⟩ := mergeMerge_bytes_legacy P1 P2 c1 c2 p1 p2 hn1 hc2 nd1 nd2 (fun _ => hcomp)
  obtain ⟨cm, pm, em⟩ := C07.parse_of_value m2
  have hcm : (cm.isObj || cm.isArr) = true := by
    rw [← isObj_valueOf, ← isArr_valueOf, em, (eqv_shape m4).1, (eqv_shape m4).2]
    cases hv2 : c2.valueOf with
    | obj q => cases hv1 : c1.valueOf <;> simp [Spec.compose, Value.isObj]
    | arr xs => simp [Spec.compose, Value.isObj, Value.isArr]
    | _ => rw [hv2] at ho2; simp [Value.isObj, Value.isArr] at ho2
  obtain ⟨o12, w12, a1, a2, a3, a4⟩ := mergePatch_bytes_legacy D m cD cm pD pm hnD hcm ndd (by rw [em]; exact m3)
  rw [em] at a4
  have a5 : Value.eqv w12 (Spec.merge cD.valueOf (Spec.compose c1.valueOf c2.valueOf)) = true :=
    Value.eqv_trans _ _ _ a4 (Impl.merge_congr_patch _ _ _ ndd ndC m3 m4)
  -- one after the other
  obtain ⟨o1, w1, b1, b2, b3, b4⟩ := mergePatch_bytes_legacy D P1 cD c1 pD p1 hnD hc1 ndd nd1
  obtain ⟨co1, po1, eo1⟩ := C07.parse_of_value b2
  have ndM1 : (Spec.merge cD.valueOf c1.valueOf).noDup = true := Spec.noDup_merge _ _ ndd nd1
  have hno1 : co1.isNullLit = false := by
    apply C07.isNullLit_false_of_value
    rw [eo1]
    intro e
    have hs := (eqv_shape b4).1
    rw [e] at hs
    cases hv : c1.valueOf with
    | obj ps => rw [hv, Spec.merge_obj] at hs; cases hs
    | _ => rw [hv] at ho1; cases ho1
  obtain ⟨o2, w2, c1', c2', c3', c4'⟩ :=
    mergePatch_bytes_legacy o1 P2 co1 c2 po1 p2 hno1 hc2 (by rw [eo1]; exact b3) nd2
  rw [eo1] at c4'
  have c5 : Value.eqv w2 (Spec.merge (Spec.merge cD.valueOf c1.valueOf) c2.valueOf) = true :=
    Value.eqv_trans _ _ _ c4' (merge_congr_doc _ _ _ ndM1 b3 nd2 b4)
  refine ⟨m, o12, o1, o2, m1, a1, b1, c1', w12, w2, a2, c2', a5, c5, ?_⟩
  have law := C07.compose_law_strong nd1 nd2 ndd hcomp
  have ndR : (Spec.merge cD.valueOf (Spec.compose c1.valueOf c2.valueOf)).noDup = true :=
    Spec.noDup_merge _ _ ndd ndC
  have a6 : Value.eqv (Spec.merge cD.valueOf (Spec.compose c1.valueOf c2.valueOf)) w12 = true := by
    rw [Value.eqv_symm _ _ ndR a3]; exact a5
  exact Value.eqv_trans _ _ _ c5 (Value.eqv_trans _ _ _ law a6)

/-! ## CreateMergePatch -/

theorem isArr_false_of_membersOrNull {c : Cst} {A : Members} (h : membersOrNull c.valueOf = some A) :
    c.isArr = false := by
  rw [← isArr_valueOf]
  cases hv : c.valueOf <;> rw [hv] at h <;> simp [membersOrNull] at h <;> rfl

/-- on two texts whose roots are objects (or `null`, which the legacy function reads as an empty
object) `CreateMergePatch` succeeds and its output — after the re-spelling of `\u0008` / `\u000c` —
parses to the model's diff of the two normalised objects (no duplicate-freeness needed) -/
theorem create_value_legacy (a b : Bytes) (va vb : Value) (A B : Members)
    (ha : parseValueOf a = some va) (hb : parseValueOf b = some vb)
    (hA : membersOrNull va = some A) (hB : membersOrNull vb = some B)
    (_hnum : createModelled a b = true) :
    ∃ out, createMergePatch a b = .ok out ∧
      parseValueOf out = some (.obj (getDiff (anyOfM A []) (anyOfM B []))) := by
  obtain ⟨ca, pa, rfl⟩ := C07.parse_of_value ha
  obtain ⟨cb, pb, rfl⟩ := C07.parse_of_value hb
  have hra := rootL_of_membersOrNull hA
  have hrb := rootL_of_membersOrNull hB
  rw [createMergePatch_nonarr a b (resemblesJSONArray_false a ca pa (isArr_false_of_membersOrNull hA))
    (resemblesJSONArray_false b cb pb (isArr_false_of_membersOrNull hB)),
    createObject_eq a b ca cb pa pb, hra, hrb]
  exact ⟨_, rfl, parseValueOf_createOut _
    (GV_getDiff_rootL maxDepth ca cb _ _ (by decide) (GC_of_parse a ca pa) (GC_of_parse b cb pb) hra hrb)⟩

/-- **the legacy `CreateMergePatch` on texts.**  Object roots, duplicate-free names, numbers inside
the modelled domain: the output is a JSON text denoting `Spec.diff` up to member order -/
theorem create_refines_legacy (a b : Bytes) (A B : Members)
    (ha : parseValueOf a = some (.obj A)) (hb : parseValueOf b = some (.obj B))
    (hA : (Value.obj A).noDup = true) (hB : (Value.obj B).noDup = true)
    (hnum : createModelled a b = true) :
    ∃ out v, createMergePatch a b = .ok out ∧ parseValueOf out = some v ∧
      Value.eqv v (.obj (Spec.diff A B)) = true ∧ v.noDup = true := by
  obtain ⟨out, h1, h2⟩ := create_value_legacy a b _ _ A B ha hb rfl rfl hnum
  exact ⟨out, _, h1, h2, C03.getDiff_refines A B hA hB, (C03.getDiff_normal A B).2⟩

/-- **round trip, against the specification**: merging the produced patch into `A` (RFC 7396)
gives `B` up to member order when `B` has no null member -/
theorem create_roundtrip_legacy (a b : Bytes) (A B : Members)
    (ha : parseValueOf a = some (.obj A)) (hb : parseValueOf b = some (.obj B))
    (hA : (Value.obj A).noDup = true) (hB : (Value.obj B).noDup = true)
    (hnull : (Value.obj B).hasNullMember = false) (hnum : createModelled a b = true) :
    ∃ patch P, createMergePatch a b = .ok patch ∧ parseValueOf patch = some P ∧
      Value.eqv (Spec.merge (.obj A) P) (.obj B) = true := by
  obtain ⟨patch, h1, h2⟩ := create_value_legacy a b _ _ A B ha hb rfl rfl hnum
  refine ⟨patch, _, h1, h2, ?_⟩
  exact Value.eqv_trans _ _ _
    (Impl.merge_congr_patch _ _ _ hA (C03.diff_noDup hA hB) (C03.getDiff_normal A B).2
      (C03.getDiff_refines A B hA hB))
    (C03.roundtrip hA hB hnull)

/-- **round trip through the legacy package's own `MergePatch`**: applying the produced patch to
the original text gives the target up to member order -/
theorem create_roundtrip_merge_legacy (a b : Bytes) (A B : Members)
    (ha : parseValueOf a = some (.obj A)) (hb : parseValueOf b = some (.obj B))
    (hA : (Value.obj A).noDup = true) (hB : (Value.obj B).noDup = true)
    (hnull : (Value.obj B).hasNullMember = false) (hnum : createModelled a b = true) :
    ∃ patch out v, createMergePatch a b = .ok patch ∧ mergePatch a patch = .ok out ∧
      parseValueOf out = some v ∧ Value.eqv v (.obj B) = true := by
  obtain ⟨patch, h1, h2⟩ := create_value_legacy a b _ _ A B ha hb rfl rfl hnum
  have hG := C03.getDiff_normal A B
  obtain ⟨out, m1, v, m2, m3, _⟩ := mergePatch_bytes_legacy_eqv a patch _ _ ha h2 (by simp) rfl hA hG.2
  refine ⟨patch, out, v, h1, m1, m2, ?_⟩
  refine Value.eqv_trans _ _ _ m3 (Value.eqv_trans _ _ _ ?_ (C03.roundtrip hA hB hnull))
  exact Impl.merge_congr_patch _ _ _ hA (C03.diff_noDup hA hB) hG.2 (C03.getDiff_refines A B hA hB)

/-- **minimality**: the produced patch mentions, at every depth, only members that differ between
`A` and `B` (nested patch objects are non-empty, members absent from `B` are mentioned as `null`
only, no name absent from both is mentioned); it is `{}` exactly when `A` and `B` are equal up to
member order -/
theorem create_minimal_legacy (a b : Bytes) (A B : Members)
    (ha : parseValueOf a = some (.obj A)) (hb : parseValueOf b = some (.obj B))
    (hA : (Value.obj A).noDup = true) (hB : (Value.obj B).noDup = true)
    (hnum : createModelled a b = true) :
    ∃ patch P, createMergePatch a b = .ok patch ∧ parseValueOf patch = some (.obj P) ∧
      minimalMs A B P = true ∧ (P = [] ↔ Value.eqv (.obj A) (.obj B) = true) := by
  obtain ⟨patch, h1, h2⟩ := create_value_legacy a b _ _ A B ha hb rfl rfl hnum
  have hG := C03.getDiff_normal A B
  have he := C03.getDiff_refines A B hA hB
  have hD := C03.diff_noDup hA hB
  have he' : Value.eqv (.obj (Spec.diff A B)) (.obj (getDiff (anyOfM A []) (anyOfM B []))) = true := by
    rw [Value.eqv_symm _ _ hD hG.2]; exact he
  refine ⟨patch, _, h1, h2, Spec.minimalMs_congr hD hG.2 he' A B (C03.minimal_rec hA hB), ?_⟩
  rw [← C03.empty_iff hA hB]
  constructor
  · intro e; rw [e] at he'; exact Spec.eqv_obj_nil_right he'
  · intro e; rw [e] at he; exact Spec.eqv_obj_nil_right he

/-- **`null` roots are accepted** and read as `{}` (`json.Unmarshal` of `null` into a map leaves it
nil without error) — the v5 fork rejects them.  The output is what `{}` in place of `null` gives. -/
theorem create_null_legacy (a b : Bytes) (B : Members)
    (ha : parseValueOf a = some .null) (hb : parseValueOf b = some (.obj B))
    (hB : (Value.obj B).noDup = true) (hnum : createModelled a b = true) :
    (∃ out v, createMergePatch a b = .ok out ∧ parseValueOf out = some v ∧
      Value.eqv v (.obj (Spec.diff [] B)) = true) ∧
    (∃ out v, createMergePatch b a = .ok out ∧ parseValueOf out = some v ∧
      Value.eqv v (.obj (Spec.diff B [])) = true) := by
  have hnum' : createModelled b a = true := by
    unfold createModelled at hnum ⊢
    cases ha' : parseCst a <;> cases hb' : parseCst b <;> rw [ha', hb'] at hnum <;>
      simp only [Bool.and_eq_true] at hnum ⊢ <;> first | trivial | exact ⟨hnum.2, hnum.1⟩
  obtain ⟨o1, x1, x2⟩ := create_value_legacy a b _ _ [] B ha hb rfl rfl hnum
  obtain ⟨o2, y1, y2⟩ := create_value_legacy b a _ _ B [] hb ha rfl rfl hnum'
  exact ⟨⟨o1, _, x1, x2, C03.getDiff_refines [] B rfl hB⟩, ⟨o2, _, y1, y2, C03.getDiff_refines B [] hB rfl⟩⟩

/-- for a well-formed text "resembles an array" (`bytes.TrimSpace`, first byte `[`, last byte `]`) is
"the root is an array" -/
theorem resemblesJSONArray_eq (a : Bytes) (c : Cst) (h : parseCst a = some c) :
    resemblesJSONArray a = c.isArr := by
  cases hc : c.isArr with
  | true => exact resemblesJSONArray_true a c h hc
  | false => exact resemblesJSONArray_false a c h hc

/-- what the legacy `CreateMergePatch` rejects: mixed "resembles an array" flags — for well-formed
texts: exactly one array root — (`errBadMergeTypes`); an ill-formed operand; a root that is neither
an object nor `null` nor an array; two arrays of different lengths -/
theorem create_rejects_legacy (a b : Bytes) :
    (resemblesJSONArray a ≠ resemblesJSONArray b → createMergePatch a b = .err .badMergeTypes) ∧
    (resemblesJSONArray a = false → resemblesJSONArray b = false →
      (parseCst a = none ∨ parseCst b = none) → createMergePatch a b = .err .badDoc) ∧
    (∀ ca cb, parseCst a = some ca → parseCst b = some cb →
      (ca.isArr ≠ cb.isArr → createMergePatch a b = .err .badMergeTypes) ∧
      (ca.isArr = false → cb.isArr = false →
        (membersOrNull ca.valueOf = none ∨ membersOrNull cb.valueOf = none) →
        createMergePatch a b = .err .badDoc) ∧
      (∀ xs ys, ca = .arr xs → cb = .arr ys → xs.length ≠ ys.length →
        createMergePatch a b = .err .badDoc)) := by
  refine ⟨createMergePatch_mixed a b, ?_, ?_⟩
  · intro ra rb h
    rw [createMergePatch_nonarr a b ra rb, createObject_malformed a b h]
  · intro ca cb pa pb
    refine ⟨?_, ?_, ?_⟩
    · intro hne
      apply createMergePatch_mixed
      rw [resemblesJSONArray_eq a ca pa, resemblesJSONArray_eq b cb pb]
      exact hne
    · intro na nb h
      rw [createMergePatch_nonarr a b (resemblesJSONArray_false a ca pa na) (resemblesJSONArray_false b cb pb nb),
        createObject_eq a b ca cb pa pb]
      have key : ∀ v : Value, membersOrNull v = none → rootL v = none := by
        intro v hv; cases v <;> simp [membersOrNull] at hv <;> rfl
      rcases h with h | h
      · rw [key _ h]
      · rw [key _ h]; cases rootL ca.valueOf <;> rfl
    · intro xs ys ea eb hl
      subst ea; subst eb
      rw [createMergePatch_arr a b (resemblesJSONArray_true a _ pa rfl) (resemblesJSONArray_true b _ pb rfl)
        xs ys pa pb, if_pos hl]

/-- two arrays of equal length whose elements are objects (or `null`, read as `{}` here as well):
the output is the array of the element-wise diffs, up to member order -/
theorem create_array_refines_legacy (a b : Bytes) (vxs vys : List Value) (As Bs : List Members)
    (ha : parseValueOf a = some (.arr vxs)) (hb : parseValueOf b = some (.arr vys))
    (hAs : vxs.map membersOrNull = As.map some) (hBs : vys.map membersOrNull = Bs.map some)
    (hlen : As.length = Bs.length)
    (hA : ∀ A ∈ As, (Value.obj A).noDup = true) (hB : ∀ B ∈ Bs, (Value.obj B).noDup = true)
    (_hnum : createModelled a b = true) :
    ∃ out vs, createMergePatch a b = .ok out ∧ parseValueOf out = some (.arr vs) ∧
      Value.eqvL vs (List.zipWith (fun A B => Value.obj (Spec.diff A B)) As Bs) = true := by
  obtain ⟨xs, pa, hx⟩ := C03.parse_arr ha
  obtain ⟨ys, pb, hy⟩ := C03.parse_arr hb
  have hl : xs.length = ys.length := by
    have e1 : xs.length = As.length := by
      have := congrArg List.length hAs
      rw [← hx] at this
      simpa [Impl.length_valueOfL] using this
    have e2 : ys.length = Bs.length := by
      have := congrArg List.length hBs
      rw [← hy] at this
      simpa [Impl.length_valueOfL] using this
    omega
  have hc := createArray_mems xs ys As Bs (by rw [hx]; exact hAs) (by rw [hy]; exact hBs) hlen
  rw [createMergePatch_arr a b (resemblesJSONArray_true a _ pa rfl) (resemblesJSONArray_true b _ pb rfl)
    xs ys pa pb, if_neg (by simpa using hl), hc]
  refine ⟨_, _, rfl, ?_, C03.eqvL_zipWith As Bs hlen hA hB⟩
  apply parseValueOf_createOut
  rw [Impl.GV_arr]
  refine ⟨by decide, Legacy.createArray_ok_GV _ xs ys _ (by decide) ?_ ?_ hc⟩
  · exact ((Impl.GC_arr _ xs).1 (GC_of_parse a _ pa)).2
  · exact ((Impl.GC_arr _ ys).1 (GC_of_parse b _ pb)).2

/-- the special case of two arrays of objects -/
theorem create_array_objs_legacy (a b : Bytes) (As Bs : List Members)
    (ha : parseValueOf a = some (.arr (As.map Value.obj)))
    (hb : parseValueOf b = some (.arr (Bs.map Value.obj)))
    (hlen : As.length = Bs.length)
    (hA : ∀ A ∈ As, (Value.obj A).noDup = true) (hB : ∀ B ∈ Bs, (Value.obj B).noDup = true)
    (hnum : createModelled a b = true) :
    ∃ out vs, createMergePatch a b = .ok out ∧ parseValueOf out = some (.arr vs) ∧
      Value.eqvL vs (List.zipWith (fun A B => Value.obj (Spec.diff A B)) As Bs) = true :=
  create_array_refines_legacy a b _ _ As Bs ha hb (by simp [List.map_map, Function.comp_def, membersOrNull])
    (by simp [List.map_map, Function.comp_def, membersOrNull]) hlen hA hB hnum

/-! ## Equal -/

/-- **the legacy `Equal` on texts**: both texts well-formed, duplicate-free names, no escape
sequence in any string or member name, valid UTF-8: `Equal` is structural equality of the denoted
values (well-formedness of the trees is what the parser guarantees; stated for all roots — object
and array roots are special cases) -/
theorem equal_bytes_legacy (a b : Bytes) (ca cb : Cst) (hpa : parseCst a = some ca) (hpb : parseCst b = some cb)
    (ha : ca.valueOf.noDup = true) (hb : cb.valueOf.noDup = true)
    (hea : NoEscapes ca = true) (heb : NoEscapes cb = true)
    (hua : CstUtf8 ca = true) (hub : CstUtf8 cb = true) :
    Legacy.equal a b = Value.eqv ca.valueOf cb.valueOf :=
  equal_texts a b ca cb hpa hpb ha hb hea heb (parseCst_sound a ca hpa).1 (parseCst_sound b cb hpb).1 hua hub

/-- **the legacy `Equal`, hypotheses on the texts themselves**: two well-formed texts that contain no
backslash byte and are valid UTF-8, duplicate-free names: `Equal` is structural equality of the
denoted values -/
theorem equal_text_legacy (a b : Bytes) (va vb : Value)
    (hpa : parseValueOf a = some va) (hpb : parseValueOf b = some vb)
    (ha : va.noDup = true) (hb : vb.noDup = true)
    (hea : ∀ x ∈ a, x ≠ 92) (heb : ∀ x ∈ b, x ≠ 92)
    (hua : isValidUtf8 a = true) (hub : isValidUtf8 b = true) :
    Legacy.equal a b = Value.eqv va vb := by
  obtain ⟨ca, pa, rfl⟩ := C07.parse_of_value hpa
  obtain ⟨cb, pb, rfl⟩ := C07.parse_of_value hpb
  exact equal_bytes_legacy a b ca cb pa pb ha hb (noEscapes_of_text a ca pa hea) (noEscapes_of_text b cb pb heb)
    (cstUtf8_of_text a ca pa hua) (cstUtf8_of_text b cb pb hub)

/-- the validity handling of the legacy `Equal`: nothing validates the inputs, so two ill-formed
texts are "equal" exactly when they are the same bytes, and an ill-formed text never equals a
well-formed one -/
theorem equal_malformed_legacy (a b : Bytes) :
    (parseCst a = none → parseCst b = none → Legacy.equal a b = (a == b)) ∧
    (parseCst a = none → (parseCst b).isSome = true → Legacy.equal a b = false) ∧
    ((parseCst a).isSome = true → parseCst b = none → Legacy.equal a b = false) := by
  refine ⟨fun h1 h2 => by simp only [Legacy.equal, h1, h2], ?_, ?_⟩
  · intro h1 h2
    cases hb : parseCst b with
    | none => rw [hb] at h2; cases h2
    | some cb => simp only [Legacy.equal, h1, hb]
  · intro h1 h2
    cases ha : parseCst a with
    | none => rw [ha] at h1; cases h1
    | some ca => simp only [Legacy.equal, ha, h2]

/-! ## successful outputs are well-formed JSON (C15 for the legacy merge functions) -/

theorem doMergePatch_ok_shape (mm : Bool) (doc patch out : Bytes) (h : doMergePatch mm doc patch = .ok out) :
    ∃ dc pc r, parseCst doc = some dc ∧ parseCst patch = some pc ∧ mergeTree mm dc pc = some r ∧
      out = marshal r := by
  unfold doMergePatch at h
  cases hd : parseCst doc with
  | none => rw [hd] at h; cases h
  | some dc =>
    cases hp : parseCst patch with
    | none => rw [hd, hp] at h; cases h
    | some pc =>
      rw [hd, hp] at h
      simp only at h
      cases hdn : dc.isNullLit with
      | true => rw [hdn] at h; cases h
      | false =>
        cases hpn : pc.isNullLit with
        | true => rw [hdn, hpn] at h; cases h
        | false =>
          rw [hdn, hpn] at h
          simp only [Bool.false_eq_true, if_false] at h
          refine ⟨dc, pc, ?_⟩
          cases pc with
          | lit s => cases dc <;> cases h
          | str s => cases dc <;> cases h
          | arr xs =>
            refine ⟨decodeAry xs, rfl, rfl, by cases dc <;> rfl, ?_⟩
            cases dc <;> (simp only [Impl.Outcome.ok.injEq] at h; exact h.symm)
          | obj pms =>
            cases dc with
            | obj dms =>
              simp only at h
              cases hm : mergeDocsC mm (some (decodeMembers dms [])) pms with
              | none => rw [hm] at h; cases h
              | some ob =>
                rw [hm] at h
                simp only [Impl.Outcome.ok.injEq] at h
                exact ⟨.doc ob, rfl, rfl, by simp only [mergeTree, hm, Option.map_some], h.symm⟩
            | lit s =>
              simp only at h
              cases mm
              · simp only [Bool.false_eq_true, if_false, Impl.Outcome.ok.injEq] at h
                exact ⟨_, rfl, rfl, rfl, h.symm⟩
              · simp only [if_true, Impl.Outcome.ok.injEq] at h
                exact ⟨_, rfl, rfl, rfl, h.symm⟩
            | str s =>
              simp only at h
              cases mm
              · simp only [Bool.false_eq_true, if_false, Impl.Outcome.ok.injEq] at h
                exact ⟨_, rfl, rfl, rfl, h.symm⟩
              · simp only [if_true, Impl.Outcome.ok.injEq] at h
                exact ⟨_, rfl, rfl, rfl, h.symm⟩
            | arr xs =>
              simp only at h
              cases mm
              · simp only [Bool.false_eq_true, if_false, Impl.Outcome.ok.injEq] at h
                exact ⟨_, rfl, rfl, rfl, h.symm⟩
              · simp only [if_true, Impl.Outcome.ok.injEq] at h
                exact ⟨_, rfl, rfl, rfl, h.symm⟩

/-- **every successful output of the legacy `MergePatch` (`mm = false`) and `MergeMergePatches`
(`mm = true`) is well-formed JSON**, for all inputs (no duplicate-freeness, no UTF-8 hypothesis) -/
theorem merge_output_valid_legacy (mm : Bool) (doc patch out : Bytes)
    (h : doMergePatch mm doc patch = .ok out) : (parseCst out).isSome = true := by
  obtain ⟨dc, pc, r, pd, pp, hr, rfl⟩ := doMergePatch_ok_shape mm doc patch out h
  have hg := GoodN_mergeTree mm dc pc r (GC_of_parse doc dc pd) (GC_of_parse patch pc pp) hr
  simp only [marshal, parse_print_cstOf r hg, Option.isSome_some]

theorem mergePatch_output_valid_legacy (doc patch out : Bytes) (h : mergePatch doc patch = .ok out) :
    (parseCst out).isSome = true :=
  merge_output_valid_legacy false doc patch out h

theorem mergeMergePatches_output_valid_legacy (p1 p2 out : Bytes) (h : mergeMergePatches p1 p2 = .ok out) :
    (parseCst out).isSome = true :=
  merge_output_valid_legacy true p1 p2 out h

theorem createObject_ok_GV (a b : Bytes) (v : Value) (h : createObject a b = .ok v) :
    Impl.GV maxDepth v = true := by
  cases pa : parseCst a with
  | none => rw [createObject_malformed a b (Or.inl pa)] at h; cases h
  | some ca =>
    cases pb : parseCst b with
    | none => rw [createObject_malformed a b (Or.inr pb)] at h; cases h
    | some cb =>
      rw [createObject_eq a b ca cb pa pb] at h
      cases hra : rootL ca.valueOf with
      | none => rw [hra] at h; simp at h
      | some am =>
        cases hrb : rootL cb.valueOf with
        | none => rw [hra, hrb] at h; simp at h
        | some bm =>
          rw [hra, hrb] at h
          simp only [Impl.Outcome.ok.injEq] at h
          subst h
          exact GV_getDiff_rootL maxDepth ca cb am bm (by decide) (GC_of_parse a ca pa) (GC_of_parse b cb pb) hra hrb

/-- **every successful output of the legacy `CreateMergePatch` is well-formed JSON**, for all
inputs -/
theorem create_output_valid_legacy (a b out : Bytes) (h : createMergePatch a b = .ok out) :
    (parseCst out).isSome = true := by
  cases ra : resemblesJSONArray a with
  | false =>
    cases rb : resemblesJSONArray b with
    | true => rw [createMergePatch_mixed a b (by rw [ra, rb]; decide)] at h; cases h
    | false =>
      rw [createMergePatch_nonarr a b ra rb] at h
      cases hc : createObject a b with
      | err e => rw [hc] at h; cases h
      | panic => rw [hc] at h; cases h
      | ok v =>
        rw [hc] at h
        simp only [Impl.Outcome.ok.injEq] at h
        subst h
        exact parseCst_createOut v (createObject_ok_GV a b v hc)
  | true =>
    cases rb : resemblesJSONArray b with
    | false => rw [createMergePatch_mixed a b (by rw [ra, rb]; decide)] at h; cases h
    | true =>
      cases pa : parseCst a with
      | none => simp [createMergePatch, ra, rb, pa] at h
      | some ca =>
        cases ca with
        | lit s => simp [createMergePatch, ra, rb, pa] at h
        | str s => simp [createMergePatch, ra, rb, pa] at h
        | obj ms => simp [createMergePatch, ra, rb, pa] at h
        | arr xs =>
          cases pb : parseCst b with
          | none => simp [createMergePatch, ra, rb, pa, pb] at h
          | some cb =>
            cases cb with
            | lit s => simp [createMergePatch, ra, rb, pa, pb] at h
            | str s => simp [createMergePatch, ra, rb, pa, pb] at h
            | obj ms => simp [createMergePatch, ra, rb, pa, pb] at h
            | arr ys =>
              rw [createMergePatch_arr a b ra rb xs ys pa pb] at h
              split at h
              · cases h
              · cases hc : createArray xs ys with
                | err e => rw [hc] at h; cases h
                | panic => rw [hc] at h; cases h
                | ok vs =>
                  rw [hc] at h
                  simp only [Impl.Outcome.ok.injEq] at h
                  subst h
                  apply parseCst_createOut
                  rw [Impl.GV_arr]
                  exact ⟨by decide, Legacy.createArray_ok_GV _ xs ys vs (by decide)
                    ((Impl.GC_arr _ xs).1 (GC_of_parse a _ pa)).2
                    ((Impl.GC_arr _ ys).1 (GC_of_parse b _ pb)).2 hc⟩

/-- **every successful output of the legacy `Apply`** (no indent) on a non-empty document and a
decoded patch **is the compact print of a well-formed syntax tree**; it parses back unless it nests
deeper than the decoder's limit (`add` / `copy` / `move` can build such a document out of two that
are within the limit).  No hypothesis on the operations beyond "decoded by `DecodePatch`". -/
theorem apply_output_valid_legacy (neg : Bool) (limit : Int) (doc patch : Bytes) (ops : List Legacy.Op)
    (out : Bytes) (hne : doc ≠ []) (hpatch : Legacy.decodePatch patch = .ok ops)
    (h : Legacy.applyBytes neg limit [] doc ops = .ok out) :
    ∃ t : Cst, out = Cst.print t ∧ WFC t = true ∧ (t.depth ≤ maxDepth → parseCst out = some t) := by
  obtain ⟨t, e, hw⟩ := applyBytes_tree neg limit doc ops out hne (OpW_decodePatch patch ops hpatch) h
  exact ⟨t, e, hw, fun hd => by rw [e]; exact parse_print t hw hd⟩

/-- the exception: the legacy `Apply` returns an **empty** document unchanged (`len(doc) == 0`),
which is not a JSON text -/
theorem apply_empty_doc_legacy (neg : Bool) (limit : Int) (indent : Bytes) (ops : List Legacy.Op) :
    Legacy.applyBytes neg limit indent [] ops = .ok [] ∧ parseCst [] = none :=
  ⟨rfl, rfl⟩

/-! ## the hypotheses are satisfiable -/

/-- `{"b":1,"a":{"x":1,"y":null}}` and `{"a":{"x":null,"z":"\b<"},"c":[null]}` -/
def tDoc : Bytes := ascii "{\"b\":1,\"a\":{\"x\":1,\"y\":null}}"
def tPatch : Bytes := ascii "{\"a\":{\"x\":null,\"z\":\"\\b<\"},\"c\":[null]}"

example : ((parseCst tDoc).map fun c => !c.isNullLit && c.valueOf.noDup) = some true ∧
    ((parseCst tPatch).map fun c => (c.isObj || c.isArr) && c.valueOf.noDup) = some true := by decide +kernel
/-- the output lists the members sorted by name: `{"a":{"y":null,"z":"\b\u003c"},"b":1,"c":[null]}` -/
example : (match mergePatch tDoc tPatch with | .ok o => some o | _ => none) =
    some (ascii "{\"a\":{\"y\":null,\"z\":\"\\b\\u003c\"},\"b\":1,\"c\":[null]}") := by decide +kernel
/-- a scalar or `null` patch is rejected -/
example : (match mergePatch tDoc (ascii "3") with | .err e => some e | _ => none) = some .badPatch ∧
    (match mergePatch tDoc (ascii "null") with | .err e => some e | _ => none) = some .badPatch ∧
    (match mergeMergePatches tDoc (ascii "\"x\"") with | .err e => some e | _ => none) = some .badPatch := by
  decide +kernel
example : (parseCst (ascii "3")).map (fun c => !c.isObj && !c.isArr) = some true := by decide +kernel

/-- the library law: `tD`, `tP1`, `tP2` -/
def tD : Bytes := ascii "{\"a\":{\"a\":1,\"b\":1},\"b\":1,\"c\":{\"c\":1}}"
def tP1 : Bytes := ascii "{\"a\":{\"a\":null,\"c\":2},\"b\":null}"
def tP2 : Bytes := ascii "{\"a\":{\"b\":null,\"c\":null},\"b\":2,\"c\":{\"a\":2}}"

example : ((parseValueOf tD).map fun d => d.noDup && !d.isNull) = some true ∧
    ((parseValueOf tP1).map fun v => v.noDup && v.isObj) = some true ∧
    ((parseValueOf tP2).map fun v => v.noDup && (v.isObj || v.isArr)) = some true := by decide +kernel
example : ((parseValueOf tP1).bind fun v1 => (parseValueOf tP2).map fun v2 => Spec.compatible v1 v2) = some true := by
  decide +kernel
example : (match mergeMergePatches tP1 tP2 with | .ok o => some o | _ => none) =
    some (ascii "{\"a\":{\"a\":null,\"b\":null,\"c\":null},\"b\":2,\"c\":{\"a\":2}}") := by decide +kernel
example : (match mergePatch tD (ascii "{\"a\":{\"a\":null,\"b\":null,\"c\":null},\"b\":2,\"c\":{\"a\":2}}") with
    | .ok o => some o | _ => none) = some (ascii "{\"a\":{},\"b\":2,\"c\":{\"a\":2,\"c\":1}}") := by decide +kernel

/-- `CreateMergePatch`: `{"b":{"x":1,"y":2},"a":1,"c":[1]}` and `{"c":[1],"b":{"y":3,"z":"\f<"},"d":true}` -/
def tA : Bytes := ascii "{\"b\":{\"x\":1,\"y\":2},\"a\":1,\"c\":[1]}"
def tB : Bytes := ascii "{\"c\":[1],\"b\":{\"y\":3,\"z\":\"\\f<\"},\"d\":true}"

example : ((parseValueOf tA).map fun v => v.isObj && v.noDup) = some true ∧
    ((parseValueOf tB).map fun v => v.isObj && v.noDup && !v.hasNullMember) = some true ∧
    createModelled tA tB = true := by decide +kernel
/-- the produced patch, form feed spelled `\f` as the standard library does:
`{"a":null,"b":{"x":null,"y":3,"z":"\f\u003c"},"d":true}` -/
example : (match createMergePatch tA tB with | .ok o => some o | _ => none) =
    some (ascii "{\"a\":null,\"b\":{\"x\":null,\"y\":3,\"z\":\"\\f\\u003c\"},\"d\":true}") := by decide +kernel
/-- `null` is read as `{}`; mixed roots and scalar roots are rejected; arrays go element-wise (a `null`
element is an empty object there as well) -/
example : (match createMergePatch (ascii "null") (ascii "{\"b\":1}") with | .ok o => some o | _ => none) =
      some (ascii "{\"b\":1}") ∧
    (match createMergePatch (ascii "{\"b\":1}") (ascii "null") with | .ok o => some o | _ => none) =
      some (ascii "{\"b\":null}") ∧
    (match createMergePatch (ascii "[1]") (ascii "{}") with | .err e => some e | _ => none) = some .badMergeTypes ∧
    (match createMergePatch (ascii "1") (ascii "{}") with | .err e => some e | _ => none) = some .badDoc ∧
    (match createMergePatch (ascii " [{\"a\":1},null] ") (ascii "[{\"a\":2},{\"b\":[]}]") with
      | .ok o => some o | _ => none) = some (ascii "[{\"a\":2},{\"b\":[]}]") := by decide +kernel
example : resemblesJSONArray (ascii " [{\"a\":1},null] ") = true ∧ resemblesJSONArray tA = false := by
  decide +kernel

/-- `Apply`: `[{"op":"copy","from":"/a","path":"/c"},{"op":"test","path":"/b","value":1}]` on `tDoc` -/
def tOps : Bytes := ascii "[{\"op\":\"copy\",\"from\":\"/a\",\"path\":\"/c\"},{\"op\":\"test\",\"path\":\"/b\",\"value\":1}]"
example : (match Legacy.decodePatch tOps with
    | .ok ops => (match Legacy.applyBytes false 0 [] tDoc ops with | .ok o => some o | _ => none)
    | _ => none) = some (ascii "{\"a\":{\"x\":1,\"y\":null},\"b\":1,\"c\":{\"x\":1,\"y\":null}}") := by
  decide +kernel

/-- `Equal`: `{"a":1,"b":[null,"x"]}` against `{"b":[null,"x"], "a":1}`; two ill-formed texts -/
example : Legacy.equal (ascii "{\"a\":1,\"b\":[null,\"x\"]}") (ascii "{\"b\":[null,\"x\"], \"a\":1}") = true ∧
    ((parseCst (ascii "{\"a\":1,\"b\":[null,\"x\"]}")).map fun c => c.valueOf.noDup && NoEscapes c && CstUtf8 c) =
      some true ∧
    ((parseCst (ascii "{\"b\":[null,\"x\"], \"a\":1}")).map fun c => c.valueOf.noDup && NoEscapes c && CstUtf8 c) =
      some true := by decide +kernel
example : (ascii "{\"b\":[null,\"x\"], \"a\":1}").all (· ≠ 92) = true ∧
    isValidUtf8 (ascii "{\"b\":[null,\"x\"], \"a\":1}") = true := by decide +kernel
example : (parseCst (ascii "{\"a\":")).isSome = false ∧ Legacy.equal (ascii "{\"a\":") (ascii "{\"a\":") = true ∧
    Legacy.equal (ascii "{\"a\":") (ascii "{}") = false := by decide +kernel

end C19
end JP

-- #print axioms JP.C19.text_layer_legacy
-- #print axioms JP.C19.mergePatch_bytes_legacy
-- #print axioms JP.C19.mergePatch_bytes_legacy_eqv
-- #print axioms JP.C19.merge_scalar_rejected_legacy
-- #print axioms JP.C19.mergePatch_errors_legacy
-- #print axioms JP.C19.mergeMerge_bytes_legacy
-- #print axioms JP.C19.library_law_legacy
-- #print axioms JP.C19.create_value_legacy
-- #print axioms JP.C19.create_refines_legacy
-- #print axioms JP.C19.create_roundtrip_legacy
-- #print axioms JP.C19.create_roundtrip_merge_legacy
-- #print axioms JP.C19.create_minimal_legacy
-- #print axioms JP.C19.create_null_legacy
-- #print axioms JP.C19.create_rejects_legacy
-- #print axioms JP.C19.create_array_refines_legacy
-- #print axioms JP.C19.create_array_objs_legacy
-- #print axioms JP.C19.equal_bytes_legacy
-- #print axioms JP.C19.equal_text_legacy
-- #print axioms JP.C19.equal_malformed_legacy
-- #print axioms JP.C19.resemblesJSONArray_eq
-- #print axioms JP.C19.merge_output_valid_legacy
-- #print axioms JP.C19.create_output_valid_legacy
-- #print axioms JP.C19.apply_output_valid_legacy
-- #print axioms JP.C19.apply_empty_doc_legacy
