import JP.Driver
import JP.Impl.Den

/-! # Property C13 — theorems (see DESIGN.md §6) -/

namespace JP
namespace C13

end C13
end JP
