import JP.Lemmas.AllowRewrite
import JP.Lemmas.AllowAbsent

/-!
# C13: AllowMissingPathOnRemove skips only removes of absent targets (specification level)

`Spec.applyOp` implements the option through `Spec.skipsRemove`; `Driver.specSkipped`
computes the indices of the removes the specification skips along its own run and
`Driver.eraseIdxs` deletes them.  The rewrite law: with the option on, the outcome is that
of the patch with exactly the skipped removes deleted, run with the option off.
-/

namespace JP
namespace C13
open Spec AllowLemmas

/-- position, in the shortened list, of the operation with original index `k` -/
def newIdx (sk : List Nat) (k : Nat) : Nat := k - (sk.filter (· < k)).length

/-- `ok v` with `ok v`; `fail` at original index `k` with `fail` at the corresponding index
of the shortened list and the same cause; `unspec` (outside the domain) with anything -/
def outcomeEq (sk : List Nat) : Outcome → Outcome → Prop
  | .ok v, r => r = .ok v
  | .fail k c, r => r = .fail (newIdx sk k) c
  | .unspec, _ => True

/-- the rewrite law.  Copy sizes are taken from the original positions: `sizeAt'` on the
shortened list is `sizeAt` re-indexed. -/
theorem rewrite (o : Opts) (sizeAt sizeAt' : Nat → Nat) (acc : Nat) (d : Value) (ops : List Op)
    (sk : List Nat)
    (h : Driver.specSkipped { o with allowMissing := true } 0 d ops = some sk)
    (hsz : ∀ k, k ∉ sk → sizeAt' (newIdx sk k) = sizeAt k) :
    outcomeEq sk (applyFrom { o with allowMissing := true } sizeAt 0 acc d ops)
      (applyFrom { o with allowMissing := false } sizeAt' 0 acc d (Driver.eraseIdxs ops sk)) := by
  have key := rewrite_from o sizeAt sizeAt' ops 0 0 acc d sk h (by
    intro k _ hk
    have := hsz k hk
    simpa [newIdx, below] using this)
  rw [eraseIdxs_eq]
  have := outcomeEq_congr _ (newIdx sk) _ _ (by intro k c _; simp [newIdx, below]) key
  revert this
  cases applyFrom (on o) sizeAt 0 acc d ops <;> exact id

/-- with the copy limit off the sizes (and the accumulators) are irrelevant -/
theorem rewrite_nolimit (o : Opts) (hl : o.limit = 0) (sizeAt sizeAt' : Nat → Nat) (acc acc' : Nat)
    (d : Value) (ops : List Op) (sk : List Nat)
    (h : Driver.specSkipped { o with allowMissing := true } 0 d ops = some sk) :
    outcomeEq sk (applyFrom { o with allowMissing := true } sizeAt 0 acc d ops)
      (applyFrom { o with allowMissing := false } sizeAt' 0 acc' d (Driver.eraseIdxs ops sk)) := by
  rw [applyFrom_limit0 (on o) hl sizeAt (fun k => sizeAt' (newIdx sk k)) ops 0 acc acc' d]
  exact rewrite o _ sizeAt' acc' d ops sk h (fun _ _ => rfl)

/-- the same for whole-document application -/
theorem rewrite_apply (o : Opts) (sizeAt sizeAt' : Nat → Nat) (d : Value) (ops : List Op) (sk : List Nat)
    (h : Driver.specSkipped { o with allowMissing := true } 0 d ops = some sk)
    (hsz : ∀ k, k ∉ sk → sizeAt' (newIdx sk k) = sizeAt k) :
    outcomeEq sk (Spec.apply { o with allowMissing := true } sizeAt d ops)
      (Spec.apply { o with allowMissing := false } sizeAt' d (Driver.eraseIdxs ops sk)) := by
  unfold Spec.apply
  split
  · exact rewrite o sizeAt sizeAt' 0 d ops sk h hsz
  · trivial

/-- removes of existing targets and all other operations behave exactly as without the option -/
theorem others_unchanged (o : Opts) (size acc : Nat) (d : Value) (op : Op)
    (h : op.kind ≠ .remove ∨
      ∃ path, parsePointer op.path = some path ∧ skipsRemove o d path = .ok false) :
    applyOp { o with allowMissing := true } size acc d op
      = applyOp { o with allowMissing := false } size acc d op := by
  by_cases hk : op.kind = .remove
  · cases h with
    | inl h => exact absurd hk h
    | inr h =>
      obtain ⟨path, hp, hs⟩ := h
      cases path with
      | nil => simp [skipsRemove, atParent] at hs
      | cons t ts =>
        rw [applyOp_remove_on o size acc d op t ts hk hp, applyOp_remove_off o size acc d op t ts hk hp, hs]
  · exact applyOp_congr (on o) (off o) rfl rfl rfl size acc d op hk

/-- … and such a remove does succeed -/
theorem unskipped_succeeds (o : Opts) (size acc : Nat) (d : Value) (op : Op) (path : List Bytes)
    (hk : op.kind = .remove) (hp : parsePointer op.path = some path)
    (hs : skipsRemove o d path = .ok false) :
    ∃ d', applyOp { o with allowMissing := true } size acc d op = .ok (d', acc) := by
  cases path with
  | nil => simp [skipsRemove, atParent] at hs
  | cons t ts =>
    obtain ⟨q, hq⟩ := skips_false_succeeds o d _ hs
    exact ⟨q.1, by rw [applyOp_remove_on o size acc d op t ts hk hp, hs]; simp only [hq]; rfl⟩

/-- a skipped remove leaves the document (and the copy accumulator) unchanged -/
theorem skipped_is_identity (o : Opts) (size acc : Nat) (d : Value) (op : Op) (path : List Bytes)
    (hk : op.kind = .remove) (hp : parsePointer op.path = some path)
    (hs : skipsRemove o d path = .ok true) :
    applyOp { o with allowMissing := true } size acc d op = .ok (d, acc) := by
  cases path with
  | nil => simp [skipsRemove, atParent] at hs
  | cons t ts => rw [applyOp_remove_on o size acc d op t ts hk hp, hs]

/-- only removes of absent targets are skipped: without the option a skipped remove fails -/
theorem skipped_only_absent (o : Opts) (size acc : Nat) (d : Value) (op : Op) (path : List Bytes)
    (hk : op.kind = .remove) (hp : parsePointer op.path = some path)
    (hs : skipsRemove o d path = .ok true) :
    ∃ c, applyOp { o with allowMissing := false } size acc d op = .fail c := by
  cases path with
  | nil => simp [skipsRemove, atParent] at hs
  | cons t ts =>
    obtain ⟨c, hc⟩ := skips_true_fails o d _ hs
    exact ⟨c, by rw [applyOp_remove_off o size acc d op t ts hk hp, hc]; rfl⟩

/-- the indices `specSkipped` reports are skipped removes: nothing else is deleted.  (Stated
for the first operation; `specSkipped` proceeds along the run.) -/
theorem specSkipped_head (o : Opts) (d : Value) (op : Op) (ops : List Op) (i : Nat) (sk : List Nat)
    (h : Driver.specSkipped { o with allowMissing := true } i d (op :: ops) = some sk) :
    (i ∈ sk ↔ op.kind = .remove ∧
      ∃ path, parsePointer op.path = some path ∧ skipsRemove o d path = .ok true) := by
  have hge := specSkipped_ge (on o) (op :: ops) i d sk h
  rw [specSkipped_cons] at h
  cases hh : here (on o) d op with
  | none => simp [hh] at h
  | some b =>
    have hb : b = true ↔ op.kind = .remove ∧
        ∃ path, parsePointer op.path = some path ∧ skipsRemove o d path = .ok true := by
      unfold here at hh
      simp only [skipsRemove_congr (on o) o rfl] at hh
      split at hh
      · rename_i hk
        split at hh
        · rename_i t ts hp
          cases hs : skipsRemove o d (t :: ts) with
          | ok b' =>
            simp only [hs, Option.some.injEq] at hh
            subst hh
            constructor
            · intro hb; subst hb; exact ⟨hk, _, hp, hs⟩
            · rintro ⟨_, path, hp', hs'⟩
              rw [hp] at hp'; cases hp'
              rw [hs] at hs'; cases hs'; rfl
          | fail c => exact absurd hs (skipsRemove_ne_fail o d _ c)
          | unspec => simp [hs] at hh
        · simp at hh
      · rename_i hk
        simp only [Option.some.injEq] at hh
        subst hh
        simp [hk]
    rw [← hb]
    simp only [hh] at h
    cases hA : applyOp (on o) 0 0 d op with
    | unspec => simp [hA] at h
    | fail c =>
      simp only [hA, Option.some.injEq] at h
      subst h
      cases b <;> simp
    | ok p =>
      simp only [hA] at h
      cases hr : Driver.specSkipped (on o) (i + 1) p.1 ops with
      | none => simp [hr] at h
      | some r =>
        simp only [hr, Option.map_some, Option.some.injEq] at h
        subst h
        have hrge := specSkipped_ge (on o) ops (i + 1) p.1 r hr
        cases b
        · simp only [Bool.false_eq_true, if_false, iff_false]
          intro hm; have := hrge i hm; omega
        · simp

/-! ### the hypotheses are satisfiable -/

def doc0 : Value := .obj [(ascii "a", .num (ascii "1")), (ascii "l", .arr [.null])]

def ops0 : List Op :=
  [ { kind := .remove, path := ascii "/b" },          -- absent member: skipped
    { kind := .remove, path := ascii "/a" },          -- present: performed
    { kind := .remove, path := ascii "/x/y" },        -- absent ancestor: skipped
    { kind := .copy, path := ascii "/c", frm := ascii "/l" },
    { kind := .remove, path := ascii "/l/3" },        -- index beyond the end: skipped
    { kind := .remove, path := ascii "/l/0" } ]

example : Driver.specSkipped { ({} : Opts) with allowMissing := true } 0 doc0 ops0 = some [0, 2, 4] := by
  decide +kernel

example : (Driver.eraseIdxs ops0 [0, 2, 4]).map (·.path) = [ascii "/a", ascii "/c", ascii "/l/0"] := by
  decide +kernel

example : [0, 1, 2, 3, 4, 5].map (newIdx [0, 2, 4]) = [0, 0, 1, 1, 2, 2] := by decide

/-- hypotheses of `others_unchanged`, `skipped_is_identity` -/
example : parsePointer (ascii "/a") = some [ascii "a"] ∧ skipsRemove {} doc0 [ascii "a"] = .ok false :=
  ⟨by decide +kernel, by rfl⟩

example : parsePointer (ascii "/x/y") = some [ascii "x", ascii "y"]
    ∧ skipsRemove {} doc0 [ascii "x", ascii "y"] = .ok true :=
  ⟨by decide +kernel, by rfl⟩

end C13
end JP

-- #print axioms JP.C13.rewrite
-- #print axioms JP.C13.rewrite_nolimit
-- #print axioms JP.C13.rewrite_apply
-- #print axioms JP.C13.others_unchanged
-- #print axioms JP.C13.skipped_is_identity
-- #print axioms JP.C13.skipped_only_absent
-- #print axioms JP.C13.unskipped_succeeds
-- #print axioms JP.C13.specSkipped_head
