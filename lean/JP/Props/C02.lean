import JP.Lemmas.MergeImplTop

/-!
# C02 — `MergePatch` computes RFC 7396

All statements are for member names duplicate-free on both sides (`WF` for nodes, `noDup`
for raw messages); under that hypothesis the model computes the specification with *exact*
ordered equality, the `Value.eqv` forms are corollaries.

Counterexample without `noDup` (kept out of the theorems): for `c = {"a":1,"a":null}`
`den (pruneC c) = {"a":null}` but `Spec.merge null c.valueOf = {}` (`#eval` below).
-/

namespace JP
namespace C02
open Value Impl

/-- the recursive merge of a node with a raw patch *is* the specification (ordered equality),
and the result is well-formed again -/
theorem mergeNC_refines_eq (cur : Node) (p : Cst) (hc : WF cur = true) (hp : p.valueOf.noDup = true) :
    WF (mergeNC false cur p) = true ∧
    den (mergeNC false cur p) = Spec.merge (den cur) p.valueOf :=
  mergeNC_den p cur hc hp

/-- the requested form, modulo member order (`hn` is not needed) -/
theorem mergeNC_refines (cur : Node) (p : Cst) (hc : WF cur = true) (hp : p.valueOf.noDup = true)
    (_hn : p.isNullLit = false) :
    Value.eqv (den (mergeNC false cur p)) (Spec.merge (den cur) p.valueOf) = true ∧
    WF (mergeNC false cur p) = true := by
  have ⟨h1, h2⟩ := mergeNC_den p cur hc hp
  refine ⟨?_, h1⟩
  rw [← h2]
  exact eqv_refl_E _ (noDup_den _ h1)

/-- `mergeDocs` on a parsed object -/
theorem mergeDocsC_refines (keys : List Bytes) (ob : NMembers) (pms : List (Bytes × Cst))
    (hw : WF (.doc keys ob) = true) (hp : (Cst.obj pms).valueOf.noDup = true) :
    WF (.doc (mergeDocsC false keys ob pms).1 (mergeDocsC false keys ob pms).2) = true ∧
    den (.doc (mergeDocsC false keys ob pms).1 (mergeDocsC false keys ob pms).2) =
      .obj (Spec.mergeMs (denM ob) (Cst.valueOfM pms)) := by
  simp only [Cst.valueOf, noDup, Bool.and_eq_true] at hp
  have ⟨r1, r2⟩ := mergeDocsC_den pms keys ob hw hp.1 hp.2
  have ⟨a1, a2, _⟩ := (WF_doc_iff _ _).mp r1
  exact ⟨r1, by rw [den_doc_wf _ _ a1 a2, r2]⟩

/-- a new object value is stored with its own null members dropped, recursively through
objects (arrays inside are left untouched — exactly `MergePatch(null, c)`) -/
theorem pruneC_spec (c : Cst) (h : c.valueOf.noDup = true) :
    WF (pruneC c) = true ∧ den (pruneC c) = Spec.merge .null c.valueOf :=
  pruneC_den c h

/-- what the text layer has to provide for a result node `r` -/
def PrintSpec (c : Cst) : Prop := parseCst (Cst.print c) = some c
def CstOfSpec (r : Node) : Prop := (cstOf true r).valueOf = den r

/-- whole function on syntax trees: for a well-formed non-null document and any well-formed
patch (both duplicate-free) `doMergePatch false` succeeds; it returns either the patch text
itself (non-container patch; then the RFC result is the patch value) or the print of a
well-formed node whose value is the RFC result -/
theorem doMergePatch_refines (docData patchData : Bytes) (dc pc : Cst)
    (hvd : Scanner.valid docData = true) (hvp : Scanner.valid patchData = true)
    (hd : parseCst docData = some dc) (hp : parseCst patchData = some pc)
    (hnn : dc.isNullLit = false)
    (hdd : dc.valueOf.noDup = true) (hdp : pc.valueOf.noDup = true) :
    ∃ out, doMergePatch false docData patchData = .ok out ∧
      ((out = patchData ∧ pc.valueOf = Spec.merge dc.valueOf pc.valueOf) ∨
       (∃ r, out = Cst.print (cstOf true r) ∧ WF r = true ∧
          den r = Spec.merge dc.valueOf pc.valueOf)) := by
  rw [doMergePatch_eq docData patchData dc pc hvd hvp hd hp hnn]
  refine ⟨_, rfl, ?_⟩
  cases hpn : pc.isNullLit with
  | true =>
    left
    rw [(isNullLit_iff pc).mp hpn]
    exact ⟨by simp, by simp [Cst.valueOf, Cst.litValue, Spec.merge]⟩
  | false =>
    have := mergeTree_den dc pc hdd hdp
    cases hm : mergeTree dc pc with
    | none => rw [hm] at this; left; exact ⟨by simp, this⟩
    | some r => rw [hm] at this; right; exact ⟨r, by simp, this.1, this.2⟩

/-- with the text layer: the output parses to the RFC 7396 result -/
theorem mergePatch_value (docData patchData : Bytes) (dc pc : Cst)
    (hvd : Scanner.valid docData = true) (hvp : Scanner.valid patchData = true)
    (hd : parseCst docData = some dc) (hp : parseCst patchData = some pc)
    (hnn : dc.isNullLit = false)
    (hdd : dc.valueOf.noDup = true) (hdp : pc.valueOf.noDup = true)
    (htext : ∀ r, WF r = true → den r = Spec.merge dc.valueOf pc.valueOf →
      PrintSpec (cstOf true r) ∧ CstOfSpec r) :
    ∃ out, mergePatch docData patchData = .ok out ∧
      parseValueOf out = some (Spec.merge dc.valueOf pc.valueOf) := by
  obtain ⟨out, h1, h2⟩ := doMergePatch_refines docData patchData dc pc hvd hvp hd hp hnn hdd hdp
  refine ⟨out, h1, ?_⟩
  rcases h2 with ⟨e, hv⟩ | ⟨r, e, hw, hv⟩
  · rw [e]; simp only [parseValueOf, hp, Option.map_some]; rw [← hv]
  · have ⟨p1, p2⟩ := htext r hw hv
    rw [e]; simp only [parseValueOf]
    rw [p1]; simp only [Option.map_some]; rw [p2, hv]

/-- the error outcomes of `doMergePatch` -/
theorem doMergePatch_errors (mm : Bool) (docData patchData : Bytes) :
    (Scanner.valid docData = false → doMergePatch mm docData patchData = .err .badDoc) ∧
    (Scanner.valid docData = true → Scanner.valid patchData = false →
      doMergePatch mm docData patchData = .err .badPatch) ∧
    (∀ dc pc, Scanner.valid docData = true → Scanner.valid patchData = true →
      parseCst docData = some dc → parseCst patchData = some pc → dc.isNullLit = true →
      doMergePatch mm docData patchData = .err .badDoc) := by
  refine ⟨?_, ?_, ?_⟩
  · intro h; simp [doMergePatch, h]
  · intro h1 h2; simp [doMergePatch, h1, h2]
  · intro dc pc h1 h2 h3 h4 h5; simp [doMergePatch, h1, h2, h3, h4, h5]

/-! ### the hypotheses are satisfiable -/

/-- `{"a":{"b":1,"c":null},"d":[null],"e":2}` -/
def exDoc : Cst := .obj [(ascii "a", .obj [(ascii "b", .lit (ascii "1")), (ascii "c", .lit (ascii "null"))]),
  (ascii "d", .arr [.lit (ascii "null")]), (ascii "e", .lit (ascii "2"))]
/-- `{"a":{"b":null,"x":{"y":null,"z":3}},"e":null,"f":{"g":null}}` -/
def exPatch : Cst := .obj [(ascii "a", .obj [(ascii "b", .lit (ascii "null")),
    (ascii "x", .obj [(ascii "y", .lit (ascii "null")), (ascii "z", .lit (ascii "3"))])]),
  (ascii "e", .lit (ascii "null")), (ascii "f", .obj [(ascii "g", .lit (ascii "null"))])]

example : WF (.raw exDoc) = true ∧ exPatch.valueOf.noDup = true ∧ exPatch.isNullLit = false := by decide
example : WF (decodeDoc [(ascii "a", .lit (ascii "1"))]) = true ∧ (Cst.obj [(ascii "a", .lit (ascii "null"))]).valueOf.noDup = true := by decide
example : exPatch.valueOf.noDup = true := by decide
example : Scanner.valid (Cst.print exDoc) = true ∧ Scanner.valid (Cst.print exPatch) = true ∧
    parseCst (Cst.print exDoc) = some exDoc ∧ parseCst (Cst.print exPatch) = some exPatch ∧
    exDoc.isNullLit = false ∧ exDoc.valueOf.noDup = true :=
  ⟨by decide, by decide, rfl, rfl, by decide, by decide⟩
/-- and the result on the example is what one expects: `{"a":{"c":null,"x":{"z":3}},"d":[null],"f":{}}` -/
example : den (mergeNC false (.raw exDoc) exPatch) =
    .obj [(ascii "a", .obj [(ascii "c", .null), (ascii "x", .obj [(ascii "z", .num (ascii "3"))])]),
          (ascii "d", .arr [.null]), (ascii "f", .obj [])] := rfl

/-- the counterexample to `pruneC_spec` without `noDup`: `{"a":1,"a":null}` -/
def exDup : Cst := .obj [(ascii "a", .lit (ascii "1")), (ascii "a", .lit (ascii "null"))]
example : den (pruneC exDup) = .obj [(ascii "a", .null)] ∧ Spec.merge .null exDup.valueOf = .obj [] := ⟨rfl, rfl⟩

-- #print axioms mergeNC_refines_eq
-- #print axioms mergeNC_refines
-- #print axioms mergeDocsC_refines
-- #print axioms pruneC_spec
-- #print axioms doMergePatch_refines
-- #print axioms mergePatch_value
-- #print axioms doMergePatch_errors

end C02
end JP
