import JP.Driver
import JP.Impl.Den

/-! # Property C02 — theorems (see DESIGN.md §6) -/

namespace JP
namespace C02

end C02
end JP
