import JP.Generated.Bodies

/-!
# Source-text inventory, group `v5_patch`: regenerated digests = the digests of the text the model was written against

`JP/Generated/Bodies.lean` is rewritten from the Go sources on every run: one digest per function body (comments and
white space removed) and one per file for everything outside function bodies.  The literal below is the inventory of
the source text that the hand-written model, its correspondence runs and the seeded-change campaign were validated
against (written by bin/sync_bodies.py, reviewed as a diff).  ANY edit of these files breaks this obligation; that
decides nothing about behaviour — it makes the check search for a failing input and, when it finds none, report that
the property is no longer shown to hold for the changed text.
-/

namespace JP
namespace Facts

theorem bodies_v5_patch_eq : Generated.bodies_v5_patch =
    [("v5/patch.go:NewApplyOptions", "63f429273144"),
     ("v5/patch.go:newLazyNode", "95139ad1c24a"),
     ("v5/patch.go:newRawMessage", "f15a2972fad7"),
     ("v5/patch.go:lazyNode.RedirectMarshalJSON", "af856840a3a6"),
     ("v5/patch.go:lazyNode.UnmarshalJSON", "cb737f67a3cb"),
     ("v5/patch.go:partialDoc.TrustMarshalJSON", "0bd53ebeeec0"),
     ("v5/patch.go:syntaxError.Error", "f86f0b7afa21"),
     ("v5/patch.go:partialDoc.UnmarshalJSON", "b52d45e3a86f"),
     ("v5/patch.go:partialArray.UnmarshalJSON", "b2224aa71855"),
     ("v5/patch.go:partialArray.RedirectMarshalJSON", "e2091f6e28aa"),
     ("v5/patch.go:deepCopy", "961e176ac755"),
     ("v5/patch.go:lazyNode.nextByte", "dd64bf29e606"),
     ("v5/patch.go:lazyNode.intoDoc", "4b9cd77b7dac"),
     ("v5/patch.go:lazyNode.intoAry", "a31fa9f72a66"),
     ("v5/patch.go:lazyNode.compact", "0153098f857f"),
     ("v5/patch.go:lazyNode.tryDoc", "9a764b7b34e8"),
     ("v5/patch.go:lazyNode.tryAry", "8fa071f07fc2"),
     ("v5/patch.go:lazyNode.isNull", "76e2b63398fd"),
     ("v5/patch.go:lazyNode.equal", "d74e04d2181b"),
     ("v5/patch.go:Operation.Kind", "bf6b4e2f99f7"),
     ("v5/patch.go:Operation.Path", "afa3646e971a"),
     ("v5/patch.go:Operation.From", "99fc5091b0d3"),
     ("v5/patch.go:Operation.value", "f0526d81fc7c"),
     ("v5/patch.go:Operation.ValueInterface", "46857a555c7e"),
     ("v5/patch.go:isArray", "5d5f4b40962a"),
     ("v5/patch.go:findObject", "c03ac96f33d1"),
     ("v5/patch.go:partialDoc.set", "20e21f8a9fc7"),
     ("v5/patch.go:partialDoc.add", "19ab28e7f63a"),
     ("v5/patch.go:partialDoc.get", "8b26ef03b281"),
     ("v5/patch.go:partialDoc.remove", "d6d04784a938"),
     ("v5/patch.go:partialArray.set", "f17cf34f9729"),
     ("v5/patch.go:partialArray.add", "75679373c9c7"),
     ("v5/patch.go:partialArray.get", "187080dfd008"),
     ("v5/patch.go:partialArray.remove", "c81fd0841229"),
     ("v5/patch.go:Patch.add", "6f01be9f7ad9"),
     ("v5/patch.go:ensurePathExists", "5c7e5f97268a"),
     ("v5/patch.go:validateOperation", "f519f534bbf6"),
     ("v5/patch.go:validatePatch", "6f24e552f7c0"),
     ("v5/patch.go:Patch.remove", "2ce938bc72b1"),
     ("v5/patch.go:Patch.replace", "302767a61ecc"),
     ("v5/patch.go:Patch.move", "ca93c05befd0"),
     ("v5/patch.go:Patch.test", "fefcf072e0ea"),
     ("v5/patch.go:rootNode", "0ef4c90990c5"),
     ("v5/patch.go:Patch.copy", "e3f1f5fec9c6"),
     ("v5/patch.go:Equal", "699d4801a63b"),
     ("v5/patch.go:DecodePatch", "f3740b72f127"),
     ("v5/patch.go:Patch.Apply", "531e981b897a"),
     ("v5/patch.go:Patch.ApplyWithOptions", "870067ea939f"),
     ("v5/patch.go:Patch.ApplyIndent", "3afcfab2f6e1"),
     ("v5/patch.go:Patch.ApplyIndentWithOptions", "d43b8132fd75"),
     ("v5/patch.go:decodePatchKey", "8981b6f5fc35"),
     ("v5/patch.go:<declarations>", "60330180211f"),
     ("v5/errors.go:NewAccumulatedCopySizeError", "c9b63b7b07dd"),
     ("v5/errors.go:AccumulatedCopySizeError.Error", "433d13f49269"),
     ("v5/errors.go:NewArraySizeError", "c7758df27e0e"),
     ("v5/errors.go:ArraySizeError.Error", "d23318bafbf0"),
     ("v5/errors.go:<declarations>", "a981eeb1b872")] := rfl

end Facts
end JP
