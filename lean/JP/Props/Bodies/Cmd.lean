import JP.Generated.Bodies

/-!
# Source-text inventory, group `cmd`: regenerated digests = the digests of the text the model was written against

`JP/Generated/Bodies.lean` is rewritten from the Go sources on every run: one digest per function body (comments and
white space removed) and one per file for everything outside function bodies.  The literal below is the inventory of
the source text that the hand-written model, its correspondence runs and the seeded-change campaign were validated
against (written by bin/sync_bodies.py, reviewed as a diff).  ANY edit of these files breaks this obligation; that
decides nothing about behaviour — it makes the check search for a failing input and, when it finds none, report that
the property is no longer shown to hold for the changed text.
-/

namespace JP
namespace Facts

theorem bodies_cmd_eq : Generated.bodies_cmd =
    [("v5/cmd/json-patch/main.go:main", "b50bcab649a0"),
     ("v5/cmd/json-patch/main.go:<declarations>", "73c4f4cc73a4"),
     ("v5/cmd/json-patch/file_flag.go:FileFlag.UnmarshalFlag", "30b1a19e86ef"),
     ("v5/cmd/json-patch/file_flag.go:FileFlag.Path", "4dd81de125ef"),
     ("v5/cmd/json-patch/file_flag.go:<declarations>", "b1eb560943dc"),
     ("cmd/json-patch/main.go:main", "b50bcab649a0"),
     ("cmd/json-patch/main.go:<declarations>", "211ad3122e53"),
     ("cmd/json-patch/file_flag.go:FileFlag.UnmarshalFlag", "30b1a19e86ef"),
     ("cmd/json-patch/file_flag.go:FileFlag.Path", "4dd81de125ef"),
     ("cmd/json-patch/file_flag.go:<declarations>", "b1eb560943dc")] := rfl

end Facts
end JP
