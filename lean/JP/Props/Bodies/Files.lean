import JP.Generated.Bodies

/-! no non-test Go source file exists outside the inventoried groups (a new file is a change, too) -/

namespace JP
namespace Facts

theorem sourceFilesOutsideGroups_eq : Generated.sourceFilesOutsideGroups = ["v5/internal/json/fuzz.go"] := rfl

end Facts
end JP
