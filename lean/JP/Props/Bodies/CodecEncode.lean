import JP.Generated.Bodies

/-!
# Source-text inventory, group `codec_encode`: regenerated digests = the digests of the text the model was written against

`JP/Generated/Bodies.lean` is rewritten from the Go sources on every run: one digest per function body (comments and
white space removed) and one per file for everything outside function bodies.  The literal below is the inventory of
the source text that the hand-written model, its correspondence runs and the seeded-change campaign were validated
against (written by bin/sync_bodies.py, reviewed as a diff).  ANY edit of these files breaks this obligation; that
decides nothing about behaviour — it makes the check search for a failing input and, when it finds none, report that
the property is no longer shown to hold for the changed text.
-/

namespace JP
namespace Facts

theorem bodies_codec_encode_eq : Generated.bodies_codec_encode =
    [("v5/internal/json/encode.go:Marshal", "df2ca8d939d8"),
     ("v5/internal/json/encode.go:MarshalEscaped", "d6a4ac968522"),
     ("v5/internal/json/encode.go:MarshalIndent", "5e39ec776c2c"),
     ("v5/internal/json/encode.go:HTMLEscape", "117e69812b6d"),
     ("v5/internal/json/encode.go:UnsupportedTypeError.Error", "4f0ec73da4cd"),
     ("v5/internal/json/encode.go:UnsupportedValueError.Error", "a78d110545d6"),
     ("v5/internal/json/encode.go:InvalidUTF8Error.Error", "2ec5f69055d1"),
     ("v5/internal/json/encode.go:MarshalerError.Error", "0092add17633"),
     ("v5/internal/json/encode.go:MarshalerError.Unwrap", "142eb4148a51"),
     ("v5/internal/json/encode.go:newEncodeState", "b1dc99685b87"),
     ("v5/internal/json/encode.go:encodeState.marshal", "b43e95736fcf"),
     ("v5/internal/json/encode.go:encodeState.error", "e7e81110cdcd"),
     ("v5/internal/json/encode.go:isEmptyValue", "8d741de94663"),
     ("v5/internal/json/encode.go:encodeState.reflectValue", "70c130b7b6ac"),
     ("v5/internal/json/encode.go:valueEncoder", "a4711426cf66"),
     ("v5/internal/json/encode.go:typeEncoder", "36feffcdc282"),
     ("v5/internal/json/encode.go:newTypeEncoder", "69142368aedb"),
     ("v5/internal/json/encode.go:invalidValueEncoder", "3e28dbe556be"),
     ("v5/internal/json/encode.go:redirMarshalerEncoder", "fbf8b5b763d0"),
     ("v5/internal/json/encode.go:marshalerTrustEncoder", "f567fc426d86"),
     ("v5/internal/json/encode.go:marshalerEncoder", "5ce20608b8bf"),
     ("v5/internal/json/encode.go:addrMarshalerEncoder", "ea19e5180198"),
     ("v5/internal/json/encode.go:textMarshalerEncoder", "acb3a8c962a3"),
     ("v5/internal/json/encode.go:addrTextMarshalerEncoder", "b499a89321fa"),
     ("v5/internal/json/encode.go:boolEncoder", "5452907f62c6"),
     ("v5/internal/json/encode.go:intEncoder", "e95831c90820"),
     ("v5/internal/json/encode.go:uintEncoder", "1c4b63efe8bc"),
     ("v5/internal/json/encode.go:floatEncoder.encode", "f91d0de7f350"),
     ("v5/internal/json/encode.go:stringEncoder", "b1ffcea7613b"),
     ("v5/internal/json/encode.go:isValidNumber", "629f2171de21"),
     ("v5/internal/json/encode.go:interfaceEncoder", "7beae4e044cf"),
     ("v5/internal/json/encode.go:unsupportedTypeEncoder", "6b11ebb4dd03"),
     ("v5/internal/json/encode.go:structEncoder.encode", "998ca906b3b6"),
     ("v5/internal/json/encode.go:newStructEncoder", "c94da03c2c37"),
     ("v5/internal/json/encode.go:mapEncoder.encode", "07c4bd6411d5"),
     ("v5/internal/json/encode.go:newMapEncoder", "847b6394e2b3"),
     ("v5/internal/json/encode.go:encodeByteSlice", "536be3c19ee3"),
     ("v5/internal/json/encode.go:sliceEncoder.encode", "1b36f2cb39d0"),
     ("v5/internal/json/encode.go:newSliceEncoder", "e5b2552c9cdc"),
     ("v5/internal/json/encode.go:arrayEncoder.encode", "271594189c91"),
     ("v5/internal/json/encode.go:newArrayEncoder", "985711be8d1a"),
     ("v5/internal/json/encode.go:ptrEncoder.encode", "a09a49b0ce2c"),
     ("v5/internal/json/encode.go:newPtrEncoder", "c3945a94865c"),
     ("v5/internal/json/encode.go:condAddrEncoder.encode", "6c727b830a64"),
     ("v5/internal/json/encode.go:newCondAddrEncoder", "a844d36338b4"),
     ("v5/internal/json/encode.go:isValidTag", "a491ed2df802"),
     ("v5/internal/json/encode.go:typeByIndex", "389e4fedf794"),
     ("v5/internal/json/encode.go:reflectWithString.resolve", "986490278699"),
     ("v5/internal/json/encode.go:encodeState.string", "77be59fb3280"),
     ("v5/internal/json/encode.go:encodeState.stringBytes", "84ffdc8dd7bd"),
     ("v5/internal/json/encode.go:byIndex.Len", "e038f2dcd417"),
     ("v5/internal/json/encode.go:byIndex.Swap", "e6ccd3d9550f"),
     ("v5/internal/json/encode.go:byIndex.Less", "7124f23cdb9a"),
     ("v5/internal/json/encode.go:typeFields", "cdcaa1bffc0b"),
     ("v5/internal/json/encode.go:dominantField", "1070b798fdb6"),
     ("v5/internal/json/encode.go:cachedTypeFields", "7c800d232b96"),
     ("v5/internal/json/encode.go:<declarations>", "f3fe04c3e8ed")] := rfl

end Facts
end JP
