import JP.Generated.Bodies

/-!
# Source-text inventory, group `codec_indent`: regenerated digests = the digests of the text the model was written against

`JP/Generated/Bodies.lean` is rewritten from the Go sources on every run: one digest per function body (comments and
white space removed) and one per file for everything outside function bodies.  The literal below is the inventory of
the source text that the hand-written model, its correspondence runs and the seeded-change campaign were validated
against (written by bin/sync_bodies.py, reviewed as a diff).  ANY edit of these files breaks this obligation; that
decides nothing about behaviour — it makes the check search for a failing input and, when it finds none, report that
the property is no longer shown to hold for the changed text.
-/

namespace JP
namespace Facts

theorem bodies_codec_indent_eq : Generated.bodies_codec_indent =
    [("v5/internal/json/indent.go:Compact", "d1fe2e5a0476"),
     ("v5/internal/json/indent.go:compact", "00fa12c110ee"),
     ("v5/internal/json/indent.go:newline", "5da7678c2c20"),
     ("v5/internal/json/indent.go:Indent", "4cbd53dfa608"),
     ("v5/internal/json/indent.go:<declarations>", "d0fe2669cc4a")] := rfl

end Facts
end JP
