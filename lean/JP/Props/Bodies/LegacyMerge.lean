import JP.Generated.Bodies

/-!
# Source-text inventory, group `legacy_merge`: regenerated digests = the digests of the text the model was written against

`JP/Generated/Bodies.lean` is rewritten from the Go sources on every run: one digest per function body (comments and
white space removed) and one per file for everything outside function bodies.  The literal below is the inventory of
the source text that the hand-written model, its correspondence runs and the seeded-change campaign were validated
against (written by bin/sync_bodies.py, reviewed as a diff).  ANY edit of these files breaks this obligation; that
decides nothing about behaviour — it makes the check search for a failing input and, when it finds none, report that
the property is no longer shown to hold for the changed text.
-/

namespace JP
namespace Facts

theorem bodies_legacy_merge_eq : Generated.bodies_legacy_merge =
    [("merge.go:merge", "04091a556623"),
     ("merge.go:mergeDocs", "674ad8c0ea8c"),
     ("merge.go:pruneNulls", "c697040769a9"),
     ("merge.go:pruneDocNulls", "ea639f87a6d1"),
     ("merge.go:MergeMergePatches", "80e4c9b58d8f"),
     ("merge.go:MergePatch", "7bc5324394e0"),
     ("merge.go:doMergePatch", "6e5113587c2f"),
     ("merge.go:resemblesJSONArray", "9c33f650f32c"),
     ("merge.go:CreateMergePatch", "1ed38adbe54d"),
     ("merge.go:createObjectMergePatch", "bcdd6c512a84"),
     ("merge.go:createArrayMergePatch", "8fd96359535e"),
     ("merge.go:matchesArray", "a7cffdb65a04"),
     ("merge.go:matchesValue", "b6f78734ebd9"),
     ("merge.go:getDiff", "e19dd66d1bf8"),
     ("merge.go:<declarations>", "cc0ee992f077")] := rfl

end Facts
end JP
