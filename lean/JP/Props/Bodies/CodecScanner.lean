import JP.Generated.Bodies

/-!
# Source-text inventory, group `codec_scanner`: regenerated digests = the digests of the text the model was written against

`JP/Generated/Bodies.lean` is rewritten from the Go sources on every run: one digest per function body (comments and
white space removed) and one per file for everything outside function bodies.  The literal below is the inventory of
the source text that the hand-written model, its correspondence runs and the seeded-change campaign were validated
against (written by bin/sync_bodies.py, reviewed as a diff).  ANY edit of these files breaks this obligation; that
decides nothing about behaviour — it makes the check search for a failing input and, when it finds none, report that
the property is no longer shown to hold for the changed text.
-/

namespace JP
namespace Facts

theorem bodies_codec_scanner_eq : Generated.bodies_codec_scanner =
    [("v5/internal/json/scanner.go:Valid", "24d37a56a273"),
     ("v5/internal/json/scanner.go:checkValid", "56422070d67e"),
     ("v5/internal/json/scanner.go:SyntaxError.Error", "0934dfaba2c3"),
     ("v5/internal/json/scanner.go:newScanner", "3f39c013bdac"),
     ("v5/internal/json/scanner.go:freeScanner", "aca4af786cf3"),
     ("v5/internal/json/scanner.go:scanner.reset", "63763ffef272"),
     ("v5/internal/json/scanner.go:scanner.eof", "32226955968f"),
     ("v5/internal/json/scanner.go:scanner.pushParseState", "c3192a4b9253"),
     ("v5/internal/json/scanner.go:scanner.popParseState", "80ac1b10b3a0"),
     ("v5/internal/json/scanner.go:isSpace", "9f750ae4cda5"),
     ("v5/internal/json/scanner.go:stateBeginValueOrEmpty", "eb49af8f1bf0"),
     ("v5/internal/json/scanner.go:stateBeginValue", "309e0b854247"),
     ("v5/internal/json/scanner.go:stateBeginStringOrEmpty", "16d8bce54fa9"),
     ("v5/internal/json/scanner.go:stateBeginString", "9466e7a2d38c"),
     ("v5/internal/json/scanner.go:stateEndValue", "98a2dfb71730"),
     ("v5/internal/json/scanner.go:stateEndTop", "d366672f6a19"),
     ("v5/internal/json/scanner.go:stateInString", "fdebf61fb37b"),
     ("v5/internal/json/scanner.go:stateInStringEsc", "fa475e10e2ee"),
     ("v5/internal/json/scanner.go:stateInStringEscU", "7e1b3dad1d1e"),
     ("v5/internal/json/scanner.go:stateInStringEscU1", "410530bcfa9e"),
     ("v5/internal/json/scanner.go:stateInStringEscU12", "0d19bd5671cd"),
     ("v5/internal/json/scanner.go:stateInStringEscU123", "eb578adda326"),
     ("v5/internal/json/scanner.go:stateNeg", "21f4fc06831b"),
     ("v5/internal/json/scanner.go:state1", "46e0ae1a75c1"),
     ("v5/internal/json/scanner.go:state0", "ecdc63a374d4"),
     ("v5/internal/json/scanner.go:stateDot", "f5146f4fef6a"),
     ("v5/internal/json/scanner.go:stateDot0", "ec0d4f26e091"),
     ("v5/internal/json/scanner.go:stateE", "f585b15c05c2"),
     ("v5/internal/json/scanner.go:stateESign", "7022fd095f23"),
     ("v5/internal/json/scanner.go:stateE0", "20aa0a8676f7"),
     ("v5/internal/json/scanner.go:stateT", "e9908ff68acc"),
     ("v5/internal/json/scanner.go:stateTr", "8474255b5ee6"),
     ("v5/internal/json/scanner.go:stateTru", "28787e572018"),
     ("v5/internal/json/scanner.go:stateF", "681f465cb074"),
     ("v5/internal/json/scanner.go:stateFa", "802b80c632ab"),
     ("v5/internal/json/scanner.go:stateFal", "bf49932dee36"),
     ("v5/internal/json/scanner.go:stateFals", "c7d2dc00c110"),
     ("v5/internal/json/scanner.go:stateN", "4bcfe4ddc995"),
     ("v5/internal/json/scanner.go:stateNu", "e0c9ec65768e"),
     ("v5/internal/json/scanner.go:stateNul", "22e1560b7a3d"),
     ("v5/internal/json/scanner.go:stateError", "2e53ef4a4c21"),
     ("v5/internal/json/scanner.go:scanner.error", "ea3b3de4bbbd"),
     ("v5/internal/json/scanner.go:quoteChar", "f9181a2d60c9"),
     ("v5/internal/json/scanner.go:<declarations>", "b31a3c7f4d15")] := rfl

end Facts
end JP
