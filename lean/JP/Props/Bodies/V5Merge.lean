import JP.Generated.Bodies

/-!
# Source-text inventory, group `v5_merge`: regenerated digests = the digests of the text the model was written against

`JP/Generated/Bodies.lean` is rewritten from the Go sources on every run: one digest per function body (comments and
white space removed) and one per file for everything outside function bodies.  The literal below is the inventory of
the source text that the hand-written model, its correspondence runs and the seeded-change campaign were validated
against (written by bin/sync_bodies.py, reviewed as a diff).  ANY edit of these files breaks this obligation; that
decides nothing about behaviour — it makes the check search for a failing input and, when it finds none, report that
the property is no longer shown to hold for the changed text.
-/

namespace JP
namespace Facts

theorem bodies_v5_merge_eq : Generated.bodies_v5_merge =
    [("v5/merge.go:merge", "296f33664faf"),
     ("v5/merge.go:mergeDocs", "f257412f89e2"),
     ("v5/merge.go:pruneNulls", "ac681804aa69"),
     ("v5/merge.go:pruneDocNulls", "5dbb5e1b4d24"),
     ("v5/merge.go:MergeMergePatches", "80e4c9b58d8f"),
     ("v5/merge.go:MergePatch", "7bc5324394e0"),
     ("v5/merge.go:doMergePatch", "e30a725b8d1c"),
     ("v5/merge.go:isSyntaxError", "29d7d970c136"),
     ("v5/merge.go:resemblesJSONArray", "9c33f650f32c"),
     ("v5/merge.go:CreateMergePatch", "6ce44b3bce38"),
     ("v5/merge.go:createObjectMergePatch", "d228ce416d17"),
     ("v5/merge.go:unmarshal", "5161c3e82e5b"),
     ("v5/merge.go:createArrayMergePatch", "b172b31e6e5d"),
     ("v5/merge.go:matchesArray", "a7cffdb65a04"),
     ("v5/merge.go:matchesValue", "0e0c5afc43e4"),
     ("v5/merge.go:getDiff", "387183b75464"),
     ("v5/merge.go:<declarations>", "7c60810a9fc8")] := rfl

end Facts
end JP
