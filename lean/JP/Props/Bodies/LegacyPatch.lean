import JP.Generated.Bodies

/-!
# Source-text inventory, group `legacy_patch`: regenerated digests = the digests of the text the model was written against

`JP/Generated/Bodies.lean` is rewritten from the Go sources on every run: one digest per function body (comments and
white space removed) and one per file for everything outside function bodies.  The literal below is the inventory of
the source text that the hand-written model, its correspondence runs and the seeded-change campaign were validated
against (written by bin/sync_bodies.py, reviewed as a diff).  ANY edit of these files breaks this obligation; that
decides nothing about behaviour — it makes the check search for a failing input and, when it finds none, report that
the property is no longer shown to hold for the changed text.
-/

namespace JP
namespace Facts

theorem bodies_legacy_patch_eq : Generated.bodies_legacy_patch =
    [("patch.go:newLazyNode", "95139ad1c24a"),
     ("patch.go:lazyNode.MarshalJSON", "35fed85f8507"),
     ("patch.go:lazyNode.UnmarshalJSON", "cb737f67a3cb"),
     ("patch.go:deepCopy", "7718984af43a"),
     ("patch.go:lazyNode.intoDoc", "fc1cf8f47f55"),
     ("patch.go:lazyNode.intoAry", "670ebbd30021"),
     ("patch.go:lazyNode.compact", "0153098f857f"),
     ("patch.go:lazyNode.tryDoc", "52d56587004b"),
     ("patch.go:lazyNode.tryAry", "05e22342c934"),
     ("patch.go:lazyNode.isNull", "8f1d7baffbcf"),
     ("patch.go:lazyNode.equal", "0f26bd7cc57e"),
     ("patch.go:Operation.Kind", "a82cbf22a9fc"),
     ("patch.go:Operation.Path", "7abe63efcbe1"),
     ("patch.go:Operation.From", "6376481c0e3d"),
     ("patch.go:Operation.value", "3f5e31c4417e"),
     ("patch.go:Operation.ValueInterface", "449230ca7e7f"),
     ("patch.go:isArray", "5d5f4b40962a"),
     ("patch.go:findObject", "7ea9f08a0b9d"),
     ("patch.go:partialDoc.set", "67ef20b8a4b7"),
     ("patch.go:partialDoc.add", "2a55fe08d227"),
     ("patch.go:partialDoc.get", "f23809b705f3"),
     ("patch.go:partialDoc.remove", "f2662cd1e868"),
     ("patch.go:partialArray.set", "46f45ee888e3"),
     ("patch.go:partialArray.add", "907fde0e4f62"),
     ("patch.go:partialArray.get", "7ed2dfbd11be"),
     ("patch.go:partialArray.remove", "c2275ae468b4"),
     ("patch.go:Patch.add", "943d1b39fe89"),
     ("patch.go:Patch.remove", "b2a563e00a0a"),
     ("patch.go:Patch.replace", "760df74cb0ec"),
     ("patch.go:Patch.move", "07acbe169498"),
     ("patch.go:Patch.test", "c08f754bbc6f"),
     ("patch.go:Patch.copy", "fac89088f11a"),
     ("patch.go:Equal", "2003ed408316"),
     ("patch.go:DecodePatch", "5a27b890a929"),
     ("patch.go:Patch.Apply", "ccb1f4d441d2"),
     ("patch.go:Patch.ApplyIndent", "929801a0febc"),
     ("patch.go:decodePatchKey", "8981b6f5fc35"),
     ("patch.go:<declarations>", "4031d303e9e7"),
     ("errors.go:NewAccumulatedCopySizeError", "c9b63b7b07dd"),
     ("errors.go:AccumulatedCopySizeError.Error", "433d13f49269"),
     ("errors.go:NewArraySizeError", "c7758df27e0e"),
     ("errors.go:ArraySizeError.Error", "d23318bafbf0"),
     ("errors.go:<declarations>", "a981eeb1b872")] := rfl

end Facts
end JP
