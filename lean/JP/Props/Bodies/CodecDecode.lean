import JP.Generated.Bodies

/-!
# Source-text inventory, group `codec_decode`: regenerated digests = the digests of the text the model was written against

`JP/Generated/Bodies.lean` is rewritten from the Go sources on every run: one digest per function body (comments and
white space removed) and one per file for everything outside function bodies.  The literal below is the inventory of
the source text that the hand-written model, its correspondence runs and the seeded-change campaign were validated
against (written by bin/sync_bodies.py, reviewed as a diff).  ANY edit of these files breaks this obligation; that
decides nothing about behaviour — it makes the check search for a failing input and, when it finds none, report that
the property is no longer shown to hold for the changed text.
-/

namespace JP
namespace Facts

theorem bodies_codec_decode_eq : Generated.bodies_codec_decode =
    [("v5/internal/json/decode.go:Unmarshal", "47fa13c2e246"),
     ("v5/internal/json/decode.go:UnmarshalWithKeys", "6056dd269324"),
     ("v5/internal/json/decode.go:UnmarshalValid", "43b70265060e"),
     ("v5/internal/json/decode.go:UnmarshalValidWithKeys", "bc9086dbcfbb"),
     ("v5/internal/json/decode.go:UnmarshalTypeError.Error", "20a535c1dd65"),
     ("v5/internal/json/decode.go:UnmarshalFieldError.Error", "68a2dbea1b1a"),
     ("v5/internal/json/decode.go:InvalidUnmarshalError.Error", "f664603fdff5"),
     ("v5/internal/json/decode.go:decodeState.unmarshal", "f9a4ef0341c4"),
     ("v5/internal/json/decode.go:Number.String", "cb5fb29ea45a"),
     ("v5/internal/json/decode.go:Number.Float64", "80acd5bcc659"),
     ("v5/internal/json/decode.go:Number.Int64", "1e288d40e153"),
     ("v5/internal/json/decode.go:decodeState.readIndex", "797e0e920b48"),
     ("v5/internal/json/decode.go:decodeState.init", "1629f79e5a56"),
     ("v5/internal/json/decode.go:decodeState.saveError", "a82ac4564547"),
     ("v5/internal/json/decode.go:decodeState.addErrorContext", "b23f01c857d6"),
     ("v5/internal/json/decode.go:decodeState.skip", "bc54d504ce6a"),
     ("v5/internal/json/decode.go:decodeState.scanNext", "34c6beae4f0d"),
     ("v5/internal/json/decode.go:decodeState.scanWhile", "1753da3ee314"),
     ("v5/internal/json/decode.go:decodeState.rescanLiteral", "88a87d49045f"),
     ("v5/internal/json/decode.go:decodeState.value", "22f29b8e8810"),
     ("v5/internal/json/decode.go:decodeState.valueQuoted", "e586508104ca"),
     ("v5/internal/json/decode.go:indirect", "ac23acaa8d8a"),
     ("v5/internal/json/decode.go:decodeState.array", "2ad068b55c81"),
     ("v5/internal/json/decode.go:decodeState.object", "f5e8b5f10f15"),
     ("v5/internal/json/decode.go:decodeState.convertNumber", "bf3169d0d054"),
     ("v5/internal/json/decode.go:decodeState.literalStore", "7f48a5064515"),
     ("v5/internal/json/decode.go:decodeState.valueInterface", "59d12627796b"),
     ("v5/internal/json/decode.go:decodeState.arrayInterface", "5224b58de131"),
     ("v5/internal/json/decode.go:decodeState.objectInterface", "22ad018c4c21"),
     ("v5/internal/json/decode.go:decodeState.literalInterface", "b7e6b5b7cd21"),
     ("v5/internal/json/decode.go:getu4", "c924d6a1e74e"),
     ("v5/internal/json/decode.go:unquote", "597c80bf37ed"),
     ("v5/internal/json/decode.go:unquoteBytes", "ac8c8c2dfc8b"),
     ("v5/internal/json/decode.go:<declarations>", "0ba8bdb60fa9")] := rfl

end Facts
end JP
