import JP.Generated.Bodies

/-!
# Source-text inventory, group `codec_other`: regenerated digests = the digests of the text the model was written against

`JP/Generated/Bodies.lean` is rewritten from the Go sources on every run: one digest per function body (comments and
white space removed) and one per file for everything outside function bodies.  The literal below is the inventory of
the source text that the hand-written model, its correspondence runs and the seeded-change campaign were validated
against (written by bin/sync_bodies.py, reviewed as a diff).  ANY edit of these files breaks this obligation; that
decides nothing about behaviour — it makes the check search for a failing input and, when it finds none, report that
the property is no longer shown to hold for the changed text.
-/

namespace JP
namespace Facts

theorem bodies_codec_other_eq : Generated.bodies_codec_other =
    [("v5/internal/json/fold.go:foldFunc", "94475491fc7a"),
     ("v5/internal/json/fold.go:equalFoldRight", "1f6b3ea7705f"),
     ("v5/internal/json/fold.go:asciiEqualFold", "360040de5a29"),
     ("v5/internal/json/fold.go:simpleLetterEqualFold", "d7651e9c0eba"),
     ("v5/internal/json/fold.go:<declarations>", "30eb157428ad"),
     ("v5/internal/json/tags.go:parseTag", "453ab712badb"),
     ("v5/internal/json/tags.go:tagOptions.Contains", "7bcb725b4f3a"),
     ("v5/internal/json/tags.go:<declarations>", "54a182f97c12"),
     ("v5/internal/json/tables.go:<declarations>", "acdc3a7fb6b6")] := rfl

end Facts
end JP
