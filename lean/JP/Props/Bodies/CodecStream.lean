import JP.Generated.Bodies

/-!
# Source-text inventory, group `codec_stream`: regenerated digests = the digests of the text the model was written against

`JP/Generated/Bodies.lean` is rewritten from the Go sources on every run: one digest per function body (comments and
white space removed) and one per file for everything outside function bodies.  The literal below is the inventory of
the source text that the hand-written model, its correspondence runs and the seeded-change campaign were validated
against (written by bin/sync_bodies.py, reviewed as a diff).  ANY edit of these files breaks this obligation; that
decides nothing about behaviour — it makes the check search for a failing input and, when it finds none, report that
the property is no longer shown to hold for the changed text.
-/

namespace JP
namespace Facts

theorem bodies_codec_stream_eq : Generated.bodies_codec_stream =
    [("v5/internal/json/stream.go:NewDecoder", "8a80a7d64270"),
     ("v5/internal/json/stream.go:Decoder.UseNumber", "acdf01f8605a"),
     ("v5/internal/json/stream.go:Decoder.DisallowUnknownFields", "4cf0567cbd0f"),
     ("v5/internal/json/stream.go:Decoder.Decode", "d313f80ce8b9"),
     ("v5/internal/json/stream.go:Decoder.Buffered", "056adb5e87f3"),
     ("v5/internal/json/stream.go:Decoder.readValue", "f2c6f221c7d7"),
     ("v5/internal/json/stream.go:Decoder.refill", "0fe504065f8e"),
     ("v5/internal/json/stream.go:nonSpace", "104b0ed9c5aa"),
     ("v5/internal/json/stream.go:NewEncoder", "69f18edc20c5"),
     ("v5/internal/json/stream.go:Encoder.Encode", "e548af3fd1ae"),
     ("v5/internal/json/stream.go:Encoder.SetIndent", "f6913fd6ce50"),
     ("v5/internal/json/stream.go:Encoder.SetEscapeHTML", "e3f9a9242a50"),
     ("v5/internal/json/stream.go:Decoder.tokenPrepareForDecode", "e66c258bfd85"),
     ("v5/internal/json/stream.go:Decoder.tokenValueAllowed", "6acecd86682d"),
     ("v5/internal/json/stream.go:Decoder.tokenValueEnd", "0af8fdba9e5e"),
     ("v5/internal/json/stream.go:Delim.String", "c5225abed4ec"),
     ("v5/internal/json/stream.go:Decoder.Token", "853d3c9a7658"),
     ("v5/internal/json/stream.go:Decoder.tokenError", "cdfbb8146d3b"),
     ("v5/internal/json/stream.go:Decoder.More", "f89da437efe2"),
     ("v5/internal/json/stream.go:Decoder.peek", "3a6f4be6ad4e"),
     ("v5/internal/json/stream.go:Decoder.InputOffset", "eb647609a00e"),
     ("v5/internal/json/stream.go:<declarations>", "e2e680805452")] := rfl

end Facts
end JP
