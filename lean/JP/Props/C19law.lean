import JP.Lemmas.LegacyComposeLaw
import JP.Props.C07spec

/-!
# C19, the specification-level half of the composition law

`JP.C19.composition_law` (`JP/Props/C19.lean`) derives the composition law for the legacy
`MergeMergePatches` from the hypothesis `Legacy.ComposeLaw`; here that hypothesis is proved (it is
`JP.C07.compose_law_strong`).  The two files build on lemma families that declare the same names
and cannot be imported together, hence the split.
-/

namespace JP
namespace C19

theorem composeLaw_holds : Legacy.ComposeLaw :=
  fun _ _ _ h1 h2 hd hc => JP.C07.compose_law_strong h1 h2 hd hc

end C19
end JP

-- #print axioms JP.C19.composeLaw_holds
