import JP.Lemmas.EqvLaws

/-!
# C06 (specification level): `Value.eqv` is an equivalence relation on duplicate-free values

`eqv_refl`, `eqv_symm` and `beq_imp_eqv` need the `noDup` hypotheses (counterexamples below);
`eqv_trans` holds for all values, so its `noDup` hypotheses are dropped.
-/

namespace JP.C06
open JP Value

theorem eqv_refl (v : Value) (h : v.noDup = true) : Value.eqv v v = true :=
  Value.eqv_refl v h

theorem eqv_symm (a b : Value) (ha : a.noDup = true) (hb : b.noDup = true) :
    Value.eqv a b = Value.eqv b a :=
  Value.eqv_symm a b ha hb

/-- transitivity needs no duplicate-freeness at all -/
theorem eqv_trans (a b c : Value) :
    Value.eqv a b = true → Value.eqv b c = true → Value.eqv a c = true :=
  Value.eqv_trans a b c

theorem null_only_null (v : Value) : Value.eqv .null v = true ↔ v = .null :=
  Value.eqv_null_left v

theorem null_only_null' (v : Value) : Value.eqv v .null = true ↔ v = .null :=
  Value.eqv_null_right v

/-- exact equality is equality -/
theorem beq_imp_eq (a b : Value) : Value.beq a b = true → a = b :=
  Value.eq_of_beq a b

theorem beq_imp_eqv (a b : Value) (ha : a.noDup = true) : Value.beq a b = true → Value.eqv a b = true := by
  intro h
  rw [← Value.eq_of_beq a b h]
  exact Value.eqv_refl a ha

/-! ### the hypotheses are satisfiable, and needed -/

private def k1 : Bytes := ascii "a"
private def k2 : Bytes := ascii "b"
private def one : Value := .num (ascii "1")
private def two : Value := .num (ascii "2")
private def o12 : Value := .obj [(k1, one), (k2, .arr [two, .obj [(k1, .null)]])]
private def o21 : Value := .obj [(k2, .arr [two, .obj [(k1, .null)]]), (k1, one)]
private def dup : Value := .obj [(k1, one), (k1, two)]

example : o12.noDup = true ∧ Value.eqv o12 o12 = true := by decide
example : o12.noDup = true ∧ o21.noDup = true ∧ Value.eqv o12 o21 = true ∧ Value.eqv o21 o12 = true := by decide
example : Value.eqv o12 o21 = true ∧ Value.eqv o21 o12 = true ∧ Value.eqv o12 o12 = true := by decide
example : Value.eqv .null .null = true ∧ Value.eqv .null (.bool false) = false := by decide
example : o12.noDup = true ∧ Value.beq o12 o12 = true ∧ Value.beq o12 o21 = false := by decide

/-- `eqv_refl` fails on a repeated name: the second member is compared with the first -/
example : dup.noDup = false ∧ Value.eqv dup dup = false := by decide
/-- `eqv_symm` fails if either side has a repeated name -/
example : Value.eqv dup (.obj [(k1, one)]) = false ∧ Value.eqv (.obj [(k1, one)]) dup = true := by decide
/-- `beq_imp_eqv` fails on a repeated name -/
example : Value.beq dup dup = true ∧ Value.eqv dup dup = false := by decide

-- #print axioms eqv_refl
-- #print axioms eqv_symm
-- #print axioms eqv_trans
-- #print axioms null_only_null
-- #print axioms null_only_null'
-- #print axioms beq_imp_eqv

end JP.C06
