import JP.Lemmas.CloseMergeCreateTop
import JP.Props.C03spec
import JP.Props.C02bytes

/-!
# C03 (implementation side) — `CreateMergePatch` computes `Spec.diff`

The model of `CreateMergePatch` works on values normalised by `anyOf` (what `Unmarshal` into
`map[string]any` + `Marshal` do: members de-duplicated, sorted by name) and produces a sorted
patch.  For duplicate-free inputs that patch is `Spec.diff` up to member order
(`getDiff_refines`); at byte level the output text parses back to it (`create_refines`), and the
library's own `MergePatch` applied to it reproduces the target (`create_roundtrip_bytes`).

No UTF-8 / number hypotheses are needed on parsed texts: decoded strings are always valid UTF-8
(`isValidUtf8_unquote`) and parsed number literals are complete numbers (`parseCst_sound`).
-/

namespace JP
namespace C03
open Value Impl

/-! ### values -/

/-- normalisation keeps a duplicate-free value up to member order, and the result is
hereditarily name-sorted, hence duplicate-free -/
theorem anyOf_eqv (v : Value) (h : v.noDup = true) :
    Value.eqv (anyOf v) v = true ∧ Norm (anyOf v) = true ∧ (anyOf v).noDup = true :=
  ⟨eqv_anyOf v h, Norm_anyOf v, noDup_anyOf v⟩

/-- `matchesValue` decides structural equality on duplicate-free values -/
theorem matchesValue_eqv (x y : Value) (hx : x.noDup = true) (hy : y.noDup = true) :
    matchesValue x y = Value.eqv x y :=
  matches_eqv x y hx hy

/-- **the model's diff on normalised values is the specification's diff, up to member order** -/
theorem getDiff_refines (A B : Members) (hA : (Value.obj A).noDup = true) (hB : (Value.obj B).noDup = true) :
    Value.eqv (.obj (getDiff (anyOfM A []) (anyOfM B []))) (.obj (Spec.diff A B)) = true :=
  getDiff_refines_aux A B hA hB

/-- the produced patch is name-sorted at every level, hence duplicate-free (no hypothesis) -/
theorem getDiff_normal (A B : Members) :
    Norm (.obj (getDiff (anyOfM A []) (anyOfM B []))) = true ∧
    (Value.obj (getDiff (anyOfM A []) (anyOfM B []))).noDup = true :=
  ⟨Norm_getDiff _ _ (Norm_anyOfM A) (Norm_anyOfM B), noDup_getDiff_anyOf A B⟩

/-! ### texts with object roots -/

theorem parse_obj {a : Bytes} {A : Members} (ha : parseValueOf a = some (.obj A)) :
    ∃ ams, parseCst a = some (.obj ams) ∧ Cst.valueOfM ams = A := by
  unfold parseValueOf at ha
  cases hc : parseCst a with
  | none => simp [hc] at ha
  | some ca =>
    simp only [hc, Option.map_some, Option.some.injEq] at ha
    cases ca with
    | lit s => exact absurd ha ((litValue_not_container s).2.2 A)
    | str s => simp [Cst.valueOf] at ha
    | arr xs => simp [Cst.valueOf] at ha
    | obj ams =>
      simp only [Cst.valueOf, Value.obj.injEq] at ha
      exact ⟨ams, rfl, ha⟩

/-- on two texts with object roots `CreateMergePatch` succeeds and its output parses to the
model's diff of the two normalised objects (no duplicate-freeness needed) -/
theorem create_value (a b : Bytes) (A B : Members)
    (ha : parseValueOf a = some (.obj A)) (hb : parseValueOf b = some (.obj B)) :
    ∃ out, createMergePatch a b = .ok out ∧
      parseValueOf out = some (.obj (getDiff (anyOfM A []) (anyOfM B []))) := by
  obtain ⟨ams, pa, rfl⟩ := parse_obj ha
  obtain ⟨bms, pb, rfl⟩ := parse_obj hb
  have hco : createObject (.obj ams) (.obj bms) =
      .ok (.obj (getDiff (anyOfM (Cst.valueOfM ams) []) (anyOfM (Cst.valueOfM bms) []))) := by
    rw [createObject_eq]; rfl
  rw [createMergePatch_nonarr a b _ _ pa pb rfl rfl, hco]
  refine ⟨_, rfl, ?_⟩
  exact parse_print_marshal_GV true _
    (GV_createObject maxDepth _ _ _ (by decide) (GC_of_parse a _ pa) (GC_of_parse b _ pb) hco)

/-- **`CreateMergePatch` on texts.**  Object roots, duplicate-free names: the output is a JSON
text denoting `Spec.diff` up to member order -/
theorem create_refines (a b : Bytes) (A B : Members)
    (ha : parseValueOf a = some (.obj A)) (hb : parseValueOf b = some (.obj B))
    (hA : (Value.obj A).noDup = true) (hB : (Value.obj B).noDup = true) :
    ∃ out v, createMergePatch a b = .ok out ∧ parseValueOf out = some v ∧
      Value.eqv v (.obj (Spec.diff A B)) = true ∧ v.noDup = true := by
  obtain ⟨out, h1, h2⟩ := create_value a b A B ha hb
  exact ⟨out, _, h1, h2, getDiff_refines A B hA hB, noDup_getDiff_anyOf A B⟩

/-! ### round trip through the library's own `MergePatch` -/

/-- **round trip at byte level**: applying the produced patch to the original with `MergePatch`
gives the target up to member order, provided the target has no null member reachable through
objects (RFC 7396 cannot express those) -/
theorem create_roundtrip_strong (a b : Bytes) (A B : Members)
    (ha : parseValueOf a = some (.obj A)) (hb : parseValueOf b = some (.obj B))
    (hA : (Value.obj A).noDup = true) (hB : (Value.obj B).noDup = true)
    (hnull : Spec.hasNullO (.obj B) = false) :
    ∃ patch out v, createMergePatch a b = .ok patch ∧ mergePatch a patch = .ok out ∧
      parseValueOf out = some v ∧ Value.eqv v (.obj B) = true := by
  obtain ⟨patch, h1, h2⟩ := create_value a b A B ha hb
  obtain ⟨ams, pa, hams⟩ := parse_obj ha
  obtain ⟨pms, pp, hpms⟩ := parse_obj h2
  have hdp : (Cst.obj pms).valueOf.noDup = true := by
    simp only [Cst.valueOf, hpms]; exact noDup_getDiff_anyOf A B
  have hdd : (Cst.obj ams).valueOf.noDup = true := by simp only [Cst.valueOf, hams]; exact hA
  obtain ⟨out, m1, m2⟩ := C02.mergePatch_bytes a patch _ _ pa pp rfl hdd hdp
  refine ⟨patch, out, _, h1, m1, m2, ?_⟩
  simp only [Cst.valueOf, hams, hpms]
  refine Value.eqv_trans _ _ _ ?_ (roundtrip_strong hA hB hnull)
  exact merge_congr_patch _ _ _ hA (diff_noDup hA hB) (noDup_getDiff_anyOf A B) (getDiff_refines A B hA hB)

theorem create_roundtrip_bytes (a b : Bytes) (A B : Members)
    (ha : parseValueOf a = some (.obj A)) (hb : parseValueOf b = some (.obj B))
    (hA : (Value.obj A).noDup = true) (hB : (Value.obj B).noDup = true)
    (hnull : (Value.obj B).hasNullMember = false) :
    ∃ patch out v, createMergePatch a b = .ok patch ∧ mergePatch a patch = .ok out ∧
      parseValueOf out = some v ∧ Value.eqv v (.obj B) = true :=
  create_roundtrip_strong a b A B ha hb hA hB (Spec.hasNullO_le _ hnull)

/-! ### arrays: element-wise -/

theorem parse_arr {a : Bytes} {xs : List Value} (ha : parseValueOf a = some (.arr xs)) :
    ∃ cs, parseCst a = some (.arr cs) ∧ Cst.valueOfL cs = xs := by
  unfold parseValueOf at ha
  cases hc : parseCst a with
  | none => simp [hc] at ha
  | some ca =>
    simp only [hc, Option.map_some, Option.some.injEq] at ha
    cases ca with
    | lit s => exact absurd ha ((litValue_not_container s).2.1 xs)
    | str s => simp [Cst.valueOf] at ha
    | obj ms => simp [Cst.valueOf] at ha
    | arr cs =>
      simp only [Cst.valueOf, Value.arr.injEq] at ha
      exact ⟨cs, rfl, ha⟩

theorem eqvL_zipWith : ∀ (As Bs : List Members), As.length = Bs.length →
    (∀ A ∈ As, (Value.obj A).noDup = true) → (∀ B ∈ Bs, (Value.obj B).noDup = true) →
    Value.eqvL (List.zipWith (fun A B => Value.obj (getDiff (anyOfM A []) (anyOfM B []))) As Bs)
      (List.zipWith (fun A B => Value.obj (Spec.diff A B)) As Bs) = true
  | [], [], _, _, _ => rfl
  | [], _ :: _, h, _, _ => by simp at h
  | _ :: _, [], h, _, _ => by simp at h
  | A :: As, B :: Bs, h, hA, hB => by
    simp only [List.zipWith_cons_cons, Value.eqvL, Bool.and_eq_true]
    exact ⟨getDiff_refines A B (hA A (List.mem_cons_self ..)) (hB B (List.mem_cons_self ..)),
      eqvL_zipWith As Bs (by simpa using h) (fun X hX => hA X (List.mem_cons_of_mem _ hX))
        (fun X hX => hB X (List.mem_cons_of_mem _ hX))⟩

/-- two arrays of objects of equal length: the output is the array of the element-wise diffs -/
theorem create_array_refines (a b : Bytes) (As Bs : List Members)
    (ha : parseValueOf a = some (.arr (As.map Value.obj)))
    (hb : parseValueOf b = some (.arr (Bs.map Value.obj)))
    (hlen : As.length = Bs.length)
    (hA : ∀ A ∈ As, (Value.obj A).noDup = true) (hB : ∀ B ∈ Bs, (Value.obj B).noDup = true) :
    ∃ out vs, createMergePatch a b = .ok out ∧ parseValueOf out = some (.arr vs) ∧
      Value.eqvL vs (List.zipWith (fun A B => Value.obj (Spec.diff A B)) As Bs) = true := by
  obtain ⟨xs, pa, hx⟩ := parse_arr ha
  obtain ⟨ys, pb, hy⟩ := parse_arr hb
  have hl : xs.length = ys.length := by
    have e1 : xs.length = As.length := by
      have := congrArg List.length hx; rw [length_valueOfL] at this; simpa using this
    have e2 : ys.length = Bs.length := by
      have := congrArg List.length hy; rw [length_valueOfL] at this; simpa using this
    omega
  have hc := createArray_objs xs ys As Bs hx hy hlen
  rw [createMergePatch_arr a b xs ys pa pb, if_neg (by simpa using hl), hc]
  refine ⟨_, _, rfl, ?_, eqvL_zipWith As Bs hlen hA hB⟩
  simp only [marshalAny_arr]
  apply parse_print_marshal_GV
  rw [GV_arr]
  refine ⟨by decide, createArray_ok_GV _ xs ys _ (by decide) ?_ ?_ hc⟩
  · exact ((GC_arr _ xs).1 (GC_of_parse a _ pa)).2
  · exact ((GC_arr _ ys).1 (GC_of_parse b _ pb)).2

/-! ### rejections -/

/-- the roots `CreateMergePatch` accepts: two objects, or two arrays of equal length whose
elements are all objects.  Everything else — `null` included, at the root or as an array element —
is an error; the model never panics here. -/
theorem create_rejects (a b : Bytes) :
    ((parseCst a = none ∨ parseCst b = none) → createMergePatch a b = .err .badDoc) ∧
    (∀ ca cb, parseCst a = some ca → parseCst b = some cb →
      (ca.isArr ≠ cb.isArr → createMergePatch a b = .err .badMergeTypes) ∧
      (ca.isArr = false → cb.isArr = false → (ca.isObj = false ∨ cb.isObj = false) →
        createMergePatch a b = .err .badDoc) ∧
      (∀ xs ys, ca = .arr xs → cb = .arr ys →
        (xs.length ≠ ys.length → createMergePatch a b = .err .badDoc) ∧
        (xs.length = ys.length → ((∃ x ∈ xs, x.isObj = false) ∨ (∃ y ∈ ys, y.isObj = false)) →
          createMergePatch a b = .err .badDoc))) := by
  refine ⟨createMergePatch_malformed a b, ?_⟩
  intro ca cb pa pb
  refine ⟨createMergePatch_mixed a b ca cb pa pb, ?_, ?_⟩
  · intro na nb hbad
    rw [createMergePatch_nonarr a b ca cb pa pb na nb]
    rcases createObject_err ca cb with ⟨v, hv⟩ | he
    · have := (createObject_ok_iff ca cb).1 ⟨v, hv⟩
      simp only [okRoot] at this
      rcases hbad with h | h
      · rw [this.1] at h; cases h
      · rw [this.2] at h; cases h
    · rw [he]
  · intro xs ys ea eb
    subst ea; subst eb
    rw [createMergePatch_arr a b xs ys pa pb]
    refine ⟨fun h => by rw [if_pos h], fun hl hbad => ?_⟩
    rw [if_neg (by simpa using hl)]
    rcases createArray_err xs ys with ⟨vs, hvs⟩ | he
    · have := (createArray_ok_iff xs ys hl).1 ⟨vs, hvs⟩
      simp only [okRoot] at this
      rcases hbad with ⟨x, hx, h⟩ | ⟨y, hy, h⟩
      · rw [this.1 x hx] at h; cases h
      · rw [this.2 y hy] at h; cases h
    · rw [he]

/-- conversely these are the only failures: two objects, or two equal-length arrays of objects,
are accepted -/
theorem create_accepts (a b : Bytes) (ca cb : Cst) (pa : parseCst a = some ca) (pb : parseCst b = some cb) :
    (ca.isObj = true → cb.isObj = true → ∃ out, createMergePatch a b = .ok out) ∧
    (∀ xs ys, ca = .arr xs → cb = .arr ys → xs.length = ys.length →
      (∀ x ∈ xs, x.isObj = true) → (∀ y ∈ ys, y.isObj = true) →
      ∃ out, createMergePatch a b = .ok out) := by
  constructor
  · intro ha hb
    have na : ca.isArr = false := by cases ca <;> simp [Cst.isObj, Cst.isArr] at ha ⊢
    have nb : cb.isArr = false := by cases cb <;> simp [Cst.isObj, Cst.isArr] at hb ⊢
    obtain ⟨v, hv⟩ := (createObject_ok_iff ca cb).2 ⟨ha, hb⟩
    rw [createMergePatch_nonarr a b ca cb pa pb na nb, hv]
    exact ⟨_, rfl⟩
  · intro xs ys ea eb hl hx hy
    subst ea; subst eb
    obtain ⟨vs, hvs⟩ := (createArray_ok_iff xs ys hl).2 ⟨hx, hy⟩
    rw [createMergePatch_arr a b xs ys pa pb, if_neg (by simpa using hl), hvs]
    exact ⟨_, rfl⟩

/-! ### `null` is rejected (a nil map), at the root and as an array element -/

theorem isObj_false_of_null {c : Cst} (h : c.valueOf = .null) : c.isObj = false := by
  cases c <;> simp [Cst.valueOf, Cst.isObj] at h ⊢

theorem isArr_false_of_null {c : Cst} (h : c.valueOf = .null) : c.isArr = false := by
  cases c <;> simp [Cst.valueOf, Cst.isArr] at h ⊢

theorem mem_valueOfL : ∀ (cs : List Cst) (v : Value), v ∈ Cst.valueOfL cs → ∃ c ∈ cs, c.valueOf = v
  | [], _, h => by simp [Cst.valueOfL] at h
  | c :: cs, v, h => by
    simp only [Cst.valueOfL, List.mem_cons] at h
    rcases h with h | h
    · exact ⟨c, List.mem_cons_self .., h.symm⟩
    · obtain ⟨c', hc', e⟩ := mem_valueOfL cs v h
      exact ⟨c', List.mem_cons_of_mem _ hc', e⟩

/-- a `null` root on either side is an error, whatever the other text is: `badMergeTypes` against
an array, `badDoc` otherwise (ill-formed other text included) -/
theorem create_null_rejected (a b : Bytes)
    (h : parseValueOf a = some .null ∨ parseValueOf b = some .null) :
    createMergePatch a b = .err .badDoc ∨ createMergePatch a b = .err .badMergeTypes := by
  have rej := create_rejects a b
  cases pa : parseCst a with
  | none => exact Or.inl (rej.1 (Or.inl pa))
  | some ca =>
    cases pb : parseCst b with
    | none => exact Or.inl (rej.1 (Or.inr pb))
    | some cb =>
      have r := rej.2 ca cb pa pb
      have hnull : ca.valueOf = .null ∨ cb.valueOf = .null := by
        rcases h with h | h
        · left; simpa [parseValueOf, pa] using h
        · right; simpa [parseValueOf, pb] using h
      by_cases hmix : ca.isArr = cb.isArr
      · left
        have hboth : ca.isArr = false ∧ cb.isArr = false := by
          rcases hnull with hn | hn
          · have := isArr_false_of_null hn; exact ⟨this, by rw [← hmix]; exact this⟩
          · have := isArr_false_of_null hn; exact ⟨by rw [hmix]; exact this, this⟩
        refine r.2.1 hboth.1 hboth.2 ?_
        rcases hnull with hn | hn
        · exact Or.inl (isObj_false_of_null hn)
        · exact Or.inr (isObj_false_of_null hn)
      · exact Or.inr (r.1 hmix)

theorem create_null_rejected' (a b : Bytes)
    (h : parseValueOf a = some .null ∨ parseValueOf b = some .null) :
    ∃ e, createMergePatch a b = .err e := by
  rcases create_null_rejected a b h with h | h <;> exact ⟨_, h⟩

/-- two arrays one of which has a `null` element: `badDoc` (through `createArray`) -/
theorem create_null_elem_rejected (a b : Bytes) (xs ys : List Value)
    (ha : parseValueOf a = some (.arr xs)) (hb : parseValueOf b = some (.arr ys))
    (h : Value.null ∈ xs ∨ Value.null ∈ ys) :
    createMergePatch a b = .err .badDoc := by
  obtain ⟨cxs, pa, ex⟩ := parse_arr ha
  obtain ⟨cys, pb, ey⟩ := parse_arr hb
  have r := ((create_rejects a b).2 _ _ pa pb).2.2 cxs cys rfl rfl
  by_cases hl : cxs.length = cys.length
  · refine r.2 hl ?_
    rcases h with h | h
    · rw [← ex] at h
      obtain ⟨c, hc, e⟩ := mem_valueOfL cxs _ h
      exact Or.inl ⟨c, hc, isObj_false_of_null e⟩
    · rw [← ey] at h
      obtain ⟨c, hc, e⟩ := mem_valueOfL cys _ h
      exact Or.inr ⟨c, hc, isObj_false_of_null e⟩
  · exact r.1 hl

/-! ### the hypotheses are satisfiable -/

/-- `{"b":{"x":1,"y":2},"a":1,"c":[1]}` and `{"c":[1],"b":{"y":3,"z":"<"},"d":true}` -/
def exA : Bytes := ascii "{\"b\":{\"x\":1,\"y\":2},\"a\":1,\"c\":[1]}"
def exB : Bytes := ascii "{\"c\":[1],\"b\":{\"y\":3,\"z\":\"<\"},\"d\":true}"

def exAv : Members := [(ascii "b", .obj [(ascii "x", .num (ascii "1")), (ascii "y", .num (ascii "2"))]),
  (ascii "a", .num (ascii "1")), (ascii "c", .arr [.num (ascii "1")])]
def exBv : Members := [(ascii "c", .arr [.num (ascii "1")]),
  (ascii "b", .obj [(ascii "y", .num (ascii "3")), (ascii "z", .str (ascii "<"))]), (ascii "d", .bool true)]

example : (parseValueOf exA).map (Value.beq (.obj exAv)) = some true ∧
    (parseValueOf exB).map (Value.beq (.obj exBv)) = some true := by decide +kernel
example : (Value.obj exAv).noDup = true ∧ (Value.obj exBv).noDup = true ∧
    (Value.obj exBv).hasNullMember = false := by decide
/-- the patch produced: `{"a":null,"b":{"x":null,"y":3,"z":"\u003c"},"d":true}` (sorted, HTML-escaped) -/
example : (match createMergePatch exA exB with | .ok o => some o | _ => none) =
    some (ascii "{\"a\":null,\"b\":{\"x\":null,\"y\":3,\"z\":\"\\u003c\"},\"d\":true}") := by decide +kernel
example : Value.eqv (.obj (getDiff (anyOfM exAv []) (anyOfM exBv []))) (.obj (Spec.diff exAv exBv)) = true := by
  decide +kernel
example : (match createMergePatch (ascii "[1]") (ascii "{}") with | .err e => some e | _ => none) = some .badMergeTypes := by
  decide +kernel
example : (match createMergePatch (ascii "[{}]") (ascii "[{},{}]") with | .err e => some e | _ => none) = some .badDoc := by
  decide +kernel
example : (match createMergePatch (ascii "1") (ascii "{}") with | .err e => some e | _ => none) = some .badDoc := by
  decide +kernel
example : (match createMergePatch (ascii "[{\"a\":1},{}]") (ascii "[{\"a\":2},{\"b\":[]}]") with | .ok o => some o | _ => none) =
    some (ascii "[{\"a\":2},{\"b\":[]}]") := by decide +kernel

/-- a `null` original or target is rejected; so is a `null` array element -/
example : (parseValueOf (ascii "null")).map Value.isNull = some true ∧
    (match createMergePatch (ascii "null") (ascii "{\"b\":1}") with | .err e => some e | _ => none) = some .badDoc ∧
    (match createMergePatch (ascii "{}") (ascii "null") with | .err e => some e | _ => none) = some .badDoc ∧
    (match createMergePatch (ascii "null") (ascii "[]") with | .err e => some e | _ => none) = some .badMergeTypes ∧
    (match createMergePatch (ascii "[null]") (ascii "[{}]") with | .err e => some e | _ => none) = some .badDoc := by
  decide +kernel

-- #print axioms getDiff_refines
-- #print axioms anyOf_eqv
-- #print axioms matchesValue_eqv
-- #print axioms create_value
-- #print axioms create_refines
-- #print axioms create_roundtrip_strong
-- #print axioms create_roundtrip_bytes
-- #print axioms create_array_refines
-- #print axioms create_rejects
-- #print axioms create_accepts
-- #print axioms create_null_rejected
-- #print axioms create_null_elem_rejected

end C03
end JP
