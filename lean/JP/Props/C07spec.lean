import JP.Lemmas.MergeLawsCompose

/-!
# C07 (specification level): composition of RFC 7396 merge patches

`Spec.compatible` is sufficient for the composition law (checked exhaustively on small
values before proving; proved here for all duplicate-free values).  The hypothesis
`P1.isObj` of the task statement is implied by `compatible` whenever `P2` is an object
and irrelevant otherwise, so `compose_law_strong` drops it.
-/

namespace JP.C07
open JP Value

variable {P1 P2 D : Value}

/-- composition law without the `isObj` hypothesis -/
theorem compose_law_strong (h1 : P1.noDup = true) (h2 : P2.noDup = true) (hd : D.noDup = true) :
    Spec.compatible P1 P2 = true →
    Value.eqv (Spec.merge (Spec.merge D P1) P2) (Spec.merge D (Spec.compose P1 P2)) = true :=
  Spec.compose_law_aux P2 P1 D h1 h2 hd

/-- composition law: one combined patch = applying both in succession -/
theorem compose_law (h1 : P1.noDup = true) (h2 : P2.noDup = true) (hd : D.noDup = true) :
    P1.isObj = true → Spec.compatible P1 P2 = true →
    Value.eqv (Spec.merge (Spec.merge D P1) P2) (Spec.merge D (Spec.compose P1 P2)) = true :=
  fun _ => compose_law_strong h1 h2 hd

/-- with a non-object second patch both sides are that patch, exactly -/
theorem compose_law_nonobject_eq : P2.isObj = false →
    Spec.merge (Spec.merge D P1) P2 = Spec.merge D (Spec.compose P1 P2) := by
  intro h
  rw [Spec.compose_of_not_obj P1 h, Spec.merge_of_not_obj _ h, Spec.merge_of_not_obj _ h]

theorem nonobject_p2 : P2.isObj = false → Spec.compose P1 P2 = P2 :=
  Spec.compose_of_not_obj P1

/-- members of the combined patch, by cases on what the two patches hold under the name -/
theorem compose_lookup (h2 : P2.noDup = true) : ∀ p q k, P1 = .obj p → P2 = .obj q →
    Value.lookup k (match Spec.compose P1 P2 with | .obj r => r | _ => []) =
      Spec.compOpt (Value.lookup k p) (Value.lookup k q) := by
  intro p q k e1 e2
  subst e1; subst e2
  rw [Spec.compose_obj_obj]
  exact Spec.lookup_composeMs k q ((noDup_obj q).1 h2).1 p

/-- a later non-object value (in particular a deletion) overrides an earlier one -/
theorem later_overrides (h2 : P2.noDup = true) : ∀ p q k v, P1 = .obj p → P2 = .obj q →
    Value.lookup k q = some v → v.isObj = false →
    Value.lookup k (match Spec.compose P1 P2 with | .obj r => r | _ => []) = some v := by
  intro p q k v e1 e2 hl hv
  rw [compose_lookup h2 p q k e1 e2, hl, Spec.compOpt_some, Spec.compMember_of_not_obj _ hv]

/-- deletions of the second patch survive -/
theorem deletions_survive (h2 : P2.noDup = true) : ∀ p q k, P1 = .obj p → P2 = .obj q →
    Value.lookup k q = some .null →
    Value.lookup k (match Spec.compose P1 P2 with | .obj r => r | _ => []) = some .null :=
  fun p q k e1 e2 hl => later_overrides h2 p q k .null e1 e2 hl rfl

/-- members (in particular deletions) of the first patch survive where the second is silent -/
theorem earlier_survives (h2 : P2.noDup = true) : ∀ p q k, P1 = .obj p → P2 = .obj q →
    Value.lookup k q = none →
    Value.lookup k (match Spec.compose P1 P2 with | .obj r => r | _ => []) = Value.lookup k p := by
  intro p q k e1 e2 hl
  rw [compose_lookup h2 p q k e1 e2, hl, Spec.compOpt_none]

/-- object members of both patches are composed recursively -/
theorem nested_composed (h2 : P2.noDup = true) : ∀ p q k p2 q2, P1 = .obj p → P2 = .obj q →
    Value.lookup k p = some (.obj p2) → Value.lookup k q = some (.obj q2) →
    Value.lookup k (match Spec.compose P1 P2 with | .obj r => r | _ => []) =
      some (Spec.compose (.obj p2) (.obj q2)) := by
  intro p q k p2 q2 e1 e2 hp hq
  rw [compose_lookup h2 p q k e1 e2, hp, hq, Spec.compOpt_some, Spec.compMember_obj_obj]

/-- the names of the combined patch are duplicate-free -/
theorem compose_nodupKeys (h1 : P1.noDup = true) : ∀ p q, P1 = .obj p → P2 = .obj q →
    nodupKeys ((match Spec.compose P1 P2 with | .obj r => r | _ => []).map Prod.fst) = true := by
  intro p q e1 e2
  subst e1; subst e2
  rw [Spec.compose_obj_obj]
  exact Spec.nodupKeys_composeMs q p ((noDup_obj p).1 h1).1

/-- the combined patch is hereditarily duplicate-free -/
theorem compose_noDup (h1 : P1.noDup = true) (h2 : P2.noDup = true) : (Spec.compose P1 P2).noDup = true :=
  Spec.noDup_compose P2 P1 h1 h2

/-! ### the hypotheses are satisfiable by non-trivial cases; `compatible` is needed -/

private def ka : Bytes := ascii "a"
private def kb : Bytes := ascii "b"
private def kc : Bytes := ascii "c"
private def n1 : Value := .num (ascii "1")
private def n2 : Value := .num (ascii "2")
/-- `{"a":{"a":1,"b":1},"b":1,"c":{"c":1}}` -/
private def exD : Value := .obj [(ka, .obj [(ka, n1), (kb, n1)]), (kb, n1), (kc, .obj [(kc, n1)])]
/-- `{"a":{"a":null,"c":2},"b":null}` -/
private def exP1 : Value := .obj [(ka, .obj [(ka, .null), (kc, n2)]), (kb, .null)]
/-- `{"a":{"b":null,"c":null},"b":2,"c":{"a":2}}` -/
private def exP2 : Value := .obj [(ka, .obj [(kb, .null), (kc, .null)]), (kb, n2), (kc, .obj [(ka, n2)])]

example : exP1.noDup = true ∧ exP2.noDup = true ∧ exD.noDup = true ∧ exP1.isObj = true ∧
    Spec.compatible exP1 exP2 = true ∧
    Value.eqv (Spec.merge (Spec.merge exD exP1) exP2) (Spec.merge exD (Spec.compose exP1 exP2)) = true ∧
    Value.eqv (Spec.merge (Spec.merge n1 exP1) exP2) (Spec.merge n1 (Spec.compose exP1 exP2)) = true := by decide
example : Spec.compose exP1 exP2 =
    .obj [(ka, .obj [(ka, .null), (kc, .null), (kb, .null)]), (kb, n2), (kc, .obj [(ka, n2)])] := rfl
example : Spec.merge exD (Spec.compose exP1 exP2) = .obj [(ka, .obj []), (kb, n2), (kc, .obj [(kc, n1), (ka, n2)])] := rfl
example : n2.isObj = false ∧ Value.beq (Spec.compose exP1 n2) n2 = true := by decide
example : Value.lookup kb [(kb, (.null : Value))] = some .null ∧
    Spec.compose (.obj [(kb, n1)]) (.obj [(kb, .null)]) = .obj [(kb, .null)] := ⟨rfl, rfl⟩
example : Value.lookup kb (match Spec.compose exP1 exP2 with | .obj r => r | _ => []) = some n2 := rfl

/-- without `compatible` the law fails: a deletion followed by an object patch -/
example : Spec.compatible (.obj [(ka, .null)]) (.obj [(ka, .obj [(kb, n2)])]) = false ∧
    Value.eqv (Spec.merge (Spec.merge exD (.obj [(ka, .null)])) (.obj [(ka, .obj [(kb, n2)])]))
      (Spec.merge exD (Spec.compose (.obj [(ka, .null)]) (.obj [(ka, .obj [(kb, n2)])]))) = false := by decide
/-- without `compatible` the law fails: a scalar followed by an object patch -/
example : Spec.compatible (.obj [(ka, n1)]) (.obj [(ka, .obj [(kb, n2)])]) = false ∧
    Value.eqv (Spec.merge (Spec.merge exD (.obj [(ka, n1)])) (.obj [(ka, .obj [(kb, n2)])]))
      (Spec.merge exD (Spec.compose (.obj [(ka, n1)]) (.obj [(ka, .obj [(kb, n2)])]))) = false := by decide
/-- the two sides are equivalent, not equal: member order may differ -/
example : Spec.merge (Spec.merge (.obj [(ka, n1), (kb, n1)]) (.obj [(ka, .null)])) (.obj [(ka, n2)]) = .obj [(kb, n1), (ka, n2)] ∧
    Spec.merge (.obj [(ka, n1), (kb, n1)]) (Spec.compose (.obj [(ka, .null)]) (.obj [(ka, n2)])) = .obj [(ka, n2), (kb, n1)] :=
  ⟨rfl, rfl⟩

/-- the law fails when the first patch has a repeated name -/
example : Spec.compatible (.obj [(ka, .obj []), (ka, .null)]) (.obj [(ka, .obj [(kb, n2)])]) = true ∧
    Value.eqv (Spec.merge (Spec.merge exD (.obj [(ka, .obj []), (ka, .null)])) (.obj [(ka, .obj [(kb, n2)])]))
      (Spec.merge exD (Spec.compose (.obj [(ka, .obj []), (ka, .null)]) (.obj [(ka, .obj [(kb, n2)])]))) = false := by decide
/-- the law fails when the document has a repeated name (`eqv` is not reflexive there) -/
example : Value.eqv (Spec.merge (Spec.merge (.obj [(ka, n1), (ka, n2)]) (.obj [])) (.obj []))
      (Spec.merge (.obj [(ka, n1), (ka, n2)]) (Spec.compose (.obj []) (.obj []))) = false := by decide

-- #print axioms compose_law
-- #print axioms compose_law_strong
-- #print axioms nonobject_p2
-- #print axioms deletions_survive
-- #print axioms later_overrides

end JP.C07
