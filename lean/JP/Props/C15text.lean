import JP.Lemmas.TextClean
import JP.Lemmas.TextUtf8Tree

/-!
# C15 (text layer) — outputs are well-formed JSON; escaping never changes the value

The boundary theorems behind property C15: the HTML escaper of `compact` keeps the decoded
value of every valid string body, is idempotent, leaves no raw `<`, `>`, `&`, U+2028, U+2029;
lifted to syntax trees: escaping keeps the value, keeps well-formedness, and the compact
print of an escaped tree is clean and parses back.  Proofs are in `JP/Lemmas/Text*.lean`.
-/

namespace JP.C15
open JP

/-! ### string bodies -/

/-- `b` a scanner-valid string body -/
theorem unquote_escBody (b : Bytes) (hb : parseStrBody (b ++ [34]) = some (b, [])) :
    unquote (escBody b) = unquote b :=
  JP.unquote_escBody b hb

-- `a<é\n` U+2028 `&`
example : parseStrBody ([97, 60, 92, 117, 48, 48, 101, 57, 92, 110, 0xE2, 0x80, 0xA8, 38] ++ [34])
    = some ([97, 60, 92, 117, 48, 48, 101, 57, 92, 110, 0xE2, 0x80, 0xA8, 38], []) := by decide

/-- the validity hypothesis cannot be dropped: the body `\<` is rejected by the decoder (decodes to
nothing) while its escaped form `\\u003c` decodes to six bytes -/
example : unquote (escBody [92, 60]) ≠ unquote [92, 60] := by decide

theorem escBody_idem (b : Bytes) : escBody (escBody b) = escBody b := JP.escBody_idem b

theorem escBody_clean (b : Bytes) : hasRawHtml (escBody b) = false := JP.escBody_clean b

/-- escaping keeps a body valid -/
theorem escBody_valid (b : Bytes) (hb : parseStrBody (b ++ [34]) = some (b, [])) :
    parseStrBody (escBody b ++ [34]) = some (escBody b, []) :=
  JP.VB_escBody _ b (Nat.le_refl _) hb

/-- escaping keeps valid UTF-8 valid -/
theorem escBody_utf8 (b : Bytes) (hb : isValidUtf8 b = true) : isValidUtf8 (escBody b) = true :=
  JP.isValidUtf8_escBody b hb

example : isValidUtf8 [97, 60, 0xE2, 0x80, 0xA8, 0xC3, 0xA9] = true := by decide

/-! ### syntax trees -/

theorem valueOf_escape (e : Bool) (c : Cst) (hc : WFC c) : (Cst.escape e c).valueOf = c.valueOf :=
  JP.valueOf_escape e c hc

theorem wfc_escape (e : Bool) (c : Cst) (hc : WFC c) : WFC (Cst.escape e c) :=
  JP.WFC_escape e c hc

theorem print_escape_clean (c : Cst) (hc : WFC c) : hasRawHtml (Cst.print (Cst.escape true c)) = false :=
  JP.print_escape_clean c hc

-- {"<k": ["a&b", 1.5, null]}
example : WFC (.obj [([60, 107], .arr [.str [97, 38, 98], .lit [49, 46, 53], .lit [110, 117, 108, 108]])]) = true := by
  decide

/-- the compact print of an escaped well-formed tree is well-formed JSON: it parses back to the
escaped tree … -/
theorem parse_print_escape (e : Bool) (c : Cst) (hc : WFC c) (hd : c.depth ≤ maxDepth) :
    parseCst (Cst.print (Cst.escape e c)) = some (Cst.escape e c) :=
  JP.parse_print _ (JP.WFC_escape e c hc) (by rw [JP.depth_escape]; exact hd)

/-- … and denotes the value of the original tree -/
theorem parseValueOf_print_escape (e : Bool) (c : Cst) (hc : WFC c) (hd : c.depth ≤ maxDepth) :
    parseValueOf (Cst.print (Cst.escape e c)) = some c.valueOf := by
  simp only [parseValueOf, parse_print_escape e c hc hd, Option.map_some, JP.valueOf_escape e c hc]

example : (Cst.obj [([60, 107], .arr [.str [97, 38, 98], .lit [49, 46, 53], .lit [110, 117, 108, 108]])]).depth ≤ maxDepth := by
  decide

/-- UTF-8 is kept: a well-formed tree whose bodies are valid UTF-8 prints, escaped or not, to valid UTF-8 -/
theorem print_escape_utf8 (e : Bool) (c : Cst) (hc : WFC c) (hu : CstUtf8 c) :
    isValidUtf8 (Cst.print (Cst.escape e c)) = true :=
  JP.isValidUtf8_print _ (JP.WFC_escape e c hc) (JP.CstUtf8_escape e c hu)

example : CstUtf8 (.obj [([60, 107, 0xC3, 0xA9], .arr [.str [97, 38, 0xE2, 0x80, 0xA8], .lit [49, 46, 53]])]) = true
    ∧ WFC (.obj [([60, 107, 0xC3, 0xA9], .arr [.str [97, 38, 0xE2, 0x80, 0xA8], .lit [49, 46, 53]])]) = true := by
  decide

end JP.C15

/-
#print axioms JP.C15.unquote_escBody
#print axioms JP.C15.escBody_idem
#print axioms JP.C15.escBody_clean
#print axioms JP.C15.escBody_valid
#print axioms JP.C15.escBody_utf8
#print axioms JP.C15.valueOf_escape
#print axioms JP.C15.wfc_escape
#print axioms JP.C15.print_escape_clean
#print axioms JP.C15.parse_print_escape
#print axioms JP.C15.parseValueOf_print_escape
#print axioms JP.C15.print_escape_utf8
-/
