import JP.Driver
import JP.Impl.Den

/-! # Property C19 — theorems (see DESIGN.md §6) -/

namespace JP
namespace C19

end C19
end JP
