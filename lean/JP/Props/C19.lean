import JP.Lemmas.LegacyMerge
import JP.Lemmas.LegacyEqualText
import JP.Lemmas.LegacyComposeLaw

/-!
# C19 — the legacy (v4) `MergePatch`, `MergeMergePatches` and `Equal`

* `merge_refines`, `mergeDocs_refines`, `pruneNulls_spec`, `doMergePatch_refines`: the legacy
  `merge` / `mergeDocs` / `pruneNulls` model computes RFC 7396 `Spec.merge` for non-null
  documents and object or array patches with duplicate-free member names.  `Legacy.den` lists
  the members of a parsed object (a bare Go map, no order) in the order of the model's
  association list; for *that* choice the result is the specification's **as an ordered value**,
  hence also modulo `Value.eqv`.  What `json.Marshal` prints lists the members sorted by name.
* `mergeMerge_refines`: the `mergeMerge` mode against `Spec.compose` under `Spec.compatible`;
  `composition_law` derives the law for the legacy function from the specification-level law
  (the hypothesis `Legacy.ComposeLaw`, which is proved in `JP/Props/C19law.lean` from
  `JP.C07.compose_law_strong`; that file lives in a lemma family that cannot be imported together
  with this one).
* `equal_iff`: on trees whose string values are spelled plainly.  **The statement with only
  `NoEscapes` is false** for arbitrary trees and also for parsed texts: invalid UTF-8 decodes to
  U+FFFD, so `["\xff"]` and `["\xfe"]` denote equal values but differ as bytes (example
  below); `equal_iff_partial` adds "valid UTF-8" (`CstUtf8`) and "accepted by the grammar"
  (`WFC`, automatic for parsed texts).

Invariants: `Legacy.WF` (names duplicate-free, hereditarily, no nil map inside) and `Legacy.MOK`
(no raw `null` inside a parsed object); both hold for whatever `doMergePatch` builds.
-/

namespace JP
namespace C19
open Value Legacy

/-! ## merge -/

/-- the recursive `merge` of a node with a raw patch *is* the specification (ordered equality for
the order `den` picks, hence `eqv`), never panics, and re-establishes the invariants -/
theorem merge_refines (cur : Node) (p : Cst) (hc : WF cur = true) (hm : MOK cur)
    (hp : p.valueOf.noDup = true) (hn : p.isNullLit = false) :
    ∃ r, mergeNC false cur p = some r ∧ WF r = true ∧ MOK r ∧
      den r = Spec.merge (den cur) p.valueOf ∧
      Value.eqv (den r) (Spec.merge (den cur) p.valueOf) = true := by
  obtain ⟨r, h0, h1, h2, h3⟩ := mergeNC_den p cur hc hm hp hn
  refine ⟨r, h0, h1, h2, h3, ?_⟩
  rw [← h3]; exact eqv_refl_E _ (noDup_den _ h1)

/-- `mergeDocs` on a parsed object -/
theorem mergeDocs_refines (ob : NMembers) (pms : List (Bytes × Cst))
    (hw : WF (.doc ob) = true) (hm : MOKM ob) (hp : (Cst.obj pms).valueOf.noDup = true) :
    ∃ ob', mergeDocsC false (some ob) pms = some ob' ∧ WF (.doc ob') = true ∧ MOKM ob' ∧
      den (.doc ob') = .obj (Spec.mergeMs (denM ob) (Cst.valueOfM pms)) := by
  simp only [Cst.valueOf, noDup, Bool.and_eq_true] at hp
  obtain ⟨ob', r0, r1, r2, r3⟩ := mergeDocsC_den pms ob hw hm hp.1 hp.2
  exact ⟨ob', r0, r1, r2, by simp only [den, r3]⟩

/-- `pruneNulls`: a new object value is stored with its own null members dropped, recursively
through objects (arrays inside are left untouched) — exactly `MergePatch(null, c)` -/
theorem pruneNulls_spec (c : Cst) (h : c.valueOf.noDup = true) (hn : c.isNullLit = false) :
    WF (pruneC c) = true ∧ den (pruneC c) = Spec.merge .null c.valueOf := by
  have ⟨h1, _, h3⟩ := pruneC_den c h hn
  exact ⟨h1, h3⟩

/-- **`MergePatch` on syntax trees**: for a non-null document and an object or array patch,
both duplicate-free, `doMergePatch false` succeeds and marshals a well-formed node whose value
is the RFC 7396 result -/
theorem doMergePatch_refines (docData patchData : Bytes) (dc pc : Cst)
    (hd : parseCst docData = some dc) (hp : parseCst patchData = some pc)
    (hnn : dc.isNullLit = false) (hpc : (pc.isObj || pc.isArr) = true)
    (hdd : dc.valueOf.noDup = true) (hdp : pc.valueOf.noDup = true) :
    ∃ r, mergePatch docData patchData = .ok (marshal r) ∧ WF r = true ∧
      den r = Spec.merge dc.valueOf pc.valueOf ∧
      Value.eqv (den r) (Spec.merge dc.valueOf pc.valueOf) = true := by
  obtain ⟨r, h0, h1, h2⟩ := mergeTree_den dc pc hdd hdp hpc
  refine ⟨r, doMergePatch_eq false docData patchData dc pc hd hp hnn hpc r h0, h1, h2, ?_⟩
  rw [← h2]; exact eqv_refl_E _ (noDup_den _ h1)

/-- what the text layer has to provide for the result node `r`: the printed tree reads back, and
its value is `den r` up to member order (`json.Marshal` sorts the members of a map by name) -/
def PrintSpec (c : Cst) : Prop := parseCst (Cst.print c) = some c
def CstOfSpec (r : Node) : Prop := Value.eqv (cstOf r).valueOf (den r) = true

/-- with the text layer: the output parses to the RFC 7396 result up to member order -/
theorem mergePatch_value (docData patchData : Bytes) (dc pc : Cst)
    (hd : parseCst docData = some dc) (hp : parseCst patchData = some pc)
    (hnn : dc.isNullLit = false) (hpc : (pc.isObj || pc.isArr) = true)
    (hdd : dc.valueOf.noDup = true) (hdp : pc.valueOf.noDup = true)
    (htext : ∀ r, WF r = true → den r = Spec.merge dc.valueOf pc.valueOf →
      PrintSpec (cstOf r) ∧ CstOfSpec r) :
    ∃ out v, mergePatch docData patchData = .ok out ∧ parseValueOf out = some v ∧
      Value.eqv v (Spec.merge dc.valueOf pc.valueOf) = true := by
  obtain ⟨r, h0, h1, h2, _⟩ := doMergePatch_refines docData patchData dc pc hd hp hnn hpc hdd hdp
  have ⟨p1, p2⟩ := htext r h1 h2
  refine ⟨marshal r, (cstOf r).valueOf, h0, ?_, ?_⟩
  · simp only [parseValueOf, marshal]; rw [p1]; rfl
  · rw [← h2]; exact p2

/-! ## MergeMergePatches -/

/-- the `mergeMerge` mode against `Spec.compose`, under `Spec.compatible` -/
theorem mergeMerge_refines (cur : Node) (p : Cst) (hc : WF cur = true) (hm : MOK cur)
    (hp : p.valueOf.noDup = true) (hn : p.isNullLit = false)
    (hcomp : Spec.compatible (den cur) p.valueOf = true) :
    ∃ r, mergeNC true cur p = some r ∧ WF r = true ∧ MOK r ∧
      den r = Spec.compose (den cur) p.valueOf :=
  mergeNC_compose p cur hc hm hp hn hcomp

/-- `MergeMergePatches` on syntax trees (compatibility is only needed when both patches are
objects) -/
theorem mergeMergePatches_refines (p1Data p2Data : Bytes) (c1 c2 : Cst)
    (h1 : parseCst p1Data = some c1) (h2 : parseCst p2Data = some c2)
    (hnn : c1.isNullLit = false) (hpc : (c2.isObj || c2.isArr) = true)
    (hd1 : c1.valueOf.noDup = true) (hd2 : c2.valueOf.noDup = true)
    (hcomp : c1.isObj = true → Spec.compatible c1.valueOf c2.valueOf = true) :
    ∃ r, mergeMergePatches p1Data p2Data = .ok (marshal r) ∧ WF r = true ∧
      den r = Spec.compose c1.valueOf c2.valueOf := by
  obtain ⟨r, h0, hw, hv⟩ := composeTree_den c1 c2 hd1 hd2 hpc hcomp
  exact ⟨r, doMergePatch_eq true p1Data p2Data c1 c2 h1 h2 hnn hpc r h0, hw, hv⟩

/-- **composition law for the legacy functions**, at the level of denoted values: merging the
combined patch `MergeMergePatches(p1, p2)` builds into a document gives what merging `p1`, then
`p2` gives, up to member order -/
theorem composition_law (hlaw : ComposeLaw) (p1Data p2Data : Bytes) (c1 c2 : Cst)
    (h1 : parseCst p1Data = some c1) (h2 : parseCst p2Data = some c2)
    (hnn : c1.isNullLit = false) (hpc : (c2.isObj || c2.isArr) = true)
    (hd1 : c1.valueOf.noDup = true) (hd2 : c2.valueOf.noDup = true)
    (hcomp : Spec.compatible c1.valueOf c2.valueOf = true)
    (D : Value) (hD : D.noDup = true) :
    ∃ r, mergeMergePatches p1Data p2Data = .ok (marshal r) ∧ WF r = true ∧
      Value.eqv (Spec.merge (Spec.merge D c1.valueOf) c2.valueOf) (Spec.merge D (den r)) = true := by
  obtain ⟨r, h0, hw, hv⟩ := mergeMergePatches_refines p1Data p2Data c1 c2 h1 h2 hnn hpc hd1 hd2
    (fun _ => hcomp)
  refine ⟨r, h0, hw, ?_⟩
  rw [hv]
  exact hlaw _ _ D hd1 hd2 hD hcomp

/-! ## Equal -/

/-- `Equal` on two texts is `equal` of their syntax trees when both are well-formed -/
theorem equal_trees (a b : Bytes) (ca cb : Cst) (ha : parseCst a = some ca) (hb : parseCst b = some cb) :
    Legacy.equal a b = Legacy.eqCC ca cb := by
  simp only [Legacy.equal, ha, hb]

/-- tree level, the hypothesis in its sharpest form: every string *value* is spelled by a body
that `unquote` leaves unchanged -/
theorem equal_iff_plain (a b : Cst) (ha : a.valueOf.noDup = true) (hb : b.valueOf.noDup = true)
    (hpa : PlainStr a = true) (hpb : PlainStr b = true) :
    Legacy.eqCC a b = Value.eqv a.valueOf b.valueOf :=
  Legacy.eqCC_eqv a b ha hb hpa hpb

/-- **C19, `Equal`**: on syntax trees the grammar accepts, without escapes (`NoEscapes`: no
backslash in any body), valid UTF-8, duplicate-free names.  (Stated for all roots; container
roots are a special case.) -/
theorem equal_iff_partial (a b : Cst) (ha : a.valueOf.noDup = true) (hb : b.valueOf.noDup = true)
    (hea : NoEscapes a = true) (heb : NoEscapes b = true)
    (hwa : WFC a = true) (hwb : WFC b = true) (hua : CstUtf8 a = true) (hub : CstUtf8 b = true) :
    Legacy.eqCC a b = Value.eqv a.valueOf b.valueOf :=
  equal_iff_plain a b ha hb (plainStr_of_noEscapes a hea hwa hua) (plainStr_of_noEscapes b heb hwb hub)

/-- `Equal` on two texts: structural equality of the denoted values -/
theorem equal_texts (a b : Bytes) (ca cb : Cst) (hpa : parseCst a = some ca) (hpb : parseCst b = some cb)
    (ha : ca.valueOf.noDup = true) (hb : cb.valueOf.noDup = true)
    (hea : NoEscapes ca = true) (heb : NoEscapes cb = true)
    (hwa : WFC ca = true) (hwb : WFC cb = true) (hua : CstUtf8 ca = true) (hub : CstUtf8 cb = true) :
    Legacy.equal a b = Value.eqv ca.valueOf cb.valueOf := by
  rw [equal_trees a b ca cb hpa hpb]
  exact equal_iff_partial ca cb ha hb hea heb hwa hwb hua hub

/-- a partly parsed node against a raw message (what the `test` operation evaluates) -/
theorem eqNC_iff (n : Node) (c : Cst) (hn : WF n = true) (hc : c.valueOf.noDup = true)
    (hpn : PlainN n = true) (hpc : PlainStr c = true) :
    Legacy.eqNC n c = Value.eqv (den n) c.valueOf :=
  Legacy.eqNC_eqv n c hn hc hpn hpc

/-! ### counterexamples: `equal_iff` with `NoEscapes` alone is false -/

/-- `["\xff"]` and `["\xfe"]` (invalid UTF-8, no escapes, array roots, accepted by the grammar):
both strings decode to U+FFFD, the values are equal, the legacy `Equal` says "different" -/
def cexA : Cst := .arr [.str [0xff]]
def cexB : Cst := .arr [.str [0xfe]]
example : NoEscapes cexA = true ∧ NoEscapes cexB = true ∧ WFC cexA = true ∧ WFC cexB = true ∧
    cexA.valueOf.noDup = true ∧ cexB.valueOf.noDup = true ∧
    Legacy.eqCC cexA cexB = false ∧ Value.eqv cexA.valueOf cexB.valueOf = true := by decide +kernel
example : Legacy.equal (Cst.print cexA) (Cst.print cexB) = false ∧
    (match parseValueOf (Cst.print cexA), parseValueOf (Cst.print cexB) with
     | some x, some y => Value.beq x y
     | _, _ => false) = true := by decide +kernel
/-- with escapes the legacy `Equal` also differs from structural equality (outside the property) -/
example : Legacy.eqCC (.arr [.str (ascii "\\u0041")]) (.arr [.str (ascii "A")]) = false ∧
    Value.eqv (Cst.valueOf (.arr [.str (ascii "\\u0041")])) (Cst.valueOf (.arr [.str (ascii "A")])) = true := by
  decide +kernel
/-- duplicate-freeness of `mergeDocs`' hypothesis is needed: `{"a":1,"a":null}` -/
def exDup : Cst := .obj [(ascii "a", .lit (ascii "1")), (ascii "a", .lit (ascii "null"))]
example : den (pruneC exDup) = .obj [] ∧ Spec.merge .null exDup.valueOf = .obj [] := ⟨rfl, rfl⟩

/-! ### the hypotheses are satisfiable -/

/-- `{"a":{"b":1,"c":null},"d":[null],"e":2}` -/
def exDoc : Cst := .obj [(ascii "a", .obj [(ascii "b", .lit (ascii "1")), (ascii "c", .lit (ascii "null"))]),
  (ascii "d", .arr [.lit (ascii "null")]), (ascii "e", .lit (ascii "2"))]
/-- `{"a":{"b":null,"x":{"y":null,"z":3}},"e":null,"f":{"g":null}}` -/
def exPatch : Cst := .obj [(ascii "a", .obj [(ascii "b", .lit (ascii "null")),
    (ascii "x", .obj [(ascii "y", .lit (ascii "null")), (ascii "z", .lit (ascii "3"))])]),
  (ascii "e", .lit (ascii "null")), (ascii "f", .obj [(ascii "g", .lit (ascii "null"))])]

example : WF (.raw exDoc) = true ∧ exPatch.valueOf.noDup = true ∧ exPatch.isNullLit = false := by decide
example : MOK (.raw exDoc) := by simp [MOK, exDoc, Cst.isNullLit]
example : parseCst (Cst.print exDoc) = some exDoc ∧ parseCst (Cst.print exPatch) = some exPatch ∧
    exDoc.isNullLit = false ∧ (exPatch.isObj || exPatch.isArr) = true ∧
    exDoc.valueOf.noDup = true := ⟨rfl, rfl, by decide, by decide, by decide⟩
/-- the result on the example: `{"a":{"c":null,"x":{"z":3}},"d":[null],"f":{}}` -/
example : (mergeNC false (.raw exDoc) exPatch).map den =
    some (.obj [(ascii "a", .obj [(ascii "c", .null), (ascii "x", .obj [(ascii "z", .num (ascii "3"))])]),
          (ascii "d", .arr [.null]), (ascii "f", .obj [])]) := rfl
example : (match mergePatch (Cst.print exDoc) (Cst.print exPatch) with
    | .ok out => out == ascii "{\"a\":{\"c\":null,\"x\":{\"z\":3}},\"d\":[null],\"f\":{}}"
    | _ => false) = true := by decide +kernel

/-- compatible patches: `{"a":{"b":1,"c":null},"e":2}` then `exPatch` -/
def exP1 : Cst := .obj [(ascii "a", .obj [(ascii "b", .lit (ascii "1")), (ascii "c", .lit (ascii "null"))]),
  (ascii "e", .lit (ascii "2"))]
example : WF (.raw exP1) = true ∧ Spec.compatible (den (.raw exP1)) exPatch.valueOf = true := by decide
example : (mergeNC true (.raw exP1) exPatch).map den =
    some (.obj [(ascii "a", .obj [(ascii "b", .null), (ascii "c", .null),
            (ascii "x", .obj [(ascii "y", .null), (ascii "z", .num (ascii "3"))])]),
          (ascii "e", .null), (ascii "f", .obj [(ascii "g", .null)])]) := rfl
/-- incompatible patches: `{"a":1}` then `{"a":{"b":null}}` — the Go code prunes -/
def exQ1 : Cst := .obj [(ascii "a", .lit (ascii "1"))]
def exQ2 : Cst := .obj [(ascii "a", .obj [(ascii "b", .lit (ascii "null"))])]
example : Spec.compatible exQ1.valueOf exQ2.valueOf = false ∧
    (mergeNC true (.raw exQ1) exQ2).map den = some (.obj [(ascii "a", .obj [])]) ∧
    Spec.compose exQ1.valueOf exQ2.valueOf = .obj [(ascii "a", .obj [(ascii "b", .null)])] :=
  ⟨by decide, rfl, rfl⟩

/-- `Equal`: `{"a":1,"b":[null,"x"]}` against `{"b":[null,"x"],"a":1}` -/
def exA : Cst := .obj [(ascii "a", .lit (ascii "1")), (ascii "b", .arr [.lit (ascii "null"), .str (ascii "x")])]
def exB : Cst := .obj [(ascii "b", .arr [.lit (ascii "null"), .str (ascii "x")]), (ascii "a", .lit (ascii "1"))]
example : exA.valueOf.noDup = true ∧ exB.valueOf.noDup = true ∧ NoEscapes exA = true ∧ NoEscapes exB = true ∧
    WFC exA = true ∧ WFC exB = true ∧ CstUtf8 exA = true ∧ CstUtf8 exB = true ∧
    Legacy.eqCC exA exB = true := by decide +kernel
example : Legacy.equal (Cst.print exA) (Cst.print exB) = true ∧
    parseCst (Cst.print exA) = some exA ∧ parseCst (Cst.print exB) = some exB := ⟨by decide +kernel, rfl, rfl⟩
example : PlainN (decodeDoc [(ascii "b", .str (ascii "x"))]) = true ∧
    WF (decodeDoc [(ascii "b", .str (ascii "x"))]) = true := by decide +kernel

end C19
end JP

-- #print axioms JP.C19.merge_refines
-- #print axioms JP.C19.mergeDocs_refines
-- #print axioms JP.C19.pruneNulls_spec
-- #print axioms JP.C19.doMergePatch_refines
-- #print axioms JP.C19.mergePatch_value
-- #print axioms JP.C19.mergeMerge_refines
-- #print axioms JP.C19.mergeMergePatches_refines
-- #print axioms JP.C19.composition_law
-- #print axioms JP.C19.equal_iff_plain
-- #print axioms JP.C19.equal_iff_partial
-- #print axioms JP.C19.equal_texts
-- #print axioms JP.C19.eqNC_iff
