import JP.Generated.Facts
import JP.Impl.Merge

/-!
# Regenerated facts = what the hand-written model assumes (v5/internal/json)

`JP/Generated/Facts.lean` is rewritten from the Go sources on every run.  Each theorem
below equates one extracted fact with the corresponding assumption of the model; all are
closed computations checked by the kernel (`rfl` / `decide`).  The facts are split by
source file so that an edit to one file only touches the obligations of the properties
anchored there.
-/

namespace JP
namespace Facts

/-- the nesting limit of the scanner model and of the reference grammar -/
theorem maxNestingDepth_eq : Generated.maxNestingDepth = Scanner.maxNestingDepth
    ∧ Generated.maxNestingDepth = maxDepth := by decide

/-- `safeSet` / `htmlSafeSet` of tables.go are the model's `safe` / `htmlSafe` -/
theorem safeSet_eq : ∀ i : Fin 128, Generated.safeSet[i.val]? = some (safe (UInt8.ofNat i.val)) := by decide

theorem htmlSafeSet_eq : ∀ i : Fin 128, Generated.htmlSafeSet[i.val]? = some (htmlSafe (UInt8.ofNat i.val)) := by decide

theorem hex_eq : ∀ i : Fin 16, Generated.hexDigits[i.val]? = some (hexDigit i.val).toNat := by decide

/-- scanner opcodes and parse states in their `iota` order (the model uses the numbers) -/
theorem scanOpcodes_eq : Generated.scanOpcodes =
    ["scanContinue", "scanBeginLiteral", "scanBeginObject", "scanObjectKey", "scanObjectValue", "scanEndObject",
     "scanBeginArray", "scanArrayValue", "scanEndArray", "scanSkipSpace", "scanEnd", "scanError"]
    ∧ Generated.parseStates = ["parseObjectKey", "parseObjectValue", "parseArrayValue"] := ⟨rfl, rfl⟩

/-- every `Unmarshal*` entry point of the fork keeps number literals -/
theorem useNumber_eq : Generated.useNumberForced = [true, true, true, true] := rfl

/-- the pools and caches of the embedded codec: nothing else is shared between calls -/
theorem codecVars_eq : Generated.codecVars =
    ["ds:pool", "encodeStatePool:pool", "encoderCache:syncmap", "fieldCache:syncmap", "hex:other", "htmlSafeSet:other",
     "nullLiteral:other", "numberType:other", "safeSet:other", "scannerPool:pool", "textUnmarshalerType:other"] := rfl

theorem initResets_eq : Generated.initResets = ["data", "off", "savedError"] := rfl

/-! ### shared state: the Go-level facts the world model of C09/C10 (JP/World) assumes -/

/-- S1: `scanner.reset` assigns exactly step, parseState, err, endTop -/
theorem scanReset_eq : Generated.scanResetAssigns = ["endTop", "err", "parseState", "step"] := rfl

/-- S2: `newScanner` = pool Get; bytes = 0; reset -/
theorem newScanner_eq : Generated.newScannerResets = true := rfl

/-- E1: `newEncodeState` resets the buffer and ptrLevel and panics on a non-empty ptrSeen -/
theorem newEncodeState_eq : Generated.newEncodeState = [true, true, true, true] := rfl

/-- D4: `lastKeys` has one assignment site (object decoded into a map) and two read sites
(the two `…WithKeys` entry points) -/
theorem lastKeys_sites_eq : Generated.lastKeysAssignSites = 1 ∧ Generated.lastKeysReadSites = 2 := ⟨rfl, rfl⟩

/-- D5: `disallowUnknownFields` is assigned only in stream.go (the Decoder's private state) -/
theorem disallowUnknown_eq : Generated.disallowUnknownAssignFiles = ["stream.go"] := rfl

/-- D1: each `Unmarshal*` takes one state from the pool, releases it by a deferred Put, and
calls `init` after the Get -/
theorem decodePool_eq : Generated.decodePoolDiscipline =
    [("Unmarshal", 1, 1, true), ("UnmarshalValid", 1, 1, true), ("UnmarshalValidWithKeys", 1, 1, true),
     ("UnmarshalWithKeys", 1, 1, true)] := rfl

/-- branch conditions of the byte-level codec functions the model transcribes (compact, Indent, HTMLEscape, string quoting and unquoting, the validity loop) -/
theorem codecConditions_eq : Generated.codecConditions =
        [("HTMLEscape", ["for i, c := range src", "if c == '<' || c == '>' || c == '&'", "if start < i", "if c == 0xE2 && i+2 < len(src) && src[i+1] == 0x80 && src[i+2]&^1 == 0xA8", "if start < i", "if start < len(src)"]),
     ("Indent", ["for _, c := range src", "if v == scanSkipSpace", "if v == scanError", "if needIndent && v != scanEndObject && v != scanEndArray", "if v == scanContinue", "switch c", "case '{', '['", "case ','", "case ':'", "case '}', ']'", "if needIndent", "else", "default", "if scan.eof() == scanError"]),
     ("Valid", []),
     ("checkValid", ["for _, c := range data", "if scan.step(scan, c) == scanError", "if scan.eof() == scanError"]),
     ("compact", ["for i, c := range src", "if escape && (c == '<' || c == '>' || c == '&')", "if start < i", "if escape && c == 0xE2 && i+2 < len(src) && src[i+1] == 0x80 && src[i+2]&^1 == 0xA8", "if start < i", "if v >= scanSkipSpace", "if v == scanError", "if start < i", "if scan.eof() == scanError", "if start < len(src)"]),
     ("decodeState.array", ["if u != nil", "if ut != nil", "switch v.Kind()", "case reflect.Interface", "if v.NumMethod() == 0", "default", "case reflect.Array, reflect.Slice", "for ", "if d.opcode == scanEndArray", "if v.Kind() == reflect.Slice", "if i >= v.Cap()", "if newcap < 4", "if i >= v.Len()", "if i < v.Len()", "if err := d.value(v.Index(i)); err != nil", "else", "if err := d.value(reflect.Value{}); err != nil", "if d.opcode == scanSkipSpace", "if d.opcode == scanEndArray", "if d.opcode != scanArrayValue", "if i < v.Len()", "if v.Kind() == reflect.Array", "for ; i < v.Len(); i++", "else", "if i == 0 && v.Kind() == reflect.Slice"]),
     ("decodeState.arrayInterface", ["for ", "if d.opcode == scanEndArray", "if d.opcode == scanSkipSpace", "if d.opcode == scanEndArray", "if d.opcode != scanArrayValue"]),
     ("decodeState.init", ["if d.errorContext != nil"]),
     ("decodeState.literalInterface", ["switch c := item[0]; c", "if !ok", "if c != '-' && (c < '0' || c > '9')", "if err != nil"]),
     ("decodeState.literalStore", ["if len(item) == 0", "if u != nil", "if ut != nil", "if item[0] != '\"'", "if fromQuoted", "switch item[0]", "case 'n'", "case 't', 'f'", "if !ok", "if fromQuoted", "switch c := item[0]; c", "if fromQuoted && string(item) != \"null\"", "switch v.Kind()", "case reflect.Interface, reflect.Pointer, reflect.Map, reflect.Slice", "if fromQuoted && string(item) != \"true\" && string(item) != \"false\"", "switch v.Kind()", "default", "if fromQuoted", "else", "case reflect.Bool", "case reflect.Interface", "if v.NumMethod() == 0", "else", "if !ok", "if fromQuoted", "switch v.Kind()", "default", "case reflect.Slice", "if v.Type().Elem().Kind() != reflect.Uint8", "if err != nil", "case reflect.String", "if v.Type() == numberType && !isValidNumber(string(s))", "case reflect.Interface", "if v.NumMethod() == 0", "else", "if c != '-' && (c < '0' || c > '9')", "if fromQuoted", "switch v.Kind()", "default", "if v.Kind() == reflect.String && v.Type() == numberType", "if fromQuoted", "case reflect.Interface", "if err != nil", "if v.NumMethod() != 0", "case reflect.Int, reflect.Int8, reflect.Int16, reflect.Int32, reflect.Int64", "if err != nil || v.OverflowInt(n)", "case reflect.Uint, reflect.Uint8, reflect.Uint16, reflect.Uint32, reflect.Uint64, reflect.Uintptr", "if err != nil || v.OverflowUint(n)", "case reflect.Float32, reflect.Float64", "if err != nil || v.OverflowFloat(n)"]),
     ("decodeState.object", ["if u != nil", "if ut != nil", "if v.Kind() == reflect.Interface && v.NumMethod() == 0", "switch v.Kind()", "case reflect.Map", "switch t.Key().Kind()", "default", "if !reflect.PointerTo(t.Key()).Implements(textUnmarshalerType)", "if v.IsNil()", "case reflect.Struct", "default", "if d.errorContext != nil", "for ", "if d.opcode == scanEndObject", "if d.opcode != scanBeginLiteral", "if !ok", "if v.Kind() == reflect.Map", "if !mapElem.IsValid()", "else", "else", "if i, ok := fields.nameIndex[string(key)]; ok", "else", "for i := range fields.list", "if ff.equalFold(ff.nameBytes, key)", "if f != nil", "for _, i := range f.index", "if subv.Kind() == reflect.Pointer", "if subv.IsNil()", "if !subv.CanSet()", "if d.errorContext == nil", "if d.disallowUnknownFields", "if d.opcode == scanSkipSpace", "if d.opcode != scanObjectKey", "if destring", "switch qv := d.valueQuoted().(type)", "case nil", "if err := d.literalStore(nullLiteral, subv, false); err != nil", "case string", "if err := d.literalStore([]byte(qv), subv, true); err != nil", "default", "else", "if err := d.value(subv); err != nil", "if v.Kind() == reflect.Map", "switch ", "case reflect.PointerTo(kt).Implements(textUnmarshalerType)", "if err := d.literalStore(item, kv, true); err != nil", "case kt.Kind() == reflect.String", "default", "switch kt.Kind()", "case reflect.Int, reflect.Int8, reflect.Int16, reflect.Int32, reflect.Int64", "if err != nil || reflect.Zero(kt).OverflowInt(n)", "case reflect.Uint, reflect.Uint8, reflect.Uint16, reflect.Uint32, reflect.Uint64, reflect.Uintptr", "if err != nil || reflect.Zero(kt).OverflowUint(n)", "default", "if kv.IsValid()", "if d.opcode == scanSkipSpace", "if d.errorContext != nil", "if d.opcode == scanEndObject", "if d.opcode != scanObjectValue", "if v.Kind() == reflect.Map"]),
     ("decodeState.objectInterface", ["for ", "if d.opcode == scanEndObject", "if d.opcode != scanBeginLiteral", "if !ok", "if d.opcode == scanSkipSpace", "if d.opcode != scanObjectKey", "if d.opcode == scanSkipSpace", "if d.opcode == scanEndObject", "if d.opcode != scanObjectValue"]),
     ("decodeState.scanNext", ["if d.off < len(d.data)", "else"]),
     ("decodeState.scanWhile", ["for i < len(data)", "if newOp != op"]),
     ("decodeState.skip", ["for ", "if len(s.parseState) < depth"]),
     ("decodeState.unmarshal", ["if rv.Kind() != reflect.Pointer || rv.IsNil()", "if err != nil"]),
     ("decodeState.value", ["switch d.opcode", "default", "case scanBeginArray", "if v.IsValid()", "if err := d.array(v); err != nil", "else", "case scanBeginObject", "if v.IsValid()", "if err := d.object(v); err != nil", "else", "case scanBeginLiteral", "if v.IsValid()", "if err := d.literalStore(d.data[start:d.readIndex()], v, false); err != nil"]),
     ("decodeState.valueInterface", ["switch d.opcode", "default", "case scanBeginArray", "case scanBeginObject", "case scanBeginLiteral"]),
     ("encodeState.string", ["for i := 0; i < len(s);", "if b := s[i]; b < utf8.RuneSelf", "if htmlSafeSet[b] || (!escapeHTML && safeSet[b])", "if start < i", "switch b", "case '\\\\', '\"'", "case '\\n'", "case '\\r'", "case '\\t'", "default", "if c == utf8.RuneError && size == 1", "if start < i", "if c == '\\u2028' || c == '\\u2029'", "if start < i", "if start < len(s)"]),
     ("getu4", ["if len(s) < 6 || s[0] != '\\\\' || s[1] != 'u'", "for _, c := range s[2:6]", "switch ", "case '0' <= c && c <= '9'", "case 'a' <= c && c <= 'f'", "case 'A' <= c && c <= 'F'", "default"]),
     ("pushParseState", ["if len(s.parseState) <= maxNestingDepth"]),
     ("rescanLiteral", ["switch data[i-1]", "for ; i < len(data); i++", "switch data[i]", "case '\\\\'", "case '\"'", "for ; i < len(data); i++", "switch data[i]", "default", "if i < len(data)", "else"]),
     ("scanner.eof", ["if s.err != nil", "if s.endTop", "if s.endTop", "if s.err == nil"]),
     ("unquoteBytes", ["if len(s) < 2 || s[0] != '\"' || s[len(s)-1] != '\"'", "for r < len(s)", "if c == '\\\\' || c == '\"' || c < ' '", "if c < utf8.RuneSelf", "if rr == utf8.RuneError && size == 1", "if r == len(s)", "for r < len(s)", "if w >= len(b)-2*utf8.UTFMax", "switch c := s[r];", "case c == '\\\\'", "if r >= len(s)", "switch s[r]", "default", "case '\"', '\\\\', '/', '\\''", "case 'b'", "case 'f'", "case 'n'", "case 'r'", "case 't'", "case 'u'", "if rr < 0", "if utf16.IsSurrogate(rr)", "if dec := utf16.DecodeRune(rr, rr1); dec != unicode.ReplacementChar", "case c == '\"', c < ' '", "case c < utf8.RuneSelf", "default"])] := rfl

end Facts
end JP
