import JP.Generated.Facts
import JP.Impl.Merge
import JP.Codec.Stream

/-!
# Regenerated facts = what the hand-written model assumes (v5/internal/json)

`JP/Generated/Facts.lean` is rewritten from the Go sources on every run.  Each theorem
below equates one extracted fact with the corresponding assumption of the model; all are
closed computations checked by the kernel (`rfl` / `decide`).  The facts are split by
source file so that an edit to one file only touches the obligations of the properties
anchored there.
-/

namespace JP
namespace Facts

/-- the nesting limit of the scanner model and of the reference grammar -/
theorem maxNestingDepth_eq : Generated.maxNestingDepth = Scanner.maxNestingDepth
    ∧ Generated.maxNestingDepth = maxDepth := by decide

/-- `safeSet` / `htmlSafeSet` of tables.go are the model's `safe` / `htmlSafe` -/
theorem safeSet_eq : ∀ i : Fin 128, Generated.safeSet[i.val]? = some (safe (UInt8.ofNat i.val)) := by decide

theorem htmlSafeSet_eq : ∀ i : Fin 128, Generated.htmlSafeSet[i.val]? = some (htmlSafe (UInt8.ofNat i.val)) := by decide

theorem hex_eq : ∀ i : Fin 16, Generated.hexDigits[i.val]? = some (hexDigit i.val).toNat := by decide

/-- scanner opcodes and parse states in their `iota` order (the model uses the numbers) -/
theorem scanOpcodes_eq : Generated.scanOpcodes =
    ["scanContinue", "scanBeginLiteral", "scanBeginObject", "scanObjectKey", "scanObjectValue", "scanEndObject",
     "scanBeginArray", "scanArrayValue", "scanEndArray", "scanSkipSpace", "scanEnd", "scanError"]
    ∧ Generated.parseStates = ["parseObjectKey", "parseObjectValue", "parseArrayValue"] := ⟨rfl, rfl⟩

/-- every `Unmarshal*` entry point of the fork keeps number literals -/
theorem useNumber_eq : Generated.useNumberForced = [true, true, true, true] := rfl

/-- the pools and caches of the embedded codec: nothing else is shared between calls -/
theorem codecVars_eq : Generated.codecVars =
    ["ds:pool", "encodeStatePool:pool", "encoderCache:syncmap", "fieldCache:syncmap", "hex:other", "htmlSafeSet:other",
     "nullLiteral:other", "numberType:other", "safeSet:other", "scannerPool:pool", "textUnmarshalerType:other"] := rfl

theorem initResets_eq : Generated.initResets = ["data", "off", "savedError"] := rfl

/-! ### shared state: the Go-level facts the world model of C09/C10 (JP/World) assumes -/

/-- S1: `scanner.reset` assigns exactly step, parseState, err, endTop -/
theorem scanReset_eq : Generated.scanResetAssigns = ["endTop", "err", "parseState", "step"] := rfl

/-- S2: `newScanner` = pool Get; bytes = 0; reset -/
theorem newScanner_eq : Generated.newScannerResets = true := rfl

/-- E1: `newEncodeState` resets the buffer and ptrLevel and panics on a non-empty ptrSeen -/
theorem newEncodeState_eq : Generated.newEncodeState = [true, true, true, true] := rfl

/-- D4: `lastKeys` has one assignment site (object decoded into a map) and two read sites
(the two `…WithKeys` entry points) -/
theorem lastKeys_sites_eq : Generated.lastKeysAssignSites = 1 ∧ Generated.lastKeysReadSites = 2 := ⟨rfl, rfl⟩

/-- D5: `disallowUnknownFields` is assigned only in stream.go (the Decoder's private state) -/
theorem disallowUnknown_eq : Generated.disallowUnknownAssignFiles = ["stream.go"] := rfl

/-- D1: each `Unmarshal*` takes one state from the pool, releases it by a deferred Put, and
calls `init` after the Get -/
theorem decodePool_eq : Generated.decodePoolDiscipline =
    [("Unmarshal", 1, 1, true), ("UnmarshalValid", 1, 1, true), ("UnmarshalValidWithKeys", 1, 1, true),
     ("UnmarshalWithKeys", 1, 1, true)] := rfl

/-- branch conditions of the byte-level codec functions the model transcribes (compact, Indent, HTMLEscape, string quoting and unquoting, the validity loop) -/
theorem codecConditions_eq : Generated.codecConditions =
                [("Decoder.Decode", ["if dec.err != nil", "if err := dec.tokenPrepareForDecode(); err != nil", "if !dec.tokenValueAllowed()", "if err != nil"]),
     ("Decoder.More", []),
     ("Decoder.Token", ["for ", "if err != nil", "switch c", "case '['", "if !dec.tokenValueAllowed()", "case ']'", "if dec.tokenState != tokenArrayStart && dec.tokenState != tokenArrayComma", "case '{'", "if !dec.tokenValueAllowed()", "case '}'", "if dec.tokenState != tokenObjectStart && dec.tokenState != tokenObjectComma", "case ':'", "if dec.tokenState != tokenObjectColon", "case ','", "if dec.tokenState == tokenArrayComma", "if dec.tokenState == tokenObjectComma", "case '\"'", "if dec.tokenState == tokenObjectStart || dec.tokenState == tokenObjectKey", "if err != nil", "default", "if !dec.tokenValueAllowed()", "if err := dec.Decode(&x); err != nil"]),
     ("Decoder.peek", ["for ", "for i := dec.scanp; i < len(dec.buf); i++", "if isSpace(c)", "if err != nil"]),
     ("Decoder.readValue", ["for scanp >= 0", "for ; scanp < len(dec.buf); scanp++", "switch dec.scan.step(&dec.scan, c)", "case scanEnd", "case scanEndObject, scanEndArray", "if stateEndValue(&dec.scan, ' ') == scanEnd", "case scanError", "if err != nil", "if err == io.EOF", "if dec.scan.step(&dec.scan, ' ') == scanEnd", "if nonSpace(dec.buf)"]),
     ("Decoder.refill", ["if dec.scanp > 0", "if cap(dec.buf)-len(dec.buf) < minRead"]),
     ("Decoder.tokenPrepareForDecode", ["switch dec.tokenState", "case tokenArrayComma", "if err != nil", "if c != ','", "case tokenObjectColon", "if err != nil", "if c != ':'"]),
     ("Decoder.tokenValueAllowed", ["switch dec.tokenState", "case tokenTopValue, tokenArrayStart, tokenArrayValue, tokenObjectValue"]),
     ("Decoder.tokenValueEnd", ["switch dec.tokenState", "case tokenArrayStart, tokenArrayValue", "case tokenObjectValue"]),
     ("Encoder.Encode", ["if enc.err != nil", "if err != nil", "if enc.indentPrefix != \"\" || enc.indentValue != \"\"", "if enc.indentBuf == nil", "if err != nil", "if _, err = enc.w.Write(b); err != nil"]),
     ("HTMLEscape", ["for i, c := range src", "if c == '<' || c == '>' || c == '&'", "if start < i", "if c == 0xE2 && i+2 < len(src) && src[i+1] == 0x80 && src[i+2]&^1 == 0xA8", "if start < i", "if start < len(src)"]),
     ("Indent", ["for _, c := range src", "if v == scanSkipSpace", "if v == scanError", "if needIndent && v != scanEndObject && v != scanEndArray", "if v == scanContinue", "switch c", "case '{', '['", "case ','", "case ':'", "case '}', ']'", "if needIndent", "else", "default", "if scan.eof() == scanError"]),
     ("Valid", []),
     ("arrayEncoder.encode", ["for i := 0; i < n; i++", "if i > 0"]),
     ("boolEncoder", ["if opts.quoted", "if v.Bool()", "else", "if opts.quoted"]),
     ("byIndex.Less", ["for k, xik := range x[i].index", "if k >= len(x[j].index)", "if xik != x[j].index[k]"]),
     ("checkValid", ["for _, c := range data", "if scan.step(scan, c) == scanError", "if scan.eof() == scanError"]),
     ("compact", ["for i, c := range src", "if escape && (c == '<' || c == '>' || c == '&')", "if start < i", "if escape && c == 0xE2 && i+2 < len(src) && src[i+1] == 0x80 && src[i+2]&^1 == 0xA8", "if start < i", "if v >= scanSkipSpace", "if v == scanError", "if start < i", "if scan.eof() == scanError", "if start < len(src)"]),
     ("decodeState.array", ["if u != nil", "if ut != nil", "switch v.Kind()", "case reflect.Interface", "if v.NumMethod() == 0", "default", "case reflect.Array, reflect.Slice", "for ", "if d.opcode == scanEndArray", "if v.Kind() == reflect.Slice", "if i >= v.Cap()", "if newcap < 4", "if i >= v.Len()", "if i < v.Len()", "if err := d.value(v.Index(i)); err != nil", "else", "if err := d.value(reflect.Value{}); err != nil", "if d.opcode == scanSkipSpace", "if d.opcode == scanEndArray", "if d.opcode != scanArrayValue", "if i < v.Len()", "if v.Kind() == reflect.Array", "for ; i < v.Len(); i++", "else", "if i == 0 && v.Kind() == reflect.Slice"]),
     ("decodeState.arrayInterface", ["for ", "if d.opcode == scanEndArray", "if d.opcode == scanSkipSpace", "if d.opcode == scanEndArray", "if d.opcode != scanArrayValue"]),
     ("decodeState.init", ["if d.errorContext != nil"]),
     ("decodeState.literalInterface", ["switch c := item[0]; c", "if !ok", "if c != '-' && (c < '0' || c > '9')", "if err != nil"]),
     ("decodeState.literalStore", ["if len(item) == 0", "if u != nil", "if ut != nil", "if item[0] != '\"'", "if fromQuoted", "switch item[0]", "case 'n'", "case 't', 'f'", "if !ok", "if fromQuoted", "switch c := item[0]; c", "if fromQuoted && string(item) != \"null\"", "switch v.Kind()", "case reflect.Interface, reflect.Pointer, reflect.Map, reflect.Slice", "if fromQuoted && string(item) != \"true\" && string(item) != \"false\"", "switch v.Kind()", "default", "if fromQuoted", "else", "case reflect.Bool", "case reflect.Interface", "if v.NumMethod() == 0", "else", "if !ok", "if fromQuoted", "switch v.Kind()", "default", "case reflect.Slice", "if v.Type().Elem().Kind() != reflect.Uint8", "if err != nil", "case reflect.String", "if v.Type() == numberType && !isValidNumber(string(s))", "case reflect.Interface", "if v.NumMethod() == 0", "else", "if c != '-' && (c < '0' || c > '9')", "if fromQuoted", "switch v.Kind()", "default", "if v.Kind() == reflect.String && v.Type() == numberType", "if fromQuoted", "case reflect.Interface", "if err != nil", "if v.NumMethod() != 0", "case reflect.Int, reflect.Int8, reflect.Int16, reflect.Int32, reflect.Int64", "if err != nil || v.OverflowInt(n)", "case reflect.Uint, reflect.Uint8, reflect.Uint16, reflect.Uint32, reflect.Uint64, reflect.Uintptr", "if err != nil || v.OverflowUint(n)", "case reflect.Float32, reflect.Float64", "if err != nil || v.OverflowFloat(n)"]),
     ("decodeState.object", ["if u != nil", "if ut != nil", "if v.Kind() == reflect.Interface && v.NumMethod() == 0", "switch v.Kind()", "case reflect.Map", "switch t.Key().Kind()", "default", "if !reflect.PointerTo(t.Key()).Implements(textUnmarshalerType)", "if v.IsNil()", "case reflect.Struct", "default", "if d.errorContext != nil", "for ", "if d.opcode == scanEndObject", "if d.opcode != scanBeginLiteral", "if !ok", "if v.Kind() == reflect.Map", "if !mapElem.IsValid()", "else", "else", "if i, ok := fields.nameIndex[string(key)]; ok", "else", "for i := range fields.list", "if ff.equalFold(ff.nameBytes, key)", "if f != nil", "for _, i := range f.index", "if subv.Kind() == reflect.Pointer", "if subv.IsNil()", "if !subv.CanSet()", "if d.errorContext == nil", "if d.disallowUnknownFields", "if d.opcode == scanSkipSpace", "if d.opcode != scanObjectKey", "if destring", "switch qv := d.valueQuoted().(type)", "case nil", "if err := d.literalStore(nullLiteral, subv, false); err != nil", "case string", "if err := d.literalStore([]byte(qv), subv, true); err != nil", "default", "else", "if err := d.value(subv); err != nil", "if v.Kind() == reflect.Map", "switch ", "case reflect.PointerTo(kt).Implements(textUnmarshalerType)", "if err := d.literalStore(item, kv, true); err != nil", "case kt.Kind() == reflect.String", "default", "switch kt.Kind()", "case reflect.Int, reflect.Int8, reflect.Int16, reflect.Int32, reflect.Int64", "if err != nil || reflect.Zero(kt).OverflowInt(n)", "case reflect.Uint, reflect.Uint8, reflect.Uint16, reflect.Uint32, reflect.Uint64, reflect.Uintptr", "if err != nil || reflect.Zero(kt).OverflowUint(n)", "default", "if kv.IsValid()", "if d.opcode == scanSkipSpace", "if d.errorContext != nil", "if d.opcode == scanEndObject", "if d.opcode != scanObjectValue", "if v.Kind() == reflect.Map"]),
     ("decodeState.objectInterface", ["for ", "if d.opcode == scanEndObject", "if d.opcode != scanBeginLiteral", "if !ok", "if d.opcode == scanSkipSpace", "if d.opcode != scanObjectKey", "if d.opcode == scanSkipSpace", "if d.opcode == scanEndObject", "if d.opcode != scanObjectValue"]),
     ("decodeState.scanNext", ["if d.off < len(d.data)", "else"]),
     ("decodeState.scanWhile", ["for i < len(data)", "if newOp != op"]),
     ("decodeState.skip", ["for ", "if len(s.parseState) < depth"]),
     ("decodeState.unmarshal", ["if rv.Kind() != reflect.Pointer || rv.IsNil()", "if err != nil"]),
     ("decodeState.value", ["switch d.opcode", "default", "case scanBeginArray", "if v.IsValid()", "if err := d.array(v); err != nil", "else", "case scanBeginObject", "if v.IsValid()", "if err := d.object(v); err != nil", "else", "case scanBeginLiteral", "if v.IsValid()", "if err := d.literalStore(d.data[start:d.readIndex()], v, false); err != nil"]),
     ("decodeState.valueInterface", ["switch d.opcode", "default", "case scanBeginArray", "case scanBeginObject", "case scanBeginLiteral"]),
     ("dominantField", ["if len(fields) > 1 && len(fields[0].index) == len(fields[1].index) && fields[0].tag == fields[1].tag"]),
     ("encodeByteSlice", ["if v.IsNil()", "if encodedLen <= len(e.scratch)", "if encodedLen <= 1024", "else"]),
     ("encodeState.string", ["for i := 0; i < len(s);", "if b := s[i]; b < utf8.RuneSelf", "if htmlSafeSet[b] || (!escapeHTML && safeSet[b])", "if start < i", "switch b", "case '\\\\', '\"'", "case '\\n'", "case '\\r'", "case '\\t'", "default", "if c == utf8.RuneError && size == 1", "if start < i", "if c == '\\u2028' || c == '\\u2029'", "if start < i", "if start < len(s)"]),
     ("getu4", ["if len(s) < 6 || s[0] != '\\\\' || s[1] != 'u'", "for _, c := range s[2:6]", "switch ", "case '0' <= c && c <= '9'", "case 'a' <= c && c <= 'f'", "case 'A' <= c && c <= 'F'", "default"]),
     ("intEncoder", ["if opts.quoted", "if opts.quoted"]),
     ("interfaceEncoder", ["if v.IsNil()"]),
     ("isEmptyValue", ["switch v.Kind()", "case reflect.Array, reflect.Map, reflect.Slice, reflect.String", "case reflect.Bool", "case reflect.Int, reflect.Int8, reflect.Int16, reflect.Int32, reflect.Int64", "case reflect.Uint, reflect.Uint8, reflect.Uint16, reflect.Uint32, reflect.Uint64, reflect.Uintptr", "case reflect.Float32, reflect.Float64", "case reflect.Interface, reflect.Pointer"]),
     ("isValidNumber", ["if s == \"\"", "if s[0] == '-'", "if s == \"\"", "switch ", "default", "case s[0] == '0'", "case '1' <= s[0] && s[0] <= '9'", "for len(s) > 0 && '0' <= s[0] && s[0] <= '9'", "if len(s) >= 2 && s[0] == '.' && '0' <= s[1] && s[1] <= '9'", "for len(s) > 0 && '0' <= s[0] && s[0] <= '9'", "if len(s) >= 2 && (s[0] == 'e' || s[0] == 'E')", "if s[0] == '+' || s[0] == '-'", "if s == \"\"", "for len(s) > 0 && '0' <= s[0] && s[0] <= '9'"]),
     ("isValidTag", ["if s == \"\"", "for _, c := range s", "switch ", "case strings.ContainsRune(\"!#$%&()*+-./:;<=>?@[]^_{|}~ \", c)", "case !unicode.IsLetter(c) && !unicode.IsDigit(c)"]),
     ("mapEncoder.encode", ["if v.IsNil()", "if e.ptrLevel++; e.ptrLevel > startDetectingCyclesAfter", "if _, ok := e.ptrSeen[ptr]; ok", "for i := 0; mi.Next(); i++", "if err := sv[i].resolve(); err != nil", "for i, kv := range sv", "if i > 0"]),
     ("newMapEncoder", ["switch t.Key().Kind()", "default", "if !t.Key().Implements(textMarshalerType)"]),
     ("newSliceEncoder", ["if t.Elem().Kind() == reflect.Uint8", "if !p.Implements(marshalerType) && !p.Implements(textMarshalerType)"]),
     ("newTypeEncoder", ["if t.Implements(redirMarshalerType)", "if t.Implements(trustMarshalerType)", "if t.Kind() != reflect.Pointer && allowAddr && reflect.PointerTo(t).Implements(marshalerType)", "if t.Implements(marshalerType)", "if t.Kind() != reflect.Pointer && allowAddr && reflect.PointerTo(t).Implements(textMarshalerType)", "if t.Implements(textMarshalerType)", "switch t.Kind()", "case reflect.Bool", "case reflect.Int, reflect.Int8, reflect.Int16, reflect.Int32, reflect.Int64", "case reflect.Uint, reflect.Uint8, reflect.Uint16, reflect.Uint32, reflect.Uint64, reflect.Uintptr", "case reflect.Float32", "case reflect.Float64", "case reflect.String", "case reflect.Interface", "case reflect.Struct", "case reflect.Map", "case reflect.Slice", "case reflect.Array", "case reflect.Pointer", "default"]),
     ("nonSpace", ["for _, c := range b", "if !isSpace(c)"]),
     ("parseTag", []),
     ("ptrEncoder.encode", ["if v.IsNil()", "if e.ptrLevel++; e.ptrLevel > startDetectingCyclesAfter", "if _, ok := e.ptrSeen[ptr]; ok"]),
     ("pushParseState", ["if len(s.parseState) <= maxNestingDepth"]),
     ("reflectWithString.resolve", ["if w.k.Kind() == reflect.String", "if tm, ok := w.k.Interface().(encoding.TextMarshaler); ok", "if w.k.Kind() == reflect.Pointer && w.k.IsNil()", "switch w.k.Kind()", "case reflect.Int, reflect.Int8, reflect.Int16, reflect.Int32, reflect.Int64", "case reflect.Uint, reflect.Uint8, reflect.Uint16, reflect.Uint32, reflect.Uint64, reflect.Uintptr"]),
     ("rescanLiteral", ["switch data[i-1]", "for ; i < len(data); i++", "switch data[i]", "case '\\\\'", "case '\"'", "for ; i < len(data); i++", "switch data[i]", "default", "if i < len(data)", "else"]),
     ("scanner.eof", ["if s.err != nil", "if s.endTop", "if s.endTop", "if s.err == nil"]),
     ("sliceEncoder.encode", ["if v.IsNil()", "if e.ptrLevel++; e.ptrLevel > startDetectingCyclesAfter", "if _, ok := e.ptrSeen[ptr]; ok"]),
     ("stringEncoder", ["if v.Type() == numberType", "if numStr == \"\"", "if !isValidNumber(numStr)", "if opts.quoted", "if opts.quoted", "if opts.quoted", "else"]),
     ("structEncoder.encode", ["for i := range se.fields.list", "for _, i := range f.index", "if fv.Kind() == reflect.Pointer", "if fv.IsNil()", "if f.omitEmpty && isEmptyValue(fv)", "if opts.escapeHTML", "else", "if next == '{'", "else"]),
     ("tagOptions.Contains", ["if len(o) == 0", "for s != \"\"", "if name == optionName"]),
     ("typeByIndex", ["for _, i := range index", "if t.Kind() == reflect.Pointer"]),
     ("typeFields", ["for len(next) > 0", "for _, f := range current", "if visited[f.typ]", "for i := 0; i < f.typ.NumField(); i++", "if sf.Anonymous", "if t.Kind() == reflect.Pointer", "if !sf.IsExported() && t.Kind() != reflect.Struct", "if !sf.IsExported()", "if tag == \"-\"", "if !isValidTag(name)", "if ft.Name() == \"\" && ft.Kind() == reflect.Pointer", "if opts.Contains(\"string\")", "switch ft.Kind()", "if name != \"\" || !sf.Anonymous || ft.Kind() != reflect.Struct", "if name == \"\"", "if count[f.typ] > 1", "if nextCount[ft] == 1", "if x[i].name != x[j].name", "if len(x[i].index) != len(x[j].index)", "if x[i].tag != x[j].tag", "for advance, i := 0, 0; i < len(fields); i += advance", "for advance = 1; i+advance < len(fields); advance++", "if fj.name != name", "if ok", "for i := range fields", "for i, field := range fields"]),
     ("uintEncoder", ["if opts.quoted", "if opts.quoted"]),
     ("unquoteBytes", ["if len(s) < 2 || s[0] != '\"' || s[len(s)-1] != '\"'", "for r < len(s)", "if c == '\\\\' || c == '\"' || c < ' '", "if c < utf8.RuneSelf", "if rr == utf8.RuneError && size == 1", "if r == len(s)", "for r < len(s)", "if w >= len(b)-2*utf8.UTFMax", "switch c := s[r];", "case c == '\\\\'", "if r >= len(s)", "switch s[r]", "default", "case '\"', '\\\\', '/', '\\''", "case 'b'", "case 'f'", "case 'n'", "case 'r'", "case 't'", "case 'u'", "if rr < 0", "if utf16.IsSurrogate(rr)", "if dec := utf16.DecodeRune(rr, rr1); dec != unicode.ReplacementChar", "case c == '\"', c < ' '", "case c < utf8.RuneSelf", "default"])] := rfl

/-- the token states of stream.go in their `iota` order are the constructors of the stream model's `TokState` -/
def tokStateName : Codec.Stream.TokState → String
  | .topValue => "tokenTopValue" | .arrayStart => "tokenArrayStart" | .arrayValue => "tokenArrayValue"
  | .arrayComma => "tokenArrayComma" | .objectStart => "tokenObjectStart" | .objectKey => "tokenObjectKey"
  | .objectColon => "tokenObjectColon" | .objectValue => "tokenObjectValue" | .objectComma => "tokenObjectComma"

theorem tokenStates_eq : Generated.tokenStates =
    ([.topValue, .arrayStart, .arrayValue, .arrayComma, .objectStart, .objectKey, .objectColon, .objectValue,
      .objectComma] : List Codec.Stream.TokState).map tokStateName := rfl

/-- what the stream model assumes beyond the branch conditions: the sticky `dec.err` is assigned in `readValue` only
(twice: scanner error, reader error) — not by `Decode` for the error of `unmarshal`, not by `peek`, `Token`,
`tokenPrepareForDecode`; the expression `More` returns; `Encode` appends one newline -/
theorem streamShape_eq : Generated.streamShape =
    [("Decode.stickyAssigns", "0"), ("readValue.stickyAssigns", "2"), ("refill.stickyAssigns", "0"),
     ("Token.stickyAssigns", "0"), ("More.stickyAssigns", "0"), ("peek.stickyAssigns", "0"),
     ("tokenPrepareForDecode.stickyAssigns", "0"), ("tokenValueAllowed.stickyAssigns", "0"),
     ("tokenValueEnd.stickyAssigns", "0"), ("tokenError.stickyAssigns", "0"),
     ("More.returns", "err == nil && c != ']' && c != '}'"), ("Encode.newline", "1")] := rfl

end Facts
end JP
