import JP.Lemmas.TypedDecPos3
import JP.Lemmas.TypedDecSem3
import JP.Lemmas.TypedDecSkip

set_option linter.unusedSimpArgs false
set_option linter.unusedVariables false

/-!
# C17 — the typed decoder never panics and never runs out of fuel on a well-formed text (ALL decodable types)

`JP/Lemmas/TypedDecPos1..3.lean` redo the positional scanner lemmas of the untyped decoder for the three typed
loops (`arrLoop` on slices and fixed arrays, `mapLoop`, `structLoop`): whatever the target type, the value
already in the target, `canSet`, the saved error and `lastKeys`, the decoder stands just past a well-formed
element after `d.value(v)`, after `d.value(reflect.Value{})` (unknown member, element beyond a fixed array,
blocked walk), after `valueQuoted` + `literalStore` (`,string`), and after `UnmarshalTypeError` + `d.skip()`.
-/

namespace JP.C17
open JP JP.Codec JP.Codec.Typed JP.Codec.TDec JP.Scanner

/-- On every well-formed text and every `decodable` type (no well-formedness of the type is needed) `Unmarshal`
returns: no phase panic, no index panic, no `reflect.Value.Set` panic, and the fuel of the model suffices. -/
theorem typeddec_no_panic_no_fuel (t : GoType) (text : Bytes) (c : Cst) (hd : decodable t = true)
    (hp : parseCst text = some c) : ∃ v e, unmarshalTyped t text = .ok (v, e) := by
  obtain ⟨rest, hpv, hrest⟩ := parseCst_inv text c hp
  obtain ⟨x, bs', hx⟩ := parseValue_cons_of_some hpv
  obtain ⟨ws, hdata, hws⟩ := skipWs_prefix text
  have hxws : isWs x = false := skipWs_head_nonws text x bs' hx
  have hsw := scanWhile_ws' text [] ws x bs' (bv []) 0 none [] (by rw [hx] at hdata; simpa using hdata) hws
    (fun c hc => step_bv_ws [] c hc) hxws
  obtain ⟨vt, _, _, hcons⟩ := (pos_all (text.length + 1)).1 0 (skipWs text) c rest hpv hpv [] rfl (.inl rfl) ws x bs' hx
    (delimW_of_skipWs_nil rest hrest)
  have hval := (hcons none [] (fuelFor text) (by simp only [fuelFor]; omega)).val t (zeroDV t) true
    ⟨hd, zero_typed t, fun _ => rfl⟩
  have hvalid := valid_of_parseCst text c hp
  simp only [unmarshalTyped, hvalid, Bool.not_true, Bool.false_eq_true, if_false]
  have e0 : ({ data := text, off := 0, opcode := 0, scan := Scan.init, savedError := none, lastKeys := [] } : DState)
      = atD text ([] : Bytes).length (bv [], 0) none [] := rfl
  rw [e0, hsw]
  simp only [List.nil_append]
  rw [← hdata] at hval
  generalize value (fuelFor text) t (zeroDV t) true (atD text (ws.length + 1) (step (bv []) x) none []) = r at hval ⊢
  cases r with
  | ok d v => exact ⟨_, _, rfl⟩
  | abort d v e => exact ⟨_, _, rfl⟩
  | panic => exact hval.elim
  | fuel => exact hval.elim

/-- the open goal of `C17typeddec.lean` is closed (its hypothesis `t.wf` is not needed) -/
theorem typeddec_no_panic_no_fuel_goal : typeddec_no_panic_no_fuelGoal :=
  fun t text c _ hd hp => typeddec_no_panic_no_fuel t text c hd hp

/-- `decodable` is exactly what is needed on struct types at the top: see `typeddec_panic_on_unsettable_pointer`
(`C17typeddec.lean`) for a type that is not decodable and a well-formed text on which the decoder panics. -/
theorem typeddec_decodable_needed :
    decodable dOuter9 = false ∧ (parseCst (ascii "{\"in\":null}")).isSome = true ∧
    isPanic (unmarshalTyped dOuter9 (ascii "{\"in\":null}")) = true :=
  ⟨typeddec_panic_on_unsettable_pointer.2.1, typeddec_panic_on_unsettable_pointer.2.2.1,
    typeddec_panic_on_unsettable_pointer.2.2.2.1⟩

/-! ### the decoded value as a function of the parse tree of the WHOLE text

`TDec.tvalue c t cur` (`JP/Lemmas/TypedDecSem1.lean`) is a structural recursion over the parse tree: no scanner, no
offsets, no fuel.  `tstruct` folds `tmember` over the members of an object, `tmap` / `tarr` are the two other loops. -/

/-- the run of `d.value(&x)` at the top computes `tvalue c t zero` -/
theorem top_sem (t : GoType) (text : Bytes) (c : Cst) (hd : decodable t = true) (hp : parseCst text = some c) :
    ∃ Q, RSem Q (tvalue c t (zeroDV t)) (value (fuelFor text) t (zeroDV t) true
      (scanWhile scanSkipSpace
        { data := text, off := 0, opcode := 0, scan := Scan.init, savedError := none, lastKeys := [] })) := by
  obtain ⟨rest, hpv, hrest⟩ := parseCst_inv text c hp
  obtain ⟨x, bs', hx⟩ := parseValue_cons_of_some hpv
  obtain ⟨ws, hdata, hws⟩ := skipWs_prefix text
  have hxws : isWs x = false := skipWs_head_nonws text x bs' hx
  have hsw := scanWhile_ws' text [] ws x bs' (bv []) 0 none [] (by rw [hx] at hdata; simpa using hdata) hws
    (fun c hc => step_bv_ws [] c hc) hxws
  obtain ⟨vt, _, _, hcons⟩ := (sem_all (text.length + 1)).1 0 (skipWs text) c rest hpv hpv [] rfl (.inl rfl) ws x bs' hx
    (delimW_of_skipWs_nil rest hrest)
  have hval := (hcons none [] (fuelFor text) (by simp only [fuelFor]; omega)).val t (zeroDV t) true
    ⟨hd, zero_typed t, fun _ => rfl⟩
  have e0 : ({ data := text, off := 0, opcode := 0, scan := Scan.init, savedError := none, lastKeys := [] } : DState)
      = atD text ([] : Bytes).length (bv [], 0) none [] := rfl
  rw [e0, hsw]
  simp only [List.nil_append]
  rw [← hdata] at hval
  exact ⟨_, hval⟩

/-- On every well-formed text (parse tree `c`) and every decodable type, the variable holds `tvalue c t zero`
afterwards — whether `Unmarshal` returns `nil`, a saved `UnmarshalTypeError` or an error `return`ed half-way. -/
theorem typeddec_value_of_tree (t : GoType) (text : Bytes) (c : Cst) (hd : decodable t = true)
    (hp : parseCst text = some c) :
    ∃ e, unmarshalTyped t text = .ok (toGoVal t (tvalue c t (zeroDV t)).val, e) := by
  obtain ⟨Q, hval⟩ := top_sem t text c hd hp
  have hvalid := valid_of_parseCst text c hp
  simp only [unmarshalTyped, hvalid, Bool.not_true, Bool.false_eq_true, if_false]
  generalize value (fuelFor text) t (zeroDV t) true (scanWhile scanSkipSpace
    { data := text, off := 0, opcode := 0, scan := Scan.init, savedError := none, lastKeys := [] }) = r at hval ⊢
  cases r with
  | ok d v => rw [hval.2]; exact ⟨_, rfl⟩
  | abort d v e => have h2 : tvalue c t (zeroDV t) = .abort v := hval; rw [h2]; exact ⟨_, rfl⟩
  | panic => exact hval.elim
  | fuel => exact hval.elim

/-- ... and when the tree decoder ends with `TR.abort` (a Go `return err` inside `literalStore`: an invalid
`json.Number`, a `,string` member that is no quoted literal of the field's kind) `Unmarshal` returns an error -/
theorem typeddec_hard_error_of_tree (t : GoType) (text : Bytes) (c : Cst) (hd : decodable t = true)
    (hp : parseCst text = some c) (w : DV) (hw : tvalue c t (zeroDV t) = .abort w) :
    ∃ e, unmarshalTyped t text = .ok (toGoVal t w, some e) := by
  obtain ⟨Q, hval⟩ := top_sem t text c hd hp
  have hvalid := valid_of_parseCst text c hp
  simp only [unmarshalTyped, hvalid, Bool.not_true, Bool.false_eq_true, if_false]
  generalize value (fuelFor text) t (zeroDV t) true (scanWhile scanSkipSpace
    { data := text, off := 0, opcode := 0, scan := Scan.init, savedError := none, lastKeys := [] }) = r at hval ⊢
  cases r with
  | ok d v => have h2 := hval.2; rw [hw] at h2; cases h2
  | abort d v e =>
    have h2 : tvalue c t (zeroDV t) = .abort v := hval
    rw [hw] at h2
    cases h2
    exact ⟨e, rfl⟩
  | panic => exact hval.elim
  | fuel => exact hval.elim

/-- an object into a struct: the fold of `tmember` over the members, in text order -/
theorem tvalue_struct (ms : List (Bytes × Cst)) (n : Bytes) (fs : List (FieldInfo × GoType)) (cur : DV) :
    tvalue (.obj ms) (.struct n fs) cur = tstruct ms (.struct n fs) (typeFields (.struct n fs)) cur := by
  simp only [tvalue, derefT, derefV]
  cases tstruct ms (.struct n fs) (typeFields (.struct n fs)) cur <;> rfl

/-- a member whose name matches no field (neither exactly nor by the field's fold function) leaves the struct as it was -/
theorem tmember_unknown (c : Cst) (t : GoType) (flds : List Fld) (cur : DV) (key : Bytes)
    (h : findField flds key = none) : tmember c t flds cur key = .ok cur := by
  simp only [tmember, h]

/-- the members with unknown names can be deleted from the tree, wherever they stand and whatever their values are -/
theorem tstruct_filter_known (t : GoType) (flds : List Fld) :
    ∀ (ms : List (Bytes × Cst)) (cur : DV),
      tstruct ms t flds cur = tstruct (ms.filter fun kv => (findField flds (unquote kv.1)).isSome) t flds cur
  | [], cur => rfl
  | (k, c) :: r, cur => by
    cases hf : findField flds (unquote k) with
    | none =>
      have : ((k, c) :: r).filter (fun kv => (findField flds (unquote kv.1)).isSome) =
          r.filter (fun kv => (findField flds (unquote kv.1)).isSome) := by
        simp [List.filter, hf]
      rw [this, tstruct_cons, tmember_unknown c t flds cur _ hf]
      exact tstruct_filter_known t flds r cur
    | some f =>
      have : ((k, c) :: r).filter (fun kv => (findField flds (unquote kv.1)).isSome) =
          (k, c) :: r.filter (fun kv => (findField flds (unquote kv.1)).isSome) := by
        simp [List.filter, hf]
      rw [this, tstruct_cons, tstruct_cons]
      cases tmember c t flds cur (unquote k) with
      | abort v => rfl
      | ok v => exact tstruct_filter_known t flds r v

/-- `typeddec_unknown_members_ignored` over the parse tree of the whole text: two well-formed object texts whose
members with KNOWN names (a field matches exactly or case-insensitively) are the same, in the same order, leave the
same value in a struct variable of a decodable type — the unknown members may differ in number, place, name and
value (containers included).  (The errors may differ: `Offset` counts bytes.) -/
theorem typeddec_unknown_members_ignored_tree (n : Bytes) (fs : List (FieldInfo × GoType))
    (hd : decodable (.struct n fs) = true) (text text' : Bytes) (ms ms' : List (Bytes × Cst))
    (hp : parseCst text = some (.obj ms)) (hp' : parseCst text' = some (.obj ms'))
    (hsame : ms.filter (fun kv => (findField (typeFields (.struct n fs)) (unquote kv.1)).isSome) =
      ms'.filter (fun kv => (findField (typeFields (.struct n fs)) (unquote kv.1)).isSome)) :
    ∃ v e e', unmarshalTyped (.struct n fs) text = .ok (v, e) ∧ unmarshalTyped (.struct n fs) text' = .ok (v, e') := by
  obtain ⟨e, h⟩ := typeddec_value_of_tree (.struct n fs) text _ hd hp
  obtain ⟨e', h'⟩ := typeddec_value_of_tree (.struct n fs) text' _ hd hp'
  refine ⟨_, e, e', h, ?_⟩
  rw [h', tvalue_struct, tvalue_struct, tstruct_filter_known _ _ ms, tstruct_filter_known _ _ ms', hsame]

/-- ... in particular a text none of whose member names is known leaves the zero value, without error -/
theorem typeddec_all_unknown_tree (n : Bytes) (fs : List (FieldInfo × GoType))
    (hd : decodable (.struct n fs) = true) (text : Bytes) (ms : List (Bytes × Cst))
    (hp : parseCst text = some (.obj ms))
    (hnone : ∀ kv ∈ ms, findField (typeFields (.struct n fs)) (unquote kv.1) = none) :
    ∃ e, unmarshalTyped (.struct n fs) text = .ok (toGoVal (.struct n fs) (zeroDV (.struct n fs)), e) := by
  obtain ⟨e, h⟩ := typeddec_value_of_tree (.struct n fs) text _ hd hp
  refine ⟨e, ?_⟩
  rw [h, tvalue_struct, tstruct_filter_known]
  have : ms.filter (fun kv => (findField (typeFields (.struct n fs)) (unquote kv.1)).isSome) = [] := by
    rw [List.filter_eq_nil_iff]
    intro kv hkv
    simp [hnone kv hkv]
  rw [this]
  simp only [tstruct, TR.val]

/-- ... with the error: NO error is reported and the variable keeps its zero value — for EVERY struct type
(`decodable` is not needed: a member that is skipped never reaches `indirect`), whatever the members' values are
(`JP/Lemmas/TypedDecSkip.lean`: `d.value(reflect.Value{})` leaves `savedError` alone) -/
theorem typeddec_all_unknown_no_error (n : Bytes) (fs : List (FieldInfo × GoType)) (text : Bytes)
    (ms : List (Bytes × Cst)) (hp : parseCst text = some (.obj ms))
    (hnone : ∀ kv ∈ ms, findField (typeFields (.struct n fs)) (unquote kv.1) = none) :
    unmarshalTyped (.struct n fs) text = .ok (toGoVal (.struct n fs) (zeroDV (.struct n fs)), none) := by
  obtain ⟨rest, hpv, hrest⟩ := parseCst_inv text _ hp
  obtain ⟨x, bs', hx⟩ := parseValue_cons_of_some hpv
  obtain ⟨ws, hdata, hws⟩ := skipWs_prefix text
  have hxws : isWs x = false := skipWs_head_nonws text x bs' hx
  have hsw := scanWhile_ws' text [] ws x bs' (bv []) 0 none [] (by rw [hx] at hdata; simpa using hdata) hws
    (fun c hc => step_bv_ws [] c hc) hxws
  obtain ⟨vt, _, _, hobj⟩ := (skip_all (text.length + 1)).1 0 (skipWs text) _ rest hpv hpv [] rfl (.inl rfl) ws x bs' hx
    (delimW_of_skipWs_nil rest hrest)
  obtain ⟨D', hval, hpost⟩ := hobj ms rfl n fs hnone (fuelFor text) (by simp only [fuelFor]; omega)
    (zeroDV (.struct n fs)) true none []
  have hvalid := valid_of_parseCst text _ hp
  simp only [unmarshalTyped, hvalid, Bool.not_true, Bool.false_eq_true, if_false]
  have e0 : ({ data := text, off := 0, opcode := 0, scan := Scan.init, savedError := none, lastKeys := [] } : DState)
      = atD text ([] : Bytes).length (bv [], 0) none [] := rfl
  rw [e0, hsw]
  simp only [List.nil_append]
  rw [← hdata] at hval
  rw [hval]
  simp only [hpost.se]

/-- the member `(k, c)` decoded into the field `f` (the walk along `f.index`, `,string` or not) -/
def tfield (f : Fld) (c : Cst) (t : GoType) (cur : DV) : TR DV :=
  trOf cur (atPath (fun t' cur' _ _ => TR.toR (if f.quoted then tquoted c t' cur' else tvalue c t' cur'))
    (fun _ => .ok dummyD ()) f.index t cur true dummyD)

/-- `typeddec_exact_before_fold` over the parse tree: a member whose (unquoted) name is EXACTLY the name of a field
of the struct type goes into that field — whatever fields come earlier in `typeFields` and match the name
case-insensitively — and the remaining members are decoded into the result. -/
theorem typeddec_exact_before_fold_tree (t : GoType) (f : Fld) (hf : f ∈ typeFields t) (k : Bytes) (c : Cst)
    (ms : List (Bytes × Cst)) (cur : DV) (hn : f.name = unquote k) :
    tstruct ((k, c) :: ms) t (typeFields t) cur =
      (match tfield f c t cur with
       | .abort v => .abort v
       | .ok v => tstruct ms t (typeFields t) v) := by
  rw [tstruct_cons]
  have := typeddec_exact_before_fold_unique t (unquote k) f hf hn
  simp only [tmember, this, tfield]
  generalize trOf cur (atPath (fun t' cur' _ _ => TR.toR (if f.quoted then tquoted c t' cur' else tvalue c t' cur'))
    (fun _ => .ok dummyD ()) f.index t cur true dummyD) = x
  cases x <;> rfl

/-- `typeddec_last_duplicate_wins_int/string` over the parse tree: what a well-formed number (string) literal leaves
in an integer (string) target does not depend on what the target held, e.g. from an earlier duplicate of the member -/
theorem typeddec_last_duplicate_wins_int_tree (k : IntKind) (c0 : UInt8) (rest : Bytes) (n : Int)
    (hc : c0 = 45 ∨ isDigit c0 = true) (hp : parseInt64 (c0 :: rest) = some n) (hr : k.inRange n = true) (cur : DV) :
    tvalue (.lit (c0 :: rest)) (.int k) cur = .ok (.int n) := by
  obtain ⟨_, _, h3, h4, h5, h6⟩ := numHead_spec c0 hc
  have hnd : ¬(c0 ≠ 45 ∧ (!isDigit c0) = true) := by
    rcases hc with h | h
    · exact fun hh => hh.1 h
    · simp [h]
  have htf : ¬(c0 = 116 ∨ c0 = 102) := fun h => h.elim h4 h5
  simp only [tvalue, tlit, h6, htf, h3, hnd, if_false, derefT, derefV, tNumber, hp, hr, if_true, TR.map, rewrap]

theorem typeddec_last_duplicate_wins_string_tree (b : Bytes) (hvb : VB b) (cur : DV) :
    tvalue (.str b) .string cur = .ok (.str (unquote b)) := by
  have hu := unquoteBytes_strText b hvb
  simp only [strText] at hu
  have e1 : ¬((34 : UInt8) = 110) := by decide
  have e2 : ¬((34 : UInt8) = 116 ∨ (34 : UInt8) = 102) := by decide
  simp only [tvalue, strText, tlit, e1, e2, if_false, if_true, derefT, derefV, tString, hu, TR.map, rewrap]

/-- ... in a map: of two ADJACENT members with the same key the first can be deleted from the tree (when both values
decode without a `return`ed error; otherwise the entry of the first stays) -/
theorem typeddec_last_duplicate_wins_map_tree (k1 k2 : Bytes) (c1 c2 : Cst) (r : List (Bytes × Cst)) (kt : KeyType)
    (e : GoType) (ms : List (MapKey × DV)) (key : MapKey) (v1 v2 : DV)
    (h1 : mapKeyOf kt (unquote k1) = some key) (h2 : mapKeyOf kt (unquote k2) = some key)
    (hv1 : tvalue c1 e (zeroDV e) = .ok v1) (hv2 : tvalue c2 e (zeroDV e) = .ok v2) :
    tmap ((k1, c1) :: (k2, c2) :: r) kt e ms = tmap ((k2, c2) :: r) kt e ms := by
  rw [tmap_cons, hv1]
  simp only []
  rw [tmap_cons, tmap_cons, hv2]
  simp only [tentry, h1, h2, typeddec_last_duplicate_wins_map]

/-! ### duplicates of a struct member, over the tree -/

/-- what the member's value `c` leaves in the field `f` of type `ft` that held `fv` -/
def tleaf (f : Fld) (c : Cst) (ft : GoType) (fv : DV) : TR DV :=
  if f.quoted then tquoted c ft fv else tvalue c ft fv

/-- a field of the struct itself (not promoted from an embedded struct): the member's value goes into slot `i` -/
theorem tfield_top (f : Fld) (c : Cst) (n : Bytes) (fs : List (FieldInfo × GoType)) (vs : List DV) (i : Nat)
    (fi : FieldInfo) (ft : GoType) (fv : DV) (hi : f.index = [i]) (hfs : fs[i]? = some (fi, ft)) (hvs : vs[i]? = some fv) :
    tfield f c (.struct n fs) (.struct vs) = TR.map (fun v => .struct (vs.set i v)) (tleaf f c ft fv) := by
  simp only [tfield, hi, atPath, GoType.isPtr, Bool.false_and, Bool.false_eq_true, if_false, GoType.deref, fieldStep,
    structFieldsOf, hfs, dvFields, hvs, tleaf]
  cases (if f.quoted = true then tquoted c ft fv else tvalue c ft fv) <;> rfl

/-- `typeddec_last_duplicate_wins_*` over the parse tree, for a field of the struct itself: when two ADJACENT members
go to the same field `f` (same name, or names that differ in case only), the first decodes without a `return`ed error
and what the second leaves does not depend on what the field held (scalars: `typeddec_last_duplicate_wins_int_tree`,
`…_string_tree`), the first member can be deleted from the tree.  (Containers MERGE instead: see the examples of
`C17typeddec.lean`.) -/
theorem typeddec_last_duplicate_wins_struct_tree (n : Bytes) (fs : List (FieldInfo × GoType)) (f : Fld) (i : Nat)
    (fi : FieldInfo) (ft : GoType) (k1 k2 : Bytes) (c1 c2 : Cst) (r : List (Bytes × Cst)) (vs : List DV) (fv v1 : DV)
    (hi : f.index = [i]) (hfs : fs[i]? = some (fi, ft)) (hvs : vs[i]? = some fv)
    (h1 : findField (typeFields (.struct n fs)) (unquote k1) = some f)
    (h2 : findField (typeFields (.struct n fs)) (unquote k2) = some f)
    (hv1 : tleaf f c1 ft fv = .ok v1) (hindep : ∀ a b, tleaf f c2 ft a = tleaf f c2 ft b) :
    tstruct ((k1, c1) :: (k2, c2) :: r) (.struct n fs) (typeFields (.struct n fs)) (.struct vs) =
      tstruct ((k2, c2) :: r) (.struct n fs) (typeFields (.struct n fs)) (.struct vs) := by
  have hm : ∀ c ws, tmember c (.struct n fs) (typeFields (.struct n fs)) (.struct ws) (unquote k1) =
      tfield f c (.struct n fs) (.struct ws) := by
    intro c ws; simp only [tmember, h1, tfield]
  have hm2 : ∀ c ws, tmember c (.struct n fs) (typeFields (.struct n fs)) (.struct ws) (unquote k2) =
      tfield f c (.struct n fs) (.struct ws) := by
    intro c ws; simp only [tmember, h2, tfield]
  have hlt : i < vs.length := by
    rcases Nat.lt_or_ge i vs.length with h | h
    · exact h
    · rw [List.getElem?_eq_none h] at hvs; cases hvs
  rw [tstruct_cons, hm, tfield_top f c1 n fs vs i fi ft fv hi hfs hvs, hv1]
  simp only [TR.map]
  rw [tstruct_cons, tstruct_cons, hm2, hm2,
    tfield_top f c2 n fs (vs.set i v1) i fi ft v1 hi hfs (by simp [hlt]),
    tfield_top f c2 n fs vs i fi ft fv hi hfs hvs, hindep v1 fv]
  simp only [List.set_set]

/-- ... as a statement about two TEXTS: `{k1: c1, k2: c2, …}` and `{k2: c2, …}` (both well-formed, any white space,
`k1` and `k2` naming the same direct field, `c2` a scalar for it) leave the same value in a fresh struct variable -/
theorem typeddec_last_duplicate_wins_text (n : Bytes) (fs : List (FieldInfo × GoType))
    (hd : decodable (.struct n fs) = true) (f : Fld) (i : Nat)
    (fi : FieldInfo) (ft : GoType) (k1 k2 : Bytes) (c1 c2 : Cst) (r : List (Bytes × Cst)) (fv v1 : DV) (text text' : Bytes)
    (hp : parseCst text = some (.obj ((k1, c1) :: (k2, c2) :: r))) (hp' : parseCst text' = some (.obj ((k2, c2) :: r)))
    (hi : f.index = [i]) (hfs : fs[i]? = some (fi, ft)) (hvs : (zeroFields fs)[i]? = some fv)
    (h1 : findField (typeFields (.struct n fs)) (unquote k1) = some f)
    (h2 : findField (typeFields (.struct n fs)) (unquote k2) = some f)
    (hv1 : tleaf f c1 ft fv = .ok v1) (hindep : ∀ a b, tleaf f c2 ft a = tleaf f c2 ft b) :
    ∃ v e e', unmarshalTyped (.struct n fs) text = .ok (v, e) ∧ unmarshalTyped (.struct n fs) text' = .ok (v, e') := by
  obtain ⟨e, h⟩ := typeddec_value_of_tree (.struct n fs) text _ hd hp
  obtain ⟨e', h'⟩ := typeddec_value_of_tree (.struct n fs) text' _ hd hp'
  refine ⟨_, e, e', h, ?_⟩
  rw [h', tvalue_struct, tvalue_struct]
  have hz : zeroDV (.struct n fs) = .struct (zeroFields fs) := by simp only [zeroDV]
  rw [hz, typeddec_last_duplicate_wins_struct_tree n fs f i fi ft k1 k2 c1 c2 r (zeroFields fs) fv v1 hi hfs hvs h1 h2
    hv1 hindep]

/-! ### towards the round trip: no scanner is left in the statement -/

/-- Decoding the encoder's own output: the bytes are the printed form of the tree `typedCst esc t v` (C17typed), so
what `Unmarshal` leaves in the variable is `tvalue (typedCst esc t v) t zero` — `typeddec_roundtripGoal` is reduced to
a statement about two structural recursions (`typedCst` over the value, `tvalue` over the tree); it stays OPEN. -/
theorem typeddec_roundtrip_via_tree (esc : Bool) (t : GoType) (v : GoVal) (s : Bytes) (ht : t.wf = true)
    (hv : v.hasType t = true) (hdep : v.depth ≤ maxDepth) (hd : decodable t = true)
    (hm : marshalTyped esc t v = some s) :
    ∃ c, typedCst esc t v = some c ∧ s = Cst.print c ∧
      ∀ v' e, unmarshalTyped t s = .ok (v', e) → v' = toGoVal t (tvalue c t (zeroDV t)).val := by
  obtain ⟨c, hc, hs, hp⟩ := typed_wellformed_tree esc t v s ht (hasType_typesWf t v hv) hdep hm
  refine ⟨c, hc, hs, ?_⟩
  intro v' e hu
  obtain ⟨e0, h0⟩ := typeddec_value_of_tree t s c hd hp
  rw [h0] at hu
  simp only [Exec.ok.injEq, Prod.mk.injEq] at hu
  exact hu.1.symm

/-! ### examples: the tree decoder on a concrete tree (the hypotheses are satisfiable) -/

/-- `{"A":1,"a":2,"zz":[3]}` into `struct { X int `json:"a"`; Y int `json:"A"` }` (`dAB`): the text parses to the tree, the
tree decoder gives X = 2, Y = 1, and that is what the model of `Unmarshal` returns -/
example : parseCst [123,34,65,34,58,49,44,34,97,34,58,50,44,34,122,122,34,58,91,51,93,125] =
    some (.obj [([65], .lit [49]), ([97], .lit [50]), ([122,122], .arr [.lit [51]])]) := by rfl
example : renderVal (toGoVal dAB (tvalue (.obj [([65], .lit [49]), ([97], .lit [50]), ([122,122], .arr [.lit [51]])]) dAB
    (zeroDV dAB)).val) = ascii "S2:i2;i1;" := by decide +kernel
example : obs (unmarshalTyped dAB [123,34,65,34,58,49,44,34,97,34,58,50,44,34,122,122,34,58,91,51,93,125]) =
    some (ascii "S2:i2;i1;", none) := by decide +kernel
example : decodable dAB = true ∧ decodable dT = true := by decide +kernel

/-- the hypotheses of `typeddec_last_duplicate_wins_struct_tree` are satisfiable: `{"a":1,"a":2}` against `{"a":2}`
into `dAB` (field `X int `json:"a"``, slot 0) -/
example : tstruct [([97], .lit [49]), ([97], .lit [50])] dAB (typeFields dAB) (.struct [.int 0, .int 0]) =
    tstruct [([97], .lit [50])] dAB (typeFields dAB) (.struct [.int 0, .int 0]) := by
  obtain ⟨f, hf⟩ : ∃ f, findField (typeFields dAB) [97] = some f := by
    cases h : findField (typeFields dAB) [97] with
    | some f => exact ⟨f, rfl⟩
    | none => exact absurd h (by decide +kernel)
  have hi : f.index = [0] := by
    have : (findField (typeFields dAB) [97]).map Fld.index = some [0] := by decide +kernel
    rw [hf] at this; simpa using this
  have hq : f.quoted = false := by
    have : (findField (typeFields dAB) [97]).map Fld.quoted = some false := by decide +kernel
    rw [hf] at this; simpa using this
  have hu : unquote [97] = [97] := by decide +kernel
  have h49 : tvalue (.lit [49]) (.int .int) (.int 0) = .ok (.int 1) :=
    typeddec_last_duplicate_wins_int_tree .int 49 [] 1 (.inr (by decide)) (by decide +kernel) (by decide +kernel) _
  exact typeddec_last_duplicate_wins_struct_tree [] _ f 0 _ (.int .int) [97] [97] (.lit [49]) (.lit [50]) [] _ (.int 0)
    (.int 1) hi rfl rfl (by rw [hu]; exact hf) (by rw [hu]; exact hf)
    (by simp only [tleaf, hq, Bool.false_eq_true, if_false]; exact h49)
    (fun a b => by
      simp only [tleaf, hq, Bool.false_eq_true, if_false]
      rw [typeddec_last_duplicate_wins_int_tree .int 50 [] 2 (.inr (by decide)) (by decide +kernel) (by decide +kernel) a,
        typeddec_last_duplicate_wins_int_tree .int 50 [] 2 (.inr (by decide)) (by decide +kernel) (by decide +kernel) b])

/-- `typeddec_all_unknown_no_error` applied: `{"zz":[1],"B":{"a":null}}` into `dAB` (no field is called `zz` or `B`) -/
example : unmarshalTyped dAB [123,34,122,122,34,58,91,49,93,44,34,66,34,58,123,34,97,34,58,110,117,108,108,125,125] =
    .ok (toGoVal dAB (zeroDV dAB), none) := by
  refine typeddec_all_unknown_no_error [] _ _
    [([122,122], .arr [.lit [49]]), ([66], .obj [([97], .lit [110,117,108,108])])] (by rfl) ?_
  intro kv hkv
  simp only [List.mem_cons, List.mem_nil_iff, or_false] at hkv
  rcases hkv with rfl | rfl <;> decide +kernel

end JP.C17
