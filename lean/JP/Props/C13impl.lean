import JP.Props.C01bytes
import JP.Props.C13

/-!
# C13 for the implementation: AllowMissingPathOnRemove is "delete the skipped removes"

`C13.rewrite_apply` is a law of the specification.  Through `C01.apply_bytes_refines` (which covers
`AllowMissingPathOnRemove` by way of `Spec.skipsRemove`) it transfers to `Impl.applyBytes`:
applying the patch `P` with the option on, and applying `P` minus the removes the specification
skips with the option off, give the same document value when the specification succeeds and both
fail when it fails — whenever the specification's outcome is defined.
-/

namespace JP.C13
open JP Impl AllowLemmas

theorem specOps_eraseFrom (sk : List Nat) : ∀ (ops : List Impl.Op) (sops : List Spec.Op) (i : Nat),
    specOps ops = some sops → specOps (eraseFrom i ops sk) = some (eraseFrom i sops sk)
  | [], sops, i, h => by
    simp only [specOps, Option.some.injEq] at h
    subst h
    rfl
  | op :: ops, sops, i, h => by
    simp only [specOps] at h
    cases h1 : specOp op with
    | none => simp [h1] at h
    | some s =>
      cases h2 : specOps ops with
      | none => simp [h1, h2] at h
      | some ss =>
        simp only [h1, h2, Option.some.injEq] at h
        subst h
        have ih := specOps_eraseFrom sk ops ss (i + 1) h2
        rw [eraseFrom_cons, eraseFrom_cons]
        cases sk.contains i with
        | true => simpa using ih
        | false => simp only [Bool.false_eq_true, if_false, specOps, h1, ih]

theorem mem_eraseFrom {α} {x : α} {xs : List α} {i : Nat} {sk : List Nat} (h : x ∈ eraseFrom i xs sk) : x ∈ xs := by
  simp only [eraseFrom, List.mem_map, List.mem_filter] at h
  obtain ⟨⟨a, k⟩, ⟨hm, _⟩, rfl⟩ := h
  exact (List.mem_zipIdx hm).2.2 ▸ List.getElem_mem _

/-- **C13 for the implementation model** (goal 5).  `on`/`off` are the option set `o` with
AllowMissingPathOnRemove switched on/off; `sk` are the indices of the removes the specification
skips (`Driver.specSkipped`, the function the checker uses).  With
`s := Spec.apply (on) … c.valueOf sops`:

* `s = .ok v`: both runs succeed and both outputs parse to the ordered value `v`;
* `s = .fail _ _`: both runs fail;
* `s = .unspec`: nothing is claimed. -/
theorem impl_rewrite (o : Impl.Opts) (ho : o.ensure = false) (hl : o.limit = 0)
    (doc patch : Bytes) (c : Cst) (ops : List Impl.Op) (sops : List Spec.Op) (sk : List Nat)
    (hdoc : parseCst doc = some c) (hnd : c.valueOf.noDup = true)
    (hpatch : Impl.decodePatch patch = .ok ops) (hs : specPatch patch = some sops)
    (hvnd : ∀ op ∈ ops, ∀ v, op.value = some v → v.valueOf.noDup = true)
    (hsk : Driver.specSkipped { specOpts o with allowMissing := true } 0 c.valueOf sops = some sk)
    (sizeAt : Nat → Nat) :
    match Spec.apply (specOpts { o with allow := true }) sizeAt c.valueOf sops with
    | .ok v => v.depth ≤ maxDepth →
        ∃ out₁ out₂, Impl.applyBytes { o with allow := true } [] doc ops = .ok out₁ ∧
          Impl.applyBytes { o with allow := false } [] doc (Driver.eraseIdxs ops sk) = .ok out₂ ∧
          parseValueOf out₁ = some v ∧ parseValueOf out₂ = some v
    | .fail _ _ =>
        (∃ e₁, Impl.applyBytes { o with allow := true } [] doc ops = .err e₁) ∧
        (∃ e₂, Impl.applyBytes { o with allow := false } [] doc (Driver.eraseIdxs ops sk) = .err e₂)
    | .unspec => True := by
  have hops : specOps ops = some sops := by rw [← specPatch_eq_specOps hpatch]; exact hs
  have hfacts := decodePatch_facts hpatch
  -- the shortened patch
  have hops' : specOps (Driver.eraseIdxs ops sk) = some (Driver.eraseIdxs sops sk) := by
    rw [eraseIdxs_eq, eraseIdxs_eq]; exact specOps_eraseFrom sk ops sops 0 hops
  have hsub : ∀ op ∈ Driver.eraseIdxs ops sk, op ∈ ops := by
    intro op hop; rw [eraseIdxs_eq] at hop; exact mem_eraseFrom hop
  have hOn := C01.apply_bytes_refines_ops { o with allow := true } ho hl doc c ops sops hdoc hnd hfacts hops
    hvnd sizeAt
  have hOff := C01.apply_bytes_refines_ops { o with allow := false } ho hl doc c (Driver.eraseIdxs ops sk)
    (Driver.eraseIdxs sops sk) hdoc hnd (fun op hop => hfacts op (hsub op hop)) hops'
    (fun op hop => hvnd op (hsub op hop)) sizeAt
  -- the law of the specification
  have e1 : specOpts { o with allow := true } = { specOpts o with allowMissing := true } := rfl
  have e2 : specOpts { o with allow := false } = { specOpts o with allowMissing := false } := rfl
  have hlaw : outcomeEq sk (Spec.apply { specOpts o with allowMissing := true } sizeAt c.valueOf sops)
      (Spec.apply { specOpts o with allowMissing := false } sizeAt c.valueOf (Driver.eraseIdxs sops sk)) := by
    unfold Spec.apply
    split
    · exact rewrite_nolimit (specOpts o) (by simp [specOpts, hl]) sizeAt sizeAt 0 0 c.valueOf sops sk hsk
    · trivial
  rw [e1] at hOn ⊢
  rw [e2] at hOff
  cases hres : Spec.apply { specOpts o with allowMissing := true } sizeAt c.valueOf sops with
  | unspec => trivial
  | fail k cc =>
    rw [hres] at hOn hlaw
    simp only [outcomeEq] at hlaw
    rw [hlaw] at hOff
    exact ⟨hOn, hOff⟩
  | ok v =>
    rw [hres] at hOn hlaw
    simp only [outcomeEq] at hlaw
    rw [hlaw] at hOff
    intro hd
    obtain ⟨out₁, h1, h2⟩ := hOn hd
    obtain ⟨out₂, h3, h4⟩ := hOff hd
    exact ⟨out₁, out₂, h1, h3, h2, h4⟩

/-- in particular the two outputs denote the same ordered value -/
theorem impl_rewrite_same (o : Impl.Opts) (ho : o.ensure = false) (hl : o.limit = 0)
    (doc patch : Bytes) (c : Cst) (ops : List Impl.Op) (sops : List Spec.Op) (sk : List Nat)
    (hdoc : parseCst doc = some c) (hnd : c.valueOf.noDup = true)
    (hpatch : Impl.decodePatch patch = .ok ops) (hs : specPatch patch = some sops)
    (hvnd : ∀ op ∈ ops, ∀ v, op.value = some v → v.valueOf.noDup = true)
    (hsk : Driver.specSkipped { specOpts o with allowMissing := true } 0 c.valueOf sops = some sk)
    (sizeAt : Nat → Nat) (v : Value)
    (hv : Spec.apply (specOpts { o with allow := true }) sizeAt c.valueOf sops = .ok v)
    (hd : v.depth ≤ maxDepth) :
    ∃ out₁ out₂, Impl.applyBytes { o with allow := true } [] doc ops = .ok out₁ ∧
      Impl.applyBytes { o with allow := false } [] doc (Driver.eraseIdxs ops sk) = .ok out₂ ∧
      parseValueOf out₁ = parseValueOf out₂ := by
  have h := impl_rewrite o ho hl doc patch c ops sops sk hdoc hnd hpatch hs hvnd hsk sizeAt
  rw [hv] at h
  obtain ⟨out₁, out₂, h1, h2, h3, h4⟩ := h hd
  exact ⟨out₁, out₂, h1, h2, by rw [h3, h4]⟩

/-! ### the hypotheses are satisfiable -/

section Examples

/-- `{"a":1,"l":[null]}` -/
def exDocI : Bytes := ascii "{\"a\":1,\"l\":[null]}"
/-- remove an absent member (skipped), remove an existing one, remove an index out of range (skipped) -/
def exPatchI : Bytes := ascii
  "[{\"op\":\"remove\",\"path\":\"/zz\"},{\"op\":\"remove\",\"path\":\"/a\"},{\"op\":\"remove\",\"path\":\"/l/3\"}]"

example : (match parseCst exDocI, Impl.decodePatch exPatchI, specPatch exPatchI with
    | some c, .ok ops, some sops =>
      c.valueOf.noDup &&
      (Driver.specSkipped { specOpts {} with allowMissing := true } 0 c.valueOf sops == some [0, 2]) &&
      (match Spec.apply (specOpts { allow := true }) (fun _ => 0) c.valueOf sops,
          Impl.applyBytes { allow := true } [] exDocI ops,
          Impl.applyBytes { allow := false } [] exDocI (Driver.eraseIdxs ops [0, 2]) with
       | .ok v, .ok o1, .ok o2 =>
         (match parseValueOf o1, parseValueOf o2 with
          | some w1, some w2 => Value.beq w1 v && Value.beq w2 v
          | _, _ => false) && o1 == ascii "{\"l\":[null]}"
       | _, _, _ => false)
    | _, _, _ => false) = true := by decide +kernel

end Examples

/-
#print axioms JP.C13.impl_rewrite
#print axioms JP.C13.impl_rewrite_same
-/

end JP.C13
