import JP.Lemmas.Equal
import JP.Lemmas.EqualEquiv

/-!
# C06 — `Equal` decides structural equality

Go (`lazyNode.equal`) compares two objects by "map sizes equal and every entry of the left has
an equal partner on the right"; `Value.eqv` is two-sided inclusion.  For duplicate-free member
names the two agree (pigeonhole, `Value.pigeon`).

`LitsOk`: the task suggested a side condition on literals (`eqCC` compares literal bytes, `eqv`
compares `litValue`s).  It is not needed: `Cst.litValue` is injective on all byte strings
(`JP.litValue_inj`), because a literal that is not one of the three words maps to `.num` of
itself.  `LitsOk` is therefore defined as `True` and the theorems are stated without it.
-/

namespace JP
namespace C06
open Value

/-- no side condition on literals is required (see the module comment) -/
def LitsOk (_ : Cst) : Prop := True

/-- equality of two raw messages = structural equality of the values they denote
(member names duplicate-free, hereditarily, on both sides) -/
theorem eqCC_iff (a b : Cst) (ha : a.valueOf.noDup = true) (hb : b.valueOf.noDup = true) :
    Impl.eqCC a b = Value.eqv a.valueOf b.valueOf :=
  Impl.eqCC_eqv a b ha hb

/-- the same with the (vacuous) literal side conditions as explicit arguments -/
theorem eqCC_iff_lits (a b : Cst) (ha : a.valueOf.noDup = true) (hb : b.valueOf.noDup = true)
    (_hla : LitsOk a) (_hlb : LitsOk b) : Impl.eqCC a b = Value.eqv a.valueOf b.valueOf :=
  Impl.eqCC_eqv a b ha hb

/-- a (possibly parsed) node against a raw message, general form: nil children and null
literals included -/
theorem eqNC_iff' (n : Impl.Node) (c : Cst) (hn : Impl.WF n = true) (hc : c.valueOf.noDup = true) :
    Impl.eqNC n c = Value.eqv (Impl.den n) c.valueOf :=
  Impl.eqNC_eqv n c hn hc

/-- the statement in the shape used as `EqSpec` (the two nullness hypotheses are not needed) -/
theorem eqNC_iff (n : Impl.Node) (c : Cst) : Impl.WF n = true → c.valueOf.noDup = true →
    Impl.isNullN n = false → c.isNullLit = false →
    Impl.eqNC n c = Value.eqv (Impl.den n) c.valueOf :=
  fun hn hc _ _ => Impl.eqNC_eqv n c hn hc

/-- the version with the (vacuous) literal side conditions spelled out -/
theorem eqNC_iff_lits (n : Impl.Node) (c : Cst) : Impl.WF n = true → c.valueOf.noDup = true →
    LitsOk c → Impl.isNullN n = false → c.isNullLit = false →
    Impl.eqNC n c = Value.eqv (Impl.den n) c.valueOf :=
  fun hn hc _ _ _ => Impl.eqNC_eqv n c hn hc

/-- `Equal` on texts, given that scanner and reference parser agree on the two texts -/
theorem equal_iff (a b : Bytes) (hva : Scanner.valid a = (parseCst a).isSome)
    (hvb : Scanner.valid b = (parseCst b).isSome) :
    Impl.equal a b = true ↔
      ∃ ca cb, parseCst a = some ca ∧ parseCst b = some cb ∧ Impl.eqCC ca cb = true := by
  unfold Impl.equal
  rw [hva, hvb]
  cases parseCst a with
  | none => simp
  | some ca =>
    cases parseCst b with
    | none => simp
    | some cb => simp

/-- a malformed operand makes `Equal` false (whatever the scanner says) -/
theorem malformed_false (a b : Bytes) (h : parseCst a = none ∨ parseCst b = none) :
    Impl.equal a b = false := by
  unfold Impl.equal
  cases h with
  | inl h => rw [h]; split <;> rfl
  | inr h =>
    rw [h]
    split
    · rfl
    · cases parseCst a <;> rfl

/-- `Equal` = structural equality of the denoted values, for well-formed duplicate-free texts -/
theorem equal_spec (a b : Bytes) (hva : Scanner.valid a = (parseCst a).isSome)
    (hvb : Scanner.valid b = (parseCst b).isSome)
    (hda : ∀ va, parseValueOf a = some va → va.noDup = true)
    (hdb : ∀ vb, parseValueOf b = some vb → vb.noDup = true) :
    Impl.equal a b = true ↔
      ∃ va vb, parseValueOf a = some va ∧ parseValueOf b = some vb ∧ Value.eqv va vb = true := by
  rw [equal_iff a b hva hvb]
  unfold parseValueOf at *
  constructor
  · intro ⟨ca, cb, h1, h2, h3⟩
    refine ⟨ca.valueOf, cb.valueOf, by simp [h1], by simp [h2], ?_⟩
    rw [← eqCC_iff ca cb (hda _ (by simp [h1])) (hdb _ (by simp [h2]))]
    exact h3
  · intro ⟨va, vb, h1, h2, h3⟩
    cases hpa : parseCst a with
    | none => simp [hpa] at h1
    | some ca =>
      cases hpb : parseCst b with
      | none => simp [hpb] at h2
      | some cb =>
        simp only [hpa, hpb, Option.map_some, Option.some.injEq] at h1 h2 hda hdb
        subst h1; subst h2
        exact ⟨ca, cb, rfl, rfl, by rw [eqCC_iff ca cb (hda _ rfl) (hdb _ rfl)]; exact h3⟩

/-- symmetry of `Equal`, from symmetry of `eqv` on duplicate-free values (proved elsewhere) -/
theorem equal_symm
    (eqv_symm : ∀ x y : Value, x.noDup = true → y.noDup = true → Value.eqv x y = Value.eqv y x)
    (a b : Bytes) (hva : Scanner.valid a = (parseCst a).isSome)
    (hvb : Scanner.valid b = (parseCst b).isSome)
    (hda : ∀ va, parseValueOf a = some va → va.noDup = true)
    (hdb : ∀ vb, parseValueOf b = some vb → vb.noDup = true) :
    Impl.equal a b = Impl.equal b a := by
  have h1 := equal_spec a b hva hvb hda hdb
  have h2 := equal_spec b a hvb hva hdb hda
  have : Impl.equal a b = true ↔ Impl.equal b a = true := by
    rw [h1, h2]
    constructor
    · intro ⟨va, vb, p, q, r⟩
      exact ⟨vb, va, q, p, by rw [eqv_symm vb va (hdb _ q) (hda _ p)]; exact r⟩
    · intro ⟨vb, va, q, p, r⟩
      exact ⟨va, vb, p, q, by rw [eqv_symm va vb (hda _ p) (hdb _ q)]; exact r⟩
  cases h : Impl.equal a b <;> cases h' : Impl.equal b a <;> simp_all

/-- transitivity of `Equal`, from transitivity of `eqv` on duplicate-free values -/
theorem equal_trans
    (eqv_trans : ∀ x y z : Value, x.noDup = true → y.noDup = true → z.noDup = true →
      Value.eqv x y = true → Value.eqv y z = true → Value.eqv x z = true)
    (a b c : Bytes) (hva : Scanner.valid a = (parseCst a).isSome)
    (hvb : Scanner.valid b = (parseCst b).isSome) (hvc : Scanner.valid c = (parseCst c).isSome)
    (hda : ∀ v, parseValueOf a = some v → v.noDup = true)
    (hdb : ∀ v, parseValueOf b = some v → v.noDup = true)
    (hdc : ∀ v, parseValueOf c = some v → v.noDup = true)
    (hab : Impl.equal a b = true) (hbc : Impl.equal b c = true) : Impl.equal a c = true := by
  obtain ⟨va, vb, p, q, r⟩ := (equal_spec a b hva hvb hda hdb).mp hab
  obtain ⟨vb', vc, q', s, t⟩ := (equal_spec b c hvb hvc hdb hdc).mp hbc
  rw [q] at q'; cases q'
  exact (equal_spec a c hva hvc hda hdc).mpr
    ⟨va, vc, p, s, eqv_trans va vb vc (hda _ p) (hdb _ q) (hdc _ s) r t⟩

/-! ### `Equal` is an equivalence on well-formed duplicate-free texts (unconditional forms) -/

theorem eqCC_symm (a b : Cst) (ha : a.valueOf.noDup = true) (hb : b.valueOf.noDup = true) :
    Impl.eqCC a b = Impl.eqCC b a := by
  rw [eqCC_iff a b ha hb, eqCC_iff b a hb ha, Value.eqv_symm_E _ _ ha hb]

theorem eqCC_refl (a : Cst) (ha : a.valueOf.noDup = true) : Impl.eqCC a a = true := by
  rw [eqCC_iff a a ha ha]; exact Value.eqv_refl_E _ ha

theorem eqCC_trans (a b c : Cst) (ha : a.valueOf.noDup = true) (hb : b.valueOf.noDup = true)
    (hc : c.valueOf.noDup = true) (h1 : Impl.eqCC a b = true) (h2 : Impl.eqCC b c = true) :
    Impl.eqCC a c = true := by
  rw [eqCC_iff _ _ ha hb] at h1
  rw [eqCC_iff _ _ hb hc] at h2
  rw [eqCC_iff _ _ ha hc]
  exact Value.eqv_trans_E _ _ _ h1 h2

theorem equal_symm' (a b : Bytes) (hva : Scanner.valid a = (parseCst a).isSome)
    (hvb : Scanner.valid b = (parseCst b).isSome)
    (hda : ∀ va, parseValueOf a = some va → va.noDup = true)
    (hdb : ∀ vb, parseValueOf b = some vb → vb.noDup = true) :
    Impl.equal a b = Impl.equal b a :=
  equal_symm Value.eqv_symm_E a b hva hvb hda hdb

theorem equal_trans' (a b c : Bytes) (hva : Scanner.valid a = (parseCst a).isSome)
    (hvb : Scanner.valid b = (parseCst b).isSome) (hvc : Scanner.valid c = (parseCst c).isSome)
    (hda : ∀ v, parseValueOf a = some v → v.noDup = true)
    (hdb : ∀ v, parseValueOf b = some v → v.noDup = true)
    (hdc : ∀ v, parseValueOf c = some v → v.noDup = true)
    (hab : Impl.equal a b = true) (hbc : Impl.equal b c = true) : Impl.equal a c = true :=
  equal_trans (fun x y z _ _ _ => Value.eqv_trans_E x y z) a b c hva hvb hvc hda hdb hdc hab hbc

theorem equal_refl (a : Bytes) (hva : Scanner.valid a = true) (ca : Cst) (hp : parseCst a = some ca)
    (hda : ca.valueOf.noDup = true) : Impl.equal a a = true := by
  unfold Impl.equal
  simp [hva, hp, eqCC_refl ca hda]

/-! ### the hypotheses are satisfiable: `{"a":1,"b":[null,"x"]}` against `{"b":[null,"x"],"a":1}` -/

def exA : Cst := .obj [(ascii "a", .lit (ascii "1")), (ascii "b", .arr [.lit (ascii "null"), .str (ascii "x")])]
def exB : Cst := .obj [(ascii "b", .arr [.lit (ascii "null"), .str (ascii "\\u0078")]), (ascii "a", .lit (ascii "1"))]
def exN : Impl.Node := Impl.decodeDoc [(ascii "a", .lit (ascii "1")), (ascii "b", .arr [.lit (ascii "null"), .str (ascii "x")])]

example : exA.valueOf.noDup = true ∧ exB.valueOf.noDup = true ∧ Impl.eqCC exA exB = true := by
  decide +kernel
example : Impl.WF exN = true ∧ exB.valueOf.noDup = true ∧ Impl.isNullN exN = false ∧
    exB.isNullLit = false ∧ Impl.eqNC exN exB = true := by decide +kernel
example : Scanner.valid (Cst.print exA) = (parseCst (Cst.print exA)).isSome := by decide +kernel
example : Scanner.valid (Cst.print exB) = (parseCst (Cst.print exB)).isSome := by decide +kernel
example : (parseValueOf (Cst.print exA)).map Value.noDup = some true := by decide +kernel
example : Impl.equal (Cst.print exA) (Cst.print exB) = true := by decide +kernel
example : (parseCst (ascii "{\"a\":")).isSome = false ∧ Impl.equal (ascii "{\"a\":") (ascii "1") = false := by
  decide +kernel

-- #print axioms eqCC_iff
-- #print axioms eqNC_iff
-- #print axioms equal_iff
-- #print axioms malformed_false
-- #print axioms equal_spec
-- #print axioms equal_symm
-- #print axioms equal_trans
-- #print axioms equal_symm'
-- #print axioms equal_trans'
-- #print axioms equal_refl

end C06
end JP
