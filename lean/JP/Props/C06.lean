import JP.Driver
import JP.Props.C06spec
import JP.Impl.Den

/-! # Property C06 — theorems (see DESIGN.md §6) -/

namespace JP
namespace C06

end C06
end JP
