import JP.Lemmas.TestsOps
import JP.Props.C01bytes

/-!
# C15, last clause: "test operations that pass leave the output bytes identical"

The real library (and the model, which reproduces it) violates the clause when a member name of
the document or of an operation value is not spelled the way the encoder would spell it: a passing
`test` leaves the object it compared *parsed*, and a parsed object is printed with re-quoted
names, a raw one with `compact`'s treatment of the original spelling
(trigger predicate `keyNotEncoderSpelled`, `JP/Check.lean`).

A second trigger is not covered by that predicate — REPEATED MEMBER NAMES below the root: a raw
object prints all occurrences, a parsed one is a map.  Counterexample for the statement without
the `noDup` hypotheses (model; `keyNotEncoderSpelled = false`):

  document `{"x":{"a":1,"a":2}}`, patch `[{"op":"test","path":"/x/a","value":2}]`
  with the test:    `{"x":{"a":2,"a":2}}`        without it: `{"x":{"a":1,"a":2}}`

(`counterexample_dup` below).  Outside both classes the clause holds for the model, for every
option set (`tests_transparent`): removing the `test` operations of a patch that succeeds leaves
the output bytes unchanged.

Proof (in `JP/Lemmas/Tests*.lean`): `deepParse` parses a node completely; two states are in the same
*parse class* when their `deepParse` images agree.  Every container method commutes with
`deepParse`, so an operation other than `test` maps states in the same parse class to states in
the same parse class with the same outcome (`applyOp_eqv`); a passing `test` stays in the parse
class (`opTest_fix`); and under the invariant `KN` (raw messages well formed with encoder-spelled,
distinct names; order lists of parsed objects duplicate-free and made of names that survive the
encoder — preserved by every operation, `applyOp_K`) what `marshalRoot` and `deepCopy` print
depends on the parse class only (`cstOf_deepParse`).
-/

namespace JP.C15
open JP Impl

/-- the run behind `tests_transparent`, for any list of operations satisfying `OpK` -/
theorem tests_transparent_ops (o : Impl.Opts) (ind doc : Bytes) (ops : List Impl.Op)
    (hk : ∀ c, parseCst doc = some c → KC o.esc c)
    (hops : ∀ op ∈ ops, OpK o.esc op) (out : Bytes)
    (h : Impl.applyBytes o ind doc ops = .ok out) :
    Impl.applyBytes o ind doc (ops.filter fun op => op.kind ≠ ascii "test") = .ok out := by
  unfold applyBytes at h ⊢
  by_cases hne : doc = []
  · simpa [hne] using h
  · simp only [hne, if_false] at h ⊢
    split at h
    · cases h
    · rename_i hv
      simp only [hv, if_false]
      cases hdoc : parseCst doc with
      | none => simp [hdoc] at h
      | some c =>
        simp only [hdoc] at h ⊢
        have hkc := hk c hdoc
        cases hd : decodeRoot c with
        | panic => simp [hd] at h
        | err e => simp [hd] at h
        | ok con =>
          simp only [hd] at h ⊢
          have hrk : RootK o.esc { con := con, self := .raw c, selfCR := c.isArr && !goIsArray doc } := by
            have := decodeRoot_K hkc
            rw [hd] at this
            exact ⟨this, hkc⟩
          cases happ : applyOps o { con := con, self := .raw c, selfCR := c.isArr && !goIsArray doc } 0 ops with
          | panic => simp [happ] at h
          | err e => simp [happ] at h
          | ok r =>
            obtain ⟨r'', h2, hdr, k1, k2⟩ := applyOps_sim o rfl ops _ _ 0 r rfl hrk hrk hops happ
            simp only [happ] at h
            simp only [h2]
            rw [← marshalRoot_eqv hdr k1 k2]
            exact h

/-- **C15, passing tests are transparent.**  Removing the `test` operations of a patch that
succeeds leaves the output bytes unchanged, provided every member name of the document and of the
patch is spelled as the encoder spells it (`keyNotEncoderSpelled … = false`) and no object of the
document or of an operation value repeats a member name.  Any options, any indent. -/
theorem tests_transparent (o : Impl.Opts) (doc patch : Bytes) (ops ops' : List Impl.Op)
    (hd : Impl.decodePatch patch = .ok ops) (hd' : ops' = ops.filter (fun op => op.kind ≠ ascii "test"))
    (hk : keyNotEncoderSpelled o.esc doc patch = false)
    (hnd : ∀ c, parseCst doc = some c → c.valueOf.noDup = true)
    (hvnd : ∀ op ∈ ops, ∀ v, op.value = some v → v.valueOf.noDup = true)
    (out : Bytes)
    (h : Impl.applyBytes o [] doc ops = .ok out) : Impl.applyBytes o [] doc ops' = .ok out := by
  subst hd'
  simp only [keyNotEncoderSpelled, Bool.or_eq_false_iff] at hk
  refine tests_transparent_ops o [] doc ops ?_ ?_ out h
  · intro c hc
    have := hk.1
    rw [hc] at this
    exact ⟨(parseCst_wfc_A doc c hc).1, this, hnd c hc⟩
  · refine decodePatch_OpK hd ?_ hvnd
    intro c hc
    have := hk.2
    rw [hc] at this
    exact this

/-- the same with an indent -/
theorem tests_transparent_indent (o : Impl.Opts) (ind doc patch : Bytes) (ops : List Impl.Op)
    (hd : Impl.decodePatch patch = .ok ops)
    (hk : keyNotEncoderSpelled o.esc doc patch = false)
    (hnd : ∀ c, parseCst doc = some c → c.valueOf.noDup = true)
    (hvnd : ∀ op ∈ ops, ∀ v, op.value = some v → v.valueOf.noDup = true)
    (out : Bytes)
    (h : Impl.applyBytes o ind doc ops = .ok out) :
    Impl.applyBytes o ind doc (ops.filter fun op => op.kind ≠ ascii "test") = .ok out := by
  simp only [keyNotEncoderSpelled, Bool.or_eq_false_iff] at hk
  refine tests_transparent_ops o ind doc ops ?_ ?_ out h
  · intro c hc
    have := hk.1
    rw [hc] at this
    exact ⟨(parseCst_wfc_A doc c hc).1, this, hnd c hc⟩
  · refine decodePatch_OpK hd ?_ hvnd
    intro c hc
    have := hk.2
    rw [hc] at this
    exact this

/-! ### the `noDup` hypothesis is needed; the hypotheses are satisfiable -/

section Examples

def exDupDoc : Bytes := ascii "{\"x\":{\"a\":1,\"a\":2}}"
def exDupPatch : Bytes := ascii "[{\"op\":\"test\",\"path\":\"/x/a\",\"value\":2}]"

/-- **counterexample without `noDup`**: outside the trigger class `keyNotEncoderSpelled`, a passing
test changes the output when an object below the root repeats a member name -/
theorem counterexample_dup :
    keyNotEncoderSpelled true exDupDoc exDupPatch = false ∧
    (match Impl.decodePatch exDupPatch with
     | .ok ops =>
       (match Impl.applyBytes {} [] exDupDoc ops,
          Impl.applyBytes {} [] exDupDoc (ops.filter fun op => op.kind ≠ ascii "test") with
        | .ok a, .ok b => a == ascii "{\"x\":{\"a\":2,\"a\":2}}" && b == ascii "{\"x\":{\"a\":1,\"a\":2}}"
        | _, _ => false)
     | _ => false) = true := by
  constructor <;> decide +kernel

def exDoc : Bytes := ascii "{\"x\":{\"a<\":[1,null,{\"b\":\"\\u0041\"}]},\"k\":1}"
def exPatch : Bytes := ascii
  "[{\"op\":\"test\",\"path\":\"/x\",\"value\":{\"a<\":[1,null,{\"b\":\"A\"}]}},{\"op\":\"copy\",\"from\":\"/x\",\"path\":\"/y\"},{\"op\":\"test\",\"path\":\"/y/a<\",\"value\":[1,null,{\"b\":\"A\"}]},{\"op\":\"add\",\"path\":\"/y/c/d\",\"value\":true}]"

/-- the hypotheses of `tests_transparent` hold for a patch with two passing tests, a copy and an
`add` that creates its parent, with EscapeHTML off and a `<` in a member name; both runs succeed -/
example :
    (match Impl.decodePatch exPatch, parseCst exDoc with
     | .ok ops, some c =>
       !keyNotEncoderSpelled false exDoc exPatch && c.valueOf.noDup &&
       (ops.all fun op => (op.value.map fun v => v.valueOf.noDup).getD true) &&
       (match Impl.applyBytes { esc := false, ensure := true } [] exDoc ops,
          Impl.applyBytes { esc := false, ensure := true } [] exDoc (ops.filter fun op => op.kind ≠ ascii "test") with
        | .ok a, .ok b => a == b
        | _, _ => false)
     | _, _ => false) = true := by decide +kernel

end Examples

/-
all of the following: [propext, Classical.choice, Quot.sound]
#print axioms JP.C15.tests_transparent_ops
#print axioms JP.C15.tests_transparent
#print axioms JP.C15.tests_transparent_indent
#print axioms JP.C15.counterexample_dup
-/

end JP.C15
