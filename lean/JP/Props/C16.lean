import JP.Driver
import JP.Impl.Den

/-! # Property C16 — theorems (see DESIGN.md §6) -/

namespace JP
namespace C16

end C16
end JP
