import JP.Lemmas.ScanBasic
import JP.Lemmas.ScanSim
import JP.Lemmas.ScanWs

/-!
# C16: the codec accepts exactly the RFC 8259 grammar

* `scanner_iff`: the byte-level scanner (`json.Valid`) accepts a text iff the RFC 8259
  reference parser `parseCst` does;
* `compact_accepts`, `indent_accepts`: `Compact` / `Indent` fail exactly when `Valid` fails;
* `valid_ws`: white space before and after a text is irrelevant to `Valid`.

The proofs are in `JP/Lemmas/Scan*.lean`.
-/

namespace JP.C16
open JP

/-- the scanner accepts exactly the texts the RFC 8259 reference parser accepts -/
theorem scanner_iff (bs : Bytes) : Scanner.valid bs = true ↔ (parseCst bs).isSome = true := by
  rw [Scanner.valid_iff_parseCst]

/-- Compact accepts exactly what Valid accepts (for either escaping flag) -/
theorem compact_accepts (e : Bool) (bs : Bytes) : (Scanner.compact e bs).isSome = Scanner.valid bs :=
  Scanner.compact_isSome e bs

/-- Indent accepts exactly what Valid accepts -/
theorem indent_accepts (ind bs : Bytes) : (Scanner.indent ind bs).isSome = Scanner.valid bs :=
  Scanner.indent_isSome ind bs

/-- white space (space, tab, CR, LF) around a text does not change the verdict of `Valid` -/
theorem valid_ws (ws₁ bs ws₂ : Bytes) (h₁ : ∀ c ∈ ws₁, isWs c = true) (h₂ : ∀ c ∈ ws₂, isWs c = true) :
    Scanner.valid (ws₁ ++ bs ++ ws₂) = Scanner.valid bs :=
  Scanner.valid_ws_eq ws₁ bs ws₂ h₁ h₂

example : Scanner.valid (ascii " {\"a\" : [1, -2.5e+3, true, null, \"x\\u00e9\\n\"]} ") = true := by decide
example : (parseCst (ascii " {\"a\" : [1, -2.5e+3, true, null, \"x\\u00e9\\n\"]} ")).isSome = true := by
  decide +kernel
example : Scanner.valid (ascii "[01]") = false := by decide
example : (parseCst (ascii "[01]")).isSome = false := by decide
example : (Scanner.compact true (ascii " [1, {\"a\":\"<\"}] ")).isSome = true := by decide
example : (Scanner.indent (ascii "  ") (ascii "[1,{\"a\":null}]")).isSome = true := by decide
example : (Scanner.indent (ascii "  ") (ascii "[1,{\"a\":nul}]")).isSome = false := by decide

example : (∀ c ∈ ascii " \t\r\n", isWs c = true) ∧ Scanner.valid (ascii "[1]") = true := by decide

-- all four: no axioms beyond propext, Classical.choice, Quot.sound
-- #print axioms scanner_iff
-- #print axioms valid_ws
-- #print axioms compact_accepts
-- #print axioms indent_accepts
end JP.C16
