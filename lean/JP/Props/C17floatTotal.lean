import JP.Lemmas.FloatTotalS
import JP.Props.C17float
import JP.Legacy.MergeFloat

/-!
# C17 — the shortest-digits search of the float encoder never gives up (`searchFails` is always `false`)

`formatShortest bits fmt x` tries n = 1, 2, …, 17 (binary64) resp. 9 (binary32) digits and re-reads the bytes
it laid out; its `none` was the defensive `searchFails` that `float_encode_none_iff` carried.  Here:

* `round_of_close` — THE SPACING LEMMA: a fraction `N / D` with `|N/D − x| < |x| / 2^(mantBits + 2)` is rounded
  to `x` by `roundRat` (less than half the gap to either neighbour: a quarter ulp below a power of two,
  subnormals, the largest finite float — where `N / D` may exceed every finite float — included);
* `max_digits_candidate` — of the two `maxDigits`-digit decimals around `x` the nearer one is that close
  (`2^(mantBits+1) < 10^(maxDigits−1)`: 2^53 < 10^16, 2^24 < 10^8), given that the decimal point `k` of the
  search satisfies `10^(k−1) ≤ |x|` (`decPoint_lower`: the estimate from the bit lengths is never more than
  4 too high);
* `round_value_only` — `roundDec` depends on the VALUE of the decimal only (`c·10^z · 10^e` and `c · 10^(e+z)`
  round alike: the exponent `pickQ` takes from the bit lengths is the unique exponent of the value's binade);
* `layout_reads_back` — `%e` and `%f` bytes of a decimal that rounds to `x` are read by `parseLit` as a decimal
  of the same value, so `parseFloat` returns `x`;
* `search_total`, `format_total`, `float_encode_none_iff'` (error EXACTLY for NaN / ±Inf), `float_encode_total`;
* `store_wf`, `legacy_encNum_total`: the legacy consumer's `encNum` never takes its defensive branch.
-/

namespace JP.C17
open JP JP.Codec JP.Codec.Float

/-- THE SPACING LEMMA (`closeTo bits x N D` is `2^(mantBits+2) · |N·D' − N'·D| < N'·D` for the exact value
`N' / D'` of `x`) -/
theorem round_of_close (bits : Nat) (x : FP) (hwf : x.wf bits = true) (hfin : x.isFinite bits = true)
    (N D : Nat) (hN : 0 < N) (hD : 0 < D)
    (hc : 2 ^ (mantBits bits + 2) * adiff (N * exactD bits x) (exactN bits x * D) < exactN bits x * D) :
    roundRat bits N D = (x.exp, x.mant, false) :=
  roundRat_of_close bits x hwf hfin N D hN hD hc

/-- the decimal point of the search is not too high: `10^(k-1) ≤ |x|`, and `|k| ≤ 400` -/
theorem decPoint_low (bits : Nat) (x : FP) (hwf : x.wf bits = true) (hfin : x.isFinite bits = true)
    (hnz : x.isZero = false) :
    geP10 (exactN bits x) (exactD bits x) (decPoint (exactN bits x) (exactD bits x) - 1) = true ∧
      -400 ≤ decPoint (exactN bits x) (exactD bits x) ∧ decPoint (exactN bits x) (exactD bits x) ≤ 400 :=
  decPoint_lower bits x hwf hfin hnz

/-- with 17 (9) digits one of the two candidates reads back as `x` -/
theorem max_digits_candidate (bits : Nat) (x : FP) (hwf : x.wf bits = true) (hfin : x.isFinite bits = true)
    (hnz : x.isZero = false) :
    cand bits x (exactN bits x) (exactD bits x) (decPoint (exactN bits x) (exactD bits x)) (maxDigits bits)
      ≠ none := by
  intro hnone
  have hs0 : 0 < x.sig bits := by
    unfold FP.sig
    split
    · rename_i he
      simp only [FP.isZero, he, decide_true, Bool.true_and, decide_eq_false_iff_not] at hnz
      omega
    · have := two_pow_pos (mantBits bits); omega
  have hN : 0 < exactN bits x := by
    unfold exactN; split
    · exact Nat.mul_pos hs0 (two_pow_pos _)
    · exact hs0
  have hD : 0 < exactD bits x := by
    unfold exactD; split
    · omega
    · exact two_pow_pos _
  exact cand_max_some bits x _ _ hN hD rfl rfl _ (decPoint_lower bits x hwf hfin hnz).1
    (fun c e hc h => roundsTo_of_close bits x hwf hfin c e hc h) hnone

/-- rounding sees the value of a decimal only -/
theorem round_value_only (bits c z : Nat) (e : Int) (hc : c ≠ 0) :
    roundDec bits (c * 10 ^ z) e = roundDec bits c (e + (z : Int)) :=
  roundDec_shift bits c z e hc

theorem round_scale (bits N D t : Nat) (hN : 0 < N) (hD : 0 < D) (ht : 0 < t) :
    roundRat bits (N * t) (D * t) = roundRat bits N D :=
  roundRat_scale bits N D t hN hD ht

/-- the bytes of a decimal that rounds to `x`, in either layout, are read back as `x` -/
theorem layout_reads_back (bits : Nat) (fmt : Fmt) (x : FP) (hnz : x.isZero = false) (c : Nat) (e : Int)
    (h : roundsTo bits x c e = true) :
    parseFloat bits (layout fmt x.sign (stripZeros (Typed.decimal c)) (((Typed.decimal c).length : Int) + e))
      = some (x, false) :=
  layout_reads bits fmt x hnz c e h

/-- `strconv.AppendFloat(nil, x, fmt, -1, bits)` of the model answers on every finite float -/
theorem format_total (bits : Nat) (fmt : Fmt) (x : FP) (hwf : x.wf bits = true) (hfin : x.isFinite bits = true) :
    ∃ s, formatShortest bits fmt x = some s := by
  have := formatShortest_total bits fmt x hwf hfin
  cases h : formatShortest bits fmt x with
  | none => rw [h] at this; simp at this
  | some s => exact ⟨s, rfl⟩

/-- THE SEARCH NEVER GIVES UP -/
theorem search_total (bits : Nat) (x : FP) (hwf : x.wf bits = true) (_hfin : x.isFinite bits = true) :
    searchFails bits x = false := by
  unfold searchFails
  cases hf : x.isFinite bits with
  | false => rfl
  | true =>
    obtain ⟨s, hs⟩ := format_total bits (if useE bits x = true then Fmt.e else Fmt.f) x hwf hf
    rw [hs]; rfl

/-- `UnsupportedValueError` EXACTLY for NaN and ±Inf -/
theorem float_encode_none_iff' (bits : Nat) (x : FP) (q : Bool) (hx : x.wf bits = true) :
    floatEncode bits x q = none ↔ (x.isNaN bits = true ∨ x.isInf bits = true) := by
  rw [float_encode_none_iff bits x q hx]
  have hsf : searchFails bits x = false := by
    cases hf : x.isFinite bits with
    | false => simp [searchFails, hf]
    | true => exact search_total bits x hx hf
  rw [hsf]
  simp

/-- every finite float is printed -/
theorem float_encode_total (bits : Nat) (x : FP) (q : Bool) (hx : x.wf bits = true)
    (hfin : x.isFinite bits = true) : ∃ s, floatEncode bits x q = some s := by
  cases h : floatEncode bits x q with
  | some s => exact ⟨s, rfl⟩
  | none =>
    exfalso
    have := (float_encode_none_iff' bits x q hx).1 h
    simp only [FP.isFinite, decide_eq_true_eq] at hfin
    simp only [FP.isNaN, FP.isInf, Bool.and_eq_true, decide_eq_true_eq] at this
    rcases this with ⟨h1, _⟩ | ⟨h1, _⟩ <;> omega

/-- what `ParseFloat` returns without a range error is a well-formed finite float -/
theorem store_wf (bits : Nat) (s : Bytes) (x : FP) (h : storeFloat bits s = some x) :
    x.wf bits = true ∧ x.isFinite bits = true := by
  have hem : 0 < expMax bits := by unfold expMax expBits; split <;> simp
  have hz : (FP.mk x.sign 0 0).wf bits = true ∧ (FP.mk x.sign 0 0).isFinite bits = true := by
    simp only [FP.wf, FP.isFinite, Bool.and_eq_true, decide_eq_true_eq]
    exact ⟨⟨two_pow_pos _, two_pow_pos _⟩, hem⟩
  unfold storeFloat at h
  cases hp : parseFloat bits s with
  | none => rw [hp] at h; simp at h
  | some r =>
    obtain ⟨y, err⟩ := r
    rw [hp] at h
    cases err with
    | true => simp at h
    | false =>
      simp only [Option.some.injEq] at h
      subst h
      unfold parseFloat at hp
      cases hl : Float.parseLit s with
      | none => rw [hl] at hp; simp at hp
      | some l =>
        rw [hl] at hp
        simp only [Option.some.injEq, Prod.mk.injEq] at hp
        obtain ⟨hy, herr⟩ := hp
        by_cases hc : l.digits = 0
        · have : roundDec bits l.digits l.exp10 = (0, 0, false) := by simp [roundDec, hc]
          rw [this] at hy
          rw [← hy]
          simp only [FP.wf, FP.isFinite, Bool.and_eq_true, decide_eq_true_eq]
          exact ⟨⟨two_pow_pos _, two_pow_pos _⟩, hem⟩
        · have hp10 : ∀ k : Nat, 0 < 10 ^ k := fun k => Nat.pos_of_ne_zero (by simp)
          have key : ∀ N D, 0 < N → 0 < D → roundDec bits l.digits l.exp10 = roundRat bits N D →
              y.wf bits = true ∧ y.isFinite bits = true := by
            intro N D hN hD he
            rw [he] at hy herr
            obtain ⟨S, q, a, b, _, _, _, _, _, _, _, _, hres⟩ := roundRat_spec bits N D hN hD
            rcases hres with ⟨hov, _, _⟩ | ⟨_, hwfy, hlt, _, _⟩
            · rw [hov] at herr; simp at herr
            · rw [← hy]
              simp only [FP.wf, FP.isFinite, Bool.and_eq_true, decide_eq_true_eq] at hwfy ⊢
              exact ⟨hwfy, hlt⟩
          rw [roundDec_eq_roundRat bits l.digits l.exp10 hc] at key
          by_cases he : l.exp10 ≥ 0
          · rw [if_pos he] at key
            exact key _ 1 (Nat.mul_pos (by omega) (hp10 _)) (by omega) rfl
          · rw [if_neg he] at key
            exact key _ _ (by omega) (hp10 _) rfl

/-- legacy `CreateMergePatch`: a number literal that decodes (no range error) is printed — `encNum` never takes
its defensive branch: `normNum l = none` only when the literal does not decode -/
theorem legacy_normNum_none_iff (l : Bytes) : Legacy.normNum l = none ↔ stdNumberToAny l = none := by
  unfold Legacy.normNum
  cases h : stdNumberToAny l with
  | none => simp
  | some x =>
    obtain ⟨hwf, hfin⟩ := store_wf 64 l x h
    obtain ⟨s, hs⟩ := float_encode_total 64 x false hwf hfin
    simp [hs]

theorem legacy_encNum_total (l : Bytes) (x : FP) (h : stdNumberToAny l = some x) :
    ∃ s, floatEncode 64 x false = some s ∧ Legacy.encNum l = s := by
  obtain ⟨hwf, hfin⟩ := store_wf 64 l x h
  obtain ⟨s, hs⟩ := float_encode_total 64 x false hwf hfin
  refine ⟨s, hs, ?_⟩
  simp [Legacy.encNum, Legacy.normNum, h, hs]

/-! boundary values, evaluated by the kernel: min subnormal, max subnormal, min normal, a power of two, max
finite, 1e23, 0.1 -/
example : searchFails 64 ⟨false, 0, 1⟩ = false := search_total 64 _ (by decide) (by decide)
example : searchFails 64 ⟨false, 2046, 0xFFFFFFFFFFFFF⟩ = false := search_total 64 _ (by decide) (by decide)
example : searchFails 32 ⟨true, 254, 0x7FFFFF⟩ = false := search_total 32 _ (by decide) (by decide)

end JP.C17
