import JP.Lemmas.ParseWs
import JP.Lemmas.SelfCR
import JP.Props.C15ensure
import JP.Props.C06bytes
import JP.Props.C11

/-!
# C16, entry points: ill-formed texts are rejected, well-formed ones accepted, white space included

"Every public entry point rejects an ill-formed document or patch with an error (`Equal` with
`false`) and accepts every well-formed one of the right shape, including leading and trailing
white space."

For the model of every entry point (`applyBytes`, `decodePatch`, `mergePatch`,
`mergeMergePatches`, `equal`; `createMergePatch` is in `JP/Props/C16entryCreate.lean`, because the
merge-family lemma files and the engine lemma files cannot be imported into one module):

* `…_rejects_malformed`: a text the RFC 8259 reference parser rejects gives the entry point's
  error (`Equal`: `false`);
* `…_ws`: white space (space, tab, CR, LF) before and after a text does not change the result
  (`parser_ws`: it does not change what the reference parser returns).  Two qualifications, both
  faithful to the Go code: `MergePatch` returns a scalar patch *verbatim*, surrounding white space
  included (`mergePatch_ws_patch`); `Apply` looks for the opening bracket of an array document with
  `isArray`, which steps over space, tab and LF but not CR — but the flag this sets (`selfCR`) is
  never consulted since `get("")` was repaired (an empty reference token is an ordinary member
  name: `JP/Lemmas/SelfCR.lean`), so `apply_ws` holds for ALL white space (`apply_ws_nonarray`,
  `apply_ws_noops` are special cases kept for their callers);
* `…_accepts…`: well-formed texts of the right shape are accepted.

One exception is part of the model because it is part of the library: the EMPTY document (which is
ill-formed) is returned unchanged by `Apply` (`apply_empty_document`), `len(doc) == 0` being tested
before anything else.
-/

namespace JP.C16
open JP Impl

/-- white-space-only text (space, tab, CR, LF) -/
abbrev WsOnly := JP.WsOnly

/-- **the reference parser ignores surrounding white space** -/
theorem parser_ws (ws₁ a ws₂ : Bytes) (h₁ : WsOnly ws₁) (h₂ : WsOnly ws₂) :
    parseCst (ws₁ ++ a ++ ws₂) = parseCst a :=
  parseCst_ws ws₁ a ws₂ h₁ h₂

theorem valid_of_malformed {x : Bytes} (h : parseCst x = none) : Scanner.valid x = false := by
  rw [C06.valid_eq_parse, h]; rfl

theorem valid_of_wellformed {x : Bytes} {c : Cst} (h : parseCst x = some c) : Scanner.valid x = true := by
  rw [C06.valid_eq_parse, h]; rfl

/-! ### `Apply` -/

/-- an ill-formed, non-empty document is rejected -/
theorem apply_rejects_malformed (o : Impl.Opts) (ind doc : Bytes) (ops : List Impl.Op)
    (h : parseCst doc = none) (hne : doc ≠ []) : Impl.applyBytes o ind doc ops = .err .invalid := by
  unfold applyBytes
  simp [hne, valid_of_malformed h]

/-- the exception (as in the library): the empty document comes back unchanged -/
theorem apply_empty_document (o : Impl.Opts) (ind : Bytes) (ops : List Impl.Op) :
    Impl.applyBytes o ind [] ops = .ok [] := by
  unfold applyBytes; simp

theorem goIsArray_ws_append {ws : Bytes} (x : Bytes) (h : WsOnly ws) (hcr : (13 : UInt8) ∉ ws) :
    goIsArray (ws ++ x) = goIsArray x := by
  induction ws with
  | nil => rfl
  | cons c cs ih =>
    have hc := h c (by simp)
    have hne : c ≠ 13 := fun hx => hcr (by simp [hx])
    have : c = 32 ∨ c = 10 ∨ c = 9 := by
      simp only [isWs, Bool.or_eq_true, decide_eq_true_eq] at hc
      rcases hc with ((h | h) | h) | h
      · exact Or.inl h
      · exact Or.inr (Or.inr h)
      · exact absurd h hne
      · exact Or.inr (Or.inl h)
    simp only [List.cons_append, goIsArray, this, if_true]
    exact ih (fun c' hc' => h c' (by simp [hc'])) (fun hx => hcr (by simp [hx]))

theorem goIsArray_ws {ws : Bytes} (h : WsOnly ws) : goIsArray ws = false := by
  induction ws with
  | nil => rfl
  | cons c cs ih =>
    have hc := h c (by simp)
    simp only [isWs, Bool.or_eq_true, decide_eq_true_eq] at hc
    simp only [goIsArray]
    split
    · exact ih (fun c' hc' => h c' (by simp [hc']))
    · rcases hc with ((rfl | rfl) | rfl) | rfl <;> decide

theorem goIsArray_append_ws {ws : Bytes} (x : Bytes) (h : WsOnly ws) : goIsArray (x ++ ws) = goIsArray x := by
  induction x with
  | nil => simp only [List.nil_append, goIsArray_ws h]; rfl
  | cons c cs ih =>
    simp only [List.cons_append, goIsArray, ih]

/-- **white space around the document is irrelevant to `Apply`** — any white space, CR included,
any document, any patch -/
theorem apply_ws (o : Impl.Opts) (ind ws₁ doc ws₂ : Bytes) (ops : List Impl.Op)
    (h₁ : WsOnly ws₁) (h₂ : WsOnly ws₂) (hne : doc ≠ []) :
    Impl.applyBytes o ind (ws₁ ++ doc ++ ws₂) ops = Impl.applyBytes o ind doc ops := by
  have hne' : ws₁ ++ doc ++ ws₂ ≠ [] := by
    cases ws₁ <;> cases doc <;> simp_all
  unfold applyBytes
  simp only [hne, hne', if_false, C16.valid_ws ws₁ doc ws₂ h₁ h₂, parser_ws ws₁ doc ws₂ h₁ h₂]
  cases hv : Scanner.valid doc with
  | false => rfl
  | true =>
    cases hp : parseCst doc with
    | none => rfl
    | some c =>
      simp only [Bool.not_true, Bool.false_eq_true, if_false]
      cases hd : decodeRoot c with
      | panic => rfl
      | err e => rfl
      | ok con => exact applyTail_selfCR o ind con (.raw c) _ _ ops

/-- the earlier form of `apply_ws` (leading white space free of CR), now a special case -/
theorem apply_ws_noCR (o : Impl.Opts) (ind ws₁ doc ws₂ : Bytes) (ops : List Impl.Op)
    (h₁ : WsOnly ws₁) (h₂ : WsOnly ws₂) (_hcr : (13 : UInt8) ∉ ws₁) (hne : doc ≠ []) :
    Impl.applyBytes o ind (ws₁ ++ doc ++ ws₂) ops = Impl.applyBytes o ind doc ops :=
  apply_ws o ind ws₁ doc ws₂ ops h₁ h₂ hne

/-- the same for any white space when the document is not an array -/
theorem apply_ws_nonarray (o : Impl.Opts) (ind ws₁ doc ws₂ : Bytes) (ops : List Impl.Op)
    (h₁ : WsOnly ws₁) (h₂ : WsOnly ws₂) (hne : doc ≠ [])
    (hna : ∀ c, parseCst doc = some c → c.isArr = false) :
    Impl.applyBytes o ind (ws₁ ++ doc ++ ws₂) ops = Impl.applyBytes o ind doc ops := by
  have hne' : ws₁ ++ doc ++ ws₂ ≠ [] := by
    cases ws₁ <;> cases doc <;> simp_all
  unfold applyBytes
  simp only [hne, hne', if_false, C16.valid_ws ws₁ doc ws₂ h₁ h₂, parser_ws ws₁ doc ws₂ h₁ h₂]
  cases hp : parseCst doc with
  | none => rfl
  | some c => simp only [hna c hp, Bool.false_and]

/-- … and for any white space and any document when there is no operation -/
theorem apply_ws_noops (o : Impl.Opts) (ind ws₁ doc ws₂ : Bytes)
    (h₁ : WsOnly ws₁) (h₂ : WsOnly ws₂) (hne : doc ≠ []) :
    Impl.applyBytes o ind (ws₁ ++ doc ++ ws₂) [] = Impl.applyBytes o ind doc [] := by
  have hne' : ws₁ ++ doc ++ ws₂ ≠ [] := by
    cases ws₁ <;> cases doc <;> simp_all
  unfold applyBytes
  simp only [hne, hne', if_false, C16.valid_ws ws₁ doc ws₂ h₁ h₂, parser_ws ws₁ doc ws₂ h₁ h₂, applyOps]
  cases hv : Scanner.valid doc with
  | false => rfl
  | true =>
    cases hp : parseCst doc with
    | none => rfl
    | some c =>
      cases hd : decodeRoot c with
      | panic => rfl
      | err e => rfl
      | ok con => rfl

/-- **a well-formed object or array document, with any surrounding white space, is accepted**
(empty patch): the output is the compact print of a well-formed tree, and — member names being
distinct and the nesting within the codec's limit — it parses to the document's value -/
theorem apply_accepts_wellformed (o : Impl.Opts) (ws₁ doc ws₂ : Bytes) (c : Cst)
    (h₁ : WsOnly ws₁) (h₂ : WsOnly ws₂) (hdoc : parseCst doc = some c)
    (hshape : c.isObj = true ∨ c.isArr = true) :
    ∃ out, Impl.applyBytes o [] (ws₁ ++ doc ++ ws₂) [] = .ok out ∧
      (∃ t : Cst, out = Cst.print t ∧ WFC t = true ∧ Cst.escape o.esc t = t) ∧
      (c.valueOf.noDup = true → parseValueOf out = some c.valueOf) := by
  have hne : doc ≠ [] := by rintro rfl; rw [C01.parseCst_nil] at hdoc; cases hdoc
  rw [apply_ws_noops o [] ws₁ doc ws₂ h₁ h₂ hne]
  have hcon : ∃ con, decodeRoot c = .ok con ∧ isDocNil con = false ∧ (∀ h : con = .nilAry, False) := by
    cases c with
    | obj ms => exact ⟨_, rfl, rfl, fun h => by simp [decodeDoc] at h⟩
    | arr xs => exact ⟨_, rfl, rfl, fun h => by simp [decodeAry] at h⟩
    | lit s => simp [Cst.isObj, Cst.isArr] at hshape
    | str s => simp [Cst.isObj, Cst.isArr] at hshape
  obtain ⟨con, hd, hnn, hna⟩ := hcon
  have hok : ∃ out, Impl.applyBytes o [] doc [] = .ok out := by
    unfold applyBytes
    simp only [hne, if_false, valid_of_wellformed hdoc, Bool.not_true, Bool.false_eq_true, hdoc, hd, applyOps,
      marshalRoot]
    cases con <;> first | exact ⟨_, rfl⟩ | (simp [isDocNil] at hnn) | exact absurd rfl (fun h => hna h)
  obtain ⟨out, hout⟩ := hok
  refine ⟨out, hout, C15.apply_output_tree_ops o doc [] out hne (by simp) hout, ?_⟩
  intro hnd
  have hc : c.valueOf.isContainer = true := by
    cases c <;> simp_all [Cst.isObj, Cst.isArr, Cst.valueOf, Value.isContainer, Value.isObj, Value.isArr]
  have h := C01.apply_bytes_refines_all o doc c [] [] hdoc hnd (by simp) rfl (by simp)
  simp only [Spec.apply, hc, if_true, Spec.applyFrom] at h
  obtain ⟨t, h1, h2, h3, _, h5, _⟩ := h
  rw [hout] at h1
  simp only [Outcome.ok.injEq] at h1
  subst h1
  have hdep : c.depth ≤ maxDepth := (parseCst_wfc_A doc c hdoc).2
  have hvd : c.valueOf.depth = c.depth := depth_valueOf c
  simp only [parseValueOf, JP.parse_print t h3 (by rw [h5, hvd]; exact hdep), Option.map_some, h2]

/-! ### `DecodePatch` -/

theorem decodePatch_rejects_malformed (p : Bytes) (h : parseCst p = none) :
    Impl.decodePatch p = .err .invalid := by
  unfold decodePatch
  simp [valid_of_malformed h]

theorem decodePatch_ws (ws₁ p ws₂ : Bytes) (h₁ : WsOnly ws₁) (h₂ : WsOnly ws₂) :
    Impl.decodePatch (ws₁ ++ p ++ ws₂) = Impl.decodePatch p := by
  unfold decodePatch
  rw [C16.valid_ws ws₁ p ws₂ h₁ h₂, parser_ws ws₁ p ws₂ h₁ h₂]

/-- `DecodePatch` accepts exactly the well-formed patch documents (C11, with the scanner
hypothesis discharged), white space included -/
theorem decodePatch_accepts_iff (ws₁ p ws₂ : Bytes) (h₁ : WsOnly ws₁) (h₂ : WsOnly ws₂) :
    (∃ ops, Impl.decodePatch (ws₁ ++ p ++ ws₂) = .ok ops) ↔
      (∃ v, parseValueOf p = some v ∧ Spec.wellFormedPatch v = true) := by
  rw [decodePatch_ws ws₁ p ws₂ h₁ h₂]
  exact C11.decodePatch_iff p (C06.valid_eq_parse p)

/-! ### `MergePatch` / `MergeMergePatches` -/

theorem doMergePatch_rejects_malformed (mm : Bool) (d p : Bytes) :
    (parseCst d = none → Impl.doMergePatch mm d p = .err .badDoc) ∧
    ((parseCst d).isSome = true → parseCst p = none → Impl.doMergePatch mm d p = .err .badPatch) := by
  constructor
  · intro h; unfold doMergePatch; simp [valid_of_malformed h]
  · intro h1 h2
    cases hd : parseCst d with
    | none => rw [hd] at h1; cases h1
    | some dc => unfold doMergePatch; simp [valid_of_wellformed hd, valid_of_malformed h2]

/-- `MergePatch`: an ill-formed document gives `errBadJSONDoc`, an ill-formed patch (with a
well-formed document) `errBadJSONPatch` -/
theorem mergePatch_rejects_malformed (d p : Bytes) :
    (parseCst d = none → Impl.mergePatch d p = .err .badDoc) ∧
    ((parseCst d).isSome = true → parseCst p = none → Impl.mergePatch d p = .err .badPatch) :=
  doMergePatch_rejects_malformed false d p

/-- `MergeMergePatches`: the first patch plays the document's part -/
theorem mergeMerge_rejects_malformed (p1 p2 : Bytes) :
    (parseCst p1 = none → Impl.mergeMergePatches p1 p2 = .err .badDoc) ∧
    ((parseCst p1).isSome = true → parseCst p2 = none → Impl.mergeMergePatches p1 p2 = .err .badPatch) :=
  doMergePatch_rejects_malformed true p1 p2

/-- white space around the document (first patch) is irrelevant -/
theorem doMergePatch_ws_doc (mm : Bool) (ws₁ d ws₂ p : Bytes) (h₁ : WsOnly ws₁) (h₂ : WsOnly ws₂) :
    Impl.doMergePatch mm (ws₁ ++ d ++ ws₂) p = Impl.doMergePatch mm d p := by
  unfold doMergePatch
  rw [C16.valid_ws ws₁ d ws₂ h₁ h₂, parser_ws ws₁ d ws₂ h₁ h₂]

/-- `doMergePatch` behind the validity gate -/
def mergeCore (mm : Bool) (dc pc : Cst) (patchData : Bytes) : Outcome Bytes :=
  if dc.isNullLit then .err .badDoc
  else if pc.isNullLit then .ok patchData
  else
    match dc, pc with
    | .obj dms, .obj pms =>
      match decodeDoc dms with
      | .doc keys obj =>
        let (keys', obj') := mergeDocsC mm keys obj pms
        .ok (Cst.print (cstOf true (.doc keys' obj')))
      | _ => .panic
    | _, .obj pms =>
      if mm then .ok (Cst.print (cstOf true (decodeDoc pms)))
      else .ok (Cst.print (cstOf true (pruneN (decodeDoc pms))))
    | _, .arr xs => .ok (Cst.print (cstOf true (decodeAry xs)))
    | _, _ => .ok patchData

theorem doMergePatch_some (mm : Bool) (d p : Bytes) (dc pc : Cst) (hd : parseCst d = some dc)
    (hp : parseCst p = some pc) : Impl.doMergePatch mm d p = mergeCore mm dc pc p := by
  unfold doMergePatch mergeCore
  simp only [valid_of_wellformed hd, valid_of_wellformed hp, Bool.not_true, Bool.false_eq_true, if_false, hd, hp]
  cases dc <;> cases pc <;> rfl

theorem mergeCore_ws (mm : Bool) (dc pc : Cst) (p p' : Bytes) :
    mergeCore mm dc pc p' = mergeCore mm dc pc p ∨
    (mergeCore mm dc pc p = .ok p ∧ mergeCore mm dc pc p' = .ok p') := by
  unfold mergeCore
  by_cases h1 : dc.isNullLit = true
  · left; simp only [h1, if_true]
  · by_cases h2 : pc.isNullLit = true
    · right; simp only [h1, h2, if_true, Bool.false_eq_true, if_false, and_self]
    · simp only [h1, h2, Bool.false_eq_true, if_false]
      cases pc with
      | obj pms => left; cases dc <;> rfl
      | arr xs => left; cases dc <;> rfl
      | lit s => right; cases dc <;> exact ⟨rfl, rfl⟩
      | str s => right; cases dc <;> exact ⟨rfl, rfl⟩

theorem mergeCore_ok (mm : Bool) (dc pc : Cst) (p : Bytes) (hnn : dc.isNullLit = false) :
    ∃ out, mergeCore mm dc pc p = .ok out := by
  unfold mergeCore
  simp only [hnn, Bool.false_eq_true, if_false]
  split
  · exact ⟨_, rfl⟩
  · cases pc with
    | obj pms =>
      cases dc with
      | obj dms => exact ⟨_, rfl⟩
      | arr xs => simp only []; split <;> exact ⟨_, rfl⟩
      | lit s => simp only []; split <;> exact ⟨_, rfl⟩
      | str s => simp only []; split <;> exact ⟨_, rfl⟩
    | arr xs => cases dc <;> exact ⟨_, rfl⟩
    | lit s => cases dc <;> exact ⟨_, rfl⟩
    | str s => cases dc <;> exact ⟨_, rfl⟩

/-- white space around the patch: the result is the same, except where the patch text itself is
the result (a `null` or scalar patch is returned verbatim — with its white space) -/
theorem doMergePatch_ws_patch (mm : Bool) (d ws₁ p ws₂ : Bytes) (h₁ : WsOnly ws₁) (h₂ : WsOnly ws₂) :
    Impl.doMergePatch mm d (ws₁ ++ p ++ ws₂) = Impl.doMergePatch mm d p ∨
    (Impl.doMergePatch mm d p = .ok p ∧ Impl.doMergePatch mm d (ws₁ ++ p ++ ws₂) = .ok (ws₁ ++ p ++ ws₂)) := by
  have hpw := parser_ws ws₁ p ws₂ h₁ h₂
  cases hd : parseCst d with
  | none =>
    left
    rw [(doMergePatch_rejects_malformed mm d _).1 hd, (doMergePatch_rejects_malformed mm d _).1 hd]
  | some dc =>
    cases hp : parseCst p with
    | none =>
      left
      rw [(doMergePatch_rejects_malformed mm d _).2 (by rw [hd]; rfl) hp,
        (doMergePatch_rejects_malformed mm d _).2 (by rw [hd]; rfl) (by rw [hpw]; exact hp)]
    | some pc =>
      rw [doMergePatch_some mm d p dc pc hd hp, doMergePatch_some mm d _ dc pc hd (by rw [hpw]; exact hp)]
      exact mergeCore_ws mm dc pc p _

theorem mergePatch_ws_doc (ws₁ d ws₂ p : Bytes) (h₁ : WsOnly ws₁) (h₂ : WsOnly ws₂) :
    Impl.mergePatch (ws₁ ++ d ++ ws₂) p = Impl.mergePatch d p := doMergePatch_ws_doc false ws₁ d ws₂ p h₁ h₂

theorem mergePatch_ws_patch (d ws₁ p ws₂ : Bytes) (h₁ : WsOnly ws₁) (h₂ : WsOnly ws₂) :
    Impl.mergePatch d (ws₁ ++ p ++ ws₂) = Impl.mergePatch d p ∨
    (Impl.mergePatch d p = .ok p ∧ Impl.mergePatch d (ws₁ ++ p ++ ws₂) = .ok (ws₁ ++ p ++ ws₂)) :=
  doMergePatch_ws_patch false d ws₁ p ws₂ h₁ h₂

theorem mergeMerge_ws_first (ws₁ p1 ws₂ p2 : Bytes) (h₁ : WsOnly ws₁) (h₂ : WsOnly ws₂) :
    Impl.mergeMergePatches (ws₁ ++ p1 ++ ws₂) p2 = Impl.mergeMergePatches p1 p2 :=
  doMergePatch_ws_doc true ws₁ p1 ws₂ p2 h₁ h₂

theorem mergeMerge_ws_second (p1 ws₁ p2 ws₂ : Bytes) (h₁ : WsOnly ws₁) (h₂ : WsOnly ws₂) :
    Impl.mergeMergePatches p1 (ws₁ ++ p2 ++ ws₂) = Impl.mergeMergePatches p1 p2 ∨
    (Impl.mergeMergePatches p1 p2 = .ok p2 ∧
      Impl.mergeMergePatches p1 (ws₁ ++ p2 ++ ws₂) = .ok (ws₁ ++ p2 ++ ws₂)) :=
  doMergePatch_ws_patch true p1 ws₁ p2 ws₂ h₁ h₂

/-- whichever alternative of `doMergePatch_ws_patch` applies, the two outputs denote the same
value -/
theorem doMergePatch_ws_patch_value (mm : Bool) (d ws₁ p ws₂ : Bytes) (h₁ : WsOnly ws₁) (h₂ : WsOnly ws₂) :
    match Impl.doMergePatch mm d p, Impl.doMergePatch mm d (ws₁ ++ p ++ ws₂) with
    | .ok out, .ok out' => parseCst out' = parseCst out
    | .err e, .err e' => e = e'
    | .panic, .panic => True
    | _, _ => False := by
  rcases doMergePatch_ws_patch mm d ws₁ p ws₂ h₁ h₂ with h | ⟨h1, h2⟩
  · rw [h]; cases Impl.doMergePatch mm d p <;> simp
  · rw [h1, h2]; exact parser_ws ws₁ p ws₂ h₁ h₂

/-- **a well-formed non-null document and a well-formed patch are accepted**, white space
included -/
theorem doMergePatch_accepts (mm : Bool) (ws₁ d ws₂ ws₃ p ws₄ : Bytes) (dc pc : Cst)
    (h₁ : WsOnly ws₁) (h₂ : WsOnly ws₂) (h₃ : WsOnly ws₃) (h₄ : WsOnly ws₄)
    (hd : parseCst d = some dc) (hp : parseCst p = some pc) (hnn : dc.isNullLit = false) :
    ∃ out, Impl.doMergePatch mm (ws₁ ++ d ++ ws₂) (ws₃ ++ p ++ ws₄) = .ok out := by
  rw [doMergePatch_ws_doc mm ws₁ d ws₂ _ h₁ h₂]
  have key : ∃ out, Impl.doMergePatch mm d p = .ok out := by
    rw [doMergePatch_some mm d p dc pc hd hp]; exact mergeCore_ok mm dc pc p hnn
  obtain ⟨out, hout⟩ := key
  rcases doMergePatch_ws_patch mm d ws₃ p ws₄ h₃ h₄ with h | ⟨_, h2⟩
  · exact ⟨out, by rw [h, hout]⟩
  · exact ⟨_, h2⟩

theorem mergePatch_accepts (ws₁ d ws₂ ws₃ p ws₄ : Bytes) (dc pc : Cst)
    (h₁ : WsOnly ws₁) (h₂ : WsOnly ws₂) (h₃ : WsOnly ws₃) (h₄ : WsOnly ws₄)
    (hd : parseCst d = some dc) (hp : parseCst p = some pc) (hnn : dc.isNullLit = false) :
    ∃ out, Impl.mergePatch (ws₁ ++ d ++ ws₂) (ws₃ ++ p ++ ws₄) = .ok out :=
  doMergePatch_accepts false ws₁ d ws₂ ws₃ p ws₄ dc pc h₁ h₂ h₃ h₄ hd hp hnn

theorem mergeMerge_accepts (ws₁ p1 ws₂ ws₃ p2 ws₄ : Bytes) (c1 c2 : Cst)
    (h₁ : WsOnly ws₁) (h₂ : WsOnly ws₂) (h₃ : WsOnly ws₃) (h₄ : WsOnly ws₄)
    (hd : parseCst p1 = some c1) (hp : parseCst p2 = some c2) (hnn : c1.isNullLit = false) :
    ∃ out, Impl.mergeMergePatches (ws₁ ++ p1 ++ ws₂) (ws₃ ++ p2 ++ ws₄) = .ok out :=
  doMergePatch_accepts true ws₁ p1 ws₂ ws₃ p2 ws₄ c1 c2 h₁ h₂ h₃ h₄ hd hp hnn

/-! ### `Equal` -/

theorem equal_rejects_malformed (a b : Bytes) (h : parseCst a = none ∨ parseCst b = none) :
    Impl.equal a b = false :=
  C06.equal_malformed a b h

theorem equal_ws (ws₁ a ws₂ ws₃ b ws₄ : Bytes)
    (h₁ : WsOnly ws₁) (h₂ : WsOnly ws₂) (h₃ : WsOnly ws₃) (h₄ : WsOnly ws₄) :
    Impl.equal (ws₁ ++ a ++ ws₂) (ws₃ ++ b ++ ws₄) = Impl.equal a b := by
  unfold equal
  rw [C16.valid_ws ws₁ a ws₂ h₁ h₂, C16.valid_ws ws₃ b ws₄ h₃ h₄, parser_ws ws₁ a ws₂ h₁ h₂,
    parser_ws ws₃ b ws₄ h₃ h₄]

/-- a well-formed text (distinct member names) is `Equal` to itself with any white space added -/
theorem equal_accepts_ws (ws₁ a ws₂ : Bytes) (va : Value) (h₁ : WsOnly ws₁) (h₂ : WsOnly ws₂)
    (hp : parseValueOf a = some va) (hd : va.noDup = true) : Impl.equal (ws₁ ++ a ++ ws₂) a = true := by
  have := equal_ws ws₁ a ws₂ [] a [] h₁ h₂ (by intro c hc; cases hc) (by intro c hc; cases hc)
  simp only [List.nil_append, List.append_nil] at this
  rw [this]
  exact C06.equal_refl_bytes a va hp hd

/-! ### the hypotheses are satisfiable -/

section Examples

def exWs : Bytes := ascii " \t\r\n"
def exWsNoCR : Bytes := ascii " \t\n"
theorem exWs_ws : WsOnly exWs := by decide
theorem exWsNoCR_ws : WsOnly exWsNoCR := by decide

example : parseCst (exWs ++ ascii "{\"a\" : [1, 2]}" ++ exWs) = parseCst (ascii "{\"a\" : [1, 2]}") :=
  parser_ws _ _ _ exWs_ws exWs_ws
example : (parseCst (ascii "{\"a\" : [1, 2]}")).isSome = true := by decide +kernel
example : parseCst (ascii "{\"a\":") = none ∧ ascii "{\"a\":" ≠ [] := by decide +kernel
example : Impl.applyBytes {} [] (ascii "{\"a\":") [] = .err .invalid :=
  apply_rejects_malformed {} [] _ [] (by decide +kernel) (by decide)
example : (13 : UInt8) ∉ exWsNoCR := by decide
/-- no CR restriction any more: with the repaired `get` an empty reference token is an ordinary
member name, so the pointer `//0` does not reach the root's private node and a leading CR (which
`isArray` does not step over) is irrelevant.  What used to tell `[1]` and `\r[1]` apart (`test //0`
succeeded on the first and failed on the second) now fails on both alike: an array has no
member `""` -/
example :
    (match Impl.decodePatch (ascii "[{\"op\":\"test\",\"path\":\"//0\",\"value\":1}]") with
     | .ok ops =>
       (match Impl.applyBytes {} [] (ascii "[1]") ops, Impl.applyBytes {} [] (ascii "\r[1]") ops with
        | .err e₁, .err e₂ => e₁ == .missing && e₂ == .missing
        | _, _ => false)
     | _ => false) = true := by decide +kernel
/-- … `//0` addresses element 0 of the member named `""` (RFC 6901), CR or not -/
example :
    (match Impl.decodePatch (ascii "[{\"op\":\"test\",\"path\":\"//0\",\"value\":1}]") with
     | .ok ops =>
       (match Impl.applyBytes {} [] (ascii "{\"\":[1]}") ops,
          Impl.applyBytes {} [] (ascii "\r{\"\":[1]}") ops with
        | .ok o₁, .ok o₂ => o₁ == ascii "{\"\":[1]}" && o₂ == ascii "{\"\":[1]}"
        | _, _ => false)
     | _ => false) = true := by decide +kernel
/-- … and an array document behind white space with CRs is patched like the bare one
(`apply_ws` with `exWs`, which contains a CR) -/
example (ops : List Impl.Op) :
    Impl.applyBytes {} [] (exWs ++ ascii "[{\"\":1}]" ++ exWs) ops = Impl.applyBytes {} [] (ascii "[{\"\":1}]") ops :=
  apply_ws {} [] _ _ _ ops exWs_ws exWs_ws (by decide)
example :
    (match Impl.decodePatch (ascii "[{\"op\":\"replace\",\"path\":\"/0/\",\"value\":2}]") with
     | .ok ops =>
       (match Impl.applyBytes {} [] (ascii "\r[{\"\":1}]") ops with
        | .ok o₁ => o₁ == ascii "[{\"\":2}]"
        | _ => false)
     | _ => false) = true := by decide +kernel
example : (match parseCst (ascii "[{\"k\":1}]") with
    | some c => (c.isObj || c.isArr) && c.valueOf.noDup | none => false) = true := by decide +kernel
example : (parseCst (ascii "{\"a\":1}")).isSome = true ∧ parseCst (ascii "{\"a\"") = none := by decide +kernel
example : (match Impl.mergePatch (ascii "{\"a\":1}") (ascii " 7 "), Impl.mergePatch (ascii "{\"a\":1}") (ascii "7") with
    | .ok o1, .ok o2 => o1 == ascii " 7 " && o2 == ascii "7" | _, _ => false) = true := by decide +kernel
example : Impl.equal (ascii " [1,2]\n") (ascii "[1, 2]") = true := by decide +kernel

end Examples

/-
all of the following: [propext, Classical.choice, Quot.sound]
#print axioms JP.C16.parser_ws
#print axioms JP.C16.apply_rejects_malformed
#print axioms JP.C16.apply_empty_document
#print axioms JP.C16.apply_ws
#print axioms JP.C16.apply_ws_noCR
#print axioms JP.C16.apply_ws_nonarray
#print axioms JP.C16.apply_ws_noops
#print axioms JP.C16.apply_accepts_wellformed
#print axioms JP.C16.decodePatch_rejects_malformed
#print axioms JP.C16.decodePatch_ws
#print axioms JP.C16.decodePatch_accepts_iff
#print axioms JP.C16.mergePatch_rejects_malformed
#print axioms JP.C16.mergeMerge_rejects_malformed
#print axioms JP.C16.doMergePatch_ws_doc
#print axioms JP.C16.doMergePatch_ws_patch
#print axioms JP.C16.doMergePatch_ws_patch_value
#print axioms JP.C16.doMergePatch_accepts
#print axioms JP.C16.equal_rejects_malformed
#print axioms JP.C16.equal_ws
#print axioms JP.C16.equal_accepts_ws
-/

end JP.C16
