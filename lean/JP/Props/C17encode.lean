import JP.Lemmas.EncodeNode
import JP.Lemmas.EncodeAny
import JP.Lemmas.EncodeValid
import JP.Lemmas.EncodeMerge
import JP.Impl.Apply

/-!
# C17 — the reflective encoder writes what the implementation model says it writes

`JP/Codec/Encode.lean` is the literal model of `encode.go` (`MarshalEscaped`, `reflectValue`,
`redirMarshalerEncoder`, `marshalerTrustEncoder`, the `RawMessage` marshaler with `compact`,
`sliceEncoder`, `mapEncoder`, `interfaceEncoder`, `stringEncoder` with `isValidNumber`) together
with the marshalling methods of `v5/patch.go` (`lazyNode.RedirectMarshalJSON`,
`partialDoc.TrustMarshalJSON`, `partialArray.RedirectMarshalJSON`), validated line by line
against the real code (`CODEC … enc …`).  The theorems here turn the *assumed* descriptions
`Impl.cstOf`, `Impl.marshalRoot`, `Impl.marshalAnyE` into consequences of that model.

Which flag governs what (`marshal_node_flags`): the encoder's own flag `esc` spells the raw
messages reached through arrays only; inside a parsed object everything — the member names and
all member values, however deep — is spelled with the object's own `opts.EscapeHTML`
(`escapedOf`: `opts == nil` means escape), because `TrustMarshalJSON` starts a fresh
`MarshalEscaped(…, escaped)` for every name and member.  The model's `cstOf esc` has one flag;
it is what the encoder writes when every parsed object carries the options of the call
(`marshal_node`, `marshal_root`), which is the case on every path of the library:
`partialDoc.opts` is set to the `options` of the running call by `Apply` (root), `add ""`,
`intoDoc(options)`, `tryDoc(options)` (`findObject`, `ensurePathExists`, `replace ""`, `test`
via `equal`, `merge`, `pruneNulls`) and by `doMergePatch` (`NewApplyOptions()`, escape on, output
by `json.Marshal`, escape on); the decoder itself never allocates a `partialDoc` below another
(children are raw `*lazyNode`s); `op.value()` builds a fresh node per call, so nothing parsed
under other options survives from one `Apply` to the next; `pruneDocNulls` passes
`&ApplyOptions{}` to `remove` only; `Equal` passes nil options and never marshals.
-/

namespace JP.C17
open JP Impl Codec.Enc

/-! ### nodes -/

/-- the encoder on a library node writes exactly the printed syntax tree the model uses.
`RepN o n g`: `g` is a `*lazyNode` heap for `n` (a raw message is any text that parses to the
tree the node keeps; parsed objects carry `opts = o`).  The flag of the call and the flag of
the objects coincide. -/
theorem marshal_node (esc : Bool) (o : Option Bool) (n : Node) (g : GoVal)
    (hr : RepN o n g) (ho : escapedOf o = esc) :
    marshalEscaped esc g = .ok (Cst.print (cstOf esc n)) := by
  simp only [marshalEscaped, enc_rep o n g esc hr, ho, cstOf2_same]

/-- the two flags apart: `esc` (the encoder's) for raw messages outside every parsed object,
the objects' own flag inside -/
theorem marshal_node_flags (esc : Bool) (o : Option Bool) (n : Node) (g : GoVal) (hr : RepN o n g) :
    marshalEscaped esc g = .ok (Cst.print (cstOf2 esc (escapedOf o) n)) := by
  simp only [marshalEscaped, enc_rep o n g esc hr]

/-- the canonical representative: raw messages spelled compactly, every object carrying the
call's options -/
theorem marshal_node_toGo (esc : Bool) (n : Node) (hw : WN n = true) (hp : Proper n = true) :
    marshalEscaped esc (toGo (optsOf esc) n) = .ok (Cst.print (cstOf esc n)) :=
  marshal_node esc (optsOf esc) n _ (RepN_toGo _ n hw hp) rfl

-- {"a<": <raw ` "<"`>, "b": [null, <raw `[ 1 ]`>]} under EscapeHTML = true
example : marshalEscaped true (.lazyDoc (.docPtr [[97, 60], [98]]
      [([97, 60], .lazyRaw (.rawPtr (some [32, 34, 60, 34]))),
       ([98], .lazyAry (.slice [.lazyNil, .lazyRaw (.rawPtr (some [91, 32, 49, 32, 93]))]))] (some true)))
    = .ok (Cst.print (cstOf true (.doc [[97, 60], [98]]
        [([97, 60], .raw (.str [60])), ([98], .ary [.nil, .raw (.arr [.lit [49]])])]))) := by rfl

example : RepN (some true) (.doc [[97, 60], [98]]
        [([97, 60], .raw (.str [60])), ([98], .ary [.nil, .raw (.arr [.lit [49]])])])
      (.lazyDoc (.docPtr [[97, 60], [98]]
      [([97, 60], .lazyRaw (.rawPtr (some [32, 34, 60, 34]))),
       ([98], .lazyAry (.slice [.lazyNil, .lazyRaw (.rawPtr (some [91, 32, 49, 32, 93]))]))] (some true))) := by
  simp only [RepN, RepM, RepL]
  exact ⟨_, rfl, _, _, rfl, ⟨_, rfl, by rfl⟩, _, _, rfl, ⟨_, rfl, _, _, rfl, rfl, _, _, rfl, ⟨_, rfl, by rfl⟩, rfl⟩, rfl⟩

/-- flags that differ are visible: an array node (no enclosing object) holding a raw string and an
object parsed under other options -/
example : marshalEscaped false (.lazyAry (.slice [.lazyRaw (.rawPtr (some [34, 60, 34])),
      .lazyDoc (.docPtr [[60]] [([60], .lazyRaw (.rawPtr (some [34, 60, 34])))] (some true))]))
    = .ok (ascii "[\"<\",{\"\\u003c\":\"\\u003c\"}]") := by rfl

/-- the root container as `ApplyIndentWithOptions` marshals it: `Impl.marshalRoot` is what the
encoder does, including `ErrExpectedObject` for a root decoded from `null` and the text `null`
for the nil `*partialArray` left by `replace "" null` -/
theorem marshal_root (esc : Bool) (o : Option Bool) (r : Root) (g : GoVal)
    (hr : RepRoot o r.con g) (ho : escapedOf o = esc) :
    marshalEscaped esc g = marshalRoot esc r := by
  have h := enc_root o esc ho r.con g hr
  simp only [marshalEscaped, marshalRoot, h]
  cases r.con <;> first | rfl | (simp only [RepRoot] at hr)

example : marshalEscaped true (rootToGo (optsOf true) (.ary [.raw (.str [38]), .nil]))
    = marshalRoot true { con := .ary [.raw (.str [38]), .nil], self := .nil } := by rfl

example : RepRoot (optsOf true) (.ary [.raw (.str [38]), .nil]) (rootToGo (optsOf true) (.ary [.raw (.str [38]), .nil])) :=
  RepRoot_rootToGo _ _ (by decide) (Or.inl (by decide)) ⟨by simp, by simp⟩

example : RepRoot none .docNil (.docPtrNilMap [] none) ∧ RepRoot none .nilAry .aryNilPtr := ⟨⟨[], rfl⟩, rfl⟩

/-- `deepCopy`: the bytes `json.MarshalEscaped(src, options.EscapeHTML)` returns are the print of
`cstOf`; the fresh raw node made of them is again a represented node (so the size the copy
accounting adds is `(Cst.print (cstOf esc n)).length`, as in `Impl.deepCopy`) -/
theorem deepCopy_rep (esc : Bool) (o o' : Option Bool) (n : Node) (g : GoVal)
    (hr : RepN o n g) (ho : escapedOf o = esc) (hn : n ≠ .nil) (hd : (cstOf esc n).depth ≤ maxDepth) :
    ∃ a, marshalEscaped esc g = .ok a ∧ a.length = (deepCopy esc n).2 ∧
      RepN o' (deepCopy esc n).1 (.lazyRaw (.rawPtr (some a))) := by
  have hw := (RepN_wn o n g hr).1
  have hp := parse_print _ (WFC_cstOf esc n hw) hd
  cases n with
  | nil => exact absurd rfl hn
  | raw c => exact ⟨_, marshal_node esc o _ g hr ho, rfl, by simp only [deepCopy, RepN]; exact ⟨_, rfl, hp⟩⟩
  | doc keys obj => exact ⟨_, marshal_node esc o _ g hr ho, rfl, by simp only [deepCopy, RepN]; exact ⟨_, rfl, hp⟩⟩
  | ary ns => exact ⟨_, marshal_node esc o _ g hr ho, rfl, by simp only [deepCopy, RepN]; exact ⟨_, rfl, hp⟩⟩
  | docNil => simp only [RepN] at hr
  | nilAry => simp only [RepN] at hr

example : (deepCopy true (.ary [.raw (.str [60])])).1 = .raw (.arr [.str (ascii "\\u003c")]) := by rfl

/-- literalness of the tabulation in the model: the result `emitKeys` uses for the name `k` is the
run of `json.MarshalEscaped(n.obj[k], escaped)`, a missing entry reading as the nil `*lazyNode` -/
theorem trustMarshalJSON_member (escaped : Bool) (k : Bytes) (obj : List (Bytes × GoVal)) :
    (lookupW k (encMembers escaped obj)).getD (write null) = enc escaped ((lookupG k obj).getD .lazyNil) :=
  trust_member escaped k obj

/-- a name in `keys` without a map entry prints `null`; a name listed twice prints twice -/
example : marshalEscaped true (.docPtr [[97], [98], [97]] [([97], .lazyRaw (.rawPtr (some [49])))] none)
    = .ok (ascii "{\"a\":1,\"b\":null,\"a\":1}") := by rfl

/-! ### a `partialDoc` with a nil map -/

/-- as the root: `TrustMarshalJSON` returns `ErrExpectedObject`, `marshalerTrustEncoder` raises it
wrapped in a `MarshalerError`, `MarshalEscaped` returns it (what `Impl.marshalRoot` assumes) -/
theorem marshal_docNil (esc : Bool) (keys : List Bytes) (o : Option Bool) :
    marshalEscaped esc (.docPtrNilMap keys o) = .err .expectedObject := rfl

/-- behind a `*lazyNode` (`rootNode` of such a root, as `copy` with `from = ""` builds it): the
nested `e.marshal` of `redirMarshalerEncoder` returns the error and the caller drops it; the
node writes nothing and the call succeeds with the empty text -/
theorem marshal_docNil_nested (esc : Bool) (keys : List Bytes) (o : Option Bool) :
    marshalEscaped esc (.lazyDoc (.docPtrNilMap keys o)) = .ok [] := rfl

/-- in general: `redirMarshalerEncoder` never reports an error of the nested marshal; what had
been appended before the abort stays in the buffer -/
theorem marshal_lazy_drops (esc : Bool) (d : GoVal) (out : Bytes) (e : EncErr)
    (h : enc esc d = .err out e) :
    marshalEscaped esc (.lazyDoc d) = .ok out ∧ marshalEscaped esc (.lazyRaw d) = .ok out ∧
      marshalEscaped esc (.lazyAry d) = .ok out ∧ marshalEscaped esc (.aryPtr d) = .ok out := by
  simp only [marshalEscaped, enc, h, dropErr_err, and_self]

/-- the consequence one level up: the member is printed as nothing, the output is not JSON -/
example : marshalEscaped true (.docPtr [[97]] [([97], .lazyDoc (.docPtrNilMap [] none))] none)
    = .ok (ascii "{\"a\":}") := by rfl

/-- the same drop hides a raw message that `compact` rejects -/
example : marshalEscaped true (.slice [.lazyRaw (.rawPtr (some (ascii "nul"))), .lazyRaw (.rawPtr (some (ascii "1 2")))])
    = .ok (ascii "[,]") := by rfl

/-- whereas outside a `*lazyNode` the error of `compact` is returned -/
example : marshalEscaped true (.slice [.rawMsg (some (ascii "nul"))]) = .err .other := by rfl

/-! ### dynamic values -/

/-- `Marshal`/`MarshalEscaped` of a dynamic value whose `json.Number`s are valid literals: the print
of `marshalAnyE`, the members of every `map[string]any` in name order -/
theorem marshal_any (esc : Bool) (v : Value) (hn : NumsValid v = true) :
    marshalEscaped esc (anyToGo v) = .ok (Cst.print (marshalAnyE esc (sortV v))) := by
  simp only [marshalEscaped, enc_any esc v hn]

/-- on name-sorted values (`Norm`), in particular on everything `Unmarshal` into `any` yields
(`Impl.anyOf`), no reordering happens -/
theorem marshal_any_sorted (esc : Bool) (v : Value) (hn : NumsValid v = true) (hs : Norm v = true) :
    marshalEscaped esc (anyToGo v) = .ok (Cst.print (marshalAnyE esc v)) := by
  rw [marshal_any esc v hn, sortV_norm v hs]

theorem marshal_anyOf (esc : Bool) (v : Value) (hn : NumsValid (anyOf v) = true) :
    marshalEscaped esc (anyToGo (anyOf v)) = .ok (Cst.print (marshalAnyE esc (anyOf v))) :=
  marshal_any_sorted esc _ hn (Norm_anyOf v)

/-- the encoder's own check is the RFC 8259 number grammar -/
theorem isValidNumber_spec (l : Bytes) : isValidNumber l = validNum l := isValidNumber_validNum l

/-- failure: exactly when some `json.Number` fails the encoder's check `isValidNumber` (applied to
`0` for the empty literal, which is therefore printed as `0` and is *not* an error); the error
is the plain `invalid number literal` error, and there is no panic -/
theorem marshal_any_err (esc : Bool) (v : Value) :
    (GoNums v = true → ∃ out, marshalEscaped esc (anyToGo v) = .ok out) ∧
    (GoNums v = false → marshalEscaped esc (anyToGo v) = .err .other) := by
  have h := enc_any_kind esc v
  constructor
  · intro hv
    obtain ⟨out, ho⟩ := h.1 hv
    exact ⟨out, by simp only [marshalEscaped, ho]⟩
  · intro hv
    obtain ⟨out, ho⟩ := h.2 hv
    simp only [marshalEscaped, ho, classify]

theorem marshal_any_valid_nums (v : Value) (hn : NumsValid v = true) : GoNums v = true := GoNums_of_valid v hn

-- {"b": [1.5, "<"], "a": null} : sorted on output
example : marshalEscaped true (anyToGo (.obj [([98], .arr [.num [49, 46, 53], .str [60]]), ([97], .null)]))
    = .ok (ascii "{\"a\":null,\"b\":[1.5,\"\\u003c\"]}") := by rfl

example : NumsValid (.obj [([98], .arr [.num [49, 46, 53], .str [60]]), ([97], .null)]) = true := by decide

example : GoNums (.arr [.num [49], .num [48, 49]]) = false ∧
    marshalEscaped true (anyToGo (.arr [.num [49], .num [48, 49]])) = .err .other := ⟨by rfl, by rfl⟩

/-- `Number("")` -/
example : marshalEscaped true (anyToGo (.num [])) = .ok [48] := by rfl

/-! ### raw messages -/

/-- a `json.RawMessage` (element of `[]json.RawMessage` in `createArrayMergePatch`, value of an
`Operation`): `compact` with the encoder's flag; the marshaler error exactly when the text is not
JSON.  Outside a `*lazyNode` this error is reported. -/
theorem marshal_raw (esc : Bool) (bs : Bytes) :
    marshalEscaped esc (.rawMsg (some bs)) =
      (match parseCst bs with
       | some c => .ok (Cst.print (Cst.escape esc c))
       | none => .err .other) := by
  cases hp : parseCst bs with
  | some c => simp only [marshalEscaped, enc, encRawMessage_of_parse esc bs c hp]
  | none =>
    have h1 := Scanner.compact_isSome esc bs
    rw [Scanner.valid_iff_parseCst, hp] at h1
    cases hc : Scanner.compact esc bs with
    | some o => rw [hc] at h1; simp at h1
    | none => simp only [marshalEscaped, enc, encRawMessage, rawMarshalJSON, hc, classify]

/-- nil messages and nil pointers print `null` -/
theorem marshal_raw_nil (esc : Bool) :
    marshalEscaped esc (.rawMsg none) = .ok (ascii "null") ∧ marshalEscaped esc .rawPtrNil = .ok (ascii "null") ∧
      marshalEscaped esc (.rawPtr none) = .ok (ascii "null") := by
  cases esc <;> exact ⟨by rfl, by rfl, by rfl⟩

example : marshalEscaped true (.slice [.rawMsg (some (ascii " { \"a\" : \"<\" } ")), .rawMsg none])
    = .ok (ascii "[{\"a\":\"\\u003c\"},null]") := by rfl

/-! ### the other `Marshal` calls of `merge.go` -/

/-- `json.Marshal(patchAry.nodes)` (`doMergePatch`, the patch is an array): a `[]*lazyNode` at top
level prints like the array node -/
theorem marshal_nodes (esc : Bool) (o : Option Bool) (ns : List Node) (gs : List GoVal)
    (hr : RepL o ns gs) (ho : escapedOf o = esc) :
    marshalEscaped esc (.slice gs) = .ok (Cst.print (cstOf esc (.ary ns))) := by
  have h := encElems_rep o ns gs esc hr
  rw [ho, cstOf2L_same] at h
  simp only [marshalEscaped, enc, h, write_eq, seq_ok_ok, cstOf, Cst.print, List.cons_append,
    List.nil_append]

/-- `json.Marshal(result)` in `createArrayMergePatch`: the elements are the texts
`createObjectMergePatch` returned, `Cst.print (marshalAny v)`; compacting them with escaping on
changes nothing (`Impl.createMergePatch` prints `.arr (vs.map marshalAny)`) -/
theorem marshal_create_array (vs : List Value) (hn : ∀ v ∈ vs, NumsValid v = true)
    (hd : ∀ v ∈ vs, (marshalAny v).depth ≤ maxDepth) :
    marshal (.slice (vs.map fun v => .rawMsg (some (Cst.print (marshalAny v))))) =
      .ok (Cst.print (.arr (vs.map marshalAny))) := by
  have h := encElems_rawPrints (vs.map marshalAny) (by
    intro c hc
    obtain ⟨v, hv, rfl⟩ := List.mem_map.1 hc
    exact ⟨marshal_wfc true v (hn v hv), hd v hv, escape_marshalAny v⟩)
  rw [List.map_map] at h
  simp only [marshal, marshalEscaped, enc]
  rw [show (fun v => GoVal.rawMsg (some (Cst.print (marshalAny v)))) =
      ((fun c => GoVal.rawMsg (some (Cst.print c))) ∘ marshalAny) from rfl, h]
  simp only [write_eq, seq_ok_ok, Cst.print, List.cons_append, List.nil_append]

example : marshal (.slice ([Value.obj [([97], .str [60])], .obj []].map fun v => .rawMsg (some (Cst.print (marshalAny v)))))
    = .ok (ascii "[{\"a\":\"\\u003c\"},{}]") := by rfl

example : ∀ v ∈ [Value.obj [([97], .str [60])], .obj []], NumsValid v = true ∧ (marshalAny v).depth ≤ maxDepth := by
  decide

/-! ### the output is a JSON text -/

/-- **General form.**  The unconditional statement ("every successful output is accepted by
`parseCst`") is false for the encoder as it is: see `marshal_output_valid_counterexample`.
With no failure hidden behind a `*lazyNode` (`TopOK`), every successful output is the print of
a well-formed tree, hence accepted by the reference parser when that tree is within the nesting
limit (a limit the *output* can exceed although every raw message respects it, e.g. after
copies into deeper places; each raw message is compacted by a scanner of its own). -/
theorem marshal_output_valid_partial (esc : Bool) (g : GoVal) (hg : TopOK g = true) (out : Bytes)
    (h : marshalEscaped esc g = .ok out) :
    ∃ c, WFC c = true ∧ out = Cst.print c ∧ (c.depth ≤ maxDepth → parseCst out = some c) := by
  have hw := top_wf g esc hg
  unfold marshalEscaped at h
  cases he : enc esc g with
  | ok o =>
    rw [he] at h
    simp only [Outcome.ok.injEq] at h
    subst h
    obtain ⟨c, hc, rfl⟩ := hw _ he
    exact ⟨c, hc, rfl, fun hd => parse_print c hc hd⟩
  | err o e => rw [he] at h; simp at h
  | panic => rw [he] at h; simp at h

/-- two nodes whose raw messages are not JSON: both errors are dropped, the call succeeds, the
output `[,]` is not JSON (the real encoder prints exactly this; harness line `codec1-87`) -/
theorem marshal_output_valid_counterexample :
    ∃ g out, marshalEscaped true g = .ok out ∧ parseCst out = none :=
  ⟨.slice [.lazyRaw (.rawPtr (some (ascii "nul"))), .lazyRaw (.rawPtr (some (ascii "1 2")))], ascii "[,]",
    by rfl, by rfl⟩

example : TopOK (.docPtr [[97]] [([97], .lazyAry (.slice [.lazyNil, .lazyRaw (.rawPtr (some (ascii "[ 1 ]")))]))] none) = true := by
  rfl


/-- nodes: the output is the print of a well-formed tree; it is accepted by the reference parser
(and so by the scanner) when the tree is within the nesting limit — which copies can exceed -/
theorem marshal_node_output_valid (esc : Bool) (o : Option Bool) (n : Node) (g : GoVal)
    (hr : RepN o n g) (ho : escapedOf o = esc) :
    ∃ out, marshalEscaped esc g = .ok out ∧ out = Cst.print (cstOf esc n) ∧ WFC (cstOf esc n) = true ∧
      ((cstOf esc n).depth ≤ maxDepth → parseCst out = some (cstOf esc n)) := by
  have hw := WFC_cstOf esc n (RepN_wn o n g hr).1
  exact ⟨_, marshal_node esc o n g hr ho, rfl, hw, fun hd => parse_print _ hw hd⟩

theorem marshal_root_output_valid (esc : Bool) (o : Option Bool) (r : Root) (g : GoVal)
    (hr : RepRoot o r.con g) (ho : escapedOf o = esc) (out : Bytes) (h : marshalEscaped esc g = .ok out)
    (hd : (cstOf esc r.con).depth ≤ maxDepth) :
    ∃ c, parseCst out = some c := by
  rw [marshal_root esc o r g hr ho] at h
  cases hc : r.con with
  | nil => rw [hc] at hr; simp only [RepRoot] at hr
  | raw c => rw [hc] at hr; simp only [RepRoot] at hr
  | doc keys obj =>
    rw [hc] at hr hd
    simp only [RepRoot] at hr
    obtain ⟨gobj, _, hm⟩ := hr
    simp only [marshalRoot, hc, Outcome.ok.injEq] at h
    subst h
    exact ⟨_, parse_print _ (WFC_cstOf esc _ (by simp only [WN]; exact (RepM_wn o obj gobj hm).1)) hd⟩
  | ary ns =>
    rw [hc] at hr hd
    simp only [RepRoot] at hr
    obtain ⟨gs, _, hl⟩ := hr
    simp only [marshalRoot, hc, Outcome.ok.injEq] at h
    subst h
    exact ⟨_, parse_print _ (WFC_cstOf esc _ (by simp only [WN]; exact (RepL_wn o ns gs hl).1)) hd⟩
  | docNil => simp [marshalRoot, hc] at h
  | nilAry =>
    simp only [marshalRoot, hc, Outcome.ok.injEq] at h
    subst h
    exact ⟨_, by rfl⟩

/-- dynamic values -/
theorem marshal_any_output_valid (esc : Bool) (v : Value) (out : Bytes)
    (h : marshalEscaped esc (anyToGo v) = .ok out) (hz : NumsValid v = true)
    (hd : (marshalAnyE esc (sortV v)).depth ≤ maxDepth) :
    parseCst out = some (marshalAnyE esc (sortV v)) := by
  rw [marshal_any esc v hz, Outcome.ok.injEq] at h
  subst h
  exact parse_print _ (marshal_wfc esc _ (NumsValid_sortV v hz)) hd

end JP.C17

/-
#print axioms JP.C17.marshal_node
#print axioms JP.C17.marshal_node_flags
#print axioms JP.C17.marshal_node_toGo
#print axioms JP.C17.marshal_root
#print axioms JP.C17.deepCopy_rep
#print axioms JP.C17.trustMarshalJSON_member
#print axioms JP.C17.marshal_docNil
#print axioms JP.C17.marshal_docNil_nested
#print axioms JP.C17.marshal_lazy_drops
#print axioms JP.C17.marshal_any
#print axioms JP.C17.marshal_any_sorted
#print axioms JP.C17.marshal_anyOf
#print axioms JP.C17.isValidNumber_spec
#print axioms JP.C17.marshal_any_err
#print axioms JP.C17.marshal_raw
#print axioms JP.C17.marshal_raw_nil
#print axioms JP.C17.marshal_nodes
#print axioms JP.C17.marshal_create_array
#print axioms JP.C17.marshal_output_valid_partial
#print axioms JP.C17.marshal_output_valid_counterexample
#print axioms JP.C17.marshal_node_output_valid
#print axioms JP.C17.marshal_root_output_valid
#print axioms JP.C17.marshal_any_output_valid
all: [propext, Classical.choice, Quot.sound]
-/
