import JP.Driver
import JP.Impl.Den

/-! # Property C04 — theorems (see DESIGN.md §6) -/

namespace JP
namespace C04

end C04
end JP
