import JP.Lemmas.NoPanicApply

/-!
# C04: no exported entry point panics

The implementation model has an explicit `panic` outcome at every dereference, index and
slice expression the Go code executes without a guard.  The theorems say that none of
them is reachable from an exported entry point.

The invariant behind `apply_no_panic` (`JP/Lemmas/NoPanic*.lean`): the root container is
always container-shaped (`isCon`: a parsed object or array, or one of the two nil roots),
and every parsed node reachable from it (and from the root's `self` node) satisfies `NP`:
the map of a parsed object has distinct names and all of them occur in its order list
`keys` (`keys` may hold repeats and stale names: documents with duplicate member names
are in scope).  Every operation, `ensurePathExists` included, preserves it; walks call
container methods only on container-shaped nodes; `replace` calls `set` only after a
successful `get`; `add ""`/`replace ""` always have a value because `DecodePatch`
validates that (`OpValid`).
-/

namespace JP.C04
open JP.Impl

theorem decodePatch_no_panic (bs : Bytes) : Impl.decodePatch bs ≠ .panic :=
  decodePatch_ne_panic bs

theorem mergePatch_no_panic (d p : Bytes) : Impl.mergePatch d p ≠ .panic :=
  doMergePatch_ne_panic false d p

theorem mergeMergePatches_no_panic (a b : Bytes) : Impl.mergeMergePatches a b ≠ .panic :=
  doMergePatch_ne_panic true a b

theorem createMergePatch_no_panic (a b : Bytes) : Impl.createMergePatch a b ≠ .panic :=
  createMergePatch_ne_panic a b

/-- `Equal` returns a Boolean in the model: it has no panic outcome at all -/
theorem equal_total (a b : Bytes) : Impl.equal a b = true ∨ Impl.equal a b = false := by
  cases Impl.equal a b <;> simp

/-- staging: without `EnsurePathExistsOnAdd` -/
theorem apply_no_panic_noensure (o : Impl.Opts) (_hens : o.ensure = false) (indent doc patch : Bytes)
    (ops : List Impl.Op) (h : Impl.decodePatch patch = .ok ops) :
    Impl.applyBytes o indent doc ops ≠ .panic :=
  applyBytes_ne_panic o indent doc ops (decodePatch_valid h)

/-- the main one: whatever the document bytes, the decoded patch and the options -/
theorem apply_no_panic (o : Impl.Opts) (indent doc patch : Bytes) (ops : List Impl.Op)
    (h : Impl.decodePatch patch = .ok ops) : Impl.applyBytes o indent doc ops ≠ .panic :=
  applyBytes_ne_panic o indent doc ops (decodePatch_valid h)

/-- the engine itself: from any root that satisfies the invariant, a validated patch never
panics and leaves a root that satisfies the invariant -/
theorem applyOps_no_panic (o : Impl.Opts) (r : Impl.Root) (acc : Int) (ops : List Impl.Op)
    (hr : Impl.RootOK r) (hv : ∀ op ∈ ops, Impl.OpValid op) :
    Impl.applyOps o r acc ops ≠ .panic ∧ ∀ r', Impl.applyOps o r acc ops = .ok r' → Impl.RootOK r' := by
  have := applyOps_ok o ops r acc hr hv
  constructor
  · intro h; rw [h] at this; exact this
  · intro r' h; rw [h] at this; exact this

/-- the validation is needed: an `add ""` without a value would panic (the model's image of
the nil dereference `(*val.raw)[0]`), and `DecodePatch` never produces one -/
example : Impl.opAdd {} { con := .doc [] [], self := .nil } { kind := ascii "add", path := [] } = .panic := rfl

/-! ### the hypotheses are satisfiable -/

section Examples

theorem exists_ok_of {α} {x : Outcome α} {p : α → Bool}
    (h : (match x with | .ok a => p a | _ => false) = true) : ∃ a, x = .ok a ∧ p a = true := by
  cases x with
  | ok a => exact ⟨a, rfl, h⟩
  | err e => simp at h
  | panic => simp at h

/-- a patch that `DecodePatch` accepts: add at the end of an array, remove by index, add
below a path that does not exist yet -/
def exPatch : Bytes := ascii
  "[{\"op\":\"add\",\"path\":\"/a/-\",\"value\":1},{\"op\":\"remove\",\"path\":\"/a/0\"},{\"op\":\"add\",\"path\":\"/x/y/2\",\"value\":null}]"
/-- a document with a duplicate member name (in scope for this property) -/
def exDoc : Bytes := ascii "{\"a\":[5],\"a\":[6,7]}"

/-- what the example run is checked against -/
def exCheck (ops : List Op) : Bool :=
  ops.length == 3 &&
  (match Impl.applyBytes { ensure := true } [] exDoc ops with
   | .ok out => out == ascii "{\"a\":[7,1],\"a\":[7,1],\"x\":{\"y\":[null,null,null]}}"
   | _ => false) &&
  (match Impl.applyBytes {} [] exDoc ops with
   | .err .missing => true
   | _ => false)

/-- the hypothesis of `apply_no_panic` holds for `exPatch`; with `EnsurePathExistsOnAdd`
the run succeeds on `exDoc`, without it the last operation fails (an error, not a panic) -/
example : ∃ ops, Impl.decodePatch exPatch = .ok ops ∧ exCheck ops = true :=
  exists_ok_of (by decide +kernel)

/-- the merge family on concrete inputs (these theorems have no hypotheses) -/
example : (match Impl.mergePatch (ascii "{\"a\":1,\"b\":{\"c\":2}}") (ascii "{\"b\":{\"c\":null},\"d\":[1]}") with
    | .ok out => out == ascii "{\"a\":1,\"b\":{},\"d\":[1]}" | _ => false) = true := by decide +kernel
example : (match Impl.createMergePatch (ascii "{\"a\":1,\"b\":2}") (ascii "{\"a\":1,\"b\":3}") with
    | .ok out => out == ascii "{\"b\":3}" | _ => false) = true := by decide +kernel
example : (match Impl.createMergePatch (ascii "[1]") (ascii "{}") with
    | .err .badMergeTypes => true | _ => false) = true := by decide +kernel

end Examples

end JP.C04

-- #print axioms JP.C04.decodePatch_no_panic
-- #print axioms JP.C04.mergePatch_no_panic
-- #print axioms JP.C04.mergeMergePatches_no_panic
-- #print axioms JP.C04.createMergePatch_no_panic
-- #print axioms JP.C04.apply_no_panic_noensure
-- #print axioms JP.C04.apply_no_panic
-- #print axioms JP.C04.applyOps_no_panic
