import JP.Driver
import JP.Impl.Den

/-! # Property C11 — theorems (see DESIGN.md §6) -/

namespace JP
namespace C11

end C11
end JP
