import JP.Lemmas.DecodePatch

/-!
# C11: `DecodePatch` accepts exactly well-formed RFC 6902 patch documents

Model: `Impl.decodePatch` (JP/Impl/Apply.lean).  Specification: `Spec.wellFormedPatch`
(JP/Spec/PatchDoc.lean), stated on the value the text denotes.
-/

namespace JP
namespace C11
open DecodePatchLemmas

/-- the decoder's map lookup (last duplicate wins, names compared after decoding) is the
specification's lookup on the denoted value -/
theorem lookupLastC_valueOf (k : Bytes) (ms : List (Bytes × Cst)) :
    (Impl.lookupLastC k ms).map Cst.valueOf = Spec.lookupLast k (Cst.valueOfM ms) :=
  DecodePatchLemmas.lookupLastC_valueOf k ms

/-- acceptance on syntax trees: the decoder accepts exactly the well-formed patch documents -/
theorem decodeOps_iff (xs : List Cst) :
    (Impl.decodeOps xs).isSome = Spec.wellFormedPatch (.arr (Cst.valueOfL xs)) := by
  simp only [Spec.wellFormedPatch]
  exact decodeOps_isSome xs

/-- at the level of texts, given that the scanner and the reference parser agree on this
text (proved separately; here the hypothesis `hv`) -/
theorem decodePatch_iff (bs : Bytes) (hv : Scanner.valid bs = (parseCst bs).isSome) :
    (∃ ops, Impl.decodePatch bs = .ok ops) ↔
      (∃ v, parseValueOf bs = some v ∧ Spec.wellFormedPatch v = true) := by
  unfold Impl.decodePatch parseValueOf
  rw [hv]
  cases hp : parseCst bs with
  | none => simp
  | some c =>
    simp only [Option.isSome_some, Bool.not_true, Bool.false_eq_true, if_false, Option.map_some,
      Option.some.injEq, exists_eq_left']
    cases c with
    | arr xs =>
      simp only [Cst.valueOf]
      rw [← decodeOps_iff]
      cases Impl.decodeOps xs <;> simp
    | lit s =>
      constructor
      · rintro ⟨ops, h⟩; simp only [] at h; split at h <;> cases h
      · intro h
        simp only [Cst.valueOf] at h
        cases hl : Cst.litValue s with
        | arr vs => exact absurd hl (litValue_ne_arr s vs)
        | _ => simp [hl, Spec.wellFormedPatch] at h
    | str b =>
      constructor
      · rintro ⟨ops, h⟩; simp only [] at h; split at h <;> cases h
      · intro h; simp [Cst.valueOf, Spec.wellFormedPatch] at h
    | obj ms =>
      constructor
      · rintro ⟨ops, h⟩; simp only [] at h; split at h <;> cases h
      · intro h; simp [Cst.valueOf, Spec.wellFormedPatch] at h

/-- rejection returns no patch and the decoder never panics: the result is an error or a patch -/
theorem decodePatch_total (bs : Bytes) : Impl.decodePatch bs ≠ .panic := by
  unfold Impl.decodePatch
  split
  · simp
  · split
    · simp
    · split <;> simp
    · split <;> simp

theorem decodePatch_err_or_ok (bs : Bytes) :
    (∃ e, Impl.decodePatch bs = .err e) ∨ (∃ ops, Impl.decodePatch bs = .ok ops) := by
  have := decodePatch_total bs
  cases h : Impl.decodePatch bs with
  | ok ops => exact .inr ⟨ops, rfl⟩
  | err e => exact .inl ⟨e, rfl⟩
  | panic => exact absurd h this

/-- accessors: every accepted operation reports the members the specification's view
reports, in order -/
theorem accessors (xs : List Cst) (ops : List Impl.Op) (h : Impl.decodeOps xs = some ops) :
    ops.map (fun op => (op.kind, op.path, op.frm, op.value.map Cst.valueOf)) =
      (Cst.valueOfL xs).map (fun v =>
        match Spec.viewOp v with
        | some w => (w.kind, w.path, w.frm, w.value)
        | none => default) :=
  decodeOps_view xs ops h

/-- the same at the level of texts -/
theorem accessors_text (bs : Bytes) (ops : List Impl.Op) (h : Impl.decodePatch bs = .ok ops) :
    ∃ vs, parseValueOf bs = some (.arr vs) ∧
      ops.map (fun op => (op.kind, op.path, op.frm, op.value.map Cst.valueOf)) =
        vs.map (fun v =>
          match Spec.viewOp v with
          | some w => (w.kind, w.path, w.frm, w.value)
          | none => default) := by
  unfold Impl.decodePatch at h
  split at h
  · simp at h
  · split at h
    · simp at h
    · rename_i xs hp
      cases hd : Impl.decodeOps xs with
      | none => simp [hd] at h
      | some ops' =>
        simp only [hd, Impl.Outcome.ok.injEq] at h
        subst h
        exact ⟨Cst.valueOfL xs, by simp [parseValueOf, hp, Cst.valueOf], accessors xs ops' hd⟩
    · split at h <;> simp at h

/-! ### the hypotheses are satisfiable -/

def sampleText : Bytes :=
  ascii "[{\"op\":\"add\",\"op\":\"copy\",\"path\":\"/a\",\"from\":\"/b\",\"value\":null},{\"path\":\"\",\"op\":\"remove\",\"from\":null}]"

def sampleCst : List Cst :=
  [.obj [(ascii "op", .str (ascii "add")), (ascii "op", .str (ascii "copy")), (ascii "path", .str (ascii "/a")),
         (ascii "from", .str (ascii "/b")), (ascii "value", .lit (ascii "null"))],
   .obj [(ascii "path", .str []), (ascii "op", .str (ascii "remove")), (ascii "from", .lit (ascii "null"))]]

def sampleOps : List Impl.Op :=
  [{ kind := ascii "copy", path := ascii "/a", frm := some (ascii "/b"), value := some Impl.litNull },
   { kind := ascii "remove", path := [], frm := none, value := none }]

def showOp (op : Impl.Op) : List Bytes :=
  [op.kind, op.path, op.frm.getD (ascii "<none>"), (op.value.map Cst.print).getD (ascii "<none>")]

example : (parseCst sampleText).map Cst.print = some (Cst.print (.arr sampleCst)) := by decide +kernel

/-- `decodeOps_iff`, both sides true on a non-trivial patch (duplicate `op`, `null` members) -/
example : (Impl.decodeOps sampleCst).isSome = true := by decide +kernel

/-- … and both sides false (`add` without `value`) -/
example : (Impl.decodeOps [.obj [(ascii "op", .str (ascii "add")), (ascii "path", .str [])]]).isSome = false := by
  decide +kernel

/-- the hypothesis of `decodePatch_iff` holds for the sample text -/
example : Scanner.valid sampleText = (parseCst sampleText).isSome := by decide +kernel

example : (match Impl.decodePatch sampleText with | .ok ops => some (ops.map showOp) | _ => none)
    = some (sampleOps.map showOp) := by decide +kernel

example : (match Impl.decodePatch (ascii "[{\"op\":\"add\",\"path\":\"/a\"}]") with
    | .err e => some e | _ => none) = some .other := by decide +kernel

/-- the hypothesis of `accessors` (shown through the printed members) -/
example : (Impl.decodeOps sampleCst).map (·.map showOp) = some (sampleOps.map showOp) := by decide +kernel

end C11
end JP

-- #print axioms JP.C11.decodeOps_iff
-- #print axioms JP.C11.decodePatch_iff
-- #print axioms JP.C11.decodePatch_total
-- #print axioms JP.C11.accessors
