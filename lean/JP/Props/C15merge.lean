import JP.Lemmas.CloseMergeClean
import JP.Lemmas.CloseMergeCreateTop
import JP.Props.C07bytes

/-!
# C15 for the merge functions — successful outputs are well-formed JSON

Every successful output of `MergePatch`, `MergeMergePatches` and `CreateMergePatch` is accepted
by the reference parser `parseCst` and by the scanner (`json.Valid`), for ALL inputs (no
duplicate-freeness, no UTF-8 hypothesis).

Raw HTML-sensitive bytes: `CreateMergePatch` output, and merge outputs that are re-marshalled
(the patch is a non-null object or an array), contain no raw `<`, `>`, `&`, U+2028, U+2029.
A patch that is `null`, a string, a number or a boolean is returned **verbatim**, so its raw
bytes are whatever the caller passed (counterexample below) — that case is excluded from the
cleanliness clause and stated as `out = patch`.
-/

namespace JP
namespace C15
open Value Impl

theorem shape_of_tree (patch out : Bytes) (dc pc : Cst) (tree : Cst → Cst → Option Node)
    (hg : ∀ r, tree dc pc = some r → GoodN maxDepth r = true)
    (hn : tree dc pc = none → pc.isObj = false ∧ pc.isArr = false)
    (hs : ∀ r, tree dc pc = some r → pc.isObj = true ∨ pc.isArr = true)
    (h0 : (if pc.isNullLit then none else tree dc pc) = none → out = patch)
    (h1 : ∀ r, (if pc.isNullLit then none else tree dc pc) = some r → out = Cst.print (cstOf true r)) :
    (out = patch ∧ (pc.isNullLit = true ∨ (pc.isObj = false ∧ pc.isArr = false))) ∨
    (∃ r, out = Cst.print (cstOf true r) ∧ GoodN maxDepth r = true ∧
      pc.isNullLit = false ∧ (pc.isObj = true ∨ pc.isArr = true)) := by
  cases hpn : pc.isNullLit with
  | true =>
    rw [hpn] at h0
    exact Or.inl ⟨h0 (by simp), Or.inl rfl⟩
  | false =>
    rw [hpn] at h0 h1
    simp only [Bool.false_eq_true, if_false] at h0 h1
    cases ht : tree dc pc with
    | none => exact Or.inl ⟨h0 ht, Or.inr (hn ht)⟩
    | some r => exact Or.inr ⟨r, h1 r ht, hg r ht, rfl, hs r ht⟩

/-- the shape of every successful `doMergePatch` (either flag): both texts parse, the document is
not `null`, and the output is the patch text itself (null / scalar patch) or the print of a node
satisfying the text invariant (object / array patch) -/
theorem doMergePatch_ok_shape (mm : Bool) (doc patch out : Bytes)
    (h : doMergePatch mm doc patch = .ok out) :
    ∃ dc pc, parseCst doc = some dc ∧ parseCst patch = some pc ∧ dc.isNullLit = false ∧
      ((out = patch ∧ (pc.isNullLit = true ∨ (pc.isObj = false ∧ pc.isArr = false))) ∨
       (∃ r, out = Cst.print (cstOf true r) ∧ GoodN maxDepth r = true ∧
          pc.isNullLit = false ∧ (pc.isObj = true ∨ pc.isArr = true))) := by
  have ⟨e1, e2, e3⟩ := C02.doMergePatch_errors mm doc patch
  have hvd : Scanner.valid doc = true := by
    cases hv : Scanner.valid doc with
    | true => rfl
    | false => rw [e1 hv] at h; cases h
  have hvp : Scanner.valid patch = true := by
    cases hv : Scanner.valid patch with
    | true => rfl
    | false => rw [e2 hvd hv] at h; cases h
  cases pd : parseCst doc with
  | none => rw [Scanner.valid_iff_parseCst, pd] at hvd; cases hvd
  | some dc =>
    cases pp : parseCst patch with
    | none => rw [Scanner.valid_iff_parseCst, pp] at hvp; cases hvp
    | some pc =>
      have hnn : dc.isNullLit = false := by
        cases hn : dc.isNullLit with
        | false => rfl
        | true => rw [e3 dc pc hvd hvp pd pp hn] at h; cases h
      refine ⟨dc, pc, rfl, rfl, hnn, ?_⟩
      have hgd := GC_of_parse doc dc pd
      have hgp := GC_of_parse patch pc pp
      have key := shape_of_tree patch out dc pc
      cases mm with
      | false =>
        refine key mergeTree (fun r hr => C02.GoodN_mergeTree dc pc r hgd hgp hr) ?_ ?_
          (fun ho => by
            rw [doMergePatch_eq doc patch dc pc hvd hvp pd pp hnn, ho] at h
            simp only [Outcome.ok.injEq] at h; exact h.symm)
          (fun r ho => by
            rw [doMergePatch_eq doc patch dc pc hvd hvp pd pp hnn, ho] at h
            simp only [Outcome.ok.injEq] at h; exact h.symm)
        · intro ht
          cases pc with
          | lit s => exact ⟨rfl, rfl⟩
          | str s => exact ⟨rfl, rfl⟩
          | arr xs => simp [mergeTree] at ht
          | obj pms => cases dc <;> simp [mergeTree] at ht
        · intro r ht; cases pc <;> simp [mergeTree, Cst.isObj, Cst.isArr] at ht ⊢
      | true =>
        refine key composeTree (fun r hr => C07.GoodN_composeTree dc pc r hgd hgp hr) ?_ ?_
          (fun ho => by
            rw [doMergePatch_true_eq doc patch dc pc hvd hvp pd pp hnn, ho] at h
            simp only [Outcome.ok.injEq] at h; exact h.symm)
          (fun r ho => by
            rw [doMergePatch_true_eq doc patch dc pc hvd hvp pd pp hnn, ho] at h
            simp only [Outcome.ok.injEq] at h; exact h.symm)
        · intro ht
          cases pc with
          | lit s => exact ⟨rfl, rfl⟩
          | str s => exact ⟨rfl, rfl⟩
          | arr xs => simp [composeTree] at ht
          | obj pms => cases dc <;> simp [composeTree] at ht
        · intro r ht; cases pc <;> simp [composeTree, Cst.isObj, Cst.isArr] at ht ⊢

/-- **merge outputs are well-formed JSON** (`MergePatch` is `mm = false`, `MergeMergePatches` is
`mm = true`), for all inputs -/
theorem doMerge_output_valid (mm : Bool) (doc patch out : Bytes)
    (h : doMergePatch mm doc patch = .ok out) :
    (parseCst out).isSome = true ∧ Scanner.valid out = true := by
  obtain ⟨dc, pc, _, pp, _, hcase⟩ := doMergePatch_ok_shape mm doc patch out h
  have : (parseCst out).isSome = true := by
    rcases hcase with ⟨e, _⟩ | ⟨r, e, hg, _⟩
    · rw [e, pp]; rfl
    · rw [e, parse_print_cstOf r hg]; rfl
  exact ⟨this, by rw [Scanner.valid_iff_parseCst]; exact this⟩

theorem mergePatch_output_valid (doc patch out : Bytes) (h : mergePatch doc patch = .ok out) :
    (parseCst out).isSome = true ∧ Scanner.valid out = true :=
  doMerge_output_valid false doc patch out h

theorem mergeMergePatches_output_valid (p1 p2 out : Bytes) (h : mergeMergePatches p1 p2 = .ok out) :
    (parseCst out).isSome = true ∧ Scanner.valid out = true :=
  doMerge_output_valid true p1 p2 out h

/-- re-marshalled merge outputs (patch a non-null object or an array) contain no raw `<`, `>`,
`&`, U+2028, U+2029; every other successful output is the patch text, verbatim -/
theorem doMerge_output_clean (mm : Bool) (doc patch out : Bytes)
    (h : doMergePatch mm doc patch = .ok out) :
    ∃ pc, parseCst patch = some pc ∧
      ((pc.isObj = true ∨ pc.isArr = true) → hasRawHtml out = false) ∧
      ((pc.isObj = false ∧ pc.isArr = false) → out = patch) := by
  obtain ⟨dc, pc, _, pp, _, hcase⟩ := doMergePatch_ok_shape mm doc patch out h
  refine ⟨pc, pp, ?_, ?_⟩
  · intro hc
    rcases hcase with ⟨_, hn | hn⟩ | ⟨r, e, hg, _⟩
    · rw [(isNullLit_iff pc).mp hn] at hc; simp [Cst.isObj, Cst.isArr] at hc
    · rw [hn.1, hn.2] at hc; simp at hc
    · rw [e]; exact print_cstOf_clean r _ hg
  · intro hc
    rcases hcase with ⟨e, _⟩ | ⟨r, _, _, _, ho⟩
    · exact e
    · rw [hc.1, hc.2] at ho; simp at ho

/-- **`CreateMergePatch` outputs are well-formed JSON and free of raw HTML-sensitive bytes**, for
all inputs -/
theorem create_output_valid (a b out : Bytes) (h : createMergePatch a b = .ok out) :
    (parseCst out).isSome = true ∧ Scanner.valid out = true ∧ hasRawHtml out = false := by
  have main : ∃ v, out = Cst.print (marshalAny v) ∧ GV maxDepth v = true := by
    cases pa : parseCst a with
    | none => rw [createMergePatch_malformed a b (Or.inl pa)] at h; cases h
    | some ca =>
      cases pb : parseCst b with
      | none => rw [createMergePatch_malformed a b (Or.inr pb)] at h; cases h
      | some cb =>
        have hga := GC_of_parse a ca pa
        have hgb := GC_of_parse b cb pb
        cases haa : ca.isArr with
        | false =>
          cases hab : cb.isArr with
          | true => rw [createMergePatch_mixed a b ca cb pa pb (by rw [haa, hab]; simp)] at h; cases h
          | false =>
            rw [createMergePatch_nonarr a b ca cb pa pb haa hab] at h
            cases hc : createObject ca cb with
            | err e => rw [hc] at h; cases h
            | panic => rw [hc] at h; cases h
            | ok v =>
              rw [hc] at h
              simp only [Outcome.ok.injEq] at h
              exact ⟨v, h.symm, GV_createObject maxDepth ca cb v (by decide) hga hgb hc⟩
        | true =>
          cases hab : cb.isArr with
          | false => rw [createMergePatch_mixed a b ca cb pa pb (by rw [haa, hab]; simp)] at h; cases h
          | true =>
            cases ca <;> simp [Cst.isArr] at haa
            cases cb <;> simp [Cst.isArr] at hab
            rename_i xs ys
            rw [createMergePatch_arr a b xs ys pa pb] at h
            split at h
            · cases h
            · cases hc : createArray xs ys with
              | err e => rw [hc] at h; cases h
              | panic => rw [hc] at h; cases h
              | ok vs =>
                rw [hc] at h
                simp only [Outcome.ok.injEq] at h
                refine ⟨.arr vs, ?_, ?_⟩
                · rw [← h, marshalAny_arr]; rfl
                · rw [GV_arr]
                  exact ⟨by decide, createArray_ok_GV _ xs ys vs (by decide)
                    ((GC_arr _ xs).1 hga).2 ((GC_arr _ ys).1 hgb).2 hc⟩
  obtain ⟨v, e, hg⟩ := main
  have hp : (parseCst out).isSome = true := by
    rw [e]; unfold marshalAny; rw [parseCst_print_marshal_GV true v hg]; rfl
  refine ⟨hp, by rw [Scanner.valid_iff_parseCst]; exact hp, ?_⟩
  rw [e]
  exact print_marshal_clean v (GV_spec true v maxDepth hg).2.1

/-- all three functions at once -/
theorem merge_output_valid (x y out : Bytes)
    (h : mergePatch x y = .ok out ∨ mergeMergePatches x y = .ok out ∨ createMergePatch x y = .ok out) :
    (parseCst out).isSome = true ∧ Scanner.valid out = true := by
  rcases h with h | h | h
  · exact mergePatch_output_valid x y out h
  · exact mergeMergePatches_output_valid x y out h
  · exact ⟨(create_output_valid x y out h).1, (create_output_valid x y out h).2.1⟩

/-! ### examples; the verbatim case is not clean -/

/-- a string patch comes back byte for byte, raw `<` included -/
example : (match mergePatch (ascii "{}") (ascii "\"<\"") with | .ok o => some o | _ => none) = some (ascii "\"<\"") ∧
    hasRawHtml (ascii "\"<\"") = true := by decide +kernel
/-- an object patch is re-marshalled: the raw `<` is escaped -/
example : (match mergePatch (ascii "{}") (ascii "{\"a\":\"<\"}") with | .ok o => some o | _ => none) =
    some (ascii "{\"a\":\"\\u003c\"}") := by decide +kernel
example : (match createMergePatch (ascii "{}") (ascii "{\"<\":\"&\"}") with | .ok o => some o | _ => none) =
    some (ascii "{\"\\u003c\":\"\\u0026\"}") := by decide +kernel
/-- duplicate names are fine here: `{"a":1,"a":2}` patched by `{"b":{"c":null,"c":1}}` -/
example : (match mergePatch (ascii "{\"a\":1,\"a\":2}") (ascii "{\"b\":{\"c\":null,\"c\":1}}") with
    | .ok o => (parseCst o).isSome | _ => false) = true := by decide +kernel

-- #print axioms doMergePatch_ok_shape
-- #print axioms doMerge_output_valid
-- #print axioms doMerge_output_clean
-- #print axioms create_output_valid
-- #print axioms merge_output_valid

end C15
end JP
