import JP.Props.C01ensure
import JP.Props.C15apply

/-!
# C15 for `Patch.ApplyIndentWithOptions`, every option set

The theorems of `JP/Props/C15apply.lean` without the hypothesis `o.ensure = false`
(`Impl.applyOps_W_all`: `ensurePathExists` only creates raw nulls and empty containers).
-/

namespace JP.C15
open JP Impl

/-- a successful `applyBytes` (no indent, any options, any operations whose values are well-formed
trees) returns the print of a well-formed tree that escaping leaves alone -/
theorem apply_output_tree_ops (o : Impl.Opts) (doc : Bytes) (ops : List Impl.Op)
    (out : Bytes) (hne : doc ≠ []) (hfacts : ∀ op ∈ ops, OpW op)
    (h : Impl.applyBytes o [] doc ops = .ok out) :
    ∃ t : Cst, out = Cst.print t ∧ WFC t = true ∧ Cst.escape o.esc t = t := by
  unfold applyBytes at h
  simp only [hne, if_false] at h
  split at h
  · cases h
  · cases hdoc : parseCst doc with
    | none => simp [hdoc] at h
    | some c =>
      have hwc := parseCst_wfc_A doc c hdoc
      simp only [hdoc] at h
      cases hd : decodeRoot c with
      | panic => simp [hd] at h
      | err e => simp [hd] at h
      | ok con =>
        simp only [hd] at h
        have hrw : RootW { con := con, self := .raw c, selfCR := c.isArr && !goIsArray doc } := by
          have := decodeRoot_W hwc.1
          rw [hd] at this
          exact ⟨this, hwc.1⟩
        have hW := applyOps_W_all o ops _ 0 hrw hfacts
        cases happ : applyOps o { con := con, self := .raw c, selfCR := c.isArr && !goIsArray doc } 0 ops with
        | panic => simp [happ] at h
        | err e => simp [happ] at h
        | ok r =>
          rw [happ] at hW
          simp only [happ] at h
          have key : ∀ n, r.con = n → (n = .docNil → False) → (n = .nilAry → False) →
              marshalRoot o.esc r = .ok (Cst.print (cstOf o.esc n)) := by
            intro n hn h1 h2
            unfold marshalRoot
            rw [hn]
            cases n with
            | docNil => exact absurd rfl h1
            | nilAry => exact absurd rfl h2
            | nil => rfl
            | raw c => rfl
            | doc keys obj => rfl
            | ary ns => rfl
          cases hcon : r.con with
          | docNil => simp [marshalRoot, hcon] at h
          | nilAry =>
            simp only [marshalRoot, hcon, if_true, Outcome.ok.injEq] at h
            exact ⟨litNull, h.symm, WFC_litNull, escape_litNull _⟩
          | nil =>
            rw [key _ hcon (by simp) (by simp)] at h
            simp only [if_true, Outcome.ok.injEq] at h
            exact ⟨_, h.symm, WFC_cstOf _ _ rfl, escape_cstOf _ _⟩
          | raw c' =>
            rw [key _ hcon (by simp) (by simp)] at h
            simp only [if_true, Outcome.ok.injEq] at h
            exact ⟨_, h.symm, WFC_cstOf _ _ (by rw [← hcon]; exact hW.1), escape_cstOf _ _⟩
          | doc keys obj =>
            rw [key _ hcon (by simp) (by simp)] at h
            simp only [if_true, Outcome.ok.injEq] at h
            exact ⟨_, h.symm, WFC_cstOf _ _ (by rw [← hcon]; exact hW.1), escape_cstOf _ _⟩
          | ary ns =>
            rw [key _ hcon (by simp) (by simp)] at h
            simp only [if_true, Outcome.ok.injEq] at h
            exact ⟨_, h.symm, WFC_cstOf _ _ (by rw [← hcon]; exact hW.1), escape_cstOf _ _⟩

/-- a successful `applyBytes` (no indent) returns the print of a well-formed tree that escaping
leaves alone — any options -/
theorem apply_output_tree_all (o : Impl.Opts) (doc patch : Bytes) (ops : List Impl.Op)
    (out : Bytes) (hne : doc ≠ []) (hpatch : Impl.decodePatch patch = .ok ops)
    (h : Impl.applyBytes o [] doc ops = .ok out) :
    ∃ t : Cst, out = Cst.print t ∧ WFC t = true ∧ Cst.escape o.esc t = t :=
  apply_output_tree_ops o doc ops out hne (fun op hop => (decodePatch_facts hpatch op hop).val) h

/-- with EscapeHTML on, the output has no raw `<`, `>`, `&`, U+2028, U+2029 — any options -/
theorem apply_output_clean_all (o : Impl.Opts) (doc patch : Bytes) (ops : List Impl.Op)
    (out : Bytes) (hne : doc ≠ []) (hpatch : Impl.decodePatch patch = .ok ops)
    (h : Impl.applyBytes o [] doc ops = .ok out) (hesc : o.esc = true) : hasRawHtml out = false := by
  obtain ⟨t, rfl, hw, he⟩ := apply_output_tree_all o doc patch ops out hne hpatch h
  rw [hesc] at he
  rw [← he]
  exact JP.print_escape_clean t hw

/-- the output parses unless it nests deeper than the reference parser's limit — any options -/
theorem apply_output_parses_all (o : Impl.Opts) (doc patch : Bytes) (ops : List Impl.Op)
    (out : Bytes) (hne : doc ≠ []) (hpatch : Impl.decodePatch patch = .ok ops)
    (h : Impl.applyBytes o [] doc ops = .ok out) :
    ∃ t : Cst, out = Cst.print t ∧ (t.depth ≤ maxDepth → parseCst out = some t) := by
  obtain ⟨t, rfl, hw, _⟩ := apply_output_tree_all o doc patch ops out hne hpatch h
  exact ⟨t, rfl, fun hd => JP.parse_print t hw hd⟩

/-- **C15 for Apply, any options**: with the specification defined (sizes as `specApply` takes them)
and its result at most `maxDepth` deep, a successful `applyBytes` returns well-formed JSON, and
with EscapeHTML no raw HTML-sensitive byte -/
theorem apply_output_valid_all (o : Impl.Opts)
    (doc patch : Bytes) (c : Cst) (ops : List Impl.Op) (sops : List Spec.Op)
    (hdoc : parseCst doc = some c) (hnd : c.valueOf.noDup = true)
    (hpatch : Impl.decodePatch patch = .ok ops) (hs : specOps ops = some sops)
    (hvnd : ∀ op ∈ ops, ∀ v, op.value = some v → v.valueOf.noDup = true)
    (hdef : Spec.apply (specOpts o) (fun i => (sizesFor o doc ops).getD i 0) c.valueOf sops ≠ .unspec)
    (hdepth : ∀ v, Spec.apply (specOpts o) (fun i => (sizesFor o doc ops).getD i 0) c.valueOf sops = .ok v →
      v.depth ≤ maxDepth)
    (out : Bytes) (h : Impl.applyBytes o [] doc ops = .ok out) :
    (parseCst out).isSome = true ∧ (o.esc = true → hasRawHtml out = false) := by
  have hne : doc ≠ [] := by rintro rfl; rw [C01.parseCst_nil] at hdoc; cases hdoc
  refine ⟨?_, apply_output_clean_all o doc patch ops out hne hpatch h⟩
  have h2 := C01.apply_bytes_refines_all o doc c ops sops hdoc hnd (decodePatch_facts hpatch) hs hvnd
  cases hres : Spec.apply (specOpts o) (fun i => (sizesFor o doc ops).getD i 0) c.valueOf sops with
  | unspec => exact absurd hres hdef
  | fail j cc =>
    rw [hres] at h2
    obtain ⟨e, he, _⟩ := h2
    rw [he] at h; cases h
  | ok v =>
    rw [hres] at h2
    obtain ⟨t, h1, h2', h3, _, h5, _⟩ := h2
    rw [h1] at h
    simp only [Outcome.ok.injEq] at h
    subst h
    rw [JP.parse_print t h3 (by rw [h5]; exact hdepth v hres)]
    rfl

/-! ### the hypotheses are satisfiable -/

example : ∃ ops out, Impl.decodePatch C01.exPatchE = .ok ops ∧
    Impl.applyBytes { ensure := true } [] C01.exDocE ops = .ok out ∧
    C01.exDocE ≠ [] ∧ (parseCst out).isSome = true ∧ hasRawHtml out = false := by
  have h : (match Impl.decodePatch C01.exPatchE with
      | .ok ops =>
        (match Impl.applyBytes { ensure := true } [] C01.exDocE ops with
         | .ok out => (parseCst out).isSome && !hasRawHtml out
         | _ => false)
      | _ => false) = true := by decide +kernel
  cases h1 : Impl.decodePatch C01.exPatchE with
  | err e => simp [h1] at h
  | panic => simp [h1] at h
  | ok ops =>
    cases h2 : Impl.applyBytes { ensure := true } [] C01.exDocE ops with
    | err e => simp [h1, h2] at h
    | panic => simp [h1, h2] at h
    | ok out =>
      simp only [h1, h2, Bool.and_eq_true, Bool.not_eq_true'] at h
      exact ⟨ops, out, rfl, h2, by decide, h.1, h.2⟩

/-
all of the following: [propext, Classical.choice, Quot.sound]
#print axioms JP.C15.apply_output_tree_ops
#print axioms JP.C15.apply_output_tree_all
#print axioms JP.C15.apply_output_clean_all
#print axioms JP.C15.apply_output_parses_all
#print axioms JP.C15.apply_output_valid_all
-/

end JP.C15
