import JP.Driver
import JP.Impl.Den
import JP.Props.C09

/-!
# Property C10 — safe for concurrent use, including a shared `Patch` (see DESIGN.md §6 and §H)

In the interleaving semantics of `JP/World/Conc.lean` (N goroutines, each executing a list of calls;
atomic steps = `sync.Pool` Get/Put, `sync.Map` LoadOrStore, private computation; `Get` returns ANY
pooled object or a fresh one and removes it from the pool; the runtime may drop pooled objects at
any time):

* `schedule_independent`: in every reachable state, a finished goroutine holds, call by call, the
  pure results of its calls = what each call returns alone (C09); the only interaction between
  goroutines is which leftovers a `Get` returns;
* `footprints_disjoint`: the memory events of every call (`Call.trace`: derived from the call's
  program, for ANY leftovers and ANY choice of objects by the pools) are well owned: each write is
  to call-private memory or to a pooled object acquired earlier in that call and not yet
  released; nothing is written to the caller's arguments or to package variables; the caches are
  accessed through `sync.Map` only;
* `no_conflicting_access`: in any interleaving of well-owned traces that respects the pool
  discipline (no object is handed out while somebody holds it), every write to a pooled object
  is made by the one goroutine holding it.

A shared `Patch` is an ARGUMENT of the calls: the programs are functions of it and the footprints
contain only reads of arguments, so sharing it between goroutines is covered by the statements as
they are (in Go: `Operation.value()` wraps the shared `*json.RawMessage` in a fresh `lazyNode`; the
raw bytes are only read).

ASSUMED Go-level facts: those of `JP/World/Pool.lean` (S1–S4, E1–E5, D1–D7, L1–L4) and P1–P4 in the
header of `JP/World/Conc.lean`.  NOT covered: that the Go code's real memory accesses are those of
the traces; data-race freedom under the Go memory model (the race detector on executed
schedules is the evidence); writes to caller memory.
-/

namespace JP
namespace C10

open World Impl

/-- every interleaving: each finished goroutine holds its sequential results -/
theorem schedule_independent (scripts : List (List Call)) (P : Pools) (hP : P.Inv) (S' : Sys (List Res))
    (h : Steps ⟨P, scripts.map seqP⟩ S') (i : Nat) (rs : List Res) (hr : S'.threads[i]? = some (.ret rs)) :
    ∃ cs, scripts[i]? = some cs ∧ rs = cs.map Call.pure ∧
      rs = cs.map (fun c => c.prog.run Leftovers.fresh) := by
  have hI := h.preserves (Qs := scripts.map fun cs => fun rs => rs = cs.map Call.pure)
    ⟨hP, forall2_map_sat scripts⟩
  obtain ⟨Q, hQ, hq⟩ := hI.result hr
  rw [List.getElem?_map] at hQ
  cases hs : scripts[i]? with
  | none => simp [hs] at hQ
  | some cs =>
    simp [hs] at hQ
    subst hQ
    refine ⟨cs, rfl, hq, ?_⟩
    rw [hq]
    apply List.map_congr_left
    intro c _
    exact ((Call.prog_sat c).run Leftovers.fresh Leftovers.fresh_inv).symm

/-- the pools satisfy their invariant in every reachable state (C09.pool_invariant, restated) -/
theorem schedule_preserves_invariant (scripts : List (List Call)) (P : Pools) (hP : P.Inv) (S' : Sys (List Res))
    (h : Steps ⟨P, scripts.map seqP⟩ S') : S'.pools.Inv :=
  C09.pool_invariant.2.2.2.2.2.2.2 scripts P S' hP h

/-- footprints: every write a call performs is to an object it acquired and has not yet released or
to call-private data; the caches go through the `sync` API; arguments and globals are only read -/
theorem footprints_disjoint (c : Call) (L : Leftovers) (hL : L.Inv) (idOf : PoolId → Nat → Nat) :
    wellOwned [] (c.trace L idOf) = true :=
  Call.trace_wellOwned c L hL idOf

/-- what `wellOwned` means, spelled out on the events -/
theorem wellOwned_spec (held : List (PoolId × Nat)) (es : List Ev) (h : wellOwned held es = true) :
    ∀ l, Ev.write l ∈ es → l = .priv ∨ ∃ p o, l = .pooled p o := by
  induction es generalizing held with
  | nil => intro l hl; cases hl
  | cons e es ih =>
    intro l hl
    cases e with
    | acquire p o =>
      cases hl with
      | tail _ hl' => exact ih _ (by simpa [wellOwned] using h) l hl'
    | release p o =>
      cases hl with
      | tail _ hl' =>
        simp only [wellOwned, Bool.and_eq_true] at h
        exact ih _ h.2 l hl'
    | read l' =>
      cases hl with
      | tail _ hl' => exact ih _ (by simpa [wellOwned] using h) l hl'
    | sync k =>
      cases hl with
      | tail _ hl' => exact ih _ (by simpa [wellOwned] using h) l hl'
    | write l' =>
      cases l' with
      | pooled p o =>
        simp only [wellOwned, Bool.and_eq_true] at h
        cases hl with
        | head => exact .inr ⟨p, o, rfl⟩
        | tail _ hl' => exact ih _ h.2 l hl'
      | priv =>
        cases hl with
        | head => exact .inl rfl
        | tail _ hl' => exact ih _ (by simpa [wellOwned] using h) l hl'
      | callerIn a => simp [wellOwned] at h
      | global g => simp [wellOwned] at h
      | unowned p => simp [wellOwned] at h

/-- no call ever writes to its arguments, to a package variable, or to a pooled object it does
not hold -/
theorem never_writes_shared (c : Call) (L : Leftovers) (hL : L.Inv) (idOf : PoolId → Nat → Nat) :
    (∀ a, Ev.write (.callerIn a) ∉ c.trace L idOf) ∧ (∀ g, Ev.write (.global g) ∉ c.trace L idOf) ∧
    (∀ p, Ev.write (.unowned p) ∉ c.trace L idOf) := by
  have h := wellOwned_spec [] _ (footprints_disjoint c L hL idOf)
  refine ⟨fun a hm => ?_, fun g hm => ?_, fun p hm => ?_⟩
  · rcases h _ hm with h1 | ⟨p, o, h1⟩ <;> cases h1
  · rcases h _ hm with h1 | ⟨p, o, h1⟩ <;> cases h1
  · rcases h _ hm with h1 | ⟨p', o, h1⟩ <;> cases h1

/-- interleavings: with exclusive hand-out by the pools (fact P1), a write to a pooled object is
always made by the goroutine that holds it, and nobody else holds it -/
theorem no_conflicting_access (n : Nat) (tr : List TEv) (hw : threadsWellOwned n tr = true)
    (hx : exclusive tr [] = true) (ht : ∀ e ∈ tr, e.1 < n) : noConflict tr [] = true :=
  noConflict_of_wellOwned n tr hw hx ht

/-! ## non-vacuity -/

/-- two goroutines sharing the poisoned pools, a hand-written interleaving: both get their
sequential results (thread 1 also applies to the document `null` with stale keys around) -/
def g0 : List Call := [.apply {} {} [] (ascii "null") [], .apply {} {} [] (ascii "{\"a\":1}") []]
def g1 : List Call := [.equal {} (ascii "[1]") (ascii " [1]"), .apply {} {} [] (ascii "null") []]
def sched : List Nat := (List.replicate 12 [0, 1, 1, 0, 0]).flatten

theorem schedule_example :
    (resultOf (runSchedule ⟨C09.poisoned, [seqP g0, seqP g1]⟩ sched) 0).map (·.map Res.code)
      = some (g0.map fun c => c.pure.code) ∧
    (resultOf (runSchedule ⟨C09.poisoned, [seqP g0, seqP g1]⟩ sched) 1).map (·.map Res.code)
      = some (g1.map fun c => c.pure.code) := by
  decide +kernel

/-- the executed schedule is a run of the semantics, so `schedule_independent` applies to it -/
example : Steps ⟨C09.poisoned, [g0, g1].map seqP⟩ (runSchedule ⟨C09.poisoned, [seqP g0, seqP g1]⟩ sched) :=
  runSchedule_steps _ _

/-- the footprint of a concrete call in the dirty world, objects numbered by acquisition: the
trace is non-trivial (nested holds of two decoder states) and well owned -/
def idOf : PoolId → Nat → Nat := fun _ n => 100 + n

theorem footprint_example :
    (Call.apply {} {} [] (ascii "null") []).trace C09.staleWorld idOf =
      [.read (.callerIn 0), .read (.callerIn 1), .read (.global 0), .read (.global 1),
       .acquire .scan 100, .write (.pooled .scan 100), .release .scan 100,
       .acquire .dec 100, .acquire .dec 101,
       .write (.pooled .dec 101), .release .dec 101, .write (.pooled .dec 100), .release .dec 100,
       .acquire .enc 100, .sync 0, .write (.pooled .enc 100), .release .enc 100] := by
  decide +kernel

/-- `no_conflicting_access` has satisfiable hypotheses, and rejects a write without holding -/
example : threadsWellOwned 2 [(0, .acquire .dec 7), (1, .acquire .dec 8), (0, .write (.pooled .dec 7)),
      (1, .write (.pooled .dec 8)), (0, .release .dec 7), (1, .acquire .dec 7), (1, .write (.pooled .dec 7))] = true ∧
    exclusive [(0, .acquire .dec 7), (1, .acquire .dec 8), (0, .write (.pooled .dec 7)),
      (1, .write (.pooled .dec 8)), (0, .release .dec 7), (1, .acquire .dec 7), (1, .write (.pooled .dec 7))] [] = true ∧
    noConflict [(0, .acquire .dec 7), (1, .write (.pooled .dec 7))] [] = false := by
  decide

-- #print axioms schedule_independent
-- #print axioms footprints_disjoint
-- #print axioms no_conflicting_access
-- #print axioms never_writes_shared
-- #print axioms schedule_example

end C10
end JP
