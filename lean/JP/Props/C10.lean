import JP.Driver
import JP.Impl.Den

/-! # Property C10 — theorems (see DESIGN.md §6) -/

namespace JP
namespace C10

end C10
end JP
