import JP.Driver
import JP.Impl.Den

/-! # Property C20 — theorems (see DESIGN.md §6) -/

namespace JP
namespace C20

end C20
end JP
