import JP.Lemmas.Cli

/-!
# C20: the json-patch command applies its patch files in order, or fails cleanly

Model: `Driver.cliRun stdin files` (`main` of v5/cmd/json-patch/main.go): `files` are the
contents of the `-p` arguments in command-line order, `none` for a file that cannot be read;
the result is what is written to standard output and the exit status.
-/

namespace JP
namespace C20
open CliLemmas

/-- `jsonpatch.DecodePatch` of one file, the error dropped -/
abbrev decode : Bytes → Option (List Impl.Op) := CliLemmas.decode

/-- `mdoc, err = patch.Apply(mdoc)` folded over the patches from left to right -/
abbrev foldApply : Bytes → List (List Impl.Op) → Option Bytes := CliLemmas.foldApply

/-- the defining equations of the fold: order is left to right, the first failure aborts -/
theorem foldApply_nil (d : Bytes) : foldApply d [] = some d := rfl

theorem foldApply_cons (d : Bytes) (p : List Impl.Op) (ps : List (List Impl.Op)) :
    foldApply d (p :: ps) =
      (match Impl.applyBytes {} [] d p with
       | .ok out => foldApply out ps
       | _ => none) := by
  simp only [foldApply, CliLemmas.foldApply, applyOne]
  cases Impl.applyBytes {} [] d p <;> rfl

/-- exit status 0 with output `out` exactly when every file exists, every file decodes and
the left-to-right fold of `Apply` over standard input yields `out` -/
theorem run_ok_iff (stdin : Bytes) (files : List (Option Bytes)) (out : Bytes) :
    Driver.cliRun stdin files = (out, 0) ↔
      ∃ (texts : List Bytes) (patches : List (List Impl.Op)), files = texts.map some ∧ texts.mapM decode = some patches
        ∧ foldApply stdin patches = some out := by
  constructor
  · intro h
    rw [cliRun_eq] at h
    split at h
    · simp at h
    · rename_i hn
      simp only [Bool.not_eq_true] at hn
      refine ⟨files.filterMap id, ?_⟩
      cases hd : decodeAll (files.filterMap id) with
      | none => simp [hd] at h
      | some ps =>
        refine ⟨ps, eq_map_some_of_no_none files hn, by rw [mapM_decode]; exact hd, ?_⟩
        simp only [hd] at h
        cases hf : CliLemmas.foldApply stdin ps with
        | none => simp [hf] at h
        | some o =>
          simp only [hf, Prod.mk.injEq, and_true] at h
          subst h
          exact hf
  · rintro ⟨texts, patches, rfl, hd, hf⟩
    rw [mapM_decode] at hd
    rw [cliRun_texts, hd]
    simp only []
    rw [show CliLemmas.foldApply stdin patches = some out from hf]

/-- the exit status is 0 or 1 -/
theorem run_status (stdin : Bytes) (files : List (Option Bytes)) :
    (Driver.cliRun stdin files).2 = 0 ∨ Driver.cliRun stdin files = ([], 1) := by
  rw [cliRun_eq]
  split
  · exact .inr rfl
  · cases decodeAll (files.filterMap id) with
    | none => exact .inr rfl
    | some ps =>
      simp only []
      cases CliLemmas.foldApply stdin ps with
      | none => exact .inr rfl
      | some o => exact .inl rfl

/-- a failing run writes nothing to standard output -/
theorem run_fail_clean (stdin : Bytes) (files : List (Option Bytes)) :
    (Driver.cliRun stdin files).2 ≠ 0 → (Driver.cliRun stdin files).1 = [] := by
  intro h
  cases run_status stdin files with
  | inl h0 => exact absurd h0 h
  | inr h1 => rw [h1]

/-- a missing file fails the run whatever the other files are -/
theorem run_missing (stdin : Bytes) (files : List (Option Bytes)) (h : none ∈ files) :
    Driver.cliRun stdin files = ([], 1) := by
  rw [cliRun_eq]
  have : files.any Option.isNone = true := List.any_eq_true.2 ⟨none, h, rfl⟩
  simp [this]

/-- order: running with the files `f ++ g` is running with `f` and then running with `g`
on its output, when the first run succeeds -/
theorem run_order_opt (stdin mid : Bytes) (f g : List (Option Bytes))
    (hf : Driver.cliRun stdin f = (mid, 0)) :
    Driver.cliRun stdin (f ++ g) = Driver.cliRun mid g := by
  obtain ⟨texts, patches, rfl, hd, hfold⟩ := (run_ok_iff stdin f mid).1 hf
  rw [mapM_decode] at hd
  rw [cliRun_eq, cliRun_eq mid g]
  simp only [List.any_append, any_isNone_map_some, Bool.false_or, List.filterMap_append,
    filterMap_map_some, decodeAll_append, hd]
  split
  · rfl
  · cases decodeAll (g.filterMap id) with
    | none => rfl
    | some qs =>
      simp only [foldApply_append, show CliLemmas.foldApply stdin patches = some mid from hfold]

theorem run_order (stdin mid : Bytes) (f g : List Bytes)
    (hf : Driver.cliRun stdin (f.map some) = (mid, 0)) :
    Driver.cliRun stdin ((f ++ g).map some) = Driver.cliRun mid (g.map some) := by
  rw [List.map_append]; exact run_order_opt stdin mid _ _ hf

/-- … and when the first run fails, so does the whole run -/
theorem run_order_fail (stdin : Bytes) (f g : List (Option Bytes))
    (hf : (Driver.cliRun stdin f).2 ≠ 0) :
    Driver.cliRun stdin (f ++ g) = ([], 1) := by
  cases run_status stdin (f ++ g) with
  | inr h => exact h
  | inl h0 =>
    exfalso
    have hfg : Driver.cliRun stdin (f ++ g) = ((Driver.cliRun stdin (f ++ g)).1, 0) := by
      rw [← h0]
    obtain ⟨texts, patches, he, hd, hfold⟩ := (run_ok_iff _ _ _).1 hfg
    rw [mapM_decode] at hd
    -- split the witnesses along `f ++ g`
    have hlen : f.length ≤ texts.length := by
      have := congrArg List.length he
      simp only [List.length_append, List.length_map] at this
      omega
    have hf' : f = (texts.take f.length).map some := by
      have := congrArg (List.take f.length) he
      simpa [List.take_append_of_le_length, List.map_take] using this
    have htexts : texts = texts.take f.length ++ texts.drop f.length := (List.take_append_drop _ _).symm
    rw [htexts, decodeAll_append] at hd
    cases h1 : decodeAll (texts.take f.length) with
    | none => simp [h1] at hd
    | some ps =>
      cases h2 : decodeAll (texts.drop f.length) with
      | none => simp [h1, h2] at hd
      | some qs =>
        simp only [h1, h2, Option.some.injEq] at hd
        subst hd
        rw [show foldApply stdin (ps ++ qs) = CliLemmas.foldApply stdin (ps ++ qs) from rfl,
          foldApply_append] at hfold
        cases h3 : CliLemmas.foldApply stdin ps with
        | none => simp [h3] at hfold
        | some mid =>
          apply hf
          rw [hf', cliRun_texts, h1]
          simp only [h3]

/-- without patch files the input is copied to the output -/
theorem run_no_files (stdin : Bytes) : Driver.cliRun stdin [] = (stdin, 0) := by
  rw [cliRun_eq]; rfl

/-- one file: decode it and apply it -/
theorem run_one_file (stdin t : Bytes) :
    Driver.cliRun stdin [some t] =
      (match Impl.decodePatch t with
       | .ok ops =>
         (match Impl.applyBytes {} [] stdin ops with
          | .ok out => (out, 0)
          | _ => ([], 1))
       | _ => ([], 1)) := by
  have : [some t] = [t].map some := rfl
  rw [this, cliRun_texts]
  simp only [decodeAll, CliLemmas.decode]
  cases Impl.decodePatch t with
  | ok ops =>
    simp only [CliLemmas.foldApply, applyOne]
    cases Impl.applyBytes {} [] stdin ops <;> rfl
  | err e => rfl
  | panic => rfl

/-! ### the hypotheses are satisfiable -/

def doc0 : Bytes := ascii "{\"a\":1}"
def file1 : Bytes := ascii "[{\"op\":\"add\",\"path\":\"/b\",\"value\":2}]"
def file2 : Bytes := ascii "[{\"op\":\"remove\",\"path\":\"/a\"}]"

/-- `run_ok_iff` / `run_order`: two files, applied in command-line order -/
example : Driver.cliRun doc0 [some file1, some file2] = (ascii "{\"b\":2}", 0) := by decide +kernel

example : Driver.cliRun doc0 ([file1].map some) = (ascii "{\"a\":1,\"b\":2}", 0) := by decide +kernel

/-- the order matters: the second file first fails here (`/b` does not exist yet) -/
example : Driver.cliRun doc0 [some file2, some (ascii "[{\"op\":\"remove\",\"path\":\"/b\"}]"), some file1]
    = ([], 1) := by decide +kernel

/-- `run_fail_clean`: a missing file, an undecodable file -/
example : (Driver.cliRun doc0 [some file1, none]).2 ≠ 0 := by decide +kernel
example : (Driver.cliRun doc0 [some (ascii "[{\"op\":\"add\",\"path\":\"/b\"}]")]).2 ≠ 0 := by decide +kernel

example : Driver.cliRun doc0 [] = (doc0, 0) := by decide +kernel

end C20
end JP

-- #print axioms JP.C20.run_ok_iff
-- #print axioms JP.C20.run_fail_clean
-- #print axioms JP.C20.run_order
-- #print axioms JP.C20.run_order_opt
-- #print axioms JP.C20.run_order_fail
-- #print axioms JP.C20.run_no_files
