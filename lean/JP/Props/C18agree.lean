import JP.Props.C01
import JP.Props.C18
import JP.Lemmas.EqvLaws

/-!
# C18 / C01 — the v5 engine model and the legacy engine model agree

Both implementation models refine the same specification `Spec.applyFrom` (C01: ordered equality
of the value; C18: `Value.eqv`, listed failures only).  Where one decoded patch stands for the same
RFC 6902 operations in both packages (`specOps iops = some sops`, `Legacy.specOps lops = some sops`)
and lies in the legacy model's strict domain (`Legacy.OpOK` — no root operations, present values
duplicate-free and plainly spelled — and `Legacy.strictOp` — RFC 6901 pointers where the legacy
`findObject` is lenient), the two models, started on the same document with the options the legacy
package has (negative indices as given, no AllowMissingPathOnRemove, no EnsurePathExistsOnAdd, no
copy limit),

* both succeed with values equal up to member order (`v5_legacy_agree`, first case), or
* both report an error, where the specification fails with a cause the legacy property lists, or
* the case is outside the documented dialect (`unspec`) or the specification fails with a cause
  the legacy property does not list — there the two packages may differ, and do
  (`v5_legacy_disagree_example`: `replace` of an absent member).

A corollary of `C01.apply_refines` / `C01.applyOps_refines` and `C18.applyOps_refines`; no new
induction.
-/

namespace JP
namespace C18

open Value Legacy

/-- the options of the specification the legacy package corresponds to, seen from the v5 options -/
theorem specOpts_eq (o : Impl.Opts) (neg : Bool) (hn : o.neg = neg) (ha : o.allow = false)
    (he : o.ensure = false) (hl : o.limit = 0) : JP.specOpts o = Legacy.specOpts neg := by
  simp only [JP.specOpts, Legacy.specOpts, hn, ha, he, hl]
  rfl

/-- **the engines, from related roots**: `r` (v5) and `root` (legacy) both stand for the document
`d` — `den r.con = d` exactly, `Rel root d` up to member order -/
theorem v5_legacy_agree_ops (hEq : C01.EqSpec) (neg : Bool) (o : Impl.Opts)
    (hn : o.neg = neg) (ha : o.allow = false) (he : o.ensure = false) (hl : o.limit = 0)
    (r : Impl.Root) (hr : Impl.WFRoot r = true) (htx : Impl.TX o.esc r.con = true)
    (root : Legacy.Node) (hrel : Rel root (Impl.den r.con))
    (iops : List Impl.Op) (lops : List Legacy.Op) (sops : List Spec.Op)
    (hsi : JP.specOps iops = some sops) (hsl : Legacy.specOps lops = some sops)
    (hv : ∀ op ∈ iops, ∀ c, op.value = some c → c.valueOf.noDup = true)
    (hcst : ∀ op ∈ iops, ∀ c, op.value = some c → Impl.CstOK o.esc c = true)
    (hq : ∀ op ∈ iops, ∀ toks, Spec.parsePointer op.path = some toks → ∀ t ∈ toks, Impl.QK o.esc t = true)
    (hfrm : ∀ op ∈ iops, op.kind = ascii "copy" → op.frm ≠ none)
    (hops : ∀ op ∈ lops, OpOK op) (hstrict : ∀ op ∈ lops, Legacy.strictOp op = true)
    (sizeAt : Nat → Nat) (i acc : Nat) (acci accl : Int) :
    match Spec.applyFrom (Legacy.specOpts neg) sizeAt i acc (Impl.den r.con) sops with
    | .ok _ => ∃ r' l', Impl.applyOps o r acci iops = .ok r' ∧
        Legacy.applyOps neg 0 root accl lops = .ok l' ∧
        Value.eqv (Impl.den r'.con) (Legacy.den l') = true ∧
        Value.eqv (Legacy.den l') (Impl.den r'.con) = true
    | .fail j c => listedAt sops i j c = true →
        (∃ e, Impl.applyOps o r acci iops = .err e) ∧ (∃ e, Legacy.applyOps neg 0 root accl lops = .err e)
    | .unspec => True := by
  have h5 := C01.applyOps_refines hEq o he hl r hr htx iops sops hsi hv hcst hq hfrm sizeAt i acc acci
  rw [specOpts_eq o neg hn ha he hl] at h5
  have h4 := C18.applyOps_refines neg sizeAt lops sops root (Impl.den r.con) i acc accl hrel hsl hops hstrict
  cases hres : Spec.applyFrom (Legacy.specOpts neg) sizeAt i acc (Impl.den r.con) sops with
  | unspec => trivial
  | fail j c =>
    rw [hres] at h5 h4
    intro hlist
    exact ⟨h5, h4 hlist⟩
  | ok v =>
    rw [hres] at h5 h4
    obtain ⟨r', e1, e2, _, _⟩ := h5
    obtain ⟨l', f1, _, _, f4, f5⟩ := h4
    obtain ⟨_, _, hsim⟩ := f5
    refine ⟨r', l', e1, f1, ?_, ?_⟩
    · rw [e2, Value.eqv_symm v (Legacy.den l') hsim.2.1 hsim.1]; exact f4
    · rw [e2]; exact f4

/-- **C01 ∧ C18 ⇒ the two packages agree**: both models started as `ApplyIndentWithOptions` /
`ApplyIndent` start them, on the syntax tree `c` of one document -/
theorem v5_legacy_agree (hEq : C01.EqSpec) (neg : Bool) (o : Impl.Opts)
    (hn : o.neg = neg) (ha : o.allow = false) (he : o.ensure = false) (hl : o.limit = 0)
    (c : Cst) (hc1 : c.valueOf.noDup = true) (hc5 : Impl.CstOK o.esc c = true) (hc4 : RawOK c = true)
    (cr : Bool)
    (iops : List Impl.Op) (lops : List Legacy.Op) (sops : List Spec.Op)
    (hsi : JP.specOps iops = some sops) (hsl : Legacy.specOps lops = some sops)
    (hv : ∀ op ∈ iops, ∀ c, op.value = some c → c.valueOf.noDup = true)
    (hcst : ∀ op ∈ iops, ∀ c, op.value = some c → Impl.CstOK o.esc c = true)
    (hq : ∀ op ∈ iops, ∀ toks, Spec.parsePointer op.path = some toks → ∀ t ∈ toks, Impl.QK o.esc t = true)
    (hfrm : ∀ op ∈ iops, op.kind = ascii "copy" → op.frm ≠ none)
    (hops : ∀ op ∈ lops, OpOK op) (hstrict : ∀ op ∈ lops, Legacy.strictOp op = true)
    (sizeAt : Nat → Nat) :
    match Spec.apply (Legacy.specOpts neg) sizeAt c.valueOf sops with
    | .ok _ => ∃ con r' l', Impl.decodeRoot c = .ok con ∧
        Impl.applyOps o { con := con, self := .raw c, selfCR := cr } 0 iops = .ok r' ∧
        Legacy.applyOps neg 0 (rootOf c) 0 lops = .ok l' ∧
        Value.eqv (Impl.den r'.con) (Legacy.den l') = true
    | .fail j cc => listedAt sops 0 j cc = true →
        ∃ con, Impl.decodeRoot c = .ok con ∧
          (∃ e, Impl.applyOps o { con := con, self := .raw c, selfCR := cr } 0 iops = .err e) ∧
          (∃ e, Legacy.applyOps neg 0 (rootOf c) 0 lops = .err e)
    | .unspec => True := by
  simp only [Spec.apply]
  cases hcont : c.valueOf.isContainer with
  | false => simp
  | true =>
    simp only [if_true]
    obtain ⟨con, hd, hinv, hden⟩ := C01.decodeRoot_spec (e := o.esc) hc1 hc5 hcont cr
    obtain ⟨hwf, htx⟩ := (Impl.InvRoot_iff _ _).1 hinv
    have hrel : Rel (rootOf c) (Impl.den ({ con := con, self := .raw c, selfCR := cr } : Impl.Root).con) := by
      rw [hden]; exact rootOf_rel hc1 hc4 hcont
    have h := v5_legacy_agree_ops hEq neg o hn ha he hl _ hwf htx (rootOf c) hrel iops lops sops hsi hsl
      hv hcst hq hfrm hops hstrict sizeAt 0 0 0 0
    simp only [hden] at h
    cases hres : Spec.applyFrom (Legacy.specOpts neg) sizeAt 0 0 c.valueOf sops with
    | unspec => trivial
    | fail j cc =>
      rw [hres] at h
      intro hlist
      exact ⟨con, hd, h hlist⟩
    | ok v =>
      rw [hres] at h
      obtain ⟨r', l', e1, f1, g1, _⟩ := h
      exact ⟨con, r', l', hd, e1, f1, g1⟩

/-! ### the hypotheses are satisfiable; outside them the packages do differ -/

section AgreeExamples

/-- one patch, decoded for the v5 package … -/
def agIops : List Impl.Op :=
  [ { kind := ascii "add", path := ascii "/a/x/-1", value := some (.lit (ascii "25")) },
    { kind := ascii "copy", path := ascii "/c", frm := some (ascii "/a") },
    { kind := ascii "test", path := ascii "/b", value := some (.str (ascii "s")) },
    { kind := ascii "remove", path := ascii "/n" } ]

/-- … and for the legacy package -/
def agLops : List Legacy.Op :=
  [ mkOp "add" "/a/x/-1" none (.val (.lit (ascii "25"))),
    mkOp "copy" "/c" (some "/a"),
    mkOp "test" "/b" none (.val (.str (ascii "s"))),
    mkOp "remove" "/n" ]

/-- the RFC 6902 operations both stand for -/
def agSops : List Spec.Op :=
  [ { kind := .add, path := ascii "/a/x/-1", value := some (.num (ascii "25")) },
    { kind := .copy, path := ascii "/c", frm := ascii "/a" },
    { kind := .test, path := ascii "/b", value := some (.str (ascii "s")) },
    { kind := .remove, path := ascii "/n" } ]

/-- `v5_legacy_agree` on `{"a":{"y":1,"x":[10,20,30]},"b":"s","n":null}`: every hypothesis holds
(kernel evaluation), the specification succeeds, so both engine models succeed with `eqv` values
(the legacy copy `c` has its members sorted, the v5 copy keeps the order) -/
example (hEq : C01.EqSpec) :
    ∃ con r' l', Impl.decodeRoot exDoc = .ok con ∧
      Impl.applyOps {} { con := con, self := .raw exDoc, selfCR := false } 0 agIops = .ok r' ∧
      Legacy.applyOps true 0 (rootOf exDoc) 0 agLops = .ok l' ∧
      Value.eqv (Impl.den r'.con) (Legacy.den l') = true := by
  have hmem : ∀ (P : Impl.Op → Prop), (∀ op ∈ agIops, P op) ↔
      (P agIops[0] ∧ P agIops[1] ∧ P agIops[2] ∧ P agIops[3]) := by
    intro P; simp [agIops]
  have hv : ∀ op ∈ agIops, ∀ c, op.value = some c → c.valueOf.noDup = true :=
    (hmem _).2 (by refine ⟨?_, ?_, ?_, ?_⟩ <;> intro c hc <;> cases hc <;> decide)
  have hcst : ∀ op ∈ agIops, ∀ c, op.value = some c → Impl.CstOK (Impl.Opts.esc {}) c = true :=
    (hmem _).2 (by refine ⟨?_, ?_, ?_, ?_⟩ <;> intro c hc <;> cases hc <;> decide)
  have hq : ∀ op ∈ agIops, ∀ toks, Spec.parsePointer op.path = some toks →
      ∀ t ∈ toks, Impl.QK (Impl.Opts.esc {}) t = true :=
    (hmem _).2 (by refine ⟨?_, ?_, ?_, ?_⟩ <;> intro toks ht <;> cases ht <;> decide)
  have hfrm : ∀ op ∈ agIops, op.kind = ascii "copy" → op.frm ≠ none :=
    (hmem _).2 (by refine ⟨?_, ?_, ?_, ?_⟩ <;> intro hk <;> first | exact absurd hk (by decide) | simp [agIops])
  have hops : ∀ op ∈ agLops, OpOK op := by
    have hb : agLops.all opOKb = true := by decide +kernel
    intro op hop
    exact opOK_of_b (List.all_eq_true.1 hb op hop)
  have hstrict : ∀ op ∈ agLops, Legacy.strictOp op = true :=
    Legacy.strictOps_iff.1 (by decide +kernel)
  have h := v5_legacy_agree hEq true {} rfl rfl rfl rfl exDoc (by decide +kernel) (by decide +kernel)
    (by decide +kernel) false agIops agLops agSops (by rfl) (by rfl) hv hcst hq hfrm hops hstrict (fun _ => 0)
  have hs : ∃ v, Spec.apply (Legacy.specOpts true) (fun _ => 0) exDoc.valueOf agSops = .ok v :=
    ⟨_, by with_unfolding_all rfl⟩
  obtain ⟨v, hs⟩ := hs
  rw [hs] at h
  exact h

/-- the v5 engine model run on a syntax tree, as a Boolean -/
def v5Ok (c : Cst) (ops : List Impl.Op) : Bool :=
  match Impl.decodeRoot c with
  | .ok con =>
    (match Impl.applyOps {} { con := con, self := .raw c, selfCR := false } 0 ops with
     | .ok _ => true
     | _ => false)
  | _ => false

/-- outside the listed failures the two packages DO differ: `replace` of an absent member on
`{"a":1}` is an error for v5 (and for the specification: `absentMember`, which C18 does not list
for `replace`) and succeeds in the legacy package (it writes the member).  A documented deviation
of the legacy package (C18, DESIGN Appendix E), not of the specification. -/
theorem v5_legacy_disagree_example :
    v5Ok dDoc [{ kind := ascii "replace", path := ascii "/q", value := some (.lit (ascii "2")) }] = false ∧
    legacyOk dDoc [mkOp "replace" "/q" none (.val (.lit (ascii "2")))] = true := by
  decide +kernel

end AgreeExamples

end C18
end JP
