import JP.Props.C02
import JP.Props.C16
import JP.Lemmas.CloseMergeGood
import JP.Lemmas.MergeLawsMerge

/-!
# C02 at byte level — `MergePatch` on texts computes RFC 7396

`C02.mergePatch_value` still assumed the two text-layer facts `PrintSpec` / `CstOfSpec` for the
result node.  They are discharged here for the node the model actually builds
(`JP/Lemmas/CloseMergeGood.lean`): every tree returned by the reference parser is well-formed
(`parseCst_sound`), merging keeps raw messages well-formed and within the nesting limit, and the
member names of parsed objects — which the encoder re-quotes, HTML escaping on — are *decoded*
names, hence always valid UTF-8 (`isValidUtf8_unquote`: the decoder replaces invalid bytes and lone
surrogates by U+FFFD), so `unquote (quoteBody true k) = k`.  No UTF-8 hypothesis on the input
texts is needed; the scanner hypotheses follow from `C16.scanner_iff`.

The result is *ordered* equality with `Spec.merge`; the `eqv` form is a corollary.
-/

namespace JP
namespace C02
open Value Impl

theorem valid_of_parse (bs : Bytes) (c : Cst) (h : parseCst bs = some c) : Scanner.valid bs = true :=
  (C16.scanner_iff bs).2 (by rw [h]; rfl)

/-- the text invariant of the result node of `doMergePatch false` -/
theorem GoodN_mergeTree (dc pc : Cst) (r : Node) (hd : GC maxDepth dc) (hp : GC maxDepth pc)
    (h : mergeTree dc pc = some r) : GoodN maxDepth r = true := by
  cases pc with
  | lit s => simp [mergeTree] at h
  | str s => simp [mergeTree] at h
  | arr xs =>
    simp only [mergeTree, Option.some.injEq] at h
    subst h
    exact GoodN_decodeAry _ xs hp
  | obj pms =>
    have hprune : GoodN maxDepth (pruneN (decodeDoc pms)) = true :=
      GoodN_pruneN _ _ (GoodN_decodeDoc _ pms hp)
    cases dc with
    | lit s => simp only [mergeTree, Option.some.injEq] at h; subst h; exact hprune
    | str s => simp only [mergeTree, Option.some.injEq] at h; subst h; exact hprune
    | arr xs => simp only [mergeTree, Option.some.injEq] at h; subst h; exact hprune
    | obj dms =>
      simp only [mergeTree, Option.some.injEq] at h
      subst h
      exact GoodN_mergeNC false _ _ _ ((GoodN_raw _ _).2 hd) hp

/-- the two text-layer facts `mergePatch_value` assumed, for the node actually built -/
theorem text_layer (dc pc : Cst) (r : Node) (hd : GC maxDepth dc) (hp : GC maxDepth pc)
    (h : mergeTree dc pc = some r) (hw : WF r = true) :
    PrintSpec (cstOf true r) ∧ CstOfSpec r :=
  have hg := GoodN_mergeTree dc pc r hd hp h
  ⟨parse_print_cstOf r hg, valueOf_cstOf' r maxDepth hw hg⟩

/-- **`MergePatch` on texts.**  For a well-formed non-null document and a well-formed patch, both
with duplicate-free member names, `MergePatch` succeeds and its output is a JSON text denoting
exactly (member order included) the RFC 7396 result. -/
theorem mergePatch_bytes (doc patch : Bytes) (dc pc : Cst)
    (hd : parseCst doc = some dc) (hp : parseCst patch = some pc)
    (hnn : dc.isNullLit = false)
    (hdd : dc.valueOf.noDup = true) (hdp : pc.valueOf.noDup = true) :
    ∃ out, mergePatch doc patch = .ok out ∧
      parseValueOf out = some (Spec.merge dc.valueOf pc.valueOf) := by
  have hvd := valid_of_parse doc dc hd
  have hvp := valid_of_parse patch pc hp
  have hgd := GC_of_parse doc dc hd
  have hgp := GC_of_parse patch pc hp
  refine ⟨_, doMergePatch_eq doc patch dc pc hvd hvp hd hp hnn, ?_⟩
  cases hpn : pc.isNullLit with
  | true =>
    have e := (isNullLit_iff pc).mp hpn
    simp only [if_true, parseValueOf, hp, Option.map_some]
    rw [e]
    simp [Cst.valueOf, Cst.litValue, Spec.merge]
  | false =>
    simp only [Bool.false_eq_true, if_false]
    have hden := mergeTree_den dc pc hdd hdp
    cases hm : mergeTree dc pc with
    | none =>
      rw [hm] at hden
      simp only [parseValueOf, hp, Option.map_some]
      rw [← hden]
    | some r =>
      rw [hm] at hden
      have ⟨p1, p2⟩ := text_layer dc pc r hgd hgp hm hden.1
      simp only [parseValueOf]
      rw [p1]
      simp only [Option.map_some]
      rw [p2, hden.2]

/-- the same in terms of the values the two texts denote, modulo member order -/
theorem mergePatch_bytes_eqv (doc patch : Bytes) (d p : Value)
    (hd : parseValueOf doc = some d) (hp : parseValueOf patch = some p)
    (hnn : d ≠ .null) (hdd : d.noDup = true) (hdp : p.noDup = true) :
    ∃ out, mergePatch doc patch = .ok out ∧
      ∃ v, parseValueOf out = some v ∧ Value.eqv v (Spec.merge d p) = true := by
  unfold parseValueOf at hd hp
  cases hcd : parseCst doc with
  | none => simp [hcd] at hd
  | some dc =>
    cases hcp : parseCst patch with
    | none => simp [hcp] at hp
    | some pc =>
      simp only [hcd, hcp, Option.map_some, Option.some.injEq] at hd hp
      subst hd; subst hp
      have hn : dc.isNullLit = false := by
        cases h : dc.isNullLit with
        | false => rfl
        | true =>
          rw [(isNullLit_iff dc).mp h] at hnn
          exact absurd (by simp [Cst.valueOf, Cst.litValue]) hnn
      obtain ⟨out, h1, h2⟩ := mergePatch_bytes doc patch dc pc hcd hcp hn hdd hdp
      exact ⟨out, h1, _, h2, Value.eqv_refl _ (Spec.noDup_merge _ _ hdd hdp)⟩

/-- a patch that is neither an object nor an array is returned verbatim (byte for byte),
whatever the (well-formed, non-null) document; no duplicate-freeness needed -/
theorem merge_scalar_verbatim (doc patch : Bytes) (dc pc : Cst)
    (hd : parseCst doc = some dc) (hp : parseCst patch = some pc)
    (hnn : dc.isNullLit = false) (hno : pc.isObj = false) (hna : pc.isArr = false) :
    mergePatch doc patch = .ok patch := by
  have hvd := valid_of_parse doc dc hd
  have hvp := valid_of_parse patch pc hp
  have := doMergePatch_eq doc patch dc pc hvd hvp hd hp hnn
  unfold mergePatch
  rw [this]
  have hnone : (if pc.isNullLit then none else mergeTree dc pc) = none := by
    cases pc with
    | lit s => split <;> simp [mergeTree]
    | str s => split <;> simp [mergeTree]
    | arr xs => simp [Cst.isArr] at hna
    | obj ms => simp [Cst.isObj] at hno
  rw [hnone]

/-- … and then the RFC result is the patch value itself -/
theorem merge_scalar_value (d : Value) (pc : Cst) (hno : pc.isObj = false) :
    Spec.merge d pc.valueOf = pc.valueOf :=
  Spec.merge_nonobj _ _ (valueOf_not_obj_of_isObj pc hno)

/-- the error outcomes of `MergePatch` in terms of the reference parser -/
theorem mergePatch_errors_bytes (doc patch : Bytes) :
    (parseCst doc = none → mergePatch doc patch = .err .badDoc) ∧
    ((parseCst doc).isSome = true → parseCst patch = none → mergePatch doc patch = .err .badPatch) ∧
    (∀ dc, parseCst doc = some dc → (parseCst patch).isSome = true → dc.isNullLit = true →
      mergePatch doc patch = .err .badDoc) := by
  have ⟨e1, e2, e3⟩ := doMergePatch_errors false doc patch
  have vd : ∀ x : Bytes, Scanner.valid x = (parseCst x).isSome := fun x => by
    have h := C16.scanner_iff x
    cases hv : Scanner.valid x <;> cases hq : (parseCst x).isSome <;> simp_all
  refine ⟨fun h => e1 (by rw [vd, h]; rfl), fun h1 h2 => e2 (by rw [vd, h1]) (by rw [vd, h2]; rfl), ?_⟩
  intro dc h1 h2 h3
  cases hq : parseCst patch with
  | none => rw [hq] at h2; cases h2
  | some pc => exact e3 dc pc (by rw [vd, h1]; rfl) (by rw [vd, hq]; rfl) h1 hq h3

/-! ### the hypotheses are satisfiable -/

example : parseCst (Cst.print exDoc) = some exDoc ∧ parseCst (Cst.print exPatch) = some exPatch ∧
    exDoc.isNullLit = false ∧ exDoc.valueOf.noDup = true ∧ exPatch.valueOf.noDup = true :=
  ⟨rfl, rfl, by decide, by decide, by decide⟩
/-- on the example the output is `{"a":{"c":null,"x":{"z":3}},"d":[null],"f":{}}` -/
example : (match mergePatch (Cst.print exDoc) (Cst.print exPatch) with | .ok o => some o | _ => none) =
    some (ascii "{\"a\":{\"c\":null,\"x\":{\"z\":3}},\"d\":[null],\"f\":{}}") := by decide +kernel
example : parseCst (ascii "\"x<\"") = some (.str (ascii "x<")) ∧ (Cst.str (ascii "x<")).isObj = false ∧
    (Cst.str (ascii "x<")).isArr = false :=
  ⟨rfl, rfl, rfl⟩
example : (match mergePatch (Cst.print exDoc) (ascii "\"x<\"") with | .ok o => some o | _ => none) =
    some (ascii "\"x<\"") := by decide +kernel
example : (parseCst (ascii "{\"a\":")).isSome = false := by decide +kernel

-- #print axioms mergePatch_bytes
-- #print axioms mergePatch_bytes_eqv
-- #print axioms merge_scalar_verbatim
-- #print axioms mergePatch_errors_bytes
-- #print axioms text_layer

end C02
end JP
