import JP.Driver
import JP.Impl.Den

/-! # Property C15 — theorems (see DESIGN.md §6) -/

namespace JP
namespace C15

end C15
end JP
