import JP.Lemmas.TypedStruct
import JP.Lemmas.TypedUntyped
import JP.Lemmas.TypedEscape
import JP.Lemmas.TypedTotal
import JP.Lemmas.TypedBfsFuel

/-!
# C17 — the reflective encoder on TYPED Go values (structs, tags, maps, slices, pointers)

`JP/Codec/Typed.lean` is the literal model of `Marshal` / `MarshalEscaped` for typed values:
`typeFields` (breadth-first field selection, embedding, `dominantField`, tags, `isValidTag`),
`structEncoder`, `mapEncoder`, `sliceEncoder`, `arrayEncoder`, `ptrEncoder`, `interfaceEncoder`,
`encodeByteSlice`, the integer / bool / string encoders with the `string` option.  It is tied to
the real encoder byte for byte by the stream `typed` (`CODEC … typed …`, harness/typed.go).
The theorems below hold for ALL types and values of the modelled domain (floats, foreign
marshalers, recursive types and cyclic values are outside: see the head of `Typed.lean`).

Premises that occur:
* `t.wf` — field names are Go identifiers (only "no quote, backslash or control character" is
  used); `v.typesWf` — the same for the dynamic types inside interface values (`hasType` implies it).
* `v.depth ≤ maxDepth` — the reference parser `parseCst` has the codec's nesting limit (10000),
  `Marshal` has none; `v.depth` counts nested slices / arrays / maps / structs.
-/

namespace JP.C17
open JP JP.Codec JP.Codec.Typed

/-! ### the example type used below

    type Inner struct { A int; B string `json:"b,omitempty"` }
    type T struct {
        Inner
        A string `json:"a"`;  N int64 `json:"n,string"`;  P *bool `json:",omitempty"`
        M map[int8]string;    S []byte `json:"<s>"`;      x int;   Z interface{} `json:"-"`
    }
    T{Inner{7, ""}, "x<y", -12, nil, map[int8]string{10: "t", -1: "", 9: "n"}, []byte("hi"), 1, nil}

(the real encoder was run on it: same bytes as `exOut` / `exOutPlain`) -/

def exInner : GoType :=
  .struct (ascii "Inner") [(⟨ascii "A", [], false, true⟩, .int .int), (⟨ascii "B", ascii "b,omitempty", false, true⟩, .string)]

def exFields : List (FieldInfo × GoType) := [
  (⟨ascii "Inner", [], true, true⟩, exInner),
  (⟨ascii "A", ascii "a", false, true⟩, .string),
  (⟨ascii "N", ascii "n,string", false, true⟩, .int .int64),
  (⟨ascii "P", ascii ",omitempty", false, true⟩, .ptr .bool),
  (⟨ascii "M", [], false, true⟩, .map (.int .int8) .string),
  (⟨ascii "S", ascii "<s>", false, true⟩, .slice (.uint .uint8)),
  (⟨ascii "x", [], false, false⟩, .int .int),
  (⟨ascii "Z", ascii "-", false, true⟩, .iface)]

def exT : GoType := .struct (ascii "T") exFields

def exV : GoVal := .struct [.struct [.int 7, .str []], .str (ascii "x<y"), .int (-12), .nil,
  .map [(.int 10, .str (ascii "t")), (.int (-1), .str []), (.int 9, .str (ascii "n"))], .bytes (ascii "hi"), .int 1, .nil]

def exOut : Bytes := ascii "{\"A\":7,\"a\":\"x\\u003cy\",\"n\":\"-12\",\"M\":{\"-1\":\"\",\"10\":\"t\",\"9\":\"n\"},\"\\u003cs\\u003e\":\"aGk=\"}"
def exOutPlain : Bytes := ascii "{\"A\":7,\"a\":\"x<y\",\"n\":\"-12\",\"M\":{\"-1\":\"\",\"10\":\"t\",\"9\":\"n\"},\"<s>\":\"aGk=\"}"

set_option maxRecDepth 100000 in
example : exT.wf = true ∧ exV.hasType exT = true := by decide +kernel

set_option maxRecDepth 100000 in
example : marshalTyped true exT exV = some exOut ∧ marshalTyped false exT exV = some exOutPlain := by decide +kernel

/-! ### the output is one RFC 8259 text -/

/-- `hasType` values carry well-formed dynamic types -/
theorem hasType_typesWf : ∀ (t : GoType) (v : GoVal), v.hasType t = true → v.typesWf = true :=
  Typed.hasType_typesWf

/-- whatever `MarshalEscaped` returns for a typed value is one well-formed JSON text: the reference
parser reads it (to the tree `typedCst`, which the encoder prints) -/
theorem typed_wellformed (esc : Bool) (t : GoType) (v : GoVal) (bs : Bytes)
    (ht : t.wf = true) (hv : v.hasType t = true) (hd : v.depth ≤ maxDepth)
    (h : marshalTyped esc t v = some bs) : ∃ c, parseCst bs = some c := by
  obtain ⟨c, _, _, hp⟩ := typed_wellformed_cst esc t v bs ht (hasType_typesWf t v hv) hd h
  exact ⟨c, hp⟩

/-- the same with the tree named: it is `typedCst`, and the bytes are its printed form -/
theorem typed_wellformed_tree (esc : Bool) (t : GoType) (v : GoVal) (bs : Bytes)
    (ht : t.wf = true) (hv : v.typesWf = true) (hd : v.depth ≤ maxDepth)
    (h : marshalTyped esc t v = some bs) :
    ∃ c, typedCst esc t v = some c ∧ bs = Cst.print c ∧ parseCst bs = some c :=
  typed_wellformed_cst esc t v bs ht hv hd h

set_option maxRecDepth 100000 in
example : ∃ c, parseCst exOut = some c :=
  typed_wellformed true exT exV exOut (by decide +kernel) (by decide +kernel) (by decide +kernel) (by decide +kernel)

/-! ### struct members: exactly the present fields of `typeFields`, in order, no name twice -/

/-- `typeFields` yields pairwise distinct names (one dominant field per name, or none) -/
theorem typeFields_nodup (t : GoType) : ((typeFields t).map Fld.name).Nodup := Typed.typeFields_nodup t

set_option maxRecDepth 100000 in
example : (typeFields exT).map Fld.name = [ascii "A", ascii "b", ascii "a", ascii "n", ascii "P", ascii "M", ascii "<s>"] := by
  decide +kernel

/-- The output of a struct value is an object whose member names are, in this order, the names
of the fields of `typeFields t` that are present (`present`: the index path meets no nil embedded
pointer and the value is not an empty one dropped by `omitempty`), spelled by `nameBody esc`
(the name itself; HTML-escaped when `esc`); the field names behind them are pairwise distinct. -/
theorem typed_struct_fields (esc : Bool) (n : Bytes) (fs : List (FieldInfo × GoType)) (v : GoVal) (bs : Bytes)
    (ht : (GoType.struct n fs).wf = true) (hv : v.typesWf = true) (hd : v.depth ≤ maxDepth)
    (h : marshalTyped esc (.struct n fs) v = some bs) :
    ∃ ms, parseCst bs = some (.obj ms)
      ∧ ms.map Prod.fst = (presentFields (.struct n fs) v).map (fun f => nameBody esc f.name)
      ∧ (presentFields (.struct n fs) v).Sublist (typeFields (.struct n fs))
      ∧ ((presentFields (.struct n fs) v).map Fld.name).Nodup := by
  obtain ⟨c, hc, _, hp⟩ := typed_wellformed_cst esc _ v bs ht hv hd h
  obtain ⟨ms, rfl, hms⟩ := typedCst_struct esc n fs v c hc
  exact ⟨ms, hp, hms, presentFields_sublist _ v, presentFields_nodup _ v⟩

/-- without HTML escaping the member names are literally the field names: no member name occurs twice -/
theorem typed_struct_fields_plain (n : Bytes) (fs : List (FieldInfo × GoType)) (v : GoVal) (bs : Bytes)
    (ht : (GoType.struct n fs).wf = true) (hv : v.typesWf = true) (hd : v.depth ≤ maxDepth)
    (h : marshalTyped false (.struct n fs) v = some bs) :
    ∃ ms, parseCst bs = some (.obj ms)
      ∧ ms.map Prod.fst = (presentFields (.struct n fs) v).map Fld.name
      ∧ (ms.map Prod.fst).Nodup := by
  obtain ⟨ms, hp, hms, _, hnd⟩ := typed_struct_fields false n fs v bs ht hv hd h
  have : ms.map Prod.fst = (presentFields (.struct n fs) v).map Fld.name := by
    rw [hms]; rfl
  exact ⟨ms, hp, this, this ▸ hnd⟩

set_option maxRecDepth 100000 in
example : (presentFields exT exV).map Fld.name = [ascii "A", ascii "a", ascii "n", ascii "M", ascii "<s>"] := by
  decide +kernel

set_option maxRecDepth 100000 in
-- the theorem on the example: the members of `exOutPlain` are named A, a, n, M, <s>, in this order
example : ∃ ms, parseCst exOutPlain = some (.obj ms)
    ∧ ms.map Prod.fst = [ascii "A", ascii "a", ascii "n", ascii "M", ascii "<s>"] := by
  obtain ⟨ms, hp, hn, _⟩ := typed_struct_fields_plain (ascii "T") exFields exV exOutPlain
    (by decide +kernel) (by decide +kernel) (by decide +kernel) (by decide +kernel)
  refine ⟨ms, hp, ?_⟩
  rw [hn]
  decide +kernel

/-! ### omitempty -/

/-- A field of `typeFields t` whose path reaches a value `fv` is written unless it is tagged
`omitempty` and `isEmptyValue fv`; in particular always without the tag.  (`typed_struct_fields`
says that the written fields are the members of the output, in order.) -/
theorem typed_omitempty (t : GoType) (v : GoVal) (f : Fld) (fv : GoVal) (hf : f ∈ typeFields t)
    (hw : walk f.index v = .val fv) :
    (f ∈ presentFields t v ↔ ¬ (f.omitEmpty = true ∧ isEmptyValue (typeByIndex t f.index) fv = true))
    ∧ (f.omitEmpty = false → f ∈ presentFields t v) := by
  have h1 : f ∈ presentFields t v ↔ ¬ (f.omitEmpty = true ∧ isEmptyValue (typeByIndex t f.index) fv = true) := by
    rw [mem_presentFields, present_iff t v f fv hw]
    exact ⟨fun h => h.2, fun h => ⟨hf, h⟩⟩
  refine ⟨h1, fun ho => h1.mpr ?_⟩
  rintro ⟨h, _⟩
  rw [ho] at h; cases h

/-- on the bytes (escaping off, so that names are spelled literally): the member named `f.name` is
absent iff the field is tagged `omitempty` and its value is empty -/
theorem typed_omitempty_bytes (n : Bytes) (fs : List (FieldInfo × GoType)) (v : GoVal) (bs : Bytes)
    (ht : (GoType.struct n fs).wf = true) (hv : v.typesWf = true) (hd : v.depth ≤ maxDepth)
    (h : marshalTyped false (.struct n fs) v = some bs)
    (f : Fld) (fv : GoVal) (hf : f ∈ typeFields (.struct n fs)) (hw : walk f.index v = .val fv) :
    ∃ ms, parseCst bs = some (.obj ms) ∧
      (f.name ∉ ms.map Prod.fst ↔ (f.omitEmpty = true ∧ isEmptyValue (typeByIndex (.struct n fs) f.index) fv = true)) := by
  obtain ⟨ms, hp, hms, _⟩ := typed_struct_fields_plain n fs v bs ht hv hd h
  refine ⟨ms, hp, ?_⟩
  rw [hms, name_mem_present _ v f hf, present_iff _ v f fv hw]
  exact Decidable.not_not

/-- a nil embedded pointer on the path drops the field -/
theorem typed_nil_embedded (t : GoType) (v : GoVal) (f : Fld) (hw : walk f.index v = .skip) : f ∉ presentFields t v := by
  rw [mem_presentFields]
  rintro ⟨_, hp⟩
  simp only [present, hw] at hp
  cases hp

set_option maxRecDepth 100000 in
-- `b` (empty, omitempty) and `P` (nil, omitempty) are absent; `M` would be present even if empty
example : ascii "b" ∉ (presentFields exT exV).map Fld.name ∧ ascii "P" ∉ (presentFields exT exV).map Fld.name
    ∧ ascii "M" ∈ (presentFields exT exV).map Fld.name := by decide +kernel

/-! ### maps: members sorted by key text -/

/-- The output of a (non-nil) map is an object whose member names are the texts of the keys
(`keyText`: the string itself, or the integer in decimal), sorted bytewise, each spelled by
`e.string` (`quoteBody esc`). -/
theorem typed_map_sorted (esc : Bool) (k : KeyType) (e : GoType) (ms : List (MapKey × GoVal)) (bs : Bytes)
    (ht : (GoType.map k e).wf = true) (hv : (GoVal.map ms).typesWf = true) (hd : (GoVal.map ms).depth ≤ maxDepth)
    (h : marshalTyped esc (.map k e) (.map ms) = some bs) :
    ∃ (members : List (Bytes × Cst)) (keys : List Bytes), parseCst bs = some (.obj members)
      ∧ members.map Prod.fst = keys.map (quoteBody esc)
      ∧ keys.Perm (ms.map (fun p => keyText p.1))
      ∧ keys.Pairwise (fun a b => bytesLt b a = false) := by
  obtain ⟨c, hc, _, hp⟩ := typed_wellformed_cst esc _ _ bs ht hv hd h
  obtain ⟨members, keys, rfl, h1, h2, h3⟩ := typedCst_map esc k e ms c hc
  exact ⟨members, keys, hp, h1, h2, h3⟩

set_option maxRecDepth 100000 in
-- the theorem on a concrete map: whatever the members are, their names are a sorted permutation of the key texts
example : ∃ (members : List (Bytes × Cst)) (keys : List Bytes),
    parseCst (ascii "{\"-1\":\"\",\"10\":\"t\",\"9\":\"n\"}") = some (.obj members)
      ∧ members.map Prod.fst = keys.map (quoteBody true)
      ∧ keys.Perm [ascii "10", ascii "-1", ascii "9"] ∧ keys.Pairwise (fun a b => bytesLt b a = false) :=
  typed_map_sorted true (.int .int8) .string
    [(.int 10, .str (ascii "t")), (.int (-1), .str []), (.int 9, .str (ascii "n"))] _
    (by decide +kernel) (by decide +kernel) (by decide +kernel) (by decide +kernel)

set_option maxRecDepth 100000 in
-- map[int8]string{10: "t", -1: "", 9: "n"}: "-1" < "10" < "9"
example : marshalTyped true (.map (.int .int8) .string)
      (.map [(.int 10, .str (ascii "t")), (.int (-1), .str []), (.int 9, .str (ascii "n"))])
    = some (ascii "{\"-1\":\"\",\"10\":\"t\",\"9\":\"n\"}") := by decide +kernel

/-! ### nil ⇒ `null` -/

/-- a nil slice, map, pointer or interface is written as `null`, whatever the element type -/
theorem typed_nil_null (esc : Bool) (t : GoType) (ht : t.nilable = true) :
    marshalTyped esc t .nil = some (ascii "null") := by
  cases t <;> simp only [GoType.nilable, Bool.false_eq_true] at ht
  · rename_i e
    simp only [marshalTyped, GoVal.height, enc, encT]
    cases e.isUint8 <;> rfl
  · rfl
  · rfl
  · rfl

/-- and so is a nil member or element inside another value (here: one level; the encoders are
compositional) -/
theorem typed_nil_null_elem (esc : Bool) (fuel : Nat) (q : Bool) (t : GoType) (ht : t.nilable = true) :
    enc esc (fuel + 1) q t .nil = some (ascii "null") := by
  cases t <;> simp only [GoType.nilable, Bool.false_eq_true] at ht
  · rename_i e
    simp only [enc, encT]
    cases e.isUint8 <;> rfl
  · rfl
  · rfl
  · rfl

example : marshalTyped true (.ptr exT) .nil = some (ascii "null") := typed_nil_null true _ rfl

/-! ### the HTML-escape switch changes only spelling

As first stated — both outputs parse to trees with EQUAL `valueOf` — this is false, in the model and
in the real encoder (and in Go's standard library, which the fork copies here): a field of kind
`string` with the `string` option is marshalled twice (`stringEncoder`: `e2.string(s, escapeHTML)`,
then `e.stringBytes(e2.Bytes(), false)`), so the VALUE of the outer JSON string is the inner text,
`"\u003c"` with escaping and `"<"` without: two spellings of one string, but two different values
of the member.  Witness (run against the real code: fork and encoding/json print the same):
`struct{ S string `json:",string"` }{"<"}` gives `{"S":"\"\\u003c\""}` resp. `{"S":"\"<\""}`.

What holds, for all types and values: the two outputs fail together, and when they succeed the two
values are related by `escRel` — same shape, same literals, same member names (as decoded strings),
same strings, except that at a twice-marshalled string the two values are `goString true s` and
`goString false s` for one `s` (`reqEq`).  Where no such string occurs (`noRequote`), they are equal. -/

/-- the statement as first written: refuted by `typed_escape_irrelevant_counterexample` -/
def typed_escape_irrelevantGoal : Prop :=
  ∀ (t : GoType) (v : GoVal) (bs1 bs0 : Bytes), t.wf = true → v.typesWf = true → v.depth ≤ maxDepth →
    marshalTyped true t v = some bs1 → marshalTyped false t v = some bs0 →
    ∃ c1 c0, parseCst bs1 = some c1 ∧ parseCst bs0 = some c0 ∧ c1.valueOf = c0.valueOf

set_option maxRecDepth 100000 in
theorem typed_escape_irrelevant_counterexample : ¬ typed_escape_irrelevantGoal := by
  intro hg
  obtain ⟨c1, c0, h1, h0, he⟩ := hg ceType ceVal ceOut1 ceOut0 (by decide +kernel) (by decide +kernel) (by decide +kernel)
    ce_marshal1 ce_marshal0
  have p1 := ce_probe1
  have p0 := ce_probe0
  rw [h1] at p1
  rw [h0] at p0
  simp only [Option.map_some, Option.some.injEq] at p1 p0
  rw [he, p0] at p1
  exact absurd p1 (by decide)

/-- what is missing for the goal is exactly the twice-marshalled strings: the values are equal up
to `escRel` -/
theorem typed_escape_irrelevant_partial (t : GoType) (v : GoVal) (bs1 bs0 : Bytes)
    (ht : t.wf = true) (hv : v.typesWf = true) (hd : v.depth ≤ maxDepth)
    (h1 : marshalTyped true t v = some bs1) (h0 : marshalTyped false t v = some bs0) :
    ∃ c1 c0, parseCst bs1 = some c1 ∧ parseCst bs0 = some c0 ∧ escRel c1.valueOf c0.valueOf :=
  typed_escape_rel t v bs1 bs0 ht hv hd h1 h0

/-- the switch never decides between success and failure -/
theorem typed_escape_same_outcome (t : GoType) (v : GoVal) (ht : t.wf = true) (hv : v.typesWf = true) :
    (marshalTyped true t v).isSome = (marshalTyped false t v).isSome :=
  Typed.typed_escape_same_outcome t v ht hv

/-- the goal itself, wherever the escaped output contains no twice-marshalled string whose inner
spelling depends on the switch -/
theorem typed_escape_irrelevant_unquoted (t : GoType) (v : GoVal) (bs1 bs0 : Bytes)
    (ht : t.wf = true) (hv : v.typesWf = true) (hd : v.depth ≤ maxDepth)
    (h1 : marshalTyped true t v = some bs1) (h0 : marshalTyped false t v = some bs0)
    (hn : ∀ c1, parseCst bs1 = some c1 → noRequote c1.valueOf) :
    ∃ c1 c0, parseCst bs1 = some c1 ∧ parseCst bs0 = some c0 ∧ c1.valueOf = c0.valueOf := by
  obtain ⟨c1, c0, p1, p0, hr⟩ := typed_escape_rel t v bs1 bs0 ht hv hd h1 h0
  exact ⟨c1, c0, p1, p0, escRel_eq_of_no_requote _ _ hr (hn c1 p1)⟩

set_option maxRecDepth 100000 in
-- the example type: `{"A":7,"a":"x\u003cy",…}` against `{"A":7,"a":"x<y",…}`
example : ∃ c1 c0, parseCst exOut = some c1 ∧ parseCst exOutPlain = some c0 ∧ escRel c1.valueOf c0.valueOf :=
  typed_escape_irrelevant_partial exT exV exOut exOutPlain (by decide +kernel) (by decide +kernel) (by decide +kernel)
    (by decide +kernel) (by decide +kernel)

/-! ### the model's own devices never show: fuel and the defensive `none`s

`enc` is fuelled and written defensively (`none` for a value that is not of the encoder's type, for an
index path that leaves the value).  On `hasType` values none of this is reachable: `marshalTyped`
fails ONLY because of an invalid `json.Number` (`numsOk`), more fuel changes nothing, and the fuel
of the breadth-first search of `typeFields` (`t.depth + 1` levels) never cuts the search short. -/

/-- `Marshal` of a well-typed value whose `json.Number`s are valid literals succeeds -/
theorem typed_total (esc : Bool) (t : GoType) (v : GoVal) (ht : v.hasType t = true) (hn : numsOk t v = true) :
    (marshalTyped esc t v).isSome = true :=
  Typed.typed_total esc t v ht hn

/-- an error of `Marshal` on a well-typed value means: some `json.Number` in it is not a number literal -/
theorem typed_error_is_number (esc : Bool) (t : GoType) (v : GoVal) (ht : v.hasType t = true)
    (h : marshalTyped esc t v = none) : numsOk t v = false :=
  Typed.typed_none_numsOk esc t v ht h

/-- more fuel than `marshalTyped` supplies changes nothing -/
theorem typed_fuel_irrelevant (esc : Bool) (t : GoType) (v : GoVal) (bs : Bytes) (k : Nat)
    (h : marshalTyped esc t v = some bs) : enc esc (v.height + 1 + k) false t v = some bs :=
  enc_fuel_le esc false t v bs k (v.height + 1) h

/-- the search of `typeFields` reaches its fixpoint within the fuel it is given -/
theorem typeFields_fuel_irrelevant (t : GoType) (fuel : Nat) (h : t.depth < fuel) :
    bfs fuel [rootFld t] [] [] [] = rawFields t :=
  bfs_fuel_irrelevant t fuel h

/-- every index path of `typeFields` stays inside the struct type (`typeByIndex` never falls off) -/
theorem typeFields_paths_valid (n : Bytes) (fs : List (FieldInfo × GoType)) :
    ∀ f ∈ typeFields (.struct n fs), pathOk (.struct n fs) f.index = true :=
  typeFields_pathOk_struct n fs

set_option maxRecDepth 100000 in
example : (marshalTyped true exT exV).isSome = true :=
  typed_total true exT exV (by decide +kernel) (by decide +kernel)

/-! ### agreement with the existing model on dynamic values -/

/-- On the values both models describe — `interface{}` trees of nil, bool, `json.Number`,
string, `[]interface{}`, `map[string]interface{}` — the typed model computes what the model of
`JP/Codec/Encode.lean` computes (bytes, or an error for an invalid `Number`). -/
theorem typed_agrees_with_untyped (esc : Bool) (v : Value) :
    marshalTyped esc .iface (ofValue v) = outcomeBytes (Enc.marshalEscaped esc (Enc.anyToGo v)) :=
  Typed.typed_agrees_with_untyped esc v

end JP.C17
