import JP.Props.C01
import JP.Lemmas.LawsOps
import JP.Lemmas.LawsEnsure
import JP.Lemmas.OrderOps

/-!
# C01 — laws of the RFC 6902 specification (`Spec.applyOp`, `Spec.applyFrom`, `Spec.apply`)

The specification is the oracle of C01 / C05 / C08 / C13 / C14 / C18: it is read, not proved.
This module states what RFC 6902's prose implies about evaluation as theorems about the
specification, for all documents, pointers, values and options, so that a slip in the
specification itself would show as a law that cannot be proved.  Every law is stated with the
side conditions under which it is true of the dialect (DESIGN Appendix A); where a plausible law
is false, a `…_counterexample` theorem holds the concrete witness and the comment says whether
that is the dialect's documented behaviour.

Conventions.
* A pointer with at least one token is written `ts ++ [t]`: the tokens `ts` lead to the parent,
  `t` is the member name or the index.  `Laws.parent o doc ts` is the container the specification's
  own walk reaches by `ts`; `withParent o doc ts p'` is the document with that container replaced.
* A token "denotes the integer `i`" when `Spec.classify t = .int i` (the canonical decimal
  spelling; decidable, `decide +kernel` on a concrete token).
* `twoOps` evaluates two operations one after the other at the level of `Spec.applyOp`.

Laws (numbers of the brief):
 1. `applyFrom_append`, `applyFrom_shift`, `apply_append`, `apply_append_nolimit`,
    `apply_append_ok`, `apply_append_fail`, `apply_append_unspec`;
 2. `apply_nil`, `apply_singleton`;
 3. `add_then_remove_member`, `add_then_remove_index`, `add_dash_then_remove_len`;
 4. `remove_then_add_array`, `remove_then_add_member`;
 5. `replace_eq_remove_add_array`, `replace_eq_remove_add_array_of_exists`,
    `replace_eqv_remove_add_member` (+ counterexamples: order, duplicates);
 6. `add_dash_eq_add_len` (every option setting);
 7. `neg_index_remove`, `neg_index_replace`, `neg_index_test`, `neg_index_get`, `neg_index_add`
    (every setting of the other options), `neg_off_fails` (+ counterexample: `remove` under
    AllowMissingPathOnRemove);
 8. `test_pure`, `test_outcome`, `first_failure`, `test_unequal_fails_patch`, `test_unequal_fails_apply`;
 9. `copy_eq_add_get`, `copy_over_limit`, `move_eq_remove_add_seq` (+ counterexamples: EnsurePathExistsOnAdd,
    root destination);
10. `add_existing_member_eq_replace`, `add_existing_member_eq_replace_or_unspec` (+ counterexample:
    EnsurePathExistsOnAdd with a negative index on the way);
    also: `apply_ok_container` (the result of a patch is an object or an array);
13. `impl_apply_append`.
-/

namespace JP
namespace C01

open Spec
open Laws (parent)

/-! ## vocabulary -/

/-- two operations one after the other (sizes `sz1`, `sz2` of the values they copy) -/
def twoOps (o : Opts) (sz1 sz2 acc : Nat) (doc : Value) (op1 op2 : Op) : Res (Value × Nat) :=
  (applyOp o sz1 acc doc op1).bind fun da => applyOp o sz2 da.2 da.1 op2

/-- the outcome of a one-operation patch whose operation is number `i` -/
def outcomeOf (i : Nat) : Res (Value × Nat) → Outcome
  | .ok da => .ok da.1
  | .fail c => .fail i c
  | .unspec => .unspec

/-- continue with `f` on the resulting document -/
def _root_.JP.Spec.Outcome.andThen (r : Outcome) (f : Value → Outcome) : Outcome :=
  match r with
  | .ok d => f d
  | .fail i c => .fail i c
  | .unspec => .unspec

/-- renumber a failure: operation `j` of a suffix is operation `j + k` of the whole patch -/
def _root_.JP.Spec.Outcome.shift (k : Nat) : Outcome → Outcome
  | .ok d => .ok d
  | .fail j c => .fail (j + k) c
  | .unspec => .unspec

/-- the accumulated copy size after the operations (meaningful where they all succeed) -/
def accFrom (o : Opts) (sizeAt : Nat → Nat) : Nat → Nat → Value → List Op → Nat
  | _, acc, _, [] => acc
  | i, acc, doc, op :: ops =>
    match applyOp o (sizeAt i) acc doc op with
    | .ok (d, acc') => accFrom o sizeAt (i + 1) acc' d ops
    | .fail _ => acc
    | .unspec => acc

/-- any failure becomes a failure with cause `c` -/
def mapFail {α} (c : Cause) : Res α → Res α
  | .ok a => .ok a
  | .fail _ => .fail c
  | .unspec => .unspec

/-- the value at a decoded pointer (`[]` = the whole document), read as `copy` / `move` read -/
def valueAt (o : Opts) (doc : Value) : List Bytes → Res Value
  | [] => .ok doc
  | t :: ts => (atParent o (getIn o false) doc (t :: ts)).bind fun pv => .ok pv.2

/-- the document with the container the tokens `ts` lead to replaced by `p'`, through the
specification's own walk (the walk never looks at the last token: a dummy one is supplied) -/
def withParent (o : Opts) (doc : Value) (ts : List Bytes) (p' : Value) : Res Value :=
  (atParent o (fun _ _ => .ok (p', ())) doc (ts ++ [[]])).bind fun r => .ok r.1

theorem withParent_root (o : Opts) (doc p' : Value) (h : doc.isContainer = true) :
    withParent o doc [] p' = .ok p' := by
  unfold withParent
  rw [List.nil_append, atParent_single_of_container h]
  rfl

/-! ## 2. the empty patch, a one-operation patch -/

theorem apply_nil (o : Opts) (sizeAt : Nat → Nat) (doc : Value) :
    Spec.apply o sizeAt doc [] = if doc.isContainer then .ok doc else .unspec := by
  simp only [Spec.apply, Spec.applyFrom]

theorem apply_singleton (o : Opts) (sizeAt : Nat → Nat) (doc : Value) (op : Op) :
    Spec.apply o sizeAt doc [op] =
      if doc.isContainer then outcomeOf 0 (applyOp o (sizeAt 0) 0 doc op) else .unspec := by
  simp only [Spec.apply, Spec.applyFrom]
  cases applyOp o (sizeAt 0) 0 doc op with
  | ok da => rfl
  | fail c => rfl
  | unspec => rfl

/-! ## 1. sequencing: evaluating `p ++ q` is evaluating `p`, then `q` on its result -/

/-- the general statement, with the index and the accumulator of `Spec.applyFrom` -/
theorem applyFrom_append (o : Opts) (sizeAt : Nat → Nat) :
    ∀ (p q : List Op) (i acc : Nat) (doc : Value),
      Spec.applyFrom o sizeAt i acc doc (p ++ q) =
        (Spec.applyFrom o sizeAt i acc doc p).andThen fun d =>
          Spec.applyFrom o sizeAt (i + p.length) (accFrom o sizeAt i acc doc p) d q := by
  intro p
  induction p with
  | nil =>
    intro q i acc doc
    simp only [List.nil_append, Spec.applyFrom, Outcome.andThen, List.length_nil, Nat.add_zero, accFrom]
  | cons op ops ih =>
    intro q i acc doc
    simp only [List.cons_append, Spec.applyFrom, accFrom]
    cases applyOp o (sizeAt i) acc doc op with
    | ok da =>
      obtain ⟨d, acc'⟩ := da
      simp only
      rw [ih q (i + 1) acc' d]
      simp only [List.length_cons]
      have : i + 1 + ops.length = i + (ops.length + 1) := by omega
      rw [this]
    | fail c => rfl
    | unspec => rfl

/-- a suffix evaluated from index `i + k` is the suffix evaluated from `i` with the sizes read `k`
further on, its failure index moved by `k` -/
theorem applyFrom_shift (o : Opts) (sizeAt : Nat → Nat) (k : Nat) :
    ∀ (q : List Op) (i acc : Nat) (d : Value),
      Spec.applyFrom o sizeAt (i + k) acc d q =
        (Spec.applyFrom o (fun j => sizeAt (j + k)) i acc d q).shift k := by
  intro q
  induction q with
  | nil => intro i acc d; rfl
  | cons op ops ih =>
    intro i acc d
    simp only [Spec.applyFrom]
    cases applyOp o (sizeAt (i + k)) acc d op with
    | ok da =>
      obtain ⟨d', acc'⟩ := da
      simp only
      have : i + k + 1 = i + 1 + k := by omega
      rw [this, ih (i + 1) acc' d']
    | fail c => rfl
    | unspec => rfl

/-- **sequencing** for `Spec.apply`: `p ++ q` is `p`, then `q` on the result of `p`; a failure
inside `q` is reported at `p.length +` its index in `q`; `unspec` propagates from either part -/
theorem apply_append (o : Opts) (sizeAt : Nat → Nat) (doc : Value) (p q : List Op) :
    Spec.apply o sizeAt doc (p ++ q) =
      (Spec.apply o sizeAt doc p).andThen fun d =>
        (Spec.applyFrom o (fun j => sizeAt (j + p.length)) 0 (accFrom o sizeAt 0 0 doc p) d q).shift
          p.length := by
  simp only [Spec.apply]
  cases doc.isContainer with
  | false => rfl
  | true =>
    simp only [if_true]
    rw [applyFrom_append, Nat.zero_add]
    have := applyFrom_shift o sizeAt p.length q 0 (accFrom o sizeAt 0 0 doc p)
    simp only [Nat.zero_add] at this
    cases Spec.applyFrom o sizeAt 0 0 doc p with
    | ok d => simp only [Outcome.andThen]; exact this d
    | fail j c => rfl
    | unspec => rfl

/-! ### results are documents: every operation keeps the root an object or an array -/

theorem removeIn_container {o : Opts} {p : Value} {t : Bytes} {pa : Value × Value}
    (h : removeIn o p t = .ok pa) : pa.1.isContainer = true := by
  cases p with
  | obj ms =>
    simp only [removeIn] at h
    split at h
    · simp only [Res.ok.injEq] at h; subst h; rfl
    · cases h
  | arr xs =>
    simp only [removeIn] at h
    split at h
    · split at h
      · simp only [Res.ok.injEq] at h; subst h; rfl
      · cases h
    · cases h
    · cases h
  | null => simp [removeIn] at h
  | bool b => simp [removeIn] at h
  | num l => simp [removeIn] at h
  | str s => simp [removeIn] at h

/-- a successful walk whose edit returns containers returns a container -/
theorem atParent_container {α} {o : Opts} {f : Value → Bytes → Res (Value × α)}
    (hf : ∀ p t pa, f p t = .ok pa → pa.1.isContainer = true) :
    ∀ (toks : List Bytes) (v d : Value) (a : α), atParent o f v toks = .ok (d, a) → d.isContainer = true :=
  atParent_induct (motive := fun _ _ d _ => d.isContainer = true)
    (fun v t d' a _ h => hf v t (d', a) h)
    (fun _ _ _ _ _ _ _ _ _ _ => rfl)
    (fun _ _ _ _ _ _ _ _ _ _ _ _ => rfl)

theorem ensureAdd_container (o : Opts) (v : Value) :
    ∀ (toks : List Bytes) (c d : Value), ensureAdd o v c toks = .ok d → d.isContainer = true
  | [], c, d, h => by rw [ensureAdd_nil] at h; cases h
  | [t], c, d, h => by
    rw [ensureAdd_single] at h
    obtain ⟨pa, h1, h2⟩ := Res.bind_eq_ok.1 h
    cases h2
    exact Impl.addIn_container h1
  | t :: t2 :: ts, c, d, h => by
    cases c with
    | obj ms =>
      rw [ensureAdd_obj_cons] at h
      split at h
      · split at h
        · obtain ⟨c', _, h2⟩ := Res.bind_eq_ok.1 h; cases h2; rfl
        · cases h
      · obtain ⟨fr, _, h2⟩ := Res.bind_eq_ok.1 h
        obtain ⟨inner, _, h3⟩ := Res.bind_eq_ok.1 h2
        cases h3; rfl
    | arr xs =>
      rw [ensureAdd_arr_cons] at h
      split at h
      · split at h
        · cases h
        · split at h
          · cases h
          · split at h
            · split at h
              · obtain ⟨c', _, h2⟩ := Res.bind_eq_ok.1 h; cases h2; rfl
              · cases h
            · obtain ⟨fr, _, h2⟩ := Res.bind_eq_ok.1 h
              obtain ⟨inner, _, h3⟩ := Res.bind_eq_ok.1 h2
              cases h3; rfl
      · cases h
    | null => rw [ensureAdd_cons_of_not_container v rfl] at h; cases h
    | bool b => rw [ensureAdd_cons_of_not_container v rfl] at h; cases h
    | num l => rw [ensureAdd_cons_of_not_container v rfl] at h; cases h
    | str s => rw [ensureAdd_cons_of_not_container v rfl] at h; cases h

/-- one operation keeps the root a container -/
theorem applyOp_container (o : Opts) (sz acc : Nat) (doc : Value) (hdoc : doc.isContainer = true)
    (op : Op) (d : Value) (acc' : Nat)
    (h : applyOp o sz acc doc op = .ok (d, acc')) : d.isContainer = true := by
  have hroot : ∀ (v : Value) (x : Res (Value × Nat)),
      (if v.isContainer then .ok (v, acc) else x) = .ok (d, acc') → (∀ y, x ≠ .ok y) → d.isContainer = true := by
    intro v x hx hn
    cases hv : v.isContainer with
    | true => rw [hv] at hx; simp only [if_true, Res.ok.injEq, Prod.mk.injEq] at hx; rw [← hx.1]; exact hv
    | false => rw [hv] at hx; exact absurd hx (hn _)
  have hadd : ∀ (v dd : Value) (toks : List Bytes) (u : Unit),
      atParent o (addIn o v) dd toks = .ok (d, u) → d.isContainer = true :=
    fun v dd toks u hh => atParent_container (fun _ _ _ hh => Impl.addIn_container hh) _ _ _ _ hh
  cases hp : parsePointer op.path with
  | none => exact absurd h (applyOp_badPointer_ne_ok hp _)
  | some path =>
    cases hk : op.kind with
    | add =>
      cases hv : op.value with
      | none => rw [applyOp_add_none hp hk hv] at h; cases h
      | some v =>
        cases path with
        | nil =>
          rw [applyOp_add_root hp hk hv] at h
          exact hroot v _ h (by intro y; split <;> simp)
        | cons t ts =>
          rw [applyOp_add_cons hp hk hv] at h
          split at h
          · obtain ⟨d1, h1, h2⟩ := Res.bind_eq_ok.1 h
            cases h2
            exact ensureAdd_container o v _ _ _ h1
          · obtain ⟨⟨d1, u⟩, h1, h2⟩ := Res.bind_eq_ok.1 h
            cases h2
            exact hadd _ _ _ _ h1
    | remove =>
      cases path with
      | nil => rw [applyOp_remove_root hp hk] at h; cases h
      | cons t ts =>
        obtain ⟨_, ⟨_, _, rfl⟩ | ⟨old, hrem⟩⟩ := applyOp_remove_ok hp hk h
        · exact hdoc
        · exact atParent_container (fun _ _ _ hh => removeIn_container hh) _ _ _ _ hrem
    | replace =>
      cases hv : op.value with
      | none => rw [applyOp_replace_none hp hk hv] at h; cases h
      | some v =>
        cases path with
        | nil =>
          rw [applyOp_replace_root hp hk hv] at h
          exact hroot v _ h (by intro y; split <;> simp)
        | cons t ts =>
          rw [applyOp_replace_cons hp hk hv] at h
          obtain ⟨⟨d1, u⟩, h1, h2⟩ := Res.bind_eq_ok.1 h
          cases h2
          exact atParent_container (fun _ _ _ hh => Impl.replaceIn_container hh) _ _ _ _ h1
    | move =>
      cases hf : parsePointer op.frm with
      | none => rw [applyOp_move_badFrom hp hk hf] at h; cases h
      | some frm =>
        cases frm with
        | nil => rw [applyOp_move_fromRoot hp hk hf] at h; cases h
        | cons u us =>
          cases path with
          | nil =>
            rw [applyOp_move_toRoot hp hk hf] at h
            obtain ⟨_, _, h2⟩ := Res.bind_eq_ok.1 h
            cases h2
          | cons t ts =>
            rw [applyOp_move_cons hp hk hf] at h
            obtain ⟨⟨d1, v⟩, _, h2⟩ := Res.bind_eq_ok.1 h
            obtain ⟨⟨d2, u2⟩, h3, h4⟩ := Res.bind_eq_ok.1 h2
            cases h4
            exact hadd _ _ _ _ h3
    | copy =>
      cases hf : parsePointer op.frm with
      | none => rw [applyOp_copy_badFrom hp hk hf] at h; cases h
      | some frm =>
        cases path with
        | nil =>
          rw [applyOp_copy_toRoot hp hk hf] at h
          obtain ⟨_, _, h2⟩ := Res.bind_eq_ok.1 h
          cases h2
        | cons t ts =>
          rw [applyOp_copy_cons hp hk hf] at h
          obtain ⟨v, _, h2⟩ := Res.bind_eq_ok.1 h
          obtain ⟨_, _, h3⟩ := Res.bind_eq_ok.1 h2
          split at h3
          · cases h3
          · obtain ⟨⟨d2, u2⟩, h4, h5⟩ := Res.bind_eq_ok.1 h3
            cases h5
            exact hadd _ _ _ _ h4
    | test =>
      obtain ⟨rfl, _⟩ := applyOp_test_ok hk h
      exact hdoc

theorem applyFrom_container (o : Opts) (sizeAt : Nat → Nat) :
    ∀ (ops : List Op) (i acc : Nat) (doc d : Value), doc.isContainer = true →
      Spec.applyFrom o sizeAt i acc doc ops = .ok d → d.isContainer = true := by
  intro ops
  induction ops with
  | nil =>
    intro i acc doc d hdoc h
    simp only [Spec.applyFrom, Outcome.ok.injEq] at h
    rw [← h]; exact hdoc
  | cons op ops ih =>
    intro i acc doc d hdoc h
    simp only [Spec.applyFrom] at h
    cases hop : applyOp o (sizeAt i) acc doc op with
    | ok da =>
      obtain ⟨d1, acc1⟩ := da
      rw [hop] at h
      exact ih (i + 1) acc1 d1 d (applyOp_container o _ _ doc hdoc op d1 acc1 hop) h
    | fail c => rw [hop] at h; cases h
    | unspec => rw [hop] at h; cases h

/-- **the result of a patch is a document** (an object or an array) -/
theorem apply_ok_container (o : Opts) (sizeAt : Nat → Nat) (doc d : Value) (ops : List Op)
    (h : Spec.apply o sizeAt doc ops = .ok d) : d.isContainer = true := by
  simp only [Spec.apply] at h
  cases hdoc : doc.isContainer with
  | false => rw [hdoc] at h; cases h
  | true =>
    rw [hdoc] at h
    exact applyFrom_container o sizeAt ops 0 0 doc d hdoc h

/-- **sequencing without a copy limit**, entirely in terms of `Spec.apply`: the second half is
evaluated as a patch of its own (sizes read from `p.length` on) and its failure index moved -/
theorem apply_append_nolimit (o : Opts) (hl : o.limit = 0) (sizeAt : Nat → Nat) (doc : Value)
    (p q : List Op) :
    Spec.apply o sizeAt doc (p ++ q) =
      (Spec.apply o sizeAt doc p).andThen fun d =>
        (Spec.apply o (fun j => sizeAt (j + p.length)) d q).shift p.length := by
  rw [apply_append]
  cases hp : Spec.apply o sizeAt doc p with
  | ok d =>
    simp only [Outcome.andThen]
    have hc := apply_ok_container o sizeAt doc d p hp
    simp only [Spec.apply, hc, if_true]
    rw [AllowLemmas.applyFrom_limit0 o hl (fun j => sizeAt (j + p.length)) (fun j => sizeAt (j + p.length))
      q 0 (accFrom o sizeAt 0 0 doc p) 0 d]
  | fail j c => rfl
  | unspec => rfl

/-- both halves succeed: so does the whole, with the result of the second half -/
theorem apply_append_ok (o : Opts) (hl : o.limit = 0) (sizeAt : Nat → Nat) (doc d d' : Value)
    (p q : List Op) (h1 : Spec.apply o sizeAt doc p = .ok d)
    (h2 : Spec.apply o (fun j => sizeAt (j + p.length)) d q = .ok d') :
    Spec.apply o sizeAt doc (p ++ q) = .ok d' := by
  rw [apply_append_nolimit o hl, h1]
  simp only [Outcome.andThen, h2, Outcome.shift]

/-- a failure inside the second half is reported at `p.length +` its index there -/
theorem apply_append_fail (o : Opts) (hl : o.limit = 0) (sizeAt : Nat → Nat) (doc d : Value)
    (p q : List Op) (i : Nat) (c : Cause) (h1 : Spec.apply o sizeAt doc p = .ok d)
    (h2 : Spec.apply o (fun j => sizeAt (j + p.length)) d q = .fail i c) :
    Spec.apply o sizeAt doc (p ++ q) = .fail (i + p.length) c := by
  rw [apply_append_nolimit o hl, h1]
  simp only [Outcome.andThen, h2, Outcome.shift]

/-- a failure inside the first half is the failure of the whole -/
theorem apply_append_fail_left (o : Opts) (sizeAt : Nat → Nat) (doc : Value) (p q : List Op) (i : Nat)
    (c : Cause) (h1 : Spec.apply o sizeAt doc p = .fail i c) :
    Spec.apply o sizeAt doc (p ++ q) = .fail i c := by
  rw [apply_append, h1]; rfl

/-- `unspec` propagates from either half -/
theorem apply_append_unspec (o : Opts) (hl : o.limit = 0) (sizeAt : Nat → Nat) (doc : Value)
    (p q : List Op)
    (h : Spec.apply o sizeAt doc p = .unspec ∨
      ∃ d, Spec.apply o sizeAt doc p = .ok d ∧ Spec.apply o (fun j => sizeAt (j + p.length)) d q = .unspec) :
    Spec.apply o sizeAt doc (p ++ q) = .unspec := by
  rw [apply_append_nolimit o hl]
  rcases h with h | ⟨d, h1, h2⟩
  · rw [h]; rfl
  · rw [h1]; simp only [Outcome.andThen, h2, Outcome.shift]

/-! ## 8. `test` is pure -/

/-- a passing `test` leaves the document (and the accumulated copy size) as it was -/
theorem test_pure (o : Opts) (sz acc acc' : Nat) (doc d : Value) (path : Bytes) (w : Option Value)
    (h : applyOp o sz acc doc { kind := .test, path := path, value := w } = .ok (d, acc')) :
    d = doc ∧ acc' = acc :=
  applyOp_test_ok (op := { kind := .test, path := path, value := w }) rfl h

/-- what a `test` answers, given the value at its location (`getIn … true`: an absent member of
an existing object reads as null; a missing `value` member compares as null): it passes exactly
when the two are `eqv`; it fails with `testUnequal` when they are not even numerically equal -/
theorem test_outcome (o : Opts) (sz acc : Nat) (doc d v : Value) (path : Bytes) (w : Option Value)
    (ts : List Bytes) (t : Bytes) (hp : parsePointer path = some (ts ++ [t]))
    (hread : atParent o (getIn o true) doc (ts ++ [t]) = .ok (d, v)) :
    applyOp o sz acc doc { kind := .test, path := path, value := w } =
      if Value.eqv v (w.getD .null) then .ok (doc, acc)
      else if numEqv v (w.getD .null) then .unspec
      else .fail .testUnequal := by
  rw [Laws.applyOp_test_toks hp (Laws.append_singleton_ne_nil ts t), hread]
  simp only [Res.bind, testEq]
  by_cases h1 : Value.eqv v (w.getD .null) = true
  · simp only [h1, if_true]
  · by_cases h2 : numEqv v (w.getD .null) = true
    · simp only [h1, h2, if_true, Bool.false_eq_true, if_false]
    · simp only [h1, h2, Bool.false_eq_true, if_false]

/-- the first operation that fails fails the patch, at its index, with its cause -/
theorem first_failure (o : Opts) (sizeAt : Nat → Nat) (i acc : Nat) (doc : Value) (op : Op)
    (ops : List Op) (c : Cause) (h : applyOp o (sizeAt i) acc doc op = .fail c) :
    Spec.applyFrom o sizeAt i acc doc (op :: ops) = .fail i c := by
  simp only [Spec.applyFrom, h]

/-- a `test` whose location holds a different value fails the patch with `testUnequal`, at the
index of the `test` -/
theorem test_unequal_fails_patch (o : Opts) (sizeAt : Nat → Nat) (i acc : Nat) (doc d v : Value)
    (path : Bytes) (w : Option Value) (ts : List Bytes) (t : Bytes)
    (hp : parsePointer path = some (ts ++ [t]))
    (hread : atParent o (getIn o true) doc (ts ++ [t]) = .ok (d, v))
    (hne : Value.eqv v (w.getD .null) = false) (hnum : numEqv v (w.getD .null) = false)
    (ops : List Op) :
    Spec.applyFrom o sizeAt i acc doc ({ kind := .test, path := path, value := w } :: ops) =
      .fail i .testUnequal := by
  apply first_failure
  rw [test_outcome o _ acc doc d v path w ts t hp hread, hne, hnum]
  rfl

/-- the same inside a patch, for `Spec.apply`: after a successful prefix `p`, a `test` that finds a
different value fails the whole patch at index `p.length` with `testUnequal`, whatever follows -/
theorem test_unequal_fails_apply (o : Opts) (sizeAt : Nat → Nat) (doc d d' v : Value)
    (p q : List Op) (path : Bytes) (w : Option Value) (ts : List Bytes) (t : Bytes)
    (h1 : Spec.apply o sizeAt doc p = .ok d)
    (hp : parsePointer path = some (ts ++ [t]))
    (hread : atParent o (getIn o true) d (ts ++ [t]) = .ok (d', v))
    (hne : Value.eqv v (w.getD .null) = false) (hnum : numEqv v (w.getD .null) = false) :
    Spec.apply o sizeAt doc (p ++ { kind := .test, path := path, value := w } :: q) =
      .fail p.length .testUnequal := by
  rw [apply_append, h1]
  simp only [Outcome.andThen]
  rw [test_unequal_fails_patch o _ 0 _ d d' v path w ts t hp hread hne hnum q]
  simp only [Outcome.shift, Nat.zero_add]

/-! ## 6. `-` is the index equal to the length -/

/-- `add` at the token `-` is `add` at the token that denotes `n`, the length of the array (RFC 6902 §4.1) —
for every option setting, EnsurePathExistsOnAdd included -/
theorem add_dash_eq_add_len (o : Opts) (sz acc : Nat) (doc v : Value)
    (path path' : Bytes) (ts : List Bytes) (t' : Bytes)
    (hp : parsePointer path = some (ts ++ [[45]])) (hp' : parsePointer path' = some (ts ++ [t']))
    (xs : List Value) (hpar : parent o doc ts = .ok (.arr xs))
    (ht' : classify t' = .int (xs.length : Int)) :
    applyOp o sz acc doc { kind := .add, path := path, value := some v } =
      applyOp o sz acc doc { kind := .add, path := path', value := some v } := by
  obtain ⟨b, _, hb⟩ := Laws.applyOp_add_of_parent o doc _ ts hpar
  rw [hb sz acc v [45] path hp, hb sz acc v t' path' hp']
  cases b with
  | true => rfl
  | false =>
    simp only [Bool.false_eq_true, if_false]
    congr 1
    apply Laws.atParent_congr_parent
    intro p hp2
    rw [hpar] at hp2
    cases hp2
    exact Laws.addIn_arr_congr (by rw [Laws.slotIdx_dash, Laws.slotIdx_len ht'])

/-! ## 10. `add` on an existing object member is `replace` -/

/-- RFC 6902 §4.1: "If the target location specifies an object member that does exist, that
member's value is replaced" — and the member keeps its position, as with `replace` -/
theorem add_existing_member_eq_replace (o : Opts) (he : o.ensure = false) (sz acc : Nat) (doc v : Value)
    (path : Bytes) (ts : List Bytes) (t : Bytes) (hp : parsePointer path = some (ts ++ [t]))
    (ms : Value.Members) (hpar : parent o doc ts = .ok (.obj ms)) (old : Value)
    (hl : Value.lookup t ms = some old) :
    applyOp o sz acc doc { kind := .add, path := path, value := some v } =
      applyOp o sz acc doc { kind := .replace, path := path, value := some v } := by
  rw [Laws.applyOp_add_toks hp (Laws.append_singleton_ne_nil _ _) he,
    Laws.applyOp_replace_toks hp (Laws.append_singleton_ne_nil _ _)]
  congr 1
  apply Laws.atParent_congr_parent
  intro p hp2
  rw [hpar] at hp2
  cases hp2
  exact Laws.addIn_eq_replaceIn_obj o v ms t old hl

/-- the same with EnsurePathExistsOnAdd in any position: the two agree, or the `add` is outside the
option's domain (`unspec`: a negative or very large array index on the way to the parent) -/
theorem add_existing_member_eq_replace_or_unspec (o : Opts) (sz acc : Nat) (doc v : Value)
    (path : Bytes) (ts : List Bytes) (t : Bytes) (hp : parsePointer path = some (ts ++ [t]))
    (ms : Value.Members) (hpar : parent o doc ts = .ok (.obj ms)) (old : Value)
    (hl : Value.lookup t ms = some old) :
    applyOp o sz acc doc { kind := .add, path := path, value := some v } =
        applyOp o sz acc doc { kind := .replace, path := path, value := some v } ∨
      applyOp o sz acc doc { kind := .add, path := path, value := some v } = .unspec := by
  obtain ⟨b, _, hb⟩ := Laws.applyOp_add_of_parent o doc _ ts hpar
  rw [hb sz acc v t path hp]
  cases b with
  | true => exact Or.inr rfl
  | false =>
    left
    simp only [Bool.false_eq_true, if_false]
    rw [Laws.applyOp_replace_toks hp (Laws.append_singleton_ne_nil _ _)]
    congr 1
    apply Laws.atParent_congr_parent
    intro p hp2
    rw [hpar] at hp2
    cases hp2
    exact Laws.addIn_eq_replaceIn_obj o v ms t old hl

/-- with EnsurePathExistsOnAdd the plain equation is FALSE where the way to the parent uses a
negative index: the option's specification leaves such an `add` open (`unspec`, Appendix A.2:
"negative or non-canonical indices"), `replace` is unaffected by the option.  Witness
`[{"k":4}]`, pointer of the tokens `-1`, `k`.  Documented domain restriction, not a slip. -/
theorem add_existing_member_ensure_counterexample :
    applyOp { ensure := true } 0 0 (.arr [.obj [(ascii "k", .num (ascii "4"))]])
        { kind := .add, path := ascii "/-1/k", value := some .null } = .unspec ∧
    applyOp { ensure := true } 0 0 (.arr [.obj [(ascii "k", .num (ascii "4"))]])
        { kind := .replace, path := ascii "/-1/k", value := some .null } =
      .ok (.arr [.obj [(ascii "k", .null)]], 0) := by
  constructor <;> with_unfolding_all rfl

/-! ## 9. `copy` is `add` of the value at `from`; `move` is `remove` then `add` -/

theorem valueAt_eq_copySrc (o : Opts) (doc : Value) (ftoks : List Bytes) :
    valueAt o doc ftoks = Spec.copySrc o doc ftoks := by
  cases ftoks <;> rfl

/-- RFC 6902 §4.5: `copy` from `f` to `p` is `add` at `p` of the value at `f` (read in the document
as it is: the copy is a value, it shares nothing).  The copied size is charged to the accumulator;
the law holds whenever the charge stays within AccumulatedCopySizeLimit (always, when that is 0). -/
theorem copy_eq_add_get (o : Opts) (he : o.ensure = false) (sz acc : Nat) (doc : Value)
    (path frm : Bytes) (toks ftoks : List Bytes) (hp : parsePointer path = some toks) (hne : toks ≠ [])
    (hf : parsePointer frm = some ftoks) (hlim : ¬ (o.limit > 0 ∧ acc + sz > o.limit)) :
    applyOp o sz acc doc { kind := .copy, path := path, frm := frm } =
      (valueAt o doc ftoks).bind fun v =>
        (applyOp o sz acc doc { kind := .add, path := path, value := some v }).bind fun da =>
          .ok (da.1, acc + sz) := by
  cases toks with
  | nil => exact absurd rfl hne
  | cons t ts =>
    rw [applyOp_copy_cons (op := { kind := .copy, path := path, frm := frm }) hp rfl hf,
      valueAt_eq_copySrc]
    cases Spec.copySrc o doc ftoks with
    | ok v =>
      simp only [Res.bind_ok, if_neg hlim]
      rw [Laws.probe_bind_atParent o (addIn o v) doc (t :: ts) hne,
        Laws.applyOp_add_toks hp hne he]
      cases atParent o (addIn o v) doc (t :: ts) with
      | ok da => rfl
      | fail c => rfl
      | unspec => rfl
    | fail c => rfl
    | unspec => rfl

/-- beyond the limit: where the source can be read and the parent of the destination reached, the
`copy` fails with `copyLimit` (nothing is added) -/
theorem copy_over_limit (o : Opts) (sz acc : Nat) (doc v p : Value)
    (path frm : Bytes) (ts ftoks : List Bytes) (t : Bytes) (hp : parsePointer path = some (ts ++ [t]))
    (hf : parsePointer frm = some ftoks) (hsrc : valueAt o doc ftoks = .ok v)
    (hpar : parent o doc ts = .ok p) (hlim : o.limit > 0 ∧ acc + sz > o.limit) :
    applyOp o sz acc doc { kind := .copy, path := path, frm := frm } = .fail .copyLimit := by
  obtain ⟨t0, ts0, h0⟩ : ∃ t0 ts0, ts ++ [t] = t0 :: ts0 := by
    cases ts with
    | nil => exact ⟨t, [], rfl⟩
    | cons a b => exact ⟨a, b ++ [t], rfl⟩
  rw [h0] at hp
  rw [applyOp_copy_cons (op := { kind := .copy, path := path, frm := frm }) hp rfl hf,
    ← valueAt_eq_copySrc, hsrc, ← h0]
  obtain ⟨k, _, _, _, hedit, _⟩ := Laws.atParent_of_parent hpar
  simp only [Res.bind_ok, hedit (fun p _ => (.ok (p, ()) : Res (Value × Unit))) t, if_pos hlim]

/-- `move` from `f` to `p` is `remove` at `f` followed by `add` at `p` of the removed value
(RFC 6902 §4.4) — `C01.move_eq_remove_add` in the vocabulary of this module -/
theorem move_eq_remove_add_seq (o : Opts) (he : o.ensure = false) (ha : o.allowMissing = false)
    (sz acc : Nat) (doc : Value) (path frm : Bytes) (ft pt : Bytes) (fts pts : List Bytes)
    (hf : parsePointer frm = some (ft :: fts)) (hp : parsePointer path = some (pt :: pts)) :
    applyOp o sz acc doc { kind := .move, path := path, frm := frm } =
      (valueAt o doc (ft :: fts)).bind fun v =>
        twoOps o sz sz acc doc { kind := .remove, path := frm } { kind := .add, path := path, value := some v } := by
  rw [move_eq_remove_add o he ha sz acc doc path frm ft pt fts pts hf hp]
  simp only [valueAt, twoOps]
  cases atParent o (getIn o false) doc (ft :: fts) with
  | ok pv => rfl
  | fail c => rfl
  | unspec => rfl

/-- with EnsurePathExistsOnAdd the law of `copy` is FALSE: the option creates missing parents for
`add` operations only, `copy` (and the `add` half of `move`) still needs its parent.  Witness:
`{"a":1}`, `copy /a → /z/q`.  This is the library's behaviour (`ensurePathExists` is called from
`Patch.add` only) and the option's documented scope ("on add operation"), not a slip. -/
theorem copy_eq_add_get_ensure_counterexample :
    applyOp { ensure := true } 0 0 (.obj [(ascii "a", .num (ascii "1"))])
        { kind := .copy, path := ascii "/z/q", frm := ascii "/a" } = .fail .parentUnreachable ∧
    ((valueAt { ensure := true } (.obj [(ascii "a", .num (ascii "1"))]) [ascii "a"]).bind fun v =>
        (applyOp { ensure := true } 0 0 (.obj [(ascii "a", .num (ascii "1"))])
          { kind := .add, path := ascii "/z/q", value := some v }).bind fun da => .ok (da.1, 0)) =
      .ok (.obj [(ascii "a", .num (ascii "1")), (ascii "z", .obj [(ascii "q", .num (ascii "1"))])], 0) := by
  constructor <;> rfl

/-- with the whole document as destination the law of `copy` is FALSE as well: `add ""` replaces
the root, `copy … → ""` is outside the domain (`unspec`; DESIGN §13.4 lists `""` as the destination
of move / copy among the regions the property text leaves open).  Witness: `{"a":{}}`, `/a → ""`. -/
theorem copy_to_root_counterexample :
    applyOp {} 0 0 (.obj [(ascii "a", .obj [])]) { kind := .copy, path := [], frm := ascii "/a" } = .unspec ∧
    applyOp {} 0 0 (.obj [(ascii "a", .obj [])]) { kind := .add, path := [], value := some (.obj []) } =
      .ok (.obj [], 0) := by
  constructor <;> rfl

/-! ## 3. `add` then `remove` gives the document back -/

/-- adding a NEW member to an object and removing it restores the document exactly (members,
order, literals), whatever AllowMissingPathOnRemove says -/
theorem add_then_remove_member (o : Opts) (he : o.ensure = false) (sz sz' acc : Nat) (doc v : Value)
    (path : Bytes) (ts : List Bytes) (t : Bytes) (hp : parsePointer path = some (ts ++ [t]))
    (ms : Value.Members) (hpar : parent o doc ts = .ok (.obj ms)) (habs : Value.lookup t ms = none) :
    twoOps o sz sz' acc doc { kind := .add, path := path, value := some v } { kind := .remove, path := path } =
      .ok (doc, acc) := by
  obtain ⟨k, _, hk, _, hedit, hafter⟩ := Laws.atParent_of_parent hpar
  obtain ⟨h1, h2⟩ := Laws.addIn_removeIn_obj o v ms t habs
  have hadd : atParent o (addIn o v) doc (ts ++ [t]) = .ok (k (.obj (Value.set t v ms)), ()) := by
    rw [hedit (addIn o v) t, h1]; rfl
  have hrem : atParent o (removeIn o) (k (.obj (Value.set t v ms))) (ts ++ [t]) = .ok (k (.obj ms), v) := by
    rw [hafter _ rfl (removeIn o) t, h2]; rfl
  unfold twoOps
  rw [Laws.applyOp_add_toks hp (Laws.append_singleton_ne_nil _ _) he, hadd]
  simp only [Res.bind_ok]
  rw [Laws.applyOp_remove_of_ok hp hrem, hk]

/-- the array case in general: an element added at the token `t` is removed again by any token
`t'` that denotes, in the longer array, the index of the slot `t` denoted -/
theorem add_then_remove_gen (o : Opts) (he : o.ensure = false) (sz sz' acc acc1 : Nat) (doc d v : Value)
    (path path' : Bytes) (ts : List Bytes) (t t' : Bytes)
    (hp : parsePointer path = some (ts ++ [t])) (hp' : parsePointer path' = some (ts ++ [t']))
    (xs : List Value) (hpar : parent o doc ts = .ok (.arr xs))
    (hidx : ∀ i, slotIdx o.neg xs.length t = .at i → readIdx o.neg (xs.length + 1) t' = .at i)
    (hadd : applyOp o sz acc doc { kind := .add, path := path, value := some v } = .ok (d, acc1)) :
    applyOp o sz' acc1 d { kind := .remove, path := path' } = .ok (doc, acc1) := by
  obtain ⟨k, _, hk, _, hedit, hafter⟩ := Laws.atParent_of_parent hpar
  rw [Laws.applyOp_add_toks hp (Laws.append_singleton_ne_nil _ _) he, hedit (addIn o v) t] at hadd
  obtain ⟨⟨d1, u1⟩, h1, h2⟩ := Res.bind_eq_ok.1 hadd
  obtain ⟨⟨p', u'⟩, h3, h4⟩ := Res.bind_eq_ok.1 h1
  simp only [Res.ok.injEq, Prod.mk.injEq] at h2 h4
  obtain ⟨rfl, rfl⟩ := h2
  obtain ⟨rfl, _⟩ := h4
  have hc : p'.isContainer = true := Impl.addIn_container h3
  have hrem : atParent o (removeIn o) (k p') (ts ++ [t']) = .ok (k (.arr xs), v) := by
    rw [hafter p' hc (removeIn o) t', Laws.addIn_removeIn_arr o v xs t t' p' u' h3 hidx]; rfl
  rw [Laws.applyOp_remove_of_ok hp' hrem, hk]

/-- adding an array element at an index (`0 ≤ i ≤ len`, or a negative index of the dialect) and
removing the element at the same pointer restores the document; the pointer must not end in `-`,
which names no element -/
theorem add_then_remove_index (o : Opts) (he : o.ensure = false) (sz sz' acc acc1 : Nat) (doc d v : Value)
    (path : Bytes) (ts : List Bytes) (t : Bytes) (hp : parsePointer path = some (ts ++ [t]))
    (xs : List Value) (hpar : parent o doc ts = .ok (.arr xs)) (hd : t ≠ [45])
    (hadd : applyOp o sz acc doc { kind := .add, path := path, value := some v } = .ok (d, acc1)) :
    applyOp o sz' acc1 d { kind := .remove, path := path } = .ok (doc, acc1) :=
  add_then_remove_gen o he sz sz' acc acc1 doc d v path path ts t t hp hp xs hpar
    (fun _ hs => (Impl.slot_then_read hs hd).1) hadd

/-- appending with `-` and removing at the index equal to the old length restores the document -/
theorem add_dash_then_remove_len (o : Opts) (he : o.ensure = false) (sz sz' acc acc1 : Nat) (doc d v : Value)
    (path path' : Bytes) (ts : List Bytes) (t' : Bytes)
    (hp : parsePointer path = some (ts ++ [[45]])) (hp' : parsePointer path' = some (ts ++ [t']))
    (xs : List Value) (hpar : parent o doc ts = .ok (.arr xs))
    (ht' : classify t' = .int (xs.length : Int))
    (hadd : applyOp o sz acc doc { kind := .add, path := path, value := some v } = .ok (d, acc1)) :
    applyOp o sz' acc1 d { kind := .remove, path := path' } = .ok (doc, acc1) := by
  refine add_then_remove_gen o he sz sz' acc acc1 doc d v path path' ts [45] t' hp hp' xs hpar ?_ hadd
  intro i hs
  rw [Laws.slotIdx_dash] at hs
  cases hs
  rw [Laws.readIdx_int ht']
  have h0 : (0 : Int) ≤ (xs.length : Int) := by omega
  have h1 : ((xs.length : Int)).toNat = xs.length := by omega
  simp only [h0, if_true, h1, Nat.lt_succ_self]

/-- with `-` in BOTH operations the law is false: `-` denotes the position after the last element,
so `remove` at `-` fails (RFC 6901 §4: "the (nonexistent) member after the last array element").
Witness: `[1]`, `add` of `2` at the pointer slash-dash, then `remove` at the same pointer. -/
theorem add_then_remove_dash_counterexample :
    twoOps {} 0 0 0 (.arr [.num (ascii "1")])
        { kind := .add, path := ascii "/-", value := some (.num (ascii "2")) }
        { kind := .remove, path := ascii "/-" } = .fail .badIndex := by
  rfl

/-! ## 4. `remove`, then `add` of the removed value -/

/-- on an array: removing element `i` and adding the removed value at the same pointer restores the
document (whatever AllowMissingPathOnRemove says) -/
theorem remove_then_add_array (o : Opts) (he : o.ensure = false) (sz sz' acc : Nat) (doc doc' old : Value)
    (path : Bytes) (ts : List Bytes) (t : Bytes) (hp : parsePointer path = some (ts ++ [t]))
    (xs : List Value) (hpar : parent o doc ts = .ok (.arr xs))
    (hold : atParent o (getIn o false) doc (ts ++ [t]) = .ok (doc', old)) :
    twoOps o sz sz' acc doc { kind := .remove, path := path }
        { kind := .add, path := path, value := some old } = .ok (doc, acc) := by
  obtain ⟨k, _, hk, _, hedit, hafter⟩ := Laws.atParent_of_parent hpar
  rw [hedit (getIn o false) t] at hold
  obtain ⟨⟨p1, old1⟩, hget, h2⟩ := Res.bind_eq_ok.1 hold
  simp only [Res.ok.injEq, Prod.mk.injEq] at h2
  obtain ⟨_, rfl⟩ := h2
  have hrel := Impl.removeIn_getIn_strong o (.arr xs) t
  cases hr : removeIn o (.arr xs) t with
  | ok pv =>
    obtain ⟨p', old'⟩ := pv
    rw [hr] at hrel
    simp only at hrel
    rw [hget] at hrel
    simp only [Res.ok.injEq, Prod.mk.injEq] at hrel
    obtain ⟨_, rfl⟩ := hrel
    have hc : p'.isContainer = true := removeIn_container hr
    have hrem : atParent o (removeIn o) doc (ts ++ [t]) = .ok (k p', old1) := by
      rw [hedit (removeIn o) t, hr]; rfl
    have hadd : atParent o (addIn o old1) (k p') (ts ++ [t]) = .ok (k (.arr xs), ()) := by
      rw [hafter p' hc (addIn o old1) t, Laws.removeIn_addIn_arr o xs t p' old1 hr]; rfl
    unfold twoOps
    rw [Laws.applyOp_remove_of_ok hp hrem]
    simp only [Res.bind_ok]
    rw [Laws.applyOp_add_toks hp (Laws.append_singleton_ne_nil _ _) he, hadd, hk]
    rfl
  | fail c => rw [hr] at hrel; simp only at hrel; rw [hget] at hrel; cases hrel
  | unspec => rw [hr] at hrel; simp only at hrel; rw [hget] at hrel; cases hrel

/-- on an object the member comes back at the END: the ordered statement is "erase, then append".
The result is the document with the parent object `ms` replaced by `erase t ms ++ [(t, old)]`. -/
theorem remove_then_add_member (o : Opts) (he : o.ensure = false) (sz sz' acc : Nat) (doc old : Value)
    (path : Bytes) (ts : List Bytes) (t : Bytes) (hp : parsePointer path = some (ts ++ [t]))
    (ms : Value.Members) (hpar : parent o doc ts = .ok (.obj ms)) (hl : Value.lookup t ms = some old) :
    twoOps o sz sz' acc doc { kind := .remove, path := path }
        { kind := .add, path := path, value := some old } =
      (withParent o doc ts (.obj (Value.erase t ms ++ [(t, old)]))).bind fun d' => .ok (d', acc) := by
  obtain ⟨k, _, hk, _, hedit, hafter⟩ := Laws.atParent_of_parent hpar
  obtain ⟨h1, h2⟩ := Laws.removeIn_addIn_obj o ms t old hl
  have hrem : atParent o (removeIn o) doc (ts ++ [t]) = .ok (k (.obj (Value.erase t ms)), old) := by
    rw [hedit (removeIn o) t, h1]; rfl
  have hadd : atParent o (addIn o old) (k (.obj (Value.erase t ms))) (ts ++ [t]) =
      .ok (k (.obj (Value.erase t ms ++ [(t, old)])), ()) := by
    rw [hafter _ rfl (addIn o old) t, h2]; rfl
  unfold twoOps withParent
  rw [Laws.applyOp_remove_of_ok hp hrem]
  simp only [Res.bind_ok]
  rw [Laws.applyOp_add_toks hp (Laws.append_singleton_ne_nil _ _) he, hadd, hedit]
  rfl

/-- the ordered document is NOT restored on objects: the member moves to the end.  Witness
`{"a":1,"b":2}`, `remove /a` then `add /a 1` gives `{"b":2,"a":1}`.  This is the documented
dialect (DESIGN §3.3: new members are appended; `move a→a` re-appends), and the two documents are
`eqv`. -/
theorem remove_then_add_member_order_counterexample :
    twoOps {} 0 0 0 (.obj [(ascii "a", .num (ascii "1")), (ascii "b", .num (ascii "2"))])
        { kind := .remove, path := ascii "/a" }
        { kind := .add, path := ascii "/a", value := some (.num (ascii "1")) } =
      .ok (.obj [(ascii "b", .num (ascii "2")), (ascii "a", .num (ascii "1"))], 0) := by
  rfl

/-! ## 5. `replace` against `remove` then `add` -/

/-- RFC 6902 §4.3: on an ARRAY element `replace` "is functionally identical to a remove operation
for a value, followed immediately by an add operation at the same location with the replacement
value" — also for the failure, up to its cause: where the element does not exist `replace` reports
`absentMember` (the library's ErrMissing), `remove` reports `badIndex` (Appendix A) -/
theorem replace_eq_remove_add_array (o : Opts) (he : o.ensure = false) (ha : o.allowMissing = false)
    (sz sz' acc : Nat) (doc v : Value) (path : Bytes) (ts : List Bytes) (t : Bytes)
    (hp : parsePointer path = some (ts ++ [t]))
    (xs : List Value) (hpar : parent o doc ts = .ok (.arr xs)) :
    applyOp o sz acc doc { kind := .replace, path := path, value := some v } =
      mapFail .absentMember
        (twoOps o sz sz' acc doc { kind := .remove, path := path }
          { kind := .add, path := path, value := some v }) := by
  obtain ⟨k, _, hk, _, hedit, hafter⟩ := Laws.atParent_of_parent hpar
  have hloc := Laws.replaceIn_eq_removeIn_addIn_arr o v xs t
  unfold twoOps
  rw [Laws.applyOp_replace_toks hp (Laws.append_singleton_ne_nil _ _),
    Laws.applyOp_remove_toks hp (Laws.append_singleton_ne_nil _ _) ha,
    hedit (replaceIn o v) t, hedit (removeIn o) t]
  cases hr : removeIn o (.arr xs) t with
  | ok pv =>
    obtain ⟨p', old⟩ := pv
    rw [hr] at hloc
    obtain ⟨q, hq1, hq2⟩ := hloc
    have hc : p'.isContainer = true := removeIn_container hr
    simp only [Res.bind_ok]
    rw [Laws.applyOp_add_toks hp (Laws.append_singleton_ne_nil _ _) he,
      hafter p' hc (addIn o v) t, hq1, hq2]
    rfl
  | fail c => rw [hr] at hloc; rw [hloc]; rfl
  | unspec => rw [hr] at hloc; rw [hloc]; rfl

/-- the same for an element that exists, as a plain equation and whatever
AllowMissingPathOnRemove says -/
theorem replace_eq_remove_add_array_of_exists (o : Opts) (he : o.ensure = false)
    (sz sz' acc : Nat) (doc doc' v old : Value) (path : Bytes) (ts : List Bytes) (t : Bytes)
    (hp : parsePointer path = some (ts ++ [t]))
    (xs : List Value) (hpar : parent o doc ts = .ok (.arr xs))
    (hold : atParent o (getIn o false) doc (ts ++ [t]) = .ok (doc', old)) :
    applyOp o sz acc doc { kind := .replace, path := path, value := some v } =
      twoOps o sz sz' acc doc { kind := .remove, path := path }
        { kind := .add, path := path, value := some v } := by
  obtain ⟨k, _, hk, _, hedit, hafter⟩ := Laws.atParent_of_parent hpar
  have hloc := Laws.replaceIn_eq_removeIn_addIn_arr o v xs t
  rw [hedit (getIn o false) t] at hold
  obtain ⟨⟨p1, old1⟩, hget, _⟩ := Res.bind_eq_ok.1 hold
  have hrel := Impl.removeIn_getIn_strong o (.arr xs) t
  cases hr : removeIn o (.arr xs) t with
  | ok pv =>
    obtain ⟨p', old'⟩ := pv
    rw [hr] at hloc
    obtain ⟨q, hq1, hq2⟩ := hloc
    have hc : p'.isContainer = true := removeIn_container hr
    have hrem : atParent o (removeIn o) doc (ts ++ [t]) = .ok (k p', old') := by
      rw [hedit (removeIn o) t, hr]; rfl
    unfold twoOps
    rw [Laws.applyOp_remove_of_ok hp hrem]
    simp only [Res.bind_ok]
    rw [Laws.applyOp_replace_toks hp (Laws.append_singleton_ne_nil _ _),
      Laws.applyOp_add_toks hp (Laws.append_singleton_ne_nil _ _) he,
      hedit (replaceIn o v) t, hafter p' hc (addIn o v) t, hq1, hq2]
  | fail c => rw [hr] at hrel; simp only at hrel; rw [hget] at hrel; cases hrel
  | unspec => rw [hr] at hrel; simp only at hrel; rw [hget] at hrel; cases hrel

/-- on an OBJECT member `replace` keeps the position while `remove` then `add` moves the member
to the end: the two results are the document with the parent replaced by `set t v ms` and by
`erase t ms ++ [(t, v)]`, and they are equal up to member order (`Value.eqv`) when member names
are duplicate-free (document and value) -/
theorem replace_eqv_remove_add_member (o : Opts) (he : o.ensure = false) (sz sz' acc : Nat)
    (doc v old : Value) (path : Bytes) (ts : List Bytes) (t : Bytes)
    (hp : parsePointer path = some (ts ++ [t]))
    (ms : Value.Members) (hpar : parent o doc ts = .ok (.obj ms)) (hl : Value.lookup t ms = some old)
    (hnd : doc.noDup = true) (hv : v.noDup = true) :
    ∃ d1 d2,
      applyOp o sz acc doc { kind := .replace, path := path, value := some v } = .ok (d1, acc) ∧
      twoOps o sz sz' acc doc { kind := .remove, path := path }
        { kind := .add, path := path, value := some v } = .ok (d2, acc) ∧
      withParent o doc ts (.obj (Value.set t v ms)) = .ok d1 ∧
      withParent o doc ts (.obj (Value.erase t ms ++ [(t, v)])) = .ok d2 ∧
      Value.eqv d1 d2 = true := by
  obtain ⟨k, hn, hk, _, hedit, hafter⟩ := Laws.atParent_of_parent hpar
  obtain ⟨hpnd, hcongr⟩ := Laws.nav_eqv o ts doc (.obj ms) k hn hnd
  rw [Value.noDup_obj] at hpnd
  refine ⟨k (.obj (Value.set t v ms)), k (.obj (Value.erase t ms ++ [(t, v)])), ?_, ?_, ?_, ?_, ?_⟩
  · rw [Laws.applyOp_replace_toks hp (Laws.append_singleton_ne_nil _ _), hedit (replaceIn o v) t]
    simp only [replaceIn, hl]
    rfl
  · have hrem : atParent o (removeIn o) doc (ts ++ [t]) = .ok (k (.obj (Value.erase t ms)), old) := by
      rw [hedit (removeIn o) t, (Laws.removeIn_addIn_obj o ms t old hl).1]; rfl
    unfold twoOps
    rw [Laws.applyOp_remove_of_ok hp hrem]
    simp only [Res.bind_ok]
    rw [Laws.applyOp_add_toks hp (Laws.append_singleton_ne_nil _ _) he,
      hafter _ rfl (addIn o v) t]
    simp only [addIn, Laws.set_erase]
    rfl
  · unfold withParent; rw [hedit]; rfl
  · unfold withParent; rw [hedit]; rfl
  · exact hcongr _ _ (Laws.eqv_set_erase_append hpnd.1 hpnd.2 t v hv)

/-- ordered equality fails on objects.  Witness `{"a":1,"b":2}`, `/a`, value `9`: `replace` gives
`{"a":9,"b":2}`, `remove` then `add` gives `{"b":2,"a":9}`.  Documented dialect (C05: `replace`
keeps the position, created members are appended); RFC 6902 §4.3 speaks of values, and JSON
objects are unordered. -/
theorem replace_remove_add_order_counterexample :
    applyOp {} 0 0 (.obj [(ascii "a", .num (ascii "1")), (ascii "b", .num (ascii "2"))])
        { kind := .replace, path := ascii "/a", value := some (.num (ascii "9")) } =
      .ok (.obj [(ascii "a", .num (ascii "9")), (ascii "b", .num (ascii "2"))], 0) ∧
    twoOps {} 0 0 0 (.obj [(ascii "a", .num (ascii "1")), (ascii "b", .num (ascii "2"))])
        { kind := .remove, path := ascii "/a" }
        { kind := .add, path := ascii "/a", value := some (.num (ascii "9")) } =
      .ok (.obj [(ascii "b", .num (ascii "2")), (ascii "a", .num (ascii "9"))], 0) := by
  constructor <;> rfl

/-- with a REPEATED member name even `eqv` fails: `replace` rewrites the first `a`, `remove` deletes
every `a`.  Witness `{"a":1,"a":2}`.  Repeated names are outside every property's domain (DESIGN
§13.4; RFC 8259 leaves them open), hence the hypothesis `doc.noDup`. -/
theorem replace_remove_add_dup_counterexample :
    applyOp {} 0 0 (.obj [(ascii "a", .num (ascii "1")), (ascii "a", .num (ascii "2"))])
        { kind := .replace, path := ascii "/a", value := some (.num (ascii "9")) } =
      .ok (.obj [(ascii "a", .num (ascii "9")), (ascii "a", .num (ascii "2"))], 0) ∧
    twoOps {} 0 0 0 (.obj [(ascii "a", .num (ascii "1")), (ascii "a", .num (ascii "2"))])
        { kind := .remove, path := ascii "/a" }
        { kind := .add, path := ascii "/a", value := some (.num (ascii "9")) } =
      .ok (.obj [(ascii "a", .num (ascii "9"))], 0) ∧
    Value.eqv (.obj [(ascii "a", .num (ascii "9")), (ascii "a", .num (ascii "2"))])
      (.obj [(ascii "a", .num (ascii "9"))]) = false := by
  refine ⟨?_, ?_, ?_⟩ <;> rfl

/-- where the array element does not exist the two sides fail with DIFFERENT causes (witness: `[1]`
and the pointer slash-dash, which names no element): `replace` says `absentMember`, `remove` says
`badIndex`.  Documented (Appendix A: "absentMember (also for a bad array index: the library
reports ErrMissing here)"); hence `mapFail` in `replace_eq_remove_add_array`. -/
theorem replace_remove_add_cause_counterexample :
    applyOp {} 0 0 (.arr [.num (ascii "1")])
        { kind := .replace, path := [47, 45], value := some .null } = .fail .absentMember ∧
    twoOps {} 0 0 0 (.arr [.num (ascii "1")]) { kind := .remove, path := [47, 45] }
        { kind := .add, path := [47, 45], value := some .null } = .fail .badIndex := by
  constructor <;> rfl

/-- with AllowMissingPathOnRemove the equation fails where the location is absent: the `remove`
is skipped and the `add` then creates the member, `replace` still fails.  Witness `{}`, `/a`.
Documented (C13: the option skips removes of absent targets and nothing else). -/
theorem replace_remove_add_allowMissing_counterexample :
    applyOp { allowMissing := true } 0 0 (.obj [])
        { kind := .replace, path := ascii "/a", value := some .null } = .fail .absentMember ∧
    twoOps { allowMissing := true } 0 0 0 (.obj []) { kind := .remove, path := ascii "/a" }
        { kind := .add, path := ascii "/a", value := some .null } =
      .ok (.obj [(ascii "a", .null)], 0) := by
  constructor <;> rfl

/-! ## 7. negative indices (SupportNegativeIndices)

Against an array of length `n`, with the option on and `1 ≤ k ≤ n`, the token that denotes `-k`
addresses the element `n - k` for `remove` / `replace` / `test` / reading; for `add` (an insertion
slot) `1 ≤ k ≤ n + 1` and `-k` is the slot `n + 1 - k`, so that `-1` appends (Appendix A).  With the
option off every negative index fails. -/

theorem neg_read_congr (o : Opts) (hneg : o.neg = true) (n k : Nat) (hk1 : 1 ≤ k) (hk2 : k ≤ n)
    (t t' : Bytes) (ht : classify t = .int (-(k : Int))) (ht' : classify t' = .int ((n : Int) - (k : Int))) :
    readIdx o.neg n t = readIdx o.neg n t' := by
  rw [hneg]
  obtain ⟨h1, h2⟩ := Laws.readIdx_neg hk1 hk2 ht ht'
  rw [h1, h2]

theorem valueAt_of_ne (o : Opts) (doc : Value) (toks : List Bytes) (hne : toks ≠ []) :
    valueAt o doc toks = (atParent o (getIn o false) doc toks).bind fun pv => .ok pv.2 := by
  cases toks with
  | nil => exact absurd rfl hne
  | cons t ts => rfl

theorem neg_index_remove (o : Opts) (hneg : o.neg = true) (sz acc : Nat) (doc : Value)
    (path path' : Bytes) (ts : List Bytes) (t t' : Bytes)
    (hp : parsePointer path = some (ts ++ [t])) (hp' : parsePointer path' = some (ts ++ [t']))
    (xs : List Value) (hpar : parent o doc ts = .ok (.arr xs))
    (k : Nat) (hk1 : 1 ≤ k) (hk2 : k ≤ xs.length)
    (ht : classify t = .int (-(k : Int))) (ht' : classify t' = .int ((xs.length : Int) - (k : Int))) :
    applyOp o sz acc doc { kind := .remove, path := path } =
      applyOp o sz acc doc { kind := .remove, path := path' } := by
  have hread := neg_read_congr o hneg xs.length k hk1 hk2 t t' ht ht'
  have e2 : atParent o (removeIn o) doc (ts ++ [t]) = atParent o (removeIn o) doc (ts ++ [t']) := by
    apply Laws.atParent_congr_parent
    intro p hp2
    rw [hpar] at hp2
    cases hp2
    exact Laws.removeIn_arr_congr hread
  cases ha : o.allowMissing with
  | false =>
    rw [Laws.applyOp_remove_toks hp (Laws.append_singleton_ne_nil _ _) ha,
      Laws.applyOp_remove_toks hp' (Laws.append_singleton_ne_nil _ _) ha, e2]
  | true =>
    have e1 : atParent o (AllowLemmas.probe o) doc (ts ++ [t]) =
        atParent o (AllowLemmas.probe o) doc (ts ++ [t']) := by
      apply Laws.atParent_congr_parent
      intro p hp2
      rw [hpar] at hp2
      cases hp2
      refine Laws.probe_arr_congr ht ht' ?_ hneg
      have a1 : ¬ (0 : Int) ≤ -(k : Int) := by omega
      have b1 : (0 : Int) ≤ (xs.length : Int) - (k : Int) := by omega
      have a2 : ¬ (-(k : Int) < -(xs.length : Int)) := by omega
      have b2 : ¬ (xs.length ≤ ((xs.length : Int) - (k : Int)).toNat) := by omega
      simp only [a1, b1, if_true, if_false, decide_eq_false a2, decide_eq_false b2]
    rw [Laws.applyOp_remove_allow_toks hp (Laws.append_singleton_ne_nil _ _) ha,
      Laws.applyOp_remove_allow_toks hp' (Laws.append_singleton_ne_nil _ _) ha, e1, e2]

theorem neg_index_replace (o : Opts) (hneg : o.neg = true) (sz acc : Nat) (doc v : Value)
    (path path' : Bytes) (ts : List Bytes) (t t' : Bytes)
    (hp : parsePointer path = some (ts ++ [t])) (hp' : parsePointer path' = some (ts ++ [t']))
    (xs : List Value) (hpar : parent o doc ts = .ok (.arr xs))
    (k : Nat) (hk1 : 1 ≤ k) (hk2 : k ≤ xs.length)
    (ht : classify t = .int (-(k : Int))) (ht' : classify t' = .int ((xs.length : Int) - (k : Int))) :
    applyOp o sz acc doc { kind := .replace, path := path, value := some v } =
      applyOp o sz acc doc { kind := .replace, path := path', value := some v } := by
  rw [Laws.applyOp_replace_toks hp (Laws.append_singleton_ne_nil _ _),
    Laws.applyOp_replace_toks hp' (Laws.append_singleton_ne_nil _ _)]
  congr 1
  apply Laws.atParent_congr_parent
  intro p hp2
  rw [hpar] at hp2
  cases hp2
  exact Laws.replaceIn_arr_congr (neg_read_congr o hneg xs.length k hk1 hk2 t t' ht ht')

theorem neg_index_test (o : Opts) (hneg : o.neg = true) (sz acc : Nat) (doc : Value) (w : Option Value)
    (path path' : Bytes) (ts : List Bytes) (t t' : Bytes)
    (hp : parsePointer path = some (ts ++ [t])) (hp' : parsePointer path' = some (ts ++ [t']))
    (xs : List Value) (hpar : parent o doc ts = .ok (.arr xs))
    (k : Nat) (hk1 : 1 ≤ k) (hk2 : k ≤ xs.length)
    (ht : classify t = .int (-(k : Int))) (ht' : classify t' = .int ((xs.length : Int) - (k : Int))) :
    applyOp o sz acc doc { kind := .test, path := path, value := w } =
      applyOp o sz acc doc { kind := .test, path := path', value := w } := by
  rw [Laws.applyOp_test_toks hp (Laws.append_singleton_ne_nil _ _),
    Laws.applyOp_test_toks hp' (Laws.append_singleton_ne_nil _ _)]
  congr 1
  apply Laws.atParent_congr_parent
  intro p hp2
  rw [hpar] at hp2
  cases hp2
  exact Laws.getIn_arr_congr (neg_read_congr o hneg xs.length k hk1 hk2 t t' ht ht')

/-- reading (the source of `copy` / `move`) -/
theorem neg_index_get (o : Opts) (hneg : o.neg = true) (doc : Value)
    (ts : List Bytes) (t t' : Bytes)
    (xs : List Value) (hpar : parent o doc ts = .ok (.arr xs))
    (k : Nat) (hk1 : 1 ≤ k) (hk2 : k ≤ xs.length)
    (ht : classify t = .int (-(k : Int))) (ht' : classify t' = .int ((xs.length : Int) - (k : Int))) :
    valueAt o doc (ts ++ [t]) = valueAt o doc (ts ++ [t']) := by
  rw [valueAt_of_ne o doc _ (Laws.append_singleton_ne_nil _ _),
    valueAt_of_ne o doc _ (Laws.append_singleton_ne_nil _ _)]
  congr 1
  apply Laws.atParent_congr_parent
  intro p hp2
  rw [hpar] at hp2
  cases hp2
  exact Laws.getIn_arr_congr (neg_read_congr o hneg xs.length k hk1 hk2 t t' ht ht')

/-- `add` counts from `len + 1`: `-1` is the slot after the last element (every setting of the
other options, EnsurePathExistsOnAdd included) -/
theorem neg_index_add (o : Opts) (hneg : o.neg = true) (sz acc : Nat) (doc v : Value)
    (path path' : Bytes) (ts : List Bytes) (t t' : Bytes)
    (hp : parsePointer path = some (ts ++ [t])) (hp' : parsePointer path' = some (ts ++ [t']))
    (xs : List Value) (hpar : parent o doc ts = .ok (.arr xs))
    (k : Nat) (hk1 : 1 ≤ k) (hk2 : k ≤ xs.length + 1)
    (ht : classify t = .int (-(k : Int)))
    (ht' : classify t' = .int ((xs.length : Int) + 1 - (k : Int))) :
    applyOp o sz acc doc { kind := .add, path := path, value := some v } =
      applyOp o sz acc doc { kind := .add, path := path', value := some v } := by
  obtain ⟨b, _, hb⟩ := Laws.applyOp_add_of_parent o doc _ ts hpar
  rw [hb sz acc v t path hp, hb sz acc v t' path' hp']
  cases b with
  | true => rfl
  | false =>
    simp only [Bool.false_eq_true, if_false]
    congr 1
    apply Laws.atParent_congr_parent
    intro p hp2
    rw [hpar] at hp2
    cases hp2
    apply Laws.addIn_arr_congr
    rw [hneg]
    obtain ⟨h1, h2⟩ := Laws.slotIdx_neg hk1 hk2 ht ht'
    rw [h1, h2]

/-- with the option off, a negative index of an array fails in every operation (`replace` with the
cause it gives to every missing array element) -/
theorem neg_off_fails (o : Opts) (hoff : o.neg = false) (sz acc : Nat) (doc v : Value) (w : Option Value)
    (path : Bytes) (ts : List Bytes) (t : Bytes) (hp : parsePointer path = some (ts ++ [t]))
    (xs : List Value) (hpar : parent o doc ts = .ok (.arr xs))
    (i : Int) (hi : i < 0) (ht : classify t = .int i) :
    (o.ensure = false → applyOp o sz acc doc { kind := .add, path := path, value := some v } = .fail .badIndex) ∧
    (o.allowMissing = false → applyOp o sz acc doc { kind := .remove, path := path } = .fail .badIndex) ∧
    applyOp o sz acc doc { kind := .replace, path := path, value := some v } = .fail .absentMember ∧
    applyOp o sz acc doc { kind := .test, path := path, value := w } = .fail .badIndex := by
  obtain ⟨k, _, _, _, hedit, _⟩ := Laws.atParent_of_parent hpar
  have hr : readIdx o.neg xs.length t = .bad := by rw [hoff]; exact Laws.readIdx_neg_off ht hi
  have hs : slotIdx o.neg xs.length t = .bad := by rw [hoff]; exact Laws.slotIdx_neg_off ht hi
  refine ⟨fun he => ?_, fun ha => ?_, ?_, ?_⟩
  · rw [Laws.applyOp_add_toks hp (Laws.append_singleton_ne_nil _ _) he, hedit (addIn o v) t]
    simp only [addIn, hs]
    rfl
  · rw [Laws.applyOp_remove_toks hp (Laws.append_singleton_ne_nil _ _) ha, hedit (removeIn o) t]
    simp only [removeIn, hr]
    rfl
  · rw [Laws.applyOp_replace_toks hp (Laws.append_singleton_ne_nil _ _), hedit (replaceIn o v) t]
    simp only [replaceIn, hr]
    rfl
  · rw [Laws.applyOp_test_toks hp (Laws.append_singleton_ne_nil _ _), hedit (getIn o true) t]
    simp only [getIn, hr]
    rfl

theorem classify_m1 : classify (ascii "-1") = .int (-1) := by decide +kernel

/-- … except `remove` under AllowMissingPathOnRemove, where a negative last index with negative
indices off is `unspec`, not a failure.  Witness `[1]`, `remove` at the pointer whose one token is `-1`.  This is the documented
interpretation D12 (DESIGN §7, §13.4: "negative last index of a remove with negative indices off,
option AllowMissingPathOnRemove"): the library neither fails nor skips consistently there and the
property text leaves the case open.  Hence the hypothesis `o.allowMissing = false` above. -/
theorem neg_off_remove_allowMissing_counterexample :
    applyOp { neg := false, allowMissing := true } 0 0 (.arr [.num (ascii "1")])
      { kind := .remove, path := ascii "/-1" } = .unspec := by
  have hp : parsePointer (ascii "/-1") = some ([] ++ [ascii "-1"]) := by rfl
  rw [Laws.applyOp_remove_allow_toks hp (by simp) rfl]
  simp only [List.nil_append, atParent, AllowLemmas.probe, classify_m1]
  rfl

/-! ## 13. sequencing at the level of the implementation model -/

theorem specOps_append : ∀ (p q : List Impl.Op) (sp sq : List Spec.Op),
    specOps p = some sp → specOps q = some sq → specOps (p ++ q) = some (sp ++ sq) := by
  intro p
  induction p with
  | nil =>
    intro q sp sq hp hq
    simp only [specOps, Option.some.injEq] at hp
    subst hp
    exact hq
  | cons op ops ih =>
    intro q sp sq hp hq
    simp only [specOps] at hp
    cases hso : specOp op with
    | none => rw [hso] at hp; cases hp
    | some s =>
      cases hss : specOps ops with
      | none => rw [hso, hss] at hp; cases hp
      | some ss =>
        rw [hso, hss] at hp
        simp only [Option.some.injEq] at hp
        subst hp
        simp only [List.cons_append, specOps, hso, ih q ss sq hss hq]

/-- the engine on `p ++ q` is the engine on `p`, then on `q` from the root (and the accumulated
copy size) the first half left; an error or a panic of the first half is the outcome -/
theorem impl_applyOps_append (o : Impl.Opts) :
    ∀ (p q : List Impl.Op) (r : Impl.Root) (acc : Int),
      (∀ r1, Impl.applyOps o r acc p = .ok r1 →
        ∃ acc1, Impl.applyOps o r acc (p ++ q) = Impl.applyOps o r1 acc1 q) ∧
      (∀ e, Impl.applyOps o r acc p = .err e → Impl.applyOps o r acc (p ++ q) = .err e) ∧
      (Impl.applyOps o r acc p = .panic → Impl.applyOps o r acc (p ++ q) = .panic) := by
  intro p
  induction p with
  | nil =>
    intro q r acc
    refine ⟨fun r1 h => ?_, fun e h => ?_, fun h => ?_⟩
    · simp only [Impl.applyOps, Impl.Outcome.ok.injEq] at h
      subst h
      exact ⟨acc, rfl⟩
    · simp only [Impl.applyOps] at h; cases h
    · simp only [Impl.applyOps] at h; cases h
  | cons op ops ih =>
    intro q r acc
    simp only [List.cons_append, Impl.applyOps]
    cases Impl.applyOp o r acc op with
    | ok ra =>
      obtain ⟨r', acc'⟩ := ra
      exact ih q r' acc'
    | err e => exact ⟨fun r1 h => (by cases h), fun e' h => h, fun h => (by cases h)⟩
    | panic => exact ⟨fun r1 h => (by cases h), fun e' h => (by cases h), fun _ => rfl⟩

/-- what `C01.applyOps_refines` says of an engine outcome, given the specification's -/
def EngineRefines (e : Bool) (out : Outcome) (x : Impl.Outcome Impl.Root) : Prop :=
  match out with
  | .ok v => ∃ r', x = .ok r' ∧ Impl.den r'.con = v ∧ Impl.WFRoot r' = true ∧ Impl.TX e r'.con = true
  | .fail _ _ => ∃ er, x = .err er
  | .unspec => True

/-- **law 1 at the implementation level**, through the refinement theorem `C01.applyOps_refines`:
the engine model run on `p ++ q` refines the SPECIFICATION run on `p` and then, as a patch of its
own, on `q` from the document the first half produced — success with that value, an error where
either half fails, nothing claimed where either half is outside the domain -/
theorem impl_apply_append (hEq : EqSpec) (o : Impl.Opts) (ho : o.ensure = false) (hl : o.limit = 0)
    (r : Impl.Root) (hr : Impl.WFRoot r = true) (htx : Impl.TX o.esc r.con = true)
    (p q : List Impl.Op) (sp sq : List Spec.Op) (hsp : specOps p = some sp) (hsq : specOps q = some sq)
    (hv : ∀ op ∈ p ++ q, ∀ c, op.value = some c → c.valueOf.noDup = true)
    (hcst : ∀ op ∈ p ++ q, ∀ c, op.value = some c → Impl.CstOK o.esc c = true)
    (hq : ∀ op ∈ p ++ q, ∀ toks, Spec.parsePointer op.path = some toks → ∀ t ∈ toks, Impl.QK o.esc t = true)
    (hfrm : ∀ op ∈ p ++ q, op.kind = ascii "copy" → op.frm ≠ none)
    (sizeAt : Nat → Nat) (acci : Int) :
    EngineRefines o.esc
      ((Spec.applyFrom (specOpts o) sizeAt 0 0 (Impl.den r.con) sp).andThen fun d =>
        (Spec.applyFrom (specOpts o) (fun j => sizeAt (j + sp.length)) 0 0 d sq).shift sp.length)
      (Impl.applyOps o r acci (p ++ q)) := by
  have h := applyOps_refines hEq o ho hl r hr htx (p ++ q) (sp ++ sq) (specOps_append p q sp sq hsp hsq)
    hv hcst hq hfrm sizeAt 0 0 acci
  have hlim : (specOpts o).limit = 0 := by simp [specOpts, hl]
  rw [applyFrom_append, Nat.zero_add] at h
  have hshift := applyFrom_shift (specOpts o) sizeAt sp.length sq 0
  simp only [Nat.zero_add] at hshift
  cases hfirst : Spec.applyFrom (specOpts o) sizeAt 0 0 (Impl.den r.con) sp with
  | ok d =>
    rw [hfirst] at h
    simp only [Outcome.andThen] at h ⊢
    rw [hshift, AllowLemmas.applyFrom_limit0 (specOpts o) hlim (fun j => sizeAt (j + sp.length))
      (fun j => sizeAt (j + sp.length)) sq 0 _ 0 d] at h
    cases hsecond : Spec.applyFrom (specOpts o) (fun j => sizeAt (j + sp.length)) 0 0 d sq with
    | ok v => rw [hsecond] at h; exact h
    | fail j c => rw [hsecond] at h; exact h
    | unspec => trivial
  | fail j c => rw [hfirst] at h; exact h
  | unspec => trivial

/-! ## The hypotheses are satisfiable: every conditional law on a concrete, nested document

`{"a":{"x":1,"y":[true]},"l":[10,20,30],"k":null}`; `classify` facts by kernel evaluation
(`decide +kernel`), everything else by `rfl` (`with_unfolding_all` where a numeric token has to be
read). -/

section Examples

def lawDoc : Value :=
  .obj [(ascii "a", .obj [(ascii "x", .num (ascii "1")), (ascii "y", .arr [.bool true])]),
        (ascii "l", .arr [.num (ascii "10"), .num (ascii "20"), .num (ascii "30")]),
        (ascii "k", .null)]

def lawArr : List Value := [.num (ascii "10"), .num (ascii "20"), .num (ascii "30")]
def lawObjA : Value.Members := [(ascii "x", .num (ascii "1")), (ascii "y", .arr [.bool true])]

theorem classify_1 : classify (ascii "1") = .int 1 := by decide +kernel
theorem classify_2 : classify (ascii "2") = .int 2 := by decide +kernel
theorem classify_3 : classify (ascii "3") = .int 3 := by decide +kernel
theorem classify_m2 : classify (ascii "-2") = .int (-2) := by decide +kernel

theorem lawDoc_parent_l (o : Opts) : parent o lawDoc [ascii "l"] = .ok (.arr lawArr) := rfl
theorem lawDoc_parent_a (o : Opts) : parent o lawDoc [ascii "a"] = .ok (.obj lawObjA) := rfl

/-- law 1 / 2: a three-operation patch split after the first operation; the failing `test` is
operation 0 of the second half and operation 1 of the whole -/
example :
    Spec.apply {} (fun _ => 0) lawDoc
      ([{ kind := .remove, path := ascii "/k" }] ++
       [{ kind := .test, path := ascii "/k", value := some (.bool true) },
        { kind := .remove, path := ascii "/a" }]) = .fail 1 .testUnequal :=
  apply_append_fail {} rfl (fun _ => 0) lawDoc _ _ _ 0 .testUnequal (by rfl) (by rfl)

/-- law 6 -/
example (v : Value) :
    applyOp {} 0 0 lawDoc { kind := .add, path := ascii "/l/-", value := some v } =
      applyOp {} 0 0 lawDoc { kind := .add, path := ascii "/l/3", value := some v } :=
  add_dash_eq_add_len {} 0 0 lawDoc v _ _ [ascii "l"] (ascii "3") (by rfl) (by rfl) lawArr
    (lawDoc_parent_l _) classify_3

/-- law 6 with EnsurePathExistsOnAdd and AllowMissingPathOnRemove on, negative indices off -/
example (v : Value) :
    applyOp { ensure := true, allowMissing := true, neg := false } 0 0 lawDoc
        { kind := .add, path := ascii "/l/-", value := some v } =
      applyOp { ensure := true, allowMissing := true, neg := false } 0 0 lawDoc
        { kind := .add, path := ascii "/l/3", value := some v } :=
  add_dash_eq_add_len _ 0 0 lawDoc v _ _ [ascii "l"] (ascii "3") (by rfl) (by rfl) lawArr
    (lawDoc_parent_l _) classify_3

/-- law 10 -/
example (v : Value) :
    applyOp {} 0 0 lawDoc { kind := .add, path := ascii "/a/x", value := some v } =
      applyOp {} 0 0 lawDoc { kind := .replace, path := ascii "/a/x", value := some v } :=
  add_existing_member_eq_replace {} rfl 0 0 lawDoc v _ [ascii "a"] (ascii "x") (by rfl) lawObjA
    (lawDoc_parent_a _) (.num (ascii "1")) (by rfl)

/-- law 9, with a limit that the charge respects (`acc + sz = 7 ≤ 10`) -/
example :
    applyOp { limit := 10 } 4 3 lawDoc { kind := .copy, path := ascii "/a/c", frm := ascii "/l" } =
      .ok (.obj [(ascii "a", .obj [(ascii "x", .num (ascii "1")), (ascii "y", .arr [.bool true]),
                   (ascii "c", .arr lawArr)]),
                 (ascii "l", .arr lawArr), (ascii "k", .null)], 7) := by
  rw [copy_eq_add_get { limit := 10 } rfl 4 3 lawDoc _ _ [ascii "a", ascii "c"] [ascii "l"] (by rfl)
    (by simp) (by rfl) (by decide)]
  rfl

/-- law 9, beyond the limit -/
example :
    applyOp { limit := 5 } 4 3 lawDoc { kind := .copy, path := ascii "/a/c", frm := ascii "/l" } =
      .fail .copyLimit :=
  copy_over_limit { limit := 5 } 4 3 lawDoc (.arr lawArr) (.obj lawObjA) _ _ [ascii "a"] [ascii "l"]
    (ascii "c") (by rfl) (by rfl) (by rfl) (lawDoc_parent_a _) (by decide)

/-- law 9, `move` -/
example :
    applyOp {} 0 0 lawDoc { kind := .move, path := ascii "/a/k", frm := ascii "/k" } =
      twoOps {} 0 0 0 lawDoc { kind := .remove, path := ascii "/k" }
        { kind := .add, path := ascii "/a/k", value := some .null } := by
  rw [move_eq_remove_add_seq {} rfl rfl 0 0 lawDoc _ _ (ascii "k") (ascii "a") [] [ascii "k"] (by rfl) (by rfl)]
  rfl

/-- law 3, object member (under `a`, with AllowMissingPathOnRemove on for a change) -/
example (v : Value) :
    twoOps { allowMissing := true } 0 0 0 lawDoc { kind := .add, path := ascii "/a/z", value := some v }
      { kind := .remove, path := ascii "/a/z" } = .ok (lawDoc, 0) :=
  add_then_remove_member { allowMissing := true } rfl 0 0 0 lawDoc v _ [ascii "a"] (ascii "z") (by rfl)
    lawObjA (lawDoc_parent_a _) (by rfl)

/-- law 3, array index -/
example :
    applyOp {} 0 0
      (.obj [(ascii "a", .obj lawObjA),
             (ascii "l", .arr [.num (ascii "10"), .null, .num (ascii "20"), .num (ascii "30")]),
             (ascii "k", .null)])
      { kind := .remove, path := ascii "/l/1" } = .ok (lawDoc, 0) :=
  add_then_remove_index {} rfl 0 0 0 0 lawDoc _ .null _ [ascii "l"] (ascii "1") (by rfl) lawArr
    (lawDoc_parent_l _) (by decide) (by with_unfolding_all rfl)

/-- law 3, `-` then the old length -/
example :
    applyOp {} 0 0
      (.obj [(ascii "a", .obj lawObjA),
             (ascii "l", .arr [.num (ascii "10"), .num (ascii "20"), .num (ascii "30"), .null]),
             (ascii "k", .null)])
      { kind := .remove, path := ascii "/l/3" } = .ok (lawDoc, 0) :=
  add_dash_then_remove_len {} rfl 0 0 0 0 lawDoc _ .null (ascii "/l/-") _ [ascii "l"] (ascii "3")
    (by rfl) (by rfl) lawArr (lawDoc_parent_l _) classify_3 (by rfl)

/-- law 4, array -/
example :
    twoOps {} 0 0 0 lawDoc { kind := .remove, path := ascii "/l/1" }
      { kind := .add, path := ascii "/l/1", value := some (.num (ascii "20")) } = .ok (lawDoc, 0) :=
  remove_then_add_array {} rfl 0 0 0 lawDoc lawDoc _ _ [ascii "l"] (ascii "1") (by rfl) lawArr
    (lawDoc_parent_l _) (by with_unfolding_all rfl)

/-- law 4, object: `x` moves behind `y` -/
example :
    twoOps {} 0 0 0 lawDoc { kind := .remove, path := ascii "/a/x" }
      { kind := .add, path := ascii "/a/x", value := some (.num (ascii "1")) } =
      .ok (.obj [(ascii "a", .obj [(ascii "y", .arr [.bool true]), (ascii "x", .num (ascii "1"))]),
                 (ascii "l", .arr lawArr), (ascii "k", .null)], 0) := by
  rw [remove_then_add_member {} rfl 0 0 0 lawDoc _ _ [ascii "a"] (ascii "x") (by rfl) lawObjA
    (lawDoc_parent_a _) (by rfl)]
  rfl

/-- law 5, array -/
example (v : Value) :
    applyOp {} 0 0 lawDoc { kind := .replace, path := ascii "/l/2", value := some v } =
      mapFail .absentMember (twoOps {} 0 0 0 lawDoc { kind := .remove, path := ascii "/l/2" }
        { kind := .add, path := ascii "/l/2", value := some v }) :=
  replace_eq_remove_add_array {} rfl rfl 0 0 0 lawDoc v _ [ascii "l"] (ascii "2") (by rfl) lawArr
    (lawDoc_parent_l _)

example (v : Value) :
    applyOp { allowMissing := true } 0 0 lawDoc { kind := .replace, path := ascii "/l/2", value := some v } =
      twoOps { allowMissing := true } 0 0 0 lawDoc { kind := .remove, path := ascii "/l/2" }
        { kind := .add, path := ascii "/l/2", value := some v } :=
  replace_eq_remove_add_array_of_exists { allowMissing := true } rfl 0 0 0 lawDoc lawDoc v
    (.num (ascii "30")) _ [ascii "l"] (ascii "2") (by rfl) lawArr (lawDoc_parent_l _)
    (by with_unfolding_all rfl)

/-- law 5, object -/
example : ∃ d1 d2,
    applyOp {} 0 0 lawDoc { kind := .replace, path := ascii "/a/x", value := some (.bool false) } = .ok (d1, 0) ∧
    twoOps {} 0 0 0 lawDoc { kind := .remove, path := ascii "/a/x" }
      { kind := .add, path := ascii "/a/x", value := some (.bool false) } = .ok (d2, 0) ∧
    Value.eqv d1 d2 = true := by
  obtain ⟨d1, d2, h1, h2, _, _, h5⟩ := replace_eqv_remove_add_member {} rfl 0 0 0 lawDoc (.bool false)
    (.num (ascii "1")) (ascii "/a/x") [ascii "a"] (ascii "x") (by rfl) lawObjA (lawDoc_parent_a _) (by rfl)
    (by decide) (by decide)
  exact ⟨d1, d2, h1, h2, h5⟩

/-- law 7: `-2` against `[10,20,30]` is element `1` for remove / replace / test / get, slot `2` for add -/
example :
    applyOp {} 0 0 lawDoc { kind := .remove, path := ascii "/l/-2" } =
      applyOp {} 0 0 lawDoc { kind := .remove, path := ascii "/l/1" } :=
  neg_index_remove {} rfl 0 0 lawDoc _ _ [ascii "l"] (ascii "-2") (ascii "1") (by rfl) (by rfl) lawArr
    (lawDoc_parent_l _) 2 (by decide) (by decide) classify_m2 classify_1

example (v : Value) (w : Option Value) :
    applyOp {} 0 0 lawDoc { kind := .replace, path := ascii "/l/-2", value := some v } =
      applyOp {} 0 0 lawDoc { kind := .replace, path := ascii "/l/1", value := some v } ∧
    applyOp {} 0 0 lawDoc { kind := .test, path := ascii "/l/-2", value := w } =
      applyOp {} 0 0 lawDoc { kind := .test, path := ascii "/l/1", value := w } ∧
    valueAt {} lawDoc ([ascii "l"] ++ [ascii "-2"]) = valueAt {} lawDoc ([ascii "l"] ++ [ascii "1"]) ∧
    applyOp {} 0 0 lawDoc { kind := .add, path := ascii "/l/-2", value := some v } =
      applyOp {} 0 0 lawDoc { kind := .add, path := ascii "/l/2", value := some v } :=
  ⟨neg_index_replace {} rfl 0 0 lawDoc v _ _ [ascii "l"] (ascii "-2") (ascii "1") (by rfl) (by rfl) lawArr
      (lawDoc_parent_l _) 2 (by decide) (by decide) classify_m2 classify_1,
   neg_index_test {} rfl 0 0 lawDoc w _ _ [ascii "l"] (ascii "-2") (ascii "1") (by rfl) (by rfl) lawArr
      (lawDoc_parent_l _) 2 (by decide) (by decide) classify_m2 classify_1,
   neg_index_get {} rfl lawDoc [ascii "l"] (ascii "-2") (ascii "1") lawArr
      (lawDoc_parent_l _) 2 (by decide) (by decide) classify_m2 classify_1,
   neg_index_add {} rfl 0 0 lawDoc v _ _ [ascii "l"] (ascii "-2") (ascii "2") (by rfl) (by rfl) lawArr
      (lawDoc_parent_l _) 2 (by decide) (by decide) classify_m2 classify_2⟩

/-- law 7, option off -/
example (v : Value) :
    applyOp { neg := false } 0 0 lawDoc { kind := .replace, path := ascii "/l/-2", value := some v } =
      .fail .absentMember :=
  (neg_off_fails { neg := false } rfl 0 0 lawDoc v none _ [ascii "l"] (ascii "-2") (by rfl) lawArr
    (lawDoc_parent_l _) (-2) (by decide) classify_m2).2.2.1

/-- law 8 -/
example :
    Spec.applyFrom {} (fun _ => 0) 4 0 lawDoc
      ({ kind := .test, path := ascii "/a/x", value := some (.num (ascii "2")) } ::
        [{ kind := .remove, path := ascii "/k" }]) = .fail 4 .testUnequal :=
  test_unequal_fails_patch {} (fun _ => 0) 4 0 lawDoc lawDoc (.num (ascii "1")) _ _ [ascii "a"] (ascii "x")
    (by rfl) (by rfl) (by rfl) (by decide) _

/-- law 13: `C01.exOps` (add, copy, remove, test, move on `{"a":{"x":"<"},"k":null}`) split after its
second operation; every hypothesis of `impl_apply_append` holds, the specification evaluates the
two halves one after the other to `C01.exResult`, so the engine model does on the whole -/
example (hEq : EqSpec) :
    ∃ r', Impl.applyOps exO exR 0 (exOps.take 2 ++ exOps.drop 2) = .ok r' ∧ Impl.den r'.con = exResult := by
  have hmem : ∀ (P : Impl.Op → Prop), (∀ op ∈ exOps.take 2 ++ exOps.drop 2, P op) ↔
      (P exOps[0] ∧ P exOps[1] ∧ P exOps[2] ∧ P exOps[3] ∧ P exOps[4]) := by
    intro P; simp [exOps]
  have hv : ∀ op ∈ exOps.take 2 ++ exOps.drop 2, ∀ c, op.value = some c → c.valueOf.noDup = true :=
    (hmem _).2 (by refine ⟨?_, ?_, ?_, ?_, ?_⟩ <;> intro c hc <;> cases hc <;> decide)
  have hcst : ∀ op ∈ exOps.take 2 ++ exOps.drop 2, ∀ c, op.value = some c → Impl.CstOK exO.esc c = true :=
    (hmem _).2 (by refine ⟨?_, ?_, ?_, ?_, ?_⟩ <;> intro c hc <;> cases hc <;> decide)
  have hq : ∀ op ∈ exOps.take 2 ++ exOps.drop 2, ∀ toks, Spec.parsePointer op.path = some toks →
      ∀ t ∈ toks, Impl.QK exO.esc t = true :=
    (hmem _).2 (by refine ⟨?_, ?_, ?_, ?_, ?_⟩ <;> intro toks ht <;> cases ht <;> decide)
  have hfrm : ∀ op ∈ exOps.take 2 ++ exOps.drop 2, op.kind = ascii "copy" → op.frm ≠ none :=
    (hmem _).2 (by refine ⟨?_, ?_, ?_, ?_, ?_⟩ <;> intro hk <;> first | exact absurd hk (by decide) | simp [exOps])
  have h := impl_apply_append hEq exO rfl rfl exR (by decide) (by decide) (exOps.take 2) (exOps.drop 2)
    (exSops.take 2) (exSops.drop 2) (by rfl) (by rfl) hv hcst hq hfrm (fun _ => 0) 0
  have hs : ((Spec.applyFrom (specOpts exO) (fun _ => 0) 0 0 (Impl.den exR.con) (exSops.take 2)).andThen fun d =>
      (Spec.applyFrom (specOpts exO) (fun j => (fun _ => 0) (j + (exSops.take 2).length)) 0 0 d
        (exSops.drop 2)).shift (exSops.take 2).length) = .ok exResult := by rfl
  rw [hs] at h
  obtain ⟨r', h1, h2, _⟩ := h
  exact ⟨r', h1, h2⟩

end Examples

/-
#print axioms JP.C01.apply_append                     -- [propext, Quot.sound]
#print axioms JP.C01.replace_eqv_remove_add_member    -- [propext, Classical.choice, Quot.sound]
#print axioms JP.C01.impl_apply_append                -- [propext, Classical.choice, Quot.sound]
-/

end C01
end JP
