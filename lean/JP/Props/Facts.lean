import JP.Generated.Facts
import JP.Impl.Merge

/-!
# Regenerated facts = what the hand-written model assumes

`JP/Generated/Facts.lean` is rewritten from the Go sources on every run.  Each theorem
below equates one extracted fact with the corresponding assumption of the model; all are
closed computations checked by the kernel (`rfl` / `decide`).
-/

namespace JP
namespace Facts

/-- the nesting limit of the scanner model and of the reference grammar -/
theorem maxNestingDepth_eq : Generated.maxNestingDepth = Scanner.maxNestingDepth
    ∧ Generated.maxNestingDepth = maxDepth := by decide

theorem defaults_eq : Generated.negDefault = ({} : Impl.Opts).neg
    ∧ (Generated.limitDefault : Int) = ({} : Impl.Opts).limit
    ∧ Generated.legacyNegDefault = true ∧ Generated.legacyLimitDefault = 0 := by decide

theorem newOptions_eq : Generated.newOptions =
    ["SupportNegativeIndices:SupportNegativeIndices", "AccumulatedCopySizeLimit:AccumulatedCopySizeLimit",
     "AllowMissingPathOnRemove:false", "EnsurePathExistsOnAdd:false", "EscapeHTML:true"] := rfl

/-- `safeSet` / `htmlSafeSet` of tables.go are the model's `safe` / `htmlSafe` -/
theorem safeSet_eq : ∀ i : Fin 128, Generated.safeSet[i.val]? = some (safe (UInt8.ofNat i.val)) := by decide

theorem htmlSafeSet_eq : ∀ i : Fin 128, Generated.htmlSafeSet[i.val]? = some (htmlSafe (UInt8.ofNat i.val)) := by decide

theorem hex_eq : ∀ i : Fin 16, Generated.hexDigits[i.val]? = some (hexDigit i.val).toNat := by decide

/-- scanner opcodes and parse states in their `iota` order (the model uses the numbers) -/
theorem scanOpcodes_eq : Generated.scanOpcodes =
    ["scanContinue", "scanBeginLiteral", "scanBeginObject", "scanObjectKey", "scanObjectValue", "scanEndObject",
     "scanBeginArray", "scanArrayValue", "scanEndArray", "scanSkipSpace", "scanEnd", "scanError"]
    ∧ Generated.parseStates = ["parseObjectKey", "parseObjectValue", "parseArrayValue"] := ⟨rfl, rfl⟩

/-- every `Unmarshal*` entry point of the fork keeps number literals -/
theorem useNumber_eq : Generated.useNumberForced = [true, true, true, true] := rfl

/-- the six operation kinds are dispatched to the six methods of the same name -/
theorem opDispatch_eq : Generated.opDispatch =
    [(["add"], "add"), (["remove"], "remove"), (["replace"], "replace"), (["move"], "move"),
     (["test"], "test"), (["copy"], "copy"), (["default"], "Kind")] := rfl

theorem validateKinds_eq : Generated.validateKinds =
    [(["add", "replace"], "ValueInterface"), (["move", "copy"], "From"), (["remove", "test"], "")] := rfl

/-- every entry point that decodes with `UnmarshalValid*` checks `json.Valid` first -/
theorem validGates_eq : Generated.validGates =
    [("ApplyIndentWithOptions", true), ("CreateMergePatch", true), ("DecodePatch", true), ("Equal", true),
     ("doMergePatch", true)] ∧ Generated.mergeGates = 2 := ⟨rfl, rfl⟩

theorem applyReturnsNil_eq : Generated.applyReturnsNilOnError = true := rfl

/-- every error site of `v5/patch.go`, in source order, with what it wraps -/
theorem errorSites_eq : Generated.errorSites =
    [("DecodePatch", ["r:ErrInvalid", "w:ErrInvalid"]),
     ("add", ["w:ErrMissing", "w:ErrMissing", "w:err"]),
     ("copy", ["w:err", "w:ErrMissing", "w:err", "w:ErrMissing", "w:ErrMissing", "w:err", "r:NewAccumulatedCopySizeError", "w:err"]),
     ("doMergePatch", ["r:ErrBadJSONDoc", "r:ErrBadJSONPatch", "r:ErrBadJSONDoc", "r:ErrBadJSONDoc", "r:ErrBadJSONPatch", "r:ErrBadJSONPatch"]),
     ("ensurePathExists", ["w:ErrInvalidIndex", "w:ErrInvalidIndex"]),
     ("move", ["w:err", "w:ErrInvalid", "w:ErrMissing", "w:err", "w:err", "w:err", "w:err", "w:ErrMissing", "w:err"]),
     ("partialArray.add", ["r:ErrInvalid", "w:err", "w:ErrInvalidIndex", "w:ErrInvalidIndex", "w:ErrInvalidIndex"]),
     ("partialArray.get", ["r:ErrInvalid", "w:ErrInvalidIndex", "w:ErrInvalidIndex", "w:ErrInvalidIndex"]),
     ("partialArray.remove", ["r:ErrInvalid", "w:ErrInvalidIndex", "w:ErrInvalidIndex", "w:ErrInvalidIndex"]),
     ("partialArray.set", ["r:ErrInvalid", "w:ErrInvalidIndex", "w:ErrInvalidIndex"]),
     ("partialDoc.get", ["r:ErrExpectedObject", "w:ErrMissing"]),
     ("partialDoc.remove", ["r:ErrExpectedObject", "w:ErrMissing"]),
     ("partialDoc.set", ["r:ErrExpectedObject"]),
     ("remove", ["w:ErrMissing", "w:ErrMissing", "w:err"]),
     ("replace", ["w:err", "w:err", "w:err", "w:ErrMissing", "w:ErrMissing", "w:err"]),
     ("test", ["w:err", "w:ErrTestFailed", "w:ErrMissing", "w:err", "w:ErrTestFailed", "w:ErrTestFailed"])] := rfl

theorem legacyErrorSites_eq : Generated.legacyErrorSites =
    [("add", ["w:ErrMissing", "w:ErrMissing", "w:err"]),
     ("copy", ["w:err", "w:ErrMissing", "w:err", "w:ErrMissing", "w:ErrMissing", "w:err", "r:NewAccumulatedCopySizeError", "w:err"]),
     ("move", ["w:err", "w:ErrMissing", "w:err", "w:err", "w:err", "w:ErrMissing", "w:err"]),
     ("remove", ["w:ErrMissing", "w:ErrMissing", "w:err"]),
     ("replace", ["w:err", "w:ErrMissing", "w:err", "w:err", "w:ErrMissing", "w:ErrMissing", "w:err"]),
     ("test", ["w:err", "w:ErrTestFailed", "w:ErrMissing", "w:err", "w:ErrTestFailed", "w:ErrTestFailed", "w:ErrTestFailed"])] := rfl

/-- the pools and caches of the embedded codec: nothing else is shared between calls -/
theorem codecVars_eq : Generated.codecVars =
    ["ds:pool", "encodeStatePool:pool", "encoderCache:syncmap", "fieldCache:syncmap", "hex:other", "htmlSafeSet:other",
     "nullLiteral:other", "numberType:other", "safeSet:other", "scannerPool:pool", "textUnmarshalerType:other"] := rfl

/-- shared package-level state of the library: only these variables exist -/
theorem packageVars_eq : Generated.packageVars =
    ["AccumulatedCopySizeLimit", "ErrBadJSONDoc", "ErrBadJSONPatch", "SupportNegativeIndices", "endArray",
     "endObject", "errBadMergeTypes", "startArray", "startObject"] := rfl

theorem initResets_eq : Generated.initResets = ["data", "off", "savedError"] := rfl

theorem legacyUsesStdlib_eq : Generated.legacyUsesStdlib = true := rfl

/-! ### shared state: the Go-level facts the world model of C09/C10 (JP/World) assumes -/

/-- S1: `scanner.reset` assigns exactly step, parseState, err, endTop -/
theorem scanReset_eq : Generated.scanResetAssigns = ["endTop", "err", "parseState", "step"] := rfl

/-- S2: `newScanner` = pool Get; bytes = 0; reset -/
theorem newScanner_eq : Generated.newScannerResets = true := rfl

/-- E1: `newEncodeState` resets the buffer and ptrLevel and panics on a non-empty ptrSeen -/
theorem newEncodeState_eq : Generated.newEncodeState = [true, true, true, true] := rfl

/-- D4: `lastKeys` has one assignment site (object decoded into a map) and two read sites
(the two `…WithKeys` entry points) -/
theorem lastKeys_sites_eq : Generated.lastKeysAssignSites = 1 ∧ Generated.lastKeysReadSites = 2 := ⟨rfl, rfl⟩

/-- D5: `disallowUnknownFields` is assigned only in stream.go (the Decoder's private state) -/
theorem disallowUnknown_eq : Generated.disallowUnknownAssignFiles = ["stream.go"] := rfl

/-- L2: the order list `keys` is mentioned only by these functions of the library -/
theorem keysMentions_eq : Generated.keysMentions = ["TrustMarshalJSON", "UnmarshalJSON", "mergeDocs", "remove", "set"] := rfl

/-- L4: the package variables are never assigned by the library -/
theorem packageVarWrites_eq : Generated.packageVarWrites = 0 := rfl

/-- D1: each `Unmarshal*` takes one state from the pool, releases it by a deferred Put, and
calls `init` after the Get -/
theorem decodePool_eq : Generated.decodePoolDiscipline =
    [("Unmarshal", 1, 1, true), ("UnmarshalValid", 1, 1, true), ("UnmarshalValidWithKeys", 1, 1, true),
     ("UnmarshalWithKeys", 1, 1, true)] := rfl

/-- no indexed write into a caller-supplied byte slice or through `*n.raw` in patch.go / merge.go -/
theorem inputWrites_eq : Generated.inputWrites = 0 := rfl

end Facts
end JP
