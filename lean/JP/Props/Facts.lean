import JP.Props.FactsPatch
import JP.Props.FactsMerge
import JP.Props.FactsCodec
import JP.Props.FactsLegacy

/-! all regenerated-fact theorems (see the four modules) -/
