import JP.Props.FactsPatch
import JP.Props.FactsMerge
import JP.Props.FactsCodec
import JP.Props.FactsLegacy
import JP.Props.Bodies.V5Patch
import JP.Props.Bodies.V5Merge
import JP.Props.Bodies.CodecScanner
import JP.Props.Bodies.CodecIndent
import JP.Props.Bodies.CodecDecode
import JP.Props.Bodies.CodecEncode
import JP.Props.Bodies.CodecStream
import JP.Props.Bodies.CodecOther
import JP.Props.Bodies.LegacyPatch
import JP.Props.Bodies.LegacyMerge
import JP.Props.Bodies.Cmd
import JP.Props.Bodies.Files

/-! all regenerated-fact theorems (see the four modules) and the source-text inventory (JP/Props/Bodies) -/
