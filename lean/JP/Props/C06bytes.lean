import JP.Props.C06
import JP.Props.C16

/-!
# C06 at byte level — `Equal` on arbitrary byte strings

`C06.equal_iff` / `equal_spec` carry the hypotheses `Scanner.valid x = (parseCst x).isSome`;
`C16.scanner_iff` discharges them for every byte string.
-/

namespace JP
namespace C06
open Value

/-- the scanner gate of `Equal` is the reference parser, for every byte string -/
theorem valid_eq_parse (x : Bytes) : Scanner.valid x = (parseCst x).isSome := by
  have h := C16.scanner_iff x
  cases hv : Scanner.valid x <;> cases hp : (parseCst x).isSome <;> simp_all

/-- `Equal` on ALL byte strings: true exactly when both texts are well-formed JSON and the two
syntax trees are equal in the sense of `lazyNode.equal` -/
theorem equal_bytes (a b : Bytes) :
    Impl.equal a b = true ↔
      ∃ ca cb, parseCst a = some ca ∧ parseCst b = some cb ∧ Impl.eqCC ca cb = true :=
  equal_iff a b (valid_eq_parse a) (valid_eq_parse b)

/-- under duplicate-free member names: `Equal` is structural equality of the denoted values -/
theorem equal_bytes_value (a b : Bytes)
    (hda : ∀ va, parseValueOf a = some va → va.noDup = true)
    (hdb : ∀ vb, parseValueOf b = some vb → vb.noDup = true) :
    Impl.equal a b = true ↔
      ∃ va vb, parseValueOf a = some va ∧ parseValueOf b = some vb ∧ Value.eqv va vb = true :=
  equal_spec a b (valid_eq_parse a) (valid_eq_parse b) hda hdb

/-- a well-formed duplicate-free text is `Equal` to itself -/
theorem equal_refl_bytes (a : Bytes) (va : Value) (hp : parseValueOf a = some va)
    (hd : va.noDup = true) : Impl.equal a a = true := by
  unfold parseValueOf at hp
  cases hc : parseCst a with
  | none => simp [hc] at hp
  | some ca =>
    simp only [hc, Option.map_some, Option.some.injEq] at hp
    subst hp
    have hv : Scanner.valid a = true := by rw [valid_eq_parse, hc]; rfl
    exact equal_refl a hv ca hc hd

theorem equal_symm_bytes (a b : Bytes)
    (hda : ∀ va, parseValueOf a = some va → va.noDup = true)
    (hdb : ∀ vb, parseValueOf b = some vb → vb.noDup = true) :
    Impl.equal a b = Impl.equal b a :=
  equal_symm' a b (valid_eq_parse a) (valid_eq_parse b) hda hdb

theorem equal_trans_bytes (a b c : Bytes)
    (hda : ∀ v, parseValueOf a = some v → v.noDup = true)
    (hdb : ∀ v, parseValueOf b = some v → v.noDup = true)
    (hdc : ∀ v, parseValueOf c = some v → v.noDup = true)
    (hab : Impl.equal a b = true) (hbc : Impl.equal b c = true) : Impl.equal a c = true :=
  equal_trans' a b c (valid_eq_parse a) (valid_eq_parse b) (valid_eq_parse c) hda hdb hdc hab hbc

/-- an ill-formed operand (on either side) makes `Equal` false -/
theorem equal_malformed (a b : Bytes) (h : parseCst a = none ∨ parseCst b = none) :
    Impl.equal a b = false :=
  malformed_false a b h

/-- the same in terms of the library's own validity check -/
theorem equal_invalid (a b : Bytes) (h : Scanner.valid a = false ∨ Scanner.valid b = false) :
    Impl.equal a b = false := by
  apply equal_malformed
  rcases h with h | h
  · left; rw [valid_eq_parse] at h; cases hp : parseCst a <;> simp_all
  · right; rw [valid_eq_parse] at h; cases hp : parseCst b <;> simp_all

/-! ### the hypotheses are satisfiable -/

example : (parseValueOf (Cst.print exA)).map Value.noDup = some true ∧
    (parseValueOf (Cst.print exB)).map Value.noDup = some true ∧
    (parseValueOf (Cst.print exA)).map (Value.eqv exB.valueOf) = some true := by decide +kernel
example : Impl.equal (Cst.print exA) (Cst.print exB) = true := by decide +kernel
example : parseCst (ascii "{\"a\":") = none ∧ Impl.equal (ascii "{\"a\":") (ascii "1") = false := by
  decide +kernel

-- #print axioms valid_eq_parse
-- #print axioms equal_bytes
-- #print axioms equal_bytes_value
-- #print axioms equal_refl_bytes
-- #print axioms equal_symm_bytes
-- #print axioms equal_trans_bytes
-- #print axioms equal_malformed
-- #print axioms equal_invalid

end C06
end JP
