import JP.Lemmas.DecodeAny

/-!
# C17 (decoder): fact B8 proved — the reflective decoder on the library's target shapes

`JP/Codec/Decode.lean` transcribes `decodeState` (`value`, `array`, `object`, `literalStore`,
the `*Interface` fast paths, `scanWhile`, `rescanLiteral`, `skip`, the four entry points).  The
theorems below relate it to the one-level decode functions of the implementation model
(`Impl.decodeMembers`, `decodeKeys`, `decodeAry`, `member`, `anyOf`, `asString`, `decodeRoot`), which
were assumptions ("B8") so far.  Raw texts handed to an `Unmarshaler` are compared through
`parseCst` of the captured slice.  `left` is the `lastKeys` leftover of the pooled decoder state.
-/

namespace JP
namespace C17

open Codec Impl

/-- B8 for objects: decoding a well-formed object text into `map[string]*lazyNode` (+ keys) yields,
member by member, raw texts whose parse trees are the members' sub-trees, `null` as nil pointer,
a repeated name overwriting, and the keys in order of appearance -/
theorem decode_mapraw (bs : Bytes) (ms : List (Bytes × Cst)) (left : List Bytes)
    (h : parseCst bs = some (.obj ms)) :
    ∃ m, unmarshalValidWithKeys (.mapOf (.raw true)) bs left = .ok ⟨.map m, decodeKeys ms⟩ ∧
      nodesOf m = some (decodeMembers ms []) := by
  obtain ⟨v, hu, hview⟩ := decode_ok (.mapOf (.raw true)) bs (.obj ms) left h
    (by simp only [bad]; exact badM_raw true ms)
  simp only [sem] at hview
  obtain ⟨m, rfl, hm⟩ := view_eq_map v _ hview
  refine ⟨m, hu, ?_⟩
  rw [nodesOf_view, hm]
  exact nodesOfV_semM true ms [] [] rfl

/-- B8 for arrays: `[]*lazyNode` -/
theorem decode_sliceraw (bs : Bytes) (xs : List Cst) (left : List Bytes) (h : parseCst bs = some (.arr xs)) :
    ∃ vs, unmarshalValidWithKeys (.sliceOf (.raw true)) bs left = .ok ⟨.list vs, left⟩ ∧
      (nodeList vs).map Node.ary = some (decodeAry xs) := by
  obtain ⟨v, hu, hview⟩ := decode_ok (.sliceOf (.raw true)) bs (.arr xs) left h
    (by simp only [bad]; exact badL_raw true xs)
  simp only [sem] at hview
  obtain ⟨vs, rfl, hvs⟩ := view_eq_list v _ hview
  have hk : keysAfter (.arr xs) (.sliceOf (.raw true)) left = left := by
    simp only [keysAfter]; exact keysAfterL_raw true xs left
  rw [hk] at hu
  refine ⟨vs, hu, ?_⟩
  rw [nodeList_view, hvs, nodeListV_semL]
  rfl

/-- B8 for patches: decoding into `[]map[string]*json.RawMessage`.  When every element is an object
or `null`, element by element: an object gives a map whose entries are the `member` view of its
members (absent / present-and-null = nil pointer / raw text with the member's tree; the last of
repeated names), `null` gives a nil map -/
theorem decode_patch (bs : Bytes) (xs : List Cst) (left : List Bytes) (h : parseCst bs = some (.arr xs))
    (hall : ∀ x ∈ xs, x.isObj = true ∨ x.isNullLit = true) :
    ∃ vs keys, unmarshalValidWithKeys (.sliceOf (.mapOf (.raw true))) bs left = .ok ⟨.list vs, keys⟩ ∧
      AllOps xs vs := by
  have hb : bad (.arr xs) (.sliceOf (.mapOf (.raw true))) = false := by
    simp only [bad, badL_op]
    rw [List.any_eq_false]
    intro x hx
    rcases hall x hx with h1 | h1 <;> simp [h1]
  obtain ⟨v, hu, hview⟩ := decode_ok _ bs (.arr xs) left h hb
  simp only [sem] at hview
  obtain ⟨vs, rfl, hvs⟩ := view_eq_list v _ hview
  exact ⟨vs, _, hu, opViews_of_view xs vs hvs⟩

/-- ... and any other element (a string, a number, a boolean, an array) makes the decoder return an
error: what `Impl.decodeOps` reports as "a decoder error" -/
theorem decode_patch_error (bs : Bytes) (xs : List Cst) (left : List Bytes) (h : parseCst bs = some (.arr xs))
    (x : Cst) (hx : x ∈ xs) (hbad : x.isObj = false ∧ x.isNullLit = false) :
    ∃ e v, unmarshalValidWithKeys (.sliceOf (.mapOf (.raw true))) bs left = .error e v := by
  have hb : bad (.arr xs) (.sliceOf (.mapOf (.raw true))) = true := by
    simp only [bad, badL_op]
    rw [List.any_eq_true]
    exact ⟨x, hx, by simp [hbad.1, hbad.2]⟩
  obtain ⟨e, v, hu, _⟩ := decode_err _ bs (.arr xs) left h hb
  exact ⟨e, v, hu⟩

/-- B8 for dynamic values: decoding into `any` (with `UseNumber`) yields the value the text denotes;
Go's maps being unordered, objects are compared in the name-sorted, de-duplicated normal form that
`Impl.anyOf` uses -/
theorem decode_any (bs : Bytes) (c : Cst) (left : List Bytes) (h : parseCst bs = some c) :
    ∃ v, unmarshalValidWithKeys .any bs left = .ok ⟨v, left⟩ ∧ canon v = anyOf c.valueOf := by
  obtain ⟨v, hu, hview⟩ := decode_ok .any bs c left h (bad_any c)
  rw [keysAfter_any] at hu
  refine ⟨v, hu, ?_⟩
  have : canon (view v) = canon v := canon_mapRaw parseCst v
  rw [← this, hview, canon_sem]

/-- ... and into `map[string]any` (the merge-patch documents), with the key list -/
theorem decode_mapany (bs : Bytes) (ms : List (Bytes × Cst)) (left : List Bytes)
    (h : parseCst bs = some (.obj ms)) :
    ∃ m, unmarshalValidWithKeys (.mapOf .any) bs left = .ok ⟨.map m, decodeKeys ms⟩ ∧
      canon (.map m : DVal) = anyOf (Cst.valueOf (.obj ms)) := by
  have hb : bad (.obj ms) (.mapOf .any) = false := by
    simp only [bad]; exact badM_any ms
  obtain ⟨v, hu, hview⟩ := decode_ok (.mapOf .any) bs (.obj ms) left h hb
  simp only [sem] at hview
  obtain ⟨m, rfl, hm⟩ := view_eq_map v _ hview
  refine ⟨m, hu, ?_⟩
  have : canon (view (.map m)) = canon (.map m : DVal) := canon_mapRaw parseCst _
  rw [← this]
  have hs : view (.map m) = sem (.obj ms) .any := by simp only [view, mapRaw, sem, hm]
  rw [hs, canon_sem]

/-- decoding a JSON string into a Go `string` (`Impl.asString`) -/
theorem decode_string (bs b : Bytes) (left : List Bytes) (h : parseCst bs = some (.str b)) :
    unmarshalValidWithKeys .str bs left = .ok ⟨.str (unquote b), left⟩ := by
  obtain ⟨v, hu, hview⟩ := decode_ok .str bs (.str b) left h rfl
  have := view_eq_str v _ hview
  subst this
  exact hu

/-- ... anything else but `null` is a type error (`asString` returns none) -/
theorem decode_string_error (bs : Bytes) (c : Cst) (left : List Bytes) (h : parseCst bs = some c)
    (hc : ∀ b, c ≠ .str b) (hn : c.isNullLit = false) :
    ∃ e v, unmarshalValidWithKeys .str bs left = .error e v := by
  have hb : bad c .str = true := by
    cases c with
    | lit s => simp only [Cst.isNullLit] at hn; simp [bad, nullLit, bne, hn]
    | str b => exact absurd rfl (hc b)
    | arr xs => rfl
    | obj ms => rfl
  obtain ⟨e, v, hu, _⟩ := decode_err _ bs c left h hb
  exact ⟨e, v, hu⟩

/-- the havoc field of the C09 world model: decoding the text `null` (with any white space around)
into a map target yields a nil map and leaves `lastKeys` as the previous user of the pooled state
left it — `UnmarshalValidWithKeys` then returns that stale list -/
theorem decode_null_keeps_lastKeys (bs : Bytes) (e : Target) (left : List Bytes)
    (h : parseCst bs = some (.lit (ascii "null"))) :
    unmarshalValidWithKeys (.mapOf e) bs left = .ok ⟨.nilMap, left⟩ := by
  obtain ⟨v, hu, hview⟩ := decode_ok (.mapOf e) bs _ left h rfl
  have := view_eq_nilMap v hview
  subst this
  exact hu

/-- what `Impl.decodeRoot` assumes: a root of the wrong kind is an error for map and slice targets -/
theorem decode_type_errors (bs : Bytes) (c : Cst) (e : Target) (left : List Bytes) (h : parseCst bs = some c)
    (hn : c.isNullLit = false) :
    (c.isObj = false → ∃ err v, unmarshalValidWithKeys (.mapOf e) bs left = .error err v) ∧
    (c.isArr = false → ∃ err v, unmarshalValidWithKeys (.sliceOf e) bs left = .error err v) := by
  constructor
  · intro ho
    have hb : bad c (.mapOf e) = true := by
      cases c with
      | lit s => simp only [Cst.isNullLit] at hn; simp [bad, nullLit, bne, hn]
      | str b => rfl
      | arr xs => rfl
      | obj ms => simp [Cst.isObj] at ho
    obtain ⟨err, v, hu, _⟩ := decode_err _ bs c left h hb
    exact ⟨err, v, hu⟩
  · intro ha
    have hb : bad c (.sliceOf e) = true := by
      cases c with
      | lit s => simp only [Cst.isNullLit] at hn; simp [bad, nullLit, bne, hn]
      | str b => rfl
      | arr xs => simp [Cst.isArr] at ha
      | obj ms => rfl
    obtain ⟨err, v, hu, _⟩ := decode_err _ bs c left h hb
    exact ⟨err, v, hu⟩

/-! ### the checked entry points (`Unmarshal`, `UnmarshalWithKeys`) -/

/-- on a well-formed text `checkValid` passes and the checked entry points are the unchecked ones -/
theorem checked_agrees (t : Target) (bs : Bytes) (c : Cst) (left : List Bytes) (h : parseCst bs = some c) :
    unmarshalWithKeys t bs left = unmarshalValidWithKeys t bs left :=
  checked_eq t bs c left h

/-- any other text is rejected with a syntax error before anything is decoded -/
theorem checked_rejects (t : Target) (bs : Bytes) (left : List Bytes) (h : parseCst bs = none) :
    unmarshalWithKeys t bs left = .error .syntax (zero t) :=
  checked_syntax t bs left h

/-! ### the general statement behind all of the above -/

/-- for every target type of the universe and every well-formed text: the decoded value is `sem c t`
(raw texts through their parse trees), an error is returned iff `bad c t`, and `lastKeys` is
`keysAfter c t left` -/
theorem decode_spec (t : Target) (bs : Bytes) (c : Cst) (left : List Bytes) (h : parseCst bs = some c) :
    (bad c t = false → ∃ v, unmarshalValidWithKeys t bs left = .ok ⟨v, keysAfter c t left⟩ ∧ view v = sem c t) ∧
    (bad c t = true → ∃ e v, unmarshalValidWithKeys t bs left = .error e v ∧ view v = sem c t) :=
  ⟨decode_ok t bs c left h, decode_err t bs c left h⟩

/-! ### examples: the hypotheses are satisfiable, and what the decoder returns on them

(byte literals, not `ascii "…"`: `rfl` evaluates the former quickly) -/

-- `{"a": [1],"b":null}`: a container member, a null member, white space
example : parseCst [123, 34, 97, 34, 58, 32, 91, 49, 93, 44, 34, 98, 34, 58, 110, 117, 108, 108, 125] =
    some (.obj [([97], .arr [.lit [49]]), ([98], .lit [110, 117, 108, 108])]) := by rfl
example : unmarshalValidWithKeys (.mapOf (.raw true))
    [123, 34, 97, 34, 58, 32, 91, 49, 93, 44, 34, 98, 34, 58, 110, 117, 108, 108, 125] [[115]] =
    .ok ⟨.map [([97], .rawText [91, 49, 93]), ([98], .nilPtr)], [[97], [98]]⟩ := by rfl
-- `{"a":1,"a":2}`: a repeated name overwrites, the key list keeps both
example : unmarshalValidWithKeys (.mapOf (.raw true)) [123, 34, 97, 34, 58, 49, 44, 34, 97, 34, 58, 50, 125] [] =
    .ok ⟨.map [([97], .rawText [50])], [[97], [97]]⟩ := by rfl
example : unmarshalValidWithKeys (.mapOf .any) [123, 34, 97, 34, 58, 49, 44, 34, 97, 34, 58, 50, 125] [] =
    .ok ⟨.map [([97], .num [50])], [[97], [97]]⟩ := by rfl

-- `[{"o":"x"},null]` and `[{"o":"x"},7,null]`
example : parseCst [91, 123, 34, 111, 34, 58, 34, 120, 34, 125, 44, 110, 117, 108, 108, 93] =
    some (.arr [.obj [([111], .str [120])], .lit [110, 117, 108, 108]]) := by rfl
example : ∀ x ∈ [Cst.obj [([111], .str [120])], .lit [110, 117, 108, 108]],
    x.isObj = true ∨ x.isNullLit = true := by decide
example : unmarshalValidWithKeys (.sliceOf (.mapOf (.raw true)))
    [91, 123, 34, 111, 34, 58, 34, 120, 34, 125, 44, 110, 117, 108, 108, 93] [] =
    .ok ⟨.list [.map [([111], .rawText [34, 120, 34])], .nilMap], [[111]]⟩ := by rfl
example : unmarshalValidWithKeys (.sliceOf (.raw true))
    [91, 123, 34, 111, 34, 58, 34, 120, 34, 125, 44, 110, 117, 108, 108, 93] [[115]] =
    .ok ⟨.list [.rawText [123, 34, 111, 34, 58, 34, 120, 34, 125], .nilPtr], [[115]]⟩ := by rfl
-- the error is the one of the first ill-typed element (the number, read index 11); later elements are still decoded
example : unmarshalValidWithKeys (.sliceOf (.mapOf (.raw true)))
    [91, 123, 34, 111, 34, 58, 34, 120, 34, 125, 44, 55, 44, 110, 117, 108, 108, 93] [] =
    .error (.typeError .number 12) (.list [.map [([111], .rawText [34, 120, 34])], .nilMap, .nilMap]) := by rfl

-- `"a\n"`, ` null\n`, `[1]`
example : parseCst [34, 97, 92, 110, 34] = some (.str [97, 92, 110]) := by rfl
example : unmarshalValidWithKeys .str [34, 97, 92, 110, 34] [] = .ok ⟨.str [97, 10], []⟩ := by rfl
example : parseCst [32, 110, 117, 108, 108, 10] = some (.lit (ascii "null")) := by rfl
example : unmarshalValidWithKeys (.mapOf (.raw true)) [32, 110, 117, 108, 108, 10] [[115], [116]] =
    .ok ⟨.nilMap, [[115], [116]]⟩ := by rfl
example : parseCst [91, 49, 93] = some (.arr [.lit [49]]) ∧ (Cst.arr [.lit [49]]).isNullLit = false ∧
    (Cst.arr [.lit [49]]).isObj = false := ⟨by rfl, rfl, rfl⟩
example : unmarshalValidWithKeys (.mapOf (.raw true)) [91, 49, 93] [] = .error (.typeError .array 1) .nilMap := by rfl
example : unmarshalWithKeys (.mapOf (.raw true)) [91, 49] [] = .error .syntax .nilMap := by rfl

-- all: no axioms beyond propext, Classical.choice, Quot.sound
-- #print axioms decode_mapraw
-- #print axioms decode_sliceraw
-- #print axioms decode_patch
-- #print axioms decode_patch_error
-- #print axioms decode_any
-- #print axioms decode_mapany
-- #print axioms decode_string
-- #print axioms decode_string_error
-- #print axioms decode_null_keeps_lastKeys
-- #print axioms decode_type_errors
-- #print axioms checked_agrees
-- #print axioms checked_rejects
-- #print axioms decode_spec

end C17
end JP
