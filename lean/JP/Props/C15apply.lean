import JP.Props.C01bytes
import JP.Props.C15text

/-!
# C15 for `Patch.ApplyIndentWithOptions`: the output is well-formed JSON, escaped when asked

* `apply_output_tree`  – whatever the document and the (decoded) patch: a successful `applyBytes`
  returns the compact print of a *well-formed* syntax tree that `compact`'s escaping leaves alone;
* `apply_output_clean` – with EscapeHTML the output has no raw `<`, `>`, `&`, U+2028, U+2029;
* `apply_output_parses` – the output parses (reference parser) unless it nests deeper than `maxDepth`;
* `apply_output_valid` – under the hypotheses of `C01.apply_bytes_refines` (specification defined,
  result at most `maxDepth` deep) the output parses and is clean;
* `indent_is_indent_of_plain`, `indent_succeeds` – a non-empty indent is `Indent` applied to the
  compact output, and `Indent` accepts it.

No hypothesis on the specification's outcome is needed for the first three: they rest on the
invariant `WN` ("every raw message the engine keeps is well formed", `applyOps_W`).
-/

namespace JP.C15
open JP Impl

/-- a successful `applyBytes` (no indent) returns the print of a well-formed tree that escaping
leaves alone -/
theorem apply_output_tree (o : Impl.Opts) (ho : o.ensure = false) (doc patch : Bytes) (ops : List Impl.Op)
    (out : Bytes) (hne : doc ≠ []) (hpatch : Impl.decodePatch patch = .ok ops)
    (h : Impl.applyBytes o [] doc ops = .ok out) :
    ∃ t : Cst, out = Cst.print t ∧ WFC t = true ∧ Cst.escape o.esc t = t := by
  have hfacts := decodePatch_facts hpatch
  unfold applyBytes at h
  simp only [hne, if_false] at h
  split at h
  · cases h
  · cases hdoc : parseCst doc with
    | none => simp [hdoc] at h
    | some c =>
      have hwc := parseCst_wfc_A doc c hdoc
      simp only [hdoc] at h
      cases hd : decodeRoot c with
      | panic => simp [hd] at h
      | err e => simp [hd] at h
      | ok con =>
        simp only [hd] at h
        have hrw : RootW { con := con, self := .raw c, selfCR := c.isArr && !goIsArray doc } := by
          have := decodeRoot_W hwc.1
          rw [hd] at this
          exact ⟨this, hwc.1⟩
        have hW := applyOps_W o ho ops _ 0 hrw (fun op hop => (hfacts op hop).val)
        cases happ : applyOps o { con := con, self := .raw c, selfCR := c.isArr && !goIsArray doc } 0 ops with
        | panic => simp [happ] at h
        | err e => simp [happ] at h
        | ok r =>
          rw [happ] at hW
          simp only [happ] at h
          have key : ∀ n, r.con = n → (n = .docNil → False) → (n = .nilAry → False) →
              marshalRoot o.esc r = .ok (Cst.print (cstOf o.esc n)) := by
            intro n hn h1 h2
            unfold marshalRoot
            rw [hn]
            cases n with
            | docNil => exact absurd rfl h1
            | nilAry => exact absurd rfl h2
            | nil => rfl
            | raw c => rfl
            | doc keys obj => rfl
            | ary ns => rfl
          cases hcon : r.con with
          | docNil => simp [marshalRoot, hcon] at h
          | nilAry =>
            simp only [marshalRoot, hcon, if_true, Outcome.ok.injEq] at h
            exact ⟨litNull, h.symm, WFC_litNull, escape_litNull _⟩
          | nil =>
            rw [key _ hcon (by simp) (by simp)] at h
            simp only [if_true, Outcome.ok.injEq] at h
            exact ⟨_, h.symm, WFC_cstOf _ _ rfl, escape_cstOf _ _⟩
          | raw c' =>
            rw [key _ hcon (by simp) (by simp)] at h
            simp only [if_true, Outcome.ok.injEq] at h
            exact ⟨_, h.symm, WFC_cstOf _ _ (by rw [← hcon]; exact hW.1), escape_cstOf _ _⟩
          | doc keys obj =>
            rw [key _ hcon (by simp) (by simp)] at h
            simp only [if_true, Outcome.ok.injEq] at h
            exact ⟨_, h.symm, WFC_cstOf _ _ (by rw [← hcon]; exact hW.1), escape_cstOf _ _⟩
          | ary ns =>
            rw [key _ hcon (by simp) (by simp)] at h
            simp only [if_true, Outcome.ok.injEq] at h
            exact ⟨_, h.symm, WFC_cstOf _ _ (by rw [← hcon]; exact hW.1), escape_cstOf _ _⟩

/-- with EscapeHTML on, the output has no raw `<`, `>`, `&`, U+2028, U+2029 -/
theorem apply_output_clean (o : Impl.Opts) (ho : o.ensure = false) (doc patch : Bytes) (ops : List Impl.Op)
    (out : Bytes) (hne : doc ≠ []) (hpatch : Impl.decodePatch patch = .ok ops)
    (h : Impl.applyBytes o [] doc ops = .ok out) (hesc : o.esc = true) : hasRawHtml out = false := by
  obtain ⟨t, rfl, hw, he⟩ := apply_output_tree o ho doc patch ops out hne hpatch h
  rw [hesc] at he
  rw [← he]
  exact JP.print_escape_clean t hw

/-- the output parses unless it nests deeper than the reference parser's limit -/
theorem apply_output_parses (o : Impl.Opts) (ho : o.ensure = false) (doc patch : Bytes) (ops : List Impl.Op)
    (out : Bytes) (hne : doc ≠ []) (hpatch : Impl.decodePatch patch = .ok ops)
    (h : Impl.applyBytes o [] doc ops = .ok out) :
    ∃ t : Cst, out = Cst.print t ∧ (t.depth ≤ maxDepth → parseCst out = some t) := by
  obtain ⟨t, rfl, hw, _⟩ := apply_output_tree o ho doc patch ops out hne hpatch h
  exact ⟨t, rfl, fun hd => JP.parse_print t hw hd⟩

/-- **C15 for Apply** (goal 4): under the hypotheses of `C01.apply_bytes_refines`, with the
specification defined and its result at most `maxDepth` deep, a successful `applyBytes` returns
well-formed JSON, and with EscapeHTML no raw HTML-sensitive byte -/
theorem apply_output_valid (o : Impl.Opts) (ho : o.ensure = false) (hl : o.limit = 0)
    (doc patch : Bytes) (c : Cst) (ops : List Impl.Op) (sops : List Spec.Op)
    (hdoc : parseCst doc = some c) (hnd : c.valueOf.noDup = true)
    (hpatch : Impl.decodePatch patch = .ok ops) (hs : specPatch patch = some sops)
    (hvnd : ∀ op ∈ ops, ∀ v, op.value = some v → v.valueOf.noDup = true)
    (sizeAt : Nat → Nat)
    (hdef : Spec.apply (specOpts o) sizeAt c.valueOf sops ≠ .unspec)
    (hdepth : ∀ v, Spec.apply (specOpts o) sizeAt c.valueOf sops = .ok v → v.depth ≤ maxDepth)
    (out : Bytes) (h : Impl.applyBytes o [] doc ops = .ok out) :
    (parseCst out).isSome = true ∧ (o.esc = true → hasRawHtml out = false) := by
  have hne : doc ≠ [] := by rintro rfl; rw [C01.parseCst_nil] at hdoc; cases hdoc
  refine ⟨?_, apply_output_clean o ho doc patch ops out hne hpatch h⟩
  have h2 := C01.apply_bytes_refines o ho hl doc patch c ops sops hdoc hnd hpatch hs hvnd sizeAt
  cases hres : Spec.apply (specOpts o) sizeAt c.valueOf sops with
  | unspec => exact absurd hres hdef
  | fail j cc =>
    rw [hres] at h2
    obtain ⟨e, he⟩ := h2
    rw [he] at h; cases h
  | ok v =>
    rw [hres] at h2
    obtain ⟨out', h1, hp⟩ := h2 (hdepth v hres)
    rw [h1] at h
    simp only [Outcome.ok.injEq] at h
    subst h
    simp only [parseValueOf] at hp
    cases hq : parseCst out' with
    | none => simp [hq] at hp
    | some t => rfl

/-- a non-empty indent: the output is `Indent` applied to the compact output -/
theorem indent_is_indent_of_plain (o : Impl.Opts) (ind doc : Bytes) (ops : List Impl.Op) (out : Bytes)
    (h : Impl.applyBytes o ind doc ops = .ok out) :
    ∃ plain, Impl.applyBytes o [] doc ops = .ok plain ∧
      (ind = [] ∧ out = plain ∨ ind ≠ [] ∧ out = (Scanner.indent ind plain).getD []) := by
  by_cases hind : ind = []
  · subst hind; exact ⟨out, h, Or.inl ⟨rfl, rfl⟩⟩
  · unfold applyBytes at h ⊢
    by_cases hne : doc = []
    · simp only [hne, if_true, Outcome.ok.injEq] at h ⊢
      subst h
      refine ⟨[], rfl, Or.inr ⟨hind, ?_⟩⟩
      have h1 := C16.indent_accepts ind []
      have h2 : Scanner.valid [] = false := by decide
      rw [h2] at h1
      cases hi : Scanner.indent ind [] with
      | none => rfl
      | some x => rw [hi] at h1; cases h1
    · simp only [hne, if_false] at h ⊢
      split at h
      · cases h
      · rename_i hv
        simp only [hv, if_false]
        cases hdoc : parseCst doc with
        | none => simp [hdoc] at h
        | some c =>
          simp only [hdoc] at h ⊢
          cases hd : decodeRoot c with
          | panic => simp [hd] at h
          | err e => simp [hd] at h
          | ok con =>
            simp only [hd] at h ⊢
            cases happ : applyOps o { con := con, self := .raw c, selfCR := c.isArr && !goIsArray doc } 0 ops with
            | panic => simp [happ] at h
            | err e => simp [happ] at h
            | ok r =>
              simp only [happ] at h ⊢
              cases hm : marshalRoot o.esc r with
              | panic => simp [hm] at h
              | err e => simp [hm] at h
              | ok data =>
                simp only [hm, hind, if_false, Outcome.ok.injEq] at h ⊢
                exact ⟨data, by simp, Or.inr ⟨hind, h.symm⟩⟩

/-- `Indent` accepts the compact output (so the `getD []` above is never used) whenever the compact
output parses, in particular under the hypotheses of `apply_output_valid` -/
theorem indent_succeeds (ind plain : Bytes) (h : (parseCst plain).isSome = true) :
    (Scanner.indent ind plain).isSome = true := by
  rw [C16.indent_accepts, (C16.scanner_iff plain).2 h]

/-! ### the hypotheses are satisfiable -/

example : ∃ ops out, Impl.decodePatch C01.exPatch = .ok ops ∧ Impl.applyBytes {} [] C01.exDoc ops = .ok out ∧
    C01.exDoc ≠ [] ∧ (parseCst out).isSome = true ∧ hasRawHtml out = false := by
  have h : (match Impl.decodePatch C01.exPatch with
      | .ok ops =>
        (match Impl.applyBytes {} [] C01.exDoc ops with
         | .ok out => (parseCst out).isSome && !hasRawHtml out
         | _ => false)
      | _ => false) = true := by decide +kernel
  cases h1 : Impl.decodePatch C01.exPatch with
  | err e => simp [h1] at h
  | panic => simp [h1] at h
  | ok ops =>
    cases h2 : Impl.applyBytes {} [] C01.exDoc ops with
    | err e => simp [h1, h2] at h
    | panic => simp [h1, h2] at h
    | ok out =>
      simp only [h1, h2, Bool.and_eq_true, Bool.not_eq_true'] at h
      exact ⟨ops, out, rfl, h2, by decide, h.1, h.2⟩

/-
#print axioms JP.C15.apply_output_tree
#print axioms JP.C15.apply_output_clean
#print axioms JP.C15.apply_output_parses
#print axioms JP.C15.apply_output_valid
#print axioms JP.C15.indent_is_indent_of_plain
#print axioms JP.C15.indent_succeeds
-/

end JP.C15
