import JP.Lemmas.LegacyNoPanic

/-!
# C04, legacy clause: no exported entry point of the legacy (v4) package panics

The legacy model (`JP/Legacy/*.lean`) has an explicit `panic` outcome at every dereference,
index and map assignment that the Go code executes without a guard.  None is reachable from an
exported entry point, whatever bytes are passed.  `DecodePatch` of the legacy package does not
validate (operations may lack `op`, `path`, `from`, `value`), so — unlike for v5 — the engine
theorems carry **no** hypothesis on the operations.

Invariant (`JP/Lemmas/LegacyNoPanic.lean`): the root container and every container a walk
enters is container-shaped (`Legacy.isCon`: parsed object, nil map, or parsed array).
`findObject` never descends into a nil node, `replace` calls `set` only after a successful
`get`, the index arithmetic of `add` stays in range.  For `merge`: a nil map arises only from a
raw `null`, which is never stored inside a parsed object (`Legacy.MOK`), so `mergeDocs` never
assigns into a nil map.
-/

namespace JP.C04
open JP.Legacy

/-- `DecodePatch` -/
theorem legacy_decodePatch_no_panic (bs : Bytes) : Legacy.decodePatch bs ≠ .panic :=
  decodePatch_ne_panic bs

/-- `Patch.Apply` / `ApplyIndent` on any document bytes and **any** list of decoded operations
(validated or not), for both package settings and any copy limit -/
theorem legacy_apply_no_panic (neg : Bool) (limit : Int) (indent doc : Bytes) (ops : List Legacy.Op) :
    Legacy.applyBytes neg limit indent doc ops ≠ .panic :=
  applyBytes_ne_panic neg limit indent doc ops

/-- `DecodePatch` followed by `Apply`, on any two byte strings -/
theorem legacy_decode_apply_no_panic (neg : Bool) (limit : Int) (doc patch : Bytes) :
    Legacy.applyModel neg limit doc patch ≠ .panic :=
  applyModel_ne_panic neg limit doc patch

/-- the engine: from a container-shaped root any operation list runs without panic and leaves a
container-shaped root -/
theorem legacy_applyOps_no_panic (neg : Bool) (limit : Int) (root : Legacy.Node) (acc : Int)
    (ops : List Legacy.Op) (hr : Legacy.isCon root = true) :
    Legacy.applyOps neg limit root acc ops ≠ .panic ∧
      ∀ r', Legacy.applyOps neg limit root acc ops = .ok r' → Legacy.isCon r' = true := by
  have := applyOps_ok neg limit ops root acc hr
  constructor
  · intro h; rw [h] at this; exact this
  · intro r' h; rw [h] at this; exact this

theorem legacy_mergePatch_no_panic (d p : Bytes) : Legacy.mergePatch d p ≠ .panic :=
  doMergePatch_ne_panic false d p

theorem legacy_mergeMergePatches_no_panic (a b : Bytes) : Legacy.mergeMergePatches a b ≠ .panic :=
  doMergePatch_ne_panic true a b

theorem legacy_createMergePatch_no_panic (a b : Bytes) : Legacy.createMergePatch a b ≠ .panic :=
  createMergePatch_ne_panic a b

/-- `Equal` returns a Boolean in the model: it has no panic outcome at all -/
theorem legacy_equal_total (a b : Bytes) : Legacy.equal a b = true ∨ Legacy.equal a b = false := by
  cases Legacy.equal a b <;> simp

/-- the recursive `merge` never assigns into a nil map: from a member of a parsed object
(`MOK`) and a non-null patch it returns a node (`none` is the model's panic) -/
theorem legacy_merge_no_panic (mm : Bool) (cur : Legacy.Node) (p : Cst) (hc : Legacy.MOK cur)
    (hp : p.isNullLit = false) : Legacy.mergeNC mm cur p ≠ none := by
  have := mergeNC_ok mm p cur hc hp
  intro h; rw [h] at this; exact this

/-- the invariant is needed: `mergeDocs` on a nil map panics (the model's image of
"assignment to entry in nil map"), and no entry point reaches that state -/
example : Legacy.mergeNC false .docNil (.obj [(ascii "a", .lit (ascii "1"))]) = none := rfl
/-- …and the container methods do panic on a node that is not a container -/
example : Legacy.conAdd true (.raw (.lit (ascii "1"))) (ascii "a") .nil = .panic := rfl

/-! ### concrete runs (the theorems have no hypotheses; these show non-trivial executions) -/

section Examples

/-- unvalidated operations: no `value`, no `path`, no `from`, unknown `op`; each is an error,
none a panic -/
def exDoc : Bytes := ascii "{\"a\":[5],\"a\":[6,7],\"n\":null}"

def runs (patch : String) : Obs := Legacy.applyModel true 0 exDoc (ascii patch)

example : runs "[{\"op\":\"add\",\"path\":\"/a/-\"}]" = .ok (ascii "{\"a\":[6,7,null],\"n\":null}") := by
  decide +kernel
example : runs "[{\"op\":\"add\"}]" = .err 'M' := by decide +kernel
example : runs "[{\"op\":\"move\",\"path\":\"/b\"}]" = .err 'M' := by decide +kernel
example : runs "[{\"op\":\"replace\",\"path\":\"/a/5\",\"value\":1}]" = .err 'M' := by decide +kernel
example : runs "[{\"op\":\"add\",\"path\":\"/n/x\",\"value\":1}]" = .err 'M' := by decide +kernel
example : runs "[null]" = .err '-' := by decide +kernel
example : runs "[{\"op\":\"test\",\"path\":\"\"}]" = .err 'T' := by decide +kernel

example : (match Legacy.mergePatch (ascii "{\"a\":1,\"b\":{\"c\":2}}") (ascii "{\"b\":{\"c\":null},\"d\":[1]}") with
    | .ok out => out == ascii "{\"a\":1,\"b\":{},\"d\":[1]}" | _ => false) = true := by decide +kernel
example : (match Legacy.mergeMergePatches (ascii "{\"a\":null}") (ascii "{\"a\":{\"b\":null}}") with
    | .ok out => out == ascii "{\"a\":{\"b\":null}}" | _ => false) = true := by decide +kernel
example : (match Legacy.createMergePatch (ascii "{\"a\":1,\"b\":2}") (ascii "{\"a\":1,\"b\":3}") with
    | .ok out => out == ascii "{\"b\":3}" | _ => false) = true := by decide +kernel

end Examples

end JP.C04

-- #print axioms JP.C04.legacy_decodePatch_no_panic
-- #print axioms JP.C04.legacy_apply_no_panic
-- #print axioms JP.C04.legacy_decode_apply_no_panic
-- #print axioms JP.C04.legacy_applyOps_no_panic
-- #print axioms JP.C04.legacy_mergePatch_no_panic
-- #print axioms JP.C04.legacy_mergeMergePatches_no_panic
-- #print axioms JP.C04.legacy_createMergePatch_no_panic
-- #print axioms JP.C04.legacy_equal_total
-- #print axioms JP.C04.legacy_merge_no_panic
