import JP.Lemmas.HeapFinal

/-!
# C04 (heap): the Go heap of `*lazyNode` is refined by the value model

`JP/Heap/Model.lean` transcribes the engine of `v5/patch.go` over a STORE: nodes are addresses,
`intoDoc`/`intoAry` overwrite the cell they parse, `findObject` returns the ADDRESS of the
container it reached, `set/add/remove` rewrite that one cell, `move` links THE SAME pointer it
unlinked.  Sharing and cycles are representable there (D17 was such a cycle).  This file states,
for all heaps / documents / patches, that they never arise and that the store-based engine
computes what the value model (`JP.Impl`) computes — so every theorem about the value model
(C01–C16) is a theorem about the heap model, and "value semantics of nodes" is no longer an
assumption of the trusted base but a theorem about a literal model.

Layers (bottom-up; each is kept as a theorem of its own):

* `Repr h n p fp` — the part of `h` reachable from `p` is a TREE abstracting to `n`; `fp` lists its
  cells once each (a container's footprint = its address + the DISJOINT footprints of its children);
* frame / allocation / write lemmas;
* `intoDoc`, `intoAry`, `intoContainer`; `get` (focus), `set`, `add`, `remove` at an address;
* `find_refines` / `findObject_refines`: in-place descent = `Impl.walk … putChild` (context + wand);
  `findObject_stable`: a second descent along a parsed path returns the same address, same heap;
* the six operations (`remove/add/replace/move/copy/test_op_refines`), `ensure_refines`
  (EnsurePathExistsOnAdd: linked first and filled afterwards = built, then added), `apply_refines`;
* `tree_preserved`, `marshal_terminates`, `applyHeap_eq`, `patch_values_fresh`.

Nothing is left open.  One hypothesis is visible on the state-level theorems: `RootOK r` (the root
of the value model is container-shaped — the invariant of `JP.C04.apply_no_panic`; in Go the root
is a `container` by its type).  It is needed in exactly one place (`ensurePathExists` calls
`doc.add` on the current container BEFORE descending; on a raw "container" the heap model would
crash there while the value model reports the later error first): `ensure_anyNodeGoal_refuted` is
the witness.  The byte-level `applyHeap_eq` has no hypothesis.  The driver keeps comparing
`applyHeap` with `Impl.applyBytes` on every case of the apply streams (a test of the transcription
into the compiled driver, no longer of the proof).

Each theorem is followed by an `example` on the concrete heap `exH`: the document
`{"a":{"b":{"x":2}},"c":[1,null]}` with `/a` parsed, `/a/b` and `/c/0` raw.
-/

namespace JP.C04heap
open JP.Impl (Node Outcome Opts Op Root)
open JP.Heap

/-! ### the example heap -/

def cB : Cst := .obj [(ascii "x", .lit (ascii "2"))]

/-- `0 ↦ {"a":→1,"c":→2}`, `1 ↦ {"b":→3}`, `2 ↦ [→4, nil]`, `3 ↦ raw {"x":2}`, `4 ↦ raw 1` -/
def exH : Heap :=
  [ .doc [ascii "a", ascii "c"] [(ascii "a", some 1), (ascii "c", some 2)],
    .doc [ascii "b"] [(ascii "b", some 3)],
    .ary [some 4, none],
    .raw cB,
    .raw (.lit (ascii "1")) ]

def exN : Node :=
  .doc [ascii "a", ascii "c"]
    [(ascii "a", .doc [ascii "b"] [(ascii "b", .raw cB)]),
     (ascii "c", .ary [.raw (.lit (ascii "1")), .nil])]

theorem ex_repr : Repr exH exN (some 0) [0, 1, 3, 2, 4] := by
  have r3 : Repr exH (.raw cB) (some 3) [3] := Repr.mk_raw rfl
  have r4 : Repr exH (.raw (.lit (ascii "1"))) (some 4) [4] := Repr.mk_raw rfl
  have r1 : Repr exH (.doc [ascii "b"] [(ascii "b", .raw cB)]) (some 1) [1, 3] :=
    Repr.mk_doc (f := [3]) rfl
      (ReprM.mk_cons (f1 := [3]) (f2 := []) r3 (ReprM.mk_nil _) (Disj.nil_right _)) (by decide)
  have r2 : Repr exH (.ary [.raw (.lit (ascii "1")), .nil]) (some 2) [2, 4] :=
    Repr.mk_ary (f := [4]) rfl
      (ReprL.mk_cons (f1 := [4]) (f2 := []) r4
        (ReprL.mk_cons (f1 := []) (f2 := []) (Repr.mk_nil _) (ReprL.mk_nil _) (Disj.nil_left _))
        (Disj.nil_right _)) (by decide)
  exact Repr.mk_doc (f := [1, 3, 2, 4]) rfl
    (ReprM.mk_cons (f1 := [1, 3]) (f2 := [2, 4]) r1
      (ReprM.mk_cons (f1 := [2, 4]) (f2 := []) r2 (ReprM.mk_nil _) (Disj.nil_right _))
      (by intro x hx hy; simp at hx hy; omega)) (by decide)

/-- a heap that is NOT a tree (cell 1 reachable twice) has no representation: the D17 shape -/
def exShared : Heap := [ .ary [some 1, some 1], .raw (.lit (ascii "7")) ]

theorem shared_not_repr (n : Node) (fp : List Nat) : ¬ Repr exShared n (some 0) fp := by
  intro r
  cases n with
  | nil => simp only [Heap.Repr] at r; cases r.1
  | raw c => simp only [Heap.Repr] at r; obtain ⟨a, e, ha, _⟩ := r; cases e; cases ha
  | docNil => simp only [Heap.Repr] at r; obtain ⟨a, e, ha, _⟩ := r; cases e; cases ha
  | nilAry => simp only [Heap.Repr] at r; obtain ⟨a, e, ha, _⟩ := r; cases e; cases ha
  | doc k m => simp only [Heap.Repr] at r; obtain ⟨a, ps, f, e, ha, _⟩ := r; cases e; cases ha
  | ary ns =>
    simp only [Heap.Repr] at r; obtain ⟨a, ps, f, e, ha, hl, _, _⟩ := r; cases e
    have : ps = [some 1, some 1] := by
      have : exShared[0]? = some (.ary [some 1, some 1]) := rfl
      rw [this] at ha; cases ha; rfl
    subst this
    cases ns with
    | nil => simp only [ReprL] at hl; cases hl.1
    | cons n1 ns =>
      simp only [ReprL] at hl
      obtain ⟨p, ps', f1, f2, e, h1, h2, d, _⟩ := hl
      cases e
      cases ns with
      | nil => simp only [ReprL] at h2; cases h2.1
      | cons n2 ns =>
        simp only [ReprL] at h2
        obtain ⟨p2, ps2, g1, g2, e2, h3, _, _, rfl⟩ := h2
        cases e2
        exact d 1 (Repr.head_mem h1) (by simp [Repr.head_mem h3])

/-! ### frame lemmas -/

/-- `Repr` depends on the cells of the footprint only -/
theorem repr_frame {h h' : Heap} {n : Node} {p : Ptr} {fp : List Nat} (r : Repr h n p fp)
    (fr : ∀ x ∈ fp, h'[x]? = h[x]?) : Repr h' n p fp := Repr.frame n r fr

/-- a write to an address outside the footprint preserves `Repr` -/
theorem repr_write {h : Heap} {n : Node} {p : Ptr} {fp : List Nat} (r : Repr h n p fp) {a : Nat}
    (c : Cell) (ha : a ∉ fp) : Repr (h.set a c) n p fp := Repr.write r c ha

/-- allocation preserves `Repr` -/
theorem repr_alloc {h : Heap} {n : Node} {p : Ptr} {fp : List Nat} (r : Repr h n p fp)
    (ext : List Cell) : Repr (h ++ ext) n p fp := Repr.alloc r ext

/-- a footprint lists each cell once and only allocated cells: the reachable part is a tree -/
theorem repr_tree {h : Heap} {n : Node} {p : Ptr} {fp : List Nat} (r : Repr h n p fp) :
    fp.Nodup ∧ (∀ x ∈ fp, x < h.length) ∧ fp.length ≤ h.length :=
  ⟨Repr.nodup n r, Repr.valid n r, r.size_le⟩

example : Repr (exH.set 3 (.raw (.lit (ascii "0")))) (.raw (.lit (ascii "1"))) (some 4) [4] :=
  repr_write (Repr.mk_raw rfl) _ (by decide)
example : Repr (exH ++ [.docNil]) exN (some 0) [0, 1, 3, 2, 4] := repr_alloc ex_repr _
example : [0, 1, 3, 2, 4].Nodup := (repr_tree ex_repr).1

/-! ### primitives -/

/-- `intoDoc` at the root of a footprint refines `Impl.intoDoc`: same outcome; on success the SAME
address represents the parsed node, the heap changed inside the footprint and by allocation only -/
theorem intoDoc_refines {h : Heap} {n : Node} {a : Nat} {f : List Nat} (r : Repr h n (some a) f) :
    OutRel (fun h' n' => ∃ f', Repr h' n' (some a) f' ∧ Ext h h' f f')
      (Heap.intoDoc h (some a)) (Impl.intoDoc n) := Heap.intoDoc_refines r

theorem intoAry_refines {h : Heap} {n : Node} {a : Nat} {f : List Nat} (r : Repr h n (some a) f) :
    OutRel (fun h' n' => ∃ f', Repr h' n' (some a) f' ∧ Ext h h' f f')
      (Heap.intoAry h (some a)) (Impl.intoAry n) := Heap.intoAry_refines r

theorem intoContainer_refines {h : Heap} {n : Node} {a : Nat} {f : List Nat} (r : Repr h n (some a) f) :
    OutRel (fun h' n' => ∃ f', Repr h' n' (some a) f' ∧ Ext h h' f f')
      (Heap.intoContainer h (some a)) (Impl.intoContainer n) := Heap.intoContainer_refines r

example : OutRel (fun h' n' => ∃ f', Repr h' n' (some 3) f' ∧ Ext exH h' [3] f')
    (Heap.intoDoc exH (some 3)) (Impl.intoDoc (.raw cB)) := intoDoc_refines (Repr.mk_raw rfl)
example : (match Heap.intoDoc exH (some 3) with | .ok h' => h'.length | _ => 0) = 6 := by decide
example : (match Heap.intoAry exH (some 3) with | .err .other => true | _ => false) = true := by decide

/-- `get` through an address refines `Impl.conGet`; the child is in focus: any change confined to it
puts `putChild` of the changed child at the same address -/
theorem get_refines (o : Opts) (s : Node) {h : Heap} {con : Node} {c : Nat} {fc : List Nat}
    (key : Bytes) (r : Repr h con (some c) fc) :
    OutRel (Focus o h con c fc key) (hGet o h c key) (Impl.conGet o s con key) :=
  hGet_refines o s key r

/-- `add` rewrites ONE cell and refines `Impl.conAdd` (the value linked in is a tree disjoint from
the container) -/
theorem add_refines (o : Opts) {h : Heap} {con : Node} {c : Nat} {fc : List Nat} {val : Node}
    {p : Ptr} {fv : List Nat} (key : Bytes) (r : Repr h con (some c) fc) (rv : Repr h val p fv)
    (d : Disj fv fc) :
    OutRel (Wrote h c fc fv) (hAdd o h c key p) (Impl.conAdd o con key val) :=
  hAdd_refines o key r rv d

theorem set_refines (o : Opts) {h : Heap} {con : Node} {c : Nat} {fc : List Nat} {val : Node}
    {p : Ptr} {fv : List Nat} (key : Bytes) (r : Repr h con (some c) fc) (rv : Repr h val p fv)
    (d : Disj fv fc) :
    OutRel (Wrote h c fc fv) (hSet o h c key p) (Impl.conSet o con key val) :=
  hSet_refines o key r rv d

/-- `remove` rewrites ONE cell and refines `Impl.conRemove`; the node a preceding `get` returned
is afterwards a tree DISJOINT from the container it left -/
theorem remove_refines (o : Opts) (s : Node) {h : Heap} {con : Node} {c : Nat} {fc : List Nat}
    (key : Bytes) (r : Repr h con (some c) fc) :
    OutRel (Removed o s h con c fc key) (hRemove o h c key) (Impl.conRemove o con key) :=
  hRemove_refines o s key r

example : OutRel (Focus {} exH exN 0 [0, 1, 3, 2, 4] (ascii "c")) (hGet {} exH 0 (ascii "c"))
    (Impl.conGet {} .nil exN (ascii "c")) := get_refines {} .nil _ ex_repr
example : (match hGet {} exH 2 (ascii "-1") with | .ok none => true | _ => false) = true := by decide
example : (match hRemove {} exH 2 (ascii "0") with | .ok h' => h'.length | _ => 0) = 5 := by decide
example : OutRel (Removed {} .nil exH exN 0 [0, 1, 3, 2, 4] (ascii "a")) (hRemove {} exH 0 (ascii "a"))
    (Impl.conRemove {} exN (ascii "a")) := remove_refines {} .nil _ ex_repr

/-! ### `findObject` -/

/-- in-place descent + mutation of the reached container = `Impl.walk … putChild`: after `find` the
heap splits into the subtree at the container reached (`fc`) and a disjoint context (`ctx`); whatever
is put at `c` without touching `ctx` makes the root represent `plug` of it, and `walk` with ANY
action is `doneOf plug (act … conc)` -/
theorem find_refines (o : Opts) (parts : List Bytes) {h : Heap} {a : Nat} {n : Node} {fp : List Nat}
    (cr : Bool) (s : Node) (r : Repr h n (some a) fp) :
    Found o cr s h a n fp parts (find o h a parts) := Heap.find_refines o parts h a n fp cr s r

theorem findObject_refines (o : Opts) (r : Root) {h : Heap} {root : Nat} {fp : List Nat}
    (path : Bytes) (hr : Repr h r.con (some root) fp) :
    FoundP o r h root fp path (findObject o h root path) := Heap.findObject_refines o r path hr

example : FoundP {} { con := exN, self := .nil } exH 0 [0, 1, 3, 2, 4] (ascii "/a/b/x")
    (findObject {} exH 0 (ascii "/a/b/x")) :=
  findObject_refines {} { con := exN, self := .nil } _ ex_repr
/-- the descent to `/a/b` parses cell 3 in place (one new cell for `x`) and returns ADDRESS 3 -/
example : (match findObject {} exH 0 (ascii "/a/b/x") with
    | .ok (h', some (c, _)) => (h'.length, c) | _ => (0, 0)) = (6, 3) := by decide

/-! ### the operations -/

theorem remove_op_refines (o : Opts) {s : St} {r : Root} {fp : List Nat} (op : Op)
    (hr : Repr s.h r.con (some s.root) fp) :
    OutRel (RelSt s.h fp) (Heap.opRemove o s op) (Impl.opRemove o r op) := opRemove_refines o op hr

theorem replace_op_refines (o : Opts) {s : St} {r : Root} {fp : List Nat} (op : Op)
    (hr : Repr s.h r.con (some s.root) fp) :
    OutRel (RelSt s.h fp) (Heap.opReplace o s op) (Impl.opReplace o r op) := opReplace_refines o op hr

/-- `move` links the SAME pointer it unlinked; the result is a tree again and equals the value
model's: the moved footprint leaves the source before it enters the destination -/
theorem move_op_refines (o : Opts) {s : St} {r : Root} {fp : List Nat} (op : Op)
    (hr : Repr s.h r.con (some s.root) fp) :
    OutRel (RelSt s.h fp) (Heap.opMove o s op) (Impl.opMove o r op) := opMove_refines o op hr

/-- `add` (the value is a fresh cell per application), with or without EnsurePathExistsOnAdd -/
theorem add_op_refines (o : Opts) {s : St} {r : Root} {fp : List Nat}
    (op : Op) (hr : Repr s.h r.con (some s.root) fp) (hc : Impl.isCon r.con = true) :
    OutRel (RelSt s.h fp) (Heap.opAdd o s op) (Impl.opAdd o r op) := opAdd_refines_all o op hr hc

/-- `copy` marshals the source AS IT IS NOW into ONE fresh raw cell (no cell of the source is linked
twice); the Go code keeps its pointers across the second `findObject`, the value model walks again:
`findObject_stable` bridges the two -/
theorem copy_op_refines (o : Opts) {s : St} {r : Root} {fp : List Nat} (acc : Int) (op : Op)
    (hr : Repr s.h r.con (some s.root) fp) :
    OutRel (RelAcc s.h fp) (Heap.opCopy o s acc op) (Impl.opCopy o r acc op) := opCopy_refines o acc op hr

/-- `test`: the verdict is the value model's; a successful comparison leaves the visited part
parsed IN PLACE (`deepParseH` refines `Impl.deepParse`) -/
theorem test_op_refines (o : Opts) {s : St} {r : Root} {fp : List Nat} (op : Op)
    (hr : Repr s.h r.con (some s.root) fp) :
    OutRel (RelSt s.h fp) (Heap.opTest o s op) (Impl.opTest o r op) := opTest_refines o op hr

/-- a second `findObject` along the same path, after any further descents, finds the same container
and changes nothing (no tree hypothesis needed) -/
theorem findObject_twice {o : Opts} {h h' : Heap} {root : Nat} {path : Bytes} {oc : Option (Nat × Bytes)}
    (hf : findObject o h root path = .ok (h', oc)) :
    Mono h h' ∧ ∀ c key, oc = some (c, key) →
      ∀ h2, Mono h' h2 → findObject o h2 root path = .ok (h2, some (c, key)) := findObject_stable hf

/-- `ensurePathExists` below a container: the new parent is linked FIRST and filled afterwards, in
place; the value model builds it and adds it last — same tree -/
theorem ensure_refines (o : Opts) (parts : List Bytes) {h : Heap} {a : Nat} {con : Node} {f : List Nat}
    (cr : Bool) (self : Node) (r : Repr h con (some a) f) (hc : Impl.isCon con = true) :
    OutRel (EnsRel h a f) (Heap.ensure o h a parts) (Impl.ensure o cr self con parts) :=
  Heap.ensure_refines o parts h a con f cr self r hc

/-- the hypothesis `isCon` of `ensure_refines` cannot be dropped: on a raw "container" the heap
model crashes at `doc.add` while the value model reports the later index error first -/
def ensure_anyNodeGoal : Prop :=
  ∀ (o : Opts) (parts : List Bytes) (h : Heap) (a : Nat) (con : Node) (f : List Nat) (cr : Bool) (self : Node),
    Repr h con (some a) f → OutRel (EnsRel h a f) (Heap.ensure o h a parts) (Impl.ensure o cr self con parts)

theorem ensure_anyNodeGoal_refuted : ¬ ensure_anyNodeGoal := by
  intro g
  have := g {} [ascii "a", ascii "0", ascii "-5", ascii "x"] [.raw (.lit (ascii "1"))] 0
    (.raw (.lit (ascii "1"))) [0] false .nil (Repr.mk_raw rfl)
  have hX : Heap.ensure {} [.raw (.lit (ascii "1"))] 0 [ascii "a", ascii "0", ascii "-5", ascii "x"] =
      .panic := by
    rw [hensure_cons2]; rfl
  have hY : Impl.ensure {} false .nil (.raw (.lit (ascii "1"))) [ascii "a", ascii "0", ascii "-5", ascii "x"] =
      .err .invalidIndex := by
    rw [Impl.ensure_cons2, Impl.ensure_cons2]; rfl
  rw [hX, hY] at this
  simp at this

def exMove : Op := { kind := ascii "move", path := ascii "/c/0", frm := some (ascii "/a/b") }

example : OutRel (RelSt exH [0, 1, 3, 2, 4]) (Heap.opMove {} ⟨exH, 0⟩ exMove)
    (Impl.opMove {} { con := exN, self := .nil } exMove) :=
  move_op_refines {} (s := ⟨exH, 0⟩) (r := { con := exN, self := .nil }) exMove ex_repr
/-- the move allocates nothing: pointer 3 is re-linked (cell 2 becomes `[→3, →4, nil]`) -/
example : (match Heap.opMove {} ⟨exH, 0⟩ exMove with
    | .ok s' => (s'.h.length, match (s'.h[2]? : Option Cell) with | some (Cell.ary ps) => ps | _ => []) | _ => (0, [])) =
    (5, [some 3, some 4, none]) := by decide

/-! examples for the operations: copy of `/a` appended to `/c`, `test /a/b {"x":2}`, `add /e/f/0 7`
with EnsurePathExistsOnAdd -/

def exRoot : Root := { con := exN, self := .nil }
def exCopy : Op := { kind := ascii "copy", path := ascii "/c/-", frm := some (ascii "/a") }
def exTest : Op := { kind := ascii "test", path := ascii "/a/b", value := some cB }
def exAdd : Op := { kind := ascii "add", path := ascii "/e/f/0", value := some (.lit (ascii "7")) }

theorem ex_rootOK : Impl.RootOK exRoot := by
  refine ⟨rfl, ?_, ?_⟩ <;> simp [exRoot, exN, Impl.NP, Impl.NPM, Impl.NPL, Impl.names, ascii]

example : OutRel (RelAcc exH [0, 1, 3, 2, 4]) (Heap.opCopy {} ⟨exH, 0⟩ 0 exCopy) (Impl.opCopy {} exRoot 0 exCopy) :=
  copy_op_refines {} (s := ⟨exH, 0⟩) (r := exRoot) 0 exCopy ex_repr
/-- the copy is ONE fresh raw cell (address 5) holding the marshalled text of `/a`; its size is accumulated -/
example : (match Heap.opCopy {} ⟨exH, 0⟩ 0 exCopy with
    | .ok (s', acc) => (s'.h.length, acc, match (s'.h[2]? : Option Cell) with | some (Cell.ary ps) => ps | _ => [])
    | _ => (0, 0, [])) = (6, 13, [some 4, none, some 5]) := by decide
example : OutRel (RelSt exH [0, 1, 3, 2, 4]) (Heap.opTest {} ⟨exH, 0⟩ exTest) (Impl.opTest {} exRoot exTest) :=
  test_op_refines {} (s := ⟨exH, 0⟩) (r := exRoot) exTest ex_repr
/-- a successful `test` parses cell 3 in place (one new cell for the member `x`) -/
example : (match Heap.opTest {} ⟨exH, 0⟩ exTest with
    | .ok s' => (s'.h.length, match (s'.h[3]? : Option Cell) with | some (Cell.doc _ ps) => ps | _ => [])
    | _ => (0, [])) = (6, [(ascii "x", some 5)]) := by decide
example : OutRel (RelSt exH [0, 1, 3, 2, 4]) (Heap.opAdd { ensure := true } ⟨exH, 0⟩ exAdd)
    (Impl.opAdd { ensure := true } exRoot exAdd) :=
  add_op_refines { ensure := true } (s := ⟨exH, 0⟩) (r := exRoot) exAdd ex_repr rfl
/-- `e` (cell 5) and `f` (cell 6) are created and linked, the value is cell 7 -/
example : (match Heap.opAdd { ensure := true } ⟨exH, 0⟩ exAdd with
    | .ok s' => (s'.h.length, match (s'.h[6]? : Option Cell) with | some (Cell.ary ps) => ps | _ => [])
    | _ => (0, [])) = (8, [some 7]) := by decide
example : OutRel (EnsRel exH 0 [0, 1, 3, 2, 4]) (Heap.ensure {} exH 0 [ascii "e", ascii "f", ascii "0"])
    (Impl.ensure {} false .nil exN [ascii "e", ascii "f", ascii "0"]) :=
  ensure_refines {} _ false .nil ex_repr rfl

/-! ### the loop -/

/-- same outcome (ok / error class / panic); on ok the new heap `Repr`s the new value as a tree and
differs from the old one inside the old footprint and by allocation only -/
theorem apply_refines (o : Opts) (ops : List Op) (s : St) (r : Root) (fp : List Nat) (acc : Int)
    (hr : Repr s.h r.con (some s.root) fp) (hok : Impl.RootOK r) :
    OutRel (RelSt s.h fp) (Heap.applyOps o s acc ops) (Impl.applyOps o r acc ops) :=
  applyOps_refines o ops s r fp acc hr hok

/-- every heap an application reaches is a tree: no cell is reachable twice, no cycle -/
theorem tree_preserved (o : Opts) (ops : List Op) (s s' : St) (r : Root) (fp : List Nat) (acc : Int)
    (hr : Repr s.h r.con (some s.root) fp) (hrok : Impl.RootOK r)
    (hok : Heap.applyOps o s acc ops = .ok s') :
    ∃ n' fp', Repr s'.h n' (some s'.root) fp' ∧ fp'.Nodup ∧ (∀ x ∈ fp', x < s'.h.length) := by
  have h1 := applyOps_refines o ops s r fp acc hr hrok
  rw [hok] at h1
  cases h2 : Impl.applyOps o r acc ops with
  | panic => rw [h2] at h1; simp at h1
  | err e => rw [h2] at h1; simp at h1
  | ok r' =>
    rw [h2] at h1; simp only [OutRel_ok_ok] at h1
    obtain ⟨fp', hr', _⟩ := h1
    exact ⟨r'.con, fp', hr', Repr.nodup _ hr', Repr.valid _ hr'⟩

/-- on a tree the recursion of `Marshal` returns within fuel = number of cells + 1 (the D17 crash —
unbounded recursion through a cycle — cannot happen), and yields the value model's text -/
theorem marshal_terminates {h : Heap} (esc : Bool) {n : Node} {p : Ptr} {fp : List Nat}
    (r : Repr h n p fp) : marshal esc h (h.length + 1) p = some (Impl.cstOf esc n) :=
  marshal_fuelOf esc r

theorem abs_terminates {h : Heap} {n : Node} {p : Ptr} {fp : List Nat}
    (r : Repr h n p fp) : Heap.abs h (h.length + 1) p = some n := abs_fuelOf r

example : marshal true exH 6 (some 0) = some (Impl.cstOf true exN) := marshal_terminates true ex_repr
/-- on the shared heap the same read-back still terminates, on a cyclic one it runs out of fuel -/
example : (marshal true [.ary [some 0]] 2 (some 0)).isNone = true := by decide

theorem marshalRoot_eq (esc : Bool) {s : St} {r : Root} {fp : List Nat}
    (hr : Repr s.h r.con (some s.root) fp) : Heap.marshalRoot esc s = Impl.marshalRoot esc r :=
  marshalRoot_refines esc hr

/-- the heap engine = the value engine at the byte level -/
theorem applyHeap_eq (o : Opts) (doc : Bytes) (ops : List Op) :
    applyHeap o doc ops = Impl.applyBytes o [] doc ops := Heap.applyHeap_eq o doc ops

/-- so the final `Marshal` of an application never runs out of fuel (never recurses forever) and no
exported theorem about `Impl.applyBytes` is lost: e.g. C04's no-panic theorem, about the heap model -/
theorem applyHeap_no_panic (o : Opts) (doc : Bytes) (ops : List Op) (hv : ∀ op ∈ ops, Impl.OpValid op) :
    applyHeap o doc ops ≠ .panic := by
  rw [applyHeap_eq]; exact Impl.applyBytes_ne_panic o [] doc ops hv

/-- cells created from a patch's values are allocated per application: run ONE patch on two
documents living side by side in one heap (disjoint trees) — afterwards they are still two disjoint
trees: nothing of the first result is reachable from the second -/
theorem patch_values_fresh (o : Opts) (ops : List Op) (h : Heap) (root1 root2 : Nat)
    (r1 r2 : Root) (fp1 fp2 : List Nat) (acc : Int) (ok1' : Impl.RootOK r1) (ok2' : Impl.RootOK r2)
    (h1 : Repr h r1.con (some root1) fp1) (h2 : Repr h r2.con (some root2) fp2) (d : Disj fp2 fp1)
    (s1 s2 : St) (ok1 : Heap.applyOps o ⟨h, root1⟩ acc ops = .ok s1)
    (ok2 : Heap.applyOps o ⟨s1.h, root2⟩ acc ops = .ok s2) :
    ∃ n1 n2 g1 g2, Repr s2.h n1 (some s1.root) g1 ∧ Repr s2.h n2 (some s2.root) g2 ∧ Disj g1 g2 := by
  have a1 := applyOps_refines o ops ⟨h, root1⟩ r1 fp1 acc h1 ok1'
  rw [ok1] at a1
  cases e1 : Impl.applyOps o r1 acc ops with
  | panic => rw [e1] at a1; simp at a1
  | err e => rw [e1] at a1; simp at a1
  | ok r1' =>
    rw [e1] at a1; simp only [OutRel_ok_ok] at a1
    obtain ⟨g1, hg1, x1⟩ := a1
    -- the second document is untouched by the first application
    have h2' : Repr s1.h r2.con (some root2) fp2 := Repr.ext h2 x1 d
    have d' : Disj fp2 g1 := Ext.disj x1 d (Repr.valid _ h2)
    have a2 := applyOps_refines o ops ⟨s1.h, root2⟩ r2 fp2 acc h2' ok2'
    rw [ok2] at a2
    cases e2 : Impl.applyOps o r2 acc ops with
    | panic => rw [e2] at a2; simp at a2
    | err e => rw [e2] at a2; simp at a2
    | ok r2' =>
      rw [e2] at a2; simp only [OutRel_ok_ok] at a2
      obtain ⟨g2, hg2, x2⟩ := a2
      exact ⟨r1'.con, r2'.con, g1, g2, Repr.ext hg1 x2 (Disj.symm d'), hg2,
        Ext.disj x2 (Disj.symm d') (Repr.valid _ hg1)⟩


/-! examples for the loop: move, copy, test, add in one patch -/

def exOps : List Op := [exMove, exCopy, exTest, exAdd]

example : OutRel (RelSt exH [0, 1, 3, 2, 4]) (Heap.applyOps { ensure := true } ⟨exH, 0⟩ 0 exOps)
    (Impl.applyOps { ensure := true } exRoot 0 exOps) :=
  apply_refines { ensure := true } exOps ⟨exH, 0⟩ exRoot _ 0 ex_repr ex_rootOK
/-- after `move /a/b → /c/0` the `test /a/b` fails: same error class in both models -/
example : (match Heap.applyOps { ensure := true } ⟨exH, 0⟩ 0 exOps with
    | .err .testFailed => true | _ => false) = true := by decide
example : (match Impl.applyOps { ensure := true } exRoot 0 exOps with
    | .err .testFailed => true | _ => false) = true := by decide
example : (match Heap.applyOps { ensure := true } ⟨exH, 0⟩ 0 [exMove, exCopy, exAdd] with
    | .ok s' => (marshal true s'.h (s'.h.length + 1) (some s'.root)).isSome | _ => false) = true := by decide
example (s' : St) (hok : Heap.applyOps { ensure := true } ⟨exH, 0⟩ 0 [exMove, exCopy, exAdd] = .ok s') :
    ∃ n' fp', Repr s'.h n' (some s'.root) fp' ∧ fp'.Nodup ∧ (∀ x ∈ fp', x < s'.h.length) :=
  tree_preserved _ _ ⟨exH, 0⟩ s' exRoot _ 0 ex_repr ex_rootOK hok
example : applyHeap {} (ascii "{\"a\":[1]}") [exMove] = Impl.applyBytes {} [] (ascii "{\"a\":[1]}") [exMove] :=
  applyHeap_eq _ _ _

end JP.C04heap
