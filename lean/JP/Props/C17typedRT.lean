import JP.Lemmas.TypedRT
import JP.Lemmas.TypedRT2
import JP.Lemmas.TypedRT3
import JP.Lemmas.TypedRT4
import JP.Lemmas.TypedRT5

set_option linter.unusedSimpArgs false
set_option linter.unusedVariables false

/-!
# C17 — round trip of the typed codec (`Unmarshal (Marshal v)`), by classes of types

`typeddec_roundtrip_via_tree` (C17typeddecNP) reduces the round trip to the encoder tree `typedCst` against the tree
decoder `tvalue`; `JP/Lemmas/TypedRT.lean` proves that statement for the leaf kinds.  The classes are explicit
decidable predicates on `GoType` / `GoVal`.
-/

namespace JP.C17
open JP JP.Codec JP.Codec.Typed JP.Codec.TDec JP.Scanner

/-- what the round trip observes: decode `s` into a fresh variable of type `t`, encode what was found -/
def reencode (esc : Bool) (t : GoType) (s : Bytes) : Option Bytes :=
  match unmarshalTyped t s with
  | .ok (v', _) => marshalTyped esc t v'
  | _ => none

/-- `ParseInt(FormatInt(n)) = n` on int64, `ParseUint(FormatUint(n)) = n` on uint64 -/
theorem typeddec_parseInt_fmtInt (n : Int) (hlo : -(2 ^ 63 : Int) ≤ n) (hhi : n < (2 ^ 63 : Int)) :
    parseInt64 (fmtInt n) = some n := parseInt64_fmtInt n hlo hhi

theorem typeddec_parseUint_decimal (n : Nat) (h : n < 2 ^ 64) : parseUint64 (decimal n) = some n :=
  parseUint64_decimal n h

/-- Round trip, leaf kinds (`rtLeafT`: bool, int, int8 … int64, uint, uint8 … uint64, string; `rtLeafV`: a string
value is valid UTF-8): decoding the encoder's output gives the VALUE back (whatever error slot), hence the same
bytes when it is encoded again. -/
theorem typeddec_roundtrip_leaf (esc : Bool) (t : GoType) (v : GoVal) (s : Bytes) (hl : rtLeafT t = true)
    (hv : v.hasType t = true) (hu : rtLeafV v = true) (hm : marshalTyped esc t v = some s) :
    ∀ v' e, unmarshalTyped t s = .ok (v', e) → v' = v ∧ marshalTyped esc t v' = some s := by
  obtain ⟨hwf, hd, hdep⟩ := rt_leaf_side t v hl hv
  obtain ⟨c, hc, _, hval⟩ := typeddec_roundtrip_via_tree esc t v s hwf hv (by rw [hdep]; exact Nat.zero_le _) hd hm
  intro v' e hun
  have h1 := hval v' e hun
  rw [(rt_leaf_tree esc t v c hl hv hu hc (zeroDV t)).2] at h1
  subst h1
  exact ⟨rfl, hm⟩

/-- ... and the decoder does return on that text: the round trip as an equation -/
theorem typeddec_roundtrip_leaf_reencode (esc : Bool) (t : GoType) (v : GoVal) (s : Bytes) (hl : rtLeafT t = true)
    (hv : v.hasType t = true) (hu : rtLeafV v = true) (hm : marshalTyped esc t v = some s) :
    reencode esc t s = some s := by
  obtain ⟨hwf, hd, hdep⟩ := rt_leaf_side t v hl hv
  obtain ⟨c, hc, hs, hp⟩ := typed_wellformed_tree esc t v s hwf (hasType_typesWf t v hv)
    (by rw [hdep]; exact Nat.zero_le _) hm
  obtain ⟨v', e, hun⟩ := typeddec_no_panic_no_fuel t s c hd hp
  simp only [reencode, hun]
  exact (typeddec_roundtrip_leaf esc t v s hl hv hu hm v' e hun).2

/-- the four leaf kinds, spelled out -/
theorem typeddec_roundtrip_bool (esc : Bool) (b : Bool) (s : Bytes) (hm : marshalTyped esc .bool (.bool b) = some s) :
    reencode esc .bool s = some s :=
  typeddec_roundtrip_leaf_reencode esc .bool (.bool b) s rfl rfl rfl hm

theorem typeddec_roundtrip_int (esc : Bool) (k : IntKind) (n : Int) (hr : k.inRange n = true) (s : Bytes)
    (hm : marshalTyped esc (.int k) (.int n) = some s) : reencode esc (.int k) s = some s :=
  typeddec_roundtrip_leaf_reencode esc (.int k) (.int n) s rfl (by simpa [GoVal.hasType] using hr) rfl hm

theorem typeddec_roundtrip_uint (esc : Bool) (k : UintKind) (n : Nat) (hr : k.inRange n = true) (s : Bytes)
    (hm : marshalTyped esc (.uint k) (.uint n) = some s) : reencode esc (.uint k) s = some s :=
  typeddec_roundtrip_leaf_reencode esc (.uint k) (.uint n) s rfl (by simpa [GoVal.hasType] using hr) rfl hm

theorem typeddec_roundtrip_string (esc : Bool) (x : Bytes) (hx : isValidUtf8 x = true) (s : Bytes)
    (hm : marshalTyped esc .string (.str x) = some s) : reencode esc .string s = some s :=
  typeddec_roundtrip_leaf_reencode esc .string (.str x) s rfl rfl (by simpa [rtLeafV] using hx) hm

/-! ### examples -/

-- int8(-128): `-128`
example : marshalTyped true (.int .int8) (.int (-128)) = some [45,49,50,56] ∧
    reencode true (.int .int8) [45,49,50,56] = some [45,49,50,56] := by decide +kernel
-- uint64(18446744073709551615)
example : reencode true (.uint .uint64) (decimal 18446744073709551615) = some (decimal 18446744073709551615) := by
  decide +kernel
-- "a<é": `"a<é"`-style escaping under esc = true, the raw bytes under esc = false
example : (marshalTyped true .string (.str [97,60,0xC3,0xA9])).bind (reencode true .string) =
    marshalTyped true .string (.str [97,60,0xC3,0xA9]) := by decide +kernel
example : reencode false .bool [116,114,117,101] = some [116,114,117,101] := by decide +kernel
-- the class predicates are decidable: the hypotheses of `typeddec_roundtrip_leaf` on a concrete value
example : rtLeafT (.int .int16) = true ∧ GoVal.hasType (.int .int16) (.int (-300)) = true ∧ rtLeafV (.int (-300)) = true := by
  decide +kernel
/-- outside the class: the invalid byte 0xFF comes back as U+FFFD (the bytes do round-trip, the VALUE does not) -/
example : rtLeafV (.str [0xFF]) = false := by decide +kernel

/-! ### slices and fixed arrays -/

/-- Round trip, slices and fixed arrays (`rtSeqT`: the leaf kinds, `[]T` other than `[]byte`, `[n]T`, nested at
will; `rtSeqV`: every string in the value is valid UTF-8): decoding the encoder's output gives the VALUE back — a nil
slice comes back nil (`null`), an empty one empty (`[]`) — hence the same bytes when it is encoded again. -/
theorem typeddec_roundtrip_seq (esc : Bool) (t : GoType) (v : GoVal) (s : Bytes) (hl : rtSeqT t = true)
    (hv : v.hasType t = true) (hu : rtSeqV v = true) (hdep : v.depth ≤ maxDepth)
    (hm : marshalTyped esc t v = some s) :
    ∀ v' e, unmarshalTyped t s = .ok (v', e) → v' = v ∧ marshalTyped esc t v' = some s := by
  obtain ⟨hwf, hd⟩ := rt_seq_side t hl
  obtain ⟨c, hc, _, hval⟩ := typeddec_roundtrip_via_tree esc t v s hwf hv hdep hd hm
  intro v' e hun
  have h1 := hval v' e hun
  obtain ⟨d, hd1, hd2⟩ := rt_seq_tree esc t _ v c hl hv hu hc
  rw [hd1] at h1
  simp only [TR.val] at h1
  rw [hd2] at h1
  subst h1
  exact ⟨rfl, hm⟩

theorem typeddec_roundtrip_seq_reencode (esc : Bool) (t : GoType) (v : GoVal) (s : Bytes) (hl : rtSeqT t = true)
    (hv : v.hasType t = true) (hu : rtSeqV v = true) (hdep : v.depth ≤ maxDepth)
    (hm : marshalTyped esc t v = some s) : reencode esc t s = some s := by
  obtain ⟨hwf, hd⟩ := rt_seq_side t hl
  obtain ⟨c, hc, hs, hp⟩ := typed_wellformed_tree esc t v s hwf (hasType_typesWf t v hv) hdep hm
  obtain ⟨v', e, hun⟩ := typeddec_no_panic_no_fuel t s c hd hp
  simp only [reencode, hun]
  exact (typeddec_roundtrip_seq esc t v s hl hv hu hdep hm v' e hun).2

-- `[][2]int8{{1,-2},{3,4}}`, `[]string(nil)`, `[]string{}`, `[1][]bool{nil}`
example : rtSeqT (.slice (.array 2 (.int .int8))) = true ∧
    GoVal.hasType (.slice (.array 2 (.int .int8))) (.list [.list [.int 1, .int (-2)], .list [.int 3, .int 4]]) = true ∧
    rtSeqV (.list [.list [.int 1, .int (-2)], .list [.int 3, .int 4]]) = true := by decide +kernel
example : marshalTyped true (.slice (.array 2 (.int .int8))) (.list [.list [.int 1, .int (-2)], .list [.int 3, .int 4]]) =
      some [91,91,49,44,45,50,93,44,91,51,44,52,93,93] ∧
    reencode true (.slice (.array 2 (.int .int8))) [91,91,49,44,45,50,93,44,91,51,44,52,93,93] =
      some [91,91,49,44,45,50,93,44,91,51,44,52,93,93] := by decide +kernel
example : reencode true (.slice .string) [110,117,108,108] = some [110,117,108,108] ∧
    reencode true (.slice .string) [91,93] = some [91,93] ∧
    reencode true (.array 1 (.slice .bool)) [91,110,117,108,108,93] = some [91,110,117,108,108,93] := by decide +kernel

/-! ### one pointer -/

/-- Round trip, a pointer to a NON-nilable type of `rtSeqT` (`rtPtrT`: `*bool`, `*int8`, `*string`, `*[2][]int` …):
nil comes back nil, `&x` comes back as a pointer to `x`.  (A pointer to a nilable type is the counterexample
`typeddec_roundtrip_ptr_counterexample`: `null` decodes to the nil OUTER pointer.) -/
theorem typeddec_roundtrip_ptr (esc : Bool) (t : GoType) (v : GoVal) (s : Bytes) (hl : rtPtrT t = true)
    (hv : v.hasType t = true) (hu : rtPtrV v = true) (hdep : v.depth ≤ maxDepth)
    (hm : marshalTyped esc t v = some s) :
    ∀ v' e, unmarshalTyped t s = .ok (v', e) → v' = v ∧ marshalTyped esc t v' = some s := by
  obtain ⟨hwf, hd⟩ := rt_ptr_side t hl
  obtain ⟨c, hc, _, hval⟩ := typeddec_roundtrip_via_tree esc t v s hwf hv hdep hd hm
  intro v' e hun
  have h1 := hval v' e hun
  obtain ⟨d, hd1, hd2⟩ := rt_ptr_tree esc t _ v c hl hv hu hc
  rw [hd1] at h1
  simp only [TR.val] at h1
  rw [hd2] at h1
  subst h1
  exact ⟨rfl, hm⟩

theorem typeddec_roundtrip_ptr_reencode (esc : Bool) (t : GoType) (v : GoVal) (s : Bytes) (hl : rtPtrT t = true)
    (hv : v.hasType t = true) (hu : rtPtrV v = true) (hdep : v.depth ≤ maxDepth)
    (hm : marshalTyped esc t v = some s) : reencode esc t s = some s := by
  obtain ⟨hwf, hd⟩ := rt_ptr_side t hl
  obtain ⟨c, hc, hs, hp⟩ := typed_wellformed_tree esc t v s hwf (hasType_typesWf t v hv) hdep hm
  obtain ⟨v', e, hun⟩ := typeddec_no_panic_no_fuel t s c hd hp
  simp only [reencode, hun]
  exact (typeddec_roundtrip_ptr esc t v s hl hv hu hdep hm v' e hun).2

-- `*[2]string` pointing at {"a","b"}: `["a","b"]`; `(*int)(nil)`: `null`
example : rtPtrT (.ptr (.array 2 .string)) = true ∧
    GoVal.hasType (.ptr (.array 2 .string)) (.ptr (.list [.str [97], .str [98]])) = true ∧
    rtPtrV (.ptr (.list [.str [97], .str [98]])) = true := by decide +kernel
example : marshalTyped true (.ptr (.array 2 .string)) (.ptr (.list [.str [97], .str [98]])) =
      some [91,34,97,34,44,34,98,34,93] ∧
    reencode true (.ptr (.array 2 .string)) [91,34,97,34,44,34,98,34,93] = some [91,34,97,34,44,34,98,34,93] ∧
    reencode true (.ptr (.int .int)) [110,117,108,108] = some [110,117,108,108] := by decide +kernel
/-- outside the class: a pointer to a slice -/
example : rtPtrT (.ptr (.slice .bool)) = false := by decide +kernel

/-! ### maps with string keys -/

/-- Round trip, `map[string]T` with `T` in `rtSeqT` (`rtMapT`; `rtMapV`: the keys are strings that are valid UTF-8
and have distinct texts — `hasType` already says the keys are distinct —, the elements contain no invalid string):
what comes back is the map with its entries in the order the encoder wrote them (`mapBack`: the model lists the
entries of a map; as a Go map it is the same map), and encoding it again gives the same bytes. -/
theorem typeddec_roundtrip_map (esc : Bool) (t : GoType) (v : GoVal) (s : Bytes) (hl : rtMapT t = true)
    (hv : v.hasType t = true) (hu : rtMapV v = true) (hdep : v.depth ≤ maxDepth)
    (hm : marshalTyped esc t v = some s) :
    ∀ v' e, unmarshalTyped t s = .ok (v', e) → v' = mapBack v ∧ marshalTyped esc t v' = some s := by
  obtain ⟨hwf, hd⟩ := rt_map_side t hl
  obtain ⟨c, hc, hs, hval⟩ := typeddec_roundtrip_via_tree esc t v s hwf hv hdep hd hm
  intro v' e hun
  have h1 := hval v' e hun
  obtain ⟨d, hd1, hd2, hd3⟩ := rt_map_tree esc t v c hl hv hu hc
  rw [hd1] at h1
  simp only [TR.val] at h1
  rw [hd2] at h1
  subst h1
  refine ⟨rfl, ?_⟩
  rw [marshalTyped_eq_print, hd3, hs]
  rfl

theorem typeddec_roundtrip_map_reencode (esc : Bool) (t : GoType) (v : GoVal) (s : Bytes) (hl : rtMapT t = true)
    (hv : v.hasType t = true) (hu : rtMapV v = true) (hdep : v.depth ≤ maxDepth)
    (hm : marshalTyped esc t v = some s) : reencode esc t s = some s := by
  obtain ⟨hwf, hd⟩ := rt_map_side t hl
  obtain ⟨c, hc, hs, hp⟩ := typed_wellformed_tree esc t v s hwf (hasType_typesWf t v hv) hdep hm
  obtain ⟨v', e, hun⟩ := typeddec_no_panic_no_fuel t s c hd hp
  simp only [reencode, hun]
  exact (typeddec_roundtrip_map esc t v s hl hv hu hdep hm v' e hun).2

-- `map[string][]int{"b": {1}, "a": nil}`: `{"a":null,"b":[1]}`
example : rtMapT (.map .str (.slice (.int .int))) = true ∧
    GoVal.hasType (.map .str (.slice (.int .int))) (.map [(.str [98], .list [.int 1]), (.str [97], .nil)]) = true ∧
    rtMapV (.map [(.str [98], .list [.int 1]), (.str [97], .nil)]) = true := by decide +kernel
example : marshalTyped true (.map .str (.slice (.int .int))) (.map [(.str [98], .list [.int 1]), (.str [97], .nil)]) =
      some [123,34,97,34,58,110,117,108,108,44,34,98,34,58,91,49,93,125] ∧
    reencode true (.map .str (.slice (.int .int))) [123,34,97,34,58,110,117,108,108,44,34,98,34,58,91,49,93,125] =
      some [123,34,97,34,58,110,117,108,108,44,34,98,34,58,91,49,93,125] := by decide +kernel

/-! ### maps with integer keys too -/

/-- Round trip, `map[K]T` with `K` string or one of the ten integer kinds and `T` in `rtSeqT` (`rtMapKT`; `rtMapKV`:
string keys valid UTF-8, distinct key TEXTS, elements without invalid strings): the key `FormatInt(n)` is read back by
`ParseInt` into the same key, the entries come back in the order of the key texts. -/
theorem typeddec_roundtrip_mapkeys (esc : Bool) (t : GoType) (v : GoVal) (s : Bytes) (hl : rtMapKT t = true)
    (hv : v.hasType t = true) (hu : rtMapKV v = true) (hdep : v.depth ≤ maxDepth)
    (hm : marshalTyped esc t v = some s) :
    ∀ v' e, unmarshalTyped t s = .ok (v', e) → v' = mapBack v ∧ marshalTyped esc t v' = some s := by
  obtain ⟨hwf, hd⟩ := rt_mapK_side t hl
  obtain ⟨c, hc, hs, hval⟩ := typeddec_roundtrip_via_tree esc t v s hwf hv hdep hd hm
  intro v' e hun
  have h1 := hval v' e hun
  obtain ⟨d, hd1, hd2, hd3⟩ := rt_mapK_tree esc t v c hl hv hu hc
  rw [hd1] at h1
  simp only [TR.val] at h1
  rw [hd2] at h1
  subst h1
  refine ⟨rfl, ?_⟩
  rw [marshalTyped_eq_print, hd3, hs]
  rfl

theorem typeddec_roundtrip_mapkeys_reencode (esc : Bool) (t : GoType) (v : GoVal) (s : Bytes) (hl : rtMapKT t = true)
    (hv : v.hasType t = true) (hu : rtMapKV v = true) (hdep : v.depth ≤ maxDepth)
    (hm : marshalTyped esc t v = some s) : reencode esc t s = some s := by
  obtain ⟨hwf, hd⟩ := rt_mapK_side t hl
  obtain ⟨c, hc, hs, hp⟩ := typed_wellformed_tree esc t v s hwf (hasType_typesWf t v hv) hdep hm
  obtain ⟨v', e, hun⟩ := typeddec_no_panic_no_fuel t s c hd hp
  simp only [reencode, hun]
  exact (typeddec_roundtrip_mapkeys esc t v s hl hv hu hdep hm v' e hun).2

-- `map[int8]bool{10: true, -2: false}`: `{"-2":false,"10":true}` (text order)
example : rtMapKT (.map (.int .int8) .bool) = true ∧
    GoVal.hasType (.map (.int .int8) .bool) (.map [(.int 10, .bool true), (.int (-2), .bool false)]) = true ∧
    rtMapKV (.map [(.int 10, .bool true), (.int (-2), .bool false)]) = true := by decide +kernel
example : marshalTyped true (.map (.int .int8) .bool) (.map [(.int 10, .bool true), (.int (-2), .bool false)]) =
      some [123,34,45,50,34,58,102,97,108,115,101,44,34,49,48,34,58,116,114,117,101,125] ∧
    reencode true (.map (.int .int8) .bool) [123,34,45,50,34,58,102,97,108,115,101,44,34,49,48,34,58,116,114,117,101,125] =
      some [123,34,45,50,34,58,102,97,108,115,101,44,34,49,48,34,58,116,114,117,101,125] := by decide +kernel

/-! ### the classes together -/

/-- the types reached so far: `rtSeqT` (leaf kinds, slices and fixed arrays of them, nested), one pointer to a
non-nilable type of `rtSeqT`, `map[K]T` with `K` string or an integer kind and `T` in `rtSeqT` -/
def rtClassT (t : GoType) : Bool := rtSeqT t || rtPtrT t || rtMapKT t

/-- the matching restriction on the value (strings and keys valid UTF-8) -/
def rtClassV (t : GoType) (v : GoVal) : Bool :=
  if rtSeqT t then rtSeqV v else if rtPtrT t then rtPtrV v else rtMapKV v

/-- `typeddec_roundtripGoal` on `rtClassT`: decoding the encoder's output and encoding again gives the same bytes
(and the decoder does return).  Structs, `[]byte`, `json.Number`, `interface{}` and deeper
pointers stay OPEN. -/
theorem typeddec_roundtrip_classes (esc : Bool) (t : GoType) (v : GoVal) (s : Bytes) (hl : rtClassT t = true)
    (hv : v.hasType t = true) (hu : rtClassV t v = true) (hdep : v.depth ≤ maxDepth)
    (hm : marshalTyped esc t v = some s) :
    reencode esc t s = some s ∧ ∀ v' e, unmarshalTyped t s = .ok (v', e) → marshalTyped esc t v' = some s := by
  by_cases h1 : rtSeqT t = true
  · simp only [rtClassV, h1, if_true] at hu
    exact ⟨typeddec_roundtrip_seq_reencode esc t v s h1 hv hu hdep hm,
      fun v' e h => (typeddec_roundtrip_seq esc t v s h1 hv hu hdep hm v' e h).2⟩
  · by_cases h2 : rtPtrT t = true
    · simp only [rtClassV, h1, h2, if_true, if_false] at hu
      exact ⟨typeddec_roundtrip_ptr_reencode esc t v s h2 hv hu hdep hm,
        fun v' e h => (typeddec_roundtrip_ptr esc t v s h2 hv hu hdep hm v' e h).2⟩
    · have h3 : rtMapKT t = true := by
        simp only [rtClassT, Bool.or_eq_true] at hl
        rcases hl with (h | h) | h
        · exact absurd h h1
        · exact absurd h h2
        · exact h
      simp only [rtClassV, h1, h2, if_false] at hu
      exact ⟨typeddec_roundtrip_mapkeys_reencode esc t v s h3 hv hu hdep hm,
        fun v' e h => (typeddec_roundtrip_mapkeys esc t v s h3 hv hu hdep hm v' e h).2⟩

example : rtClassT (.map .str (.array 2 (.slice .string))) = true ∧ rtClassT (.ptr (.uint .uint16)) = true ∧
    rtClassT (.slice (.slice .bool)) = true ∧ rtClassT (.map (.int .int) .bool) = true ∧ rtClassT (.map .str (.ptr .bool)) = false ∧ rtClassT .iface = false := by
  decide +kernel

end JP.C17
