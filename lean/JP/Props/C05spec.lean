import JP.Lemmas.OrderLiterals
import JP.Lemmas.OrderMerge
import JP.Lemmas.OrderKeys

/-!
# C05 (specification level): Apply and MergePatch keep the presentation of what they do not change

Theorems about the ORDERED specification (`Spec.applyOp`, `Spec.apply`, `Spec.merge`) only:

* `empty_patch_identity` — the empty patch returns the document itself (same members, same
  order, same literals).
* container laws — `keys_set_present` (replace / add-on-existing keep the position),
  `keys_set_absent` (created members are appended), `keys_erase` (survivors keep their relative
  order), `lookup_set_other` / `lookup_erase_other` (one-level frame); arrays:
  `addIn_arr_elements`, `removeIn_arr_elements`, `replaceIn_arr_elements`.
* frame — `frame_object_paths` (one operation), `frame_patch`: the value (hence every number
  literal and the member order) at a pointer `q` that is reached through objects and is
  incomparable with the pointer(s) of the operation(s) is unchanged (the operation's own
  pointer may pass through arrays after the point where the two part);
  `frame_diverge_at_object`: the same when the two pointers part at an object, with arrays
  allowed on the common prefix and anything below.
* literal provenance — `literals_applyOp`, `literals_apply`.
* order — `surviving_keys_op`, `surviving_keys_patch` (object at any pointer `c`),
  `surviving_keys_apply`, `surviving_keys_sublist` (top level): names never removed keep their
  relative order and precede the created ones, which come in creation order.
* merge — `merge_keys_exact`, `merge_keys_old_first`, `merge_literals`.

`resolve neg d q` (`Spec.resolve`) = the value at the decoded pointer `q`; `neg` = the option
SupportNegativeIndices, since the specification's own index reader `readIdx` is used for arrays.
-/

namespace JP.C05
open JP Spec Value

/-! ## empty patch -/

/-- empty patch: identity (same members, same order, same literals) -/
theorem empty_patch_identity (o : Opts) (sizeAt : Nat → Nat) (d : Value) :
    d.isContainer = true → Spec.apply o sizeAt d [] = .ok d := by
  intro h; simp [Spec.apply, h, Spec.applyFrom]

/-- a patch of successful `test`s only: identity as well -/
theorem test_identity (o : Opts) (size acc : Nat) (d d' : Value) (op : Op) (acc' : Nat) :
    op.kind = .test → Spec.applyOp o size acc d op = .ok (d', acc') → d' = d :=
  fun hk h => (applyOp_test_ok hk h).1

/-! ## container-level order laws -/

/-- replace / add-on-existing keep the position of every member -/
theorem keys_set_present (k : Bytes) (v : Value) (ms : Members) :
    (Value.lookup k ms).isSome → Value.keys (Value.set k v ms) = Value.keys ms :=
  Value.keys_set_present k v ms

/-- created members are appended -/
theorem keys_set_absent (k : Bytes) (v : Value) (ms : Members) :
    (Value.lookup k ms).isNone → Value.keys (Value.set k v ms) = Value.keys ms ++ [k] :=
  Value.keys_set_absent k v ms

/-- survivors keep their relative order -/
theorem keys_erase (k : Bytes) (ms : Members) :
    Value.keys (Value.erase k ms) = (Value.keys ms).filter (· ≠ k) :=
  Value.keys_erase k ms

/-- what is written is what is found -/
theorem lookup_set_self (k : Bytes) (v : Value) (ms : Members) :
    Value.lookup k (Value.set k v ms) = some v := Value.lookup_set_self k v ms

/-- members other than `k` keep their value -/
theorem lookup_set_other (k k' : Bytes) (v : Value) (ms : Members) :
    k' ≠ k → Value.lookup k' (Value.set k v ms) = Value.lookup k' ms :=
  fun h => Value.lookup_set_other h v ms

/-- members other than `k` keep their value -/
theorem lookup_erase_other (k k' : Bytes) (ms : Members) :
    k' ≠ k → Value.lookup k' (Value.erase k ms) = Value.lookup k' ms :=
  fun h => Value.lookup_erase_other h ms

/-- array insertion: elements before the slot keep their index, the slot holds the value,
elements from the slot on move up by one; the old elements keep their relative order -/
theorem addIn_arr_elements (o : Opts) (v : Value) (xs : List Value) (t : Bytes) (d' : Value) :
    Spec.addIn o v (.arr xs) t = .ok (d', ()) →
    ∃ i ys, d' = .arr ys ∧ i ≤ xs.length ∧ ys.length = xs.length + 1 ∧
      (∀ j, j < i → ys[j]? = xs[j]?) ∧ ys[i]? = some v ∧ (∀ j, i ≤ j → ys[j + 1]? = xs[j]?) ∧
      xs.Sublist ys := by
  intro h
  obtain ⟨i, hi, rfl⟩ := addIn_arr_ok h
  have hle := slotIdx_le hi
  exact ⟨i, _, rfl, hle, length_insertAt v i xs hle,
    fun j hj => getElem?_insertAt_lt v i xs j hj hle, getElem?_insertAt_self v i xs hle,
    fun j hj => getElem?_insertAt_ge v i xs j hj hle, sublist_insertAt v i xs⟩

/-- array removal: elements before the index keep their index, later ones move down by one;
the survivors keep their relative order -/
theorem removeIn_arr_elements (o : Opts) (xs : List Value) (t : Bytes) (d' old : Value) :
    Spec.removeIn o (.arr xs) t = .ok (d', old) →
    ∃ i ys, d' = .arr ys ∧ xs[i]? = some old ∧
      (∀ j, j < i → ys[j]? = xs[j]?) ∧ (∀ j, i ≤ j → ys[j]? = xs[j + 1]?) ∧ ys.Sublist xs := by
  intro h
  obtain ⟨i, _, hx, rfl⟩ := removeIn_arr_ok h
  exact ⟨i, _, rfl, hx, fun j hj => getElem?_eraseIdx_lt xs hj,
    fun j hj => getElem?_eraseIdx_ge xs hj, List.eraseIdx_sublist xs i⟩

/-- array replacement: only the addressed element changes -/
theorem replaceIn_arr_elements (o : Opts) (v : Value) (xs : List Value) (t : Bytes) (d' : Value) :
    Spec.replaceIn o v (.arr xs) t = .ok (d', ()) →
    ∃ i ys, d' = .arr ys ∧ i < xs.length ∧ ys.length = xs.length ∧ ys[i]? = some v ∧
      (∀ j, j ≠ i → ys[j]? = xs[j]?) := by
  intro h
  obtain ⟨i, _, hlt, rfl⟩ := replaceIn_arr_ok h
  exact ⟨i, _, rfl, hlt, length_setAt v i xs, getElem?_setAt_self v hlt,
    fun j hj => getElem?_setAt_ne v xs (Ne.symm hj)⟩

/-! ## frame: what an operation does not address keeps its value -/

/-- **one operation, whole document.**  `q` is reached through objects (`objPath`: every
proper prefix of `q` resolves to an object) and neither `q` nor any pointer the operation
edits (`path`; for `move` also `from`) is a prefix of the other.  Then the value at `q` — its
members, their order, every number literal — is unchanged, and `q` is still reached through
objects (so the law chains over a patch). -/
theorem frame_object_paths (o : Opts) (size acc : Nat) (d : Value) (op : Op) (d' : Value) (acc' : Nat)
    (q : List Bytes) :
    Spec.applyOp o size acc d op = .ok (d', acc') →
    op.editsIncomparable q → objPath o.neg d q →
    resolve o.neg d' q = resolve o.neg d q ∧ objPath o.neg d' q :=
  fun h hinc hobj => frame_applyOp h hinc hobj

/-- the frame law for a whole patch -/
theorem frame_patch (o : Opts) (sizeAt : Nat → Nat) (d : Value) (ops : List Op) (d' : Value)
    (q : List Bytes) :
    Spec.apply o sizeAt d ops = .ok d' →
    (∀ op, op ∈ ops → op.editsIncomparable q) → objPath o.neg d q →
    resolve o.neg d' q = resolve o.neg d q := by
  intro h hinc hobj
  simp only [Spec.apply] at h
  split at h
  · exact (frame_applyFrom ops 0 0 d d' h hinc hobj).1
  · cases h

/-- the frame law where the two pointers part at an object (the common prefix `c` may pass
through arrays as well; nothing is asked of the rest of `q`): for every operation with one
edited pointer (all kinds but `move`) -/
theorem frame_diverge_at_object (o : Opts) (size acc : Nat) (d : Value) (op : Op) (d' : Value) (acc' : Nat)
    (c : List Bytes) (a b : Bytes) (p' q' : List Bytes) (ms : Members) :
    Spec.applyOp o size acc d op = .ok (d', acc') → op.kind ≠ .move →
    parsePointer op.path = some (c ++ a :: p') → a ≠ b →
    resolve o.neg d c = some (.obj ms) →
    resolve o.neg d' (c ++ b :: q') = resolve o.neg d (c ++ b :: q') := by
  intro h hk hp hab hres
  obtain ⟨p, hp', hcases⟩ := stable_applyOp h
  rw [hp] at hp'; cases hp'
  rcases hcases with ⟨_, hnil | hst⟩ | ⟨hk', _⟩
  · cases c <;> cases hnil
  · exact frame_diverge hst hab hres
  · exact absurd hk' hk

/-! ## literal provenance -/

/-- every number literal of the result occurs in the document or in the operation's value -/
theorem literals_applyOp (o : Opts) (size acc : Nat) (d : Value) (op : Op) (d' : Value) (acc' : Nat) :
    Spec.applyOp o size acc d op = .ok (d', acc') →
    ∀ l ∈ d'.numLits, l ∈ d.numLits ∨ (∃ v, op.value = some v ∧ l ∈ v.numLits) :=
  fun h l hl => lits_applyOp h l hl

/-- the same for a whole patch -/
theorem literals_apply (o : Opts) (sizeAt : Nat → Nat) (d : Value) (ops : List Op) (d' : Value) :
    Spec.apply o sizeAt d ops = .ok d' →
    ∀ l ∈ d'.numLits, l ∈ d.numLits ∨ (∃ op v, op ∈ ops ∧ op.value = some v ∧ l ∈ v.numLits) := by
  intro h l hl
  simp only [Spec.apply] at h
  split at h
  · exact lits_applyFrom ops 0 0 d d' h l hl
  · cases h

/-! ## order of the members across operations -/

/-- **one operation**, object at any pointer `c` reached through objects and not inside a
location the operation edits: its names afterwards are the names not removed
(`removedAt c op`: `remove` of / `move` from a member of this object), in their original
relative order, followed by the created names `N` (at most the member an `add`/`copy`/`move`
targets); a created name was absent before or has just been removed (`move a → a`). -/
theorem surviving_keys_op (o : Opts) (size acc : Nat) (d : Value) (op : Op) (d' : Value) (acc' : Nat)
    (c : List Bytes) (ms : Members) :
    Spec.applyOp o size acc d op = .ok (d', acc') →
    op.editsNotAbove c → objPath o.neg d c → resolve o.neg d c = some (.obj ms) →
    ∃ ms' N, resolve o.neg d' c = some (.obj ms') ∧ objPath o.neg d' c ∧
      Value.keys ms' = (Value.keys ms).filter (· ∉ removedAt c op) ++ N ∧
      (∀ k ∈ N, k ∉ Value.keys ms ∨ k ∈ removedAt c op) ∧
      N.Sublist (createdAt c op) := by
  intro h hna hobj hres
  obtain ⟨ms', N, h1, h2, h3, h4⟩ := keyStep_applyOp h hna hobj hres
  exact ⟨ms', N, h1, h2, h3.1, h3.2, h4⟩

/-- **a whole patch**, object at any pointer `c`: survivors (names never removed) in their
original relative order, then created names in creation order -/
theorem surviving_keys_patch (o : Opts) (sizeAt : Nat → Nat) (d : Value) (ops : List Op) (d' : Value)
    (c : List Bytes) (ms : Members) :
    Spec.apply o sizeAt d ops = .ok d' →
    (∀ op, op ∈ ops → op.editsNotAbove c) → objPath o.neg d c → resolve o.neg d c = some (.obj ms) →
    ∃ ms' N, resolve o.neg d' c = some (.obj ms') ∧
      Value.keys ms' = (Value.keys ms).filter (· ∉ ops.flatMap (removedAt c)) ++ N ∧
      (∀ k ∈ N, k ∉ Value.keys ms ∨ k ∈ ops.flatMap (removedAt c)) ∧
      N.Sublist (ops.flatMap (createdAt c)) := by
  intro h hna hobj hres
  simp only [Spec.apply] at h
  split at h
  · obtain ⟨ms', N, h1, _, h3, h4⟩ := keyStep_applyFrom ops 0 0 d d' ms h hna hobj hres
    exact ⟨ms', N, h1, h3.1, h3.2, h4⟩
  · cases h

/-- the top-level object of the document (no operation replaces the whole document) -/
theorem surviving_keys_apply (o : Opts) (sizeAt : Nat → Nat) (ms : Members) (ops : List Op) (d' : Value) :
    Spec.apply o sizeAt (.obj ms) ops = .ok d' →
    (∀ op, op ∈ ops → op.kind ≠ .test → parsePointer op.path ≠ some [] ∧
        (op.kind = .move → parsePointer op.frm ≠ some [])) →
    ∃ ms' N, d' = .obj ms' ∧
      Value.keys ms' = (Value.keys ms).filter (· ∉ ops.flatMap (removedAt [])) ++ N ∧
      (∀ k ∈ N, k ∉ Value.keys ms ∨ k ∈ ops.flatMap (removedAt [])) ∧
      N.Sublist (ops.flatMap (createdAt [])) := by
  intro h hna
  obtain ⟨ms', N, h1, h2⟩ := surviving_keys_patch o sizeAt (.obj ms) ops d' [] ms h
    (fun op hm => (Op.editsNotAbove_nil op).2 (hna op hm)) (objPath_nil _ _) rfl
  rw [resolve_nil] at h1
  cases h1
  exact ⟨ms', N, rfl, h2⟩

/-- the `Sublist` form: the names of the result that were in the document and were never
removed are exactly the never-removed names of the document in their original order, hence a
sublist of the document's names -/
theorem surviving_keys_sublist (o : Opts) (sizeAt : Nat → Nat) (ms : Members) (ops : List Op) (d' : Value) :
    Spec.apply o sizeAt (.obj ms) ops = .ok d' →
    (∀ op, op ∈ ops → op.kind ≠ .test → parsePointer op.path ≠ some [] ∧
        (op.kind = .move → parsePointer op.frm ≠ some [])) →
    ∃ ms', d' = .obj ms' ∧
      (Value.keys ms').filter (fun k => k ∈ Value.keys ms ∧ k ∉ ops.flatMap (removedAt [])) =
        (Value.keys ms).filter (· ∉ ops.flatMap (removedAt [])) ∧
      ((Value.keys ms').filter (fun k => k ∈ Value.keys ms ∧ k ∉ ops.flatMap (removedAt []))).Sublist
        (Value.keys ms) := by
  intro h hna
  obtain ⟨ms', N, rfl, h1, h2, _⟩ := surviving_keys_apply o sizeAt ms ops d' h hna
  have hk : KeyStep (ops.flatMap (removedAt [])) N (Value.keys ms) (Value.keys ms') := ⟨h1, h2⟩
  exact ⟨ms', rfl, hk.survivors, hk.sublist⟩

/-- without removals (no `remove`, no `move` from a top-level member) the document's names
are an initial segment of the result's names -/
theorem keys_prefix_of_no_removal (o : Opts) (sizeAt : Nat → Nat) (ms : Members) (ops : List Op) (d' : Value) :
    Spec.apply o sizeAt (.obj ms) ops = .ok d' →
    (∀ op, op ∈ ops → op.kind ≠ .test → parsePointer op.path ≠ some [] ∧
        (op.kind = .move → parsePointer op.frm ≠ some [])) →
    ops.flatMap (removedAt []) = [] →
    ∃ ms' N, d' = .obj ms' ∧ Value.keys ms' = Value.keys ms ++ N ∧ N.Sublist (ops.flatMap (createdAt [])) := by
  intro h hna hR
  obtain ⟨ms', N, rfl, h1, h2, h3⟩ := surviving_keys_apply o sizeAt ms ops d' h hna
  rw [hR] at h1 h2
  exact ⟨ms', N, rfl, KeyStep.prefix_of_nil ⟨h1, h2⟩, h3⟩

/-! ## MergePatch -/

/-- the names of a merge result, exactly: the surviving names of the target in target order
(a name survives unless the patch holds `null` under it), then the names only the patch
holds with a non-null value, in patch order.  Patch names must be duplicate-free: with
`{"a":null,"a":1}` the member `a` is deleted and re-created at the end. -/
theorem merge_keys_exact (ts ps : Members) :
    nodupKeys (Value.keys ps) = true →
    Value.keys (Spec.mergeMs ts ps) =
      (Value.keys ts).filter (survives ps) ++
      (Value.keys ps).filter (fun k => (Value.lookup k ts).isNone && survives ps k) :=
  fun h => keys_mergeMs ps h ts

/-- surviving members keep document order and precede the new ones -/
theorem merge_keys_old_first (ts ps : Members) :
    nodupKeys (Value.keys ps) = true →
    ∃ new, Value.keys (Spec.mergeMs ts ps) = (Value.keys ts).filter (survives ps) ++ new ∧
      (∀ k ∈ new, (Value.lookup k ts).isNone) ∧ new.Sublist (Value.keys ps) := by
  intro h
  refine ⟨_, merge_keys_exact ts ps h, ?_, List.filter_sublist⟩
  intro k hk
  have := (List.mem_filter.1 hk).2
  simp only [Bool.and_eq_true] at this
  exact this.1

/-- the member lists are merged at every depth: an object patch on an object target -/
theorem merge_obj_obj (ts ps : Members) : Spec.merge (.obj ts) (.obj ps) = .obj (Spec.mergeMs ts ps) :=
  merge_obj (.obj ts) ps

/-- … and a member both hold (patch value not null) is the merge of the two values -/
theorem merge_member (ts ps : Members) (k : Bytes) (tv pv : Value) :
    nodupKeys (Value.keys ps) = true → Value.lookup k ts = some tv → Value.lookup k ps = some pv →
    pv ≠ .null → Value.lookup k (Spec.mergeMs ts ps) = some (Spec.merge tv pv) := by
  intro hnd ht hp hn
  rw [lookup_mergeMs k ps hnd ts, ht, hp, mergeOpt_of_ne_null _ hn]; rfl

/-- a merge never alters or invents a number literal -/
theorem merge_literals (t p : Value) :
    ∀ l ∈ (Spec.merge t p).numLits, l ∈ t.numLits ∨ l ∈ p.numLits :=
  fun l hl => lits_merge p t l hl

/-! ## the hypotheses are satisfiable: one concrete document, patch and merge patch -/

section Examples

/-- `{"a":1,"b":{"x":2.0},"c":[1e0]}` -/
def exDoc : Value :=
  .obj [(ascii "a", .num (ascii "1")), (ascii "b", .obj [(ascii "x", .num (ascii "2.0"))]),
        (ascii "c", .arr [.num (ascii "1e0")])]

def exOps : List Op :=
  [ { kind := .add, path := ascii "/b/y", value := some (.num (ascii "3")) },
    { kind := .remove, path := ascii "/a" },
    { kind := .move, frm := ascii "/c", path := ascii "/a" },
    { kind := .replace, path := ascii "/b/x", value := some (.num (ascii "0.50")) } ]

/-- `{"b":{"x":0.50,"y":3},"a":[1e0]}` -/
def exRes : Value :=
  .obj [(ascii "b", .obj [(ascii "x", .num (ascii "0.50")), (ascii "y", .num (ascii "3"))]),
        (ascii "a", .arr [.num (ascii "1e0")])]

def exOp : Op := { kind := .add, path := ascii "/b/y", value := some (.num (ascii "3")) }

def exMs : Members := [(ascii "a", .num (ascii "1")), (ascii "b", .num (ascii "2"))]

example : exDoc.isContainer = true := rfl
example : Spec.apply {} (fun _ => 0) exDoc [] = .ok exDoc := empty_patch_identity _ _ _ rfl

example : (Value.lookup (ascii "a") exMs).isSome = true := rfl
example : Value.keys (Value.set (ascii "a") .null exMs) = [ascii "a", ascii "b"] :=
  keys_set_present _ _ _ rfl
example : (Value.lookup (ascii "z") exMs).isNone = true := rfl
example : Value.keys (Value.set (ascii "z") .null exMs) = [ascii "a", ascii "b", ascii "z"] :=
  keys_set_absent _ _ _ rfl
example : Value.keys (Value.erase (ascii "a") exMs) = [ascii "b"] := by rw [keys_erase]; rfl
example : Value.lookup (ascii "b") (Value.set (ascii "a") .null exMs) = some (.num (ascii "2")) := by
  rw [lookup_set_other _ _ _ _ (by decide)]; rfl
example : Value.lookup (ascii "b") (Value.erase (ascii "a") exMs) = some (.num (ascii "2")) := by
  rw [lookup_erase_other _ _ _ (by decide)]; rfl

theorem classify_zero : classify (ascii "0") = .int 0 := by decide +kernel

example : ∃ d', Spec.addIn {} .null (.arr [.bool true, .bool false]) (ascii "-") = .ok (d', ()) := ⟨_, rfl⟩
example : ∃ d' old, Spec.removeIn {} (.arr [.bool true, .bool false]) (ascii "0") = .ok (d', old) :=
  ⟨_, _, by simp only [removeIn, readIdx, classify_zero]; rfl⟩
example : ∃ d', Spec.replaceIn {} .null (.arr [.bool true, .bool false]) (ascii "0") = .ok (d', ()) :=
  ⟨_, by simp only [replaceIn, readIdx, classify_zero]; rfl⟩

/-- the first operation of the example patch applies … -/
example : ∃ d', Spec.applyOp {} 0 0 exDoc exOp = .ok (d', 0) := ⟨_, rfl⟩
/-- … `/a` and `/c/0` are incomparable with its path `/b/y` and reached through objects -/
example : exOp.editsIncomparable [ascii "a"] := by
  intro _
  refine ⟨fun p hp => ?_, fun hk => absurd hk (by decide)⟩
  have : p = [ascii "b", ascii "y"] := Option.some.inj (hp.symm.trans (by rfl))
  subst this
  constructor <;> (intro h; rw [List.cons_prefix_cons] at h; exact absurd h.1 (by decide))
example : objPath false exDoc [ascii "a"] := by
  intro c x rest h
  cases c with
  | nil => exact ⟨_, rfl⟩
  | cons y c => cases c <;> cases h

/-- `/b/y` and `/b/x` part at the object at `/b` -/
example : parsePointer exOp.path = some ([ascii "b"] ++ ascii "y" :: []) := by rfl
example : resolve false exDoc [ascii "b"] = some (.obj [(ascii "x", .num (ascii "2.0"))]) := rfl

/-- the whole example patch applies -/
example : Spec.apply {} (fun _ => 0) exDoc exOps = .ok exRes := by rfl
/-- no operation of the example patch addresses the root -/
example : ∀ op, op ∈ exOps → op.kind ≠ .test → parsePointer op.path ≠ some [] ∧
    (op.kind = .move → parsePointer op.frm ≠ some []) := by
  intro op hm _
  simp only [exOps, List.mem_cons, List.not_mem_nil, or_false] at hm
  rcases hm with rfl | rfl | rfl | rfl <;>
    exact ⟨by decide, fun hk => by first | exact absurd hk (by decide) | decide⟩
/-- removed at top level: `a` (by the remove) and `c` (by the move); created: `b`-path head,
`a` -/
example : exOps.flatMap (removedAt []) = [ascii "a", ascii "c"] := by rfl
example : exOps.flatMap (createdAt []) = [ascii "b", ascii "a"] := by rfl
/-- result names `[b, a]` = survivors `[b]` ++ created `[a]` -/
example : (match exRes with | .obj ms => Value.keys ms | _ => []) = [ascii "b", ascii "a"] := rfl
/-- the object at `/b`: nothing removed, `y` appended after `x` -/
example : ∀ op, op ∈ exOps → op.editsNotAbove [ascii "b"] := by
  intro op hm _
  simp only [exOps, List.mem_cons, List.not_mem_nil, or_false] at hm
  have hnp : ∀ (p : List Bytes) (x : Bytes), p.length = 2 ∨ p.head? ≠ some x → p ≠ [] → ¬ p <+: [x] := by
    intro p x hp hne hpre
    rcases List.prefix_cons_iff.1 hpre with h | ⟨t, rfl, ht⟩
    · exact hne h
    · rw [List.prefix_nil] at ht; subst ht
      rcases hp with hp | hp
      · simp at hp
      · simp at hp
  rcases hm with rfl | rfl | rfl | rfl
  · refine ⟨fun p hp => ?_, fun hk => absurd hk (by decide)⟩
    have : p = [ascii "b", ascii "y"] := Option.some.inj (hp.symm.trans (by rfl))
    subst this; exact hnp _ _ (Or.inl rfl) (by simp)
  · refine ⟨fun p hp => ?_, fun hk => absurd hk (by decide)⟩
    have : p = [ascii "a"] := Option.some.inj (hp.symm.trans (by rfl))
    subst this; exact hnp _ _ (Or.inr (by decide)) (by simp)
  · refine ⟨fun p hp => ?_, fun _ f hf => ?_⟩
    · have : p = [ascii "a"] := Option.some.inj (hp.symm.trans (by rfl))
      subst this; exact hnp _ _ (Or.inr (by decide)) (by simp)
    · have : f = [ascii "c"] := Option.some.inj (hf.symm.trans (by rfl))
      subst this; exact hnp _ _ (Or.inr (by decide)) (by simp)
  · refine ⟨fun p hp => ?_, fun hk => absurd hk (by decide)⟩
    have : p = [ascii "b", ascii "x"] := Option.some.inj (hp.symm.trans (by rfl))
    subst this; exact hnp _ _ (Or.inl rfl) (by simp)
example : resolve false exDoc [ascii "b"] = some (.obj [(ascii "x", .num (ascii "2.0"))]) := rfl
example : exOps.flatMap (removedAt [ascii "b"]) = [] := by rfl
example : exOps.flatMap (createdAt [ascii "b"]) = [ascii "y"] := by rfl

/-- merge: target `{"a":1,"b":2}`, patch `{"b":null,"z":{"n":1.0},"a":7}` -/
def exPatch : Members :=
  [(ascii "b", .null), (ascii "z", .obj [(ascii "n", .num (ascii "1.0"))]), (ascii "a", .num (ascii "7"))]

example : nodupKeys (Value.keys exPatch) = true := by decide
example : Value.keys (Spec.mergeMs exMs exPatch) = [ascii "a", ascii "z"] := by
  rw [merge_keys_exact _ _ (by decide)]; rfl
example : Value.lookup (ascii "a") exMs = some (.num (ascii "1")) ∧
    Value.lookup (ascii "a") exPatch = some (.num (ascii "7")) := ⟨rfl, rfl⟩
example : (Spec.merge (.obj exMs) (.obj exPatch)).numLits = [ascii "7", ascii "1.0"] := by rfl

end Examples

end JP.C05

/-
#print axioms JP.C05.empty_patch_identity
#print axioms JP.C05.keys_set_present
#print axioms JP.C05.keys_set_absent
#print axioms JP.C05.keys_erase
#print axioms JP.C05.lookup_set_other
#print axioms JP.C05.lookup_erase_other
#print axioms JP.C05.addIn_arr_elements
#print axioms JP.C05.removeIn_arr_elements
#print axioms JP.C05.replaceIn_arr_elements
#print axioms JP.C05.frame_object_paths
#print axioms JP.C05.frame_patch
#print axioms JP.C05.frame_diverge_at_object
#print axioms JP.C05.literals_applyOp
#print axioms JP.C05.literals_apply
#print axioms JP.C05.surviving_keys_op
#print axioms JP.C05.surviving_keys_patch
#print axioms JP.C05.surviving_keys_apply
#print axioms JP.C05.surviving_keys_sublist
#print axioms JP.C05.keys_prefix_of_no_removal
#print axioms JP.C05.merge_keys_exact
#print axioms JP.C05.merge_keys_old_first
#print axioms JP.C05.merge_literals
#print axioms JP.C05.merge_member
-/
