import JP.Driver
import JP.Impl.Den

/-! # Property C18 — theorems (see DESIGN.md §6) -/

namespace JP
namespace C18

end C18
end JP
