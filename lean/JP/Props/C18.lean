import JP.Lemmas.LegacyEngineText

/-!
# C18 — the legacy (v4) `Apply` computes the RFC 6902 result up to member order

`applyOps_refines`: the legacy engine model `Legacy.applyOps` refines the specification
`Spec.applyFrom` (options: negative indices as the package variable says, no ensure, no
allow-missing, copy limit 0), operation list by operation list, with `Value.eqv` in place of
ordered equality:

* where the specification succeeds, the legacy engine succeeds and the value of its root is the
  specification's result up to member order (`Sim`: both duplicate-free and `Value.eqv`; number
  literals are compared by their spelling, so they are kept);
* where the specification fails with a *listed* cause — a failing `test`, an array index out of
  range (`badIndex`), the `remove` / `move` of an absent location — the legacy engine reports an
  error (no document);
* nothing is claimed where the specification says `unspec` (outside the documented dialect) or
  fails with another cause (the legacy package deviates there: `replace` of an absent member
  succeeds, a `copy` whose source is an absent member copies `null`, a path through a duplicated
  `null` reads as a nil map, …, examples at the end).

The simulation relation `Legacy.Rel root d` (`JP/Lemmas/LegacyEngineApply.lean`) relates the
legacy root to the specification's document: invariant `Inv` (`WF`: names duplicate-free, no nil
map inside; `LT`: the text invariant), parsed container, `Sim (den root) d`.  The relation is
*not* equality of ordered values, because `copy` duplicates by `json.Marshal`, which prints the
members of a parsed object sorted by name; `JP/Lemmas/LegacyCongr.lean` shows that the
specification respects `Sim`.

Hypotheses per decoded operation (`Legacy.OpOK`, all decidable: `opOKb`):
* `dom`  – the deviations the property leaves out are excluded: `add` at the root, `copy` from the
  root or without `from`, `test` without `value`;
* `val`  – a present value has duplicate-free names and satisfies the text invariant `RawOK`
  (string values are fixed by `unquote` and by the HTML escaper: `test` compares spellings and
  `copy` re-spells; names survive re-quoting);
* `toks` – the reference tokens of `path` survive `quoteBody true` / `unquote`;
* `nn`   – a present value is not the literal `null` (guaranteed by `Legacy.decodeOp`).

RFC 6901 strictness (`Legacy.strictOp`, decidable, `JP/Lemmas/LegacyEngineApply.lean`).  The
specification rejects a non-empty pointer without a leading `/` (`parentUnreachable`; for `move` /
`copy` with such a destination the failure of the source half is reported); the legacy
`findObject` ignores the text before the first `/`.  The property text for the legacy package does
not promise this strictness, so the theorems carry the hypothesis `strictOp op` for every
operation: the `path` of a `remove`, `move` or `copy` and the `from` of a `move` parse (`add`,
`replace`, `test` with a malformed `path` and `copy` with a malformed `from` need no exclusion: the
specification's failure is not a listed cause there).  The examples at the end show it is needed.
-/

namespace JP
namespace C18
open Value Legacy

/-- **C18, the engine**: from a root related to the document `d`, against `Spec.applyFrom` -/
theorem applyOps_refines (neg : Bool) (sizeAt : Nat → Nat) (ops : List Legacy.Op) (sops : List Spec.Op)
    (root : Legacy.Node) (d : Value) (i acc : Nat) (acci : Int)
    (hrel : Rel root d) (hs : Legacy.specOps ops = some sops) (hops : ∀ op ∈ ops, OpOK op)
    (hstrict : ∀ op ∈ ops, Legacy.strictOp op = true) :
    match Spec.applyFrom (Legacy.specOpts neg) sizeAt i acc d sops with
    | .ok v => ∃ r', Legacy.applyOps neg 0 root acci ops = .ok r' ∧
        Legacy.WF r' = true ∧ isDA r' = true ∧ Value.eqv (Legacy.den r') v = true ∧ Rel r' v
    | .fail j c => listedAt sops i j c = true → ∃ e, Legacy.applyOps neg 0 root acci ops = .err e
    | .unspec => True := by
  have := applyOps_refines_rel neg sizeAt ops sops root d i acc acci hrel hs hops hstrict
  cases hres : Spec.applyFrom (Legacy.specOpts neg) sizeAt i acc d sops with
  | unspec => trivial
  | fail j c => rw [hres] at this; exact this
  | ok v =>
    rw [hres] at this
    obtain ⟨r', h1, h2⟩ := this
    exact ⟨r', h1, h2.1.1, h2.2.1, h2.2.2.2.2, h2⟩

/-- **C18 from the document's syntax tree**: `Spec.apply` on the value of an object- or
array-rooted document against the engine started on the root `ApplyIndent` decodes -/
theorem apply_refines (neg : Bool) (sizeAt : Nat → Nat) (c : Cst)
    (hc1 : c.valueOf.noDup = true) (hc2 : RawOK c = true)
    (ops : List Legacy.Op) (sops : List Spec.Op)
    (hs : Legacy.specOps ops = some sops) (hops : ∀ op ∈ ops, OpOK op)
    (hstrict : ∀ op ∈ ops, Legacy.strictOp op = true) :
    match Spec.apply (Legacy.specOpts neg) sizeAt c.valueOf sops with
    | .ok v => ∃ r', Legacy.applyOps neg 0 (rootOf c) 0 ops = .ok r' ∧
        Legacy.WF r' = true ∧ Value.eqv (Legacy.den r') v = true
    | .fail j c' => listedAt sops 0 j c' = true → ∃ e, Legacy.applyOps neg 0 (rootOf c) 0 ops = .err e
    | .unspec => True := by
  simp only [Spec.apply]
  cases hcont : c.valueOf.isContainer with
  | false => simp
  | true =>
    simp only [if_true]
    have h := applyOps_refines neg sizeAt ops sops (rootOf c) c.valueOf 0 0 0
      (rootOf_rel hc1 hc2 hcont) hs hops hstrict
    cases hres : Spec.applyFrom (Legacy.specOpts neg) sizeAt 0 0 c.valueOf sops with
    | unspec => trivial
    | fail j cc => rw [hres] at h; exact h
    | ok v =>
      rw [hres] at h
      obtain ⟨r', h1, h2, _, h4, _⟩ := h
      exact ⟨r', h1, h2, h4⟩

/-- **C18 on texts**: `Apply` (no indent) on a well-formed object- or array-rooted document.  On
success the output is the marshalled root, whose syntax tree denotes the RFC result up to member
order; a listed failure is an error (no document) -/
theorem applyBytes_refines (neg : Bool) (sizeAt : Nat → Nat) (doc : Bytes) (c : Cst)
    (hp : parseCst doc = some c) (hc1 : c.valueOf.noDup = true) (hc2 : RawOK c = true)
    (ops : List Legacy.Op) (sops : List Spec.Op)
    (hs : Legacy.specOps ops = some sops) (hops : ∀ op ∈ ops, OpOK op)
    (hstrict : ∀ op ∈ ops, Legacy.strictOp op = true) :
    match Spec.apply (Legacy.specOpts neg) sizeAt c.valueOf sops with
    | .ok v => ∃ r', Legacy.applyBytes neg 0 [] doc ops = .ok (Cst.print (Legacy.cstOf r')) ∧
        (Legacy.cstOf r').valueOf.noDup = true ∧ Value.eqv (Legacy.cstOf r').valueOf v = true
    | .fail j c' => listedAt sops 0 j c' = true → ∃ e, Legacy.applyBytes neg 0 [] doc ops = .err e
    | .unspec => True := by
  simp only [Spec.apply]
  cases hcont : c.valueOf.isContainer with
  | false => simp
  | true =>
    simp only [if_true]
    have hcc : (c.isArr || c.isObj) = true := by rw [← Legacy.isContainer_valueOf]; exact hcont
    have hroot := decodeRoot_of_parse hp hcc
    have hne := parseCst_ne_nil hp
    have h := applyOps_refines neg sizeAt ops sops (rootOf c) c.valueOf 0 0 0
      (rootOf_rel hc1 hc2 hcont) hs hops hstrict
    cases hres : Spec.applyFrom (Legacy.specOpts neg) sizeAt 0 0 c.valueOf sops with
    | unspec => trivial
    | fail j cc =>
      rw [hres] at h
      intro hl
      obtain ⟨e, he⟩ := h hl
      exact ⟨e, applyBytes_err hne hroot he⟩
    | ok v =>
      rw [hres] at h
      obtain ⟨r', h1, _, _, _, hrel⟩ := h
      have hsim := cstOf_sim r' hrel.1
      have := Sim.trans hsim hrel.2.2
      exact ⟨r', applyBytes_ok hne hroot h1, this.1, this.2.2⟩

/-! ### the hypotheses are decidable -/

/-- Boolean form of `OpOK` -/
def opOKb (op : Legacy.Op) : Bool :=
  (match op.value with
   | .val c => c.valueOf.noDup && RawOK c && !c.isNullLit
   | _ => true) &&
  (match op.path with
   | .ok p => (match Spec.parsePointer p with
               | some toks => toks.all (Impl.QK true)
               | none => true)
   | _ => true) &&
  opDom op

theorem opOK_of_b {op : Legacy.Op} (h : opOKb op = true) : OpOK op := by
  simp only [opOKb, Bool.and_eq_true] at h
  obtain ⟨⟨h1, h2⟩, h3⟩ := h
  refine ⟨?_, ?_, ?_, h3⟩
  · intro c hc
    rw [hc] at h1
    simp only [Bool.and_eq_true, Bool.not_eq_true'] at h1
    exact ⟨h1.1.1, h1.1.2⟩
  · intro p toks hp ht t hmem
    rw [hp] at h2
    simp only [ht, List.all_eq_true] at h2
    exact h2 t hmem
  · intro c hc
    rw [hc] at h1
    simp only [Bool.and_eq_true, Bool.not_eq_true'] at h1
    exact h1.2

/-- what `Legacy.decodeOp` produces never holds the literal `null` as a present value -/
theorem decodeOp_nn (ms : List (Bytes × Cst)) : ∀ c, (Legacy.decodeOp ms).value = .val c → c.isNullLit = false := by
  intro c h
  simp only [Legacy.decodeOp, Legacy.opValue, Legacy.member] at h
  split at h
  · cases h
  · cases h
  · rename_i c' hm
    simp only [ValField.val.injEq] at h
    subst h
    split at hm
    · cases hm
    · rename_i c'' _
      split at hm
      · cases hm
      · rename_i hn
        simp only [Member.val.injEq] at hm
        subst hm
        simpa using hn

/-! ### the hypotheses in primitive terms

`PlainCst c`: every body of the tree — string values and member names — holds no backslash,
quote or control character, none of `<`, `>`, `&`, U+2028, U+2029, and is valid UTF-8 (this is
the harness's "no escapes, no raw HTML characters"); reference tokens are valid UTF-8. -/

/-- Boolean side conditions on one decoded operation, in primitive terms -/
def opPlainb (op : Legacy.Op) : Bool :=
  (match op.value with
   | .val c => c.valueOf.noDup && PlainCst c && !c.isNullLit
   | _ => true) &&
  (match op.path with
   | .ok p => (match Spec.parsePointer p with
               | some toks => toks.all isValidUtf8
               | none => true)
   | _ => true) &&
  opDom op

theorem opOK_of_plain {op : Legacy.Op} (h : opPlainb op = true) : OpOK op := by
  simp only [opPlainb, Bool.and_eq_true] at h
  obtain ⟨⟨h1, h2⟩, h3⟩ := h
  refine ⟨?_, ?_, ?_, h3⟩
  · intro c hc
    rw [hc] at h1
    simp only [Bool.and_eq_true, Bool.not_eq_true'] at h1
    exact ⟨h1.1.1, RawOK_of_PlainCst h1.1.2⟩
  · intro p toks hp ht t hmem
    rw [hp] at h2
    simp only [ht, List.all_eq_true] at h2
    exact QK_of_utf8 (h2 t hmem)
  · intro c hc
    rw [hc] at h1
    simp only [Bool.and_eq_true, Bool.not_eq_true'] at h1
    exact h1.2

/-- **C18 on texts, primitive hypotheses**: a well-formed object- or array-rooted document without
duplicate names, document and operation values spelled plainly, valid UTF-8 reference tokens -/
theorem applyBytes_refines_plain (neg : Bool) (sizeAt : Nat → Nat) (doc : Bytes) (c : Cst)
    (hp : parseCst doc = some c) (hc1 : c.valueOf.noDup = true) (hc2 : PlainCst c = true)
    (ops : List Legacy.Op) (sops : List Spec.Op)
    (hs : Legacy.specOps ops = some sops) (hops : ∀ op ∈ ops, opPlainb op = true)
    (hstrict : ∀ op ∈ ops, Legacy.strictOp op = true) :
    match Spec.apply (Legacy.specOpts neg) sizeAt c.valueOf sops with
    | .ok v => ∃ r', Legacy.applyBytes neg 0 [] doc ops = .ok (Cst.print (Legacy.cstOf r')) ∧
        (Legacy.cstOf r').valueOf.noDup = true ∧ Value.eqv (Legacy.cstOf r').valueOf v = true
    | .fail j c' => listedAt sops 0 j c' = true → ∃ e, Legacy.applyBytes neg 0 [] doc ops = .err e
    | .unspec => True :=
  applyBytes_refines neg sizeAt doc c hp hc1 (RawOK_of_PlainCst hc2) ops sops hs
    (fun op h => opOK_of_plain (hops op h)) hstrict

/-! ### the hypotheses are satisfiable: a run with every kind of operation -/

section Examples

/-- `{"a":{"y":1,"x":[10,20,30]},"b":"s","n":null}` -/
def exDoc : Cst := .obj [(ascii "a", .obj [(ascii "y", .lit (ascii "1")),
    (ascii "x", .arr [.lit (ascii "10"), .lit (ascii "20"), .lit (ascii "30")])]),
  (ascii "b", .str (ascii "s")), (ascii "n", .lit (ascii "null"))]

def mkOp (kind path : String) (frm : Option String := none) (value : ValField := .absent) : Legacy.Op :=
  { kind := ascii kind, path := .ok (ascii path),
    frm := match frm with | some f => .ok (ascii f) | none => .missing, value := value }

/-- add into an array by a negative index (`-1`: after the last element), copy an object, test the copy (member order differs:
the copy is printed sorted), move, replace, remove, add null -/
def exOps : List Legacy.Op := [
  mkOp "add" "/a/x/-1" none (.val (.lit (ascii "25"))),
  mkOp "copy" "/c" (some "/a"),
  mkOp "test" "/c" none (.val (.obj [(ascii "x", .arr [.lit (ascii "10"), .lit (ascii "20"), .lit (ascii "30"), .lit (ascii "25")]), (ascii "y", .lit (ascii "1"))])),
  mkOp "move" "/a/x/0" (some "/b"),
  mkOp "replace" "/a/y" none (.val (.lit (ascii "1.0"))),
  mkOp "remove" "/n",
  mkOp "add" "/z" none .null]

example : exDoc.valueOf.noDup = true ∧ RawOK exDoc = true ∧ exDoc.valueOf.isContainer = true := by
  decide +kernel
example : exOps.all opOKb = true := by decide +kernel
example : exOps.all Legacy.strictOp = true := by decide +kernel
example : ∀ op ∈ exOps, Legacy.strictOp op = true :=
  Legacy.strictOps_iff.1 (by decide +kernel)
example : PlainCst exDoc = true ∧ exOps.all opPlainb = true := by decide +kernel
example : parseCst (Cst.print exDoc) = some exDoc := rfl
example : (Legacy.specOps exOps).isSome = true := by decide +kernel

/-- the legacy run, and the specification's result on the same input: equal up to member order
(`"c"` is printed with its members sorted), literals kept (`1.0`) -/
example : (match Legacy.applyBytes true 0 [] (Cst.print exDoc) exOps with
    | .ok out => out == ascii "{\"a\":{\"x\":[\"s\",10,20,30,25],\"y\":1.0},\"c\":{\"x\":[10,20,30,25],\"y\":1},\"z\":null}"
    | _ => false) = true := by decide +kernel
example : (match Legacy.specOps exOps with
    | some sops => (match Spec.apply (Legacy.specOpts true) (fun _ => 0) exDoc.valueOf sops,
          parseValueOf (ascii "{\"a\":{\"x\":[\"s\",10,20,30,25],\"y\":1.0},\"c\":{\"x\":[10,20,30,25],\"y\":1},\"z\":null}") with
        | .ok v, some w => Value.eqv v w && !Value.beq v w
        | _, _ => false)
    | none => false) = true := by decide +kernel

/-- negative indices follow the package setting: with `SupportNegativeIndices = false` the first
operation is an index error for both -/
example : (match Legacy.applyBytes false 0 [] (Cst.print exDoc) exOps with
    | .err .invalidIndex => true | _ => false) = true := by decide +kernel
example : (match Legacy.specOps exOps with
    | some sops => (match Spec.apply (Legacy.specOpts false) (fun _ => 0) exDoc.valueOf sops with
        | .fail 0 .badIndex => listedAt sops 0 0 .badIndex
        | _ => false)
    | none => false) = true := by decide +kernel

/-- listed failures: a failing test, the removal of an absent member -/
example : (match Legacy.applyBytes true 0 [] (Cst.print exDoc)
      [mkOp "test" "/b" none (.val (.str (ascii "t")))] with
    | .err .testFailed => true | _ => false) = true := by decide +kernel
example : (match Legacy.applyBytes true 0 [] (Cst.print exDoc) [mkOp "remove" "/q"] with
    | .err .missing => true | _ => false) = true := by decide +kernel

/-- copy yields an independent duplicate: changing the copy leaves the source alone -/
example : (match Legacy.applyBytes true 0 [] (Cst.print exDoc)
      [mkOp "copy" "/c" (some "/a/x"), mkOp "add" "/c/0" none (.val (.lit (ascii "0")))] with
    | .ok out => out == ascii "{\"a\":{\"x\":[10,20,30],\"y\":1},\"b\":\"s\",\"c\":[0,10,20,30],\"n\":null}"
    | _ => false) = true := by decide +kernel

end Examples

/-! ### the excluded deviations are real

`specRun` / `legacyRun` run the specification and the legacy model on the same document and
patch; each example shows the two disagreeing on an input that violates exactly one hypothesis
(or fails with an unlisted cause). -/

section Deviations

def specRun (neg : Bool) (c : Cst) (ops : List Legacy.Op) : Spec.Outcome :=
  match Legacy.specOps ops with
  | some sops => Spec.apply (Legacy.specOpts neg) (fun _ => 0) c.valueOf sops
  | none => .unspec

def legacyOk (c : Cst) (ops : List Legacy.Op) : Bool :=
  match Legacy.applyBytes true 0 [] (Cst.print c) ops with
  | .ok _ => true
  | _ => false

def specOk (c : Cst) (ops : List Legacy.Op) : Bool :=
  match specRun true c ops with
  | .ok _ => true
  | _ => false

/-- `{"a":1}` -/
def dDoc : Cst := .obj [(ascii "a", .lit (ascii "1"))]

/-- `add` at the root: RFC replaces the document, the legacy package reports "missing" (`dom`) -/
example : specOk dDoc [mkOp "add" "" none (.val (.obj []))] = true ∧
    legacyOk dDoc [mkOp "add" "" none (.val (.obj []))] = false := by decide +kernel

/-- `copy` from the root: RFC copies the whole document, the legacy package reports "missing" (`dom`) -/
example : specOk dDoc [mkOp "copy" "/b" (some "")] = true ∧
    legacyOk dDoc [mkOp "copy" "/b" (some "")] = false := by decide +kernel

/-- `test` without `value` after a null was added: the specification reads the missing operand as
null and succeeds, the legacy package fails (`dom`; RFC 6902 requires `value`) -/
example : specOk dDoc [mkOp "add" "/n" none .null, mkOp "test" "/n"] = true ∧
    legacyOk dDoc [mkOp "add" "/n" none .null, mkOp "test" "/n"] = false := by decide +kernel

/-- escaped spelling under `test`: equal values, different spellings (`val`: `RawOK` fails) -/
example : specOk (.obj [(ascii "a", .str (ascii "A"))]) [mkOp "test" "/a" none (.val (.str (ascii "\\u0041")))] = true ∧
    legacyOk (.obj [(ascii "a", .str (ascii "A"))]) [mkOp "test" "/a" none (.val (.str (ascii "\\u0041")))] = false ∧
    RawOK (.str (ascii "\\u0041")) = false := by decide +kernel

/-- `<` under `test` after a `copy`: the duplicate is re-spelled `<` (`RawOK` fails on the document) -/
example : specOk (.obj [(ascii "a", .str (ascii "<"))])
      [mkOp "copy" "/b" (some "/a"), mkOp "test" "/b" none (.val (.str (ascii "<")))] = true ∧
    legacyOk (.obj [(ascii "a", .str (ascii "<"))])
      [mkOp "copy" "/b" (some "/a"), mkOp "test" "/b" none (.val (.str (ascii "<")))] = false ∧
    RawOK (.obj [(ascii "a", .str (ascii "<"))]) = false := by decide +kernel

/-- unlisted failure causes, where the legacy package goes on: `replace` of an absent member -/
example : (match specRun true dDoc [mkOp "replace" "/q" none (.val (.lit (ascii "2")))] with
    | .fail 0 .absentMember => true | _ => false) = true ∧
    legacyOk dDoc [mkOp "replace" "/q" none (.val (.lit (ascii "2")))] = true := by decide +kernel

/-- … `copy` of an absent member (copies a nil node, printed `null`) -/
example : (match specRun true dDoc [mkOp "copy" "/b" (some "/q")] with
    | .fail 0 .absentMember => true | _ => false) = true ∧
    legacyOk dDoc [mkOp "copy" "/b" (some "/q")] = true := by decide +kernel

/-- … `test` below the duplicate of a null (a raw `null` is entered as a nil map) -/
example : (match specRun true dDoc [mkOp "add" "/n" none .null, mkOp "copy" "/m" (some "/n"),
        mkOp "test" "/m/x" none .null] with
    | .fail 2 .parentUnreachable => true | _ => false) = true ∧
    legacyOk dDoc [mkOp "add" "/n" none .null, mkOp "copy" "/m" (some "/n"), mkOp "test" "/m/x" none .null] = true := by
  decide +kernel

/-! #### RFC 6901 strictness (`strictOp`): the hypothesis is needed -/

/-- a pointer without a leading `/`: does not resolve for the specification (listed for `remove`:
`parentUnreachable`), the legacy package ignores the text before the first `/` and removes `a` -/
example : (match specRun true dDoc [mkOp "remove" "x/a"] with
    | .fail 0 .parentUnreachable => true | _ => false) = true ∧
    (match Legacy.specOps [mkOp "remove" "x/a"] with
     | some sops => listedAt sops 0 0 .parentUnreachable | none => false) = true ∧
    legacyOk dDoc [mkOp "remove" "x/a"] = true ∧
    Legacy.strictOp (mkOp "remove" "x/a") = false ∧
    opOKb (mkOp "remove" "x/a") = true := by decide +kernel

/-- … the same for the `from` of a `move` -/
example : (match specRun true dDoc [mkOp "move" "/b" (some "x/a")] with
    | .fail 0 .parentUnreachable => true | _ => false) = true ∧
    legacyOk dDoc [mkOp "move" "/b" (some "x/a")] = true ∧
    Legacy.strictOp (mkOp "move" "/b" (some "x/a")) = false := by decide +kernel

/-- `add` with such a pointer needs no exclusion: `parentUnreachable` is not listed for `add` -/
example : (match specRun true dDoc [mkOp "add" "x/b" none (.val (.lit (ascii "2")))] with
    | .fail 0 .parentUnreachable => true | _ => false) = true ∧
    Legacy.strictOp (mkOp "add" "x/b" none (.val (.lit (ascii "2")))) = true := by decide +kernel

end Deviations

end C18
end JP

-- #print axioms JP.C18.applyOps_refines
-- #print axioms JP.C18.apply_refines
-- #print axioms JP.C18.applyBytes_refines
-- #print axioms JP.C18.applyBytes_refines_plain
-- #print axioms JP.C18.opOK_of_plain
-- #print axioms JP.C18.opOK_of_b
-- #print axioms JP.C18.decodeOp_nn
