import JP.Props.C07impl
import JP.Props.C07spec
import JP.Props.C02bytes

/-!
# C07 at byte level — `MergeMergePatches` on texts, and the library law

`mergeMerge_bytes`: on two well-formed texts with duplicate-free names, compatible when the first
is an object, `MergeMergePatches` succeeds and its output denotes exactly `Spec.compose`.

`library_law`: the whole chain on texts — applying the combined patch to a document gives, up to
member order, what applying the two patches in succession gives.  All intermediate outputs are
re-parsed; that they satisfy the hypotheses again (well-formed, duplicate-free, non-null) is part
of the proof.
-/

namespace JP
namespace C07
open Value Impl

/-- the text invariant of the result node of `doMergePatch true` -/
theorem GoodN_composeTree (dc pc : Cst) (r : Node) (hd : GC maxDepth dc) (hp : GC maxDepth pc)
    (h : composeTree dc pc = some r) : GoodN maxDepth r = true := by
  cases pc with
  | lit s => simp [composeTree] at h
  | str s => simp [composeTree] at h
  | arr xs =>
    simp only [composeTree, Option.some.injEq] at h
    subst h
    exact GoodN_decodeAry _ xs hp
  | obj pms =>
    have hdec : GoodN maxDepth (decodeDoc pms) = true := GoodN_decodeDoc _ pms hp
    cases dc with
    | lit s => simp only [composeTree, Option.some.injEq] at h; subst h; exact hdec
    | str s => simp only [composeTree, Option.some.injEq] at h; subst h; exact hdec
    | arr xs => simp only [composeTree, Option.some.injEq] at h; subst h; exact hdec
    | obj dms =>
      simp only [composeTree, Option.some.injEq] at h
      subst h
      exact GoodN_mergeNC true _ _ _ ((GoodN_raw _ _).2 hd) hp

/-- **`MergeMergePatches` on texts**: the output denotes exactly (member order included) the
composition of the two patches -/
theorem mergeMerge_bytes (p1 p2 : Bytes) (c1 c2 : Cst)
    (h1 : parseCst p1 = some c1) (h2 : parseCst p2 = some c2)
    (hnn : c1.isNullLit = false)
    (hd1 : c1.valueOf.noDup = true) (hd2 : c2.valueOf.noDup = true)
    (hcomp : c1.isObj = true → Spec.compatible c1.valueOf c2.valueOf = true) :
    ∃ out, mergeMergePatches p1 p2 = .ok out ∧
      parseValueOf out = some (Spec.compose c1.valueOf c2.valueOf) := by
  have hv1 := C02.valid_of_parse p1 c1 h1
  have hv2 := C02.valid_of_parse p2 c2 h2
  have hg1 := GC_of_parse p1 c1 h1
  have hg2 := GC_of_parse p2 c2 h2
  refine ⟨_, doMergePatch_true_eq p1 p2 c1 c2 hv1 hv2 h1 h2 hnn, ?_⟩
  cases hpn : c2.isNullLit with
  | true =>
    have e := (isNullLit_iff c2).mp hpn
    simp only [if_true, parseValueOf, h2, Option.map_some]
    rw [e]
    simp [Cst.valueOf, Cst.litValue, Spec.compose]
  | false =>
    simp only [Bool.false_eq_true, if_false]
    have hden := composeTree_den c1 c2 hd1 hd2 hcomp
    cases hm : composeTree c1 c2 with
    | none =>
      rw [hm] at hden
      simp only [parseValueOf, h2, Option.map_some]
      rw [← hden]
    | some r =>
      rw [hm] at hden
      have hg := GoodN_composeTree c1 c2 r hg1 hg2 hm
      simp only [parseValueOf]
      rw [parse_print_cstOf r hg]
      simp only [Option.map_some]
      rw [valueOf_cstOf' r maxDepth hden.1 hg, hden.2]

theorem parse_of_value {x : Bytes} {v : Value} (h : parseValueOf x = some v) :
    ∃ c, parseCst x = some c ∧ c.valueOf = v := by
  unfold parseValueOf at h
  cases hc : parseCst x with
  | none => simp [hc] at h
  | some c =>
    simp only [hc, Option.map_some, Option.some.injEq] at h
    exact ⟨c, rfl, h⟩

theorem isNullLit_false_of_value {c : Cst} (h : c.valueOf ≠ .null) : c.isNullLit = false := by
  cases hn : c.isNullLit with
  | false => rfl
  | true =>
    rw [(isNullLit_iff c).mp hn] at h
    exact absurd (by simp [Cst.valueOf, Cst.litValue]) h

/-- **the library law on texts.**  `D` a non-null document, `P1` an object patch, `P2` any patch,
all duplicate-free, `P1`, `P2` compatible: every call succeeds, and
`MergePatch(D, MergeMergePatches(P1, P2))` denotes the same value, up to member order, as
`MergePatch(MergePatch(D, P1), P2)` -/
theorem library_law (D P1 P2 : Bytes) (d v1 v2 : Value)
    (hD : parseValueOf D = some d) (h1 : parseValueOf P1 = some v1) (h2 : parseValueOf P2 = some v2)
    (hdn : d ≠ .null) (ho1 : v1.isObj = true)
    (ndd : d.noDup = true) (nd1 : v1.noDup = true) (nd2 : v2.noDup = true)
    (hcomp : Spec.compatible v1 v2 = true) :
    ∃ m o12 o1 o2, mergeMergePatches P1 P2 = .ok m ∧ mergePatch D m = .ok o12 ∧
      mergePatch D P1 = .ok o1 ∧ mergePatch o1 P2 = .ok o2 ∧
      ∃ w12 w2, parseValueOf o12 = some w12 ∧ parseValueOf o2 = some w2 ∧
        w12 = Spec.merge d (Spec.compose v1 v2) ∧ w2 = Spec.merge (Spec.merge d v1) v2 ∧
        Value.eqv w2 w12 = true := by
  obtain ⟨cD, pD, rfl⟩ := parse_of_value hD
  obtain ⟨c1, p1, rfl⟩ := parse_of_value h1
  obtain ⟨c2, p2, rfl⟩ := parse_of_value h2
  have hnD := isNullLit_false_of_value hdn
  have hn1 : c1.isNullLit = false :=
    isNullLit_false_of_value (by intro e; rw [e] at ho1; cases ho1)
  -- the combined patch
  obtain ⟨m, m1, m2⟩ := mergeMerge_bytes P1 P2 c1 c2 p1 p2 hn1 nd1 nd2 (fun _ => hcomp)
  obtain ⟨cm, pm, em⟩ := parse_of_value m2
  have ndm : cm.valueOf.noDup = true := by rw [em]; exact compose_noDup nd1 nd2
  obtain ⟨o12, a1, a2⟩ := C02.mergePatch_bytes D m cD cm pD pm hnD ndd ndm
  -- one after the other
  obtain ⟨o1, b1, b2⟩ := C02.mergePatch_bytes D P1 cD c1 pD p1 hnD ndd nd1
  obtain ⟨co1, po1, eo1⟩ := parse_of_value b2
  have ndo1 : co1.valueOf.noDup = true := by rw [eo1]; exact Spec.noDup_merge _ _ ndd nd1
  have hno1 : co1.isNullLit = false := by
    apply isNullLit_false_of_value
    rw [eo1]
    cases hv : c1.valueOf with
    | obj ps => rw [Spec.merge_obj]; intro e; cases e
    | _ => rw [hv] at ho1; cases ho1
  obtain ⟨o2, c1', c2'⟩ := C02.mergePatch_bytes o1 P2 co1 c2 po1 p2 hno1 ndo1 nd2
  refine ⟨m, o12, o1, o2, m1, a1, b1, c1', _, _, a2, c2', by rw [em], by rw [eo1], ?_⟩
  rw [em, eo1]
  exact compose_law_strong nd1 nd2 ndd hcomp

/-! ### the hypotheses are satisfiable -/

private def tD : Bytes := ascii "{\"a\":{\"a\":1,\"b\":1},\"b\":1,\"c\":{\"c\":1}}"
private def tP1 : Bytes := ascii "{\"a\":{\"a\":null,\"c\":2},\"b\":null}"
private def tP2 : Bytes := ascii "{\"a\":{\"b\":null,\"c\":null},\"b\":2,\"c\":{\"a\":2}}"

example : ((parseValueOf tD).map fun d => d.noDup && !d.isNull) = some true ∧
    ((parseValueOf tP1).map fun v => v.noDup && v.isObj) = some true ∧
    ((parseValueOf tP2).map fun v => v.noDup) = some true := by decide +kernel
example : ((parseValueOf tP1).bind fun v1 => (parseValueOf tP2).map fun v2 => Spec.compatible v1 v2) = some true := by
  decide +kernel
example : (match mergeMergePatches tP1 tP2 with | .ok o => some o | _ => none) =
    some (ascii "{\"a\":{\"a\":null,\"c\":null,\"b\":null},\"b\":2,\"c\":{\"a\":2}}") := by decide +kernel
example : (match mergePatch tD (ascii "{\"a\":{\"a\":null,\"c\":null,\"b\":null},\"b\":2,\"c\":{\"a\":2}}") with
    | .ok o => some o | _ => none) = some (ascii "{\"a\":{},\"b\":2,\"c\":{\"c\":1,\"a\":2}}") := by decide +kernel

-- #print axioms mergeMerge_bytes
-- #print axioms library_law

end C07
end JP
