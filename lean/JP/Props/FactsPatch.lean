import JP.Generated.Facts
import JP.Impl.Merge

/-!
# Regenerated facts = what the hand-written model assumes (v5/patch.go, v5/merge.go gates)

`JP/Generated/Facts.lean` is rewritten from the Go sources on every run.  Each theorem
below equates one extracted fact with the corresponding assumption of the model; all are
closed computations checked by the kernel (`rfl` / `decide`).  The facts are split by
source file so that an edit to one file only touches the obligations of the properties
anchored there.
-/

namespace JP
namespace Facts

/-- package defaults of the v5 module -/
theorem defaults_eq : Generated.negDefault = ({} : Impl.Opts).neg
    ∧ (Generated.limitDefault : Int) = ({} : Impl.Opts).limit := by decide

theorem newOptions_eq : Generated.newOptions =
    ["SupportNegativeIndices:SupportNegativeIndices", "AccumulatedCopySizeLimit:AccumulatedCopySizeLimit",
     "AllowMissingPathOnRemove:false", "EnsurePathExistsOnAdd:false", "EscapeHTML:true"] := rfl

/-- the six operation kinds are dispatched to the six methods of the same name -/
theorem opDispatch_eq : Generated.opDispatch =
    [(["add"], "add"), (["remove"], "remove"), (["replace"], "replace"), (["move"], "move"),
     (["test"], "test"), (["copy"], "copy"), (["default"], "Kind")] := rfl

theorem validateKinds_eq : Generated.validateKinds =
    [(["add", "replace"], "ValueInterface"), (["move", "copy"], "From"), (["remove", "test"], "")] := rfl

/-- every entry point that decodes with `UnmarshalValid*` checks `json.Valid` first -/
theorem validGates_eq : Generated.validGates =
    [("ApplyIndentWithOptions", true), ("CreateMergePatch", true), ("DecodePatch", true), ("Equal", true),
     ("doMergePatch", true)] ∧ Generated.mergeGates = 2 := ⟨rfl, rfl⟩

theorem applyReturnsNil_eq : Generated.applyReturnsNilOnError = true := rfl

/-- every error site of `v5/patch.go`, in source order, with what it wraps -/
theorem errorSites_eq : Generated.errorSites =
        [("DecodePatch", ["r:ErrInvalid", "w:ErrInvalid"]),
     ("add", ["w:ErrMissing", "w:ErrMissing", "w:err"]),
     ("copy", ["w:err", "w:ErrInvalid", "w:ErrMissing", "w:err", "w:ErrMissing", "w:ErrMissing", "w:err", "r:NewAccumulatedCopySizeError", "w:err"]),
     ("doMergePatch", ["r:ErrBadJSONDoc", "r:ErrBadJSONPatch", "r:ErrBadJSONDoc", "r:ErrBadJSONDoc", "r:ErrBadJSONPatch", "r:ErrBadJSONPatch"]),
     ("ensurePathExists", ["w:ErrInvalidIndex", "w:ErrInvalidIndex"]),
     ("move", ["w:err", "w:ErrInvalid", "w:ErrMissing", "w:err", "w:err", "w:err", "w:ErrMissing", "w:err"]),
     ("partialArray.add", ["r:ErrInvalid", "w:err", "w:ErrInvalidIndex", "w:ErrInvalidIndex", "w:ErrInvalidIndex"]),
     ("partialArray.get", ["r:ErrInvalid", "w:ErrInvalidIndex", "w:ErrInvalidIndex", "w:ErrInvalidIndex"]),
     ("partialArray.remove", ["r:ErrInvalid", "w:ErrInvalidIndex", "w:ErrInvalidIndex", "w:ErrInvalidIndex"]),
     ("partialArray.set", ["r:ErrInvalid", "w:ErrInvalidIndex", "w:ErrInvalidIndex"]),
     ("partialDoc.get", ["r:ErrExpectedObject", "w:ErrMissing"]),
     ("partialDoc.remove", ["r:ErrExpectedObject", "w:ErrMissing"]),
     ("partialDoc.set", ["r:ErrExpectedObject"]),
     ("remove", ["w:ErrMissing", "w:ErrMissing", "w:err"]),
     ("replace", ["w:err", "w:err", "w:err", "w:ErrMissing", "w:ErrMissing", "w:err"]),
     ("test", ["w:err", "w:ErrTestFailed", "w:ErrMissing", "w:err", "w:ErrTestFailed", "w:ErrTestFailed"])] := rfl

/-- shared package-level state of the library: only these variables exist -/
theorem packageVars_eq : Generated.packageVars =
        ["AccumulatedCopySizeLimit", "ErrBadJSONDoc", "ErrBadJSONPatch", "ErrExpectedObject", "ErrInvalid", "ErrInvalidIndex", "ErrMissing", "ErrTestFailed", "ErrUnknownType", "SupportNegativeIndices", "endArray", "endObject", "errBadMergeTypes", "rawJSONArray", "rawJSONNull", "rawJSONObject", "rfc6901Decoder", "startArray", "startObject"] := rfl

/-- L2: the order list `keys` is mentioned only by these functions of the library -/
theorem keysMentions_eq : Generated.keysMentions = ["TrustMarshalJSON", "UnmarshalJSON", "mergeDocs", "remove", "set"] := rfl

/-- L4: the package variables are never assigned by the library -/
theorem packageVarWrites_eq : Generated.packageVarWrites = 0 := rfl

/-- no indexed write into a caller-supplied byte slice or through `*n.raw` in patch.go / merge.go -/
theorem inputWrites_eq : Generated.inputWrites = 0 := rfl

/-! ### branch conditions

Every `if` / `for` / `switch` / `case` header of the functions the model transcribes, as
the source spells them today.  The model's branch structure was written against exactly
these conditions; an edit to any of them (`>` for `>=`, a dropped guard, a new early
return) breaks this obligation even when no generated input reaches the branch, and the
check then searches for an input on which the property fails. -/
theorem conditions_eq : Generated.conditions =
        [("ApplyIndentWithOptions", ["if len(doc) == 0", "if !json.Valid(doc)", "if isArray(bytes.TrimLeft(doc, \" \\t\\r\\n\"))", "else", "if err != nil", "for _, op := range p", "switch op.Kind()", "case \"add\"", "case \"remove\"", "case \"replace\"", "case \"move\"", "case \"test\"", "case \"copy\"", "default", "if err != nil", "if err != nil", "if indent == \"\""]),
     ("DecodePatch", ["if !json.Valid(buf)", "if err != nil", "if p == nil", "if err := validatePatch(p); err != nil"]),
     ("Equal", ["if !json.Valid(a) || !json.Valid(b)"]),
     ("Patch.add", ["if err != nil", "if path == \"\"", "if (*val.raw)[0] == '['", "else", "if err != nil", "if options.EnsurePathExistsOnAdd", "if err != nil", "if con == nil", "if err != nil"]),
     ("Patch.copy", ["if err != nil", "if from == \"\"", "if val.isNull()", "else", "if con == nil", "if err != nil", "if err != nil", "if con == nil", "if err != nil", "if options.AccumulatedCopySizeLimit > 0 && *accumulatedCopySize > options.AccumulatedCopySizeLimit", "if err != nil"]),
     ("Patch.move", ["if err != nil", "if from == \"\"", "if con == nil", "if err != nil", "if err != nil", "if err != nil", "if con == nil", "if err != nil"]),
     ("Patch.remove", ["if err != nil", "if con == nil", "if options.AllowMissingPathOnRemove", "if err != nil"]),
     ("Patch.replace", ["if err != nil", "if path == \"\"", "if val.which == eRaw", "if !val.tryDoc(options)", "if !val.tryAry()", "switch val.which", "case eAry", "case eDoc", "case eRaw", "if con == nil", "if ok != nil", "if err != nil"]),
     ("Patch.test", ["if err != nil", "if path == \"\"", "switch sv := (*doc).(type)", "case *partialDoc", "case *partialArray", "if self.equal(op.value(), options)", "if con == nil", "if err != nil && errors.Unwrap(err) != ErrMissing", "if val.isNull() || ov.isNull()", "if val.isNull() && ov.isNull()", "if val.equal(op.value(), options)"]),
     ("TrustMarshalJSON", ["if n.obj == nil", "if err := buf.WriteByte('{'); err != nil", "if n.opts != nil", "for i, k := range n.keys", "if i > 0", "if err := buf.WriteByte(','); err != nil", "if err != nil", "if _, err := buf.Write(key); err != nil", "if err := buf.WriteByte(':'); err != nil", "if err != nil", "if _, err := buf.Write(value); err != nil", "if err := buf.WriteByte('}'); err != nil"]),
     ("deepCopy", ["if src == nil", "if err != nil"]),
     ("ensurePathExists", ["if len(split) < 2 || split[0] != \"\"", "for pi, part := range parts", "if pi == len(parts)-1", "if target == nil || ok != nil", "if arrIndex, err = strconv.Atoi(part); err == nil", "if ok && pa != nil && arrIndex >= len(pa.nodes)+1", "for i := len(pa.nodes); i <= arrIndex-1; i++", "if arrIndex, err = strconv.Atoi(parts[pi+1]); err == nil || parts[pi+1] == \"-\"", "if arrIndex < 0", "if !options.SupportNegativeIndices", "if arrIndex < -1", "for i := 0; i < arrIndex; i++", "else", "if err != nil", "else", "if isArray(*target.raw)", "if err != nil", "else", "if err != nil"]),
     ("findObject", ["if len(split) < 2", "if path == \"\"", "if split[0] != \"\"", "for _, part := range parts", "if next == nil || ok != nil", "if isArray(*next.raw)", "if err != nil", "else", "if err != nil"]),
     ("isArray", ["for _, c := range buf", "switch c", "case ' '", "case '\\n'", "case '\\t'", "case '['", "default"]),
     ("lazyNode.equal", ["if n.isNull() || o.isNull()", "if n.which == eRaw", "if !n.tryDoc(options) && !n.tryAry()", "if o.which != eRaw", "if nc[0] == '\"' && oc[0] == '\"'", "if err != nil", "if err != nil", "if n.which == eDoc", "if o.which == eRaw", "if !o.tryDoc(options)", "if o.which != eDoc", "if len(n.doc.obj) != len(o.doc.obj)", "for k, v := range n.doc.obj", "if !ok", "if !v.equal(ov, options)", "if o.which != eAry && !o.tryAry()", "if len(n.ary.nodes) != len(o.ary.nodes)", "for idx, val := range n.ary.nodes", "if !val.equal(o.ary.nodes[idx], options)"]),
     ("lazyNode.intoAry", ["if n.which == eAry", "if n.raw == nil", "if err != nil"]),
     ("lazyNode.intoDoc", ["if n.which == eDoc", "if n.raw == nil", "if n.nextByte() != '{'", "if n.doc == nil", "if err != nil"]),
     ("lazyNode.isNull", ["if n == nil", "if n.which != eRaw", "if n.raw == nil"]),
     ("lazyNode.tryAry", ["if n.raw == nil", "if err != nil"]),
     ("lazyNode.tryDoc", ["if n.raw == nil", "if err != nil", "if n.doc == nil"]),
     ("partialArray.add", ["if d == nil", "if key == \"-\"", "if err != nil", "if idx >= len(ary)", "if idx < 0", "if !options.SupportNegativeIndices", "if idx < -len(ary)"]),
     ("partialArray.get", ["if d == nil", "if err != nil", "if idx < 0", "if !options.SupportNegativeIndices", "if idx < -len(d.nodes)", "if idx >= len(d.nodes)"]),
     ("partialArray.remove", ["if d == nil", "if err != nil", "if idx >= len(cur.nodes)", "if options.AllowMissingPathOnRemove", "if idx < 0", "if !options.SupportNegativeIndices", "if idx < -len(cur.nodes)", "if options.AllowMissingPathOnRemove"]),
     ("partialArray.set", ["if d == nil", "if err != nil", "if idx < 0", "if !options.SupportNegativeIndices", "if idx < -len(d.nodes)"]),
     ("partialDoc.get", ["if d.obj == nil", "if !ok"]),
     ("partialDoc.remove", ["if d.obj == nil", "if !ok", "if options.AllowMissingPathOnRemove", "for i, k := range d.keys", "if k == key"]),
     ("partialDoc.set", ["if d.obj == nil", "for _, k := range d.keys", "if k == key", "if !found"]),
     ("validateOperation", ["switch op.Kind()", "case \"add\", \"replace\"", "if _, err := op.ValueInterface(); err != nil", "case \"move\", \"copy\"", "if _, err := op.From(); err != nil", "case \"remove\", \"test\"", "default", "if _, err := op.Path(); err != nil"])] := rfl

end Facts
end JP
