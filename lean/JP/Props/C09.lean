import JP.Driver
import JP.Impl.Den

/-! # Property C09 — theorems (see DESIGN.md §6) -/

namespace JP
namespace C09

end C09
end JP
