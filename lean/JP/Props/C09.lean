import JP.Driver
import JP.Impl.Den
import JP.World.Pool
import JP.World.Conc
import JP.Lemmas.WorldObservers
import JP.Lemmas.WorldInterleave

/-!
# Property C09 — calls are pure: history does not matter (see DESIGN.md §6 and §H)

The pure functions `Impl.*` are trivially history independent.  What is proved here is about
the model of the SHARED MUTABLE STATE of the Go code (`JP/World/Pool.lean`): every exported API
is a program over the three `sync.Pool`s whose acquisitions return objects with ARBITRARY
leftovers, and

* `history_independent_*`: whatever the leftovers (subject to the pool invariant), the program
  returns the result of the pure function; so any two histories give the same result;
* `pool_invariant`: the two fields the code relies on WITHOUT re-initialising them
  (`decodeState.disallowUnknownFields = false`, `encodeState.ptrSeen` empty) hold for fresh objects and
  for everything any entry point or any call puts back, also on failing and panicking calls;
* `stale_keys_*`: `lastKeys` really is stale after decoding a non-object (`UnmarshalValidWithKeys`
  returns the previous user's keys, `partialDoc.UnmarshalJSON` stores them), and every method that
  mentions `keys` tests `obj == nil` first, so that the stale list is never looked at;
* `call_sequence`: any finite sequence of calls, from any pools, under any pool behaviour,
  returns call by call what each call returns alone.

ASSUMED Go-level facts: S1–S4, E1–E5, D1–D7, L1–L4 in the header of `JP/World/Pool.lean` (each
phrased for a syntactic check on the Go source).  NOT covered: that the Go code's real memory
accesses are those of the model; writes to caller memory (inexpressible in a functional model);
the Go memory model.
-/

namespace JP
namespace C09

open World Impl

/-! ## the reset lemmas of the three pooled objects -/

/-- the scanner reset lemma: a scanner in ANY state behaves as a new one after `reset()` -/
theorem scan_reset (left : Scanner.Scan) (bs : Bytes) :
    Scanner.run (resetScan left) bs = Scanner.run Scanner.Scan.init bs := by
  rw [resetScan_eq]

/-- `Valid`, `compact`, `Indent` on any pooled scanner -/
theorem history_independent_scanner (l₁ l₂ : ScanState) (esc : Bool) (ind data : Bytes) :
    (validW l₁ data).1 = (validW l₂ data).1 ∧ (validW l₁ data).1 = Scanner.valid data ∧
    (compactW l₁ esc data).1 = (compactW l₂ esc data).1 ∧ (compactW l₁ esc data).1 = Scanner.compact esc data ∧
    (indentW l₁ ind data).1 = (indentW l₂ ind data).1 ∧ (indentW l₁ ind data).1 = Scanner.indent ind data := by
  simp [validW_fst, compactW_fst, indentW_fst]

/-- `Marshal`/`MarshalEscaped` on any pooled encoder state with an empty `ptrSeen`: the dirty
buffer, `scratch` and `ptrLevel` do not show -/
theorem history_independent_marshal (l₁ l₂ : EncState) (h₁ : l₁.Inv) (h₂ : l₂.Inv) (hv₁ hv₂ : EncHavoc)
    (out : Outcome Bytes) :
    (marshalEscapedW l₁ hv₁ out).1 = (marshalEscapedW l₂ hv₂ out).1 ∧ (marshalEscapedW l₁ hv₁ out).1 = out := by
  obtain ⟨e₁, he₁, _⟩ := marshalEscapedW_inv l₁ hv₁ out h₁
  obtain ⟨e₂, he₂, _⟩ := marshalEscapedW_inv l₂ hv₂ out h₂
  simp [he₁, he₂]

/-- `UnmarshalValid` and `Unmarshal` on any pooled decoder state with `disallowUnknownFields` clear:
stale `data`, `off`, `opcode`, scanner, `errorContext`, `savedError`, `useNumber`, `lastKeys` do not show
(for every decode target, including structs, which the library does not use) -/
theorem history_independent_unmarshal (l₁ l₂ : DecState) (h₁ : l₁.Inv) (h₂ : l₂.Inv) (data : Bytes) (tgt : Target) :
    (unmarshalValid l₁ data tgt).1 = (unmarshalValid l₂ data tgt).1 ∧
    (unmarshalValid l₁ data tgt).1 = decodePure data tgt false false ∧
    (World.unmarshal l₁ data tgt).1 = (World.unmarshal l₂ data tgt).1 := by
  refine ⟨unmarshalValid_indep l₁ l₂ h₁ h₂ data tgt, ?_, ?_⟩
  · rw [unmarshalValid_fst, h₁]
  · rw [unmarshal_fst, unmarshal_fst, h₁, h₂]

/-- for the targets the library uses (no struct) not even the invariant is needed -/
theorem history_independent_unmarshal_library (l₁ l₂ : DecState) (data : Bytes) (tgt : Target)
    (hs : ∀ fs, tgt ≠ .strct fs) :
    (unmarshalValid l₁ data tgt).1 = (unmarshalValid l₂ data tgt).1 := by
  rw [unmarshalValid_fst, unmarshalValid_fst]
  unfold decodePure
  cases parseCst data with
  | none => rfl
  | some c =>
    cases tgt with
    | strct fs => exact absurd rfl (hs fs)
    | _ => rfl

/-! ## stale keys -/

/-- `UnmarshalValidWithKeys` on a text that is not an object returns the PREVIOUS user's keys:
the leftover is observable at the `json` level -/
theorem stale_keys_returned (left : DecState) (data : Bytes) (c : Cst) (hp : parseCst data = some c)
    (hn : c.isNullLit = true) :
    (unmarshalValidWithKeys left data).2.1 = left.lastKeys ∧
    (partialDocUnmarshal left data).1 = .ok { keys := left.lastKeys, obj := none } := by
  have h2 : (partialDocUnmarshal left data).1 = .ok { keys := left.lastKeys, obj := none } := by
    rw [partialDocUnmarshal_fst]
    unfold pdocPure
    rw [hp]
    cases c with
    | lit s => simp [hn]
    | obj ms => simp [Cst.isNullLit] at hn
    | str b => simp [Cst.isNullLit] at hn
    | arr xs => simp [Cst.isNullLit] at hn
  refine ⟨?_, h2⟩
  have h1 := unmarshalValid_fst left data .mapLazy
  have hk := unmarshalValid_lastKeys left data .mapLazy c hp
  unfold unmarshalValidWithKeys
  cases hu : unmarshalValid left data .mapLazy with
  | mk r d =>
    rw [hu] at h1 hk
    simp only at h1 hk
    simp only [decodePure, hp, Target.accepts, isObjOrNull, hn, Bool.or_true, Bool.not_true,
      Bool.false_eq_true, if_false] at h1
    subst h1
    cases c with
    | lit s => simpa [Target.keysAfter] using hk
    | obj ms => simp [Cst.isNullLit] at hn
    | str b => simp [Cst.isNullLit] at hn
    | arr xs => simp [Cst.isNullLit] at hn

/-- on an object text the keys are this decode's own, whatever the leftover -/
theorem fresh_keys_on_object (left : DecState) (data : Bytes) (ms : List (Bytes × Cst))
    (hp : parseCst data = some (.obj ms)) :
    (partialDocUnmarshal left data).1 = .ok { keys := decodeKeys ms, obj := some (decodeMembers ms []) } := by
  rw [partialDocUnmarshal_fst]
  unfold pdocPure
  rw [hp]

/-- seen through the pure model (`Node.docNil` has no keys) the root container is the same for
all leftovers: this connects the havoc version to `Impl.decodeRoot` -/
theorem stale_keys_erased (l₁ l₂ : DecState) (data : Bytes) :
    mapOutcome PDoc.toNode (partialDocUnmarshal l₁ data).1 = mapOutcome PDoc.toNode (partialDocUnmarshal l₂ data).1 ∧
    (∀ c, parseCst data = some c → c.isArr = false →
      mapOutcome PDoc.toNode (partialDocUnmarshal l₁ data).1 = decodeRoot c) := by
  have key : ∀ s₁ s₂, mapOutcome PDoc.toNode (pdocPure s₁ data) = mapOutcome PDoc.toNode (pdocPure s₂ data) := by
    intro s₁ s₂
    unfold pdocPure
    cases parseCst data with
    | none => rfl
    | some c =>
      cases c with
      | lit s => by_cases hn : (Cst.lit s).isNullLit = true <;> simp [hn, mapOutcome, PDoc.toNode]
      | _ => rfl
  refine ⟨by rw [partialDocUnmarshal_fst, partialDocUnmarshal_fst]; exact key _ _, fun c hp hc => ?_⟩
  rw [partialDocUnmarshal_fst]
  exact pdocPure_toNode _ data c hp hc

/-- every method of `partialDoc` that mentions `keys` (`TrustMarshalJSON`, `set`/`add`, `remove`; `get`
for completeness), transcribed with its `obj == nil` guard, is the pure model's container method on
the node WITHOUT the stale keys -/
theorem stale_keys_never_read (p : PDoc) (esc : Bool) (o : Opts) (self : Node) (cr : Bool) (key : Bytes) (val : Node) :
    marshalRoot esc { con := p.toNode, self := self, selfCR := cr } = mapOutcome Cst.print (p.trustMarshal esc) ∧
    mapOutcome PDoc.toNode (p.set key val) = conSet o p.toNode key val ∧
    mapOutcome PDoc.toNode (p.set key val) = conAdd o p.toNode key val ∧
    mapOutcome PDoc.toNode (p.remove o key) = conRemove o p.toNode key ∧
    p.get self key = conGet o self p.toNode key :=
  ⟨PDoc.marshalRoot_eq esc p self cr, PDoc.set_eq o p key val, PDoc.add_eq o p key val, PDoc.remove_eq o p key,
   PDoc.get_eq o self p key⟩

/-- two nil-map documents that differ in their stale keys only are indistinguishable, also for the
guards of `doMergePatch` -/
theorem stale_keys_unobservable (ks₁ ks₂ : List Bytes) (esc : Bool) (o : Opts) (self : Node) (key : Bytes)
    (val : Node) (patchData : Bytes) (q : PDoc) :
    (PDoc.mk ks₁ none).trustMarshal esc = (PDoc.mk ks₂ none).trustMarshal esc ∧
    (PDoc.mk ks₁ none).set key val = (PDoc.mk ks₂ none).set key val ∧
    (PDoc.mk ks₁ none).remove o key = (PDoc.mk ks₂ none).remove o key ∧
    (PDoc.mk ks₁ none).get self key = (PDoc.mk ks₂ none).get self key ∧
    mergeGuard patchData (PDoc.mk ks₁ none) q = mergeGuard patchData (PDoc.mk ks₂ none) q ∧
    mergeGuard patchData q (PDoc.mk ks₁ none) = mergeGuard patchData q (PDoc.mk ks₂ none) := by
  refine ⟨rfl, rfl, rfl, rfl, rfl, ?_⟩
  obtain ⟨k, ob⟩ := q
  cases ob <;> rfl

/-! ## history independence of the exported API -/

/-- whatever leftovers the pooled states carry, each call returns its pure result -/
theorem history_independent (c : Call) (L₁ L₂ : Leftovers) (h₁ : L₁.Inv) (h₂ : L₂.Inv) :
    c.prog.run L₁ = c.prog.run L₂ ∧ c.prog.run L₁ = c.pure := by
  have e₁ := (Call.prog_sat c).run L₁ h₁
  have e₂ := (Call.prog_sat c).run L₂ h₂
  exact ⟨e₁.trans e₂.symm, e₁⟩

theorem history_independent_apply (L₁ L₂ : Leftovers) (h₁ : L₁.Inv) (h₂ : L₂.Inv) (hv₁ hv₂ : Havoc)
    (o : Opts) (indent doc : Bytes) (ops : List Op) :
    (applyP hv₁ o indent doc ops).run L₁ = (applyP hv₂ o indent doc ops).run L₂ ∧
    (applyP hv₁ o indent doc ops).run L₁ = applyBytes o indent doc ops := by
  have e₁ := (applyP_sat hv₁ o indent doc ops).run L₁ h₁
  have e₂ := (applyP_sat hv₂ o indent doc ops).run L₂ h₂
  exact ⟨e₁.trans e₂.symm, e₁⟩

theorem history_independent_decodePatch (L₁ L₂ : Leftovers) (h₁ : L₁.Inv) (h₂ : L₂.Inv) (hv₁ hv₂ : Havoc) (bs : Bytes) :
    (decodePatchP hv₁ bs).run L₁ = (decodePatchP hv₂ bs).run L₂ ∧ (decodePatchP hv₁ bs).run L₁ = decodePatch bs := by
  have e₁ := (decodePatchP_sat hv₁ bs).run L₁ h₁
  have e₂ := (decodePatchP_sat hv₂ bs).run L₂ h₂
  exact ⟨e₁.trans e₂.symm, e₁⟩

theorem history_independent_equal (L₁ L₂ : Leftovers) (h₁ : L₁.Inv) (h₂ : L₂.Inv) (hv₁ hv₂ : Havoc) (a b : Bytes) :
    (equalP hv₁ a b).run L₁ = (equalP hv₂ a b).run L₂ ∧ (equalP hv₁ a b).run L₁ = equal a b := by
  have e₁ := (equalP_sat hv₁ a b).run L₁ h₁
  have e₂ := (equalP_sat hv₂ a b).run L₂ h₂
  exact ⟨e₁.trans e₂.symm, e₁⟩

theorem history_independent_mergePatch (L₁ L₂ : Leftovers) (h₁ : L₁.Inv) (h₂ : L₂.Inv) (hv₁ hv₂ : Havoc)
    (doc patch : Bytes) :
    (doMergePatchP hv₁ false doc patch).run L₁ = (doMergePatchP hv₂ false doc patch).run L₂ ∧
    (doMergePatchP hv₁ false doc patch).run L₁ = mergePatch doc patch := by
  have e₁ := (doMergePatchP_sat hv₁ false doc patch).run L₁ h₁
  have e₂ := (doMergePatchP_sat hv₂ false doc patch).run L₂ h₂
  exact ⟨e₁.trans e₂.symm, e₁⟩

theorem history_independent_mergeMergePatches (L₁ L₂ : Leftovers) (h₁ : L₁.Inv) (h₂ : L₂.Inv) (hv₁ hv₂ : Havoc)
    (p1 p2 : Bytes) :
    (doMergePatchP hv₁ true p1 p2).run L₁ = (doMergePatchP hv₂ true p1 p2).run L₂ ∧
    (doMergePatchP hv₁ true p1 p2).run L₁ = mergeMergePatches p1 p2 := by
  have e₁ := (doMergePatchP_sat hv₁ true p1 p2).run L₁ h₁
  have e₂ := (doMergePatchP_sat hv₂ true p1 p2).run L₂ h₂
  exact ⟨e₁.trans e₂.symm, e₁⟩

theorem history_independent_createMergePatch (L₁ L₂ : Leftovers) (h₁ : L₁.Inv) (h₂ : L₂.Inv) (hv₁ hv₂ : Havoc)
    (a b : Bytes) :
    (createMergePatchP hv₁ a b).run L₁ = (createMergePatchP hv₂ a b).run L₂ ∧
    (createMergePatchP hv₁ a b).run L₁ = createMergePatch a b := by
  have e₁ := (createMergePatchP_sat hv₁ a b).run L₁ h₁
  have e₂ := (createMergePatchP_sat hv₂ a b).run L₂ h₂
  exact ⟨e₁.trans e₂.symm, e₁⟩

/-! ## the pool invariant -/

/-- the fields the code relies on without resetting them are clean in everything ever released:
initially (fresh objects), after every `json` entry point (also when it fails: `out` ranges over
errors and panics, `data` over malformed texts), and in every reachable state of any system of
threads running any calls from pools that satisfy it -/
theorem pool_invariant :
    DecState.zero.Inv ∧ EncState.zero.Inv ∧
    (∀ (left : DecState) (data : Bytes) (tgt : Target), left.Inv → (unmarshalValid left data tgt).2.Inv) ∧
    (∀ (left : DecState) (data : Bytes) (tgt : Target), left.Inv → (World.unmarshal left data tgt).2.Inv) ∧
    (∀ (left : DecState) (data : Bytes), left.Inv → (unmarshalValidWithKeys left data).2.2.Inv) ∧
    (∀ (left : DecState) (data : Bytes), left.Inv → (partialDocUnmarshal left data).2.Inv) ∧
    (∀ (left : EncState) (h : EncHavoc) (out : Outcome Bytes) (e' : EncState), left.Inv →
      (marshalEscapedW left h out).2 = some e' → e'.Inv) ∧
    (∀ (scripts : List (List Call)) (P : Pools) (S' : Sys (List Res)), P.Inv →
      Steps ⟨P, scripts.map seqP⟩ S' → S'.pools.Inv) := by
  refine ⟨rfl, rfl, unmarshalValid_release_inv, unmarshal_release_inv, unmarshalValidWithKeys_release_inv,
    partialDocUnmarshal_release_inv, fun left h out e' hl he => marshalEscapedW_release_inv left h out hl e' he, ?_⟩
  intro scripts P S' hP hs
  exact (hs.preserves (Qs := scripts.map fun cs => fun rs => rs = cs.map Call.pure)
    ⟨hP, forall2_map_sat scripts⟩).pools

/-! ## sequences of calls -/

/-- any finite sequence of calls (failing and malformed ones included), started from ARBITRARY
pools satisfying the invariant, with the pools free to hand out any object, a fresh one, or to
drop objects: the results are, call by call, the pure results, which are also what each call
returns alone in a fresh process; and the pools satisfy the invariant afterwards -/
theorem call_sequence (calls : List Call) (P : Pools) (hP : P.Inv) (S' : Sys (List Res)) (rs : List Res)
    (h : Steps ⟨P, [seqP calls]⟩ S') (hr : S'.threads[0]? = some (.ret rs)) :
    rs = calls.map Call.pure ∧ rs = calls.map (fun c => c.prog.run Leftovers.fresh) ∧ S'.pools.Inv := by
  have hI : SysInv ⟨P, [seqP calls]⟩ [fun rs => rs = calls.map Call.pure] :=
    ⟨hP, .cons ⟨0, 0, 0, seqP_sat calls⟩ .nil⟩
  have hI' := h.preserves hI
  obtain ⟨Q, hQ, hq⟩ := hI'.result hr
  simp at hQ
  subst hQ
  refine ⟨hq, ?_, hI'.pools⟩
  rw [hq]
  apply List.map_congr_left
  intro c _
  exact ((Call.prog_sat c).run Leftovers.fresh Leftovers.fresh_inv).symm

/-- the same with the leftovers given by an oracle: repeating or reordering calls changes nothing,
because the `n`-th result is `Call.pure` of the `n`-th call -/
theorem call_sequence_oracle (calls : List Call) (L : Leftovers) (hL : L.Inv) :
    (seqP calls).run L = calls.map Call.pure :=
  (seqP_sat calls).run L hL

/-! ## non-vacuity -/

/-- a `decodeState` as a failed struct decode of `{"stale":1} trailing` could leave it -/
def staleDec : DecState :=
  { data := ascii "{\"stale\":1} trailing", off := 7, opcode := 4,
    scan := { scan := { st := .stateInString, stack := [2, 0, 1], endTop := true, err := true }, bytes := 99 },
    errorContext := some { struct := true, fieldStack := [ascii "stale", ascii "field"] },
    savedError := true, useNumber := false, disallowUnknownFields := false,
    lastKeys := [ascii "stale1", ascii "stale2", ascii "stale1"] }

def staleEnc : EncState :=
  { buf := ascii "{\"stale\":\"buffer\"}", scratch := [1, 2, 3], ptrLevel := 1500, ptrSeen := [] }

def staleScan : ScanState :=
  { scan := { st := .stateNul, stack := [0, 1, 2, 2, 1], endTop := true, err := true }, bytes := 777 }

/-- every acquisition meets a dirty object -/
def staleWorld : Leftovers := { dec := fun _ => staleDec, enc := fun _ => staleEnc, scan := fun _ => staleScan }

theorem staleWorld_inv : staleWorld.Inv := ⟨fun _ => rfl, fun _ => rfl⟩

/-- observable part of an outcome, with decidable equality -/
def code (r : Outcome Bytes) : Nat × Bytes :=
  match r with
  | .ok b => (0, b)
  | .err e => (1, [UInt8.ofNat e.ctorIdx])
  | .panic => (2, [])

def okWithKeys (r : Outcome PDoc) (ks : List Bytes) : Bool :=
  match r with
  | .ok p => p.keys == ks && p.obj.isNone
  | _ => false

def decOk (r : DecOut) : Bool := match r with | .ok _ _ => true | _ => false

/-- the hypotheses of `scan_reset` hold for a dirty scanner that, unreset, behaves differently -/
example : (Scanner.run staleScan.scan (ascii "1")).isSome = false ∧
    (Scanner.run (resetScan staleScan.scan) (ascii "1")).isSome = true := by
  decide

/-- decoding the text `null` with the dirty state yields the stale keys … -/
example : (unmarshalValidWithKeys staleDec (ascii "null")).2.1 = [ascii "stale1", ascii "stale2", ascii "stale1"] := by
  decide

/-- … which a fresh state does not … -/
example : (unmarshalValidWithKeys DecState.zero (ascii "null")).2.1 = [] := by decide

/-- … they end up in the root `partialDoc` … -/
example : okWithKeys (partialDocUnmarshal staleDec (ascii "null")).1
    [ascii "stale1", ascii "stale2", ascii "stale1"] = true := by
  decide

/-- … yet `Apply` on the document `null` returns the same error as the pure model and as a
fresh process -/
theorem stale_null_example :
    code ((applyP {} {} [] (ascii "null") []).run staleWorld) = code (.err .expectedObject) ∧
    code (applyBytes {} [] (ascii "null") []) = code (.err .expectedObject) ∧
    code ((applyP {} {} [] (ascii "null") []).run Leftovers.fresh) = code (.err .expectedObject) := by
  decide +kernel

/-- a successful call in the dirty world: the stale buffer, scanner stacks, saved error do not show -/
theorem stale_ok_example :
    code ((applyP {} {} [] (ascii "{\"a\": 1}") []).run staleWorld) = code (.ok (ascii "{\"a\":1}")) := by
  decide +kernel

/-- the invariants are NEEDED: an encoder state with a non-empty `ptrSeen` makes `Marshal` panic
(`newEncodeState`), and `disallowUnknownFields` changes the outcome of a struct decode -/
example : code (marshalEscapedW { staleEnc with ptrSeen := [7] } {} (.ok (ascii "1"))).1 = (2, []) ∧
    code (marshalEscapedW staleEnc {} (.ok (ascii "1"))).1 = (0, ascii "1") := by
  decide

example : decOk (unmarshalValid { staleDec with disallowUnknownFields := true } (ascii "{\"x\":1}") (.strct [ascii "a"])).1 = false ∧
    decOk (unmarshalValid staleDec (ascii "{\"x\":1}") (.strct [ascii "a"])).1 = true := by
  decide +kernel

/-- `useNumber` is set by every entry point: the stale `false` does not reach `CreateMergePatch` -/
example : (createMergePatchP {} (ascii "{\"a\":1.0}") (ascii "{\"a\":1.00}")).run staleWorld
    = createMergePatch (ascii "{\"a\":1.0}") (ascii "{\"a\":1.00}") :=
  (history_independent_createMergePatch staleWorld staleWorld staleWorld_inv staleWorld_inv {} {} _ _).2

/-- `call_sequence`: a concrete history on poisoned pools (most recently put object first) -/
def poisoned : Pools := { dec := [staleDec, staleDec], enc := [staleEnc], scan := [staleScan, staleScan] }

theorem poisoned_inv : poisoned.Inv :=
  ⟨fun d hd => by simp [poisoned] at hd; subst hd; rfl, fun e he => by simp [poisoned] at he; subst he; rfl⟩

def _root_.JP.World.Res.code : Res → Nat × Bytes
  | .bytes (.ok b) => (0, b)
  | .bytes (.err _) => (1, [])
  | .bytes .panic => (2, [])
  | .ops (.ok ops) => (3, [UInt8.ofNat ops.length])
  | .ops _ => (4, [])
  | .bool b => (5, if b then [1] else [0])

def history : List Call :=
  [.apply {} {} [] (ascii "null") [], .equal {} (ascii "[1") (ascii "[1]"),
   .apply {} {} [] (ascii "{\"a\":1}") [], .apply {} {} [] (ascii "null") []]

theorem history_example :
    (resultOf (runSchedule ⟨poisoned, [seqP history]⟩ (List.replicate 60 0)) 0).map (·.map Res.code)
      = some (history.map fun c => c.pure.code) := by
  decide +kernel

-- #print axioms scan_reset                         -- none
-- #print axioms history_independent                -- propext, Classical.choice, Quot.sound
-- #print axioms pool_invariant
-- #print axioms call_sequence
-- #print axioms stale_keys_never_read
-- #print axioms history_example

end C09
end JP
