import JP.Lemmas.CloseApply
import JP.Lemmas.CloseTokens
import JP.Props.C01
import JP.Props.C06
import JP.Props.C16
import JP.Props.C11

/-!
# C01 at the level of bytes: `Patch.ApplyIndentWithOptions` computes the RFC 6902 result

The engine refinement `C01.applyOps_refines` is combined with

* C16 (`scanner_iff`: the validity gate of `applyBytes` is the reference parser),
* C06 (`eqNC_iff`: discharges `EqSpec`),
* C11 / `specPatch_eq_specOps` (the specification's reading of the patch text is `specOps` of what
  `decodePatch` returns),
* the text layer C15/C17 (`parse_print`, `valueOf_escape`, …) through
  `parseCst_wfc_A` (the reference parser only produces well-formed trees of depth ≤ `maxDepth`),
  `CstOK_of_WFC` (well-formed trees satisfy the engine's text invariant – no UTF-8 hypothesis on the
  document or on operation values is needed, because `unquoteBytes` already replaces invalid
  UTF-8 by U+FFFD: `unquote_utf8`), and `applyOps_W` (every raw message the engine keeps stays
  well formed, so what `marshalRoot` prints parses back),

into closed statements about `Impl.applyBytes`.

Remaining hypotheses (all explicit):
* `o.ensure = false`, `o.limit = 0` (kept from C01; the limit is lifted in `JP/Props/C01limit.lean`);
* `c.valueOf.noDup`, operation values `noDup` (the property's domain; RFC 8259 leaves repeated
  names open);
* NO UTF-8 hypothesis.  The engine's invariant needs member names and reference tokens that
  survive re-quoting by the encoder (`QK`), which holds for valid UTF-8 (`qk_of_utf8`); but every
  decoded name is valid UTF-8 (`names_utf8`: `unquoteBytes` replaces invalid bytes and lone
  surrogates by U+FFFD) and so is every reference token of a decoded `path` (`tokens_utf8`: `path`
  is a decoded JSON string; `/`, `~0`, `~1` are ASCII);
* in the success branch: the result is at most `maxDepth` deep (`Marshal` has no depth limit, the
  reference parser and the real `Unmarshal` have one at 10000; the statement is false without it:
  repeated `copy` of the root below itself doubles the depth).

Since the RFC 6901 repair (D20) the specification decides pointers that do not start with `/`
(failure; for `move` / `copy` to such a pointer the failure of the source half is reported).  The
statements below are unchanged and cover these inputs: no hypothesis on the shape of the pointers
is needed (see the closed instances `exRun` at the end).
-/

namespace JP
namespace C01

open Impl

/-- `EqSpec`, discharged by C06 -/
theorem eqSpec : EqSpec := fun n c hn hc h1 h2 => C06.eqNC_iff n c hn hc h1 h2

/-- **the reference parser only produces well-formed trees** (goal 1) -/
theorem parse_wfc (bs : Bytes) (c : Cst) (h : parseCst bs = some c) : WFC c = true ∧ c.depth ≤ maxDepth :=
  parseCst_wfc_A bs c h

/-- well-formed trees satisfy the text invariant of the engine theorems, for either escaping flag -/
theorem cstOK_of_wfc (e : Bool) (c : Cst) (h : WFC c = true) : Impl.CstOK e c = true := CstOK_of_WFC e c h

/-- names that are valid UTF-8 survive the encoder -/
theorem qk_of_utf8 (e : Bool) (t : Bytes) (h : isValidUtf8 t = true) : Impl.QK e t = true := QK_of_utf8 e t h

/-- decoded member names and strings are always valid UTF-8 (`unquoteBytes` replaces what is not) -/
theorem unquote_is_utf8 (b : Bytes) (hb : validBody b = true) : isValidUtf8 (unquote b) = true :=
  unquote_utf8 b ((validBody_eq_true_iff b).1 hb)

/-- the `NamesUtf8` condition (every decoded member name is valid UTF-8) needs no hypothesis: it
holds for everything the reference parser returns -/
theorem names_utf8 (bs : Bytes) (c : Cst) (h : parseCst bs = some c) : NamesUtf8 c = true :=
  NamesUtf8_of_WFC c (parseCst_wfc_A bs c h).1

/-- the freshly decoded root satisfies the text invariant -/
theorem tx_decodeRoot (e : Bool) (bs : Bytes) (c : Cst) (h : parseCst bs = some c) (hnd : c.valueOf.noDup = true) :
    (∀ ms, c = .obj ms → Impl.TX e (Impl.decodeDoc ms) = true) ∧
    (∀ xs, c = .arr xs → Impl.TX e (Impl.decodeAry xs) = true) := by
  have hok := CstOK_of_parseCst e bs c h
  constructor
  · rintro ms rfl; exact (Inv_decodeDoc ((Inv_raw e _).2 ⟨hnd, hok⟩)).2
  · rintro xs rfl; exact (Inv_decodeAry ((Inv_raw e _).2 ⟨hnd, hok⟩)).2

/-- the reference tokens of the operations' `path`s are valid UTF-8 -/
def TokensUtf8 (ops : List Impl.Op) : Prop :=
  ∀ op ∈ ops, ∀ toks, Spec.parsePointer op.path = some toks → ∀ t ∈ toks, isValidUtf8 t = true

/-- `TokensUtf8` holds for every decoded patch (`path` is a decoded JSON string; `/`, `~0`, `~1`
are ASCII): the byte-level theorems need no UTF-8 hypothesis at all -/
theorem tokens_utf8 (patch : Bytes) (ops : List Impl.Op) (h : Impl.decodePatch patch = .ok ops) :
    TokensUtf8 ops :=
  fun op hop toks ht => (decodePatch_facts h op hop).tokens toks ht

theorem specOps_values : ∀ (ops : List Impl.Op) (sops : List Spec.Op), specOps ops = some sops →
    ∀ op ∈ ops, ∃ sop ∈ sops, sop.value = op.value.map Cst.valueOf
  | [], _, _ => by simp
  | op :: ops, sops, h => by
    simp only [specOps] at h
    cases h1 : specOp op with
    | none => simp [h1] at h
    | some s =>
      cases h2 : specOps ops with
      | none => simp [h1, h2] at h
      | some ss =>
        simp only [h1, h2, Option.some.injEq] at h
        subst h
        intro op' hop'
        simp only [List.mem_cons] at hop'
        rcases hop' with rfl | hop'
        · refine ⟨s, by simp, ?_⟩
          simp only [specOp] at h1
          cases hk : specKind op'.kind with
          | none => simp [hk] at h1
          | some k => simp only [hk, Option.some.injEq] at h1; subst h1; rfl
        · obtain ⟨sop, hm, hv⟩ := specOps_values ops ss h2 op' hop'
          exact ⟨sop, List.mem_cons_of_mem _ hm, hv⟩

theorem parseCst_nil : parseCst [] = none := by decide

/-- the root `ApplyIndentWithOptions` starts from -/
def rootOf (doc : Bytes) (c : Cst) (con : Node) : Root :=
  { con := con, self := .raw c, selfCR := c.isArr && !goIsArray doc }

/-- the set-up shared by the byte-level theorems: behind the validity gate `applyBytes` is
`applyOps` from the decoded root followed by `marshalRoot`; the root satisfies the engine's
invariants and the operations satisfy `OpOK`.  The operations are any list with the facts
`decodePatch` guarantees (`OpFacts`). -/
theorem apply_bytes_setup_ops (o : Impl.Opts) (doc : Bytes) (c : Cst) (ops : List Impl.Op)
    (hdoc : parseCst doc = some c) (hnd : c.valueOf.noDup = true) (hcont : c.valueOf.isContainer = true)
    (hfacts : ∀ op ∈ ops, OpFacts op)
    (hvnd : ∀ op ∈ ops, ∀ v, op.value = some v → v.valueOf.noDup = true)
    :
    ∃ con, Impl.decodeRoot c = .ok con ∧ InvRoot o.esc (rootOf doc c con) ∧ den con = c.valueOf ∧
      RootW (rootOf doc c con) ∧ (∀ op ∈ ops, OpOK o.esc op) ∧ (∀ op ∈ ops, OpW op) ∧
      (∀ ind, Impl.applyBytes o ind doc ops =
        match Impl.applyOps o (rootOf doc c con) 0 ops with
        | .panic => .panic
        | .err e => .err e
        | .ok r =>
          match marshalRoot o.esc r with
          | .panic => .panic
          | .err e => .err e
          | .ok data => if ind = [] then .ok data else .ok ((Scanner.indent ind data).getD [])) := by
  have hwc := parseCst_wfc_A doc c hdoc
  have hvalid : Scanner.valid doc = true := (C16.scanner_iff doc).2 (by simp [hdoc])
  have hne : doc ≠ [] := by rintro rfl; rw [parseCst_nil] at hdoc; cases hdoc
  obtain ⟨con, hd, hinv, hden⟩ := decodeRoot_spec (e := o.esc) hnd (CstOK_of_WFC _ c hwc.1) hcont
    (c.isArr && !goIsArray doc)
  refine ⟨con, hd, hinv, hden, ?_, ?_, fun op hop => (hfacts op hop).val, ?_⟩
  · have := decodeRoot_W hwc.1
    rw [hd] at this
    exact ⟨this, hwc.1⟩
  · exact fun op hop => ⟨fun v hv => ⟨hvnd op hop v hv, CstOK_of_WFC _ v ((hfacts op hop).val v hv)⟩,
      fun toks ht t hmem => QK_of_utf8 _ t ((hfacts op hop).tokens toks ht t hmem), (hfacts op hop).frm⟩
  · intro ind
    unfold applyBytes
    simp only [hne, if_false, hvalid, Bool.not_true, Bool.false_eq_true, hdoc, hd, rootOf]
    cases Impl.applyOps o { con := con, self := .raw c, selfCR := c.isArr && !goIsArray doc } 0 ops with
    | panic => rfl
    | err e => rfl
    | ok r =>
      simp only
      cases marshalRoot o.esc r <;> rfl

/-- the same for the operations `decodePatch` returned -/
theorem apply_bytes_setup (o : Impl.Opts) (doc patch : Bytes) (c : Cst) (ops : List Impl.Op)
    (hdoc : parseCst doc = some c) (hnd : c.valueOf.noDup = true) (hcont : c.valueOf.isContainer = true)
    (hpatch : Impl.decodePatch patch = .ok ops)
    (hvnd : ∀ op ∈ ops, ∀ v, op.value = some v → v.valueOf.noDup = true)
    :
    ∃ con, Impl.decodeRoot c = .ok con ∧ InvRoot o.esc (rootOf doc c con) ∧ den con = c.valueOf ∧
      RootW (rootOf doc c con) ∧ (∀ op ∈ ops, OpOK o.esc op) ∧ (∀ op ∈ ops, OpW op) ∧
      (∀ ind, Impl.applyBytes o ind doc ops =
        match Impl.applyOps o (rootOf doc c con) 0 ops with
        | .panic => .panic
        | .err e => .err e
        | .ok r =>
          match marshalRoot o.esc r with
          | .panic => .panic
          | .err e => .err e
          | .ok data => if ind = [] then .ok data else .ok ((Scanner.indent ind data).getD [])) :=
  apply_bytes_setup_ops o doc c ops hdoc hnd hcont (decodePatch_facts hpatch) hvnd

/-- the run behind `apply_bytes_refines`: the tree `t` the marshaller writes (operations: any list
with the facts `decodePatch` guarantees) -/
theorem apply_bytes_tree_ops (o : Impl.Opts) (ho : o.ensure = false) (hl : o.limit = 0)
    (doc : Bytes) (c : Cst) (ops : List Impl.Op) (sops : List Spec.Op)
    (hdoc : parseCst doc = some c) (hnd : c.valueOf.noDup = true)
    (hfacts : ∀ op ∈ ops, OpFacts op) (hops : specOps ops = some sops)
    (hvnd : ∀ op ∈ ops, ∀ v, op.value = some v → v.valueOf.noDup = true)
    (sizeAt : Nat → Nat) :
    match Spec.apply (specOpts o) sizeAt c.valueOf sops with
    | .ok v => ∃ t : Cst, Impl.applyBytes o [] doc ops = .ok (Cst.print t) ∧ t.valueOf = v ∧
        WFC t = true ∧ Cst.escape o.esc t = t ∧ t.depth = v.depth ∧ v.noDup = true
    | .fail _ _ => ∃ e, Impl.applyBytes o [] doc ops = .err e
    | .unspec => True := by
  simp only [Spec.apply]
  cases hcont : c.valueOf.isContainer with
  | false => simp
  | true =>
    simp only [if_true]
    obtain ⟨con, hd, hinv, hden, hrw, hok, hopw, heq⟩ :=
      apply_bytes_setup_ops o doc c ops hdoc hnd hcont hfacts hvnd
    have hW := applyOps_W o ho ops _ 0 hrw hopw
    have h := applyOps_refines_inv eqSpec o ho hl sizeAt ops sops _ 0 0 0 hinv hops hok
    simp only [rootOf, hden] at h
    cases hres : Spec.applyFrom (specOpts o) sizeAt 0 0 c.valueOf sops with
    | unspec => trivial
    | fail j cc =>
      rw [hres] at h
      obtain ⟨er, her⟩ := h
      refine ⟨er, ?_⟩
      rw [heq []]
      simp only [rootOf, her]
    | ok v =>
      rw [hres] at h
      obtain ⟨r', h1, h2, h3⟩ := h
      simp only [rootOf] at hW
      rw [h1] at hW
      refine ⟨cstOf o.esc r'.con, ?_, ?_, WFC_cstOf _ _ hW.1, escape_cstOf _ _, ?_, ?_⟩
      · rw [heq []]
        simp only [rootOf, h1, marshalRoot_eq o.esc r' h3.2, if_true]
      · rw [valueOf_cstOf _ _ h3.1.1 h3.1.2, h2]
      · rw [depth_cstOf _ _ h3.1.1 h3.1.2, h2]
      · rw [← h2]; exact den_noDup _ h3.1.1

/-- the run behind `apply_bytes_refines`: the tree `t` the marshaller writes -/
theorem apply_bytes_tree (o : Impl.Opts) (ho : o.ensure = false) (hl : o.limit = 0)
    (doc patch : Bytes) (c : Cst) (ops : List Impl.Op) (sops : List Spec.Op)
    (hdoc : parseCst doc = some c) (hnd : c.valueOf.noDup = true)
    (hpatch : Impl.decodePatch patch = .ok ops) (hs : specPatch patch = some sops)
    (hvnd : ∀ op ∈ ops, ∀ v, op.value = some v → v.valueOf.noDup = true)
    (sizeAt : Nat → Nat) :
    match Spec.apply (specOpts o) sizeAt c.valueOf sops with
    | .ok v => ∃ t : Cst, Impl.applyBytes o [] doc ops = .ok (Cst.print t) ∧ t.valueOf = v ∧
        WFC t = true ∧ Cst.escape o.esc t = t ∧ t.depth = v.depth ∧ v.noDup = true
    | .fail _ _ => ∃ e, Impl.applyBytes o [] doc ops = .err e
    | .unspec => True :=
  apply_bytes_tree_ops o ho hl doc c ops sops hdoc hnd (decodePatch_facts hpatch)
    (by rw [← specPatch_eq_specOps hpatch]; exact hs) hvnd sizeAt

/-- `apply_bytes_refines` for any list of operations with the facts `decodePatch` guarantees
(used for the shortened patch of C13) -/
theorem apply_bytes_refines_ops (o : Impl.Opts) (ho : o.ensure = false) (hl : o.limit = 0)
    (doc : Bytes) (c : Cst) (ops : List Impl.Op) (sops : List Spec.Op)
    (hdoc : parseCst doc = some c) (hnd : c.valueOf.noDup = true)
    (hfacts : ∀ op ∈ ops, OpFacts op) (hops : specOps ops = some sops)
    (hvnd : ∀ op ∈ ops, ∀ v, op.value = some v → v.valueOf.noDup = true)
    (sizeAt : Nat → Nat) :
    match Spec.apply (specOpts o) sizeAt c.valueOf sops with
    | .ok v => v.depth ≤ maxDepth →
        ∃ out, Impl.applyBytes o [] doc ops = .ok out ∧ parseValueOf out = some v
    | .fail _ _ => ∃ e, Impl.applyBytes o [] doc ops = .err e
    | .unspec => True := by
  have h := apply_bytes_tree_ops o ho hl doc c ops sops hdoc hnd hfacts hops hvnd sizeAt
  cases hres : Spec.apply (specOpts o) sizeAt c.valueOf sops with
  | unspec => trivial
  | fail j cc => rw [hres] at h; exact h
  | ok v =>
    rw [hres] at h
    obtain ⟨t, h1, h2, h3, _, h5, _⟩ := h
    intro hdep
    refine ⟨_, h1, ?_⟩
    simp only [parseValueOf, parse_print t h3 (by rw [h5]; exact hdep), Option.map_some, h2]

/-- **C01 for `Patch.ApplyIndentWithOptions` on bytes** (goal 2).  `doc` and `patch` are texts:
the document parses (reference parser) to a tree without repeated member names, the patch is
accepted by `DecodePatch`, `sops` is the specification's own reading of the patch text.  With
`s := Spec.apply … c.valueOf sops`:

* `s = .ok v` (and `v` at most `maxDepth` deep): `applyBytes` succeeds and its output parses, as an
  *ordered* value, to exactly `v`;
* `s = .fail i cause`: `applyBytes` returns an error;
* `s = .unspec` (root not a container, or an operation outside the domain): nothing is claimed. -/
theorem apply_bytes_refines (o : Impl.Opts) (ho : o.ensure = false) (hl : o.limit = 0)
    (doc patch : Bytes) (c : Cst) (ops : List Impl.Op) (sops : List Spec.Op)
    (hdoc : parseCst doc = some c) (hnd : c.valueOf.noDup = true)
    (hpatch : Impl.decodePatch patch = .ok ops) (hs : specPatch patch = some sops)
    (hvnd : ∀ op ∈ ops, ∀ v, op.value = some v → v.valueOf.noDup = true)
    (sizeAt : Nat → Nat) :
    match Spec.apply (specOpts o) sizeAt c.valueOf sops with
    | .ok v => v.depth ≤ maxDepth →
        ∃ out, Impl.applyBytes o [] doc ops = .ok out ∧ parseValueOf out = some v
    | .fail _ _ => ∃ e, Impl.applyBytes o [] doc ops = .err e
    | .unspec => True := by
  have h := apply_bytes_tree o ho hl doc patch c ops sops hdoc hnd hpatch hs hvnd sizeAt
  cases hres : Spec.apply (specOpts o) sizeAt c.valueOf sops with
  | unspec => trivial
  | fail j cc => rw [hres] at h; exact h
  | ok v =>
    rw [hres] at h
    obtain ⟨t, h1, h2, h3, _, h5, _⟩ := h
    intro hdep
    refine ⟨_, h1, ?_⟩
    simp only [parseValueOf, parse_print t h3 (by rw [h5]; exact hdep), Option.map_some, h2]

/-- the same, from `specOps` of the decoded operations instead of `specPatch` of the text -/
theorem apply_bytes_refines' (o : Impl.Opts) (ho : o.ensure = false) (hl : o.limit = 0)
    (doc patch : Bytes) (c : Cst) (ops : List Impl.Op) (sops : List Spec.Op)
    (hdoc : parseCst doc = some c) (hnd : c.valueOf.noDup = true)
    (hpatch : Impl.decodePatch patch = .ok ops) (hs : specOps ops = some sops)
    (hvnd : ∀ op ∈ ops, ∀ v, op.value = some v → v.valueOf.noDup = true)
    (sizeAt : Nat → Nat) :
    match Spec.apply (specOpts o) sizeAt c.valueOf sops with
    | .ok v => v.depth ≤ maxDepth →
        ∃ out, Impl.applyBytes o [] doc ops = .ok out ∧ parseValueOf out = some v
    | .fail _ _ => ∃ e, Impl.applyBytes o [] doc ops = .err e
    | .unspec => True :=
  apply_bytes_refines o ho hl doc patch c ops sops hdoc hnd hpatch
    (by rw [specPatch_eq_specOps hpatch]; exact hs) hvnd sizeAt

/-! ### the run-time predicates `c01` and `c05` are never violated by the model -/

mutual
theorem beq_refl : ∀ v : Value, Value.beq v v = true
  | .null => rfl
  | .bool b => by simp [Value.beq]
  | .num l => by simp [Value.beq]
  | .str s => by simp [Value.beq]
  | .arr xs => by simp only [Value.beq, beqL_refl xs]
  | .obj ms => by simp only [Value.beq, beqM_refl ms]
theorem beqL_refl : ∀ xs : List Value, Value.beqL xs xs = true
  | [] => rfl
  | x :: xs => by simp only [Value.beqL, beq_refl x, beqL_refl xs, Bool.and_self]
theorem beqM_refl : ∀ ms : Value.Members, Value.beqM ms ms = true
  | [] => rfl
  | (k, v) :: ms => by simp only [Value.beqM, beq_refl v, beqM_refl ms, beq_self_eq_true, Bool.and_self]
end

/-- what `specApply` computes when both texts are in the domain -/
theorem specApply_eq (o : Impl.Opts) (doc patch : Bytes) (c : Cst) (sops : List Spec.Op) (ops : List Impl.Op)
    (hdoc : parseCst doc = some c) (hs : specPatch patch = some sops)
    (hpatch : Impl.decodePatch patch = .ok ops)
    (hnd : (c.valueOf.noDup && sops.all fun op => (op.value.map Value.noDup).getD true) = true) :
    specApply o doc patch =
      Spec.apply (specOpts o) (fun i => (sizesFor o doc ops).getD i 0) c.valueOf sops := by
  simp only [specApply, parseValueOf, hdoc, Option.map_some, hs, hnd, Bool.not_true, Bool.false_eq_true,
    if_false, hpatch]

/-- the common part of the two corollaries -/
theorem checker_cases (o : Impl.Opts) (ho : o.ensure = false) (hl : o.limit = 0)
    (doc patch : Bytes) (ops : List Impl.Op) (hpatch : Impl.decodePatch patch = .ok ops)
    (hdepth : ∀ v, specApply o doc patch = .ok v → v.depth ≤ maxDepth) :
    match specApply o doc patch with
    | .ok v => ∃ out, Impl.applyBytes o [] doc ops = .ok out ∧ parseValueOf out = some v ∧ v.noDup = true
    | .fail _ _ => ∃ e, Impl.applyBytes o [] doc ops = .err e
    | .unspec => True := by
  cases hdoc : parseCst doc with
  | none => simp [specApply, parseValueOf, hdoc]
  | some c =>
    cases hs : specPatch patch with
    | none => simp [specApply, parseValueOf, hdoc, hs]
    | some sops =>
      cases hnd : (c.valueOf.noDup && sops.all fun op => (op.value.map Value.noDup).getD true) with
      | false => simp [specApply, parseValueOf, hdoc, hs, hnd]
      | true =>
        have heq := specApply_eq o doc patch c sops ops hdoc hs hpatch hnd
        rw [heq] at hdepth ⊢
        simp only [Bool.and_eq_true, List.all_eq_true] at hnd
        have hops : specOps ops = some sops := by rw [← specPatch_eq_specOps hpatch]; exact hs
        have hvnd : ∀ op ∈ ops, ∀ v, op.value = some v → v.valueOf.noDup = true := by
          intro op hop v hv
          obtain ⟨sop, hm, hval⟩ := specOps_values ops sops hops op hop
          have := hnd.2 sop hm
          rw [hval, hv] at this
          simpa using this
        have h := apply_bytes_tree o ho hl doc patch c ops sops hdoc hnd.1 hpatch hs hvnd
          (fun i => (sizesFor o doc ops).getD i 0)
        cases hres : Spec.apply (specOpts o) (fun i => (sizesFor o doc ops).getD i 0) c.valueOf sops with
        | unspec => trivial
        | fail j cc => rw [hres] at h; exact h
        | ok v =>
          rw [hres] at h hdepth
          obtain ⟨t, h1, h2, h3, _, h5, h6⟩ := h
          refine ⟨_, h1, ?_, h6⟩
          simp only [parseValueOf, parse_print t h3 (by rw [h5]; exact hdepth v rfl), Option.map_some, h2]

/-- **the model never violates C01 as the checker evaluates it** on the real code: for every
option set in scope, document text and patch text -/
theorem c01_never_violated (o : Impl.Opts) (ho : o.ensure = false) (hl : o.limit = 0)
    (doc patch : Bytes) (ops : List Impl.Op) (hpatch : Impl.decodePatch patch = .ok ops)
    (hdepth : ∀ v, specApply o doc patch = .ok v → v.depth ≤ maxDepth) (clause : String) :
    c01 (specApply o doc patch) (obsOf (Impl.applyBytes o [] doc ops)) ≠ .viol clause := by
  have h := checker_cases o ho hl doc patch ops hpatch hdepth
  cases hres : specApply o doc patch with
  | unspec => simp [c01]
  | fail j cc =>
    rw [hres] at h
    obtain ⟨e, he⟩ := h
    simp [c01, he, obsOf]
  | ok v =>
    rw [hres] at h
    obtain ⟨out, h1, h2, h3⟩ := h
    simp [c01, h1, obsOf, h2, Value.eqv_refl_E v h3]

/-- **… and never violates C05** (member order and literals: the ordered specification result) -/
theorem c05_never_violated (o : Impl.Opts) (ho : o.ensure = false) (hl : o.limit = 0)
    (doc patch : Bytes) (ops : List Impl.Op) (hpatch : Impl.decodePatch patch = .ok ops)
    (hdepth : ∀ v, specApply o doc patch = .ok v → v.depth ≤ maxDepth) (clause : String) :
    c05 (specApply o doc patch) (obsOf (Impl.applyBytes o [] doc ops)) ≠ .viol clause := by
  have h := checker_cases o ho hl doc patch ops hpatch hdepth
  cases hres : specApply o doc patch with
  | unspec => simp [c05]
  | fail j cc => simp [c05]
  | ok v =>
    rw [hres] at h
    obtain ⟨out, h1, h2, h3⟩ := h
    simp [c05, h1, obsOf, h2, beq_refl v]

/-! ### the hypotheses are satisfiable -/

section Examples

def exDoc : Bytes := ascii " {\"a\":{\"x\":\"<\"}, \"k\":null} "
def exPatch : Bytes := ascii
  "[{\"op\":\"add\",\"path\":\"/b\",\"value\":[true]},{\"op\":\"copy\",\"path\":\"/c\",\"from\":\"/a\"},{\"op\":\"remove\",\"path\":\"/a/x\"},{\"op\":\"test\",\"path\":\"/k\",\"value\":null},{\"op\":\"move\",\"path\":\"/m\",\"from\":\"/b\"}]"

/-- the hypotheses of `apply_bytes_refines` hold for a five-operation patch on a document with a
string that `compact` escapes; the specification result is defined and shallow -/
example :
    (∃ c ops sops, parseCst exDoc = some c ∧ c.valueOf.noDup = true ∧
      Impl.decodePatch exPatch = .ok ops ∧ specPatch exPatch = some sops ∧
      (ops.all fun op => (op.value.map fun v => v.valueOf.noDup).getD true) = true ∧
      (ops.all fun op => ((Spec.parsePointer op.path).map fun toks => toks.all isValidUtf8).getD true) = true ∧
      (match Spec.apply (specOpts {}) (fun _ => 0) c.valueOf sops with
       | .ok v => decide (v.depth ≤ maxDepth)
       | _ => false) = true) := by
  have h : (match parseCst exDoc, Impl.decodePatch exPatch, specPatch exPatch with
      | some c, .ok ops, some sops =>
        c.valueOf.noDup && (ops.all fun op => (op.value.map fun v => v.valueOf.noDup).getD true) &&
        (ops.all fun op => ((Spec.parsePointer op.path).map fun toks => toks.all isValidUtf8).getD true) &&
        (match Spec.apply (specOpts {}) (fun _ => 0) c.valueOf sops with
         | .ok v => decide (v.depth ≤ maxDepth)
         | _ => false)
      | _, _, _ => false) = true := by decide +kernel
  cases h1 : parseCst exDoc with
  | none => simp [h1] at h
  | some c =>
    cases h2 : Impl.decodePatch exPatch with
    | err e => simp [h1, h2] at h
    | panic => simp [h1, h2] at h
    | ok ops =>
      cases h3 : specPatch exPatch with
      | none => simp [h1, h2, h3] at h
      | some sops =>
        simp only [h1, h2, h3, Bool.and_eq_true] at h
        exact ⟨c, ops, sops, rfl, h.1.1.1, rfl, rfl, h.1.1.2, h.1.2, h.2⟩

/-- `{"a":{"x":"<"},"k":[1,2]}` -/
def exDocR : Bytes := ascii "{\"a\":{\"x\":\"<\"},\"k\":[1,2]}"

/-- what `apply_bytes_refines` says about one patch text on `exDocR`, as a Boolean: the
specification succeeds and the model's output parses to its result (`true`), or the specification
fails and the model returns an error (`false`) -/
def exRun (p : String) : Option Bool :=
  match parseCst exDocR, Impl.decodePatch (ascii p), specPatch (ascii p) with
  | some c, .ok ops, some sops =>
    match Spec.apply (specOpts {}) (fun _ => 0) c.valueOf sops, Impl.applyBytes {} [] exDocR ops with
    | .ok v, .ok out => (parseValueOf out).bind fun w => if Value.beq w v then some true else none
    | .fail _ _, .err _ => some false
    | _, _ => none
  | _, _, _ => none

/-- pointers that do not start with `/` (D20) are inside the theorem's domain: failures of the
specification and errors of the model, whatever the operation -/
example : exRun "[{\"op\":\"remove\",\"path\":\"a\"}]" = some false ∧
    exRun "[{\"op\":\"test\",\"path\":\"k\",\"value\":0}]" = some false ∧
    exRun "[{\"op\":\"add\",\"path\":\"k/0\",\"value\":0}]" = some false ∧
    exRun "[{\"op\":\"move\",\"from\":\"k/0\",\"path\":\"/a/y\"}]" = some false ∧
    exRun "[{\"op\":\"copy\",\"from\":\"/k/7\",\"path\":\"a\"}]" = some false := by decide +kernel

end Examples

/-
#print axioms JP.C01.parse_wfc
#print axioms JP.C01.cstOK_of_wfc
#print axioms JP.C01.qk_of_utf8
#print axioms JP.C01.unquote_is_utf8
#print axioms JP.C01.tx_decodeRoot
#print axioms JP.C01.names_utf8
#print axioms JP.C01.tokens_utf8
#print axioms JP.C01.apply_bytes_setup_ops
#print axioms JP.C01.apply_bytes_tree_ops
#print axioms JP.C01.apply_bytes_refines_ops
#print axioms JP.C01.apply_bytes_tree
#print axioms JP.C01.apply_bytes_refines
#print axioms JP.C01.apply_bytes_refines'
#print axioms JP.C01.c01_never_violated
#print axioms JP.C01.c05_never_violated
-/

end C01
end JP
