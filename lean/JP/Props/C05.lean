import JP.Driver
import JP.Impl.Den

/-! # Property C05 — theorems (see DESIGN.md §6) -/

namespace JP
namespace C05

end C05
end JP
