import JP.Props.C01bytes
import JP.Props.C05spec

/-!
# C05 for the implementation: member order, frame and literals of what `Apply` returns

`C01.apply_bytes_refines` gives *ordered* equality of the parsed output of `Impl.applyBytes` with
the specification's result.  Every law of `JP/Props/C05spec.lean` about the ordered specification
therefore holds for the parsed output: key order (`impl_order`), frame (`impl_frame`), literal
provenance (`impl_literals`), and the empty patch (`impl_empty_patch`).  `impl_transfer` is the
general principle.
-/

namespace JP.C05
open JP Impl Spec

/-- the general principle: whatever holds of the specification's result holds of the parsed
output of `applyBytes` -/
theorem impl_transfer (o : Impl.Opts) (ho : o.ensure = false) (hl : o.limit = 0)
    (doc patch : Bytes) (c : Cst) (ops : List Impl.Op) (sops : List Spec.Op)
    (hdoc : parseCst doc = some c) (hnd : c.valueOf.noDup = true)
    (hpatch : Impl.decodePatch patch = .ok ops) (hs : specPatch patch = some sops)
    (hvnd : ∀ op ∈ ops, ∀ v, op.value = some v → v.valueOf.noDup = true)
    (sizeAt : Nat → Nat) (v : Value)
    (hv : Spec.apply (specOpts o) sizeAt c.valueOf sops = .ok v) (hd : v.depth ≤ maxDepth)
    (P : Value → Prop) (hP : P v) :
    ∃ out v', Impl.applyBytes o [] doc ops = .ok out ∧ parseValueOf out = some v' ∧ P v' := by
  have h := C01.apply_bytes_refines o ho hl doc patch c ops sops hdoc hnd hpatch hs hvnd sizeAt
  rw [hv] at h
  obtain ⟨out, h1, h2⟩ := h hd
  exact ⟨out, v, h1, h2, hP⟩

/-- **member order** (goal 6): the document is an object and no operation replaces the whole
document; the names of the parsed output are the names never removed, in their original relative
order, followed by the created names in creation order -/
theorem impl_order (o : Impl.Opts) (ho : o.ensure = false) (hl : o.limit = 0)
    (doc patch : Bytes) (c : Cst) (ops : List Impl.Op) (sops : List Spec.Op)
    (hdoc : parseCst doc = some c) (hnd : c.valueOf.noDup = true)
    (hpatch : Impl.decodePatch patch = .ok ops) (hs : specPatch patch = some sops)
    (hvnd : ∀ op ∈ ops, ∀ v, op.value = some v → v.valueOf.noDup = true)
    (sizeAt : Nat → Nat) (v : Value) (ms : Value.Members)
    (hobj : c.valueOf = .obj ms)
    (hna : ∀ op, op ∈ sops → op.kind ≠ .test → parsePointer op.path ≠ some [] ∧
        (op.kind = .move → parsePointer op.frm ≠ some []))
    (hv : Spec.apply (specOpts o) sizeAt c.valueOf sops = .ok v) (hd : v.depth ≤ maxDepth) :
    ∃ out ms' N, Impl.applyBytes o [] doc ops = .ok out ∧ parseValueOf out = some (.obj ms') ∧
      Value.keys ms' = (Value.keys ms).filter (· ∉ sops.flatMap (removedAt [])) ++ N ∧
      (∀ k ∈ N, k ∉ Value.keys ms ∨ k ∈ sops.flatMap (removedAt [])) ∧
      N.Sublist (sops.flatMap (createdAt [])) := by
  have hv' := hv
  rw [hobj] at hv'
  obtain ⟨ms', N, rfl, h1, h2, h3⟩ := surviving_keys_apply (specOpts o) sizeAt ms sops v hv' hna
  obtain ⟨out, v', ha, hp, rfl⟩ := impl_transfer o ho hl doc patch c ops sops hdoc hnd hpatch hs hvnd
    sizeAt _ hv hd (fun w => w = .obj ms') rfl
  exact ⟨out, ms', N, ha, hp, h1, h2, h3⟩

/-- **frame**: the value at a pointer `q` reached through objects and incomparable with every
pointer the patch edits is, in the parsed output, what it was in the document (members, their
order, number literals) -/
theorem impl_frame (o : Impl.Opts) (ho : o.ensure = false) (hl : o.limit = 0)
    (doc patch : Bytes) (c : Cst) (ops : List Impl.Op) (sops : List Spec.Op)
    (hdoc : parseCst doc = some c) (hnd : c.valueOf.noDup = true)
    (hpatch : Impl.decodePatch patch = .ok ops) (hs : specPatch patch = some sops)
    (hvnd : ∀ op ∈ ops, ∀ v, op.value = some v → v.valueOf.noDup = true)
    (sizeAt : Nat → Nat) (v : Value) (q : List Bytes)
    (hinc : ∀ op, op ∈ sops → op.editsIncomparable q) (hq : objPath o.neg c.valueOf q)
    (hv : Spec.apply (specOpts o) sizeAt c.valueOf sops = .ok v) (hd : v.depth ≤ maxDepth) :
    ∃ out v', Impl.applyBytes o [] doc ops = .ok out ∧ parseValueOf out = some v' ∧
      resolve o.neg v' q = resolve o.neg c.valueOf q :=
  impl_transfer o ho hl doc patch c ops sops hdoc hnd hpatch hs hvnd sizeAt v hv hd
    (fun w => resolve o.neg w q = resolve o.neg c.valueOf q)
    (frame_patch (specOpts o) sizeAt c.valueOf sops v q hv hinc hq)

/-- **literal provenance**: every number literal of the parsed output occurs, spelled the same, in
the document or in the value of an operation -/
theorem impl_literals (o : Impl.Opts) (ho : o.ensure = false) (hl : o.limit = 0)
    (doc patch : Bytes) (c : Cst) (ops : List Impl.Op) (sops : List Spec.Op)
    (hdoc : parseCst doc = some c) (hnd : c.valueOf.noDup = true)
    (hpatch : Impl.decodePatch patch = .ok ops) (hs : specPatch patch = some sops)
    (hvnd : ∀ op ∈ ops, ∀ v, op.value = some v → v.valueOf.noDup = true)
    (sizeAt : Nat → Nat) (v : Value)
    (hv : Spec.apply (specOpts o) sizeAt c.valueOf sops = .ok v) (hd : v.depth ≤ maxDepth) :
    ∃ out v', Impl.applyBytes o [] doc ops = .ok out ∧ parseValueOf out = some v' ∧
      ∀ l ∈ v'.numLits, l ∈ c.valueOf.numLits ∨ (∃ op w, op ∈ sops ∧ op.value = some w ∧ l ∈ w.numLits) :=
  impl_transfer o ho hl doc patch c ops sops hdoc hnd hpatch hs hvnd sizeAt v hv hd
    (fun w => ∀ l ∈ w.numLits, l ∈ c.valueOf.numLits ∨ (∃ op u, op ∈ sops ∧ op.value = some u ∧ l ∈ u.numLits))
    (literals_apply (specOpts o) sizeAt c.valueOf sops v hv)

/-- **empty patch**: the output parses to the document's value — same members, same order, same
literals (no depth hypothesis: the document was read by the reference parser) -/
theorem impl_empty_patch (o : Impl.Opts) (ho : o.ensure = false) (hl : o.limit = 0)
    (doc : Bytes) (c : Cst) (hdoc : parseCst doc = some c) (hnd : c.valueOf.noDup = true)
    (hcont : c.valueOf.isContainer = true) :
    ∃ out, Impl.applyBytes o [] doc [] = .ok out ∧ parseValueOf out = some c.valueOf := by
  have h := C01.apply_bytes_refines_ops o ho hl doc c [] [] hdoc hnd (by simp) rfl (by simp)
    (fun _ => 0)
  rw [empty_patch_identity (specOpts o) (fun _ => 0) c.valueOf hcont] at h
  exact h (by rw [depth_valueOf]; exact (parseCst_wfc_A doc c hdoc).2)

/-! ### the hypotheses are satisfiable -/

section Examples

/-- `{"a":1,"b":{"x":2.50},"c":[true]}` -/
def exDocO : Bytes := ascii "{\"a\":1,\"b\":{\"x\":2.50},\"c\":[true]}"
/-- remove `a`, add `z`, replace `c/0` -/
def exPatchO : Bytes := ascii
  "[{\"op\":\"remove\",\"path\":\"/a\"},{\"op\":\"add\",\"path\":\"/z\",\"value\":1e2},{\"op\":\"replace\",\"path\":\"/c/0\",\"value\":null}]"

/-- the hypotheses of `impl_order` / `impl_literals` hold; the output keeps `b` before `c`, appends
`z`, and spells `2.50` and `1e2` as in the inputs -/
example : (match parseCst exDocO, Impl.decodePatch exPatchO, specPatch exPatchO with
    | some c, .ok ops, some sops =>
      c.valueOf.noDup &&
      (sops.all fun op => decide (op.kind ≠ .test → parsePointer op.path ≠ some [] ∧
        (op.kind = .move → parsePointer op.frm ≠ some []))) &&
      (match Spec.apply (specOpts {}) (fun _ => 0) c.valueOf sops, Impl.applyBytes {} [] exDocO ops with
       | .ok v, .ok out =>
         decide (v.depth ≤ maxDepth) && out == ascii "{\"b\":{\"x\":2.50},\"c\":[null],\"z\":1e2}"
       | _, _ => false)
    | _, _, _ => false) = true := by decide +kernel

example : ∃ out, Impl.applyBytes {} [] exDocO [] = .ok out ∧ parseValueOf out = (parseCst exDocO).map Cst.valueOf := by
  cases hd : parseCst exDocO with
  | none => exact absurd hd (by decide +kernel)
  | some c =>
    have h1 : c.valueOf.noDup = true ∧ c.valueOf.isContainer = true := by
      have : (match parseCst exDocO with
        | some c => c.valueOf.noDup && c.valueOf.isContainer | none => false) = true := by decide +kernel
      rw [hd] at this
      simpa using this
    exact impl_empty_patch {} rfl rfl exDocO c hd h1.1 h1.2

end Examples

/-
#print axioms JP.C05.impl_transfer
#print axioms JP.C05.impl_order
#print axioms JP.C05.impl_frame
#print axioms JP.C05.impl_literals
#print axioms JP.C05.impl_empty_patch
-/

end JP.C05
