import JP.Lemmas.FloatMoreC
import JP.Lemmas.FloatMoreP
import JP.Lemmas.FloatMoreN
import JP.Lemmas.FloatMoreK
import JP.Props.C17floatTotal

/-!
# C17 — floats, the remaining statements of DESIGN §13.15

* `round_overflow_iff`, `overflow_iff` — the range error (`±Inf`, `ErrRange`) is reported EXACTLY from
  `maxFinite + ulp/2` on: `overflowThr bits = (2^(mb+2) − 1) · 2^(expMax − 2 − bias − mb)`, for binary64
  `(2^54 − 1) · 2^970`.
* `round_monotone`, `round_interval`, `parse_monotone` — rounding is monotone (results measured in units of
  `2^qmin`, the overflow answer as `2^(emax+1)`); the values rounded to one float form an interval;
  `ParseFloat` is monotone on literals, in the order `FP.le` of the exact values (`−0 = +0`).
* `search_is_minimal`, `shortest_is_shortest`, `shortest_not_parsed_shorter` — the digit search returns the
  MINIMAL number of digits: no decimal with fewer significant digits (any exponent) reads back as `x`.
* `search_is_closest`, `shortest_is_closest` — among the decimals of that length that read back as `x` the
  chosen one is nearest to the exact value (`FP.value`), and of two equally near ones on the grid the one with
  the even last digit.
* `format_exact_nat_53` — every integer below `2^53` is printed as its decimal digits;
  `format_nat_big_counterexample` — for representable integers from `2^53` on that is FALSE in general
  (2^69 prints as 590295810358705700000: the shortest digits padded with zeros).
-/

namespace JP.C17
open JP JP.Codec JP.Codec.Float
open JP.Codec.Typed (decimal)

/-! ## overflow -/

/-- `roundRat` reports overflow exactly from the largest finite float plus half an ulp on -/
theorem round_overflow_iff (bits N D : Nat) (hN : 0 < N) (hD : 0 < D) :
    (roundRat bits N D).2.2 = true ↔ overflowThr bits * D ≤ N :=
  roundRat_overflow_iff bits N D hN hD

/-- `strconv.ParseFloat` returns (`±Inf`, `ErrRange`) exactly when `|value| ≥ maxFinite + ulp/2`; the value of the
literal is `digits · 10^exp10 = digits · 10^exp10.toNat / litDen` -/
theorem overflow_iff (bits : Nat) (s : Bytes) (l : Lit) (h : Float.parseLit s = some l) :
    (∃ x, parseFloat bits s = some (x, true)) ↔ overflowThr bits * litDen l ≤ l.digits * 10 ^ l.exp10.toNat :=
  parseFloat_overflow_iff bits s l h

/-- … and then the result is the infinity of the literal's sign -/
theorem overflow_value (bits : Nat) (s : Bytes) (l : Lit) (h : Float.parseLit s = some l) (x : FP)
    (hx : parseFloat bits s = some (x, true)) : x = ⟨l.neg, expMax bits, 0⟩ :=
  parseFloat_overflow_value bits s l h x hx

example : overflowThr 64 = (2 ^ 54 - 1) * 2 ^ 970 := by decide +kernel
example : overflowThr 32 = (2 ^ 25 - 1) * 2 ^ 103 := by decide +kernel
/-- the largest finite float plus half an ulp: `(2^53 − 1) · 2^971 + 2^970` -/
example : overflowThr 64 = (2 ^ 53 - 1) * 2 ^ 971 + 2 ^ 970 := by decide +kernel

/-! ## monotonicity -/

/-- a larger value is never rounded to a smaller float (`resUlps`: the result in units of `2^qmin`; the overflow
answer counts as `2^(emax+1)`) -/
theorem round_monotone (bits N₁ D₁ N₂ D₂ : Nat) (hN₁ : 0 < N₁) (hD₁ : 0 < D₁) (hN₂ : 0 < N₂) (hD₂ : 0 < D₂)
    (h : N₁ * D₂ ≤ N₂ * D₁) :
    resUlps bits (roundRat bits N₁ D₁) ≤ resUlps bits (roundRat bits N₂ D₂) :=
  roundRat_mono bits N₁ D₁ N₂ D₂ hN₁ hD₁ hN₂ hD₂ h

/-- the values rounded to one float form an interval -/
theorem round_interval (bits N₁ D₁ N₂ D₂ N₃ D₃ : Nat) (hN₁ : 0 < N₁) (hD₁ : 0 < D₁) (hN₂ : 0 < N₂)
    (hD₂ : 0 < D₂) (hN₃ : 0 < N₃) (hD₃ : 0 < D₃) (h12 : N₁ * D₂ ≤ N₂ * D₁) (h23 : N₂ * D₃ ≤ N₃ * D₂)
    (heq : roundRat bits N₁ D₁ = roundRat bits N₃ D₃) :
    roundRat bits N₂ D₂ = roundRat bits N₁ D₁ :=
  roundRat_between bits N₁ D₁ N₂ D₂ N₃ D₃ hN₁ hD₁ hN₂ hD₂ hN₃ hD₃ h12 h23 heq

/-- the order of floats through `FP.value` is the order of the signed number of units -/
theorem le_iff_units (bits : Nat) (x y : FP) : FP.le bits x y ↔ sulps bits x ≤ sulps bits y :=
  FP.le_iff_sulps bits x y

/-- `ParseFloat` is monotone: literals with `v₁ ≤ v₂` (`litLe`: integer cross-multiplication of
`±digits · 10^exp10`) are read as floats `x₁ ≤ x₂` (signed zeros equal, `±Inf` as `±2^(emax+1)`) -/
theorem parse_monotone (bits : Nat) (s₁ s₂ : Bytes) (l₁ l₂ : Lit) (h₁ : Float.parseLit s₁ = some l₁)
    (h₂ : Float.parseLit s₂ = some l₂) (hle : litLe l₁ l₂) :
    ∃ x₁ r₁ x₂ r₂, parseFloat bits s₁ = some (x₁, r₁) ∧ parseFloat bits s₂ = some (x₂, r₂) ∧
      FP.le bits x₁ x₂ :=
  parseFloat_mono bits s₁ s₂ l₁ l₂ h₁ h₂ hle

/-! ## the search returns the minimal number of digits -/

/-- if the search answers `c · 10^e` after trying `n` digits, no decimal `c' · 10^e'` with `c' < 10^m`, `m < n`
(at most `m` significant digits, ANY exponent) reads back as `x` -/
theorem search_is_minimal (bits : Nat) (x : FP) (hwf : x.wf bits = true) (hfin : x.isFinite bits = true)
    (hnz : x.isZero = false) (c : Nat) (e : Int)
    (hs : search bits x (exactN bits x) (exactD bits x) (decPoint (exactN bits x) (exactD bits x))
      (maxDigits bits) 1 = some (c, e)) :
    ∃ n : Nat, 1 ≤ n ∧ n ≤ maxDigits bits ∧ e = decPoint (exactN bits x) (exactD bits x) - (n : Int) ∧
      ∀ (m c' : Nat) (e' : Int), m < n → c' < 10 ^ m → roundsTo bits x c' e' = false :=
  search_minimal bits x hwf hfin hnz c e hs

/-- THE GRID LEMMA behind it: a decimal of at most `j` digits that reads back as `x` makes the `j`-digit
candidate exist -/
theorem short_decimal_found (bits : Nat) (x : FP) (hwf : x.wf bits = true) (hfin : x.isFinite bits = true)
    (hnz : x.isZero = false) (j : Nat) (hj : 1 ≤ j) (c' : Nat) (e' : Int) (hc' : c' < 10 ^ j)
    (hr : roundsTo bits x c' e' = true) :
    cand bits x (exactN bits x) (exactD bits x) (decPoint (exactN bits x) (exactD bits x)) j ≠ none :=
  cand_of_short bits x hwf hfin hnz _ (decPoint_lower bits x hwf hfin hnz).1 j hj c' e' hc' hr

/-! ## … and the closest decimal of that length -/

/-- `|c · 10^e − |x||`, multiplied by the denominators: through the exact value `FP.value` -/
def decDist (bits : Nat) (x : FP) (c : Nat) (e : Int) : Nat :=
  adiff (decN c e * (x.value bits).2) ((x.value bits).1.natAbs * decD e)

theorem decDist_eq (bits : Nat) (x : FP) (c : Nat) (e : Int) :
    decDist bits x c e = ddist (exactN bits x) (exactD bits x) c e := by
  unfold decDist ddist
  rw [value_fst, value_snd]
  cases x.sign <;> simp

/-- the decimal the search returns is nearest to the exact value among ALL decimals `c' · 10^e'`, `c' < 10^n`
(at most `n` significant digits, any exponent) that read back as `x`; and when another decimal with the same
exponent is equally near, the returned one has an even last digit -/
theorem search_is_closest (bits : Nat) (x : FP) (hwf : x.wf bits = true) (hfin : x.isFinite bits = true)
    (hnz : x.isZero = false) (c : Nat) (e : Int)
    (hs : search bits x (exactN bits x) (exactD bits x) (decPoint (exactN bits x) (exactD bits x))
      (maxDigits bits) 1 = some (c, e)) :
    ∃ n : Nat, 1 ≤ n ∧ e = decPoint (exactN bits x) (exactD bits x) - (n : Int) ∧
      roundsTo bits x c e = true ∧
      (∀ (c' : Nat) (e' : Int), c' < 10 ^ n → roundsTo bits x c' e' = true →
        decDist bits x c e * decD e' ≤ decDist bits x c' e' * decD e) ∧
      (∀ c' : Nat, c' ≠ c → roundsTo bits x c' e = true → decDist bits x c' e = decDist bits x c e →
        c % 2 = 0) := by
  obtain ⟨n, h1, _, h3, _⟩ := search_first_some bits x _ _ _ _ _ _ hs
  obtain ⟨hk, _, _⟩ := decPoint_lower bits x hwf hfin hnz
  obtain ⟨he, hok, hcl, hev⟩ := cand_closest bits x hwf hfin hnz _ hk n h1 c e h3
  refine ⟨n, h1, he, hok, ?_, ?_⟩
  · intro c' e' hc' hr'
    rw [decDist_eq, decDist_eq]
    exact hcl c' e' hc' hr'
  · intro c' hne hr' hd
    rw [decDist_eq, decDist_eq] at hd
    exact hev c' hne hr' hd

/-! ## the same for the digit string of `shortest` -/

/-- the decimal point of the search is exact: `10^(k-1) ≤ |x| < 10^k` -/
theorem decPoint_exact (bits : Nat) (x : FP) (hwf : x.wf bits = true) (hfin : x.isFinite bits = true)
    (hnz : x.isZero = false) :
    geP10 (exactN bits x) (exactD bits x) (decPoint (exactN bits x) (exactD bits x) - 1) = true ∧
      geP10 (exactN bits x) (exactD bits x) (decPoint (exactN bits x) (exactD bits x)) = false :=
  ⟨(decPoint_lower bits x hwf hfin hnz).1, decPoint_upper bits x hwf hfin hnz⟩

/-- what `shortest` returns comes from the search, and its digit string is not longer than the number `n` of
digits tried -/
theorem shortest_from_search (bits : Nat) (x : FP) (hwf : x.wf bits = true) (hfin : x.isFinite bits = true)
    (hnz : x.isZero = false) (ds : Bytes) (dp : Int) (h : shortest bits x = some (ds, dp)) :
    ∃ (c : Nat) (e : Int) (n : Nat),
      ds = stripZeros (decimal c) ∧ dp = ((decimal c).length : Int) + e ∧ 1 ≤ n ∧ ds.length ≤ n ∧
      cand bits x (exactN bits x) (exactD bits x) (decPoint (exactN bits x) (exactD bits x)) n = some (c, e) ∧
      ∀ j, 1 ≤ j → j < n →
        cand bits x (exactN bits x) (exactD bits x) (decPoint (exactN bits x) (exactD bits x)) j = none := by
  rw [shortest_eq bits x hnz] at h
  cases hs : search bits x (exactN bits x) (exactD bits x) (decPoint (exactN bits x) (exactD bits x))
      (maxDigits bits) 1 with
  | none => rw [hs] at h; simp at h
  | some p =>
    obtain ⟨c, e⟩ := p
    rw [hs] at h
    simp only [Option.some.injEq, Prod.mk.injEq] at h
    obtain ⟨hds, hdp⟩ := h
    obtain ⟨n, h1, _, h3, h4⟩ := search_first_some bits x _ _ _ _ _ _ hs
    have hok := search_sound bits x _ _ _ _ _ _ hs
    have hc0 : c ≠ 0 := (roundsTo_bounds bits x hnz c e hok).1
    have hlen := cand_digits_le bits x _ _ (exactD_pos10 bits x) _ n h1 c e (by omega)
      (decPoint_upper bits x hwf hfin hnz) h3
    refine ⟨c, e, n, hds.symm, hdp.symm, h1, ?_, h3, h4⟩
    rw [← hds]; exact hlen

/-- THE SHORTEST: no decimal `c' · 10^e'` with fewer significant digits than the digit string `ds` that
`shortest` returns (`c' < 10^m`, `m < ds.length`, any exponent) reads back as `x` -/
theorem shortest_is_shortest (bits : Nat) (x : FP) (hwf : x.wf bits = true) (hfin : x.isFinite bits = true)
    (hnz : x.isZero = false) (ds : Bytes) (dp : Int) (h : shortest bits x = some (ds, dp)) :
    ∀ (m c' : Nat) (e' : Int), m < ds.length → c' < 10 ^ m → roundsTo bits x c' e' = false := by
  obtain ⟨c, e, n, _, _, _, hlen, _, h4⟩ := shortest_from_search bits x hwf hfin hnz ds dp h
  intro m c' e' hm hc'
  cases hr : roundsTo bits x c' e' with
  | false => rfl
  | true =>
    exfalso
    have hc0 : c' ≠ 0 := (roundsTo_bounds bits x hnz c' e' hr).1
    have hm1 : 1 ≤ m := by
      apply Nat.pos_of_ne_zero
      intro h0; subst h0
      simp at hc'; exact hc0 hc'
    exact cand_of_short bits x hwf hfin hnz _ (decPoint_lower bits x hwf hfin hnz).1 m hm1 c' e' hc' hr
      (h4 m hm1 (by omega))

/-- on the bytes: NO number literal — in any spelling: `%e`, `%f`, leading zeros of the fraction, any written
exponent — whose digits (integer and fraction part together, as a number) are fewer than those of `ds` is
read by `strconv.ParseFloat` as `x` -/
theorem shortest_not_parsed_shorter (bits : Nat) (x : FP) (hwf : x.wf bits = true)
    (hfin : x.isFinite bits = true) (hnz : x.isZero = false) (ds : Bytes) (dp : Int)
    (h : shortest bits x = some (ds, dp)) (s : Bytes) (l : Lit) (hl : Float.parseLit s = some l) (m : Nat)
    (hm : m < ds.length) (hd : l.digits < 10 ^ m) : parseFloat bits s ≠ some (x, false) := by
  intro hp
  rw [parseFloat_eq bits s l hl] at hp
  simp only [Option.some.injEq, Prod.mk.injEq] at hp
  obtain ⟨hx, herr⟩ := hp
  have hr : roundsTo bits x l.digits l.exp10 = true := by
    unfold roundsTo
    rw [← hx]
    simp [herr]
  have := shortest_is_shortest bits x hwf hfin hnz ds dp h m l.digits l.exp10 hm hd
  rw [hr] at this
  simp at this

/-- THE CLOSEST OF THE SHORTEST: `shortest` returns the digits of a decimal `c · 10^e` that reads back as `x`
and is nearest to the exact value `FP.value` among ALL decimals with at most `ds.length` significant digits
that read back as `x`; when another decimal with the same exponent is equally near, `c` is even -/
theorem shortest_is_closest (bits : Nat) (x : FP) (hwf : x.wf bits = true) (hfin : x.isFinite bits = true)
    (hnz : x.isZero = false) (ds : Bytes) (dp : Int) (h : shortest bits x = some (ds, dp)) :
    ∃ (c : Nat) (e : Int), ds = stripZeros (decimal c) ∧ dp = ((decimal c).length : Int) + e ∧
      roundsTo bits x c e = true ∧
      (∀ (c' : Nat) (e' : Int), c' < 10 ^ ds.length → roundsTo bits x c' e' = true →
        decDist bits x c e * decD e' ≤ decDist bits x c' e' * decD e) ∧
      (∀ c' : Nat, c' ≠ c → roundsTo bits x c' e = true → decDist bits x c' e = decDist bits x c e →
        c % 2 = 0) := by
  obtain ⟨c, e, n, hds, hdp, h1, hlen, h3, _⟩ := shortest_from_search bits x hwf hfin hnz ds dp h
  obtain ⟨hk, _, _⟩ := decPoint_lower bits x hwf hfin hnz
  obtain ⟨_, hok, hcl, hev⟩ := cand_closest bits x hwf hfin hnz _ hk n h1 c e h3
  refine ⟨c, e, hds, hdp, hok, ?_, ?_⟩
  · intro c' e' hc' hr'
    rw [decDist_eq, decDist_eq]
    have : 10 ^ ds.length ≤ 10 ^ n := Nat.pow_le_pow_right (by omega) hlen
    exact hcl c' e' (by omega) hr'
  · intro c' hne hr' hd
    rw [decDist_eq, decDist_eq] at hd
    exact hev c' hne hr' hd

/-- the observed ties: 1125899906842624.25 prints …24.2 (even), 1125899906842624.75 prints …24.8 -/
example : shortest 64 ⟨false, 1073, 0x0000000000001⟩ = some (ascii "11258999068426242", 16) := by
  decide +kernel
example : shortest 64 ⟨false, 1073, 0x0000000000003⟩ = some (ascii "11258999068426248", 16) := by
  decide +kernel

/-! ## integers -/

/-- every integer below `2^53` is printed as its decimal digits: no exponent, no fraction, nothing dropped -/
theorem format_exact_nat_53 (n : Nat) (hn : n < 2 ^ 53) :
    floatEncode 64 (FP.ofNat 64 n) false = some (decimal n) := by
  by_cases h0 : n = 0
  · subst h0; decide +kernel
  · exact floatEncode_nat53 n h0 hn

/-- decode, then encode: the digits come back, for every integer below `2^53` -/
theorem nat_literal_roundtrip_53 (n : Nat) (hn : n < 2 ^ 53) :
    (storeFloat 64 (decimal n)).bind (fun x => floatEncode 64 x false) = some (decimal n) := by
  have h53 : n < 2 ^ (mantBits 64 + 1) := by
    have : mantBits 64 + 1 = 53 := by decide
    rw [this]; exact hn
  rw [store_exact_nat 64 n h53]
  exact format_exact_nat_53 n hn

/-- … and so it is canonical -/
theorem canonical_nat_53 (n : Nat) (hn : n < 2 ^ 53) : canonical (decimal n) := by
  have h53 : n < 2 ^ (mantBits 64 + 1) := by
    have : mantBits 64 + 1 = 53 := by decide
    rw [this]; exact hn
  exact encode_canonical _ _ (format_exact_nat_53 n hn)

/-- the decimal digits of ANY integer that is a float (`exactD = 1`: the value `exactN` is an integer — also above
`2^53`) are read back as that float, without error -/
theorem parse_exact_repr_nat (bits : Nat) (x : FP) (hwf : x.wf bits = true) (hfin : x.isFinite bits = true)
    (hnz : x.isZero = false) (hs : x.sign = false) (hD : exactD bits x = 1) :
    parseFloat bits (decimal (exactN bits x)) = some (x, false) := by
  have hN := exactN_pos10 bits x hnz
  have hx := roundRat_exact bits x hwf hfin hnz
  rw [hD] at hx
  rw [parseFloat_eq bits _ _ (parseLit_decimal (exactN bits x))]
  simp only
  rw [roundDec_eq_roundRat bits (exactN bits x) 0 (by omega)]
  simp only [ge_iff_le, Int.le_refl, if_true, Int.toNat_zero, Nat.pow_zero, Nat.mul_one]
  rw [hx]
  cases x
  simp only at hs
  simp [hs]

/-- the goal "`floatEncode 64 x false = decimal n` for every representable integer `2^53 ≤ n < 10^21`" -/
def format_exact_nat_reprGoal : Prop :=
  ∀ x : FP, x.wf 64 = true → x.isFinite 64 = true → x.sign = false → exactD 64 x = 1 →
    2 ^ 53 ≤ exactN 64 x → exactN 64 x < 10 ^ 21 →
      floatEncode 64 x false = some (decimal (exactN 64 x))

/-- … is FALSE: `2^69` -/
theorem format_exact_nat_reprGoal_false : ¬ format_exact_nat_reprGoal := by
  intro h
  have := h ⟨false, 1092, 0⟩ (by decide) (by decide) rfl (by decide +kernel) (by decide +kernel)
    (by decide +kernel)
  revert this
  decide +kernel

/-- for representable integers from `2^53` on the statement is FALSE in general: `2^69` (the float
`⟨false, 1023 + 69, 0⟩`, below `10^21`, so printed with `%f`) is printed with its 16 shortest digits and zeros,
not as `decimal (2^69) = 590295810358705651712` -/
theorem format_nat_big_counterexample :
    floatEncode 64 ⟨false, 1092, 0⟩ false ≠ some (decimal (2 ^ 69)) ∧
      storeFloat 64 (decimal (2 ^ 69)) = some ⟨false, 1092, 0⟩ := by
  decide +kernel

end JP.C17
