import JP.Lemmas.FloatParse
import JP.Lemmas.FloatValid
import JP.Lemmas.TextParse
import JP.Lemmas.FloatNat
import JP.Lemmas.FloatNatFmt3
import JP.Lemmas.FloatNeg
import JP.Lemmas.FloatDigits
import JP.Lemmas.FloatRound
import JP.Lemmas.FloatBits
import JP.Lemmas.FloatClamp
import JP.Lemmas.FloatNearest
import JP.Lemmas.FloatExact
import JP.Legacy.Merge

/-!
# C17 — floats: `floatEncoder.encode`, `strconv.AppendFloat(…, -1, bits)`, `strconv.ParseFloat`, `literalStore`

`JP/Codec/Float.lean` models IEEE 754 binary32 / binary64 by their three fields (`FP`) with exact
arithmetic on `Nat`/`Int` (no Lean `Float`).  It is tied to the fork AND to `encoding/json` by the stream
`float` (`FLOAT` lines, harness/float.go).  The theorems hold for ALL inputs.

* The shortest-representation search (`shortest`) CHECKS its answer (`formatShortest` re-reads the bytes it
  is about to return), so the round trip is a theorem about the model by construction; that the search never
  gives up (17 resp. 9 digits always suffice) is NOT proved — it is the decidable `searchFails`, evaluated by
  the driver on every generated value (never true in > 10^6 cases; the reply would carry `SEARCHFAILS`).
-/

namespace JP.C17
open JP JP.Codec JP.Codec.Float

/-! ## round trip -/

/-- what the encoder prints for a float decodes (float branch of `literalStore`) to the SAME float — sign of
zero included, since `FP` carries the sign bit -/
theorem float_roundtrip (bits : Nat) (x : FP) (s : Bytes)
    (h : floatEncode bits x false = some s) : storeFloat bits s = some x := by
  unfold floatEncode at h
  split at h
  · exact absurd h (by simp)
  · simp only at h
    split at h
    · exact absurd h (by simp)
    · rename_i b0 hb
      have hp := formatShortest_parse bits _ x b0 hb
      have hs : storeFloat bits b0 = some x := by unfold storeFloat; rw [hp]
      simp only [Bool.false_eq_true, if_false, Option.some.injEq] at h
      rw [← h]
      by_cases hfm : (if useE bits x = true then Fmt.e else Fmt.f) = Fmt.e
      · rw [if_pos hfm, storeFloat_cleanExp]; exact hs
      · rw [if_neg hfm]; exact hs

/-- with the `string` option: the same between the quotes -/
theorem float_roundtrip_quoted (bits : Nat) (x : FP) (s : Bytes)
    (h : floatEncode bits x true = some s) :
    ∃ t, s = 34 :: t ++ [34] ∧ floatEncode bits x false = some t ∧ storeFloat bits t = some x := by
  have key : ∀ q, floatEncode bits x q = (floatEncode bits x false).map fun b => if q then 34 :: b ++ [34] else b := by
    intro q
    unfold floatEncode
    split
    · rfl
    · simp only
      split
      · rfl
      · simp
  rw [key true] at h
  cases ht : floatEncode bits x false with
  | none => rw [ht] at h; simp at h
  | some t =>
    rw [ht] at h
    simp only [Option.map_some, if_true, Option.some.injEq] at h
    exact ⟨t, h.symm, rfl, float_roundtrip bits x t ht⟩

/-- for bit patterns: the pattern of the decoded value is the pattern that was encoded -/
theorem float_roundtrip_bits (bits : Nat) (p : Nat) (s : Bytes)
    (h : floatEncode bits (FP.ofBits bits p) false = some s) :
    (storeFloat bits s).map (FP.toBits bits) = some ((FP.ofBits bits p).toBits bits) := by
  rw [float_roundtrip bits _ s h]; rfl

/-- literally for the bit pattern `p` (the sign bit of `-0` included) -/
theorem float_roundtrip_pattern (bits p : Nat) (hp : p < 2 ^ totalBits bits) (s : Bytes)
    (h : floatEncode bits (FP.ofBits bits p) false = some s) :
    (storeFloat bits s).map (FP.toBits bits) = some p := by
  rw [float_roundtrip bits _ s h]
  simp only [Option.map_some, toBits_ofBits bits p hp]

/-- fields and bit patterns are the same thing -/
theorem bits_fields (bits : Nat) :
    (∀ p, p < 2 ^ totalBits bits → (FP.ofBits bits p).toBits bits = p) ∧
    (∀ x : FP, x.wf bits = true → FP.ofBits bits (x.toBits bits) = x) ∧
    (∀ p, (FP.ofBits bits p).wf bits = true) :=
  ⟨toBits_ofBits bits, ofBits_toBits bits, ofBits_wf bits⟩

example : (storeFloat 64 (ascii "-0")).map (FP.toBits 64) = some 0x8000000000000000 := by decide +kernel

example : floatEncode 64 ⟨false, 1019, 0x999999999999A⟩ false = some (ascii "0.1") := by decide +kernel
example : storeFloat 64 (ascii "0.1") = some ⟨false, 1019, 0x999999999999A⟩ := by decide +kernel
example : floatEncode 64 ⟨true, 0, 0⟩ false = some (ascii "-0") := by decide +kernel
example : storeFloat 64 (ascii "-0") = some ⟨true, 0, 0⟩ := by decide +kernel
example : floatEncode 64 ⟨false, 0, 1⟩ false = some (ascii "5e-324") := by decide +kernel
example : floatEncode 64 ⟨false, 1092, 0xB1AE4D6E2EF50⟩ true = some (ascii "\"1e+21\"") := by decide +kernel
example : floatEncode 32 ⟨false, 107, 0x0637BC⟩ false = some (ascii "9.999999e-7") := by decide +kernel
example : floatEncode 64 ⟨false, 2046, 0xFFFFFFFFFFFFF⟩ false = some (ascii "1.7976931348623157e+308") := by
  decide +kernel

/-! ## the output is an RFC 8259 number literal -/

theorem parseCst_of_parseLit (s : Bytes) (h : (Float.parseLit s).isSome = true) : parseCst s = some (.lit s) := by
  have hv : WFC (.lit s) = true := by
    simp only [WFC]
    exact Typed.validLit_of_parse s (parseLit_parseNumber s h)
  have := parse_print (.lit s) hv (by simp [Cst.depth])
  simpa [Cst.print] using this

theorem float_encode_wellformed (bits : Nat) (x : FP) (s : Bytes)
    (h : floatEncode bits x false = some s) : parseCst s = some (.lit s) := by
  have hs := float_roundtrip bits x s h
  apply parseCst_of_parseLit
  unfold storeFloat parseFloat at hs
  cases hl : Float.parseLit s with
  | none => rw [hl] at hs; simp at hs
  | some l => rfl

/-- the quoted form is a JSON string whose body is that literal -/
theorem float_encode_wellformed_quoted (bits : Nat) (x : FP) (s : Bytes)
    (h : floatEncode bits x true = some s) : ∃ t, s = 34 :: t ++ [34] ∧ parseCst t = some (.lit t) := by
  obtain ⟨t, hs, ht, _⟩ := float_roundtrip_quoted bits x s h
  exact ⟨t, hs, float_encode_wellformed bits x t ht⟩

example : parseCst (ascii "1.7976931348623157e+308") = some (.lit (ascii "1.7976931348623157e+308")) :=
  float_encode_wellformed 64 ⟨false, 2046, 0xFFFFFFFFFFFFF⟩ _ (by decide +kernel)

/-! ## when the encoder refuses -/

/-- `UnsupportedValueError` exactly for NaN and ±Inf — up to the search giving up (`searchFails`, decidable,
evaluated on every generated value, never observed; that 17 / 9 digits always suffice is not proved) -/
theorem float_encode_none_iff (bits : Nat) (x : FP) (q : Bool) (hx : x.wf bits = true) :
    floatEncode bits x q = none ↔ (x.isNaN bits = true ∨ x.isInf bits = true ∨ searchFails bits x = true) := by
  have hfin : x.isFinite bits = false ↔ (x.isNaN bits = true ∨ x.isInf bits = true) := by
    simp only [FP.wf, Bool.and_eq_true, decide_eq_true_eq] at hx
    have he : expMax bits + 1 = 2 ^ expBits bits := by
      unfold expMax
      have : 0 < 2 ^ expBits bits := Nat.pos_of_ne_zero (by simp)
      omega
    simp only [FP.isFinite, FP.isNaN, FP.isInf, decide_eq_false_iff_not, Bool.and_eq_true, decide_eq_true_eq,
      bne_iff_ne, ne_eq, beq_iff_eq, Bool.not_eq_true', Bool.not_eq_eq_eq_not]
    constructor
    · intro h
      have : x.exp = expMax bits := by omega
      by_cases hm : x.mant = 0
      · right; exact ⟨this, by simpa using hm⟩
      · left; exact ⟨this, by simpa using hm⟩
    · rintro (⟨h, _⟩ | ⟨h, _⟩) <;> omega
  unfold floatEncode searchFails
  by_cases hf : x.isFinite bits = true
  · have hn : ¬ (x.isNaN bits = true ∨ x.isInf bits = true) := by
      rw [← hfin]; simp [hf]
    simp only [hf, Bool.not_true, Bool.false_eq_true, if_false, Bool.true_and]
    cases hs : formatShortest bits (if useE bits x = true then Fmt.e else Fmt.f) x with
    | none => simp
    | some b => simp [hn]
  · have hf' : x.isFinite bits = false := by simpa using hf
    have := hfin.1 hf'
    simp only [hf', Bool.not_false, if_true, Bool.false_and, Bool.false_eq_true, or_false, true_iff]
    exact this

example : floatEncode 64 ⟨false, 2047, 0⟩ false = none := by decide +kernel
example : floatEncode 64 ⟨true, 2047, 12345⟩ true = none := by decide +kernel
example : searchFails 64 ⟨false, 1019, 0x999999999999A⟩ = false := by decide +kernel
example : searchFails 32 ⟨false, 0, 1⟩ = false := by decide +kernel

/-! ## `ParseFloat` rounds correctly -/

/-- the literal's value `digits · 10^exp10` is handed to `roundRat` as an exact fraction `N / D` — for EVERY
literal with a non-zero digit: the two shortcuts of `roundDec` for astronomic exponents give what the
arithmetic would have given (`roundDec_eq_roundRat`) -/
theorem parse_uses_roundRat (bits : Nat) (s : Bytes) (l : Lit) (hl : Float.parseLit s = some l)
    (h0 : l.digits ≠ 0) :
    ∃ N D, 0 < N ∧ 0 < D ∧ N * 10 ^ (-l.exp10).toNat = l.digits * 10 ^ l.exp10.toNat * D ∧
      parseFloat bits s =
        some (⟨l.neg, (roundRat bits N D).1, (roundRat bits N D).2.1⟩, (roundRat bits N D).2.2) := by
  have hpos : 0 < l.digits := by omega
  by_cases he : l.exp10 ≥ 0
  · refine ⟨l.digits * 10 ^ l.exp10.toNat, 1, Nat.mul_pos hpos (Nat.pos_of_ne_zero (by simp)), by omega, ?_, ?_⟩
    · have : (-l.exp10).toNat = 0 := by omega
      rw [this]
    · unfold parseFloat
      rw [hl]
      simp only [roundDec_eq_roundRat bits l.digits l.exp10 h0, he, if_true]
  · refine ⟨l.digits, 10 ^ (-l.exp10).toNat, hpos, Nat.pos_of_ne_zero (by simp), ?_, ?_⟩
    · have : l.exp10.toNat = 0 := by omega
      rw [this]; simp
    · unfold parseFloat
      rw [hl]
      simp only [roundDec_eq_roundRat bits l.digits l.exp10 h0, he, if_false]

/-- a literal without a non-zero digit is a zero of its sign -/
theorem parse_zero (bits : Nat) (s : Bytes) (l : Lit) (hl : Float.parseLit s = some l) (h0 : l.digits = 0) :
    parseFloat bits s = some (⟨l.neg, 0, 0⟩, false) := by
  unfold parseFloat roundDec
  rw [hl]; simp [h0]

/-- and `roundRat bits N D` is correct rounding of `N / D`: with `q` the exponent of the last place of the
binade that contains `N / D` (`a / b := N / D / 2^q` has an integer part of exactly `mantBits + 1` bits, or
`q` is the subnormal exponent) there is an integer `S` with `|a/b - S| ≤ 1/2`, even when `|a/b - S| = 1/2`,
such that the result is the well-formed finite float of value `S · 2^q` — or the overflow answer, exactly when
the exponent `S · 2^q` needs is out of range. -/
theorem round_nearest_even (bits N D : Nat) (hN : 0 < N) (hD : 0 < D) :
    ∃ (S : Nat) (q : Int) (a b : Nat),
      (a, b) = scaled N D q ∧ 0 < b ∧
      (1 : Int) - ((bias bits + mantBits bits : Nat) : Int) ≤ q ∧
      a / b < 2 ^ (mantBits bits + 1) ∧
      (2 ^ mantBits bits ≤ a / b ∨ q = 1 - ((bias bits + mantBits bits : Nat) : Int)) ∧
      2 * (S * b) ≤ 2 * a + b ∧ 2 * a ≤ 2 * (S * b) + b ∧
      ((2 * (S * b) = 2 * a + b ∨ 2 * a = 2 * (S * b) + b) → S % 2 = 0) ∧
      ((roundRat bits N D = (expMax bits, 0, true) ∧ 2 ^ mantBits bits ≤ S ∧
          (expMax bits : Int) ≤ q + (if S = 2 ^ (mantBits bits + 1) then 1 else 0)
            + ((bias bits + mantBits bits : Nat) : Int)) ∨
       ((roundRat bits N D).2.2 = false ∧
        (FP.mk false (roundRat bits N D).1 (roundRat bits N D).2.1).wf bits = true ∧
        (roundRat bits N D).1 < expMax bits ∧
        q ≤ (FP.mk false (roundRat bits N D).1 (roundRat bits N D).2.1).qexp bits ∧
        (FP.mk false (roundRat bits N D).1 (roundRat bits N D).2.1).sig bits
          * 2 ^ ((FP.mk false (roundRat bits N D).1 (roundRat bits N D).2.1).qexp bits - q).toNat = S)) :=
  roundRat_spec bits N D hN hD

/-- NEAREST AMONG ALL FLOATS.  Every finite float is an integer number `ulps` of units `2^qmin`; `N / D` is
`N · 2^(bias + mb - 1) / D` such units.  When `roundRat` does not report overflow, no finite float `y` of the
format is nearer to `N / D` than its result (distances multiplied by `D`) -/
theorem round_nearest_all (bits N D : Nat) (hN : 0 < N) (hD : 0 < D)
    (hno : (roundRat bits N D).2.2 = false) (y : FP) (hy : y.wf bits = true) :
    adiff (N * 2 ^ (bias bits + mantBits bits - 1))
        (ulps bits ⟨false, (roundRat bits N D).1, (roundRat bits N D).2.1⟩ * D)
      ≤ adiff (N * 2 ^ (bias bits + mantBits bits - 1)) (ulps bits y * D) :=
  roundRat_nearest bits N D hN hD hno y hy

/-- for literals: what `ParseFloat` returns without a range error is a float nearest to the literal's value
`N / D = digits · 10^exp10` -/
theorem parse_nearest (bits : Nat) (s : Bytes) (l : Lit) (hl : Float.parseLit s = some l) (h0 : l.digits ≠ 0) :
    ∃ N D, 0 < N ∧ 0 < D ∧ N * 10 ^ (-l.exp10).toNat = l.digits * 10 ^ l.exp10.toNat * D ∧
      ∀ x, parseFloat bits s = some (x, false) → ∀ y : FP, y.wf bits = true →
        adiff (N * 2 ^ (bias bits + mantBits bits - 1)) (ulps bits x * D)
          ≤ adiff (N * 2 ^ (bias bits + mantBits bits - 1)) (ulps bits y * D) := by
  obtain ⟨N, D, hN, hD, hrel, hp⟩ := parse_uses_roundRat bits s l hl h0
  refine ⟨N, D, hN, hD, hrel, ?_⟩
  intro x hx y hy
  rw [hp] at hx
  simp only [Option.some.injEq, Prod.mk.injEq] at hx
  obtain ⟨hx1, hx2⟩ := hx
  have := round_nearest_all bits N D hN hD hx2 y hy
  rw [← hx1]
  exact this

example : ulps 64 ⟨false, 1023, 0⟩ = 2 ^ 1074 := by decide +kernel
example : ulps 64 ⟨false, 0, 1⟩ = 1 := by decide +kernel

/-- every finite non-zero float is read back from its exact value (`exactN / exactD = sig · 2^qexp`): rounding
is the identity on floats, subnormals included -/
theorem round_exact (bits : Nat) (x : FP) (hwf : x.wf bits = true) (hfin : x.isFinite bits = true)
    (hnz : x.isZero = false) :
    roundRat bits (exactN bits x) (exactD bits x) = (x.exp, x.mant, false) :=
  roundRat_exact bits x hwf hfin hnz

example : roundRat 64 (exactN 64 ⟨false, 0, 1⟩) (exactD 64 ⟨false, 0, 1⟩) = (0, 1, false) := by decide +kernel
example : exactD 64 ⟨false, 0, 1⟩ = 2 ^ 1074 := by decide +kernel

/-- the halfway case 2^53 + 1 goes to the even neighbour 2^53, 2^53 + 3 to 2^53 + 4 -/
example : parseFloat 64 (ascii "9007199254740993") = some (⟨false, 1076, 0⟩, false) := by decide +kernel
example : parseFloat 64 (ascii "9007199254740995") = some (⟨false, 1076, 2⟩, false) := by decide +kernel
/-- a digit far behind decides: just above the midpoint rounds up -/
example : parseFloat 64 (ascii "9007199254740993.000000000000000000000000000000000000001")
    = some (⟨false, 1076, 1⟩, false) := by decide +kernel
example : parseFloat 64 (ascii "1.7976931348623158e308") = some (⟨false, 2046, 0xFFFFFFFFFFFFF⟩, false) := by
  decide +kernel
example : parseFloat 64 (ascii "1.7976931348623159e308") = some (⟨false, 2047, 0⟩, true) := by decide +kernel
example : parseFloat 64 (ascii "2.4703282292062327e-324") = some (⟨false, 0, 0⟩, false) := by decide +kernel
example : parseFloat 64 (ascii "2.4703282292062328e-324") = some (⟨false, 0, 1⟩, false) := by decide +kernel
example : parseFloat 32 (ascii "1.00000017881393432617187499") = some (⟨false, 127, 1⟩, false) := by
  decide +kernel
example : parseFloat 32 (ascii "1.000000178813934326171875") = some (⟨false, 127, 2⟩, false) := by
  decide +kernel

/-! ## sign -/

/-- a leading `-` only flips the sign bit (rounding is symmetric) -/
theorem parse_sign (bits : Nat) (lit : Bytes) (h : lit.head? ≠ some 45) :
    parseFloat bits (45 :: lit) = (parseFloat bits lit).map fun r => (r.1.neg, r.2) := by
  unfold parseFloat
  rw [parseLit_neg lit h]
  cases hl : Float.parseLit lit with
  | none => rfl
  | some l =>
    have := parseLit_pos lit h l hl
    simp [FP.neg, this]

example : parseFloat 64 (ascii "-0.1") = (parseFloat 64 (ascii "0.1")).map fun r => (r.1.neg, r.2) := by
  decide +kernel

/-! ## integers -/

/-- every integer below `2^53` (binary64) resp. `2^24` (binary32), written in decimal, is read as the float
with exactly that value, without error -/
theorem parse_exact_nat (bits n : Nat) (hn : n < 2 ^ (mantBits bits + 1)) :
    parseFloat bits (Typed.decimal n) = some (FP.ofNat bits n, false) :=
  parseFloat_decimal bits n hn

theorem store_exact_nat (bits n : Nat) (hn : n < 2 ^ (mantBits bits + 1)) :
    storeFloat bits (Typed.decimal n) = some (FP.ofNat bits n) := by
  unfold storeFloat; rw [parse_exact_nat bits n hn]

/-- `FP.ofNat bits n` has the value `n`: significand `n · 2^k`, exponent `-k` -/
theorem ofNat_value (bits n : Nat) (h0 : n ≠ 0) (hn : n < 2 ^ (mantBits bits + 1)) :
    ∃ k : Nat, (FP.ofNat bits n).sig bits = n * 2 ^ k ∧ (FP.ofNat bits n).qexp bits = -(k : Int) := by
  have hl1 : 2 ^ Nat.log2 n ≤ n := Nat.log2_self_le h0
  have hlm : Nat.log2 n ≤ mantBits bits := by
    have : 2 ^ Nat.log2 n < 2 ^ (mantBits bits + 1) := Nat.lt_of_le_of_lt hl1 hn
    have := (Nat.pow_lt_pow_iff_right (a := 2) (by omega)).1 this
    omega
  have hQ1 : 2 ^ mantBits bits ≤ n * 2 ^ (mantBits bits - Nat.log2 n) := by
    calc 2 ^ mantBits bits = 2 ^ Nat.log2 n * 2 ^ (mantBits bits - Nat.log2 n) := by
          rw [← Nat.pow_add]; congr 1; omega
      _ ≤ n * 2 ^ (mantBits bits - Nat.log2 n) := Nat.mul_le_mul_right _ hl1
  have hb : bias bits ≠ 0 := by unfold bias; split <;> omega
  refine ⟨mantBits bits - Nat.log2 n, ?_, ?_⟩
  · simp only [FP.sig, FP.ofNat, h0, if_false]
    rw [if_neg (by omega)]
    omega
  · simp only [FP.qexp, FP.ofNat, h0, if_false]
    rw [if_neg (by omega)]
    omega

example : parseFloat 64 (ascii "9007199254740991") = some (FP.ofNat 64 9007199254740991, false) := by
  decide +kernel
/-- one more and the literal is no longer exact: 2^53 + 1 reads as 2^53 -/
example : parseFloat 64 (ascii "9007199254740993") = parseFloat 64 (ascii "9007199254740992") := by
  decide +kernel

/-- an integer below `10^15` (every integer of at most 15 digits: the old domain of `Legacy.numLitModelled`)
is printed as its decimal digits: no exponent, no fraction, nothing dropped -/
theorem format_exact_nat (n : Nat) (hn : n < 10 ^ 15) :
    floatEncode 64 (FP.ofNat 64 n) false = some (Typed.decimal n) := by
  by_cases h0 : n = 0
  · subst h0; decide +kernel
  · exact floatEncode_nat n h0 hn

/-- decode, then encode: the digits come back -/
theorem nat_literal_roundtrip (n : Nat) (hn : n < 10 ^ 15) :
    (storeFloat 64 (Typed.decimal n)).bind (fun x => floatEncode 64 x false) = some (Typed.decimal n) := by
  have h53 : n < 2 ^ (mantBits 64 + 1) := by
    have : (10 : Nat) ^ 15 < 2 ^ (mantBits 64 + 1) := by decide
    omega
  rw [store_exact_nat 64 n h53]
  exact format_exact_nat n hn

example : floatEncode 64 (FP.ofNat 64 999999999999999) false = some (ascii "999999999999999") := by
  decide +kernel
/-- the bound of the general statement (`n < 2^53`, `n < 10^21`) is NOT proved; at `10^21` the format changes -/
example : floatEncode 64 ⟨false, 1092, 0xB1AE4D6E2EF50⟩ false = some (ascii "1e+21") := by decide +kernel
example : floatEncode 64 (FP.ofNat 64 9007199254740991) false = some (ascii "9007199254740991") := by
  decide +kernel

/-! ## numbers spelled the way Go prints a float64 -/

/-- `l` is what `Marshal` prints for the float64 that `l` denotes -/
def canonical (l : Bytes) : Prop :=
  ∃ x, stdNumberToAny l = some x ∧ floatEncode 64 x false = some l

instance (l : Bytes) : Decidable (canonical l) :=
  match h : stdNumberToAny l with
  | none => isFalse (by rintro ⟨x, hx, _⟩; rw [h] at hx; exact absurd hx (by simp))
  | some x =>
    if he : floatEncode 64 x false = some l then isTrue ⟨x, h, he⟩
    else isFalse (by
      rintro ⟨y, hy, hey⟩
      rw [h] at hy
      simp only [Option.some.injEq] at hy
      subst hy
      exact he hey)

theorem canonicalB_iff (l : Bytes) : canonicalB l = true ↔ canonical l := by
  unfold canonicalB canonical
  cases h : stdNumberToAny l with
  | none => simp
  | some x => simp

/-- canonical spellings of the same float are the same bytes: on canonical literals, equality of the
floats IS equality of the texts (what the legacy `CreateMergePatch` model needs) -/
theorem canonical_injective (l₁ l₂ : Bytes) (h₁ : canonical l₁) (h₂ : canonical l₂)
    (h : stdNumberToAny l₁ = stdNumberToAny l₂) : l₁ = l₂ := by
  obtain ⟨x, hx, ex⟩ := h₁
  obtain ⟨y, hy, ey⟩ := h₂
  rw [hx, hy] at h
  simp only [Option.some.injEq] at h
  subst h
  rw [ex] at ey
  simpa using ey

/-- decoding and printing a canonical literal gives it back -/
theorem canonical_fixed (l : Bytes) (h : canonical l) :
    (stdNumberToAny l).bind (fun x => floatEncode 64 x false) = some l := by
  obtain ⟨x, hx, ex⟩ := h
  rw [hx]; exact ex

/-- everything the encoder prints is canonical -/
theorem encode_canonical (x : FP) (s : Bytes) (h : floatEncode 64 x false = some s) : canonical s :=
  ⟨x, float_roundtrip 64 x s h, h⟩

/-- plain integers of at most 15 digits are canonical -/
theorem canonical_nat (n : Nat) (hn : n < 10 ^ 15) : canonical (Typed.decimal n) := by
  have h53 : n < 2 ^ (mantBits 64 + 1) := by
    have : (10 : Nat) ^ 15 < 2 ^ (mantBits 64 + 1) := by decide
    omega
  exact ⟨FP.ofNat 64 n, store_exact_nat 64 n h53, format_exact_nat n hn⟩

/-- printing `-x` is printing `x` behind a `-` (also for `x = +0`: `-0`) -/
theorem format_neg (bits : Nat) (x : FP) (hx : x.sign = false) :
    floatEncode bits x.neg false = (floatEncode bits x false).map (fun b => 45 :: b) :=
  floatEncode_neg bits x hx

/-- canonical spellings are closed under a leading `-` -/
theorem canonical_neg (l : Bytes) (hl : l.head? ≠ some 45) (h : canonical l) : canonical (45 :: l) := by
  obtain ⟨x, hx, ex⟩ := h
  have hp : parseFloat 64 l = some (x, false) := by
    unfold stdNumberToAny storeFloat at hx
    cases hq : parseFloat 64 l with
    | none => rw [hq] at hx; simp at hx
    | some r =>
      obtain ⟨y, e⟩ := r
      rw [hq] at hx
      cases e <;> simp at hx
      rw [hx]
  have hsign : x.sign = false := by
    unfold parseFloat at hp
    cases hq : Float.parseLit l with
    | none => rw [hq] at hp; simp at hp
    | some lit =>
      rw [hq] at hp
      simp only [Option.some.injEq, Prod.mk.injEq] at hp
      rw [← hp.1]
      exact parseLit_pos l hl lit hq
  refine ⟨x.neg, ?_, ?_⟩
  · unfold stdNumberToAny storeFloat
    rw [(parseFloat_neg_iff 64 x hsign l).2 hp]
  · rw [format_neg 64 x hsign, ex]; rfl

theorem nlm_neg (r : Bytes) : Legacy.numLitModelled (45 :: r) =
    (decide (r.length ≤ 15) && !r.isEmpty && r.all isDigit
      && (decide (r.length = 1) || decide (r.head? ≠ some 48)) && decide ((45 :: r : Bytes) ≠ ascii "-0")) := by
  rfl

theorem nlm_pos (c : UInt8) (t : Bytes) (hc : c ≠ 45) : Legacy.numLitModelled (c :: t) =
    (decide ((c :: t).length ≤ 15) && !(c :: t).isEmpty && (c :: t).all isDigit
      && (decide ((c :: t).length = 1) || decide ((c :: t).head? ≠ some 48))
      && decide ((c :: t : Bytes) ≠ ascii "-0")) := by
  unfold Legacy.numLitModelled
  split
  · rename_i heq; simp only [List.cons.injEq] at heq; exact absurd heq.1 hc
  · rfl

/-- THE OLD DOMAIN IS INSIDE THE NEW ONE: every literal of `Legacy.numLitModelled` (plain integers of at most
15 digits, `-0` excluded) is canonical -/
theorem numLitModelled_canonical (l : Bytes) (h : Legacy.numLitModelled l = true) : canonical l := by
  have key : ∀ d : Bytes, d.length ≤ 15 → d ≠ [] → d.all isDigit = true →
      (d.length = 1 ∨ d.head? ≠ some 48) →
      canonical d ∧ d.head? ≠ some 45 := by
    intro d h15 hne hd hz
    obtain ⟨e1, e2, _⟩ := decimal_digitsNat d hd hne hz
    have hlt : digitsNat d < 10 ^ 15 :=
      Nat.lt_of_lt_of_le e2 (Nat.pow_le_pow_right (by omega) h15)
    refine ⟨by have := canonical_nat (digitsNat d) hlt; rwa [e1] at this, ?_⟩
    cases d with
    | nil => simp
    | cons c t =>
      simp only [List.all_cons, Bool.and_eq_true] at hd
      simp only [List.head?_cons, ne_eq, Option.some.injEq]
      rintro rfl; exact absurd hd.1 (by decide)
  have fin : ∀ digits : Bytes,
      (decide (digits.length ≤ 15) && !digits.isEmpty && digits.all isDigit
        && (decide (digits.length = 1) || decide (digits.head? ≠ some 48))) = true →
      canonical digits ∧ digits.head? ≠ some 45 := by
    intro digits h
    simp only [Bool.and_eq_true, decide_eq_true_eq, Bool.not_eq_true', Bool.or_eq_true] at h
    obtain ⟨⟨⟨h15, hemp⟩, hd⟩, hz⟩ := h
    have hne : digits ≠ [] := by intro e; subst e; simp at hemp
    exact key digits h15 hne hd hz
  cases l with
  | nil => exact absurd h (by decide)
  | cons c t =>
    by_cases hc : c = 45
    · subst hc
      rw [nlm_neg, Bool.and_eq_true] at h
      obtain ⟨hcn, hh⟩ := fin t h.1
      exact canonical_neg _ hh hcn
    · rw [nlm_pos c t hc, Bool.and_eq_true] at h
      exact (fin (c :: t) h.1).1

example : canonical (ascii "0.1") := by decide +kernel
example : canonical (ascii "-123456789012345") := numLitModelled_canonical _ (by decide)
example : canonical (ascii "-0") := by decide +kernel
example : canonical (ascii "1e+21") := by decide +kernel
example : canonical (ascii "5e-324") := by decide +kernel
example : canonical (ascii "123456789012345") := by decide +kernel
example : ¬ canonical (ascii "1e21") := by decide +kernel
example : ¬ canonical (ascii "0.10") := by decide +kernel
example : ¬ canonical (ascii "9007199254740993") := by decide +kernel

end JP.C17
