import JP.Lemmas.TypedDecAgree
import JP.Lemmas.TypedDecTyped4
import JP.Lemmas.TypedDecWalk
import JP.Lemmas.DecodeTop
import JP.Codec.TypedDecodeDriver
import JP.Props.C17typed

set_option linter.unusedSimpArgs false

/-!
# C17 — the reflective DECODER on typed targets (structs with tags, maps, slices, arrays, pointers)

`JP/Codec/TypedDecode.lean` is the literal model of `Unmarshal(text, &x)` for `x` a fresh variable of a
type `t : GoType`; it is tied to the real decoder by the stream `typeddec` (value, error class, agreement
with `encoding/json`).  The theorems hold for ALL types / texts of the stated domains.
-/

namespace JP.C17
open JP JP.Codec JP.Codec.Typed JP.Codec.TDec

/-! ### the example type used below (the one of `C17typed.lean`, plus a fixed array and a slice)

    type Inner struct { A int; B string `json:"b,omitempty"` }
    type T struct {
        Inner
        A string `json:"a"`;  N int64 `json:"n,string"`;  P *bool `json:",omitempty"`
        M map[int8]string;    S []byte `json:"<s>"`;      x int;   Z interface{} `json:"-"`
        K [2]uint8 `json:"k"`;  L []int
    } -/

def dInner : GoType :=
  .struct (ascii "Inner") [(⟨ascii "A", [], false, true⟩, .int .int), (⟨ascii "B", ascii "b,omitempty", false, true⟩, .string)]

def dT : GoType := .struct (ascii "T") [
  (⟨ascii "Inner", [], true, true⟩, dInner),
  (⟨ascii "A", ascii "a", false, true⟩, .string),
  (⟨ascii "N", ascii "n,string", false, true⟩, .int .int64),
  (⟨ascii "P", ascii ",omitempty", false, true⟩, .ptr .bool),
  (⟨ascii "M", [], false, true⟩, .map (.int .int8) .string),
  (⟨ascii "S", ascii "<s>", false, true⟩, .slice (.uint .uint8)),
  (⟨ascii "x", [], false, false⟩, .int .int),
  (⟨ascii "Z", ascii "-", false, true⟩, .iface),
  (⟨ascii "K", ascii "k", false, true⟩, .array 2 (.uint .uint8)),
  (⟨ascii "L", [], false, true⟩, .slice (.int .int))]

/-! ### the library's own decoding is an instance of the typed model -/

/-- what `Decode.lean`'s entry point returns, as (value, error) of a typed `Unmarshal` -/
def untypedResult (t : Target) : Outcome → Exec (GoVal × Option DErr)
  | .ok r => .ok (goOf t r.val, none)
  | .error e v => .ok (goOf t v, some e)
  | .panic => .panic
  | .fuel => .fuel

/-- On the targets of `Decode.lean` without `Unmarshaler`s (`interface{}`, `string`, `map[string]T`,
`[]T` of those) `unmarshalTyped` computes what `Codec.unmarshalChecked` (`Unmarshal`) computes: same
value (`goOf`: the typed rendering of a `DVal`), same error, on EVERY text. -/
theorem typeddec_agrees_untyped (t : Target) (h : rawFree t = true) (text : Bytes) :
    unmarshalTyped (tyOf t) text = untypedResult t (unmarshalChecked t text []) := by
  simp only [unmarshalTyped, unmarshalChecked, unmarshalWithKeys]
  by_cases hv : Scanner.valid text = true
  · simp only [hv, Bool.not_true, Bool.false_eq_true, if_false, Codec.unmarshal]
    have := (sim_all (fuelFor text)).1 t
      (scanWhile Scanner.scanSkipSpace
        { data := text, off := 0, opcode := 0, scan := Scanner.Scan.init, savedError := none, lastKeys := [] }) h
    cases hc : Codec.value (fuelFor text) t
        (scanWhile Scanner.scanSkipSpace
          { data := text, off := 0, opcode := 0, scan := Scanner.Scan.init, savedError := none, lastKeys := [] }) with
    | ok p =>
      obtain ⟨d1, v⟩ := p
      rw [hc] at this
      obtain ⟨w, hw, hr⟩ := this
      rw [hw]
      simp only [finish]
      cases hs : d1.savedError with
      | none => simp only [untypedResult]; rw [show toGoVal (tyOf t) w = goOf t v from hr]
      | some e => simp only [untypedResult]; rw [show toGoVal (tyOf t) w = goOf t v from hr]
    | panic => rw [hc] at this; simp only [Sim] at this; rw [this]; rfl
    | fuel => rw [hc] at this; simp only [Sim] at this; rw [this]; rfl
  · have hv' : Scanner.valid text = false := by simpa using hv
    simp only [hv', Bool.not_false, if_true, untypedResult]
    rw [show toGoVal (tyOf t) (zeroDV (tyOf t)) = goOf t (zero t) from zero_rel t h]

/-- hence on those targets a well-formed text never makes the typed model panic or run out of fuel -/
theorem typeddec_no_panic_untyped (t : Target) (h : rawFree t = true) (text : Bytes) (c : Cst)
    (hp : parseCst text = some c) : ∃ v e, unmarshalTyped (tyOf t) text = .ok (v, e) := by
  rw [typeddec_agrees_untyped t h]
  obtain ⟨D, v, hu, _, _, _⟩ := unmarshal_spec t text c [] hp
  have hvalid := valid_of_parseCst text c hp
  simp only [unmarshalChecked, unmarshalWithKeys, hvalid, Bool.not_true, Bool.false_eq_true, if_false, hu, finish]
  cases hs : D.savedError with
  | none => exact ⟨_, _, rfl⟩
  | some e => exact ⟨_, _, rfl⟩

/-- the observation of a result used in the examples: the wire rendering of the value
(`TypedWire.lean`: what the harness prints) and the error -/
def obs : Exec (GoVal × Option DErr) → Option (Bytes × Option DErr)
  | .ok (v, e) => some (renderVal v, e)
  | _ => none

/-- example: `{"a":[1,"x"],"b":null}` into `map[string][]interface{}` -/
example : obs (unmarshalTyped (.map .str (.slice .iface)) (ascii "{\"a\":[1,\"x\"],\"b\":null}")) =
    some (ascii "m2:s1:al2:ens1:1ess1:xs1:bz", none) := by decide +kernel

/-! ### the result is a value of the target's type -/

/-- Whatever the text (well-formed or not) and whatever the type: when `Unmarshal` returns (with or
without an error) the variable holds a value of its type — integers within the range of their kind,
fixed arrays of their length, maps with distinct keys of the key kind, `[]byte` as bytes, interfaces
holding well-typed dynamic values. -/
theorem typeddec_result_typed (t : GoType) (text : Bytes) (v : GoVal) (e : Option DErr)
    (h : unmarshalTyped t text = .ok (v, e)) : v.hasType t = true :=
  unmarshalTyped_hasType t text v e h

/-- example: the struct `T`; the fixed array `K` keeps two elements (a type error for 300 is saved, the third
element is skipped) -/
example : obs (unmarshalTyped dT (ascii "{\"k\":[1,300,3]}")) =
    some (ascii "S10:S2:i0;s0:s0:i0;zzzi0;zl2:u1;u0;z", some (.typeError .number 11)) := by decide +kernel

/-! ### struct targets: unknown members, exact match before case folding, duplicates -/

/-- A member whose name matches no field (neither exactly nor by the field's fold function) is skipped:
the struct is left as it was, whatever the member's value is (`valueSkip` only moves the scanner). -/
theorem typeddec_unknown_members_ignored (val : GoType → DV → Bool → DState → R DV) (t : GoType) (flds : List Fld)
    (cur : DV) (key : Bytes) (d : DState)
    (hx : ∀ f ∈ flds, f.name ≠ key) (hf : ∀ f ∈ flds, fieldEqualFold f.name key = false) :
    memberStep val t flds cur key d = R.map (fun _ => cur) (valueSkip d) := by
  have h1 : flds.find? (fun f => f.name = key) = none := by
    rw [List.find?_eq_none]; intro f hfm; simpa using hx f hfm
  have h2 : flds.find? (fun f => fieldEqualFold f.name key) = none := by
    rw [List.find?_eq_none]; intro f hfm; simp [hf f hfm]
  simp only [memberStep, findField, h1, h2]

/-- example: unknown members (with nested containers), `json:"-"` and unexported fields are ignored -/
example : obs (unmarshalTyped dT (ascii "{\"zz\":[{\"a\":1},2],\"Z\":5,\"x\":3,\"A\":4}")) =
    some (ascii "S10:S2:i4;s0:s0:i0;zzzi0;zl2:u0;u0;z", none) := by decide +kernel

/-- A field whose name is EXACTLY the member name is chosen, even when a field earlier in the list
matches the name case-insensitively. -/
theorem typeddec_exact_before_fold (flds : List Fld) (key : Bytes) (f : Fld) (hf : f ∈ flds) (hn : f.name = key) :
    ∃ g, findField flds key = some g ∧ g.name = key := by
  cases h : flds.find? (fun f => f.name = key) with
  | none =>
    rw [List.find?_eq_none] at h
    exact absurd (by simpa using hn) (h f hf)
  | some g =>
    refine ⟨g, by simp only [findField, h], ?_⟩
    simpa using List.find?_some h

/-- ... and on the fields of a struct type that field is unique (`typeFields` has one field per name) -/
theorem typeddec_exact_before_fold_unique (t : GoType) (key : Bytes) (f : Fld) (hf : f ∈ typeFields t) (hn : f.name = key) :
    findField (typeFields t) key = some f := by
  obtain ⟨g, hg, hgn⟩ := typeddec_exact_before_fold (typeFields t) key f hf hn
  have hgm : g ∈ typeFields t := by
    simp only [findField] at hg
    cases h : (typeFields t).find? (fun f => f.name = key) with
    | none => exact absurd (by simpa using hn) ((List.find?_eq_none.1 h) f hf)
    | some g' =>
      rw [h] at hg
      simp only [Option.some.injEq] at hg
      subst hg
      exact List.mem_of_find?_eq_some h
  rw [hg, Typed.eq_of_nodup_names (typeFields t) (typeFields_nodup t) g hgm f hf (by rw [hgn, hn])]

/-- `struct { X int `json:"a"`; Y int `json:"A"` }`: the member `A` goes to `Y`, though `X` comes first and
matches case-insensitively; the member `a` goes to `X` -/
def dAB : GoType :=
  .struct [] [(⟨ascii "X", ascii "a", false, true⟩, .int .int), (⟨ascii "Y", ascii "A", false, true⟩, .int .int)]

example : obs (unmarshalTyped dAB (ascii "{\"A\":1}")) = some (ascii "S2:i0;i1;", none) := by decide +kernel
example : obs (unmarshalTyped dAB (ascii "{\"a\":1}")) = some (ascii "S2:i1;i0;", none) := by decide +kernel
/-- the fold functions are per FIELD NAME (`foldFunc`): `K9` (has a `K`) accepts the Kelvin sign, `Ab` does not
accept a non-ASCII look-alike -/
example : fieldEqualFold (ascii "K9") [0xE2, 0x84, 0xAA, 57] = true ∧ foldFunc (ascii "K9") = .right ∧
    foldFunc (ascii "Ab") = .simple ∧ foldFunc (ascii "a_b1") = .ascii ∧ foldFunc [115, 0xC3, 0xA9] = .unicode ∧
    fieldEqualFold [115, 0xC3, 0xA9] [0xC5, 0xBF, 0xC3, 0x89] = true ∧ equalFoldRight [115, 0xC3, 0xA9] [83, 0xC3, 0xA9] = false := by
  decide +kernel

/-- Later duplicates win on scalar fields: what a well-formed literal stores does not depend on what the
field held before (so the value after the last duplicate is the value of the last duplicate alone). -/
theorem typeddec_last_duplicate_wins_int (k : IntKind) (item : Bytes) (c : UInt8) (rest : Bytes) (n : Int)
    (hi : item = c :: rest) (hc : c = 45 ∨ isDigit c = true) (hp : parseInt64 item = some n) (hr : k.inRange n = true)
    (cur : DV) (cs : Bool) (d : DState) :
    TDec.literalStore item (.int k) cur cs false d = .ok d (.int n) := by
  subst hi
  have h1 : c ≠ 110 := by rcases hc with h | h <;> intro hh <;> subst hh <;> simp_all [isDigit]
  have h2 : ¬(c = 116 ∨ c = 102) := by
    rcases hc with h | h <;> intro hh <;> rcases hh with hh | hh <;> subst hh <;> simp_all [isDigit]
  have h3 : c ≠ 34 := by rcases hc with h | h <;> intro hh <;> subst hh <;> simp_all [isDigit]
  have h4 : ¬(c ≠ 45 ∧ (!isDigit c) = true) := by rcases hc with h | h <;> simp [h]
  have h5 : ¬c = 45 → isDigit c = true := by
    intro hn; rcases hc with h | h
    · exact absurd h hn
    · exact h
  simp [TDec.literalStore, GoType.isPtr, h1, h2, h3, storeNumber, hp, hr, derefT, derefV, rewrap, R.map]
  exact h5

theorem typeddec_last_duplicate_wins_string (item s : Bytes) (rest : Bytes) (hi : item = 34 :: rest)
    (hu : unquoteBytes item = some s) (cur : DV) (cs : Bool) (d : DState) :
    TDec.literalStore item .string cur cs false d = .ok d (.str s) := by
  subst hi
  simp [TDec.literalStore, GoType.isPtr, storeString, hu, derefT, derefV, rewrap, R.map]

/-- ... in a map, the entry of a repeated key is replaced -/
theorem typeddec_last_duplicate_wins_map (k : MapKey) (v1 v2 : DV) :
    ∀ ms : List (MapKey × DV), setKey k v2 (setKey k v1 ms) = setKey k v2 ms
  | [] => by simp [setKey]
  | (k', v') :: ms => by
    by_cases hk : k' = k
    · simp [setKey, hk]
    · simp [setKey, hk, typeddec_last_duplicate_wins_map k v1 v2 ms]

/-- example: `A` twice: the later one; `b` then `B` (case-insensitive match) into the same field: the later one;
an embedded struct's name is no member; map members MERGE (`"1"` replaced, `"2"` added) -/
example : obs (unmarshalTyped dT (ascii "{\"A\":7,\"A\":8,\"Inner\":{\"A\":1},\"b\":\"x\",\"B\":\"y\",\"M\":{\"1\":\"a\"},\"M\":{\"2\":\"b\",\"1\":\"c\"}}")) =
    some (ascii "S10:S2:i8;s1:ys0:i0;zm2:i1;s1:ci2;s1:bzi0;zl2:u0;u0;z", none) := by decide +kernel
/-- example: a fixed array is zeroed behind the last element read; a slice is REFILLED from index 0 and keeps its
backing array: `null` elements leave what the array held (the 2 and 3 of the first occurrence reappear) -/
example : obs (unmarshalTyped dT (ascii "{\"k\":[1,2],\"k\":[9],\"L\":[1,2,3],\"L\":[7],\"L\":[null,null,null]}")) =
    some (ascii "S10:S2:i0;s0:s0:i0;zzzi0;zl2:u9;u0;l3:i7;i2;i3;", none) := by decide +kernel

/-! ### ill-formed texts, `null` -/

/-- an ill-formed text is rejected before anything is decoded: the target keeps its zero value, the error is
a `SyntaxError` -/
theorem typeddec_syntax_error (t : GoType) (text : Bytes) (h : parseCst text = none) :
    unmarshalTyped t text = .ok (toGoVal t (zeroDV t), some .syntax) := by
  have hv : Scanner.valid text = false := by
    cases hh : Scanner.valid text with
    | false => rfl
    | true => rw [Scanner.valid_iff_parseCst, h] at hh; cases hh
  simp [unmarshalTyped, hv]

/-- `null` sets interfaces, pointers, maps and slices to nil and leaves every other target untouched, without error -/
theorem typeddec_null (t : GoType) (cur : DV) (d : DState) (hp : t.isPtr = false) :
    TDec.literalStore nullLiteral t cur true false d = .ok d (if t.nilable then .nil else cur) := by
  simp [TDec.literalStore, nullLiteral, ascii, hp]
  split <;> rfl

/-! ### no panic, fuel suffices (beyond the library's own target shapes: `C17typeddecNP.lean`) -/

/-- the field a `typeFields` index path ends at -/
def lastField : GoType → List Nat → Option (FieldInfo × GoType)
  | _, [] => none
  | t, [i] => (structFieldsOf t.deref)[i]?
  | t, i :: j :: is =>
    match (structFieldsOf t.deref)[i]? with
    | some (_, ft) => lastField ft (j :: is)
    | none => none

/-- no member of the struct type `st` is an embedded field of unexported POINTER type (a tagged `*unexported`):
`indirect` cannot set such a pointer and `reflect.Value.Set` panics -/
def structSettable (st : GoType) : Bool :=
  (typeFields st).all fun f =>
    match lastField st f.index with
    | some (fi, ft) => !(ft.isPtr && !fi.exported)
    | none => true

mutual
/-- every struct type inside `t` is `structSettable` -/
def decodable : GoType → Bool
  | .slice e => decodable e
  | .array _ e => decodable e
  | .map _ e => decodable e
  | .ptr e => decodable e
  | .struct n fs => structSettable (.struct n fs) && decodableF fs
  | _ => true
def decodableF : List (FieldInfo × GoType) → Bool
  | [] => true
  | (_, t) :: r => decodable t && decodableF r
end

/-- On every well-formed text and every decodable type the decoder returns (no phase panic, no reflect
panic, the fuel of the model suffices).  Proved here for the library's own target shapes
(`typeddec_no_panic_untyped`) and on ALL types in `JP/Props/C17typeddecNP.lean`
(`typeddec_no_panic_no_fuel`, `typeddec_no_panic_no_fuel_goal`). -/
def typeddec_no_panic_no_fuelGoal : Prop :=
  ∀ (t : GoType) (text : Bytes) (c : Cst), t.wf = true → decodable t = true → parseCst text = some c →
    ∃ v e, unmarshalTyped t text = .ok (v, e)

/-- a step towards `typeddec_no_panic_no_fuelGoal`: the walk along `f.index` of a field of `typeFields` never
leaves the struct — on a well-typed struct value `atPath` panics only if the decoding of the member's value
(`leaf`) or the skipping of it (`blocked`) does -/
theorem typeddec_walk_stays_inside (n : Bytes) (fs : List (FieldInfo × GoType)) (f : Fld) (hf : f ∈ typeFields (.struct n fs))
    (leaf : GoType → DV → Bool → DState → R DV) (blocked : DState → R Unit)
    (hleaf : ∀ t cur cs d, DV.typed t cur = true → leaf t cur cs d ≠ .panic) (hblocked : ∀ d, blocked d ≠ .panic)
    (cur : DV) (h : DV.typed (.struct n fs) cur = true) (d : DState) :
    atPath leaf blocked f.index (.struct n fs) cur true d ≠ .panic :=
  atPath_ne_panic leaf blocked hleaf hblocked f.index _ cur true d h (typeFields_paths_valid n fs f hf)

/-- `struct { *tyInner `json:"in"`; Z int }` with `tyInner` unexported -/
def dOuter9 : GoType := .struct (ascii "tyOuter9") [
  (⟨ascii "tyInner", ascii "in", true, false⟩, .ptr (.struct (ascii "tyInner") [(⟨ascii "A", [], false, true⟩, .int .int)])),
  (⟨ascii "Z", [], false, true⟩, .int .int)]

def isPanic : Exec (GoVal × Option DErr) → Bool
  | .panic => true
  | _ => false

/-- `decodable` is needed: the real decoder (and `encoding/json`) panic in `reflect.Value.Set` on a TAGGED embedded
pointer to an unexported struct as soon as its member is present — whatever its value; without the member nothing
happens -/
theorem typeddec_panic_on_unsettable_pointer :
    dOuter9.wf = true ∧ decodable dOuter9 = false ∧
    (parseCst (ascii "{\"in\":null}")).isSome = true ∧ isPanic (unmarshalTyped dOuter9 (ascii "{\"in\":null}")) = true ∧
    isPanic (unmarshalTyped dOuter9 (ascii "{\"in\":{\"A\":1},\"Z\":2}")) = true ∧
    obs (unmarshalTyped dOuter9 (ascii "{\"Z\":2}")) = some (ascii "S2:zi2;", none) := by decide +kernel

/-! ### round trip -/

mutual
/-- a pointer to a nilable type, or an `interface{}`, somewhere in the type -/
def rtType : GoType → Bool
  | .iface => false
  | .slice e => rtType e
  | .array _ e => rtType e
  | .map _ e => rtType e
  | .ptr e => !e.nilable && rtType e
  | .struct _ fs => rtFields fs
  | _ => true
def rtFields : List (FieldInfo × GoType) → Bool
  | [] => true
  | (_, t) :: r => rtType t && rtFields r
end

/-- OPEN.  Decoding the encoder's own output and encoding again gives the same bytes, for types without
`interface{}` and without pointers to nilable types, when the output contains no replacement character
(strings and map keys of the value are valid UTF-8) and decoding reports no error (no embedded pointer to an
unexported struct).  Tested on every class-`a` case of the stream `typeddec` (verdict clause
`typeddec-roundtrip`); not proved. -/
def typeddec_roundtripGoal : Prop :=
  ∀ (esc : Bool) (t : GoType) (v : GoVal) (s : Bytes), t.wf = true → v.hasType t = true → rtType t = true →
    marshalTyped esc t v = some s → containsSub (ascii "\\ufffd") s = false →
    ∀ v', unmarshalTyped t s = .ok (v', none) → marshalTyped esc t v' = some s

/-- the restriction on the type is needed, (1): a struct held by an interface comes back as a map, whose
members are written in key order: `{"B":1,"A":2}` becomes `{"A":2,"B":1}` -/
theorem typeddec_roundtrip_iface_counterexample :
    marshalTyped true .iface (.iface (.struct [] [(⟨[66], [], false, true⟩, .int .int), (⟨[65], [], false, true⟩, .int .int)])
      (.struct [.int 1, .int 2])) = some [123,34,66,34,58,49,44,34,65,34,58,50,125] ∧
    unmarshalTyped .iface [123,34,66,34,58,49,44,34,65,34,58,50,125] =
      .ok (.iface (.map .str .iface) (.map [(.str [66], .iface .number (.str [49])), (.str [65], .iface .number (.str [50]))]), none) ∧
    marshalTyped true .iface (.iface (.map .str .iface) (.map [(.str [66], .iface .number (.str [49])), (.str [65], .iface .number (.str [50]))]))
      = some [123,34,65,34,58,50,44,34,66,34,58,49,125] := by
  refine ⟨by decide +kernel, by rfl, by decide +kernel⟩

/-- (2): a non-nil pointer to a nil pointer is written `null`, which decodes to the nil OUTER pointer, which
`omitempty` drops: `struct{ P **bool `json:",omitempty"` }{P: &nil}` gives `{"P":null}`, then `{}`
(the decoded value shown in its wire rendering `S1:z`: a struct whose one field is nil) -/
theorem typeddec_roundtrip_ptr_counterexample :
    marshalTyped true (.struct [] [(⟨[80], ascii ",omitempty", false, true⟩, .ptr (.ptr .bool))]) (.struct [.ptr .nil])
      = some (ascii "{\"P\":null}") ∧
    obs (unmarshalTyped (.struct [] [(⟨[80], ascii ",omitempty", false, true⟩, .ptr (.ptr .bool))]) (ascii "{\"P\":null}"))
      = some (renderVal (.struct [.nil]), none) ∧
    marshalTyped true (.struct [] [(⟨[80], ascii ",omitempty", false, true⟩, .ptr (.ptr .bool))]) (.struct [.nil]) = some (ascii "{}") := by
  refine ⟨by decide +kernel, by decide +kernel, by decide +kernel⟩

/-- `typeddec_roundtripGoal` without its restriction on the type is false -/
theorem typeddec_roundtrip_unrestricted_false :
    ¬ (∀ (esc : Bool) (t : GoType) (v : GoVal) (s : Bytes), t.wf = true → v.hasType t = true →
        marshalTyped esc t v = some s → ∀ v', unmarshalTyped t s = .ok (v', none) → marshalTyped esc t v' = some s) := by
  intro h
  obtain ⟨h1, h2, h3⟩ := typeddec_roundtrip_iface_counterexample
  have := h true .iface _ _ (by decide +kernel) (by decide +kernel) h1 _ h2
  rw [h3] at this
  exact absurd this (by decide)

end JP.C17
