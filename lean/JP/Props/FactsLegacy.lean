import JP.Generated.Facts
import JP.Impl.Merge

/-!
# Regenerated facts = what the hand-written model assumes (the legacy root package)

`JP/Generated/Facts.lean` is rewritten from the Go sources on every run.  Each theorem
below equates one extracted fact with the corresponding assumption of the model; all are
closed computations checked by the kernel (`rfl` / `decide`).  The facts are split by
source file so that an edit to one file only touches the obligations of the properties
anchored there.
-/

namespace JP
namespace Facts

/-- package defaults of the legacy package -/
theorem legacyDefaults_eq : Generated.legacyNegDefault = true ∧ Generated.legacyLimitDefault = 0 := by decide

theorem legacyErrorSites_eq : Generated.legacyErrorSites =
    [("add", ["w:ErrMissing", "w:ErrMissing", "w:err"]),
     ("copy", ["w:err", "w:ErrMissing", "w:err", "w:ErrMissing", "w:ErrMissing", "w:err", "r:NewAccumulatedCopySizeError", "w:err"]),
     ("move", ["w:err", "w:ErrMissing", "w:err", "w:err", "w:err", "w:ErrMissing", "w:err"]),
     ("remove", ["w:ErrMissing", "w:ErrMissing", "w:err"]),
     ("replace", ["w:err", "w:ErrMissing", "w:err", "w:err", "w:ErrMissing", "w:ErrMissing", "w:err"]),
     ("test", ["w:err", "w:ErrTestFailed", "w:ErrMissing", "w:err", "w:ErrTestFailed", "w:ErrTestFailed", "w:ErrTestFailed"])] := rfl

theorem legacyUsesStdlib_eq : Generated.legacyUsesStdlib = true := rfl

/-- branch conditions of the legacy root package (JP/Legacy was transcribed from these) -/
theorem legacyConditions_eq : Generated.legacyConditions =
    [
     ("DecodePatch", ["if err != nil"]),
     ("Equal", []),
     ("Patch.ApplyIndent", ["if len(doc) == 0", "if isArray(bytes.TrimLeft(doc, \" \\t\\r\\n\"))", "else", "if err != nil", "for _, op := range p", "switch op.Kind()", "case \"add\"", "case \"remove\"", "case \"replace\"", "case \"move\"", "case \"test\"", "case \"copy\"", "default", "if err != nil", "if indent != \"\""]),
     ("Patch.add", ["if err != nil", "if con == nil", "if err != nil"]),
     ("Patch.copy", ["if err != nil", "if con == nil", "if err != nil", "if err != nil", "if con == nil", "if err != nil", "if AccumulatedCopySizeLimit > 0 && *accumulatedCopySize > AccumulatedCopySizeLimit", "if err != nil"]),
     ("Patch.move", ["if err != nil", "if con == nil", "if err != nil", "if err != nil", "if err != nil", "if con == nil", "if err != nil"]),
     ("Patch.remove", ["if err != nil", "if con == nil", "if err != nil"]),
     ("Patch.replace", ["if err != nil", "if path == \"\"", "if val == nil", "if val.which == eRaw", "if !val.tryDoc()", "if !val.tryAry()", "switch val.which", "case eAry", "case eDoc", "case eRaw", "if con == nil", "if ok != nil", "if err != nil"]),
     ("Patch.test", ["if err != nil", "if path == \"\"", "switch sv := (*doc).(type)", "case *partialDoc", "case *partialArray", "if self.equal(op.value())", "if con == nil", "if err != nil", "if val == nil", "if op.value() == nil || op.value().raw == nil", "if op.value() == nil", "if val.equal(op.value())"]),
     ("deepCopy", ["if src == nil", "if err != nil"]),
     ("findObject", ["if len(split) < 2", "for _, part := range parts", "if next == nil || ok != nil || next.raw == nil", "if isArray(*next.raw)", "if err != nil", "else", "if err != nil"]),
     ("isArray", ["for _, c := range buf", "switch c", "case ' '", "case '\\n'", "case '\\t'", "case '['", "default"]),
     ("lazyNode.equal", ["if n.isNull() || o.isNull()", "if n.which == eRaw", "if !n.tryDoc() && !n.tryAry()", "if o.which != eRaw", "if n.which == eDoc", "if o.which == eRaw", "if !o.tryDoc()", "if o.which != eDoc", "if len(n.doc) != len(o.doc)", "for k, v := range n.doc", "if !ok", "if !v.equal(ov)", "if o.which != eAry && !o.tryAry()", "if len(n.ary) != len(o.ary)", "for idx, val := range n.ary", "if !val.equal(o.ary[idx])"]),
     ("lazyNode.intoAry", ["if n.which == eAry", "if n.raw == nil", "if err != nil"]),
     ("lazyNode.intoDoc", ["if n.which == eDoc", "if n.raw == nil", "if err != nil"]),
     ("lazyNode.isNull", ["if n == nil", "if n.which != eRaw", "if n.raw == nil"]),
     ("lazyNode.tryAry", ["if n.raw == nil", "if err != nil"]),
     ("lazyNode.tryDoc", ["if n.raw == nil", "if err != nil"]),
     ("merge.CreateMergePatch", ["if originalResemblesArray && modifiedResemblesArray", "if !originalResemblesArray && !modifiedResemblesArray"]),
     ("merge.createArrayMergePatch", ["if err != nil", "if err != nil", "if len(modifiedDocs) != total", "for i := 0; i < len(originalDocs); i++", "if err != nil"]),
     ("merge.createObjectMergePatch", ["if err != nil", "if err != nil", "if err != nil"]),
     ("merge.doMergePatch", ["if _, ok := docErr.(*json.SyntaxError); ok", "if _, ok := patchErr.(*json.SyntaxError); ok", "if docErr == nil && *doc == nil", "if patchErr == nil && *patch == nil", "if docErr != nil || patchErr != nil", "if patchErr == nil", "if mergeMerge", "else", "else", "if patchErr != nil", "if patchErr != nil", "else"]),
     ("merge.getDiff", ["for key, bv := range b", "if !ok", "if reflect.TypeOf(av) != reflect.TypeOf(bv)", "switch at := av.(type)", "case map[string]interface{}", "if err != nil", "if len(dst) > 0", "case string, float64, bool", "if !matchesValue(av, bv)", "case []interface{}", "if !matchesArray(at, bt)", "case nil", "switch bv.(type)", "case nil", "default", "default", "for key := range a", "if !found"]),
     ("merge.matchesArray", ["if len(a) != len(b)", "if (a == nil && b != nil) || (a != nil && b == nil)", "for i := range a", "if !matchesValue(a[i], b[i])"]),
     ("merge.matchesValue", ["if reflect.TypeOf(av) != reflect.TypeOf(bv)", "switch at := av.(type)", "case string", "if bt == at", "case float64", "if bt == at", "case bool", "if bt == at", "case nil", "case map[string]interface{}", "if len(bt) != len(at)", "for key := range bt", "if aOK != bOK", "if !matchesValue(av, bv)", "case []interface{}"]),
     ("merge.merge", ["if err != nil", "if err != nil"]),
     ("merge.mergeDocs", ["for k, v := range *patch", "if v == nil", "if mergeMerge", "else", "else", "if !ok || cur == nil", "if !mergeMerge", "else"]),
     ("merge.pruneDocNulls", ["for k, v := range *doc", "if v == nil", "else"]),
     ("merge.pruneNulls", ["if err == nil"]),
     ("merge.resemblesJSONArray", []),
     ("partialArray.add", ["if key == \"-\"", "if err != nil", "if idx >= len(ary)", "if idx < 0", "if !SupportNegativeIndices", "if idx < -len(ary)"]),
     ("partialArray.get", ["if err != nil", "if idx < 0", "if !SupportNegativeIndices", "if idx < -len(*d)", "if idx >= len(*d)"]),
     ("partialArray.remove", ["if err != nil", "if idx >= len(cur)", "if idx < 0", "if !SupportNegativeIndices", "if idx < -len(cur)"]),
     ("partialArray.set", ["if err != nil", "if idx < 0", "if !SupportNegativeIndices", "if idx < -len(*d)"]),
     ("partialDoc.add", []),
     ("partialDoc.get", []),
     ("partialDoc.remove", ["if !ok"]),
     ("partialDoc.set", ["if *d == nil"])] := rfl

end Facts
end JP
