import JP.Lemmas.CopyTotal

/-!
# C12: the accumulated copy-size limit

`copySizeOf o r op` (`JP/Check.lean`) is the size `deepCopy` reports for the copy `op` in
state `r`; `copySizes` lists these sizes along a run of a whole patch.
`Impl.CopyResolves o r op` (`JP/Lemmas/CopySize.lean`) says that source and destination of
the copy resolve: the first step of `opCopy` (`copyFirst`: the live root for `from = ""` unless it
is null, otherwise the walk `copySource` for `from`) and the walk to the destination's container
end in `done`, and the source can be read again.
-/

namespace JP.C12
open JP.Impl

/-- a limit of 0 (or negative) disables the check -/
theorem zero_disables (o : Impl.Opts) (h : o.limit ≤ 0) (r : Impl.Root) (acc : Int)
    (ops : List Impl.Op) : Impl.applyOps o r acc ops ≠ .err .copySize := by
  intro he
  obtain ⟨_, _, _, _, _, _, _, hb⟩ := (applyOps_copySize_iff o ops r acc).1 he
  have := (applyOp_copySize hb).2
  omega

/-- other operations never count towards the total -/
theorem others_dont_count (o : Impl.Opts) (r : Impl.Root) (acc : Int) (op : Impl.Op)
    (r' : Impl.Root) (acc' : Int) :
    op.kind ≠ ascii "copy" → Impl.applyOp o r acc op = .ok (r', acc') → acc' = acc :=
  fun hk h => applyOp_not_copy_acc hk h

/-- a copy that succeeds adds exactly the size of the duplicated value as the library spells it -/
theorem copy_adds_size (o : Impl.Opts) (r : Impl.Root) (acc : Int) (op : Impl.Op)
    (r' : Impl.Root) (acc' : Int) :
    op.kind = ascii "copy" → Impl.applyOp o r acc op = .ok (r', acc') →
      acc' = acc + copySizeOf o r op := by
  intro hk h
  rw [applyOp_copy hk] at h
  exact opCopy_ok_acc h

/-- exactness: a copy fails with the copy-size error exactly when the limit is positive,
its source and destination resolve, and the running total with this copy's size exceeds
the limit -/
theorem copy_limit_exact (o : Impl.Opts) (r : Impl.Root) (acc : Int) (op : Impl.Op) :
    op.kind = ascii "copy" →
      (Impl.applyOp o r acc op = .err .copySize ↔
        (o.limit > 0 ∧ Impl.CopyResolves o r op ∧ acc + copySizeOf o r op > o.limit)) := by
  intro hk
  rw [applyOp_copy hk]
  exact opCopy_copySize_iff o r acc op

/-- never while within the limit: a copy whose total stays within the limit does not fail
with the copy-size error -/
theorem copy_within_limit (o : Impl.Opts) (r : Impl.Root) (acc : Int) (op : Impl.Op)
    (h : acc + copySizeOf o r op ≤ o.limit) : Impl.applyOp o r acc op ≠ .err .copySize := by
  intro he
  have hk := (applyOp_copySize he).1
  have := ((copy_limit_exact o r acc op hk).1 he).2.2
  omega

/-- a copy that succeeds resolves its source and destination, and (limit positive) leaves
the running total within the limit -/
theorem copy_ok_within (o : Impl.Opts) (r : Impl.Root) (acc : Int) (op : Impl.Op)
    (r' : Impl.Root) (acc' : Int) (hk : op.kind = ascii "copy")
    (h : Impl.applyOp o r acc op = .ok (r', acc')) :
    Impl.CopyResolves o r op ∧ (o.limit > 0 → acc' ≤ o.limit) := by
  rw [applyOp_copy hk] at h
  exact ⟨opCopy_ok_resolves h, fun hl => opCopy_ok_within hl h⟩

/-! ### the running total over a whole patch -/

/-- after a prefix that succeeds the running total is the start value plus the sizes
`copySizes` lists for the prefix (one per operation, 0 for operations other than copy) -/
theorem running_total (o : Impl.Opts) (r : Impl.Root) (acc : Int) (ops : List Impl.Op)
    (r' : Impl.Root) (acc' : Int) (h : Impl.applyOpsAcc o r acc ops = .ok (r', acc')) :
    acc' = acc + sumSizes (copySizes o r acc ops) ∧ (copySizes o r acc ops).length = ops.length :=
  applyOpsAcc_total o ops h

/-- …and it never exceeds a positive limit while operations succeed -/
theorem running_total_within (o : Impl.Opts) (hl : o.limit > 0) (r : Impl.Root) (acc : Int)
    (ops : List Impl.Op) (r' : Impl.Root) (acc' : Int) (ha : acc ≤ o.limit)
    (h : Impl.applyOpsAcc o r acc ops = .ok (r', acc')) :
    acc + sumSizes (copySizes o r acc ops) ≤ o.limit := by
  have := applyOpsAcc_ok_within hl ops ha h
  rw [(applyOpsAcc_total o ops h).1] at this
  exact this

/-- exactness over a whole patch: the run ends with the copy-size error iff the patch
splits as `ops₁ ++ op :: ops₂` where `ops₁` succeeds, `op` is a copy whose source and
destination resolve in the state `ops₁` left, the limit is positive, and the sum of the
sizes of the first `ops₁.length + 1` operations (on top of the start value) exceeds it.
By `running_total_within` the total did not exceed the limit at any earlier operation. -/
theorem patch_limit_exact (o : Impl.Opts) (r : Impl.Root) (acc : Int) (ops : List Impl.Op) :
    Impl.applyOps o r acc ops = .err .copySize ↔
      ∃ ops₁ op ops₂ r₁ acc₁, ops = ops₁ ++ op :: ops₂ ∧
        Impl.applyOpsAcc o r acc ops₁ = .ok (r₁, acc₁) ∧
        op.kind = ascii "copy" ∧ o.limit > 0 ∧ Impl.CopyResolves o r₁ op ∧
        acc + sumSizes ((copySizes o r acc ops).take (ops₁.length + 1)) > o.limit := by
  rw [applyOps_copySize_iff]
  have key : ∀ ops₁ op ops₂ r₁ acc₁, ops = ops₁ ++ op :: ops₂ →
      applyOpsAcc o r acc ops₁ = .ok (r₁, acc₁) → op.kind = ascii "copy" →
      acc + sumSizes ((copySizes o r acc ops).take (ops₁.length + 1))
        = acc₁ + (copySizeOf o r₁ op : Int) := by
    intro ops₁ op ops₂ r₁ acc₁ he hp hk
    obtain ⟨ht, hlen⟩ := applyOpsAcc_total o ops₁ hp
    rw [he, copySizes_append o ops₁ (op :: ops₂) hp, copySizes_cons]
    rw [List.take_append, hlen]
    simp only [Nat.add_sub_cancel_left, List.take_succ_cons, List.take_zero]
    rw [List.take_of_length_le (by omega), sumSizes_append, sumSizes_cons, sumSizes_nil, ht]
    simp only [opSize, hk, if_true]
    omega
  constructor
  · rintro ⟨ops₁, op, ops₂, r₁, acc₁, he, hp, hb⟩
    have hk := (applyOp_copySize hb).1
    obtain ⟨hl, hres, hgt⟩ := (copy_limit_exact o r₁ acc₁ op hk).1 hb
    exact ⟨ops₁, op, ops₂, r₁, acc₁, he, hp, hk, hl, hres, by rw [key _ _ _ _ _ he hp hk]; exact hgt⟩
  · rintro ⟨ops₁, op, ops₂, r₁, acc₁, he, hp, hk, hl, hres, hgt⟩
    rw [key _ _ _ _ _ he hp hk] at hgt
    exact ⟨ops₁, op, ops₂, r₁, acc₁, he, hp, (copy_limit_exact o r₁ acc₁ op hk).2 ⟨hl, hres, hgt⟩⟩

/-! ### the hypotheses are satisfiable -/

section Examples

def exRoot : Root :=
  { con := .doc [ascii "a"] [(ascii "a", .raw (.arr [.lit (ascii "1"), .lit (ascii "22")]))], self := .nil }
def exCopy : Op := { kind := ascii "copy", path := ascii "/c", frm := some (ascii "/a") }
def exCopy2 : Op := { kind := ascii "copy", path := ascii "/d", frm := some (ascii "/c") }
def exAdd : Op := { kind := ascii "add", path := ascii "/b", value := some (.lit (ascii "2")) }

/-- the value `[1,22]` has size 6 -/
example : copySizeOf {} exRoot exCopy = 6 := rfl

/-- `zero_disables`: with limit 0 the copies go through -/
example : ∃ r', applyOps { limit := 0 } exRoot 0 [exCopy, exCopy2] = .ok r' := ⟨_, rfl⟩

/-- `others_dont_count` -/
example : ∃ r', applyOp { limit := 5 } exRoot 3 exAdd = .ok (r', 3) := ⟨_, rfl⟩

/-- `copy_adds_size` -/
example : ∃ r', applyOp { limit := 10 } exRoot 3 exCopy = .ok (r', 9) := ⟨_, rfl⟩

/-- `copy_limit_exact`: 6 ≤ 6 passes, 1 + 6 > 6 fails -/
example : ∃ r', applyOp { limit := 6 } exRoot 0 exCopy = .ok (r', 6) := ⟨_, rfl⟩
example : applyOp { limit := 6 } exRoot 1 exCopy = .err .copySize := rfl
example : CopyResolves { limit := 6 } exRoot exCopy :=
  ⟨ascii "/a", exRoot, exRoot, .raw (.arr [.lit (ascii "1"), .lit (ascii "22")]), rfl, rfl, rfl, rfl,
    by intro h; exact absurd h.1 (by decide)⟩

/-- `patch_limit_exact`: the second copy takes the total from 6 to 12 > 10 -/
example : applyOps { limit := 10 } exRoot 0 [exCopy, exAdd, exCopy2] = .err .copySize := rfl
example : copySizes { limit := 10 } exRoot 0 [exCopy, exAdd, exCopy2] = [6, 0, 6] := rfl

end Examples

end JP.C12

-- #print axioms JP.C12.zero_disables
-- #print axioms JP.C12.others_dont_count
-- #print axioms JP.C12.copy_adds_size
-- #print axioms JP.C12.copy_limit_exact
-- #print axioms JP.C12.copy_within_limit
-- #print axioms JP.C12.copy_ok_within
-- #print axioms JP.C12.running_total
-- #print axioms JP.C12.running_total_within
-- #print axioms JP.C12.patch_limit_exact
