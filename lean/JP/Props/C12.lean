import JP.Driver
import JP.Impl.Den

/-! # Property C12 — theorems (see DESIGN.md §6) -/

namespace JP
namespace C12

end C12
end JP
