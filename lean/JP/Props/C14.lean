import JP.Driver
import JP.Impl.Den

/-! # Property C14 — theorems (see DESIGN.md §6) -/

namespace JP
namespace C14

end C14
end JP
