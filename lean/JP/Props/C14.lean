import JP.Lemmas.EnsureApply
import JP.Lemmas.EnsureFrame
import JP.Lemmas.EnsurePointer

/-!
# C14 — EnsurePathExistsOnAdd

"With EnsurePathExistsOnAdd set, an add whose parent containers are missing creates them — an
array when the next reference token is an array index or `-`, an object otherwise, padding arrays
with null up to the addressed index — so that afterwards the added value is found at the given
path, with `~0`/`~1` in tokens decoded as everywhere else.  Every location that existed before and
is not on that path keeps its value, created containers hold nothing but the path and the padding,
and an add that succeeds without the option gives the same result with it."

Two layers:

* **specification** (`Spec.ensureAdd`, `Spec.freshFor`; `Spec.applyOp` uses them for `add` when
  `o.ensure`): `found_at_path`, `agrees_with_plain_add`, `only_path_and_padding` (+ `_arr`),
  `frame` (the law of `C05.frame_object_paths` for an add with the option) and
  `frame_through_arrays` (locations below arrays as well), `tokens_decoded`;
* **refinement**: the engine model (`Impl.ensure`, `Impl.ensurePath`, `Impl.opAdd` with
  `o.ensure = true`) computes what the specification says wherever the specification is defined:
  `opAdd_ensure_refines` (+ `_toks`), and the engine refinement of C01 *without* the hypothesis
  `o.ensure = false`: `applyOp_refines_ensure`, `applyOps_refines_ensure`, `apply_refines_ensure`.

Where `Spec.ensureAdd` answers `unspec` (negative or non-canonical indices, `-` before the last
token, a name addressed to an existing array, a null / scalar on the existing prefix, indices
above 10000) nothing is claimed.  No corner was found inside the domain where the model deviates:
the places where `ensurePathExists` ignores the error of `doc.add` are never reached there
(`Ens.ensRef_doc_none`, `Ens.ensRef_ary_none`: the `add` succeeds).

The proofs are in `JP/Lemmas/Ensure*.lean`.
-/

namespace JP
namespace C14

open Impl

/-! ## Specification level -/

/-- pointer lookup in which a final `-` addresses the last element of an array (the element an
`add` at `-` has just appended); otherwise the ordinary lookup `Spec.resolve`
(`Ens.resolveAdded_eq_resolve`) -/
abbrev resolveAdded := @Ens.resolveAdded

/-- the structure created below a missing parent for the remaining tokens: per token one
container holding a single member, or nulls followed by a single element -/
abbrev chain := @Ens.chain

/-- the location `q` leaves the path `p` of the add: at an object by another member name, at an
array by another (canonical, non-negative) index — and where `p` ends in that array, where the add
inserts and shifts the later elements, by an index before the insertion point -/
abbrev offPath := @Ens.offPath

/-- the JSON pointer that spells the names `toks` (`~` as `~0`, `/` as `~1`) -/
abbrev pointerOf := @Ens.pointerOf

/-- **afterwards the value is found at the path** (with `-` read as the last index) -/
theorem found_at_path (o : Spec.Opts) (v c : Value) (toks : List Bytes) (c' : Value) :
    Spec.ensureAdd o v c toks = .ok c' → resolveAdded o c' toks = some v :=
  Ens.found_at_path o v toks c c'

/-- … which is the ordinary pointer lookup unless the pointer ends in `-` -/
theorem found_at_path_resolve (o : Spec.Opts) (v c : Value) (toks : List Bytes) (c' : Value)
    (hd : toks.getLast? ≠ some [45]) :
    Spec.ensureAdd o v c toks = .ok c' → Spec.resolve o.neg c' toks = some v := by
  intro h
  have hne : toks ≠ [] := by
    intro h0; subst h0; rw [Ens.ensureAdd_nil] at h; cases h
  rw [← Ens.resolveAdded_eq_resolve o toks c' hne hd]
  exact Ens.found_at_path o v toks c c' h

/-- **an add that succeeds without the option gives the same result with it** (or the option's
specification leaves the case open) -/
theorem agrees_with_plain_add (o : Spec.Opts) (v c : Value) (toks : List Bytes) (c' : Value) :
    toks ≠ [] → Spec.atParent o (Spec.addIn o v) c toks = .ok (c', ()) →
    Spec.ensureAdd o v c toks = .ok c' ∨ Spec.ensureAdd o v c toks = .unspec :=
  Ens.agrees_with_plain_add o v toks c c'

/-- the same for one `add` operation: if it succeeds without the option and is inside the
option's domain, it gives the same document with it -/
theorem agrees_with_plain_add_op (o : Spec.Opts) (size acc : Nat) (d v : Value) (path : Bytes)
    (d' : Value) (acc' : Nat)
    (h : Spec.applyOp { o with ensure := false } size acc d { kind := .add, path := path, value := some v } =
      .ok (d', acc')) :
    Spec.applyOp { o with ensure := true } size acc d { kind := .add, path := path, value := some v } =
        .ok (d', acc') ∨
      Spec.applyOp { o with ensure := true } size acc d { kind := .add, path := path, value := some v } =
        .unspec := by
  cases hp : Spec.parsePointer path with
  | none => simp only [Spec.applyOp, hp] at h; cases h
  | some toks =>
    cases toks with
    | nil =>
      left
      simp only [Spec.applyOp, hp] at h ⊢
      exact h
    | cons t ts =>
      rw [Ens.applyOp_add_ensure _ rfl size acc d v path (t :: ts) hp (by simp)]
      simp only [Spec.applyOp, hp, Bool.false_eq_true, if_false] at h
      obtain ⟨⟨d1, u⟩, h1, h2⟩ := Spec.Res.bind_eq_ok.1 h
      simp only [Spec.Res.ok.injEq, Prod.mk.injEq] at h2
      obtain ⟨rfl, rfl⟩ := h2
      have h1' : Spec.atParent { o with ensure := true } (Spec.addIn { o with ensure := true } v) d (t :: ts) =
          .ok (d1, ()) := by
        rw [← Ens.atParent_congr { o with ensure := false } { o with ensure := true } rfl,
          ← Ens.addIn_congr { o with ensure := false } { o with ensure := true } rfl]
        exact h1
      rcases Ens.agrees_with_plain_add _ v (t :: ts) d d1 (by simp) h1' with h3 | h3
      · left; rw [h3]; rfl
      · right; rw [h3]; rfl

/-- **created containers hold nothing but the path and the padding** — object parent: when the
member addressed by the first token is absent, it is appended and its value is `chain v rest` -/
theorem only_path_and_padding (o : Spec.Opts) (v : Value) (ms : Value.Members) (t t2 : Bytes)
    (ts : List Bytes) (c' : Value) :
    Spec.ensureAdd o v (.obj ms) (t :: t2 :: ts) = .ok c' → Value.lookup t ms = none →
    ∃ inner, chain v (t2 :: ts) = some inner ∧ c' = .obj (ms ++ [(t, inner)]) :=
  Ens.only_path_and_padding_obj o v ms t t2 ts c'

/-- … array parent: when the element addressed by the first token is absent, the array is padded
with nulls up to that index and the new element's value is `chain v rest` -/
theorem only_path_and_padding_arr (o : Spec.Opts) (v : Value) (xs : List Value) (t t2 : Bytes)
    (ts : List Bytes) (c' : Value) (i : Int) :
    Spec.ensureAdd o v (.arr xs) (t :: t2 :: ts) = .ok c' → Spec.classify t = .int i →
    xs[i.toNat]? = none →
    ∃ inner, chain v (t2 :: ts) = some inner ∧
      c' = .arr (xs ++ List.replicate (i.toNat - xs.length) .null ++ [inner]) :=
  Ens.only_path_and_padding_arr o v xs t t2 ts c' i

/-- **frame** (`C05.frame_object_paths` for an add with the option): a location `q` reached
through objects and incomparable with the pointer of the add keeps its value -/
theorem frame (o : Spec.Opts) (_he : o.ensure = true) (size acc : Nat) (d v : Value) (path : Bytes)
    (d' : Value) (acc' : Nat) (q : List Bytes) :
    Spec.applyOp o size acc d { kind := .add, path := path, value := some v } = .ok (d', acc') →
    (∀ p, Spec.parsePointer path = some p → Spec.Incomparable p q) → Spec.objPath o.neg d q →
    Spec.resolve o.neg d' q = Spec.resolve o.neg d q ∧ Spec.objPath o.neg d' q :=
  fun h hinc hobj =>
    C05.frame_object_paths o size acc d _ d' acc' q h
      (fun _ => ⟨hinc, fun hk => nomatch hk⟩) hobj

/-- **frame, through arrays as well**: every location that existed before (`resolve … = some w`)
and is not on the path (`offPath`) keeps its value -/
theorem frame_through_arrays (o : Spec.Opts) (v : Value) (p q : List Bytes) (d d' w : Value) :
    Spec.ensureAdd o v d p = .ok d' → offPath o.neg d p q → Spec.resolve o.neg d q = some w →
    Spec.resolve o.neg d' q = some w :=
  Ens.frame_ensure o v p q d d' w

/-- `Spec.applyOp` hands `ensureAdd` the tokens of `Spec.parsePointer`, which decodes each token
with `Spec.decodeTok` (`~1` ↦ `/`, `~0` ↦ `~`) as for every other operation -/
theorem add_uses_parsed_tokens (o : Spec.Opts) (he : o.ensure = true) (size acc : Nat) (d v : Value)
    (path : Bytes) (toks : List Bytes) (hp : Spec.parsePointer path = some toks) (hne : toks ≠ []) :
    Spec.applyOp o size acc d { kind := .add, path := path, value := some v } =
      (Spec.ensureAdd o v d toks).bind fun d' => .ok (d', acc) :=
  Ens.applyOp_add_ensure o he size acc d v path toks hp hne

/-- **tokens are decoded as everywhere else**: an add (with the option) at the pointer that spells
the names `toks` with `~1` for `/` and `~0` for `~` puts the value at the unescaped names -/
theorem tokens_decoded (o : Spec.Opts) (he : o.ensure = true) (size acc : Nat) (d v : Value)
    (toks : List Bytes) (hne : toks ≠ []) (d' : Value) (acc' : Nat) :
    Spec.applyOp o size acc d { kind := .add, path := pointerOf toks, value := some v } = .ok (d', acc') →
    resolveAdded o d' toks = some v :=
  Ens.tokens_decoded o he size acc d v toks hne d' acc'

/-! ## The engine refines the specification -/

/-- **`add` with the option refines `ensureAdd`** (non-empty pointer): success with the
specification's document, failure when the specification fails -/
theorem opAdd_ensure_refines_toks {o : Impl.Opts} {e : Bool} {r : Impl.Root} {op : Impl.Op} {c : Cst}
    {toks : List Bytes}
    (he : o.ensure = true) (hr : InvRoot e r) (hval : op.value = some c) (hc : Inv e (.raw c))
    (hp : Spec.parsePointer op.path = some toks) (hne : toks ≠ [])
    (hq : ∀ t ∈ toks, QK e t = true) :
    match Spec.ensureAdd (specOpts o) c.valueOf (den r.con) toks with
    | .ok c' => ∃ r', Impl.opAdd o r op = .ok r' ∧ den r'.con = c' ∧ InvRoot e r'
    | .fail _ => ∃ er, Impl.opAdd o r op = .err er
    | .unspec => True :=
  Ens.opAdd_ensure_toks he hr hval hc hp hne hq

/-- `opAdd_refines` of `JP/Lemmas/EngineOps.lean` for `o.ensure = true`, against `Spec.applyOp` -/
theorem opAdd_ensure_refines {o : Impl.Opts} {e : Bool} {r : Impl.Root} {op : Impl.Op} {sop : Spec.Op}
    {c : Cst} (sz acc : Nat) (he : o.ensure = true) (hr : InvRoot e r)
    (hk : sop.kind = .add) (hpath : sop.path = op.path)
    (hval : op.value = some c) (hsval : sop.value = some c.valueOf)
    (hc : Inv e (.raw c))
    (hq : ∀ toks, Spec.parsePointer op.path = some toks → ∀ t ∈ toks, QK e t = true) :
    OpRef e (Spec.applyOp (specOpts o) sz acc (den r.con) sop) (Impl.opAdd o r op) :=
  Ens.opAdd_ensure_refines sz acc he hr hk hpath hval hsval hc hq

/-- `C01.applyOp_refines` whatever `o.ensure` is -/
theorem applyOp_refines_ensure (hEq : C01.EqSpec) (o : Impl.Opts) (hl : o.limit = 0)
    (r : Impl.Root) (hr : InvRoot o.esc r) (op : Impl.Op) (sop : Spec.Op)
    (hs : specOp op = some sop) (hop : C01.OpOK o.esc op) (sz acc : Nat) (acci : Int) :
    OpRef o.esc (Spec.applyOp (specOpts o) sz acc (den r.con) sop)
      (fstOut (Impl.applyOp o r acci op)) :=
  Ens.applyOp_refines hEq o hl r hr op sop hs hop sz acc acci

/-- **`C01.applyOps_refines` without the hypothesis `o.ensure = false`** -/
theorem applyOps_refines_ensure (hEq : C01.EqSpec) (o : Impl.Opts) (hl : o.limit = 0)
    (r : Impl.Root) (hr : Impl.WFRoot r = true) (htx : Impl.TX o.esc r.con = true)
    (ops : List Impl.Op) (sops : List Spec.Op) (hops : specOps ops = some sops)
    (hv : ∀ op ∈ ops, ∀ c, op.value = some c → c.valueOf.noDup = true)
    (hcst : ∀ op ∈ ops, ∀ c, op.value = some c → Impl.CstOK o.esc c = true)
    (hq : ∀ op ∈ ops, ∀ toks, Spec.parsePointer op.path = some toks → ∀ t ∈ toks, Impl.QK o.esc t = true)
    (hfrm : ∀ op ∈ ops, op.kind = ascii "copy" → op.frm ≠ none)
    (sizeAt : Nat → Nat) (i acc : Nat) (acci : Int) :
    match Spec.applyFrom (specOpts o) sizeAt i acc (Impl.den r.con) sops with
    | .ok v => ∃ r', Impl.applyOps o r acci ops = .ok r' ∧ Impl.den r'.con = v ∧
        Impl.WFRoot r' = true ∧ Impl.TX o.esc r'.con = true
    | .fail _ _ => ∃ e, Impl.applyOps o r acci ops = .err e
    | .unspec => True := by
  have h := Ens.applyOps_refines_inv hEq o hl sizeAt ops sops r i acc acci
    ((InvRoot_iff _ _).2 ⟨hr, htx⟩) hops
    (fun op hop => ⟨fun c hc => ⟨hv op hop c hc, hcst op hop c hc⟩, hq op hop, hfrm op hop⟩)
  cases hres : Spec.applyFrom (specOpts o) sizeAt i acc (Impl.den r.con) sops with
  | unspec => trivial
  | fail j c => rw [hres] at h; exact h
  | ok v =>
    rw [hres] at h
    obtain ⟨r', h1, h2, h3⟩ := h
    exact ⟨r', h1, h2, ((InvRoot_iff _ _).1 h3).1, ((InvRoot_iff _ _).1 h3).2⟩

/-- `C01.apply_refines` (from the document's syntax tree) without `o.ensure = false` -/
theorem apply_refines_ensure (hEq : C01.EqSpec) (o : Impl.Opts) (hl : o.limit = 0)
    (c : Cst) (hc1 : c.valueOf.noDup = true) (hc2 : Impl.CstOK o.esc c = true) (cr : Bool)
    (ops : List Impl.Op) (sops : List Spec.Op) (hops : specOps ops = some sops)
    (hv : ∀ op ∈ ops, ∀ c, op.value = some c → c.valueOf.noDup = true)
    (hcst : ∀ op ∈ ops, ∀ c, op.value = some c → Impl.CstOK o.esc c = true)
    (hq : ∀ op ∈ ops, ∀ toks, Spec.parsePointer op.path = some toks → ∀ t ∈ toks, Impl.QK o.esc t = true)
    (hfrm : ∀ op ∈ ops, op.kind = ascii "copy" → op.frm ≠ none)
    (sizeAt : Nat → Nat) :
    match Spec.apply (specOpts o) sizeAt c.valueOf sops with
    | .ok v => ∃ con r', Impl.decodeRoot c = .ok con ∧
        Impl.applyOps o { con := con, self := .raw c, selfCR := cr } 0 ops = .ok r' ∧
        Impl.den r'.con = v ∧ Impl.WFRoot r' = true
    | .fail _ _ => ∃ con e, Impl.decodeRoot c = .ok con ∧
        Impl.applyOps o { con := con, self := .raw c, selfCR := cr } 0 ops = .err e
    | .unspec => True := by
  simp only [Spec.apply]
  cases hcont : c.valueOf.isContainer with
  | false => simp
  | true =>
    simp only [if_true]
    obtain ⟨con, hd, hinv, hden⟩ := C01.decodeRoot_spec (e := o.esc) hc1 hc2 hcont cr
    have h := Ens.applyOps_refines_inv hEq o hl sizeAt ops sops _ 0 0 0 hinv hops
      (fun op hop => ⟨fun c hc => ⟨hv op hop c hc, hcst op hop c hc⟩, hq op hop, hfrm op hop⟩)
    simp only [hden] at h
    cases hres : Spec.applyFrom (specOpts o) sizeAt 0 0 c.valueOf sops with
    | unspec => trivial
    | fail j cc =>
      rw [hres] at h
      obtain ⟨er, her⟩ := h
      exact ⟨con, er, hd, her⟩
    | ok v =>
      rw [hres] at h
      obtain ⟨r', h1, h2, h3⟩ := h
      exact ⟨con, r', hd, h1, h2, ((InvRoot_iff _ _).1 h3).1⟩

/-! ## The hypotheses are satisfiable: concrete instances -/

section Examples

theorem classify_two : Spec.classify (ascii "2") = .int 2 := by decide +kernel
theorem classify_one : Spec.classify (ascii "1") = .int 1 := by decide +kernel
theorem classify_zero : Spec.classify (ascii "0") = .int 0 := by decide +kernel
theorem classify_b : Spec.classify (ascii "b") = .name := by decide
theorem classify_d : Spec.classify (ascii "d") = .name := by decide

def exV : Value := .bool true

/-- `{"a":[null,null,{"b":true}]}` -/
def exRes : Value := .obj [(ascii "a", .arr [.null, .null, .obj [(ascii "b", exV)]])]

/-- `{}` + add `/a/2/b` = `{"a":[null,null,{"b":true}]}` -/
theorem ex_ensureAdd (o : Spec.Opts) :
    Spec.ensureAdd o exV (.obj []) [ascii "a", ascii "2", ascii "b"] = .ok exRes := by
  rw [Ens.ensureAdd_obj_cons]
  simp only [Value.lookup, Spec.freshFor, classify_two, Spec.Res.bind]
  rw [if_neg (by decide), if_neg (by decide)]
  simp only
  rw [Ens.ensureAdd_arr_cons]
  simp only [classify_two]
  rw [if_neg (by decide), if_neg (by decide)]
  simp only [Spec.freshFor, classify_b, Spec.Res.bind]
  rfl

/-- `found_at_path` -/
example : resolveAdded {} exRes [ascii "a", ascii "2", ascii "b"] = some exV :=
  found_at_path {} exV (.obj []) _ _ (ex_ensureAdd {})

/-- `found_at_path` with a final `-`: `[1]` + add at the pointer `-` -/
example : resolveAdded {} (.arr [.num (ascii "1"), exV]) [ascii "-"] = some exV :=
  found_at_path {} exV (.arr [.num (ascii "1")]) _ _ (by rfl)

/-- `found_at_path_resolve` -/
example : Spec.resolve true exRes [ascii "a", ascii "2", ascii "b"] = some exV :=
  found_at_path_resolve {} exV (.obj []) _ _ (by decide) (ex_ensureAdd {})

/-- `agrees_with_plain_add`: `{"a":{}}` + add `/a/b` -/
example :
    Spec.ensureAdd {} exV (.obj [(ascii "a", .obj [])]) [ascii "a", ascii "b"] =
        .ok (.obj [(ascii "a", .obj [(ascii "b", exV)])]) ∨
      Spec.ensureAdd {} exV (.obj [(ascii "a", .obj [])]) [ascii "a", ascii "b"] = .unspec :=
  agrees_with_plain_add {} exV _ _ _ (by simp) (by rfl)

/-- `agrees_with_plain_add_op` -/
example :
    Spec.applyOp { ensure := true } 0 0 (.obj [(ascii "a", .obj [])])
        { kind := .add, path := ascii "/a/b", value := some exV } =
        .ok (.obj [(ascii "a", .obj [(ascii "b", exV)])], 0) ∨
      Spec.applyOp { ensure := true } 0 0 (.obj [(ascii "a", .obj [])])
        { kind := .add, path := ascii "/a/b", value := some exV } = .unspec :=
  agrees_with_plain_add_op {} 0 0 _ exV (ascii "/a/b") _ 0 (by rfl)

/-- `only_path_and_padding`: the member `a` of the example is exactly the chain for `2`, `b` -/
example : ∃ inner, chain exV [ascii "2", ascii "b"] = some inner ∧
    exRes = .obj ([] ++ [(ascii "a", inner)]) :=
  only_path_and_padding {} exV [] (ascii "a") (ascii "2") [ascii "b"] exRes (ex_ensureAdd {}) rfl

theorem ex_ensureAdd_arr (o : Spec.Opts) :
    Spec.ensureAdd o exV (.arr [.null]) [ascii "2", ascii "b"] =
      .ok (.arr [.null, .null, .obj [(ascii "b", exV)]]) := by
  rw [Ens.ensureAdd_arr_cons]
  simp only [classify_two]
  rw [if_neg (by decide), if_neg (by decide)]
  simp only [Spec.freshFor, classify_b, Spec.Res.bind]
  rfl

/-- `only_path_and_padding_arr`: `[null]` + add `/2/b` pads index 1 with null -/
example : ∃ inner, chain exV [ascii "b"] = some inner ∧
    Value.arr [.null, .null, .obj [(ascii "b", exV)]] =
      .arr ([.null] ++ List.replicate ((2 : Int).toNat - [Value.null].length) .null ++ [inner]) :=
  only_path_and_padding_arr {} exV [.null] (ascii "2") (ascii "b") [] _ 2 (ex_ensureAdd_arr {})
    classify_two rfl

/-- `frame`: `{"k":1}` + add `/a/b` (with the option) leaves `/k` alone -/
example :
    Spec.resolve true (.obj [(ascii "k", .num (ascii "1")), (ascii "a", .obj [(ascii "b", exV)])])
        [ascii "k"] =
      Spec.resolve true (.obj [(ascii "k", .num (ascii "1"))]) [ascii "k"] :=
  (frame { ensure := true } rfl 0 0 (.obj [(ascii "k", .num (ascii "1"))]) exV (ascii "/a/b") _ 0
    [ascii "k"] (by rfl)
    (by
      intro p hp
      have : p = [ascii "a", ascii "b"] := Option.some.inj (hp.symm.trans (by rfl))
      subst this
      constructor <;> (intro h; rw [List.cons_prefix_cons] at h; exact absurd h.1 (by decide)))
    (by
      intro c x rest h
      cases c with
      | nil => exact ⟨_, rfl⟩
      | cons y c => cases c <;> cases h)).1

/-- `frame_through_arrays`: `[{"x":1},null]` + add `/2/b`: the location `/0/x` keeps its value -/
example :
    Spec.resolve true
        (.arr [.obj [(ascii "x", .num (ascii "1"))], .null, .obj [(ascii "b", exV)]])
        [ascii "0", ascii "x"] = some (.num (ascii "1")) := by
  have h : Spec.ensureAdd {} exV (.arr [.obj [(ascii "x", .num (ascii "1"))], .null])
      [ascii "2", ascii "b"] =
      .ok (.arr [.obj [(ascii "x", .num (ascii "1"))], .null, .obj [(ascii "b", exV)]]) := by
    rw [Ens.ensureAdd_arr_cons]
    simp only [classify_two]
    rw [if_neg (by decide), if_neg (by decide)]
    simp only [Spec.freshFor, classify_b, Spec.Res.bind]
    rfl
  refine frame_through_arrays {} exV _ [ascii "0", ascii "x"] _ _ _ h ?_ ?_
  · rw [offPath, Ens.offPath]
    simp only [classify_zero, classify_two]
    rw [if_neg (by decide), if_neg (by decide)]
    trivial
  · simp only [Spec.resolve, Spec.child, Spec.readIdx, classify_zero]
    rfl

/-- `tokens_decoded` / `add_uses_parsed_tokens`: the pointer `/m~1n/k~0` addresses the member
`k~` of the member `m/n` -/
example : pointerOf [ascii "m/n", ascii "k~"] = ascii "/m~1n/k~0" := by decide
example : Spec.parsePointer (ascii "/m~1n/k~0") = some [ascii "m/n", ascii "k~"] := by rfl
example :
    resolveAdded { ensure := true } (.obj [(ascii "m/n", .obj [(ascii "k~", exV)])])
      [ascii "m/n", ascii "k~"] = some exV :=
  tokens_decoded { ensure := true } rfl 0 0 (.obj []) exV [ascii "m/n", ascii "k~"] (by simp)
    _ 0 (by rfl)
/-- … and no name is excluded: the pointer `//k` creates the member `""` and addresses its member `k`
(the empty reference token is the member name `""`, RFC 6901) -/
example : pointerOf [[], ascii "k"] = ascii "//k" := by decide
example :
    resolveAdded { ensure := true } (.obj [([], .obj [(ascii "k", exV)])]) [[], ascii "k"] = some exV :=
  tokens_decoded { ensure := true } rfl 0 0 (.obj []) exV [[], ascii "k"] (by simp) _ 0 (by rfl)

/-! ### the engine -/

def exO : Impl.Opts := { ensure := true }

/-- the root `{}` -/
def exR : Impl.Root := { con := .doc [] [], self := .nil }

def exOp : Impl.Op := { kind := ascii "add", path := ascii "/a/2/b", value := some (.lit (ascii "true")) }

theorem exR_inv : InvRoot exO.esc exR := (InvRoot_iff _ _).2 ⟨by decide, by decide⟩

/-- `opAdd_ensure_refines_toks`: the engine turns `{}` into `{"a":[null,null,{"b":true}]}` -/
example : ∃ r', Impl.opAdd exO exR exOp = .ok r' ∧ Impl.den r'.con = exRes := by
  have h := opAdd_ensure_refines_toks (o := exO) (e := exO.esc) (r := exR) (op := exOp)
    (c := .lit (ascii "true")) (toks := [ascii "a", ascii "2", ascii "b"]) rfl exR_inv rfl
    ((Inv_raw _ _).2 ⟨by decide, by decide⟩) (by rfl) (by simp) (by decide)
  have hv : (Cst.lit (ascii "true")).valueOf = exV := by rfl
  have hd : Impl.den exR.con = .obj [] := by rfl
  rw [hv, hd, ex_ensureAdd] at h
  obtain ⟨r', h1, h2, _⟩ := h
  exact ⟨r', h1, h2⟩

/-- `opAdd_ensure_refines`: the same against `Spec.applyOp` -/
example : ∃ r', Impl.opAdd exO exR exOp = .ok r' ∧ Impl.den r'.con = exRes := by
  have h := opAdd_ensure_refines (o := exO) (e := exO.esc) (r := exR) (op := exOp)
    (sop := { kind := .add, path := ascii "/a/2/b", value := some exV })
    (c := .lit (ascii "true")) 0 0 rfl exR_inv rfl rfl rfl (by rfl)
    ((Inv_raw _ _).2 ⟨by decide, by decide⟩)
    (by intro toks ht; cases ht; decide)
  have hd : Impl.den exR.con = .obj [] := by rfl
  rw [hd, add_uses_parsed_tokens (specOpts exO) rfl 0 0 _ exV _ [ascii "a", ascii "2", ascii "b"]
    (by rfl) (by simp), ex_ensureAdd] at h
  obtain ⟨r', h1, _, h2⟩ := h
  exact ⟨r', h1, h2⟩

/-- `opAdd_ensure_refines` on a pointer without a leading `/` (outside RFC 6901, decided by the
specification since the repair D20): `ensurePathExists` creates nothing, the add is an error -/
example : ∃ er, Impl.opAdd exO exR { exOp with path := ascii "a/2/b" } = .err er := by
  have h := opAdd_ensure_refines (o := exO) (e := exO.esc) (r := exR)
    (op := { exOp with path := ascii "a/2/b" })
    (sop := { kind := .add, path := ascii "a/2/b", value := some exV })
    (c := .lit (ascii "true")) 0 0 rfl exR_inv rfl rfl rfl (by rfl)
    ((Inv_raw _ _).2 ⟨by decide, by decide⟩)
    (by intro toks ht; cases ht)
  have hs : Spec.applyOp (specOpts exO) 0 0 (Impl.den exR.con)
      { kind := .add, path := ascii "a/2/b", value := some exV } = .fail .parentUnreachable := by rfl
  rw [hs] at h
  exact h

def exOps : List Impl.Op :=
  [ exOp,
    { kind := ascii "add", path := ascii "/c/d", value := some (.lit (ascii "true")) } ]

def exSops : List Spec.Op :=
  [ { kind := .add, path := ascii "/a/2/b", value := some exV },
    { kind := .add, path := ascii "/c/d", value := some exV } ]

/-- `{"a":[null,null,{"b":true}],"c":{"d":true}}` -/
def exRes2 : Value :=
  .obj [(ascii "a", .arr [.null, .null, .obj [(ascii "b", exV)]]),
        (ascii "c", .obj [(ascii "d", exV)])]

theorem ex_applyFrom :
    Spec.applyFrom (specOpts exO) (fun _ => 0) 0 0 (.obj []) exSops = .ok exRes2 := by
  simp only [exSops, Spec.applyFrom]
  rw [add_uses_parsed_tokens (specOpts exO) rfl _ 0 _ exV _ [ascii "a", ascii "2", ascii "b"]
    (by rfl) (by simp), ex_ensureAdd]
  simp only [Spec.Res.bind]
  rw [add_uses_parsed_tokens (specOpts exO) rfl _ 0 _ exV _ [ascii "c", ascii "d"]
    (by rfl) (by simp)]
  have : Spec.ensureAdd (specOpts exO) exV exRes [ascii "c", ascii "d"] = .ok exRes2 := by
    rw [exRes, Ens.ensureAdd_obj_cons]
    simp only [Value.lookup, Spec.freshFor, classify_d, Spec.Res.bind]
    rw [if_neg (by decide)]
    rfl
  rw [this]
  rfl

/-- `applyOps_refines_ensure`: all hypotheses hold for a two-operation patch that creates an
array with padding and an object -/
example (hEq : C01.EqSpec) :
    ∃ r', Impl.applyOps exO exR 0 exOps = .ok r' ∧ Impl.den r'.con = exRes2 := by
  have hmem : ∀ (P : Impl.Op → Prop), (∀ op ∈ exOps, P op) ↔ (P exOps[0] ∧ P exOps[1]) := by
    intro P; simp [exOps]
  have hv : ∀ op ∈ exOps, ∀ c, op.value = some c → c.valueOf.noDup = true :=
    (hmem _).2 (by refine ⟨?_, ?_⟩ <;> intro c hc <;> cases hc <;> decide)
  have hcst : ∀ op ∈ exOps, ∀ c, op.value = some c → Impl.CstOK exO.esc c = true :=
    (hmem _).2 (by refine ⟨?_, ?_⟩ <;> intro c hc <;> cases hc <;> decide)
  have hq : ∀ op ∈ exOps, ∀ toks, Spec.parsePointer op.path = some toks →
      ∀ t ∈ toks, Impl.QK exO.esc t = true :=
    (hmem _).2 (by refine ⟨?_, ?_⟩ <;> intro toks ht <;> cases ht <;> decide)
  have hfrm : ∀ op ∈ exOps, op.kind = ascii "copy" → op.frm ≠ none :=
    (hmem _).2 (by refine ⟨?_, ?_⟩ <;> intro hk <;> exact absurd hk (by decide))
  have h := applyOps_refines_ensure hEq exO rfl exR (by decide) (by decide) exOps exSops (by rfl)
    hv hcst hq hfrm (fun _ => 0) 0 0 0
  have hd : Impl.den exR.con = .obj [] := by rfl
  rw [hd, ex_applyFrom] at h
  obtain ⟨r', h1, h2, _⟩ := h
  exact ⟨r', h1, h2⟩

/-- `apply_refines_ensure`: the same from the document text's syntax tree `{}` -/
example (hEq : C01.EqSpec) :
    ∃ con r', Impl.decodeRoot (.obj []) = .ok con ∧
      Impl.applyOps exO { con := con, self := .raw (.obj []), selfCR := false } 0 exOps = .ok r' ∧
      Impl.den r'.con = exRes2 := by
  have hmem : ∀ (P : Impl.Op → Prop), (∀ op ∈ exOps, P op) ↔ (P exOps[0] ∧ P exOps[1]) := by
    intro P; simp [exOps]
  have h := apply_refines_ensure hEq exO rfl (.obj []) (by decide) (by decide) false exOps exSops (by rfl)
    ((hmem _).2 (by refine ⟨?_, ?_⟩ <;> intro c hc <;> cases hc <;> decide))
    ((hmem _).2 (by refine ⟨?_, ?_⟩ <;> intro c hc <;> cases hc <;> decide))
    ((hmem _).2 (by refine ⟨?_, ?_⟩ <;> intro toks ht <;> cases ht <;> decide))
    ((hmem _).2 (by refine ⟨?_, ?_⟩ <;> intro hk <;> exact absurd hk (by decide)))
    (fun _ => 0)
  have hs : Spec.apply (specOpts exO) (fun _ => 0) (Cst.obj []).valueOf exSops = .ok exRes2 := by
    have : (Cst.obj []).valueOf = .obj [] := by rfl
    rw [this]
    simp only [Spec.apply]
    rw [if_pos (by rfl)]
    exact ex_applyFrom
  rw [hs] at h
  obtain ⟨con, r', h1, h2, h3, _⟩ := h
  exact ⟨con, r', h1, h2, h3⟩

end Examples

/-
all of the following: a subset of [propext, Classical.choice, Quot.sound]
#print axioms JP.C14.found_at_path
#print axioms JP.C14.found_at_path_resolve
#print axioms JP.C14.agrees_with_plain_add
#print axioms JP.C14.agrees_with_plain_add_op
#print axioms JP.C14.only_path_and_padding
#print axioms JP.C14.only_path_and_padding_arr
#print axioms JP.C14.frame
#print axioms JP.C14.frame_through_arrays
#print axioms JP.C14.add_uses_parsed_tokens
#print axioms JP.C14.tokens_decoded
#print axioms JP.C14.opAdd_ensure_refines_toks
#print axioms JP.C14.opAdd_ensure_refines
#print axioms JP.C14.applyOp_refines_ensure
#print axioms JP.C14.applyOps_refines_ensure
#print axioms JP.C14.apply_refines_ensure
-/

end C14
end JP
