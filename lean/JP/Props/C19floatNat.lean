import JP.Props.C19float
import JP.Props.C17float
import JP.Lemmas.FloatNeg
import JP.Lemmas.FloatDigits

/-!
# C19: the integer domain of the former `CreateMergePatch` model lies inside the float model's domain

`ModelledGoodGoal` of `C19float.lean` — a plain integer of at most 15 digits (not `-0`) is printed back unchanged
by `Unmarshal` into `interface{}` + `Marshal` — from the facts about the float model proved in
`JP/Props/C17float.lean` (`canonical_nat`: exact reading of integers below `2^53`, the shortest-digits search on
integers below `10^15`; `parse_sign`, `floatEncode_neg`: the sign).  THIS FILE DEPENDS ON THE FLOAT THEOREMS
(`JP.Props.C17float`, `JP/Lemmas/Float*.lean`); `C19float.lean` does not.

Consequence: `createF_extends_modelled` — on every input of the former model the float model gives the same
answer, so the theorems of `C19bytes.lean` (which carry `createModelled`) are statements about the float model too.
-/

namespace JP
namespace C19
open Value Legacy
open Codec.Float (FP stdNumberToAny storeFloat parseFloat floatEncode digitsNat mantBits)
open Codec.Typed (decimal)

theorem floatCanonical_of (l : Bytes) (x : FP) (h1 : stdNumberToAny l = some x)
    (h2 : floatEncode 64 x false = some l) : floatCanonical l = true := by
  rw [floatCanonical_iff]
  simp only [normNum, h1, Option.bind_some, h2]

theorem ofNat_sign (n : Nat) : (FP.ofNat 64 n).sign = false := by
  unfold FP.ofNat; split <;> rfl

theorem e15_lt : ∀ n : Nat, n < 10 ^ 15 → n < 2 ^ (mantBits 64 + 1) := by
  intro n hn
  have : (10 : Nat) ^ 15 < 2 ^ (mantBits 64 + 1) := by decide
  omega

/-- digit strings `0 | [1-9][0-9]*` of at most 15 digits -/
theorem digits_canonical (d : Bytes) (hlen : d.length ≤ 15) (hne : d ≠ []) (hd : d.all isDigit = true)
    (hz : d.length = 1 ∨ d.head? ≠ some 48) :
    ∃ n, n < 10 ^ 15 ∧ d = decimal n ∧ (n = 0 → d = [48]) := by
  obtain ⟨e, hlt, h0⟩ := JP.Codec.Float.decimal_digitsNat d hd hne hz
  refine ⟨digitsNat d, ?_, e.symm, h0⟩
  exact Nat.lt_of_lt_of_le hlt (Nat.pow_le_pow_right (by decide) hlen)

theorem head_digit_ne_minus (d : Bytes) (hd : d.all isDigit = true) : d.head? ≠ some 45 := by
  cases d with
  | nil => simp
  | cons c r =>
    simp only [List.all_cons, Bool.and_eq_true] at hd
    simp only [List.head?_cons, ne_eq, Option.some.injEq]
    intro e; rw [e] at hd
    exact absurd hd.1 (by decide)

theorem modelled_pos (d : Bytes) (hlen : d.length ≤ 15) (hne : d ≠ []) (hd : d.all isDigit = true)
    (hz : d.length = 1 ∨ d.head? ≠ some 48) : goodLit d = true := by
  obtain ⟨n, hn, e, _⟩ := digits_canonical d hlen hne hd hz
  have hc : floatCanonical d = true := by
    rw [e]
    exact floatCanonical_of _ (FP.ofNat 64 n) (C17.store_exact_nat 64 n (e15_lt n hn)) (C17.format_exact_nat n hn)
  simp only [goodLit, hc, Bool.true_and, bne_iff_ne, ne_eq]
  intro e'
  have := head_digit_ne_minus d hd
  rw [e'] at this
  exact this (by decide)

theorem modelled_neg (d : Bytes) (hlen : d.length ≤ 15) (hne : d ≠ []) (hd : d.all isDigit = true)
    (hz : d.length = 1 ∨ d.head? ≠ some 48) (hnz : (45 :: d) ≠ ascii "-0") : goodLit (45 :: d) = true := by
  obtain ⟨n, hn, e, _⟩ := digits_canonical d hlen hne hd hz
  have hs : stdNumberToAny (45 :: d) = some (FP.ofNat 64 n).neg := by
    unfold stdNumberToAny storeFloat
    rw [C17.parse_sign 64 d (head_digit_ne_minus d hd), e, C17.parse_exact_nat 64 n (e15_lt n hn)]
    rfl
  have he : floatEncode 64 (FP.ofNat 64 n).neg false = some (45 :: d) := by
    rw [JP.Codec.Float.floatEncode_neg 64 _ (ofNat_sign n), C17.format_exact_nat n hn, e]
    rfl
  have hc := floatCanonical_of _ _ hs he
  simp only [goodLit, hc, Bool.true_and, bne_iff_ne, ne_eq]
  exact hnz

/-- **a plain integer of at most 15 digits (not `-0`) is spelled the way Go prints a `float64`** -/
theorem modelledGood : ModelledGoodGoal := by
  intro l h
  cases l with
  | nil => simp [numLitModelled] at h
  | cons c r =>
    by_cases hc : c = 45
    · subst hc
      simp only [numLitModelled, Bool.and_eq_true, decide_eq_true_eq, Bool.not_eq_true', Bool.or_eq_true,
        List.isEmpty_eq_false_iff, ne_eq] at h
      obtain ⟨⟨⟨⟨h1, h2⟩, h3⟩, h4⟩, h5⟩ := h
      exact modelled_neg r h1 h2 h3 (by
        rcases h4 with h4 | h4
        · exact Or.inl h4
        · exact Or.inr (by simpa using h4)) (by simpa using h5)
    · simp only [numLitModelled] at h
      split at h
      · rename_i heq; simp only [List.cons.injEq] at heq; exact absurd heq.1 hc
      · simp only [Bool.and_eq_true, decide_eq_true_eq, Bool.not_eq_true', Bool.or_eq_true,
          List.isEmpty_eq_false_iff, ne_eq] at h
        obtain ⟨⟨⟨⟨h1, h2⟩, h3⟩, h4⟩, _⟩ := h
        exact modelled_pos (c :: r) h1 h2 h3 (by
          rcases h4 with h4 | h4
          · exact Or.inl h4
          · exact Or.inr (by simpa using h4))

/-- **the float model extends the former integer-only model**: same answer on every `createModelled` input -/
theorem createF_extends_modelled (a b : Bytes) (hm : createModelled a b = true) :
    createMergePatchF a b = createMergePatch a b :=
  createF_agrees_modelled modelledGood a b hm

/-- the former domain lies inside C19's quantifier -/
theorem createModelled_canonical (a b : Bytes) (hm : createModelled a b = true) :
    createCanonical a b = true ∧ createNoNegZero a b = true := by
  unfold createModelled at hm
  unfold createCanonical createNoNegZero
  cases pa : parseCst a with
  | none => simp
  | some ca =>
    cases pb : parseCst b with
    | none => simp
    | some cb =>
      rw [pa, pb] at hm
      simp only [Bool.and_eq_true, numbersModelled] at hm
      have key : ∀ ls : List Bytes, ls.all numLitModelled = true →
          ls.all floatCanonical = true ∧ ls.contains (ascii "-0") = false := by
        intro ls hl
        have h1 := List.all_eq_true.1 hl
        refine ⟨List.all_eq_true.2 fun l hl' => goodLit_canonical l (modelledGood l (h1 l hl')), ?_⟩
        cases hcn : ls.contains (ascii "-0") with
        | false => rfl
        | true =>
          have := h1 _ (List.contains_iff_mem.1 hcn)
          exact absurd this (by decide)
      obtain ⟨k1, k2⟩ := key _ hm.1
      obtain ⟨k3, k4⟩ := key _ hm.2
      refine ⟨?_, ?_⟩ <;> simp only [k1, k2, k3, k4] <;> rfl

end C19
end JP
