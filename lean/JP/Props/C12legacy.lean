import JP.Lemmas.LegacyCopy

/-!
# C12, legacy clause: the accumulated copy-size limit of the legacy (v4) package

`Legacy.copySizeOf neg r op` is the size the legacy `deepCopy` reports for the copy `op` in state
`r` (`len` of the marshalled duplicate; it is what `Legacy.copySizes` of `JP/Legacy/Check.lean`
lists for a copy); `Legacy.CopyResolves neg r op` says that source and destination of the copy
resolve (`copyPrepare` succeeds).  `limit` is the package variable `AccumulatedCopySizeLimit`.
-/

namespace JP.C12
open JP.Legacy

/-- a limit of 0 (or negative) disables the check -/
theorem legacy_zero_disables (neg : Bool) (limit : Int) (h : limit ≤ 0) (r : Legacy.Node) (acc : Int)
    (ops : List Legacy.Op) : Legacy.applyOps neg limit r acc ops ≠ .err .copySize := by
  intro he
  obtain ⟨_, _, _, _, _, _, _, hb⟩ := (Legacy.applyOps_copySize_iff neg limit ops r acc).1 he
  have := (Legacy.applyOp_copySize hb).2
  omega

/-- other operations never count towards the total -/
theorem legacy_others_dont_count (neg : Bool) (limit : Int) (r : Legacy.Node) (acc : Int)
    (op : Legacy.Op) (r' : Legacy.Node) (acc' : Int) :
    op.kind ≠ ascii "copy" → Legacy.applyOp neg limit r acc op = .ok (r', acc') → acc' = acc :=
  fun hk h => Legacy.applyOp_not_copy_acc hk h

/-- a copy that succeeds adds exactly the size of the duplicated value as the library spells it -/
theorem legacy_copy_adds_size (neg : Bool) (limit : Int) (r : Legacy.Node) (acc : Int)
    (op : Legacy.Op) (r' : Legacy.Node) (acc' : Int) :
    op.kind = ascii "copy" → Legacy.applyOp neg limit r acc op = .ok (r', acc') →
      acc' = acc + Legacy.copySizeOf neg r op := by
  intro hk h
  rw [Legacy.applyOp_copy hk] at h
  exact Legacy.opCopy_ok_acc h

/-- exactness: a copy fails with the copy-size error exactly when the limit is positive, its
source and destination resolve, and the running total with this copy's size exceeds the limit -/
theorem legacy_copy_limit_exact (neg : Bool) (limit : Int) (r : Legacy.Node) (acc : Int) (op : Legacy.Op) :
    op.kind = ascii "copy" →
      (Legacy.applyOp neg limit r acc op = .err .copySize ↔
        (limit > 0 ∧ Legacy.CopyResolves neg r op ∧ acc + Legacy.copySizeOf neg r op > limit)) := by
  intro hk
  rw [Legacy.applyOp_copy hk]
  exact Legacy.opCopy_copySize_iff neg limit r acc op

/-- never while within the limit -/
theorem legacy_copy_within_limit (neg : Bool) (limit : Int) (r : Legacy.Node) (acc : Int) (op : Legacy.Op)
    (h : acc + Legacy.copySizeOf neg r op ≤ limit) : Legacy.applyOp neg limit r acc op ≠ .err .copySize := by
  intro he
  have hk := (Legacy.applyOp_copySize he).1
  have := ((legacy_copy_limit_exact neg limit r acc op hk).1 he).2.2
  omega

/-- a copy that succeeds resolves its source and destination, and (limit positive) leaves the
running total within the limit -/
theorem legacy_copy_ok_within (neg : Bool) (limit : Int) (r : Legacy.Node) (acc : Int) (op : Legacy.Op)
    (r' : Legacy.Node) (acc' : Int) (hk : op.kind = ascii "copy")
    (h : Legacy.applyOp neg limit r acc op = .ok (r', acc')) :
    Legacy.CopyResolves neg r op ∧ (limit > 0 → acc' ≤ limit) := by
  rw [Legacy.applyOp_copy hk] at h
  exact ⟨Legacy.opCopy_ok_resolves h, fun hl => Legacy.opCopy_ok_within hl h⟩

/-! ### the running total over a whole patch, in terms of `Legacy.copySizes` -/

/-- after a prefix that succeeds the running total is the start value plus the sizes
`Legacy.copySizes` lists for the prefix (one per operation, 0 for operations other than copy) -/
theorem legacy_running_total (neg : Bool) (limit : Int) (r : Legacy.Node) (acc : Int)
    (ops : List Legacy.Op) (r' : Legacy.Node) (acc' : Int)
    (h : Legacy.applyOpsAcc neg limit r acc ops = .ok (r', acc')) :
    acc' = acc + Legacy.sumSizes (Legacy.copySizes neg r acc ops) ∧
      (Legacy.copySizes neg r acc ops).length = ops.length :=
  Legacy.applyOpsAcc_total neg limit ops h

/-- …and it never exceeds a positive limit while operations succeed -/
theorem legacy_running_total_within (neg : Bool) (limit : Int) (hl : limit > 0) (r : Legacy.Node)
    (acc : Int) (ops : List Legacy.Op) (r' : Legacy.Node) (acc' : Int) (ha : acc ≤ limit)
    (h : Legacy.applyOpsAcc neg limit r acc ops = .ok (r', acc')) :
    acc + Legacy.sumSizes (Legacy.copySizes neg r acc ops) ≤ limit := by
  have := Legacy.applyOpsAcc_ok_within hl ops ha h
  rw [(Legacy.applyOpsAcc_total neg limit ops h).1] at this
  exact this

/-- exactness over a whole patch: the run ends with the copy-size error iff the patch splits as
`ops₁ ++ op :: ops₂` where `ops₁` succeeds, `op` is a copy whose source and destination resolve
in the state `ops₁` left, the limit is positive, and the sum of the sizes `Legacy.copySizes`
lists for the first `ops₁.length + 1` operations (on top of the start value) exceeds it -/
theorem legacy_patch_limit_exact (neg : Bool) (limit : Int) (r : Legacy.Node) (acc : Int)
    (ops : List Legacy.Op) :
    Legacy.applyOps neg limit r acc ops = .err .copySize ↔
      ∃ ops₁ op ops₂ r₁ acc₁, ops = ops₁ ++ op :: ops₂ ∧
        Legacy.applyOpsAcc neg limit r acc ops₁ = .ok (r₁, acc₁) ∧
        op.kind = ascii "copy" ∧ limit > 0 ∧ Legacy.CopyResolves neg r₁ op ∧
        acc + Legacy.sumSizes ((Legacy.copySizes neg r acc ops).take (ops₁.length + 1)) > limit := by
  rw [Legacy.applyOps_copySize_iff]
  have key : ∀ ops₁ op ops₂ r₁ acc₁, ops = ops₁ ++ op :: ops₂ →
      Legacy.applyOpsAcc neg limit r acc ops₁ = .ok (r₁, acc₁) → op.kind = ascii "copy" →
      acc + Legacy.sumSizes ((Legacy.copySizes neg r acc ops).take (ops₁.length + 1))
        = acc₁ + (Legacy.copySizeOf neg r₁ op : Int) := by
    intro ops₁ op ops₂ r₁ acc₁ he hp hk
    obtain ⟨ht, hlen⟩ := Legacy.applyOpsAcc_total neg limit ops₁ hp
    rw [he, Legacy.copySizes_append neg limit ops₁ (op :: ops₂) hp, Legacy.copySizes_cons]
    rw [List.take_append, hlen]
    simp only [Nat.add_sub_cancel_left, List.take_succ_cons, List.take_zero]
    rw [List.take_of_length_le (by omega), Legacy.sumSizes_append, Legacy.sumSizes_cons, Legacy.sumSizes_nil, ht]
    simp only [Legacy.opSize, hk, if_true]
    omega
  constructor
  · rintro ⟨ops₁, op, ops₂, r₁, acc₁, he, hp, hb⟩
    have hk := (Legacy.applyOp_copySize hb).1
    obtain ⟨hl, hres, hgt⟩ := (legacy_copy_limit_exact neg limit r₁ acc₁ op hk).1 hb
    exact ⟨ops₁, op, ops₂, r₁, acc₁, he, hp, hk, hl, hres, by rw [key _ _ _ _ _ he hp hk]; exact hgt⟩
  · rintro ⟨ops₁, op, ops₂, r₁, acc₁, he, hp, hk, hl, hres, hgt⟩
    rw [key _ _ _ _ _ he hp hk] at hgt
    exact ⟨ops₁, op, ops₂, r₁, acc₁, he, hp,
      (legacy_copy_limit_exact neg limit r₁ acc₁ op hk).2 ⟨hl, hres, hgt⟩⟩

/-! ### the hypotheses are satisfiable -/

section Examples

def lexRoot : Legacy.Node := .doc [(ascii "a", .raw (.arr [.lit (ascii "1"), .lit (ascii "22")]))]
def lexCopy : Legacy.Op := { kind := ascii "copy", path := .ok (ascii "/c"), frm := .ok (ascii "/a"), value := .absent }
def lexCopy2 : Legacy.Op := { kind := ascii "copy", path := .ok (ascii "/d"), frm := .ok (ascii "/c"), value := .absent }
def lexAdd : Legacy.Op := { kind := ascii "add", path := .ok (ascii "/b"), frm := .missing, value := .val (.lit (ascii "2")) }

/-- the value `[1,22]` has size 6 -/
example : Legacy.copySizeOf true lexRoot lexCopy = 6 := rfl

/-- `legacy_zero_disables`: with limit 0 the copies go through -/
example : ∃ r', Legacy.applyOps true 0 lexRoot 0 [lexCopy, lexCopy2] = .ok r' := ⟨_, rfl⟩

/-- `legacy_others_dont_count` -/
example : ∃ r', Legacy.applyOp true 5 lexRoot 3 lexAdd = .ok (r', 3) := ⟨_, rfl⟩

/-- `legacy_copy_adds_size` -/
example : ∃ r', Legacy.applyOp true 10 lexRoot 3 lexCopy = .ok (r', 9) := ⟨_, rfl⟩

/-- `legacy_copy_limit_exact`: 6 ≤ 6 passes, 1 + 6 > 6 fails -/
example : ∃ r', Legacy.applyOp true 6 lexRoot 0 lexCopy = .ok (r', 6) := ⟨_, rfl⟩
example : Legacy.applyOp true 6 lexRoot 1 lexCopy = .err .copySize := rfl
example : Legacy.CopyResolves true lexRoot lexCopy := ⟨_, _, _, rfl⟩

/-- `legacy_patch_limit_exact`: the second copy takes the total from 6 to 12 > 10 -/
example : Legacy.applyOps true 10 lexRoot 0 [lexCopy, lexAdd, lexCopy2] = .err .copySize := rfl
example : Legacy.copySizes true lexRoot 0 [lexCopy, lexAdd, lexCopy2] = [6, 0, 6] := rfl

end Examples

end JP.C12

-- #print axioms JP.C12.legacy_zero_disables
-- #print axioms JP.C12.legacy_others_dont_count
-- #print axioms JP.C12.legacy_copy_adds_size
-- #print axioms JP.C12.legacy_copy_limit_exact
-- #print axioms JP.C12.legacy_copy_within_limit
-- #print axioms JP.C12.legacy_copy_ok_within
-- #print axioms JP.C12.legacy_running_total
-- #print axioms JP.C12.legacy_running_total_within
-- #print axioms JP.C12.legacy_patch_limit_exact
