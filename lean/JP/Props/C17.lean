import JP.Driver
import JP.Impl.Den

/-! # Property C17 — theorems (see DESIGN.md §6) -/

namespace JP
namespace C17

end C17
end JP
