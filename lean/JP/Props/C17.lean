import JP.Lemmas.TextTree
import JP.Lemmas.TextUtf8Tree
import JP.Lemmas.TextUnq

/-!
# C17 — codec round trips (text layer)

The boundary theorems behind property C17: the encoder's string spelling is always a valid
body, decodes back to the source string when that is valid UTF-8, is free of raw
HTML-sensitive bytes when escaping is on; the rune codec round-trips; the printer/parser pair
round-trips on well-formed trees (B3); marshalling a dynamic value and reading the text back
gives the value.  Proofs are in `JP/Lemmas/Text*.lean`.
-/

namespace JP.C17
open JP

/-! ### runes -/

/-- decoding the encoding of a scalar value gives the value and the length of its encoding -/
theorem encodeRune_decodeRune (r : Nat) (hr : isScalar r) (rest : Bytes) :
    decodeRune (encodeRune r ++ rest) = (r, (encodeRune r).length) :=
  JP.decodeRune_encodeRune r hr rest

example : isScalar 0x1F600 ∧ isScalar 0x2028 ∧ isScalar 0xE9 := by simp [isScalar]

/-- conversely: where the input is not rejected at its first rune, re-encoding the decoded rune gives
back exactly the bytes consumed, the rune is a scalar value, and its decoding only depends on those bytes -/
theorem decodeRune_reencode (b : UInt8) (rest : Bytes)
    (h : ¬ ((decodeRune (b :: rest)).1 = runeError ∧ (decodeRune (b :: rest)).2 = 1)) :
    encodeRune (decodeRune (b :: rest)).1 = (b :: rest).take (decodeRune (b :: rest)).2
    ∧ isScalar (decodeRune (b :: rest)).1
    ∧ (decodeRune (b :: rest)).2 ≤ (b :: rest).length
    ∧ ∀ t', decodeRune ((b :: rest).take (decodeRune (b :: rest)).2 ++ t') = decodeRune (b :: rest) :=
  JP.encodeRune_decodeRune b rest h

example : ¬ ((decodeRune [0xF0, 0x9F, 0x98, 0x80, 65]).1 = runeError ∧ (decodeRune [0xF0, 0x9F, 0x98, 0x80, 65]).2 = 1) := by
  decide

/-! ### quote / unquote (B7) -/

theorem unquote_quoteBody (e : Bool) (s : Bytes) (hs : isValidUtf8 s = true) : unquote (quoteBody e s) = s :=
  JP.unquote_quoteBody e s hs

-- "h é < U+2028 \n \" U+1F600"
example : isValidUtf8 [104, 0xC3, 0xA9, 60, 0xE2, 0x80, 0xA8, 10, 34, 0xF0, 0x9F, 0x98, 0x80] = true := by decide

/-- always a valid body, even for invalid UTF-8 (replaced by `\\ufffd`) -/
theorem quoteBody_valid (e : Bool) (s : Bytes) :
    parseStrBody (quoteBody e s ++ [34]) = some (quoteBody e s, []) :=
  JP.quoteBody_valid e s

theorem quoteBody_clean (s : Bytes) : hasRawHtml (quoteBody true s) = false :=
  JP.quoteBody_clean s

/-- the escape switch changes the spelling only, for every source string -/
theorem unquote_quoteBody_switch (e : Bool) (s : Bytes) : unquote (quoteBody e s) = unquote (quoteBody false s) :=
  JP.unquote_quoteBody_indep e s

/-- the encoder always writes valid UTF-8 -/
theorem quoteBody_utf8 (e : Bool) (s : Bytes) : isValidUtf8 (quoteBody e s) = true :=
  JP.isValidUtf8_quoteBody e s

/-- behind the validity gate the decoder never fails: `unquote`'s default `[]` is never used -/
theorem unquoteBody_valid (b : Bytes) (hb : parseStrBody (b ++ [34]) = some (b, [])) :
    unquoteBody b = some (unquote b) :=
  JP.unquoteBody_valid b hb

-- a lone high surrogate followed by a pair, then raw bytes that are not UTF-8
example : parseStrBody ([92, 117, 100, 56, 48, 48, 92, 117, 100, 56, 51, 100, 92, 117, 100, 101, 48, 48, 0xFF, 0xC3] ++ [34])
    = some ([92, 117, 100, 56, 48, 48, 92, 117, 100, 56, 51, 100, 92, 117, 100, 101, 48, 48, 0xFF, 0xC3], []) := by decide

/-! ### printer / parser (B3) -/

theorem parse_print (c : Cst) (hc : WFC c) (hd : c.depth ≤ maxDepth) : parseCst (Cst.print c) = some c :=
  JP.parse_print c hc hd

example : WFC (.obj [([97, 92, 110], .arr [.lit [45, 49, 46, 53], .str [92, 117, 48, 48, 101, 57], .lit [110, 117, 108, 108], .arr []])]) = true
    ∧ (Cst.obj [([97, 92, 110], .arr [.lit [45, 49, 46, 53], .str [92, 117, 48, 48, 101, 57], .lit [110, 117, 108, 108], .arr []])]).depth ≤ maxDepth := by
  decide

/-! ### dynamic values -/

theorem roundtrip (e : Bool) (v : Value) (hv : StrsUtf8 v) (hn : NumsValid v) :
    (Impl.marshalAnyE e v).valueOf = v :=
  JP.roundtrip e v hv hn

theorem marshal_wfc (e : Bool) (v : Value) (hn : NumsValid v) : WFC (Impl.marshalAnyE e v) :=
  JP.marshal_wfc e v hn

theorem escape_switch_only_spelling (v : Value) :
    (Impl.marshalAnyE true v).valueOf = (Impl.marshalAnyE false v).valueOf :=
  JP.escape_switch_only_spelling v

-- {"ké": [-1.5, "<\n", null, true]}
example : StrsUtf8 (.obj [([107, 0xC3, 0xA9], .arr [.num [45, 49, 46, 53], .str [60, 10], .null, .bool true])]) = true
    ∧ NumsValid (.obj [([107, 0xC3, 0xA9], .arr [.num [45, 49, 46, 53], .str [60, 10], .null, .bool true])]) = true := by
  decide

/-- marshal, print, parse, evaluate: the value comes back -/
theorem parse_print_marshal (e : Bool) (v : Value) (hv : StrsUtf8 v) (hn : NumsValid v)
    (hd : (Impl.marshalAnyE e v).depth ≤ maxDepth) :
    parseValueOf (Cst.print (Impl.marshalAnyE e v)) = some v := by
  simp only [parseValueOf, JP.parse_print _ (JP.marshal_wfc e v hn) hd, Option.map_some, JP.roundtrip e v hv hn]

example : (Impl.marshalAnyE true (.obj [([107, 0xC3, 0xA9], .arr [.num [45, 49, 46, 53], .str [60, 10], .null, .bool true])])).depth ≤ maxDepth := by
  decide

/-- the marshalled text is always valid UTF-8 (number literals being valid numbers) -/
theorem print_marshal_utf8 (e : Bool) (v : Value) (hn : NumsValid v) :
    isValidUtf8 (Cst.print (Impl.marshalAnyE e v)) = true :=
  JP.isValidUtf8_print _ (JP.marshal_wfc e v hn) (JP.CstUtf8_marshal e v)

end JP.C17

/-
#print axioms JP.C17.encodeRune_decodeRune
#print axioms JP.C17.decodeRune_reencode
#print axioms JP.C17.unquote_quoteBody
#print axioms JP.C17.quoteBody_valid
#print axioms JP.C17.quoteBody_clean
#print axioms JP.C17.unquote_quoteBody_switch
#print axioms JP.C17.quoteBody_utf8
#print axioms JP.C17.parse_print
#print axioms JP.C17.roundtrip
#print axioms JP.C17.marshal_wfc
#print axioms JP.C17.escape_switch_only_spelling
#print axioms JP.C17.parse_print_marshal
#print axioms JP.C17.unquoteBody_valid
#print axioms JP.C17.print_marshal_utf8
-/
