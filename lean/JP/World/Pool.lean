import JP.Impl.Merge

/-!
# World model, part 1: the pooled objects of `v5/internal/json` and their per-call lifecycle

The Go package keeps three `sync.Pool`s (`ds` of `*decodeState`, `encodeStatePool` of
`*encodeState`, `scannerPool` of `*scanner`) and two `sync.Map` caches.  An object taken from a
pool carries whatever the previous user left in it.  This file models

* the leftover-carrying fields of each pooled object as records with ARBITRARY contents at
  acquisition (`ScanState`, `EncState`, `DecState`);
* the per-call lifecycle as the Go code performs it: which fields are assigned before their
  first read (`reset`, `newScanner`, `newEncodeState`, `init`, `useNumber = true`) and which
  are not (`scanner.bytes`, `lastKeys`, `disallowUnknownFields`, `ptrSeen`, `scratch`);
* the entry points as functions of the leftover (`validW`, `compactW`, `indentW`,
  `marshalEscapedW`, `unmarshalValid`, `unmarshalValidWithKeys`, …), built as a thin layer
  around the validated pure functions (`Scanner.*`, `parseCst`, `Impl.decode*`): what the
  entry point does with its *own* state is modelled, what it computes from the text is the
  pure function;
* the library layer on top (`partialDoc.UnmarshalJSON` with its possibly stale `keys`, and the
  methods that read `keys`);
* per-call programs (`Prog`): the sequence of pool acquisitions/releases each exported API
  performs, with the leftover of every acquisition a parameter of the continuation.

## Go-level facts this model ASSUMES (each re-checkable syntactically on the Go source)

Scanner (`scanner.go`, `indent.go`)
* S1 `scanner.reset` assigns `step = stateBeginValue`, `parseState = parseState[0:0]`,
  `err = nil`, `endTop = false` and nothing else; the state functions and `eof` read and write
  only `step`, `parseState`, `err`, `endTop` (and `bytes`, only to fill `SyntaxError.Offset`).
* S2 `newScanner` = `scannerPool.Get`, `bytes = 0`, `reset()`; `freeScanner` sets
  `parseState = nil` when longer than 1024 and `Put`s.  `Valid`, `compact`, `Indent` are the only
  callers; each pairs `newScanner` with `defer freeScanner`.
* S3 `checkValid` calls `scan.reset()` before the first `step`.
* S4 `compact`/`Indent` write only to the `dst` buffer they are given (never to `src`).

Encoder (`encode.go`)
* E1 `newEncodeState` on a pooled object calls `Reset()` (buffer length 0), panics when
  `len(ptrSeen) > 0`, assigns `ptrLevel = 0`; on an empty pool allocates a zero state with an
  empty `ptrSeen`.
* E2 every `e.ptrSeen[ptr] = struct{}{}` is immediately followed by `defer delete(e.ptrSeen, ptr)`
  in the same function, so `ptrSeen` has its entry contents again whenever `marshal` returns,
  also when it unwinds by panic.
* E3 `scratch` is always written (`e.scratch[:0]`, `e.scratch[:n]` as destination) before it is read.
* E4 `Marshal`/`MarshalEscaped` return a copy (`append([]byte(nil), e.Bytes()...)`) and
  `defer encodeStatePool.Put(e)` after `newEncodeState` returned.
* E5 `encoderCache`/`fieldCache` are `sync.Map`s whose value is a function of the key type only.

Decoder (`decode.go`, `stream.go`)
* D1 the four `Unmarshal*` functions do `ds.Get`, `defer ds.Put(d)`, `d.useNumber = true`,
  (`checkValid(data, &d.scan)` in the two non-`Valid` variants), `d.init(data)`, `d.unmarshal(v)`;
  the `WithKeys` variants return `d.lastKeys` only when `unmarshal` returned a nil error.
* D2 `init` assigns `data`, `off = 0`, `savedError = nil` and clears `errorContext.Struct` and
  `errorContext.FieldStack` when `errorContext != nil`.
* D3 `unmarshal` calls `d.scan.reset()` and `d.scanWhile(scanSkipSpace)` (which assigns `opcode`
  and `off`) before `d.value`; `opcode` is never read before that.
* D4 `lastKeys` is assigned in exactly one place, the end of `object()` when the target is a map;
  it is read in exactly two places, the `return d.lastKeys` of the `WithKeys` variants.
* D5 `disallowUnknownFields` is assigned only by `Decoder.DisallowUnknownFields`, on the
  `decodeState` embedded BY VALUE in a `Decoder`; that state never reaches `ds.Put` (the only
  `ds.Put` sites are the four `defer`s of D1).  It is read only in the struct branch of `object()`.
* D6 `errorContext` is allocated and filled only in the struct branch of `object()`; `useNumber` is
  read only by `convertNumber`; `savedError` is read by `saveError` and at the end of `unmarshal`.
* D7 `unmarshal` returns `d.savedError` when `d.value` returns nil; `saveError` keeps the first error.

Library (`patch.go`, `merge.go`)
* L1 `partialDoc.UnmarshalJSON` = `keys, err := UnmarshalValidWithKeys(data, &n.obj)`; on a nil
  error `n.keys = keys`.  Decoding the text `null` sets `n.obj = nil` without running `object()`.
* L2 `partialDoc.keys` is mentioned only in `TrustMarshalJSON`, `UnmarshalJSON`, `set`, `remove`
  (patch.go) and `mergeDocs` (merge.go).  `TrustMarshalJSON`, `set`, `remove` start with
  `if obj == nil { return ErrExpectedObject }`.  `mergeDocs(doc, …)` is called from `doMergePatch`
  after `docErr == nil && doc.obj == nil` returned, and from `merge` with the result of
  `intoDoc`, which decodes only texts whose first byte is `{`.
* L3 the library's decode targets are: a `container` holding `*partialDoc`/`*partialArray` and
  `**partialDoc`/`**partialArray` (all reach `partialDoc.UnmarshalJSON`/`partialArray.UnmarshalJSON`),
  `*map[string]*lazyNode`, `*[]*lazyNode`, `*Patch`, `*string`, `*interface{}`,
  `*map[string]interface{}`, `*[]json.RawMessage`.  No struct type.
* L4 package variables: `SupportNegativeIndices`, `AccumulatedCopySizeLimit` are read by
  `NewApplyOptions` only and never assigned; the error sentinels, `rawJSON*`, `rfc6901Decoder`,
  `nullLiteral`, `hex`, the tables are never assigned after initialisation (`newRawMessage`
  copies `rawJSON*`).

NOT covered by anything proved from this model: that the Go code's real memory accesses are the
ones described here (that is what the facts above, pool poisoning and the race detector are for);
writes to caller memory (a pure function cannot express them); data-race freedom in the sense
of the Go memory model.
-/

namespace JP
namespace World

open Impl

/-! ## 1. The scanner -/

/-- `scanner`: the four fields the state machine works on, and `bytes` -/
structure ScanState where
  scan : Scanner.Scan
  /-- `scanner.bytes`: only ever copied into `SyntaxError.Offset` -/
  bytes : Nat := 0
  deriving Repr, Inhabited

/-- `&scanner{}`: `step` is a nil func (calling it would panic; `stateError` stands for it) -/
def ScanState.zero : ScanState :=
  { scan := { st := .stateError, stack := [], endTop := false, err := false }, bytes := 0 }

/-- `scanner.reset()` (fact S1): everything but `bytes`; the stack keeps its array, length 0 -/
def resetScan (s : Scanner.Scan) : Scanner.Scan :=
  { s with st := .stateBeginValue, stack := s.stack.take 0, err := false, endTop := false }

def ScanState.reset (s : ScanState) : ScanState := { s with scan := resetScan s.scan }

/-- `newScanner` after `Get` returned `s` (fact S2) -/
def newScanner (s : ScanState) : ScanState := ({ s with bytes := 0 }).reset

/-- `freeScanner` before the `Put` -/
def freeScanner (s : ScanState) : ScanState :=
  if s.scan.stack.length > 1024 then { s with scan := { s.scan with stack := [] } } else s

/-- the loop of `checkValid`, also returning the scanner as it is left behind and the number
of bytes counted; `false` = a step returned `scanError` -/
def runLeft : Scanner.Scan → Nat → Bytes → Scanner.Scan × Nat × Bool
  | s, n, [] => (s, n, true)
  | s, n, c :: cs =>
    let (s', op) := Scanner.step s c
    if op = Scanner.scanError then (s', n + 1, false) else runLeft s' (n + 1) cs

/-- `scanner.eof()` with the state it leaves: it feeds a space and may set `err` -/
def eofLeft (s : Scanner.Scan) : Scanner.Scan × Bool :=
  if s.err then (s, false)
  else if s.endTop then (s, true)
  else
    let s' := (Scanner.step s 32).1
    if s'.endTop then (s', true) else ({ s' with err := true }, false)

/-- `checkValid(data, scan)` on a scanner in ANY state (fact S3) -/
def checkValidW (left : ScanState) (data : Bytes) : Bool × ScanState :=
  let s0 := left.reset
  match runLeft s0.scan s0.bytes data with
  | (s1, n, false) => (false, { scan := s1, bytes := n })
  | (s1, n, true) =>
    let (s2, ok) := eofLeft s1
    (ok, { scan := s2, bytes := n })

/-- `json.Valid(data)` given the pooled scanner it acquired; second component = what it `Put`s -/
def validW (left : ScanState) (data : Bytes) : Bool × ScanState :=
  let (ok, s) := checkValidW (newScanner left) data
  (ok, freeScanner s)

/-- `compact(dst, src, escape)` into an empty private buffer -/
def compactW (left : ScanState) (esc : Bool) (src : Bytes) : Option Bytes × ScanState :=
  let s0 := newScanner left
  let (s1, out) := Scanner.compactLoop esc s0.scan 0 src []
  let (s2, ok) := eofLeft s1
  ((if ok then some out.reverse else none), freeScanner { scan := s2, bytes := s0.bytes })

/-- `Indent(dst, src, "", indent)` into an empty private buffer -/
def indentW (left : ScanState) (ind : Bytes) (src : Bytes) : Option Bytes × ScanState :=
  let s0 := newScanner left
  let (s1, out) := Scanner.indentLoop ind s0.scan false 0 src []
  let (s2, ok) := eofLeft s1
  ((if ok then some out.reverse else none), freeScanner { scan := s2, bytes := s0.bytes + src.length })

/-! ## 2. The encoder state -/

structure EncState where
  /-- the embedded `bytes.Buffer` -/
  buf : Bytes
  scratch : Bytes
  ptrLevel : Nat
  /-- the addresses in `ptrSeen` -/
  ptrSeen : List Nat
  deriving Repr, Inhabited

/-- what `newEncodeState` allocates when the pool is empty -/
def EncState.zero : EncState := { buf := [], scratch := [], ptrLevel := 0, ptrSeen := [] }

/-- `newEncodeState` on the object `Get` returned (fact E1); `panic` = the
"ptrEncoder.encode should have emptied ptrSeen via defers" panic -/
def newEncodeState (e : EncState) : Outcome EncState :=
  if e.ptrSeen.isEmpty then .ok { e with buf := [], ptrLevel := 0 } else .panic

def startDetectingCyclesAfter : Nat := 1000

/-- what the encoders cannot be trusted to leave alone, as free parameters -/
structure EncHavoc where
  /-- partial output / scratch contents left behind -/
  junk : Bytes := []
  /-- the addresses of the pointers, maps and slices on the path of the deepest value encoded
  (distinct: the trees the library marshals are acyclic) -/
  ptrs : List Nat := []
  deriving Repr, Inhabited

/-- `e.marshal(v, opts)` where encoding `v` in a clean state appends `out`.  The encoders append
to `e.Buffer` (so a buffer that was not reset shows up in the result), and once `ptrLevel`
exceeds 1000 they consult `ptrSeen` (so a stale entry is reported as a cycle).  On an
error the stack unwinds by panic: `ptrLevel` is not restored, `ptrSeen` is (fact E2). -/
def marshalRun (e : EncState) (h : EncHavoc) (out : Outcome Bytes) : Outcome Bytes × EncState :=
  if e.ptrLevel + h.ptrs.length > startDetectingCyclesAfter ∧ h.ptrs.any (fun p => e.ptrSeen.contains p) then
    (.err .other, { e with buf := e.buf ++ h.junk, scratch := h.junk, ptrLevel := e.ptrLevel + h.ptrs.length })
  else
    match out with
    | .ok text => (.ok (e.buf ++ text), { e with buf := e.buf ++ text, scratch := h.junk })
    | .err x => (.err x, { e with buf := e.buf ++ h.junk, scratch := h.junk, ptrLevel := e.ptrLevel + h.ptrs.length })
    | .panic => (.panic, { e with buf := e.buf ++ h.junk, scratch := h.junk, ptrLevel := e.ptrLevel + h.ptrs.length })

/-- `Marshal`/`MarshalEscaped` given the pooled object acquired; `none` = nothing was `Put`
(the panic of `newEncodeState` comes before the `defer`), fact E4 -/
def marshalEscapedW (left : EncState) (h : EncHavoc) (out : Outcome Bytes) : Outcome Bytes × Option EncState :=
  match newEncodeState left with
  | .ok e => let (r, e') := marshalRun e h out; (r, some e')
  | .err x => (.err x, none)
  | .panic => (.panic, none)

/-! ## 3. The decoder state -/

structure ErrCtx where
  /-- `Struct != nil` -/
  struct : Bool
  fieldStack : List Bytes
  deriving Repr, Inhabited, DecidableEq

structure DecState where
  data : Bytes
  off : Nat
  opcode : Nat
  scan : ScanState
  errorContext : Option ErrCtx
  /-- `savedError != nil` -/
  savedError : Bool
  useNumber : Bool
  disallowUnknownFields : Bool
  lastKeys : List Bytes
  deriving Repr, Inhabited

/-- `new(decodeState)` -/
def DecState.zero : DecState :=
  { data := [], off := 0, opcode := 0, scan := ScanState.zero, errorContext := none,
    savedError := false, useNumber := false, disallowUnknownFields := false, lastKeys := [] }

/-- `d.init(data)` (fact D2) -/
def DecState.init (d : DecState) (data : Bytes) : DecState :=
  { d with data := data, off := 0, savedError := false,
           errorContext := d.errorContext.map fun _ => { struct := false, fieldStack := [] } }

/-- the Go type decoded into, as far as the decoder's use of its own state depends on it -/
inductive Target where
  /-- `*map[string]*lazyNode` -/
  | mapLazy
  /-- `*[]*lazyNode` -/
  | sliceLazy
  /-- `*interface{}` -/
  | any
  /-- `*map[string]interface{}` -/
  | mapAny
  /-- `*string` -/
  | str
  /-- `*Patch` = `*[]map[string]*json.RawMessage` -/
  | patch
  /-- `*[]json.RawMessage` -/
  | rawSlice
  /-- a non-nil pointer implementing `Unmarshaler`: the value's text is handed to `UnmarshalJSON` -/
  | delegate
  /-- a struct with the given field names (not used by the library; here to show what
  `disallowUnknownFields` and `errorContext` could influence) -/
  | strct (fields : List Bytes)
  deriving Repr, Inhabited

def isObjOrNull (c : Cst) : Bool := c.isObj || c.isNullLit

def Target.accepts : Target → Cst → Bool
  | .mapLazy, c => isObjOrNull c
  | .sliceLazy, c => c.isArr || c.isNullLit
  | .any, _ => true
  | .mapAny, c => isObjOrNull c
  | .str, c => (match c with | .str _ => true | _ => c.isNullLit)
  | .patch, c => (match c with | .arr xs => xs.all isObjOrNull | _ => c.isNullLit)
  | .rawSlice, c => c.isArr || c.isNullLit
  | .delegate, _ => true
  | .strct _, c => isObjOrNull c

/-- keys of the last object among the elements (every `object()` into a map assigns `lastKeys`) -/
def lastObjKeys : List Cst → List Bytes → List Bytes
  | [], old => old
  | .obj ms :: xs, _ => lastObjKeys xs (decodeKeys ms)
  | _ :: xs, old => lastObjKeys xs old

/-- `lastKeys` after decoding `c` into the target (fact D4): assigned only where `object()` ran
on a map -/
def Target.keysAfter : Target → Cst → List Bytes → List Bytes
  | .mapLazy, .obj ms, _ => decodeKeys ms
  | .mapAny, .obj ms, _ => decodeKeys ms
  | .patch, .arr xs, old => lastObjKeys xs old
  | _, _, old => old

inductive DecOut where
  /-- decoded; `floats` = number literals went through `ParseFloat` (`useNumber` was false) -/
  | ok (c : Cst) (floats : Bool)
  /-- an `UnmarshalTypeError`, decorated with the error context found in the state -/
  | typeErr (ctx : List Bytes)
  /-- the `savedError` found in the state was returned -/
  | saved
  /-- "json: unknown field" -/
  | unknownField
  /-- a `SyntaxError` of `checkValid` -/
  | syntax
  /-- `phasePanicMsg`: the text is not well formed from where the state says to start -/
  | panic
  deriving Repr, Inhabited

def unknownFieldIn (fields : List Bytes) : List (Bytes × Cst) → Bool
  | [] => false
  | (k, _) :: ms => !fields.contains (unquote k) || unknownFieldIn fields ms

/-- `d.unmarshal(v)` as a function of EVERYTHING it finds in `d` (facts D3, D5, D6, D7): it resets
`d.scan` itself, reads `data` from `off`, returns a `savedError` that is already there, consults
`disallowUnknownFields` for structs, `useNumber` for numbers, `errorContext` to decorate. -/
def unmarshalCore (d : DecState) (tgt : Target) : DecOut × DecState :=
  let sc := resetScan d.scan.scan
  let text := d.data.drop d.off
  let (scEnd, n, _) := runLeft sc d.scan.bytes text
  let d1 : DecState := { d with scan := { scan := scEnd, bytes := n }, off := d.data.length + 1,
                                opcode := Scanner.scanEnd }
  match parseCst text with
  | none => (.panic, d1)
  | some c =>
    let d2 : DecState := { d1 with lastKeys := tgt.keysAfter c d.lastKeys }
    if d.savedError then (.saved, { d2 with savedError := true })
    else if !tgt.accepts c then
      (.typeErr ((d.errorContext.map (·.fieldStack)).getD []), { d2 with savedError := true })
    else
      match tgt, c with
      | .strct fields, .obj ms =>
        if d.disallowUnknownFields && unknownFieldIn fields ms then
          (.unknownField, { d2 with savedError := true, errorContext := some { struct := false, fieldStack := [] } })
        else (.ok c (!d.useNumber), { d2 with errorContext := some { struct := false, fieldStack := [] } })
      | _, _ => (.ok c (!d.useNumber), d2)

/-- `UnmarshalValid(data, v)` given the pooled state acquired (fact D1); second component =
what `defer ds.Put(d)` puts back -/
def unmarshalValid (left : DecState) (data : Bytes) (tgt : Target) : DecOut × DecState :=
  unmarshalCore (({ left with useNumber := true }).init data) tgt

/-- `UnmarshalValidWithKeys(data, v)` for `v : *map[string]*lazyNode`: the key list returned is
`d.lastKeys` as it is after the decode, which is the LEFTOVER when the text was not an object -/
def unmarshalValidWithKeys (left : DecState) (data : Bytes) : DecOut × List Bytes × DecState :=
  let (r, d) := unmarshalValid left data .mapLazy
  match r with
  | .ok _ _ => (r, d.lastKeys, d)
  | _ => (r, [], d)

/-- `Unmarshal(data, v)`: `checkValid(data, &d.scan)` first -/
def unmarshal (left : DecState) (data : Bytes) (tgt : Target) : DecOut × DecState :=
  let d0 : DecState := { left with useNumber := true }
  let (ok, sc) := checkValidW d0.scan data
  if ok then unmarshalCore (({ d0 with scan := sc }).init data) tgt
  else (.syntax, { d0 with scan := sc })

/-- `UnmarshalWithKeys(data, v)` for `v : *map[string]*lazyNode` -/
def unmarshalWithKeys (left : DecState) (data : Bytes) : DecOut × List Bytes × DecState :=
  let (r, d) := unmarshal left data .mapLazy
  match r with
  | .ok _ _ => (r, d.lastKeys, d)
  | _ => (r, [], d)

/-! ### the invariants of pooled objects -/

/-- the field of a `decodeState` the code relies on without ever assigning it -/
def DecState.Inv (d : DecState) : Prop := d.disallowUnknownFields = false

/-- the field of an `encodeState` the code relies on without resetting it -/
def EncState.Inv (e : EncState) : Prop := e.ptrSeen = []

/-! ## 4. The library layer: `partialDoc` with its `keys` -/

/-- `partialDoc` (without `self`/`opts`): `obj = none` is the nil map -/
structure PDoc where
  keys : List Bytes
  obj : Option NMembers
  deriving Repr, Inhabited

/-- the node of the pure model: a nil map has no key list there -/
def PDoc.toNode : PDoc → Node
  | ⟨_, none⟩ => .docNil
  | ⟨ks, some o⟩ => .doc ks o

/-- `partialDoc.UnmarshalJSON(data)` on a zero `partialDoc` (fact L1) -/
def partialDocUnmarshal (left : DecState) (data : Bytes) : Outcome PDoc × DecState :=
  match unmarshalValidWithKeys left data with
  | (.ok (.obj ms) _, keys, d) => (.ok { keys := keys, obj := some (decodeMembers ms []) }, d)
  | (.ok _ _, keys, d) => (.ok { keys := keys, obj := none }, d)
  | (.panic, _, d) => (.panic, d)
  | (_, _, d) => (.err .other, d)

/-- `partialArray.UnmarshalJSON(data)`: `UnmarshalValid(data, &n.nodes)` -/
def partialAryUnmarshal (left : DecState) (data : Bytes) : Outcome Node × DecState :=
  match unmarshalValid left data .sliceLazy with
  | (.ok (.arr xs) _, d) => (.ok (decodeAry xs), d)
  | (.ok _ _, d) => (.ok (.ary []), d)      -- `null`: `nodes` stays nil
  | (.panic, d) => (.panic, d)
  | (_, d) => (.err .other, d)

/-! ### the methods of `partialDoc` that mention `keys` (fact L2), transcribed with their guard -/

/-- `TrustMarshalJSON`, as a syntax tree; `val` = what `MarshalEscaped(n.obj[k])` gives -/
def PDoc.trustMarshal (esc : Bool) (p : PDoc) : Outcome Cst :=
  match p.obj with
  | none => .err .expectedObject
  | some obj =>
    let ms := cstOfM esc obj
    .ok (.obj (p.keys.map fun k => (quoteBody esc k, (lookupC k ms).getD litNull)))

/-- `partialDoc.set` (= `add`) -/
def PDoc.set (p : PDoc) (key : Bytes) (val : Node) : Outcome PDoc :=
  match p.obj with
  | none => .err .expectedObject
  | some obj =>
    .ok { keys := (if p.keys.contains key then p.keys else p.keys ++ [key]), obj := some (setN key val obj) }

/-- `partialDoc.remove` -/
def PDoc.remove (o : Opts) (p : PDoc) (key : Bytes) : Outcome PDoc :=
  match p.obj with
  | none => .err .expectedObject
  | some obj =>
    match lookupN key obj with
    | none => if o.allow then .ok p else .err .missing
    | some _ =>
      if p.keys.contains key then .ok { keys := eraseKey key p.keys, obj := some (eraseN key obj) }
      else .panic

/-- `partialDoc.get` (does not mention `keys`; here for completeness of the `container` interface).
An empty key is an ordinary member name (RFC 6901); the `self` argument is kept for the callers
and unused. -/
def PDoc.get (_self : Node) (p : PDoc) (key : Bytes) : Outcome Node :=
  match p.obj with
  | none => .err .expectedObject
  | some obj =>
    match lookupN key obj with
    | some n => .ok n
    | none => .err .missing

/-- the guards of `doMergePatch` between the two `UnmarshalJSON` calls and `mergeDocs`:
`some r` = returned before any use of `keys` -/
def mergeGuard (patchData : Bytes) (doc patch : PDoc) : Option (Outcome Bytes) :=
  if doc.obj.isNone then some (.err .badDoc)
  else if patch.obj.isNone then some (.ok patchData)
  else none

/-- the same guards when one of the two `UnmarshalJSON` calls failed (`docErr`/`patchErr` non-nil) -/
def mergeEarly (patchData : Bytes) (rd rp : Outcome PDoc) : Option (Outcome Bytes) :=
  match rd, rp with
  | .ok d, .ok p => mergeGuard patchData d p
  | .ok d, _ => if d.obj.isNone then some (.err .badDoc) else none
  | .err _, .ok p => if p.obj.isNone then some (.ok patchData) else none
  | _, _ => none

def mapOutcome {α β} (f : α → β) : Outcome α → Outcome β
  | .ok a => .ok (f a)
  | .err e => .err e
  | .panic => .panic

/-! ## 5. Per-call programs

A call is a program over the pools: `get*` hands the continuation whatever object the pool
gives (ANY leftover), `put*` gives one back.  Between the two the object is the call's own. -/

inductive Prog (α : Type) where
  | ret (a : α)
  | getDec (k : DecState → Prog α)
  | putDec (s : DecState) (k : Prog α)
  | getEnc (k : EncState → Prog α)
  | putEnc (s : EncState) (k : Prog α)
  | getScan (k : ScanState → Prog α)
  | putScan (s : ScanState) (k : Prog α)
  /-- `LoadOrStore` on `encoderCache`/`fieldCache`: the value is a function of the key (fact E5),
  so the continuation does not depend on what was loaded -/
  | cache (key : Nat) (k : Prog α)
  /-- private computation -/
  | tau (k : Prog α)

namespace Prog

def bind {α β} : Prog α → (α → Prog β) → Prog β
  | .ret a, f => f a
  | .getDec k, f => .getDec fun s => (k s).bind f
  | .putDec s k, f => .putDec s (k.bind f)
  | .getEnc k, f => .getEnc fun s => (k s).bind f
  | .putEnc s k, f => .putEnc s (k.bind f)
  | .getScan k, f => .getScan fun s => (k s).bind f
  | .putScan s k, f => .putScan s (k.bind f)
  | .cache key k, f => .cache key (k.bind f)
  | .tau k, f => .tau (k.bind f)

end Prog

/-- the leftovers a call meets, acquisition by acquisition (per pool) -/
structure Leftovers where
  dec : Nat → DecState
  enc : Nat → EncState
  scan : Nat → ScanState

/-- run a program alone, the `i`-th acquisition from a pool getting the `i`-th leftover -/
def Prog.runFrom {α} (L : Leftovers) : Prog α → Nat → Nat → Nat → α
  | .ret a, _, _, _ => a
  | .getDec k, i, j, l => (k (L.dec i)).runFrom L (i + 1) j l
  | .putDec _ k, i, j, l => k.runFrom L i j l
  | .getEnc k, i, j, l => (k (L.enc j)).runFrom L i (j + 1) l
  | .putEnc _ k, i, j, l => k.runFrom L i j l
  | .getScan k, i, j, l => (k (L.scan l)).runFrom L i j (l + 1)
  | .putScan _ k, i, j, l => k.runFrom L i j l
  | .cache _ k, i, j, l => k.runFrom L i j l
  | .tau k, i, j, l => k.runFrom L i j l

def Prog.run {α} (L : Leftovers) (p : Prog α) : α := p.runFrom L 0 0 0

/-- the clean world: every acquisition gets a freshly allocated object -/
def Leftovers.fresh : Leftovers :=
  { dec := fun _ => DecState.zero, enc := fun _ => EncState.zero, scan := fun _ => ScanState.zero }

/-! ### programs of the `json` entry points -/

def validP (data : Bytes) : Prog Bool :=
  .getScan fun s => let r := validW s data; .putScan r.2 (.ret r.1)

def compactP (esc : Bool) (src : Bytes) : Prog (Option Bytes) :=
  .getScan fun s => let r := compactW s esc src; .putScan r.2 (.ret r.1)

def indentP (ind : Bytes) (src : Bytes) : Prog (Option Bytes) :=
  .getScan fun s => let r := indentW s ind src; .putScan r.2 (.ret r.1)

def unmarshalValidP (data : Bytes) (tgt : Target) : Prog DecOut :=
  .getDec fun d => let r := unmarshalValid d data tgt; .putDec r.2 (.ret r.1)

def unmarshalP (data : Bytes) (tgt : Target) : Prog DecOut :=
  .getDec fun d => let r := unmarshal d data tgt; .putDec r.2 (.ret r.1)

/-- `MarshalEscaped(v, esc)` where encoding `v` yields `out`; the type's encoder is looked up in
`encoderCache` first -/
def marshalP (h : EncHavoc) (out : Outcome Bytes) : Prog (Outcome Bytes) :=
  .getEnc fun e =>
    match marshalEscapedW e h out with
    | (r, some e') => .cache 0 (.putEnc e' (.ret r))
    | (r, none) => .ret r

/-- `unmarshal(data, pd)` with `pd` a `*partialDoc`: the outer decoder (its own pooled state)
finds an `Unmarshaler` and calls `partialDoc.UnmarshalJSON`, which takes a SECOND state from
the pool while the first is still held -/
def docUnmarshalP (data : Bytes) : Prog (Outcome PDoc) :=
  .getDec fun d0 =>
    match unmarshalValid d0 data .delegate with
    | (.ok _ _, d0') =>
      .getDec fun d1 =>
        let r := partialDocUnmarshal d1 data
        .putDec r.2 (.putDec d0' (.ret r.1))
    | (.panic, d0') => .putDec d0' (.ret .panic)
    | (_, d0') => .putDec d0' (.ret (.err .other))

/-- `unmarshal(data, pd)` with `pd` a `*partialArray` -/
def aryUnmarshalP (data : Bytes) : Prog (Outcome Node) :=
  .getDec fun d0 =>
    match unmarshalValid d0 data .delegate with
    | (.ok _ _, d0') =>
      .getDec fun d1 =>
        let r := partialAryUnmarshal d1 data
        .putDec r.2 (.putDec d0' (.ret r.1))
    | (.panic, d0') => .putDec d0' (.ret .panic)
    | (_, d0') => .putDec d0' (.ret (.err .other))

/-! ### the inner calls of a library function

While a library function works on its private tree it calls the `json` entry points an
input-dependent number of times (`intoDoc`, `intoAry`, `tryDoc`, `Operation.Path`, `isNull` →
`compact`, `TrustMarshalJSON` → `MarshalEscaped` per member, …).  What each of these calls
computes is the pure function of the implementation model; what they do to the pools is
described by a list of inner calls, which the theorems quantify over. -/

inductive Inner where
  | decode (data : Bytes) (tgt : Target)
  | encode (h : EncHavoc) (out : Outcome Bytes)
  | compact (esc : Bool) (src : Bytes)
  | valid (data : Bytes)
  deriving Inhabited

def innerP : List Inner → Prog Unit
  | [] => .ret ()
  | .decode data tgt :: rest => (unmarshalValidP data tgt).bind fun _ => innerP rest
  | .encode h out :: rest => (marshalP h out).bind fun _ => innerP rest
  | .compact esc src :: rest => (compactP esc src).bind fun _ => innerP rest
  | .valid data :: rest => (validP data).bind fun _ => innerP rest

/-- havoc parameters of one library call -/
structure Havoc where
  /-- the pool traffic of the inner calls -/
  inner : List Inner := []
  /-- for the final `Marshal` -/
  enc : EncHavoc := {}
  /-- what a result computed from `float64` numbers would be (never used: `useNumber` is set) -/
  floatResult : Outcome Bytes := .err .other
  deriving Inhabited

/-! ### programs of the exported API -/

/-- the root container after `unmarshal(doc, pd)` -/
inductive WRoot where
  | doc (p : PDoc)
  | ary (n : Node)
  deriving Inhabited

def WRoot.toNode : WRoot → Node
  | .doc p => p.toNode
  | .ary n => n

/-- `isArray(TrimLeft(doc))` chooses the container; then `unmarshal(doc, pd)` -/
def rootUnmarshalP (doc : Bytes) (c : Cst) : Prog (Outcome WRoot) :=
  if c.isArr then (aryUnmarshalP doc).bind fun r => .ret (mapOutcome WRoot.ary r)
  else (docUnmarshalP doc).bind fun r => .ret (mapOutcome WRoot.doc r)

/-- `Patch.ApplyIndentWithOptions` -/
def applyP (h : Havoc) (o : Opts) (indent : Bytes) (doc : Bytes) (ops : List Op) : Prog (Outcome Bytes) :=
  if doc = [] then .ret (.ok doc)
  else (validP doc).bind fun v =>
    if !v then .ret (.err .invalid)
    else match parseCst doc with
      | none => .ret (.err .invalid)
      | some c =>
        (rootUnmarshalP doc c).bind fun r =>
          match r with
          | .panic => .ret .panic
          | .err e => .ret (.err e)
          | .ok root =>
            (innerP h.inner).bind fun _ =>
              match applyOps o { con := root.toNode, self := .raw c, selfCR := c.isArr && !goIsArray doc } 0 ops with
              | .panic => .ret .panic
              | .err e => .ret (.err e)
              | .ok r' =>
                (marshalP h.enc (marshalRoot o.esc r')).bind fun m =>
                  match m with
                  | .panic => .ret .panic
                  | .err e => .ret (.err e)
                  | .ok data =>
                    if indent = [] then .ret (.ok data)
                    else (indentP indent data).bind fun x => .ret (.ok (x.getD []))

/-- `DecodePatch` -/
def decodePatchP (h : Havoc) (bs : Bytes) : Prog (Outcome (List Op)) :=
  (validP bs).bind fun v =>
    if !v then .ret (.err .invalid)
    else (unmarshalValidP bs .patch).bind fun r =>
      match r with
      | .ok (.arr xs) _ =>
        (innerP h.inner).bind fun _ =>
          .ret (match decodeOps xs with | some ops => .ok ops | none => .err .other)
      | .ok _ _ => .ret (.err .invalid)          -- `p == nil`
      | .panic => .ret (.err .invalid)           -- not reachable: the text was validated
      | _ => .ret (.err .other)

/-- `Equal` -/
def equalP (h : Havoc) (a b : Bytes) : Prog Bool :=
  (validP a).bind fun va =>
    if !va then .ret false
    else (validP b).bind fun vb =>
      if !vb then .ret false
      else (innerP h.inner).bind fun _ =>
        .ret (match parseCst a, parseCst b with
              | some ca, some cb => eqCC ca cb
              | _, _ => false)

/-- `doMergePatch` -/
def doMergePatchP (h : Havoc) (mm : Bool) (docData patchData : Bytes) : Prog (Outcome Bytes) :=
  (validP docData).bind fun vd =>
    if !vd then .ret (.err .badDoc)
    else (validP patchData).bind fun vp =>
      if !vp then .ret (.err .badPatch)
      else
        -- `doc.UnmarshalJSON(docData)`, `patch.UnmarshalJSON(patchData)`: direct calls
        Prog.getDec fun d1 =>
          let rd := partialDocUnmarshal d1 docData
          .putDec rd.2 <| Prog.getDec fun d2 =>
            let rp := partialDocUnmarshal d2 patchData
            .putDec rp.2 <|
              (innerP h.inner).bind fun _ =>
                -- the guards on `obj == nil` come before anything else looks at the documents
                match mergeEarly patchData rd.1 rp.1 with
                | some r => .ret r
                | none =>
                  let pure := doMergePatch mm docData patchData
                  -- a literal patch is returned as is, without `Marshal`
                  match parseCst patchData with
                  | some (.obj _) => marshalP h.enc pure
                  | some (.arr _) => marshalP h.enc pure
                  | _ => .ret pure

/-- `CreateMergePatch`: the documents are decoded into `interface{}` values, whose numbers
depend on `useNumber` -/
def createMergePatchP (h : Havoc) (a b : Bytes) : Prog (Outcome Bytes) :=
  (validP a).bind fun va =>
    if !va then .ret (.err .badDoc)
    else (validP b).bind fun vb =>
      if !vb then .ret (.err .badDoc)
      else (unmarshalValidP a .any).bind fun ra =>
        (unmarshalValidP b .any).bind fun rb =>
          (innerP h.inner).bind fun _ =>
            match ra, rb with
            | .ok _ false, .ok _ false =>
              let pure := createMergePatch a b
              (match pure with
               | .ok _ => marshalP h.enc pure
               | _ => .ret pure)
            | .ok _ _, .ok _ _ => .ret h.floatResult
            | _, _ => .ret (.err .badDoc)

/-! ### the exported API as one type of calls -/

inductive Call where
  | apply (h : Havoc) (o : Opts) (indent doc : Bytes) (ops : List Op)
  | decodePatch (h : Havoc) (bs : Bytes)
  | equal (h : Havoc) (a b : Bytes)
  | mergePatch (h : Havoc) (doc patch : Bytes)
  | mergeMergePatches (h : Havoc) (p1 p2 : Bytes)
  | createMergePatch (h : Havoc) (a b : Bytes)
  deriving Inhabited

inductive Res where
  | bytes (r : Outcome Bytes)
  | ops (r : Outcome (List Op))
  | bool (b : Bool)
  deriving Inhabited

/-- the call as a program over the pools -/
def Call.prog : Call → Prog Res
  | .apply h o indent doc ops => (applyP h o indent doc ops).bind fun r => .ret (.bytes r)
  | .decodePatch h bs => (decodePatchP h bs).bind fun r => .ret (.ops r)
  | .equal h a b => (equalP h a b).bind fun r => .ret (.bool r)
  | .mergePatch h d p => (doMergePatchP h false d p).bind fun r => .ret (.bytes r)
  | .mergeMergePatches h a b => (doMergePatchP h true a b).bind fun r => .ret (.bytes r)
  | .createMergePatch h a b => (createMergePatchP h a b).bind fun r => .ret (.bytes r)

/-- the same call in the pure implementation model (no pools, no havoc) -/
def Call.pure : Call → Res
  | .apply _ o indent doc ops => .bytes (Impl.applyBytes o indent doc ops)
  | .decodePatch _ bs => .ops (Impl.decodePatch bs)
  | .equal _ a b => .bool (Impl.equal a b)
  | .mergePatch _ d p => .bytes (Impl.mergePatch d p)
  | .mergeMergePatches _ a b => .bytes (Impl.mergeMergePatches a b)
  | .createMergePatch _ a b => .bytes (Impl.createMergePatch a b)

end World
end JP
